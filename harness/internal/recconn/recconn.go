// Package recconn is a recording in-process res.Conn: it validates subjects as
// nats.go does, records subscriptions and publications in order, and delivers
// messages to subscription channels with NATS subject-matching semantics.
package recconn

import (
	"errors"
	"strings"
	"sync"

	nats "github.com/nats-io/nats.go"
)

// Pub is one published message.
type Pub struct {
	Subject string
	Reply   string
	Data    []byte
	Failed  bool // the publish was refused by the connection (FailPub)
}

// Sub is one subscription.
type Sub struct {
	Subject string
	Queue   string
	Ch      chan *nats.Msg
	NSub    *nats.Subscription
}

// Conn implements res.Conn.
type Conn struct {
	mu          sync.Mutex
	Subs        []*Sub
	Pubs        []Pub
	Closed      int
	FailSubs    map[int]bool // indexes (in call order) of subscribe calls that fail
	nsubs       int
	OnPub       func(Pub)            // called outside the lock, in publish order per goroutine
	OnSubscribe func(subject string) // called before each subscription is recorded
	FailPub     func(subject string) bool // when it returns true the publish is recorded as an attempt and fails
	cond        *sync.Cond
	sendMu      sync.RWMutex // held (shared) while delivering; Close waits for deliveries in flight
	noSend      bool
}

// New returns a connection.
func New() *Conn {
	c := &Conn{FailSubs: map[int]bool{}}
	c.cond = sync.NewCond(&c.mu)
	return c
}

func badSubject(subj string) bool {
	if subj == "" || strings.ContainsAny(subj, " \t\r\n") {
		return true
	}
	for _, t := range strings.Split(subj, ".") {
		if len(t) == 0 {
			return true
		}
	}
	return false
}

// Publish records a message.
func (c *Conn) Publish(subject string, payload []byte) error {
	return c.PublishRequest(subject, "", payload)
}

// PublishRequest records a message with reply subject.
func (c *Conn) PublishRequest(subject, reply string, payload []byte) error {
	p := Pub{Subject: subject, Reply: reply, Data: append([]byte(nil), payload...)}
	if subject == "" {
		// nats.go refuses it; the attempt is recorded all the same, so that it can be judged
		c.mu.Lock()
		c.Pubs = append(c.Pubs, p)
		cb := c.OnPub
		c.cond.Broadcast()
		c.mu.Unlock()
		if cb != nil {
			cb(p)
		}
		return errors.New("nats: invalid subject")
	}
	c.mu.Lock()
	if c.Closed > 0 {
		c.mu.Unlock()
		return errors.New("nats: connection closed")
	}
	if f := c.FailPub; f != nil && f(subject) {
		p.Failed = true
		c.Pubs = append(c.Pubs, p)
		c.cond.Broadcast()
		c.mu.Unlock()
		return errors.New("nats: maximum payload exceeded")
	}
	c.Pubs = append(c.Pubs, p)
	cb := c.OnPub
	c.cond.Broadcast()
	c.mu.Unlock()
	if cb != nil {
		cb(p)
	}
	return nil
}

func (c *Conn) subscribe(subject, queue string, ch chan *nats.Msg) (*nats.Subscription, error) {
	if cb := c.OnSubscribe; cb != nil {
		cb(subject) // outside the lock: the callback may use the connection
	}
	c.mu.Lock()
	defer c.mu.Unlock()
	idx := c.nsubs
	c.nsubs++
	if c.FailSubs[idx] {
		return nil, errors.New("recconn: subscription failed")
	}
	if badSubject(subject) {
		return nil, errors.New("nats: invalid subject")
	}
	if ch == nil {
		return nil, errors.New("nats: channel argument can not be nil")
	}
	ns := &nats.Subscription{Subject: subject, Queue: queue}
	c.Subs = append(c.Subs, &Sub{Subject: subject, Queue: queue, Ch: ch, NSub: ns})
	return ns, nil
}

// ChanSubscribe records a subscription.
func (c *Conn) ChanSubscribe(subject string, ch chan *nats.Msg) (*nats.Subscription, error) {
	return c.subscribe(subject, "", ch)
}

// ChanQueueSubscribe records a queue subscription.
func (c *Conn) ChanQueueSubscribe(subject, queue string, ch chan *nats.Msg) (*nats.Subscription, error) {
	return c.subscribe(subject, queue, ch)
}

// Close records the close.
func (c *Conn) Close() {
	// like a real connection, nothing is delivered to the subscription channels any more
	// once Close has returned (the service closes its channel right after)
	c.sendMu.Lock()
	c.noSend = true
	c.sendMu.Unlock()
	c.mu.Lock()
	c.Closed++
	c.cond.Broadcast()
	c.mu.Unlock()
}

// Matches is NATS subject matching of a subscription subject against a concrete subject.
func Matches(sub, subj string) bool {
	st := strings.Split(sub, ".")
	tt := strings.Split(subj, ".")
	for i, s := range st {
		if s == ">" {
			return i < len(tt)
		}
		if i >= len(tt) {
			return false
		}
		if s != "*" && s != tt[i] {
			return false
		}
	}
	return len(st) == len(tt)
}

// Deliver sends a message to every matching subscription (once per queue
// group). It returns the number of deliveries.
func (c *Conn) Deliver(subject, reply string, data []byte) int {
	c.sendMu.RLock()
	defer c.sendMu.RUnlock()
	if c.noSend {
		return 0
	}
	c.mu.Lock()
	var targets []*Sub
	seenQ := map[string]bool{}
	for _, s := range c.Subs {
		if !Matches(s.Subject, subject) {
			continue
		}
		if s.Queue != "" {
			// a queue group is a (subject, queue name) pair: subscriptions on different subjects
			// each get the message even when they share the queue name
			k := s.Subject + " " + s.Queue
			if seenQ[k] {
				continue
			}
			seenQ[k] = true
		}
		targets = append(targets, s)
	}
	c.mu.Unlock()
	for _, s := range targets {
		s.Ch <- &nats.Msg{Subject: subject, Reply: reply, Data: data, Sub: s.NSub}
	}
	return len(targets)
}

// FailNext makes the subscribe call with the given index (in call order) fail.
func (c *Conn) FailNext(idx int) {
	c.mu.Lock()
	c.FailSubs[c.nsubs] = true
	_ = idx
	c.mu.Unlock()
}

// Snapshot returns copies of the recorded subscriptions and publications.
func (c *Conn) Snapshot() ([]Sub, []Pub) {
	c.mu.Lock()
	defer c.mu.Unlock()
	subs := make([]Sub, len(c.Subs))
	for i, s := range c.Subs {
		subs[i] = *s
	}
	return subs, append([]Pub(nil), c.Pubs...)
}

// NumPubs returns the number of publications so far.
func (c *Conn) NumPubs() int {
	c.mu.Lock()
	defer c.mu.Unlock()
	return len(c.Pubs)
}

// ClosedCount returns how often Close was called.
func (c *Conn) ClosedCount() int {
	c.mu.Lock()
	defer c.mu.Unlock()
	return c.Closed
}

// WaitPub waits until a publication at index >= from satisfies pred and returns
// it with its index; ok is false on timeout (given as a number of milliseconds).
func (c *Conn) WaitPub(from int, pred func(Pub) bool, timeoutMs int) (Pub, int, bool) {
	deadline := timeNow().Add(msDuration(timeoutMs))
	c.mu.Lock()
	defer c.mu.Unlock()
	i := from
	for {
		for ; i < len(c.Pubs); i++ {
			if pred(c.Pubs[i]) {
				return c.Pubs[i], i, true
			}
		}
		if !timeNow().Before(deadline) {
			return Pub{}, -1, false
		}
		waitCond(c.cond, deadline)
	}
}
