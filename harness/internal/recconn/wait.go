package recconn

import (
	"sync"
	"time"
)

func timeNow() time.Time              { return time.Now() }
func msDuration(ms int) time.Duration { return time.Duration(ms) * time.Millisecond }

// waitCond waits on the condition variable, waking up at the deadline at the latest.
func waitCond(c *sync.Cond, deadline time.Time) {
	d := time.Until(deadline)
	if d <= 0 {
		return
	}
	if d > 20*time.Millisecond {
		d = 20 * time.Millisecond
	}
	t := time.AfterFunc(d, c.Broadcast)
	c.Wait()
	t.Stop()
}
