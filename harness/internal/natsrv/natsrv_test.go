package natsrv

import "testing"

func TestStart(t *testing.T) {
	s, err := Start()
	if err != nil {
		t.Fatal(err)
	}
	defer s.Stop()
	nc, err := s.Connect()
	if err != nil {
		t.Fatal(err)
	}
	sub, _ := nc.SubscribeSync("x")
	if nc.NumSubscriptions() != 1 || !sub.IsValid() {
		t.Fatal("subs")
	}
	sub.Unsubscribe()
	if nc.NumSubscriptions() != 0 || sub.IsValid() {
		t.Fatal("unsub")
	}
	nc.Close()
}
