// Package natsrv runs an embedded NATS server (the nats-server version go-res's own test
// helpers use) on a random loopback port.
package natsrv

import (
	"fmt"
	"sync"
	"time"

	"github.com/nats-io/nats-server/v2/server"
	nats "github.com/nats-io/nats.go"
)

// Server is a running embedded server.
type Server struct {
	S   *server.Server
	URL string
}

var (
	mu     sync.Mutex
	shared *Server
)

// Start starts a server on a random loopback port.
func Start() (*Server, error) {
	opts := &server.Options{Host: "127.0.0.1", Port: -1, NoLog: true, NoSigs: true}
	s, err := server.NewServer(opts)
	if err != nil {
		return nil, err
	}
	go s.Start()
	if !s.ReadyForConnections(10 * time.Second) {
		return nil, fmt.Errorf("embedded nats-server did not start")
	}
	return &Server{S: s, URL: s.ClientURL()}, nil
}

// Shared returns a process-wide server, started on first use.
func Shared() (*Server, error) {
	mu.Lock()
	defer mu.Unlock()
	if shared == nil {
		s, err := Start()
		if err != nil {
			return nil, err
		}
		shared = s
	}
	return shared, nil
}

// Connect opens a client connection.
func (s *Server) Connect() (*nats.Conn, error) { return nats.Connect(s.URL) }

// Stop shuts the server down.
func (s *Server) Stop() { s.S.Shutdown() }
