// Package natsrv runs an embedded NATS server (the nats-server version go-res's own test
// helpers use) on a random loopback port.
package natsrv

import (
	"fmt"
	"io"
	"net"
	"sync"
	"time"

	"github.com/nats-io/nats-server/v2/server"
	nats "github.com/nats-io/nats.go"
)

// Server is a running embedded server.
type Server struct {
	S   *server.Server
	URL string
}

var (
	mu     sync.Mutex
	shared *Server
)

// Start starts a server on a random loopback port.
func Start() (*Server, error) {
	opts := &server.Options{Host: "127.0.0.1", Port: -1, NoLog: true, NoSigs: true}
	s, err := server.NewServer(opts)
	if err != nil {
		return nil, err
	}
	go s.Start()
	if !s.ReadyForConnections(10 * time.Second) {
		return nil, fmt.Errorf("embedded nats-server did not start")
	}
	return &Server{S: s, URL: s.ClientURL()}, nil
}

// Shared returns a process-wide server, started on first use.
func Shared() (*Server, error) {
	mu.Lock()
	defer mu.Unlock()
	if shared == nil {
		s, err := Start()
		if err != nil {
			return nil, err
		}
		shared = s
	}
	return shared, nil
}

// Connect opens a client connection.
func (s *Server) Connect() (*nats.Conn, error) { return nats.Connect(s.URL) }

// Stop shuts the server down.
func (s *Server) Stop() { s.S.Shutdown() }

// Proxy is a TCP proxy in front of a server; cutting it makes clients reconnect while the
// server (and clients connected directly) stay up.
type Proxy struct {
	ln     net.Listener
	target string
	mu     sync.Mutex
	conns  []net.Conn
}

// NewProxy listens on a random loopback port and forwards to target ("host:port").
func NewProxy(target string) (*Proxy, error) {
	ln, err := net.Listen("tcp", "127.0.0.1:0")
	if err != nil {
		return nil, err
	}
	p := &Proxy{ln: ln, target: target}
	go func() {
		for {
			c, err := ln.Accept()
			if err != nil {
				return
			}
			t, err := net.Dial("tcp", target)
			if err != nil {
				c.Close()
				continue
			}
			p.mu.Lock()
			p.conns = append(p.conns, c, t)
			p.mu.Unlock()
			go func() { io.Copy(t, c); t.Close(); c.Close() }()
			go func() { io.Copy(c, t); t.Close(); c.Close() }()
		}
	}()
	return p, nil
}

// URL is the nats URL of the proxy.
func (p *Proxy) URL() string { return "nats://" + p.ln.Addr().String() }

// Cut closes every connection going through the proxy.
func (p *Proxy) Cut() {
	p.mu.Lock()
	cs := p.conns
	p.conns = nil
	p.mu.Unlock()
	for _, c := range cs {
		c.Close()
	}
}

// Close stops the proxy.
func (p *Proxy) Close() { p.ln.Close(); p.Cut() }
