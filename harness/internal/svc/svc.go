// Package svc runs a real res.Service on a recording connection.
package svc

import (
	"fmt"
	"strings"
	"sync/atomic"
	"time"

	res "github.com/jirenius/go-res"
	"verif/harness/internal/recconn"
)

// NopLogger discards everything.
type NopLogger struct{}

func (NopLogger) Infof(string, ...interface{})  {}
func (NopLogger) Errorf(string, ...interface{}) {}
func (NopLogger) Tracef(string, ...interface{}) {}

// Runner is a served service.
type Runner struct {
	S    *res.Service
	C    *recconn.Conn
	Done chan error
	seq  int64
}

// Start serves s on a fresh recording connection and waits until it listens.
func Start(s *res.Service) (*Runner, error) {
	r := &Runner{S: s, C: recconn.New(), Done: make(chan error, 1)}
	served := make(chan struct{})
	s.SetOnServe(func(*res.Service) { close(served) })
	go func() { r.Done <- s.Serve(r.C) }()
	select {
	case <-served:
		return r, nil
	case err := <-r.Done:
		return nil, fmt.Errorf("serve returned: %v", err)
	case <-time.After(10 * time.Second):
		return nil, fmt.Errorf("serve did not start")
	}
}

// Stop shuts the service down; false if it hangs.
func (r *Runner) Stop() bool {
	go r.S.Shutdown()
	select {
	case <-r.Done:
		return true
	case <-time.After(10 * time.Second):
		return false
	}
}

// IsPre tells whether a payload is a pre-response (timeout:"…").
func IsPre(data []byte) bool {
	return len(data) > 0 && data[0] != '{' && strings.Contains(string(data), ":")
}

// Request delivers a request and waits for the first non-pre-response on a
// fresh reply subject. It returns the response and the index range of
// publications made meanwhile.
func (r *Runner) Request(subject string, payload []byte, timeoutMs int) ([]byte, bool) {
	reply := fmt.Sprintf("_INBOX.h%d", atomic.AddInt64(&r.seq, 1))
	from := r.C.NumPubs()
	if r.C.Deliver(subject, reply, payload) == 0 {
		return nil, false
	}
	p, _, ok := r.C.WaitPub(from, func(p recconn.Pub) bool { return p.Subject == reply && !IsPre(p.Data) }, timeoutMs)
	return p.Data, ok
}
