package dom

import (
	"encoding/json"
	"fmt"
	"strconv"
	"strings"
	"sync"
	"sync/atomic"
	"time"

	res "github.com/jirenius/go-res"
	"verif/harness/internal/recconn"
	"verif/harness/internal/svc"
	"verif/harness/internal/wire"
)

// Fixed scenarios of the qe domain (C15): things that need two callbacks in flight.

// qeScenService serves resource "q" (group `group`) and "other" (same group) with a
// call method that records when it ran.
func qeScenService(group string, workers int, otherRan func()) (*svc.Runner, error) {
	s := res.NewService("svc")
	s.SetLogger(svc.NopLogger{})
	s.SetWorkerCount(workers)
	s.SetQueryEventDuration(qeDuration)
	s.Handle("q", res.Group(group), res.GetResource(func(r res.GetRequest) { r.NotFound() }),
		// the query event can also be made from a request handler (on the request's own resource value)
		res.Call("mk", func(r res.CallRequest) {
			if cb, ok := qeMkCb.Load().(func(res.QueryRequest)); ok && cb != nil {
				r.QueryEvent(cb)
			}
			r.OK(nil)
		}))
	s.Handle("other", res.Group(group), res.Call("do", func(r res.CallRequest) {
		otherRan()
		r.OK(nil)
	}))
	return svc.Start(s)
}

var qeMkCb atomic.Value // func(res.QueryRequest)
var qeForce int32       // 1: always With, 2: always a request, 0: alternate
var qeViaRequest int32  // the scenarios alternate between With and a call request for creating the query event

func qeStartEvent(run *svc.Runner, cb func(res.QueryRequest)) (string, bool) {
	from := run.C.NumPubs()
	viaRequest := atomic.AddInt32(&qeViaRequest, 1)%2 == 0
	switch atomic.LoadInt32(&qeForce) {
	case 1:
		viaRequest = false
	case 2:
		viaRequest = true
	}
	if viaRequest && run.S.Contains(func(h res.Handler) bool { return h.Call != nil && h.Call["mk"] != nil }) {
		qeMkCb.Store(cb)
		if _, ok := run.Request("call.svc.q.mk", []byte(`{}`), 3000); !ok {
			return "", false
		}
	} else {
		done := make(chan struct{})
		if err := run.S.With("svc.q", func(r res.Resource) { r.QueryEvent(cb); close(done) }); err != nil {
			return "", false
		}
		select {
		case <-done:
		case <-time.After(3 * time.Second):
			return "", false
		}
	}
	p, _, ok := run.C.WaitPub(from, func(p recconn.Pub) bool { return p.Subject == "event.svc.q.query" }, 2000)
	if !ok {
		return "", false
	}
	var ev struct {
		Subject string `json:"subject"`
	}
	json.Unmarshal(p.Data, &ev)
	return ev.Subject, ev.Subject != ""
}

func countResponses(c *recconn.Conn, reply string) int {
	_, pubs := c.Snapshot()
	n := 0
	for _, p := range pubs {
		if p.Subject == reply && !svc.IsPre(p.Data) {
			n++
		}
	}
	return n
}

// qeSerial: "with its callback serialized in the resource's group". The resource belongs to
// an explicit group shared with another resource. While the query callback runs, a call on
// the other resource must wait; while that call's handler runs, a query callback must wait.
func qeSerial(workers int) string {
	atomic.StoreInt32(&qeForce, int32(1+workers%2)) // even worker counts: With; odd: from a request handler
	defer atomic.StoreInt32(&qeForce, 0)
	var mu sync.Mutex
	otherCount := 0
	otherGate := make(chan struct{}, 1) // when non-empty the "other" handler blocks on release2
	release2 := make(chan struct{})
	otherEntered := make(chan struct{}, 4)
	run, err := qeScenService("shared", workers, func() {
		mu.Lock()
		otherCount++
		mu.Unlock()
		otherEntered <- struct{}{}
		select {
		case <-otherGate:
			<-release2
		default:
		}
	})
	if err != nil {
		return "start-failed"
	}
	defer run.Stop()
	entered := make(chan struct{}, 4)
	release := make(chan struct{})
	blockFirst := true
	cbCount := 0
	subject, ok := qeStartEvent(run, func(q res.QueryRequest) {
		if q == nil {
			return
		}
		mu.Lock()
		cbCount++
		first := blockFirst
		blockFirst = false
		mu.Unlock()
		entered <- struct{}{}
		if first {
			select {
			case <-release:
			case <-time.After(2 * time.Second):
			}
		}
		q.NotFound()
	})
	if !ok {
		return "no-query-subject"
	}
	// (a) the query callback holds the group: the call on the other resource waits
	run.C.Deliver(subject, "_INBOX.s1", []byte(`{"query":"a=1"}`))
	select {
	case <-entered:
	case <-time.After(2 * time.Second):
		return "callback-not-called"
	}
	run.C.Deliver("call.svc.other.do", "_INBOX.s2", nil)
	time.Sleep(40 * time.Millisecond)
	mu.Lock()
	a := otherCount == 0
	mu.Unlock()
	close(release)
	select {
	case <-otherEntered:
	case <-time.After(2 * time.Second):
		return "other-handler-never-ran"
	}
	// (b) the other resource's handler holds the group: a query callback waits
	otherGate <- struct{}{}
	run.C.Deliver("call.svc.other.do", "_INBOX.s3", nil)
	select {
	case <-otherEntered:
	case <-time.After(2 * time.Second):
		return "other-handler-never-ran"
	}
	run.C.Deliver(subject, "_INBOX.s4", []byte(`{"query":"a=1"}`))
	time.Sleep(40 * time.Millisecond)
	mu.Lock()
	b := cbCount == 1
	mu.Unlock()
	close(release2)
	select {
	case <-entered:
	case <-time.After(2 * time.Second):
		return "second-callback-never-ran"
	}
	tf := func(x bool) string {
		if x {
			return "T"
		}
		return "F"
	}
	return "serial call-waits-for-callback=" + tf(a) + " callback-waits-for-call=" + tf(b)
}

// qeQueued: a query request received while the event is active but still queued in the
// group when the duration passes. It was received on an active query event, so it gets its
// one response; the nil call comes after it, once.
func qeQueued(workers int) string {
	atomic.StoreInt32(&qeForce, int32(1+(workers+1)%2))
	defer atomic.StoreInt32(&qeForce, 0)
	run, err := qeScenService("shared", workers, func() {})
	if err != nil {
		return "start-failed"
	}
	defer run.Stop()
	var mu sync.Mutex
	var order []string
	release := make(chan struct{})
	nilCh := make(chan struct{}, 4)
	subject, ok := qeStartEvent(run, func(q res.QueryRequest) {
		if q == nil {
			mu.Lock()
			order = append(order, "nil")
			mu.Unlock()
			nilCh <- struct{}{}
			return
		}
		mu.Lock()
		first := len(order) == 0
		order = append(order, "q")
		mu.Unlock()
		if first {
			select {
			case <-release:
			case <-time.After(3 * time.Second):
			}
		}
		q.NotFound()
	})
	if !ok {
		return "no-query-subject"
	}
	run.C.Deliver(subject, "_INBOX.u1", []byte(`{"query":"a=1"}`))
	time.Sleep(10 * time.Millisecond)
	run.C.Deliver(subject, "_INBOX.u2", []byte(`{"query":"a=2"}`)) // received well inside the duration
	time.Sleep(qeDuration + 60*time.Millisecond)                   // the duration passes while the first callback still runs
	close(release)
	select {
	case <-nilCh:
	case <-time.After(3 * time.Second):
		return "no-nil-call"
	}
	time.Sleep(20 * time.Millisecond)
	mu.Lock()
	defer mu.Unlock()
	out := ""
	for _, o := range order {
		out += o + ","
	}
	return fmt.Sprintf("queued r1=%d r2=%d order=%s", countResponses(run.C, "_INBOX.u1"), countResponses(run.C, "_INBOX.u2"), out)
}

// qeLateEnqueue: a query request is taken off the subscription while the event is active, but
// the listener is held (at its note hook) until the event has expired and the nil call is
// queued behind a busy group; then it enqueues the request. The callback must not be called
// after it was called with nil.
func qeLateEnqueue(workers int) string {
	var mu sync.Mutex
	var order []string
	arrived := make(chan struct{}, 1)
	releaseListener := make(chan struct{})
	expired := make(chan struct{}, 1)
	held := false
	setHooks(func(point, wid string, n int) {
		switch point {
		case "s.qrequest":
			mu.Lock()
			first := !held
			held = true
			mu.Unlock()
			if first {
				arrived <- struct{}{}
				<-releaseListener
			}
		case "s.qexpire":
			select {
			case expired <- struct{}{}:
			default:
			}
		}
	}, nil)
	defer setHooks(nil, nil)
	otherEntered := make(chan struct{}, 1)
	releaseGroup := make(chan struct{})
	run, err := qeScenService("shared", workers, func() {
		otherEntered <- struct{}{}
		<-releaseGroup
	})
	if err != nil {
		return "start-failed"
	}
	defer run.Stop()
	nilCh := make(chan struct{}, 4)
	subject, ok := qeStartEvent(run, func(q res.QueryRequest) {
		mu.Lock()
		if q == nil {
			order = append(order, "nil")
		} else {
			order = append(order, "q")
		}
		mu.Unlock()
		if q == nil {
			nilCh <- struct{}{}
			return
		}
		q.NotFound()
	})
	if !ok {
		close(releaseListener)
		close(releaseGroup)
		return "no-query-subject"
	}
	// the group is busy from now on
	run.C.Deliver("call.svc.other.do", "_INBOX.l0", nil)
	select {
	case <-otherEntered:
	case <-time.After(2 * time.Second):
		close(releaseListener)
		close(releaseGroup)
		return "other-handler-never-ran"
	}
	// received while the event is active; the listener stops right after taking it
	run.C.Deliver(subject, "_INBOX.l1", []byte(`{"query":"a=1"}`))
	select {
	case <-arrived:
	case <-time.After(2 * time.Second):
		close(releaseListener)
		close(releaseGroup)
		return "request-not-received"
	}
	select {
	case <-expired:
	case <-time.After(3 * time.Second):
		close(releaseListener)
		close(releaseGroup)
		return "no-expiry"
	}
	time.Sleep(20 * time.Millisecond) // the nil call is queued behind the busy group now
	close(releaseListener)
	time.Sleep(20 * time.Millisecond) // the listener has enqueued the request (or dropped it)
	close(releaseGroup)
	select {
	case <-nilCh:
	case <-time.After(3 * time.Second):
		return "no-nil-call"
	}
	time.Sleep(30 * time.Millisecond)
	mu.Lock()
	defer mu.Unlock()
	out := ""
	for _, o := range order {
		out += o + ","
	}
	n := countResponses(run.C, "_INBOX.l1")
	r := "at-most-one"
	if n > 1 {
		r = strconv.Itoa(n)
	}
	return fmt.Sprintf("lateenq order=%s replies=%s", out, r)
}

// qeShutdownLive: the service is shut down while query events are still active. What they
// allocated (listener goroutine, channel) must be released once their duration has passed.
func qeShutdownLive(n int) string {
	run, err := qeScenService("shared", 2, func() {})
	if err != nil {
		return "start-failed"
	}
	before := settledListeners()
	for i := 0; i < n; i++ {
		if _, ok := qeStartEvent(run, func(res.QueryRequest) {}); !ok {
			run.Stop()
			return "no-query-subject"
		}
	}
	// a listener goroutine that has been created but has not run yet does not show its function in the dump
	during := countListeners() - before
	for wait := time.Now().Add(3 * time.Second); during < n && time.Now().Before(wait); during = countListeners() - before {
		time.Sleep(time.Millisecond)
	}
	run.Stop()
	deadline := time.Now().Add(qeDuration + 2*time.Second)
	left := countListeners() - before
	for left > 0 && time.Now().Before(deadline) {
		time.Sleep(20 * time.Millisecond)
		left = countListeners() - before
	}
	return fmt.Sprintf("shutdownlive started=%d listeners-left=%d", during, left)
}

// qeRestartDuration: the same service is served twice with the query event duration
// reconfigured in between; a query event of the second run expires after the new duration.
func qeRestartDuration() string {
	s := res.NewService("svc")
	s.SetLogger(svc.NopLogger{})
	s.SetQueryEventDuration(time.Hour)
	s.Handle("q", res.GetResource(func(r res.GetRequest) { r.NotFound() }))
	run, err := svc.Start(s)
	if err != nil {
		return "start-failed"
	}
	sd := make(chan struct{})
	go func() { s.Shutdown(); close(sd) }() // Shutdown itself must have returned before reconfiguring
	select {
	case <-sd:
	case <-time.After(5 * time.Second):
		return "stop-hung"
	}
	<-run.Done
	s.SetQueryEventDuration(50 * time.Millisecond)
	run, err = svc.Start(s)
	if err != nil {
		return "restart-failed"
	}
	defer run.Stop()
	nilCh := make(chan struct{}, 2)
	start := time.Now()
	if _, ok := qeStartEvent(run, func(q res.QueryRequest) {
		if q == nil {
			nilCh <- struct{}{}
		}
	}); !ok {
		return "no-query-subject"
	}
	select {
	case <-nilCh:
		early := time.Since(start) < 25*time.Millisecond
		return fmt.Sprintf("restartdur nil=T early=%v", map[bool]string{true: "T", false: "F"}[early])
	case <-time.After(1500 * time.Millisecond):
		return "restartdur nil=F early=F"
	}
}

// qeBurst: several query requests arrive while the group is busy with another callback, so all of
// them wait in the group's queue. Each must be answered once, on its own reply subject, by a
// callback that sees its own query, in arrival order.
func qeBurst(workers int) string {
	run, err := qeScenService("shared", workers, func() {})
	if err != nil {
		return "start-failed"
	}
	defer run.Stop()
	var mu sync.Mutex
	var seen []string
	subject, ok := qeStartEvent(run, func(q res.QueryRequest) {
		if q == nil {
			return
		}
		mu.Lock()
		seen = append(seen, q.Query())
		mu.Unlock()
		q.Model(map[string]string{"q": q.Query()})
	})
	if !ok {
		return "no-query-subject"
	}
	release := make(chan struct{})
	busy := make(chan struct{})
	run.S.WithGroup("shared", func(*res.Service) { close(busy); <-release })
	select {
	case <-busy:
	case <-time.After(2 * time.Second):
		close(release)
		return "group-never-busy"
	}
	queries := []string{"a=1", "a=2", "a=3"}
	for i, q := range queries {
		run.C.Deliver(subject, "_INBOX.b"+strconv.Itoa(i), []byte(`{"query":"`+q+`"}`))
	}
	time.Sleep(15 * time.Millisecond) // the listener has queued them behind the busy callback
	close(release)
	deadline := time.Now().Add(2 * time.Second)
	for time.Now().Before(deadline) {
		mu.Lock()
		n := len(seen)
		mu.Unlock()
		if n >= len(queries) {
			break
		}
		time.Sleep(time.Millisecond)
	}
	time.Sleep(qeDuration + 60*time.Millisecond) // let the query event expire: nothing of it may outlive the scenario
	counts, own := "", true
	_, pubs := run.C.Snapshot()
	for i, q := range queries {
		n := 0
		for _, p := range pubs {
			if p.Subject == "_INBOX.b"+strconv.Itoa(i) && !svc.IsPre(p.Data) {
				n++
				if !strings.Contains(string(p.Data), `"q":"`+q+`"`) {
					own = false
				}
			}
		}
		counts += strconv.Itoa(n) + ","
	}
	mu.Lock()
	defer mu.Unlock()
	return fmt.Sprintf("burst replies=%s seen=%s own-answer=%s", counts, strings.Join(seen, ","), wire.Bool(own))
}

// qePubFail: the callback answers a query request explicitly, and the connection refuses that
// publish (a payload over the limit, a connection error). The request has been answered as far as
// the service is concerned: there is no second, different answer on the same reply subject.
func qePubFail(variant int) string {
	run, err := qeScenService("shared", 2, func() {})
	if err != nil {
		return "start-failed"
	}
	defer run.Stop()
	done := make(chan struct{}, 4)
	subject, ok := qeStartEvent(run, func(q res.QueryRequest) {
		if q == nil {
			return
		}
		defer func() { done <- struct{}{} }()
		switch variant % 4 {
		case 0:
			q.NotFound()
		case 1:
			q.Model(map[string]string{"big": "value"})
		case 2:
			q.Error(&res.Error{Code: "custom.code", Message: "m"})
		default:
			panic(&res.Error{Code: "custom.panic", Message: "m"})
		}
	})
	if !ok {
		return "no-query-subject"
	}
	var once sync.Once
	run.C.FailPub = func(subj string) bool {
		failed := false
		if subj == "_INBOX.pf" {
			once.Do(func() { failed = true })
		}
		return failed
	}
	run.C.Deliver(subject, "_INBOX.pf", []byte(`{"query":"a=1"}`))
	select {
	case <-done:
	case <-time.After(2 * time.Second):
		return "callback-not-called"
	}
	time.Sleep(qeDuration + 60*time.Millisecond)
	_, pubs := run.C.Snapshot()
	attempts, delivered := 0, 0
	for _, p := range pubs {
		if p.Subject == "_INBOX.pf" && !svc.IsPre(p.Data) {
			attempts++
			if !p.Failed {
				delivered++
			}
		}
	}
	return fmt.Sprintf("pubfail attempts=%d delivered=%d", attempts, delivered)
}

func qeScenario(a []string) string {
	w := 2
	if len(a) > 1 {
		if n, err := strconv.Atoi(a[1]); err == nil && n > 0 {
			w = n
		}
	}
	switch a[0] {
	case "serial":
		return qeSerial(w)
	case "queued":
		return qeQueued(w)
	case "burst":
		return qeBurst(w)
	case "pubfail":
		return qePubFail(w)
	case "lateenq":
		return qeLateEnqueue(w)
	case "shutdownlive":
		return qeShutdownLive(w)
	case "restartdur":
		return qeRestartDuration()
	}
	return "bad-op"
}
