package dom

import (
	"bytes"
	"encoding/json"
	"strconv"
	"strings"

	res "github.com/jirenius/go-res"
	"github.com/jirenius/go-res/resprot"
	"github.com/jirenius/go-res/store"
	"verif/harness/internal/gen"
	"verif/harness/internal/wire"
)

type codecDom struct{}

func init() { Register("codec", func() Domain { return codecDom{} }) }

func compactJSON(b []byte) string {
	var buf bytes.Buffer
	if err := json.Compact(&buf, b); err != nil {
		return string(b)
	}
	return buf.String()
}

var codecStrings = []string{"", "a", "x.y", "svc.model.42", "with space", "quo\"te", "back\\slash", "tab\there", "nl\nx", "ünï", "日本", "<html>&", "\x01ctl", "a?q=1", "emoji😀", "$id", "*", "a..b"}

// JSON value texts: canonical (compact) ones
var codecValues = []string{`null`, `true`, `false`, `0`, `-1.5e3`, `12`, `"s"`, `"S"`, `"bob"`, `"Bob"`, `{"data":"Bob"}`, `{"rid":"x.~y"}`, `{"rid":"~","soft":true}`, `""`, `"a\"b"`, `[]`, `[1,2]`, `{}`, `{"a":1}`, `{"a":{"b":[1,null]}}`, `[{"x":"y"}]`, `"ünï"`,
	`{"rid":"x.y"}`, `{"rid":"x.y","soft":true}`, `{"rid":"x.y","soft":false}`, `{"action":"delete"}`, `{"data":1}`, `{"data":{"a":1}}`, `{"data":[1]}`, `{"data":null}`, `{"data":"s"}`,
	`{"rid":""}`, `{"rid":"a..b"}`, `{"rid":"x","action":"delete"}`, `{"rid":"x","data":1}`, `{"action":"remove"}`, `{"action":"delete","data":1}`, `{"foo":"bar"}`, `{"rid":5}`,
	`{"rid":"x.y","extra":1}`, `{"action":"delete","extra":[1]}`, `{"data":{"a":1},"z":2}`, `{"soft":true}`, `{"rid":"x.y","soft":"yes"}`, `{"rid":"x?q=1"}`, `{"rid":"x.*"}`, `{"data":true,"soft":true}`,
	`{"rid":"a..b","soft":true}`, `{"rid":"x.*","soft":true}`, `{"rid":"x y","soft":true}`, `{"rid":"","soft":true}`, `{"rid":"x?q=1","soft":true}`, `{"rid":"x..y","soft":false}`, `{"rid":"å","soft":true}`,
	"{\"rid\":\"x.a\x7fb\"}", "{\"rid\":\"x.a\x7fb\",\"soft\":true}", `{"rid":"x.a~b"}`, `{"rid":"x.a!b"}`, `{"action":"remove","data":{"foo":42}}`, `{"data":null,"action":"update"}`, `{"action":"update","data":1}`, `{"data":{"foo":42}}`}

func wsVariant(r *gen.R, s string) string {
	// surrounding whitespace and whitespace after separators (outside of strings only at the ends and after , and :)
	pre := r.Pick([]string{"", " ", "\n\t", "  ", "\r", "\r\n", " \r "})
	post := r.Pick([]string{"", " ", "\n"})
	return pre + s + post
}

func (codecDom) Gen(r *gen.R, tier string, emit func(string)) {
	n := 4000
	if tier == "thorough" {
		n = 60000
	}
	for _, s := range codecStrings {
		enc, _ := json.Marshal(s)
		emit(wire.Line("ref", s, string(enc)))
		emit(wire.Line("softref", s, string(enc)))
	}
	for _, v := range codecValues {
		emit(wire.Line("mdv", v))
		if canonJSON([]byte(v)) == v { // encoding/json sorts the members of a map: only texts that are already in that order
			emit(wire.Line("dv", v))
		}
		emit(wire.Line("udv", v))
		emit(wire.Line("val", v))
		emit(wire.Line("resp", v))
		for _, w := range codecValues {
			emit(wire.Line("eq", v, w))
		}
	}
	for _, v := range []string{``, `{`, `nul`, `[1,]`, ` `, `{"result":1,"error":null}`, `{"result":null}`, `{"resource":{"rid":"a.b"}}`, `{"resource":null,"result":{"x":1}}`,
		`{"error":{"code":"system.notFound","message":"Not found"}}`, `{"error":{"code":"c","message":"m","data":{"x":1}}}`, `{"error":{"code":5}}`, `{"error":"str"}`, `{"resource":"a.b"}`,
		`{"resource":{"rid":"a.b"},"error":{"code":"c","message":"m"}}`, `{}`, `null`, `[]`, `{"result":false,"meta":{"status":200}}`, `{"resource":{"rid":""}}`, `{"error":{}}`} {
		emit(wire.Line("resp", v))
		emit(wire.Line("udv", v))
	}
	for i := 0; i < n; i++ {
		switch r.Intn(6) {
		case 0:
			// random string through Ref
			var b strings.Builder
			for k := r.Intn(8); k > 0; k-- {
				b.WriteString(r.Pick([]string{"a", ".", "é", "\"", "\\", "\x07", " ", "<", "日", "z", " ", "/"}))
			}
			enc, _ := json.Marshal(b.String())
			emit(wire.Line(r.Pick([]string{"ref", "softref"}), b.String(), string(enc)))
		case 1:
			emit(wire.Line("mdv", r.Pick(codecValues)))
		case 2:
			emit(wire.Line("udv", wsVariant(r, r.Pick(codecValues))))
		case 3:
			emit(wire.Line("val", wsVariant(r, r.Pick(codecValues))))
		case 4:
			emit(wire.Line("eq", wsVariant(r, r.Pick(codecValues)), wsVariant(r, r.Pick(codecValues))))
		default:
			op := r.Pick([]string{"svc", "svc", "svcm"})
			switch r.Intn(3) {
			case 0:
				emit(wire.Line(op, "result", r.Pick(codecValues), "-"))
			case 1:
				emit(wire.Line(op, "resource", r.Pick([]string{"x.y", "svc.a.b", "a?q=1"}), "-"))
			default:
				emit(wire.Line(op, "error", r.Pick([]string{"system.notFound", "custom.code", "x"}), r.Pick([]string{"Not found", "m", ""})))
			}
		}
	}
}

func valTypeName(t store.ValueType) string {
	switch t {
	case store.ValueTypePrimitive:
		return "primitive"
	case store.ValueTypeReference:
		return "reference"
	case store.ValueTypeSoftReference:
		return "softref"
	case store.ValueTypeData:
		return "data"
	case store.ValueTypeDelete:
		return "delete"
	}
	return "none"
}

func renderValue(v store.Value) string {
	payload := ""
	switch v.Type {
	case store.ValueTypeData:
		payload = compactJSON(v.Inner)
	case store.ValueTypePrimitive:
		payload = compactJSON(v.RawMessage)
	}
	return valTypeName(v.Type) + "|" + wire.Enc(v.RID) + "|" + wire.Enc(payload)
}

func renderResp(r resprot.Response) string {
	n := 0
	for _, b := range []bool{r.HasError(), r.HasResource(), r.HasResult()} {
		if b {
			n++
		}
	}
	if n != 1 {
		return "classes=" + string(rune('0'+n))
	}
	switch {
	case r.HasError():
		return "error:" + wire.Enc(r.Error.Code)
	case r.HasResource():
		return "resource:" + wire.Enc(string(r.Resource))
	default:
		return "result:" + wire.Enc(compactJSON(r.Result))
	}
}

func (codecDom) Exec(a []string) string {
	return Safe(func() string {
		if len(a) < 2 {
			return "bad-op"
		}
		switch a[0] {
		case "ref", "softref":
			var out []byte
			var err error
			rt := false
			if a[0] == "ref" {
				out, err = json.Marshal(res.Ref(a[1]))
				var back res.Ref
				rt = err == nil && json.Unmarshal(out, &back) == nil && string(back) == strings.ToValidUTF8(a[1], "�")
			} else {
				out, err = json.Marshal(res.SoftRef(a[1]))
				var back res.SoftRef
				rt = err == nil && json.Unmarshal(out, &back) == nil && string(back) == strings.ToValidUTF8(a[1], "�")
			}
			if err != nil {
				return "err"
			}
			return wire.Enc(string(out)) + " rt=" + wire.Bool(rt)
		case "mdv":
			out, err := resprot.MarshalDataValue(json.RawMessage(a[1]))
			if err != nil {
				return "err"
			}
			var raw json.RawMessage
			if err := resprot.UnmarshalDataValue(out, &raw); err != nil {
				return wire.Enc(string(out)) + "|err"
			}
			return wire.Enc(string(out)) + "|" + wire.Enc(compactJSON(raw))
		case "dv":
			// res.DataValue[T] with T the concrete Go type of the decoded value, and with T = interface{}
			var x interface{}
			dec := json.NewDecoder(strings.NewReader(a[1]))
			dec.UseNumber() // numbers keep their text
			if err := dec.Decode(&x); err != nil {
				return "err"
			}
			var outs [][]byte
			add := func(b []byte, err error) {
				if err != nil {
					b = []byte("marshal-error")
				}
				outs = append(outs, b)
			}
			add(json.Marshal(res.DataValue[interface{}]{Data: x}))
			switch t := x.(type) {
			case []interface{}:
				add(json.Marshal(res.DataValue[[]interface{}]{Data: t}))
				add(json.Marshal(res.NewDataValue(t)))
			case map[string]interface{}:
				add(json.Marshal(res.DataValue[map[string]interface{}]{Data: t}))
			case string:
				add(json.Marshal(res.DataValue[string]{Data: t}))
			case json.Number:
				add(json.Marshal(res.DataValue[json.Number]{Data: t}))
				if f, err := t.Float64(); err == nil && strconv.FormatFloat(f, 'f', -1, 64) == t.String() {
					add(json.Marshal(res.DataValue[float64]{Data: f}))
				}
			case bool:
				add(json.Marshal(res.DataValue[bool]{Data: t}))
			}
			for _, o := range outs[1:] {
				if !bytes.Equal(o, outs[0]) {
					return wire.Enc(string(o)) + "|differs-by-static-type"
				}
			}
			var raw json.RawMessage
			if err := resprot.UnmarshalDataValue(outs[0], &raw); err != nil {
				return wire.Enc(string(outs[0])) + "|err"
			}
			return wire.Enc(string(outs[0])) + "|" + wire.Enc(compactJSON(raw))
		case "udv":
			var raw json.RawMessage
			if err := resprot.UnmarshalDataValue([]byte(a[1]), &raw); err != nil {
				return "err"
			}
			return "ok:" + wire.Enc(compactJSON(raw))
		case "val":
			var v store.Value
			buf := []byte(a[1])
			if err := json.Unmarshal(buf, &v); err != nil {
				return "err"
			}
			scribble(buf) // an Unmarshaler must copy what it keeps: the caller reuses its buffer
			return renderValue(v)
		case "eq":
			var v, w store.Value
			b1, b2 := []byte(a[1]), []byte(a[2])
			if json.Unmarshal(b1, &v) != nil || json.Unmarshal(b2, &w) != nil {
				return "err"
			}
			scribble(b1)
			scribble(b2)
			// whitespace inside the raw message would make Equal depend on formatting: compare the compacted values
			return wire.Bool(v.Equal(w))
		case "resp":
			return renderResp(resprot.ParseResponse([]byte(a[1])))
		case "svc", "svcm":
			var text string
			tail := "}"
			if a[0] == "svcm" {
				tail = `,"meta":{"status":404,"header":{"X-A":["1"]}}}`
			}
			switch a[1] {
			case "result":
				text = `{"result":` + a[2] + tail
			case "resource":
				text = `{"resource":{"rid":"` + a[2] + `"}` + tail
			default:
				text = `{"error":{"code":"` + a[2] + `","message":"` + a[3] + `"}` + tail
			}
			return renderResp(resprot.ParseResponse([]byte(text)))
		}
		return "bad-op"
	})
}

func scribble(b []byte) {
	for i := range b {
		b[i] = '#'
	}
}
