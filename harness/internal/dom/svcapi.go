package dom

import (
	"encoding/json"
	"strconv"
	"strings"
	"sync"
	"time"

	res "github.com/jirenius/go-res"
	"verif/harness/internal/gen"
	"verif/harness/internal/recconn"
	"verif/harness/internal/svc"
	"verif/harness/internal/wire"
)

// svcapi: what the service publishes when it is driven through its own API rather than by
// requests (C07): With/Resource on resource ids with and without a query part followed by an
// event, TokenEvent/TokenEventWithID, TokenReset, Reset.

type svcapiDom struct {
	lsMu  sync.Mutex
	lsLog []string
	run   *svc.Runner
}

func init() { Register("svcapi", func() Domain { return &svcapiDom{} }) }

func (d *svcapiDom) Close() {
	if d.run != nil {
		d.run.Stop()
		d.run = nil
	}
}

var svcapiNames = []string{"svc.model.a", "svc.model.42", "svc.static", "svc.all.x", "svc.all.x.y", "svc.m.a.b", "svc.model.a-b_c", "svc.model.%7E",
	"svc.none", "svc.model", "svc.m.a", "other.model.a"}
var svcapiQueries = []string{"", "", "", "?", "?a=1", "?a=1&b=2", "??", "?x?y", "?q=a.b", "? "}

func (d *svcapiDom) Gen(r *gen.R, tier string, emit func(string)) {
	n := 400
	if tier == "thorough" {
		n = 6000
	}
	emit(wire.Line("reset"))
	emit(wire.Line("start"))
	for i := 0; i < n; i++ {
		switch r.Intn(10) {
		case 0, 1, 2, 3, 4:
			rid := r.Pick(svcapiNames) + r.Pick(svcapiQueries)
			act := r.Pick([]string{"custom:foo", "custom:foo", "custom:a.b", "custom:change", "custom:x y", "custom:", "custom:query", "custom:add", "custom:remove", "custom:delete", "custom:patch", "custom:reaccess", "custom:unsubscribe", "custom:queryx", "change", "reset", "reaccess", "create", "delete", "query", "resource"})
			emit(wire.Line("with", rid, act))
			emit(wire.Line("withls", rid, act))
		case 5, 6:
			subj := r.Pick([]string{"auth.svc.login", "auth.svc.model.a.relogin", "auth", "auth.>", "auth.*.relogin", "auth.svc.$method", "", "auth..x", "auth.svc.x y", "auth.svc.", "a?b", "auth.svc.re?login", "auth.a*b", "auth.a>", "auth.$", "auth.x.>y"})
			k := r.Intn(3)
			args := []string{"tokenreset", subj, strconv.Itoa(k)}
			for j := 0; j < k; j++ {
				args = append(args, r.Pick([]string{"tid1", "tid2", "", "t.id", "t id"}))
			}
			emit(wire.Line(args...))
		case 7, 8:
			cid := r.Pick([]string{"cid1", "c-2", "", "c.d", "c d", "c*", "c>", "c?d", "bk4f8"})
			tid := r.Pick([]string{"-", "-", "tid1", "", "t.x"})
			tok := r.Pick([]string{"nil", `{"user":"x"}`, `"s"`, `12`, "unmarshalable"})
			emit(wire.Line("tokenevent", cid, tid, tok))
		default:
			pick := func() []string {
				k := r.Intn(3)
				out := make([]string, k)
				for j := range out {
					out[j] = r.Pick([]string{"svc.model.a", "svc.>", "svc.model.*", "svc.static", "x"})
				}
				return out
			}
			rs, as := pick(), pick()
			args := append([]string{"sreset", strconv.Itoa(len(rs))}, rs...)
			args = append(append(args, strconv.Itoa(len(as))), as...)
			emit(wire.Line(args...))
		}
	}
	emit(wire.Line("reset"))
}

func (d *svcapiDom) Exec(a []string) string {
	return Safe(func() string {
		if len(a) == 0 {
			return "bad-op"
		}
		switch a[0] {
		case "reset":
			d.Close()
			return "ok"
		case "start":
			d.Close()
			s := res.NewService("svc")
			s.SetLogger(svc.NopLogger{})
			get := res.GetResource(func(r res.GetRequest) { r.NotFound() })
			s.Handle("model.$id", get)
			s.Handle("static", get)
			s.Handle("all.>", get)
			s.Handle("m.$a.$b", get)
			// listeners on two of the patterns: events sent through With must reach them too
			d.lsMu.Lock()
			d.lsLog = nil
			d.lsMu.Unlock()
			for _, pat := range []string{"model.$id", "static"} {
				s.AddListener(pat, func(ev *res.Event) {
					d.lsMu.Lock()
					d.lsLog = append(d.lsLog, ev.Name)
					d.lsMu.Unlock()
				})
			}
			run, err := svc.Start(s)
			if err != nil {
				return "start-failed"
			}
			d.run = run
			return "ok"
		}
		if d.run == nil {
			return "not-started"
		}
		s := d.run.S
		from := d.run.C.NumPubs()
		panicked := false
		call := func(f func()) {
			defer func() {
				if recover() != nil {
					panicked = true
				}
			}()
			f()
		}
		extra := ""
		d.lsMu.Lock()
		d.lsLog = nil
		d.lsMu.Unlock()
		switch a[0] {
		case "with", "withls":
			var mu sync.Mutex
			done := make(chan struct{})
			err := s.With(a[1], func(r res.Resource) {
				defer close(done)
				mu.Lock()
				defer mu.Unlock()
				call(func() {
					switch {
					case strings.HasPrefix(a[2], "custom:"):
						r.Event(strings.TrimPrefix(a[2], "custom:"), map[string]int{"v": 1})
					case a[2] == "change":
						r.ChangeEvent(map[string]interface{}{"k": 1})
					case a[2] == "reset":
						r.ResetEvent()
					case a[2] == "reaccess":
						r.ReaccessEvent()
					case a[2] == "create":
						r.CreateEvent(nil)
					case a[2] == "delete":
						r.DeleteEvent()
					case a[2] == "query":
						r.QueryEvent(func(res.QueryRequest) {})
					case a[2] == "resource":
						extra = " name=" + wire.Enc(r.ResourceName()) + " query=" + wire.Enc(r.Query())
					}
				})
			})
			if err != nil {
				return "err"
			}
			select {
			case <-done:
			case <-time.After(5 * time.Second):
				return "hang"
			}
			mu.Lock()
			mu.Unlock()
		case "tokenreset":
			k, _ := strconv.Atoi(a[2])
			call(func() { s.TokenReset(a[1], a[3:3+k]...) })
		case "tokenevent":
			var tok interface{}
			switch a[3] {
			case "nil":
			case "unmarshalable":
				tok = make(chan int)
			default:
				tok = json.RawMessage(a[3])
			}
			call(func() {
				if a[2] == "-" {
					s.TokenEvent(a[1], tok)
				} else {
					s.TokenEventWithID(a[1], a[2], tok)
				}
			})
		case "sreset":
			k, _ := strconv.Atoi(a[1])
			rs := a[2 : 2+k]
			k2, _ := strconv.Atoi(a[2+k])
			as := a[3+k : 3+k+k2]
			call(func() { s.Reset(rs, as) })
		default:
			return "bad-op"
		}
		if a[0] == "withls" {
			// the listener calls the event made, in order
			d.lsMu.Lock()
			ls := strings.Join(d.lsLog, ",")
			d.lsMu.Unlock()
			if ls == "" {
				ls = "-"
			}
			if panicked {
				return "panic ls=" + ls
			}
			return "ls=" + ls
		}
		_, pubs := d.run.C.Snapshot()
		var out []string
		for _, p := range pubs[from:] {
			pl := string(p.Data)
			if len(pl) > 0 && (pl[0] == '{' || pl[0] == '[') {
				pl = canonJSON(p.Data)
			}
			if strings.HasSuffix(p.Subject, ".query") {
				pl = "<inbox>" // a fresh inbox subject
			}
			out = append(out, "P@"+wire.Enc(p.Subject)+"@"+wire.Enc(pl))
		}
		o := strings.Join(out, ";")
		if o == "" {
			o = "-"
		}
		if panicked {
			o = "panic " + o
		}
		return o + extra
	})
}

var _ = recconn.New
