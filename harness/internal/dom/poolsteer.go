package dom

import (
	"fmt"
	"strings"
	"sync"
	"sync/atomic"
	"time"

	res "github.com/jirenius/go-res"
	"verif/harness/internal/recconn"
	"verif/harness/internal/svc"
)

// Steered schedules: goroutines are held at the verif gates (which are all
// outside critical sections) and released in a chosen order, so that windows of
// a few instructions are hit deterministically. The result is a trace like the
// ones of the stress workloads, validated by the same Lean driver.

type gateCtl struct {
	mu    sync.Mutex
	holds map[int]*hold // by goroutine id
}

type hold struct {
	point   string
	arrived chan struct{}
	release chan struct{}
}

func (g *gateCtl) fn(point string) {
	id := goid()
	g.mu.Lock()
	h := g.holds[id]
	if h != nil && h.point == point {
		delete(g.holds, id)
	} else {
		h = nil
	}
	g.mu.Unlock()
	if h != nil {
		close(h.arrived)
		<-h.release
	}
}

// holdAt arranges for the calling goroutine to stop at its next visit of point.
func (g *gateCtl) holdAt(point string) *hold {
	h := &hold{point: point, arrived: make(chan struct{}), release: make(chan struct{})}
	g.mu.Lock()
	g.holds[goid()] = h
	g.mu.Unlock()
	return h
}

func waitCh(c chan struct{}, what string) error {
	select {
	case <-c:
		return nil
	case <-time.After(5 * time.Second):
		return fmt.Errorf("timeout waiting for %s", what)
	}
}

type steerEnv struct {
	rec  *recorder
	g    *gateCtl
	s    *res.Service
	conn *recconn.Conn
	done chan error
	id   int
}

func newSteer(workers int) (*steerEnv, error) {
	if atomic.LoadInt32(&poolHung) != 0 {
		return nil, fmt.Errorf("a previous schedule hung")
	}
	e := &steerEnv{rec: &recorder{byRep: map[string]int{}, grp: map[int]string{}}, g: &gateCtl{holds: map[int]*hold{}}}
	setHooks(e.rec.add, e.g.fn)
	e.s = res.NewService("pool")
	e.s.SetLogger(svc.NopLogger{})
	e.s.SetWorkerCount(workers)
	e.s.Handle("r.$id", res.Call("do", func(r res.CallRequest) { r.OK(nil) }))
	e.conn = recconn.New()
	served := make(chan struct{})
	e.s.SetOnServe(func(*res.Service) { close(served) })
	e.done = make(chan error, 1)
	go func() { e.done <- e.s.Serve(e.conn) }()
	if err := waitCh(served, "serve"); err != nil {
		return nil, err
	}
	return e, nil
}

func (e *steerEnv) close() {
	setHooks(nil, nil)
}

// submit calls WithGroup from a new goroutine, optionally holding it at a gate.
// It returns the hold (nil if none) and a channel closed when WithGroup returned.
func (e *steerEnv) submit(group string, holdPoint string, body func(id int)) (*hold, chan struct{}, int) {
	e.id++
	id := e.id
	e.rec.mu.Lock()
	e.rec.grp[id] = group
	e.rec.mu.Unlock()
	ret := make(chan struct{})
	hc := make(chan *hold, 1)
	go func() {
		var h *hold
		if holdPoint != "" {
			h = e.g.holdAt(holdPoint)
		}
		hc <- h
		e.rec.add("h.submit", group, id)
		e.s.WithGroup(group, func(*res.Service) {
			e.rec.add("h.cbstart", "", id)
			if body != nil {
				body(id)
			}
			e.rec.add("h.cbend", "", id)
		})
		close(ret)
	}()
	return <-hc, ret, id
}

func (e *steerEnv) shutdown() bool {
	e.rec.add("h.shutdown.begin", "", 0)
	sd := make(chan struct{})
	go func() { e.s.Shutdown(); close(sd) }()
	select {
	case <-sd:
		e.rec.add("h.shutdown.end", "", 0)
	case <-time.After(3 * time.Second):
		e.rec.add("h.shutdown.hung", "", 0)
		atomic.StoreInt32(&poolHung, 1)
		return false
	}
	select {
	case <-e.done:
	case <-time.After(3 * time.Second):
		e.rec.add("h.serve.hung", "", 0)
		atomic.StoreInt32(&poolHung, 1)
		return false
	}
	e.rec.add("h.connclosed", "", e.conn.ClosedCount())
	return true
}

// waitNote waits until a note with the given point has been recorded (after index from).
func (e *steerEnv) waitNote(point string, from int) bool {
	deadline := time.Now().Add(3 * time.Second)
	for time.Now().Before(deadline) {
		e.rec.mu.Lock()
		for i := from; i < len(e.rec.notes); i++ {
			if e.rec.notes[i].point == point {
				e.rec.mu.Unlock()
				return true
			}
		}
		e.rec.mu.Unlock()
		time.Sleep(100 * time.Microsecond)
	}
	return false
}

func (e *steerEnv) numNotes() int {
	e.rec.mu.Lock()
	defer e.rec.mu.Unlock()
	return len(e.rec.notes)
}

// steerLateSubmit: a submission passes the state check, Shutdown closes the
// service, then the submission takes the lock (the C03 window). lateGroup is
// the group of the late submission ("busy" = the group of the running callback).
func steerLateSubmit(workers int, lateGroup string, emit func(string)) {
	e, err := newSteer(workers)
	if err != nil {
		return
	}
	defer e.close()
	emit("reset")
	unblock := make(chan struct{})
	busyStarted := make(chan struct{})
	_, _, _ = e.submit("busy", "", func(int) { close(busyStarted); <-unblock })
	waitCh(busyStarted, "busy callback")
	h, ret, _ := e.submit(lateGroup, "runWith.checked", nil)
	waitCh(h.arrived, "late submitter at gate")
	from := e.numNotes()
	sdDone := make(chan bool, 1)
	go func() { sdDone <- e.shutdown() }()
	e.waitNote("c.broadcast", from)
	close(h.release)
	waitCh(ret, "late WithGroup return")
	close(unblock)
	<-sdDone
	flushNotes(e.rec, emit)
}

// steerRetireAppend: the last callback of a group has returned but the worker
// has not re-locked yet; a new submission to the same group arrives. first
// selects who takes the lock first.
func steerRetireAppend(workers int, submitterFirst bool, emit func(string)) {
	e, err := newSteer(workers)
	if err != nil {
		return
	}
	defer e.close()
	emit("reset")
	// hold the worker after the callback returned: the gate is visited by the worker goroutine,
	// so the hold is installed from inside the callback
	var wh *hold
	cbDone := make(chan struct{})
	_, _, _ = e.submit("g", "", func(int) { wh = e.g.holdAt("worker.done"); close(cbDone) })
	waitCh(cbDone, "first callback")
	waitCh(wh.arrived, "worker at gate")
	second := make(chan struct{})
	if submitterFirst {
		_, ret, _ := e.submit("g", "", func(int) { close(second) })
		waitCh(ret, "second WithGroup return")
		close(wh.release)
	} else {
		h, ret, _ := e.submit("g", "runWith.checked", func(int) { close(second) })
		waitCh(h.arrived, "submitter at gate")
		from := e.numNotes()
		close(wh.release)
		e.waitNote("w.retire", from)
		close(h.release)
		waitCh(ret, "second WithGroup return")
	}
	if waitCh(second, "second callback") == nil {
		e.rec.add("h.quiescent", "", 2)
	} else {
		e.rec.add("h.quiescent", "", 2)
	}
	e.shutdown()
	flushNotes(e.rec, emit)
}

// steerSignalGap: new work is enqueued but the submitter is held before Signal
// while every worker waits; a second submission to another group must still get
// both callbacks run (no lost wake-up).
func steerSignalGap(workers int, emit func(string)) {
	e, err := newSteer(workers)
	if err != nil {
		return
	}
	defer e.close()
	emit("reset")
	// one round per worker: each late Signal wakes one waiting worker although the queue is empty
	// again; that worker must simply go back to waiting
	for round := 0; round < workers; round++ {
		a := make(chan struct{})
		b := make(chan struct{})
		h, ret1, _ := e.submit("a", "runWith.unlocked", func(int) { close(a) })
		waitCh(h.arrived, "first submitter before Signal")
		_, ret2, _ := e.submit("b", "", func(int) { close(b) })
		waitCh(ret2, "second WithGroup")
		waitCh(b, "callback b")
		waitCh(a, "callback a")
		from := e.numNotes()
		close(h.release)
		waitCh(ret1, "first WithGroup")
		// the woken worker has looked at the empty queue once it waits again (or, wrongly, is gone)
		deadline := time.Now().Add(200 * time.Millisecond)
		for time.Now().Before(deadline) && !e.sawAfter(from, "w.wait", "w.exit") {
			time.Sleep(100 * time.Microsecond)
		}
	}
	// every worker is still there: a further callback runs
	c := make(chan struct{})
	e.submit("c", "", func(int) { close(c) })
	select {
	case <-c:
	case <-time.After(2 * time.Second):
	}
	e.rec.add("h.quiescent", "", 2*workers+1)
	e.shutdown()
	flushNotes(e.rec, emit)
}

// sawAfter: has one of the points been noted at or after index from?
func (e *steerEnv) sawAfter(from int, points ...string) bool {
	e.rec.mu.Lock()
	defer e.rec.mu.Unlock()
	for i := from; i < len(e.rec.notes); i++ {
		for _, p := range points {
			if e.rec.notes[i].point == p {
				return true
			}
		}
	}
	return false
}

// steerRestartStale: all workers are busy, a callback for another group is queued but never
// reached, Shutdown drops it; after Serve again a submission to that group must run.
func steerRestartStale(workers int, emit func(string)) {
	e, err := newSteer(workers)
	if err != nil {
		return
	}
	defer e.close()
	emit("reset")
	unblock := make(chan struct{})
	var started sync.WaitGroup
	for i := 0; i < workers; i++ {
		started.Add(1)
		e.submit(fmt.Sprintf("busy%d", i), "", func(int) { started.Done(); <-unblock })
	}
	started.Wait()
	_, ret, _ := e.submit("late", "", nil) // queued behind the busy workers, never reached
	waitCh(ret, "queued WithGroup return")
	from := e.numNotes()
	sdDone := make(chan bool, 1)
	go func() { sdDone <- e.shutdown() }()
	e.waitNote("c.broadcast", from)
	close(unblock)
	if !<-sdDone {
		flushNotes(e.rec, emit)
		return
	}
	// serve the same service again
	e.conn = recconn.New()
	served := make(chan struct{})
	e.s.SetOnServe(func(*res.Service) { close(served) })
	e.done = make(chan error, 1)
	go func() { e.done <- e.s.Serve(e.conn) }()
	if waitCh(served, "second serve") != nil {
		e.rec.add("h.serve.hung", "", 0)
		flushNotes(e.rec, emit)
		return
	}
	ran := make(chan struct{})
	_, ret2, _ := e.submit("late", "", func(int) { close(ran) })
	waitCh(ret2, "WithGroup after restart")
	select {
	case <-ran:
	case <-time.After(2 * time.Second):
	}
	e.rec.add("h.quiescent", "", 1)
	e.shutdown()
	flushNotes(e.rec, emit)
}

// steerServeDuringShutdown: while Shutdown waits for an in-flight callback, Serve is called
// again; it must be refused (the service is not stopped yet) and Shutdown must complete.
func steerServeDuringShutdown(workers int, emit func(string)) {
	e, err := newSteer(workers)
	if err != nil {
		return
	}
	defer e.close()
	emit("reset")
	unblock := make(chan struct{})
	busy := make(chan struct{})
	e.submit("busy", "", func(int) { close(busy); <-unblock })
	waitCh(busy, "busy callback")
	from := e.numNotes()
	sdDone := make(chan bool, 1)
	go func() { sdDone <- e.shutdown() }()
	e.waitNote("c.broadcast", from)
	// retry Serve on a fresh connection while the shutdown is draining (and only then)
	conn2 := recconn.New()
	e.s.SetOnServe(func(*res.Service) {})
	stop := make(chan struct{})
	retryDone := make(chan struct{})
	go func() {
		defer close(retryDone)
		for {
			select {
			case <-stop:
				return
			default:
			}
			if err := e.s.Serve(conn2); err == nil {
				return // it was accepted, served, and has been shut down again
			}
			time.Sleep(500 * time.Microsecond)
		}
	}()
	// meanwhile keep submitting to the group of the callback that is still running: if the service
	// lets itself be served again too early, one of these runs beside it
	for k := 0; k < 15; k++ {
		e.submit("busy", "", nil)
		time.Sleep(time.Millisecond)
	}
	close(stop)
	time.Sleep(2 * time.Millisecond)
	// the callback is still running: neither Shutdown nor Serve may have returned
	select {
	case err := <-e.done:
		e.rec.add("h.serve.early", "", 0)
		e.done <- err
	default:
	}
	close(unblock)
	<-sdDone
	// if the retried Serve was accepted it may be serving now: stop it so that nothing leaks
	go e.s.Shutdown()
	select {
	case <-retryDone:
	case <-time.After(3 * time.Second):
	}
	flushNotes(e.rec, emit)
}

// serveCycle runs one more ordinary Serve / callback / Shutdown cycle on a fresh connection:
// the service must be usable again after whatever happened before.
func (e *steerEnv) serveCycle() {
	e.conn = recconn.New()
	served := make(chan struct{})
	e.s.SetOnServe(func(*res.Service) { close(served) })
	e.done = make(chan error, 1)
	go func() { e.done <- e.s.Serve(e.conn) }()
	if waitCh(served, "serve again") != nil {
		e.rec.add("h.serve.hung", "", 0)
		atomic.StoreInt32(&poolHung, 1)
		return
	}
	_, ret, _ := e.submit("again", "", nil)
	waitCh(ret, "callback after restart")
	e.shutdown()
}

// steerShutdownInOnServe: Shutdown is called, and completes, while the OnServe callback is
// still running (the listener has not been started yet). Serve must return once the callback
// does, and the service must be restartable.
func steerShutdownInOnServe(workers int, emit func(string)) {
	if atomic.LoadInt32(&poolHung) != 0 {
		return
	}
	e := &steerEnv{rec: &recorder{byRep: map[string]int{}, grp: map[int]string{}}, g: &gateCtl{holds: map[int]*hold{}}}
	setHooks(e.rec.add, e.g.fn)
	defer e.close()
	emit("reset")
	e.s = res.NewService("pool")
	e.s.SetLogger(svc.NopLogger{})
	e.s.SetWorkerCount(workers)
	e.s.Handle("r.$id", res.Call("do", func(r res.CallRequest) { r.OK(nil) }))
	e.conn = recconn.New()
	entered := make(chan struct{})
	release := make(chan struct{})
	e.s.SetOnServe(func(*res.Service) { close(entered); <-release })
	e.done = make(chan error, 1)
	go func() { e.done <- e.s.Serve(e.conn) }()
	if waitCh(entered, "OnServe") != nil {
		return
	}
	e.rec.add("h.shutdown.begin", "", 0)
	sd := make(chan struct{})
	go func() { e.s.Shutdown(); close(sd) }()
	select {
	case <-sd:
		e.rec.add("h.shutdown.end", "", 0)
	case <-time.After(3 * time.Second):
		e.rec.add("h.shutdown.hung", "", 0)
		atomic.StoreInt32(&poolHung, 1)
		close(release)
		flushNotes(e.rec, emit)
		return
	}
	close(release)
	select {
	case <-e.done:
	case <-time.After(3 * time.Second):
		e.rec.add("h.serve.hung", "", 0)
		atomic.StoreInt32(&poolHung, 1)
		flushNotes(e.rec, emit)
		return
	}
	e.rec.add("h.connclosed", "", e.conn.ClosedCount())
	e.serveCycle()
	flushNotes(e.rec, emit)
}

// steerSubscribeFails: a subscription fails during Serve. The service shuts itself down:
// Serve must return, the connection must be closed once, and the service must be restartable.
func steerSubscribeFails(workers int, failIdx int, emit func(string)) {
	if atomic.LoadInt32(&poolHung) != 0 {
		return
	}
	e := &steerEnv{rec: &recorder{byRep: map[string]int{}, grp: map[int]string{}}, g: &gateCtl{holds: map[int]*hold{}}}
	setHooks(e.rec.add, e.g.fn)
	defer e.close()
	emit("reset")
	e.s = res.NewService("pool")
	e.s.SetLogger(svc.NopLogger{})
	e.s.SetWorkerCount(workers)
	e.s.Handle("r.$id", res.Call("do", func(r res.CallRequest) { r.OK(nil) }))
	e.conn = recconn.New()
	e.conn.FailNext(failIdx)
	e.done = make(chan error, 1)
	e.rec.add("h.shutdown.begin", "", 0) // the shutdown is the service's own
	go func() { e.done <- e.s.Serve(e.conn) }()
	select {
	case <-e.done:
		e.rec.add("h.shutdown.end", "", 0)
	case <-time.After(3 * time.Second):
		e.rec.add("h.serve.hung", "", 0)
		atomic.StoreInt32(&poolHung, 1)
		flushNotes(e.rec, emit)
		return
	}
	// the self-triggered Shutdown runs on its own goroutine: wait until the service is stopped
	deadline := time.Now().Add(3 * time.Second)
	for e.s.Conn() != nil && time.Now().Before(deadline) {
		time.Sleep(200 * time.Microsecond)
	}
	if e.s.Conn() != nil {
		e.rec.add("h.shutdown.hung", "", 0)
		atomic.StoreInt32(&poolHung, 1)
		flushNotes(e.rec, emit)
		return
	}
	time.Sleep(2 * time.Millisecond)
	e.rec.add("h.connclosed", "", e.conn.ClosedCount())
	e.serveCycle()
	flushNotes(e.rec, emit)
}

// steerSameGroup: two submissions that belong to the same worker group by the documented
// rules (same resource; different resources of one group template; a wildcard pattern in a
// mounted sub-mux whose group tag sits behind the mount point; the root resource; a request
// and a With callback). The first callback blocks; the second is submitted meanwhile and must
// not start before the first has returned.
func steerSameGroup(workers int, emit func(string)) {
	if atomic.LoadInt32(&poolHung) != 0 {
		return
	}
	e := &steerEnv{rec: &recorder{byRep: map[string]int{}, grp: map[int]string{}}, g: &gateCtl{holds: map[int]*hold{}}}
	setHooks(e.rec.add, e.g.fn)
	defer e.close()
	emit("reset")
	var mu sync.Mutex
	var blockCh chan struct{}
	entered := make(chan int, 16)
	handler := func(r res.CallRequest) {
		var p struct {
			ID    int  `json:"id"`
			Block bool `json:"block"`
		}
		r.ParseParams(&p)
		e.rec.add("h.cbstart", "", p.ID)
		entered <- p.ID
		if p.Block {
			mu.Lock()
			ch := blockCh
			mu.Unlock()
			select {
			case <-ch:
			case <-time.After(2 * time.Second):
			}
		}
		e.rec.add("h.cbend", "", p.ID)
		r.OK(nil)
	}
	e.s = res.NewService("pool")
	e.s.SetLogger(svc.NopLogger{})
	e.s.SetWorkerCount(workers)
	e.s.Handle("", res.Call("do", handler))
	e.s.Handle("r.$id", res.Call("do", handler))
	e.s.Handle("g.$id.$x", res.Call("do", handler), res.Group("grp.${id}"))
	e.s.Route("sub", func(m *res.Mux) {
		m.Handle("$type.$id.>", res.Group("mg.${id}"), res.Call("do", handler))
		m.Route("deep", func(m2 *res.Mux) {
			m2.Handle("$a.$b", res.Group("dg.${b}"), res.Call("do", handler))
		})
	})
	// group tags that refer to the FIRST token behind the mount point
	e.s.Route("user", func(m *res.Mux) {
		m.Handle("$id", res.Group("${id}"), res.Call("do", handler))
		m.Handle("$id.profile", res.Group("${id}"), res.Call("do", handler))
	})
	e.conn = recconn.New()
	served := make(chan struct{})
	e.s.SetOnServe(func(*res.Service) { close(served) })
	e.done = make(chan error, 1)
	go func() { e.done <- e.s.Serve(e.conn) }()
	if waitCh(served, "serve") != nil {
		return
	}
	deliver := func(subj, group string, block bool) int {
		e.id++
		id := e.id
		reply := fmt.Sprintf("_INBOX.sg%d", id)
		e.rec.mu.Lock()
		e.rec.grp[id] = group
		e.rec.byRep[reply] = id
		e.rec.mu.Unlock()
		e.conn.Deliver(subj, reply, []byte(fmt.Sprintf(`{"params":{"id":%d,"block":%v}}`, id, block)))
		return id
	}
	pairs := [][3]string{
		{"call.pool.r.1.do", "call.pool.r.1.do", "pool.r.1"},
		{"call.pool.do", "call.pool.do", "pool"},
		{"call.pool.g.7.a.do", "call.pool.g.7.b.do", "grp.7"},
		{"call.pool.sub.a.7.x.do", "call.pool.sub.b.7.y.z.do", "mg.7"},
		{"call.pool.sub.deep.p.9.do", "call.pool.sub.deep.q.9.do", "dg.9"},
		{"call.pool.user.7.do", "call.pool.user.7.profile.do", "7"},
	}
	// resource ids that merely START with the service name match nothing: With reports an error
	// and runs nothing
	for _, rid := range []string{"poolXr.1", "pool-r.1", "pools.r.1", "pool2"} {
		e.id++
		bad := e.id
		if err := e.s.With(rid, func(res.Resource) {
			e.rec.add("h.cbstart", "", bad)
			e.rec.add("h.cbend", "", bad)
		}); err == nil {
			time.Sleep(5 * time.Millisecond)
		}
	}
	for _, pr := range pairs {
		mu.Lock()
		blockCh = make(chan struct{})
		ch := blockCh
		mu.Unlock()
		first := deliver(pr[0], pr[2], true)
		ok := false
		for !ok {
			select {
			case id := <-entered:
				ok = id == first
			case <-time.After(2 * time.Second):
				ok = true
			}
		}
		second := deliver(pr[1], pr[2], false)
		// also a With callback on the first resource: it belongs to the same group
		rid := pr[0][len("call.") : len(pr[0])-len(".do")]
		e.id++
		wid := e.id
		e.rec.mu.Lock()
		e.rec.grp[wid] = pr[2]
		e.rec.mu.Unlock()
		e.rec.add("h.submit", pr[2], wid)
		withDone := make(chan struct{})
		if e.s.With(rid, func(res.Resource) {
			e.rec.add("h.cbstart", "", wid)
			e.rec.add("h.cbend", "", wid)
			close(withDone)
		}) != nil {
			close(withDone)
		}
		time.Sleep(15 * time.Millisecond) // were they not serialised, they would have started by now
		close(ch)
		deadline := time.After(2 * time.Second)
		for seen := false; !seen; {
			select {
			case id := <-entered:
				seen = id == second
			case <-deadline:
				seen = true
			}
		}
		select {
		case <-withDone:
		case <-time.After(2 * time.Second):
		}
	}
	e.rec.add("h.quiescent", "", 1)
	e.shutdown()
	flushNotes(e.rec, emit)
}

// steerExpiryDuringShutdown: a query event expires while Shutdown is waiting for a callback of
// the same group that is still running. The nil call belongs to that group: it may not run
// beside the callback (it is refused, or it waits).
func steerExpiryDuringShutdown(workers int, emit func(string)) {
	if atomic.LoadInt32(&poolHung) != 0 {
		return
	}
	e := &steerEnv{rec: &recorder{byRep: map[string]int{}, grp: map[int]string{}, rgroup: map[string]string{}}, g: &gateCtl{holds: map[int]*hold{}}}
	setHooks(e.rec.add, e.g.fn)
	defer e.close()
	emit("reset")
	e.s = res.NewService("pool")
	e.s.SetLogger(svc.NopLogger{})
	e.s.SetWorkerCount(workers)
	e.s.SetQueryEventDuration(30 * time.Millisecond)
	e.s.Handle("r.$id", res.Call("do", func(r res.CallRequest) { r.OK(nil) }))
	e.conn = recconn.New()
	served := make(chan struct{})
	e.s.SetOnServe(func(*res.Service) { close(served) })
	e.done = make(chan error, 1)
	go func() { e.done <- e.s.Serve(e.conn) }()
	if waitCh(served, "serve") != nil {
		return
	}
	const rname = "pool.r.1"
	e.rec.mu.Lock()
	e.rec.rgroup[rname] = rname
	e.rec.mu.Unlock()
	// the callback that starts the query event, then keeps the group busy
	unblock := make(chan struct{})
	busy := make(chan struct{})
	e.id++
	id := e.id
	e.rec.mu.Lock()
	e.rec.grp[id] = rname
	e.rec.mu.Unlock()
	e.rec.add("h.submit", rname, id)
	e.s.With(rname, func(r res.Resource) {
		e.rec.add("h.cbstart", "", id)
		r.QueryEvent(func(q res.QueryRequest) {
			if q != nil {
				return
			}
			e.rec.mu.Lock()
			ids := e.rec.nilIDs[rname]
			nid := 0
			if len(ids) > 0 {
				nid = ids[0]
				e.rec.nilIDs[rname] = ids[1:]
			}
			e.rec.mu.Unlock()
			e.rec.add("h.cbstart", "", nid)
			time.Sleep(time.Millisecond)
			e.rec.add("h.cbend", "", nid)
		})
		close(busy)
		<-unblock
		e.rec.add("h.cbend", "", id)
	})
	waitCh(busy, "busy callback")
	from := e.numNotes()
	sdDone := make(chan bool, 1)
	go func() { sdDone <- e.shutdown() }()
	e.waitNote("c.broadcast", from)
	time.Sleep(80 * time.Millisecond) // the query event expires while the service is stopping
	close(unblock)
	<-sdDone
	time.Sleep(5 * time.Millisecond)
	flushNotes(e.rec, emit)
}

// steerWithDuringRestart: on the second start of a service a callback is submitted while
// Serve is still subscribing (the service counts as started from then on) and keeps running;
// a second callback of the same group submitted once the service listens must wait for it.
func steerWithDuringRestart(workers int, emit func(string)) {
	e, err := newSteer(workers)
	if err != nil {
		return
	}
	defer e.close()
	emit("reset")
	e.shutdown()
	unblock := make(chan struct{})
	busy := make(chan struct{})
	var once sync.Once
	e.conn = recconn.New()
	e.conn.OnSubscribe = func(string) {
		once.Do(func() {
			e.submit("grp.w", "", func(int) { close(busy); <-unblock })
			select {
			case <-busy:
			case <-time.After(2 * time.Second):
			}
		})
	}
	served := make(chan struct{})
	e.s.SetOnServe(func(*res.Service) { close(served) })
	e.done = make(chan error, 1)
	go func() { e.done <- e.s.Serve(e.conn) }()
	if waitCh(served, "serve again") != nil {
		close(unblock)
		return
	}
	_, ret, _ := e.submit("grp.w", "", nil)
	time.Sleep(15 * time.Millisecond) // were it not serialised behind the first, it would have run by now
	close(unblock)
	waitCh(ret, "second callback")
	time.Sleep(2 * time.Millisecond)
	e.rec.add("h.quiescent", "", 1)
	e.shutdown()
	flushNotes(e.rec, emit)
}

// traceHoldLogger holds the goroutine that logs an outgoing event ("<-- subject") until it is
// released: the window between the connection check and the publish in the event path.
type traceHoldLogger struct {
	mu      sync.Mutex
	armed   bool
	arrived chan struct{}
	release chan struct{}
}

func (l *traceHoldLogger) Infof(string, ...interface{})  {}
func (l *traceHoldLogger) Errorf(string, ...interface{}) {}
func (l *traceHoldLogger) Tracef(format string, v ...interface{}) {
	if !strings.HasPrefix(format, "<--") {
		return
	}
	l.mu.Lock()
	hold := l.armed
	l.armed = false
	l.mu.Unlock()
	if hold {
		close(l.arrived)
		<-l.release
	}
}

// steerPublishDuringShutdown: an event is being published from a foreign goroutine (it has
// passed its started/connection checks and is writing its trace entry) while Shutdown runs to
// completion. The publisher must not panic.
func steerPublishDuringShutdown(workers int, emit func(string)) {
	if atomic.LoadInt32(&poolHung) != 0 {
		return
	}
	for variant := 0; variant < 3; variant++ {
		e := &steerEnv{rec: &recorder{byRep: map[string]int{}, grp: map[int]string{}}, g: &gateCtl{holds: map[int]*hold{}}}
		setHooks(e.rec.add, e.g.fn)
		emit("reset")
		lg := &traceHoldLogger{arrived: make(chan struct{}), release: make(chan struct{})}
		e.s = res.NewService("pool")
		e.s.SetLogger(lg)
		e.s.SetWorkerCount(workers)
		e.s.Handle("r.$id", res.Call("do", func(r res.CallRequest) { r.OK(nil) }))
		e.conn = recconn.New()
		served := make(chan struct{})
		e.s.SetOnServe(func(*res.Service) { close(served) })
		e.done = make(chan error, 1)
		go func() { e.done <- e.s.Serve(e.conn) }()
		if waitCh(served, "serve") != nil {
			e.close()
			return
		}
		lg.mu.Lock()
		lg.armed = true
		lg.mu.Unlock()
		pubDone := make(chan struct{})
		go func() {
			defer close(pubDone)
			defer func() {
				if v := recover(); v != nil {
					e.rec.add("h.panic", fmt.Sprint(v), 0)
				}
			}()
			switch variant {
			case 0:
				e.s.TokenEvent("cid1", map[string]int{"u": 1})
			case 1:
				e.s.Reset([]string{"pool.r.1"}, nil)
			default:
				e.s.TokenReset("auth.pool.login", "tid1")
			}
		}()
		select {
		case <-lg.arrived:
		case <-time.After(2 * time.Second):
		}
		e.shutdown()
		close(lg.release)
		waitCh(pubDone, "publisher")
		flushNotes(e.rec, emit)
		e.close()
	}
}

// steerShutdownDuringSubscribe: Shutdown is called, and completes, from another goroutine while
// Serve is still subscribing (the service counts as started from the moment the workers run).
// Serve must not panic, must return, and the service must be restartable.
func steerShutdownDuringSubscribe(workers int, emit func(string)) {
	if atomic.LoadInt32(&poolHung) != 0 {
		return
	}
	e := &steerEnv{rec: &recorder{byRep: map[string]int{}, grp: map[int]string{}}, g: &gateCtl{holds: map[int]*hold{}}}
	setHooks(e.rec.add, e.g.fn)
	defer e.close()
	emit("reset")
	e.s = res.NewService("pool")
	e.s.SetLogger(svc.NopLogger{})
	e.s.SetWorkerCount(workers)
	e.s.Handle("r.$id", res.Call("do", func(r res.CallRequest) { r.OK(nil) }))
	e.s.Handle("q.$id", res.Call("do", func(r res.CallRequest) { r.OK(nil) }))
	e.conn = recconn.New()
	var once sync.Once
	e.conn.OnSubscribe = func(string) {
		once.Do(func() {
			e.rec.add("h.shutdown.begin", "", 0)
			sd := make(chan struct{})
			go func() { e.s.Shutdown(); close(sd) }()
			select {
			case <-sd:
				e.rec.add("h.shutdown.end", "", 0)
			case <-time.After(3 * time.Second):
				e.rec.add("h.shutdown.hung", "", 0)
				atomic.StoreInt32(&poolHung, 1)
			}
		})
	}
	e.done = make(chan error, 1)
	go func() {
		defer func() {
			if r := recover(); r != nil {
				e.rec.add("h.serve.panic", "", 0)
				e.done <- fmt.Errorf("panic: %v", r)
			}
		}()
		e.done <- e.s.Serve(e.conn)
	}()
	select {
	case <-e.done:
	case <-time.After(3 * time.Second):
		e.rec.add("h.serve.hung", "", 0)
		atomic.StoreInt32(&poolHung, 1)
		flushNotes(e.rec, emit)
		return
	}
	e.rec.add("h.connclosed", "", e.conn.ClosedCount())
	e.conn.OnSubscribe = nil
	e.serveCycle()
	flushNotes(e.rec, emit)
}

// steerStaleSubmitAcrossRestart: a submission passes the started-check, then the service is shut
// down completely and served again; the submission takes the lock while serve is re-initialising
// the queue state. Whatever becomes of it (refused, or accepted into the new cycle), a second
// callback of the same group submitted afterwards may not run beside it.
func steerStaleSubmitAcrossRestart(workers int, emit func(string)) {
	e, err := newSteer(workers)
	if err != nil {
		return
	}
	defer e.close()
	emit("reset")
	unblock := make(chan struct{})
	busy := make(chan struct{})
	h, ret1, _ := e.submit("grp.s", "runWith.checked", func(int) { close(busy); <-unblock })
	if waitCh(h.arrived, "stale submitter at the gate") != nil {
		close(h.release)
		close(unblock)
		return
	}
	if !e.shutdown() {
		close(h.release)
		close(unblock)
		flushNotes(e.rec, emit)
		return
	}
	e.conn = recconn.New()
	served := make(chan struct{})
	e.s.SetOnServe(func(*res.Service) { close(served) })
	e.done = make(chan error, 1)
	hc := make(chan *hold, 1)
	go func() {
		hc <- e.g.holdAt("serve.init")
		e.done <- e.s.Serve(e.conn)
	}()
	hs := <-hc
	if waitCh(hs.arrived, "serve at its initialisation") != nil {
		close(h.release)
		close(hs.release)
		close(unblock)
		return
	}
	// the stale submission goes for the lock now; if serve initialises under the mutex it waits there
	close(h.release)
	select {
	case <-ret1:
	case <-time.After(20 * time.Millisecond):
	}
	close(hs.release)
	if waitCh(served, "serve again") != nil {
		close(unblock)
		return
	}
	waitCh(ret1, "stale submission")
	select { // if it was accepted its callback is running by now
	case <-busy:
	case <-time.After(30 * time.Millisecond):
	}
	_, ret2, _ := e.submit("grp.s", "", nil)
	waitCh(ret2, "second submission")
	time.Sleep(15 * time.Millisecond) // were it not serialised behind the first, it would have run by now
	close(unblock)
	time.Sleep(5 * time.Millisecond)
	e.rec.add("h.quiescent", "", 1)
	e.shutdown()
	flushNotes(e.rec, emit)
}

// steerServeWhileServing: a second Serve on the service that is being served is refused and changes
// nothing: callbacks are still accepted and run, Shutdown still shuts it down, Serve returns, and
// it can be served again.
func steerServeWhileServing(workers int, emit func(string)) {
	e, err := newSteer(workers)
	if err != nil {
		return
	}
	defer e.close()
	emit("reset")
	second := make(chan error, 1)
	go func() { second <- e.s.Serve(recconn.New()) }()
	select {
	case err := <-second:
		if err == nil {
			e.rec.add("h.serve2.accepted", "", 0)
		}
	case <-time.After(3 * time.Second):
		e.rec.add("h.serve2.accepted", "", 0)
	}
	for k := 0; k < 2; k++ {
		ran := make(chan struct{})
		e.submit("after", "", func(int) { close(ran) })
		select {
		case <-ran:
		case <-time.After(2 * time.Second):
			e.rec.add("h.refused.running", "", 0)
		}
	}
	e.rec.add("h.shutdown.begin", "", 0)
	sd := make(chan error, 1)
	go func() { sd <- e.s.Shutdown() }()
	select {
	case err := <-sd:
		if err != nil {
			e.rec.add("h.shutdown.refused", "", 0)
		}
		e.rec.add("h.shutdown.end", "", 0)
	case <-time.After(3 * time.Second):
		e.rec.add("h.shutdown.hung", "", 0)
		atomic.StoreInt32(&poolHung, 1)
		flushNotes(e.rec, emit)
		return
	}
	select {
	case <-e.done:
	case <-time.After(3 * time.Second):
		e.rec.add("h.serve.hung", "", 0)
		atomic.StoreInt32(&poolHung, 1)
		flushNotes(e.rec, emit)
		return
	}
	e.rec.add("h.connclosed", "", e.conn.ClosedCount())
	e.serveCycle()
	flushNotes(e.rec, emit)
}

// steerServeAfterFailedStart: Serve returns an error before anything was started (an event listener
// without a handler fails the validation). The service is then stopped like any service whose Serve
// has returned: once the handler is there it can be served, and gives the usual guarantees.
func steerServeAfterFailedStart(workers int, emit func(string)) {
	if atomic.LoadInt32(&poolHung) != 0 {
		return
	}
	e := &steerEnv{rec: &recorder{byRep: map[string]int{}, grp: map[int]string{}}, g: &gateCtl{holds: map[int]*hold{}}}
	setHooks(e.rec.add, e.g.fn)
	defer e.close()
	emit("reset")
	e.s = res.NewService("pool")
	e.s.SetLogger(svc.NopLogger{})
	e.s.SetWorkerCount(workers)
	e.s.Handle("r.$id", res.Call("do", func(r res.CallRequest) { r.OK(nil) }))
	// first a ListenAndServe that cannot connect (nothing listens on port 1) ...
	lsDone := make(chan error, 1)
	go func() { lsDone <- e.s.ListenAndServe("nats://127.0.0.1:1") }()
	select {
	case <-lsDone:
	case <-time.After(10 * time.Second):
		e.rec.add("h.serve.hung", "", 0)
		atomic.StoreInt32(&poolHung, 1)
		flushNotes(e.rec, emit)
		return
	}
	// ... then a Serve whose listener validation fails
	e.s.AddListener("late.$id", func(*res.Event) {})
	failed := make(chan error, 1)
	go func() { failed <- e.s.Serve(recconn.New()) }()
	select {
	case err := <-failed:
		if err == nil {
			return // the validation did not fail: nothing to learn here
		}
		if strings.Contains(err.Error(), "not stopped") {
			e.rec.add("h.serve.refused.stopped", "", 0)
			flushNotes(e.rec, emit)
			return
		}
	case <-time.After(3 * time.Second):
		e.rec.add("h.serve.hung", "", 0)
		atomic.StoreInt32(&poolHung, 1)
		flushNotes(e.rec, emit)
		return
	}
	e.s.Handle("late.$id", res.Call("do", func(r res.CallRequest) { r.OK(nil) }))
	e.conn = recconn.New()
	served := make(chan struct{})
	e.s.SetOnServe(func(*res.Service) { close(served) })
	e.done = make(chan error, 1)
	go func() { e.done <- e.s.Serve(e.conn) }()
	select {
	case <-served:
	case err := <-e.done:
		_ = err
		e.rec.add("h.serve.refused.stopped", "", 0)
		flushNotes(e.rec, emit)
		return
	case <-time.After(3 * time.Second):
		e.rec.add("h.serve.hung", "", 0)
		atomic.StoreInt32(&poolHung, 1)
		flushNotes(e.rec, emit)
		return
	}
	ran := make(chan struct{})
	e.submit("after", "", func(int) { close(ran) })
	select {
	case <-ran:
	case <-time.After(2 * time.Second):
		e.rec.add("h.refused.running", "", 0)
	}
	e.shutdown()
	flushNotes(e.rec, emit)
}

// steerCloseUnderBackpressure: Shutdown closes the connection while a delivery is blocked on the
// full in-channel and the listener is about to take the service mutex. The connection's Close
// waits for the delivery, the delivery waits for the listener, the listener waits for the mutex:
// Shutdown returns only because it does not hold the mutex while it closes the connection.
func steerCloseUnderBackpressure(workers int, emit func(string)) {
	if atomic.LoadInt32(&poolHung) != 0 {
		return
	}
	e := &steerEnv{rec: &recorder{byRep: map[string]int{}, grp: map[int]string{}}, g: &gateCtl{holds: map[int]*hold{}}}
	setHooks(e.rec.add, e.g.fn)
	defer e.close()
	emit("reset")
	e.s = res.NewService("pool")
	e.s.SetLogger(svc.NopLogger{})
	e.s.SetWorkerCount(workers)
	e.s.SetInChannelSize(1)
	e.s.Handle("r.$id", res.Call("do", func(r res.CallRequest) {
		var p struct {
			ID int `json:"id"`
		}
		r.ParseParams(&p)
		e.rec.add("h.cbstart", "", p.ID)
		e.rec.add("h.cbend", "", p.ID)
		r.OK(nil)
	}))
	e.conn = recconn.New()
	served := make(chan struct{})
	e.s.SetOnServe(func(*res.Service) { close(served) })
	e.done = make(chan error, 1)
	hc := make(chan *hold, 1)
	go func() {
		// the goroutine that calls Serve is the listener: hold it where it has passed the state check
		hc <- e.g.holdAt("runWith.checked")
		e.done <- e.s.Serve(e.conn)
	}()
	h := <-hc
	if waitCh(served, "serve") != nil {
		return
	}
	deliver := func(k int) {
		e.id++
		id := e.id
		reply := fmt.Sprintf("_INBOX.bp%d", id)
		e.rec.mu.Lock()
		e.rec.grp[id] = fmt.Sprintf("pool.r.%d", k)
		e.rec.byRep[reply] = id
		e.rec.mu.Unlock()
		e.conn.Deliver(fmt.Sprintf("call.pool.r.%d.do", k), reply, []byte(fmt.Sprintf(`{"params":{"id":%d}}`, id)))
	}
	deliver(1)
	if waitCh(h.arrived, "listener past the state check") != nil {
		close(h.release)
		e.shutdown()
		flushNotes(e.rec, emit)
		return
	}
	deliver(2) // fills the in-channel
	third := make(chan struct{})
	go func() { deliver(3); close(third) }() // blocks inside the connection
	time.Sleep(5 * time.Millisecond)
	from := e.numNotes()
	e.rec.add("h.shutdown.begin", "", 0)
	sd := make(chan struct{})
	go func() { e.s.Shutdown(); close(sd) }()
	e.waitNote("c.broadcast", from)
	time.Sleep(5 * time.Millisecond) // Shutdown is inside the connection's Close now
	close(h.release)
	select {
	case <-sd:
		e.rec.add("h.shutdown.end", "", 0)
	case <-time.After(3 * time.Second):
		e.rec.add("h.shutdown.hung", "", 0)
		atomic.StoreInt32(&poolHung, 1)
		flushNotes(e.rec, emit)
		return
	}
	select {
	case <-e.done:
	case <-time.After(3 * time.Second):
		e.rec.add("h.serve.hung", "", 0)
		atomic.StoreInt32(&poolHung, 1)
		flushNotes(e.rec, emit)
		return
	}
	waitCh(third, "third delivery")
	e.rec.add("h.connclosed", "", e.conn.ClosedCount())
	e.serveCycle()
	flushNotes(e.rec, emit)
}

func steerAll(emit func(string)) {
	for _, w := range []int{1, 2, 3} {
		steerLateSubmit(w, "slow", emit)
		steerLateSubmit(w, "busy", emit)
		steerRetireAppend(w, true, emit)
		steerRetireAppend(w, false, emit)
		steerSignalGap(w, emit)
		steerRestartStale(w, emit)
		steerServeDuringShutdown(w, emit)
		steerSameGroup(w, emit)
		steerWithDuringRestart(w, emit)
		steerPublishDuringShutdown(w, emit)
		steerExpiryDuringShutdown(w, emit)
		steerShutdownInOnServe(w, emit)
		steerSubscribeFails(w, 0, emit)
		steerSubscribeFails(w, 2, emit)
		steerShutdownDuringSubscribe(w, emit)
		steerStaleSubmitAcrossRestart(w, emit)
		steerServeWhileServing(w, emit)
		steerServeAfterFailedStart(w, emit)
		steerCloseUnderBackpressure(w, emit)
	}
}
