package dom

import (
	"bufio"
	"fmt"
	"net/url"
	"os"
	"os/exec"
	"sort"
	"strconv"
	"strings"
	"syscall"
	"time"

	"github.com/dgraph-io/badger"
	"github.com/jirenius/go-res/store/badgerstore"
	"verif/harness/internal/gen"
	"verif/harness/internal/wire"
)

// crash (C12): a child process runs a workload of store operations on a real
// BadgerDB and kills itself (SIGKILL) at the k-th visit of an instrumentation
// point; the parent reopens the database, dumps what survived, rebuilds the
// indexes and dumps the index. One op line = one (workload, point, k).
//
// workload ops: I (Init with seeds s1,s2), C:id:k, U:id:k, D:id, F (Flush)

type crashDom struct {
	lastKilled bool
}

func init() { Register("crash", func() Domain { return &crashDom{} }) }

var crashPoints = []string{"store.committed", "store.notified", "init.begin", "init.wrote", "init.marking", "index.task", "index.committed"}

func genWorkload(r *gen.R) []string {
	ids := []string{"1", "2", "s1", "s2", "s1"} // s1, s2 are also the ids Init seeds
	n := 4 + r.Intn(5)
	ops := []string{}
	if r.Bool() {
		ops = append(ops, "I")
	}
	for i := 0; i < n; i++ {
		id := r.Pick(ids)
		switch r.Intn(8) {
		case 0, 1, 2:
			ops = append(ops, "C:"+id+":"+r.Pick([]string{"a", "ab", "b"}))
		case 3, 4:
			ops = append(ops, "U:"+id+":"+r.Pick([]string{"a", "ab", "b", "c"}))
		case 5:
			ops = append(ops, "D:"+id)
		case 6:
			ops = append(ops, "I")
		default:
			ops = append(ops, "F")
		}
	}
	return ops
}

func (d *crashDom) Gen(r *gen.R, tier string, emit func(string)) {
	nw := 3
	if tier == "thorough" {
		nw = 40
	}
	for w := 0; w < nw; w++ {
		ops := genWorkload(r)
		prefix := r.Pick([]string{"", "pfx"})
		// no kill at all
		emit(wire.Line(append([]string{"crash", prefix, "none", "0"}, ops...)...))
		// random-time kills: the workload takes some tens of milliseconds (every commit is synced)
		nt := 6
		if tier == "thorough" {
			nt = 40
		}
		for t := 0; t < nt; t++ {
			emit(wire.Line(append([]string{"crash", prefix, "time", strconv.Itoa(200 + r.Intn(60000))}, ops...)...))
		}
		for _, p := range crashPoints {
			for k := 1; k <= 12; k++ {
				emit(wire.Line(append([]string{"crash", prefix, p, strconv.Itoa(k)}, ops...)...))
				if !d.lastKilled {
					break
				}
			}
		}
	}
}

func openCrashStore(dir, prefix string) (*badger.DB, *badgerstore.Store, *badgerstore.QueryStore, error) {
	db, err := badger.Open(badger.DefaultOptions(dir).WithLogger(nil))
	if err != nil {
		return nil, nil, nil, err
	}
	st := badgerstore.NewStore(db).SetType(idxVal{}).SetPrefix(prefix)
	qs := badgerstore.NewQueryStore(st, func(qs *badgerstore.QueryStore, q url.Values) (*badgerstore.IndexQuery, error) {
		return &badgerstore.IndexQuery{Index: qs.Index("k"), Limit: -1}, nil
	}).AddIndex(badgerstore.Index{Name: "k", Key: func(v interface{}) []byte { return []byte(v.(idxVal).K) }})
	return db, st, qs, nil
}

// CrashChild is the body of the child process: corr crashchild DIR PREFIX POINT K ops...
func CrashChild(args []string) {
	dir, prefix, point := args[0], args[1], args[2]
	k, _ := strconv.Atoi(args[3])
	ops := args[4:]
	logf, _ := os.OpenFile(dir+".log", os.O_CREATE|os.O_WRONLY|os.O_APPEND|os.O_SYNC, 0644)
	seen := 0
	badgerstore.VerifPointFn = func(p, id string) {
		if p == point {
			seen++
			if seen == k {
				syscall.Kill(os.Getpid(), syscall.SIGKILL)
				select {}
			}
		}
	}
	db, st, qs, err := openCrashStore(dir, prefix)
	if err != nil {
		fmt.Fprintln(logf, "OPENFAIL")
		os.Exit(3)
	}
	if point == "time" {
		// a kill at a random moment (k microseconds into the workload), wherever the process happens to be
		go func() {
			time.Sleep(time.Duration(k) * time.Microsecond)
			syscall.Kill(os.Getpid(), syscall.SIGKILL)
		}()
	}
	for i, op := range ops {
		f := strings.Split(op, ":")
		fmt.Fprintf(logf, "BEGIN %d\n", i)
		var err error
		switch f[0] {
		case "I":
			err = st.Init(func(add func(id string, v interface{})) error {
				add("s1", idxVal{K: "seed", G: "g"})
				add("s2", idxVal{K: "seed2", G: "g"})
				return nil
			})
		case "C":
			txn := st.Write(f[1])
			err = txn.Create(idxVal{K: f[2], G: "g"})
			txn.Close()
		case "U":
			txn := st.Write(f[1])
			err = txn.Update(idxVal{K: f[2], G: "g"})
			txn.Close()
		case "D":
			txn := st.Write(f[1])
			err = txn.Delete()
			txn.Close()
		case "F":
			qs.Flush()
		}
		if err != nil {
			fmt.Fprintf(logf, "ERR %d\n", i)
		} else {
			fmt.Fprintf(logf, "ACK %d\n", i)
		}
	}
	qs.Flush()
	db.Close()
	fmt.Fprintln(logf, "DONE")
	os.Exit(0)
}

func (d *crashDom) Exec(a []string) string {
	return Safe(func() string {
		if len(a) < 4 || a[0] != "crash" {
			return "bad-op"
		}
		dir, err := os.MkdirTemp("", "verif-crash")
		if err != nil {
			return "tempdir-failed"
		}
		defer os.RemoveAll(dir)
		defer os.Remove(dir + ".log")
		cmd := exec.Command(os.Args[0], append([]string{"crashchild", dir, a[1], a[2], a[3]}, a[4:]...)...)
		cmd.Run()
		killed := cmd.ProcessState != nil && !cmd.ProcessState.Exited()
		d.lastKilled = killed
		// what the child acknowledged
		acked := map[int]string{}
		inflight := -1
		if lf, err := os.Open(dir + ".log"); err == nil {
			sc := bufio.NewScanner(lf)
			for sc.Scan() {
				f := strings.Fields(sc.Text())
				if len(f) == 2 {
					i, _ := strconv.Atoi(f[1])
					switch f[0] {
					case "BEGIN":
						inflight = i
					case "ACK":
						acked[i] = "A"
						inflight = -1
					case "ERR":
						acked[i] = "E"
						inflight = -1
					}
				}
			}
			lf.Close()
		}
		nops := len(a) - 4
		status := make([]string, nops)
		for i := range status {
			switch {
			case acked[i] != "":
				status[i] = acked[i]
			case i == inflight:
				status[i] = "?"
			default:
				status[i] = "-"
			}
		}
		// reopen and dump
		db, st, qs, err := openCrashStore(dir, a[1])
		if err != nil {
			return "reopen-failed"
		}
		defer db.Close()
		var vals []string
		marker := false
		pfx := ""
		if a[1] != "" {
			pfx = a[1] + "."
		}
		db.View(func(txn *badger.Txn) error {
			it := txn.NewIterator(badger.DefaultIteratorOptions)
			defer it.Close()
			for it.Rewind(); it.Valid(); it.Next() {
				k := string(it.Item().Key())
				switch {
				case k == "$"+pfx+"init":
					marker = true
				case strings.HasPrefix(k, "k:"):
				case strings.HasPrefix(k, pfx):
					id := strings.TrimPrefix(k, pfx)
					v, err := st.Get(id)
					if err == nil {
						vals = append(vals, id+"="+v.(idxVal).K)
					}
				}
			}
			return nil
		})
		sort.Strings(vals)
		rebuilt := "ok"
		if err := qs.RebuildIndexes(); err != nil {
			rebuilt = "err"
		}
		idx := "err"
		if res, err := qs.Query(url.Values{}); err == nil {
			idx = strings.Join(res.([]string), ",")
		}
		return fmt.Sprintf("killed=%s status=%s values=%s marker=%s rebuilt=%s idx=%s", wire.Bool(killed), strings.Join(status, ""),
			strings.Join(vals, ","), wire.Bool(marker), rebuilt, idx)
	})
}
