package dom

import (
	"encoding/json"
	"errors"
	"fmt"
	"strconv"
	"strings"
	"sync"
	"time"

	res "github.com/jirenius/go-res"
	"github.com/jirenius/go-res/resprot"
	nats "github.com/nats-io/nats.go"
	"verif/harness/internal/gen"
	"verif/harness/internal/natsrv"
	"verif/harness/internal/wire"
)

// sendreq: resprot.SendRequest against a scripted connection. Times are in
// units of sendUnit; events are at least one unit apart from every deadline.

const sendUnit = 30 * time.Millisecond

type sendreqDom struct {
	mu    sync.Mutex
	cache map[string]string
}

func init() { Register("sendreq", func() Domain { return &sendreqDom{cache: map[string]string{}} }) }

type scriptConn struct {
	subOK, pubOK bool
	events       []struct {
		t    int
		data string
	}
	mu     sync.Mutex
	ch     chan *nats.Msg
	subbed bool
	npub   int
	nc     *nats.Conn         // a real connection to the embedded server: subscriptions are real
	sub    *nats.Subscription // so that their release can be observed
}

func (c *scriptConn) Publish(subject string, payload []byte) error { return nil }

func (c *scriptConn) PublishRequest(subject, reply string, data []byte) error {
	c.npub++
	if !c.pubOK {
		return errors.New("publish failed")
	}
	start := time.Now()
	go func() {
		for _, e := range c.events {
			d := time.Duration(e.t)*time.Millisecond - time.Since(start)
			if d > 0 {
				time.Sleep(d)
			}
			func() {
				defer func() { recover() }()
				select {
				case c.ch <- &nats.Msg{Subject: reply, Data: []byte(e.data)}:
				case <-time.After(2 * time.Second):
				}
			}()
		}
	}()
	return nil
}

func (c *scriptConn) ChanSubscribe(subject string, ch chan *nats.Msg) (*nats.Subscription, error) {
	if !c.subOK {
		return nil, errors.New("subscribe failed")
	}
	sub, err := c.nc.ChanSubscribe(subject, ch)
	if err != nil {
		return nil, err
	}
	c.mu.Lock()
	c.ch = ch
	c.subbed = true
	c.sub = sub
	c.mu.Unlock()
	return sub, nil
}

func (c *scriptConn) ChanQueueSubscribe(subject, queue string, ch chan *nats.Msg) (*nats.Subscription, error) {
	return c.ChanSubscribe(subject, ch)
}

func (c *scriptConn) Close() {}

var _ res.Conn = &scriptConn{}

var sendMsgs = []string{`{"result":1}`, `{"error":{"code":"system.notFound","message":"Not found"}}`, `{"resource":{"rid":"a.b"}}`, ``, `[1]`, `"str"`,
	`timeout:"%d"`, `timeout:"%d"`, `timeout:"%d"`, `timeout:"abc"`, `foo:"bar"`, `Timeout:"%d"`, `x:"1" timeout:"%d"`, `timeout:"%d" y:"2"`, `timeout`, `zzz`, `TIMEOUT:"5"`, `timeout:"-1"`,
	// first bytes that are letters only to a Unicode-minded reader: these are responses (malformed ones)
	"\xef\xbb\xbf{\"result\":\"bom\"}", "\xb5x", "\xe9t\xe9", "\xc3\xa9"}

func (d *sendreqDom) Gen(r *gen.R, tier string, emit func(string)) {
	n := 120
	if tier == "thorough" {
		n = 1500
	}
	u := int(sendUnit / time.Millisecond)
	var lines []string
	// every kind of message in first position, well inside the deadline, followed by a response: a
	// pre-response (any message starting with a letter, upper or lower case) never ends the request
	for _, m := range sendMsgs {
		if strings.Contains(m, "%d") {
			m = fmt.Sprintf(m, 3*u)
		}
		lines = append(lines, wire.Line("send", "T", "T", "T", strconv.Itoa(4*u), "2", strconv.Itoa(u), m, strconv.Itoa(3*u), `{"result":"late"}`))
	}
	for _, m := range []string{`Info:"working" timeout:"` + strconv.Itoa(3*u) + `"`, `X-Progress:"50"`, `A`, `z`, `Z:"1"`} {
		lines = append(lines, wire.Line("send", "T", "T", "T", strconv.Itoa(2*u), "2", strconv.Itoa(u), m, strconv.Itoa(3*u), `{"result":"late"}`))
	}
	// an extension may shorten the deadline: the announced duration counts from the pre-response,
	// whatever was left of the previous deadline (a response after it comes too late; silence ends there)
	short := `timeout:"` + strconv.Itoa(2*u) + `"`
	lines = append(lines, wire.Line("send", "T", "T", "T", strconv.Itoa(12*u), "2", strconv.Itoa(u), short, strconv.Itoa(6*u), `{"result":"late"}`))
	lines = append(lines, wire.Line("send", "T", "T", "T", strconv.Itoa(12*u), "1", strconv.Itoa(u), short))
	lines = append(lines, wire.Line("send", "T", "T", "T", strconv.Itoa(12*u), "3", strconv.Itoa(u), `timeout:"`+strconv.Itoa(9*u)+`"`, strconv.Itoa(2*u), short, strconv.Itoa(7*u), `{"result":"late"}`))
	for i := 0; i < n; i++ {
		ma, su, pu := "T", "T", "T"
		switch r.Intn(12) {
		case 0:
			ma = r.Pick([]string{"F", "B", "B"})
		case 3:
			ma = r.Pick([]string{"R", "N"})
		case 1:
			su = "F"
		case 2:
			pu = "F"
		}
		timeout := (2 + 2*r.Intn(4)) * u // even number of units
		k := r.Intn(5)
		args := []string{"send", ma, su, pu, strconv.Itoa(timeout), strconv.Itoa(k)}
		t := 0
		for j := 0; j < k; j++ {
			if j == 0 {
				t += (1 + 2*r.Intn(2)) * u // first arrival at an odd number of units
			} else {
				t += (2 + 2*r.Intn(2)) * u // later ones an even number of units apart: arrivals stay odd, deadlines even
			}
			m := r.Pick(sendMsgs)
			if r.Chance(1, 3) {
				m = sendMsgs[6] // a timeout extension
			}
			if strings.Contains(m, "%d") {
				m = fmt.Sprintf(m, (1+2*r.Intn(3))*u) // odd duration from an odd arrival time: the new deadline is even
			}
			args = append(args, strconv.Itoa(t), m)
		}
		lines = append(lines, wire.Line(args...))
	}
	// run them concurrently (each takes up to ~1 s of real time), then report in order
	var wg sync.WaitGroup
	sem := make(chan struct{}, 48)
	for _, l := range lines {
		wg.Add(1)
		go func(l string) {
			defer wg.Done()
			sem <- struct{}{}
			defer func() { <-sem }()
			f, _ := wire.Fields(l)
			out := d.execNow(f)
			d.mu.Lock()
			d.cache[l] = out
			d.mu.Unlock()
		}(l)
	}
	wg.Wait()
	for _, l := range lines {
		emit(l)
	}
	emit(wire.Line("slowcb"))
	emit(wire.Line("slowsilent"))
	// a real service over the embedded NATS server
	reps := 2
	if tier == "thorough" {
		reps = 10
	}
	for i := 0; i < reps; i++ {
		for _, sc := range []string{"resp", "pre", "precb", "silent", "slow", "pubfail", "many"} {
			emit(wire.Line("natsend", sc))
		}
	}
}

func (d *sendreqDom) Exec(a []string) string {
	key := wire.Line(a...)
	d.mu.Lock()
	out, ok := d.cache[key]
	d.mu.Unlock()
	if ok {
		return out
	}
	return d.execNow(a)
}

// slowCallback: the first extension callback outlasts the deadline it announced, while a second
// extension is already waiting on the inbox. Whenever SendRequest does take the second extension
// (it may also see the fired deadline first: both are ready), the response that arrives within
// it must be returned.
func slowCallback() string {
	nc, err := sharedNATS()
	if err != nil {
		return "nats-failed"
	}
	took, bad := 0, 0
	var wg sync.WaitGroup
	var mu sync.Mutex
	for i := 0; i < 24; i++ {
		wg.Add(1)
		go func() {
			defer wg.Done()
			c := &scriptConn{subOK: true, pubOK: true, nc: nc}
			c.events = []struct {
				t    int
				data string
			}{{0, `timeout:"40"`}, {10, `timeout:"3000"`}, {400, `{"result":"ok"}`}}
			var exts []int
			r := resprot.SendRequest(c, "call.svc.m", nil, time.Second, func(d time.Duration) {
				exts = append(exts, int(d/time.Millisecond))
				if len(exts) == 1 {
					time.Sleep(150 * time.Millisecond)
				}
			})
			mu.Lock()
			defer mu.Unlock()
			if len(exts) == 2 && exts[1] == 3000 {
				took++
				if r.HasError() {
					bad++
				}
			}
		}()
	}
	wg.Wait()
	if took == 0 {
		return "slowcb never-took-second-extension"
	}
	return fmt.Sprintf("slowcb lost-after-extension=%d", bad)
}

// slowSilent: an extension of 300 ms whose callback takes 400 ms, then silence. The announced
// duration counts from the pre-response, so the deadline has passed when the callback returns and
// the timeout error follows at once (about 400 ms after the pre-response); were the deadline only
// restarted after the callbacks, it would take 700 ms. Three runs in parallel, the quickest one
// counts (load only ever makes a run slower).
func slowSilent() string {
	nc, err := sharedNATS()
	if err != nil {
		return "nats-failed"
	}
	var wg sync.WaitGroup
	var mu sync.Mutex
	best := time.Hour
	outcome := ""
	for i := 0; i < 3; i++ {
		wg.Add(1)
		go func() {
			defer wg.Done()
			c := &scriptConn{subOK: true, pubOK: true, nc: nc}
			c.events = []struct {
				t    int
				data string
			}{{0, `timeout:"300"`}}
			var at time.Time
			r := resprot.SendRequest(c, "call.svc.m", nil, 5*time.Second, func(d time.Duration) {
				at = time.Now()
				time.Sleep(400 * time.Millisecond)
			})
			el := time.Since(at)
			mu.Lock()
			defer mu.Unlock()
			if el < best {
				best = el
			}
			if !r.HasError() {
				outcome = "response"
			} else if outcome == "" && r.Error != nil {
				outcome = r.Error.Code
			}
		}()
	}
	wg.Wait()
	when := "with-the-announced-deadline"
	if best > 600*time.Millisecond {
		when = "late"
	}
	return "slowsilent " + outcome + " " + when
}

func (d *sendreqDom) execNow(a []string) string {
	if len(a) == 1 && a[0] == "slowcb" {
		return Safe(slowCallback)
	}
	if len(a) == 1 && a[0] == "slowsilent" {
		return Safe(slowSilent)
	}
	return Safe(func() string {
		if len(a) >= 2 && a[0] == "natsend" {
			return natSend(a)
		}
		if len(a) < 6 || a[0] != "send" {
			return "bad-op"
		}
		nc, err := sharedNATS()
		if err != nil {
			return "nats-failed"
		}
		c := &scriptConn{subOK: a[2] == "T", pubOK: a[3] == "T", nc: nc}
		timeout, _ := strconv.Atoi(a[4])
		for i := 6; i+1 < len(a); i += 2 {
			t, _ := strconv.Atoi(a[i])
			c.events = append(c.events, struct {
				t    int
				data string
			}{t, a[i+1]})
		}
		var req interface{} = map[string]string{"cid": "x"}
		switch a[1] {
		case "T":
		case "R":
			req = json.RawMessage(`{"cid":"x"}`) // an already encoded request
		case "N":
			req = nil
		case "B":
			req = json.RawMessage(`{"cid":`) // an encoded request that is not JSON: cannot be marshalled
		default:
			req = make(chan int) // cannot be marshalled
		}
		marshalOK := a[1] == "T" || a[1] == "R" || a[1] == "N"
		var exts []string
		var emu sync.Mutex
		// SendRequest must return by the last possible deadline; a watchdog turns a hang into an outcome
		bound := time.Duration(timeout) * time.Millisecond
		for _, e := range c.events {
			if d := time.Duration(e.t+1000) * time.Millisecond; d > bound {
				bound = d
			}
		}
		resCh := make(chan resprot.Response, 1)
		go func() {
			resCh <- resprot.SendRequest(c, "call.svc.m", req, time.Duration(timeout)*time.Millisecond, func(d time.Duration) {
				emu.Lock()
				exts = append(exts, strconv.Itoa(int(d/time.Millisecond)))
				emu.Unlock()
			})
		}()
		var r resprot.Response
		select {
		case r = <-resCh:
		case <-time.After(bound + 3*time.Second):
			return "hang"
		}
		out := ""
		switch {
		case r.HasError() && r.Error.Code == res.CodeTimeout:
			out = "timeout"
		case r.HasError() && r.Error.Code == res.CodeInternalError && (!marshalOK || a[2] != "T" || a[3] != "T"):
			out = "internal"
			if !marshalOK && c.npub > 0 {
				out += "+published-although-the-request-cannot-be-encoded"
			}
		default:
			// the returned response is the parse of the first non-pre message: identify which by its class
			out = "resp:" + wire.Enc(identifyResp(c, r))
		}
		unsub := "-"
		if c.subbed {
			// the inbox subscription is a real one on the embedded server's connection
			unsub = wire.Bool(!c.sub.IsValid())
		}
		return out + " ext=[" + strings.Join(exts, ",") + "] unsub=" + unsub
	})
}

// identifyResp finds which scripted message the returned response came from.
func identifyResp(c *scriptConn, r resprot.Response) string {
	for _, e := range c.events {
		if len(e.data) == 0 || (e.data[0]|32) < 'a' || (e.data[0]|32) > 'z' {
			p := resprot.ParseResponse([]byte(e.data))
			if fmt.Sprint(p.HasError(), p.HasResource(), p.HasResult(), string(p.Result), p.Resource, errCode(p)) ==
				fmt.Sprint(r.HasError(), r.HasResource(), r.HasResult(), string(r.Result), r.Resource, errCode(r)) {
				return e.data
			}
		}
	}
	return "?"
}

func errCode(r resprot.Response) string {
	if r.Error == nil {
		return ""
	}
	return r.Error.Code + "|" + r.Error.Message
}

var (
	natsOnce sync.Once
	natsConn *nats.Conn
	natsErr  error
)

// sharedNATS is one client connection to the embedded server, used for the inbox
// subscriptions of the scripted sends.
func sharedNATS() (*nats.Conn, error) {
	natsOnce.Do(func() {
		srv, err := natsrv.Shared()
		if err != nil {
			natsErr = err
			return
		}
		natsConn, natsErr = srv.Connect()
	})
	return natsConn, natsErr
}

// failPubConn is a real connection whose PublishRequest fails.
type failPubConn struct{ *nats.Conn }

func (c failPubConn) PublishRequest(subject, reply string, data []byte) error {
	return errors.New("publish failed")
}

// natSend: SendRequest against a real res.Service over the embedded server; reports the
// outcome class, the extensions, and the client connection's subscription count afterwards.
func natSend(a []string) string {
	srv, err := natsrv.Shared()
	if err != nil {
		return "nats-failed"
	}
	snc, err := srv.Connect()
	if err != nil {
		return "nats-failed"
	}
	cnc, err := srv.Connect()
	if err != nil {
		return "nats-failed"
	}
	defer cnc.Close()
	s := res.NewService("ns")
	s.SetLogger(nil)
	s.Handle("m",
		res.Call("ok", func(r res.CallRequest) { r.OK(map[string]int{"v": 1}) }),
		res.Call("pre", func(r res.CallRequest) {
			r.Timeout(600*time.Millisecond + 500*time.Microsecond) // announced as whole milliseconds: timeout:"600"
			time.Sleep(250 * time.Millisecond)
			r.OK(map[string]int{"v": 2})
		}),
		res.Call("fast", func(r res.CallRequest) {
			r.Timeout(800 * time.Millisecond)
			r.OK("done") // right behind the pre-response
		}),
		res.Call("slow", func(r res.CallRequest) {
			time.Sleep(300 * time.Millisecond)
			r.OK(nil)
		}),
	)
	served := make(chan struct{})
	s.SetOnServe(func(*res.Service) { close(served) })
	done := make(chan error, 1)
	go func() { done <- s.Serve(snc) }()
	select {
	case <-served:
	case <-time.After(5 * time.Second):
		return "serve-hung"
	}
	snc.Flush() // the service's subscriptions have reached the server
	defer func() {
		s.Shutdown()
		<-done
	}()
	var exts []string
	var emu sync.Mutex
	onExt := func(d time.Duration) {
		emu.Lock()
		exts = append(exts, strconv.Itoa(int(d/time.Millisecond)))
		emu.Unlock()
	}
	class := func(r resprot.Response) string {
		switch {
		case r.HasError() && r.Error.Code == res.CodeTimeout:
			return "timeout"
		case r.HasError():
			return "error:" + r.Error.Code
		case r.HasResult():
			return "result:" + string(r.Result)
		}
		return "other"
	}
	var out string
	switch a[1] {
	case "resp":
		out = class(resprot.SendRequest(cnc, "call.ns.m.ok", nil, time.Second, onExt))
	case "pre":
		out = class(resprot.SendRequest(cnc, "call.ns.m.pre", nil, 150*time.Millisecond, onExt))
	case "silent":
		out = class(resprot.SendRequest(cnc, "call.nobody.m.ok", nil, 100*time.Millisecond, onExt))
	case "slow":
		out = class(resprot.SendRequest(cnc, "call.ns.m.slow", nil, 100*time.Millisecond, onExt))
		time.Sleep(250 * time.Millisecond) // the late response finds no subscription
	case "precb":
		// the response arrives while the extension callback is still running
		out = class(resprot.SendRequest(cnc, "call.ns.m.fast", nil, 300*time.Millisecond, func(d time.Duration) {
			onExt(d)
			time.Sleep(100 * time.Millisecond)
		}))
	case "pubfail":
		out = class(resprot.SendRequest(failPubConn{cnc}, "call.ns.m.ok", nil, time.Second, onExt))
	case "many":
		for i := 0; i < 40; i++ {
			var r resprot.Response
			switch i % 3 {
			case 0:
				r = resprot.SendRequest(cnc, "call.ns.m.ok", nil, time.Second, onExt)
			case 1:
				r = resprot.SendRequest(cnc, "call.nobody.m.ok", nil, 5*time.Millisecond, onExt)
			default:
				r = resprot.SendRequest(failPubConn{cnc}, "call.ns.m.ok", nil, time.Second, onExt)
			}
			if i < 3 {
				out += class(r) + ","
			}
		}
	default:
		return "bad-op"
	}
	return fmt.Sprintf("%s ext=[%s] subs=%d", out, strings.Join(exts, ","), cnc.NumSubscriptions())
}
