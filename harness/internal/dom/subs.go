package dom

import (
	"encoding/json"
	nats "github.com/nats-io/nats.go"
	"strconv"
	"strings"
	"time"
	"verif/harness/internal/natsrv"

	res "github.com/jirenius/go-res"
	"verif/harness/internal/gen"
	"verif/harness/internal/recconn"
	"verif/harness/internal/wire"
)

type subsDom struct{}

func init() { Register("subs", func() Domain { return subsDom{} }) }

type nopLogger struct{}

func (nopLogger) Infof(string, ...interface{})  {}
func (nopLogger) Errorf(string, ...interface{}) {}
func (nopLogger) Tracef(string, ...interface{}) {}

var ownPats = []string{"a", "a.b", "a.*", "a.>", ">", "a.b.>", "b", "*", "a.*.c", "b.>", "a.b.c", "*.b", "a.p$x", "a.p$y", "a.pz", "a.p*"} // a `$` or `*` inside a token is an ordinary character

func genList(r *gen.R, maxn int) []string {
	switch r.Intn(8) {
	case 0:
		return []string{"nil"}
	case 1:
		return []string{"0"}
	}
	n := 1 + r.Intn(maxn)
	out := []string{strconv.Itoa(n)}
	for i := 0; i < n; i++ {
		out = append(out, r.Pick(ownPats))
	}
	return out
}

func (subsDom) Gen(r *gen.R, tier string, emit func(string)) {
	names := []string{"", "svc", "a", "svc.sub"}
	// handler kinds; a leading ^ puts the handler on the service's root resource (pattern ""),
	// a leading / splits it over a placeholder node (item.$id: the non-access kinds) and a node
	// below it (item.$id.secret: access)
	kinds := []string{"-", "g", "c", "u", "n", "a", "ga", "gca", "ca", "^g", "^a", "^gca", "/ga", "/ca", "/a"}
	queues := []string{"", "q"}
	one := func(name, kind, queue string, rl, al []string) {
		args := []string{"serve", name, kind, queue, "R"}
		args = append(args, rl...)
		args = append(args, "A")
		args = append(args, al...)
		emit(wire.Line(args...))
	}
	// defaults: every name x kinds x queue
	for _, n := range names {
		for _, k := range kinds {
			for _, q := range queues {
				one(n, k, q, []string{"nil"}, []string{"nil"})
			}
		}
	}
	// the same on a service that has been served once before, when it had a get handler only
	for _, n := range names {
		for _, k := range kinds {
			for _, own := range [][2][]string{{{"nil"}, {"nil"}}, {{"nil"}, {"1", "a.>"}}, {{"1", "a.b"}, {"nil"}}} {
				for _, op := range []string{"serve2", "serve3"} {
					args := []string{op, n, k, "", "R"}
					args = append(args, own[0]...)
					args = append(args, "A")
					args = append(args, own[1]...)
					emit(wire.Line(args...))
				}
			}
		}
	}
	// explicit lists, exhaustive for <= 2 entries over a small alphabet (quick), <= 3 (thorough)
	small := []string{"a", "a.b", "a.*", "a.>", ">", "a.b.>"}
	maxk := 2
	if tier == "thorough" {
		maxk = 3
	}
	var lists [][]string
	var rec func(cur []string, k int)
	rec = func(cur []string, k int) {
		lists = append(lists, append([]string{strconv.Itoa(len(cur))}, cur...))
		if k == 0 {
			return
		}
		for _, p := range small {
			rec(append(append([]string{}, cur...), p), k-1)
		}
	}
	rec(nil, maxk)
	for _, l := range lists {
		one("svc", "gca", "", l, []string{"0"})
		one("svc", "gca", "q", []string{"0"}, l)
	}
	emit(wire.Line("reconnect", "F"))
	emit(wire.Line("reconnect", "T"))
	n := 1500
	if tier == "thorough" {
		n = 30000
	}
	for i := 0; i < n; i++ {
		one(r.Pick(names), r.Pick(kinds), r.Pick(queues), genList(r, 4), genList(r, 4))
	}
}

func parseListArg(a []string) ([]string, bool, []string) {
	if len(a) == 0 {
		return nil, false, a
	}
	if a[0] == "nil" {
		return nil, true, a[1:]
	}
	k, _ := strconv.Atoi(a[0])
	if len(a) < 1+k {
		return nil, false, nil
	}
	return append([]string{}, a[1:1+k]...), false, a[1+k:]
}

// subsReconnect: a service on a real NATS connection that drops and reconnects. The reset sent
// on start must be sent again after the reconnect, with or without an OnReconnect callback.
func subsReconnect(withCallback bool) string {
	srv, err := natsrv.Shared()
	if err != nil {
		return "nats-failed"
	}
	host := strings.TrimPrefix(srv.URL, "nats://")
	proxy, err := natsrv.NewProxy(host)
	if err != nil {
		return "proxy-failed"
	}
	defer proxy.Close()
	obs, err := srv.Connect()
	if err != nil {
		return "nats-failed"
	}
	defer obs.Close()
	resets := make(chan string, 16)
	if _, err := obs.Subscribe("system.reset", func(m *nats.Msg) { resets <- canonJSON(m.Data) }); err != nil {
		return "nats-failed"
	}
	obs.Flush()
	nc, err := nats.Connect(proxy.URL(), nats.ReconnectWait(20*time.Millisecond), nats.MaxReconnects(-1))
	if err != nil {
		return "nats-failed"
	}
	s := res.NewService("rc" + strconv.FormatInt(time.Now().UnixNano()%1000000, 10))
	s.SetLogger(nopLogger{})
	s.Handle("m", res.GetResource(func(r res.GetRequest) { r.NotFound() }), res.Access(res.AccessGranted))
	reconnected := make(chan struct{}, 4)
	if withCallback {
		s.SetOnReconnect(func(*res.Service) { reconnected <- struct{}{} })
	}
	done := make(chan error, 1)
	go func() { done <- s.Serve(nc) }()
	var first string
	select {
	case first = <-resets:
	case <-time.After(3 * time.Second):
		s.Shutdown()
		return "no-reset-on-start"
	}
	proxy.Cut()
	again := "none"
	select {
	case again = <-resets:
	case <-time.After(3 * time.Second):
	}
	s.Shutdown()
	select {
	case <-done:
	case <-time.After(3 * time.Second):
	}
	return "reconnect start-reset=T again-reset=" + wire.Bool(again != "none") + " same=" + wire.Bool(again == first)
}

func (subsDom) Exec(a []string) string {
	if len(a) == 2 && a[0] == "reconnect" {
		return Safe(func() string { return subsReconnect(a[1] == "T") })
	}
	return Safe(func() string {
		if len(a) < 5 || (a[0] != "serve" && a[0] != "serve2" && a[0] != "serve3") || a[4] != "R" {
			return "bad-op"
		}
		name, kinds, queue := a[1], a[2], a[3]
		rl, rnil, rest := parseListArg(a[5:])
		if len(rest) == 0 || rest[0] != "A" {
			return "bad-op"
		}
		al, anil, _ := parseListArg(rest[1:])
		s := res.NewService(name)
		s.SetLogger(nopLogger{})
		early := a[0] == "serve3"
		if early {
			// serve3: the ownership is set before the first of the two runs and not touched again
			var rr, aa []string
			if !rnil {
				rr = append([]string{}, rl...)
			}
			if !anil {
				aa = append([]string{}, al...)
			}
			s.SetOwnedResources(rr, aa)
		}
		if a[0] == "serve2" || a[0] == "serve3" {
			// an earlier run of the same service, with nothing but a get handler
			s.Handle("early", res.GetResource(func(r res.GetRequest) { r.NotFound() }))
			c0 := recconn.New()
			served0 := make(chan struct{})
			s.SetOnServe(func(*res.Service) { close(served0) })
			done0 := make(chan error, 1)
			go func() { done0 <- s.Serve(c0) }()
			select {
			case <-served0:
			case <-done0:
				return "err-first-run"
			case <-time.After(5 * time.Second):
				return "hang-first-run"
			}
			s.Shutdown()
			select {
			case <-done0:
			case <-time.After(5 * time.Second):
				return "hang-first-shutdown"
			}
		}
		var opts []res.Option
		for _, k := range kinds {
			switch k {
			case 'g':
				opts = append(opts, res.GetResource(func(r res.GetRequest) { r.NotFound() }))
			case 'c':
				opts = append(opts, res.Call("m", func(r res.CallRequest) { r.OK(nil) }))
			case 'u':
				opts = append(opts, res.Auth("m", func(r res.AuthRequest) { r.OK(nil) }))
			case 'n':
				opts = append(opts, res.New(func(r res.NewRequest) { r.NotFound() }))
			case 'a':
				opts = append(opts, res.Access(res.AccessGranted))
			}
		}
		switch {
		case strings.HasPrefix(kinds, "^"):
			s.Handle("", opts...)
		case strings.HasPrefix(kinds, "/"):
			var upper, lower []res.Option
			for i, k := range strings.TrimLeft(kinds, "/") {
				_ = i
				if k == 'a' {
					lower = append(lower, res.Access(res.AccessGranted))
				}
			}
			for _, o := range opts {
				upper = append(upper, o)
			}
			// rebuild: the upper node gets everything but access
			upper = upper[:0]
			for _, k := range kinds {
				switch k {
				case 'g':
					upper = append(upper, res.GetResource(func(r res.GetRequest) { r.NotFound() }))
				case 'c':
					upper = append(upper, res.Call("m", func(r res.CallRequest) { r.OK(nil) }))
				case 'u':
					upper = append(upper, res.Auth("m", func(r res.AuthRequest) { r.OK(nil) }))
				case 'n':
					upper = append(upper, res.New(func(r res.NewRequest) { r.NotFound() }))
				}
			}
			if len(upper) == 0 {
				// a handler without any request kind still occupies the node
				upper = append(upper, res.Model)
			}
			s.Handle("item.$id", upper...)
			if len(lower) > 0 {
				s.Handle("item.$id.secret", lower...)
			}
		default:
			s.Handle("res", opts...)
		}
		// "sets the patterns": the last call decides, whatever was set before it - also when it puts a
		// list back to nil (= the default ownership). Every other line sets stale lists first.
		stale := (len(kinds)+len(rl)+len(al))%2 == 1 && !early
		if stale {
			s.SetOwnedResources([]string{"stale.>"}, []string{"stale.a", "stale.b.*"})
		}
		if !early && (stale || !(rnil && anil)) {
			// SetOwnedResources replaces both; nil stays nil
			var rr, aa []string
			if !rnil {
				rr = append([]string{}, rl...)
			}
			if !anil {
				aa = append([]string{}, al...)
			}
			s.SetOwnedResources(rr, aa)
		}
		s.SetQueueGroup(queue)
		c := recconn.New()
		served := make(chan struct{})
		s.SetOnServe(func(*res.Service) { close(served) })
		done := make(chan error, 1)
		go func() { done <- s.Serve(c) }()
		select {
		case <-served:
		case <-done:
			// failed to subscribe, or nothing to serve
			subs, _ := c.Snapshot()
			if len(subs) == 0 {
				return "err"
			}
			return "err-after-" + strconv.Itoa(len(subs))
		case <-time.After(5 * time.Second):
			return "hang"
		}
		subs, pubs := c.Snapshot()
		s.Shutdown()
		select {
		case <-done:
		case <-time.After(5 * time.Second):
			return "hang-shutdown"
		}
		var ss []string
		q := ""
		for i, sb := range subs {
			ss = append(ss, sb.Subject)
			if i == 0 {
				q = sb.Queue
			} else if sb.Queue != q {
				q = "MIXED"
			}
		}
		reset := "none"
		for _, p := range pubs {
			if p.Subject == "system.reset" {
				var ev struct {
					Resources []string `json:"resources"`
					Access    []string `json:"access"`
				}
				if json.Unmarshal(p.Data, &ev) != nil {
					reset = "badjson"
				} else {
					reset = "res:" + wire.List(ev.Resources) + ";acc:" + wire.List(ev.Access)
				}
			}
		}
		return "subs=" + wire.List(ss) + " q=" + wire.Enc(q) + " reset=" + strings.ReplaceAll(reset, " ", "")
	})
}
