package dom

import (
	"strconv"

	res "github.com/jirenius/go-res"
	"github.com/jirenius/go-res/store"
	"verif/harness/internal/gen"
	"verif/harness/internal/wire"
)

type patDom struct{}

func init() { Register("pat", func() Domain { return patDom{} }) }

// all strings over alphabet of length <= n
func allStrings(alpha string, n int) []string {
	out := []string{""}
	prev := []string{""}
	for k := 0; k < n; k++ {
		var next []string
		for _, p := range prev {
			for i := 0; i < len(alpha); i++ {
				next = append(next, p+string(alpha[i]))
			}
		}
		out = append(out, next...)
		prev = next
	}
	return out
}

var patToks = []string{"a", "b", "ab", "$x", "$y", "$xy", "*", ">", "a$b", "$", "a*", "a>", "$x$", "", "?", "c?", " ", "\xc3\xa5", "$x*", "*a", ">a", "~", "!"}
var nameToks = []string{"a", "b", "ab", "x", "xy", "$x", ">", "*", "a$b", "", "1", "a?", "b>", "\xc3\xa5", "$", "~"}

func joinToks(r *gen.R, toks []string, maxn int) string {
	n := r.Intn(maxn + 1)
	s := ""
	for i := 0; i < n; i++ {
		if i > 0 {
			s += "."
		}
		s += r.Pick(toks)
	}
	return s
}

// mostly valid pattern
func validPat(r *gen.R, maxn int) string {
	good := []string{"a", "b", "ab", "$x", "$y", "$xy", "*", "a$b", "b$", "c"}
	n := 1 + r.Intn(maxn)
	s := ""
	for i := 0; i < n; i++ {
		if i > 0 {
			s += "."
		}
		if i == n-1 && r.Chance(1, 4) {
			s += ">"
		} else {
			s += r.Pick(good)
		}
	}
	return s
}

// name derived from a pattern so that it matches or nearly matches
func nearName(r *gen.R, p string) string {
	toks := splitDots(p)
	out := []string{}
	lits := []string{"a", "b", "ab", "x", "a$b", "b$", "c", "1"}
	for i, t := range toks {
		switch {
		case t == ">":
			k := r.Intn(3)
			if i == len(toks)-1 && k == 0 {
				k = 1
			}
			for j := 0; j < k; j++ {
				out = append(out, r.Pick(lits))
			}
		case len(t) > 0 && (t[0] == '$' || t[0] == '*'):
			out = append(out, r.Pick(lits))
		default:
			if r.Chance(1, 8) {
				out = append(out, r.Pick(lits))
			} else {
				out = append(out, t)
			}
		}
	}
	if r.Chance(1, 10) && len(out) > 0 {
		out = out[:len(out)-1]
	}
	if r.Chance(1, 10) {
		out = append(out, r.Pick(lits))
	}
	s := ""
	for i, t := range out {
		if i > 0 {
			s += "."
		}
		s += t
	}
	return s
}

func splitDots(p string) []string {
	var out []string
	start := 0
	for i := 0; i < len(p); i++ {
		if p[i] == '.' {
			out = append(out, p[start:i])
			start = i + 1
		}
	}
	return append(out, p[start:])
}

func (patDom) Gen(r *gen.R, tier string, emit func(string)) {
	pairOps := func(p, s string) {
		emit(wire.Line("matches", p, s))
		emit(wire.Line("values", p, s))
		emit(wire.Line("law", p, s))
	}
	single := func(p string) {
		for _, op := range []string{"valid", "index", "rid", "part", "path"} {
			emit(wire.Line(op, p))
		}
	}
	alpha := "ab.$*>"
	np, ns, nrand := 3, 3, 30000
	if tier == "thorough" {
		np, ns, nrand = 4, 4, 400000
	}
	pats := allStrings(alpha, np)
	names := allStrings(alpha, ns)
	for _, p := range allStrings("a.$*>? ", 4) {
		single(p)
	}
	for _, p := range pats {
		for _, s := range names {
			pairOps(p, s)
		}
	}
	tagvals := []string{"1", "v", "a.b", "", "$z", ">"}
	for i := 0; i < nrand; i++ {
		var p, s string
		switch r.Intn(4) {
		case 0:
			p = joinToks(r, patToks, 4)
			s = joinToks(r, nameToks, 4)
		case 1:
			p = validPat(r, 5)
			s = nearName(r, p)
		case 2:
			p = validPat(r, 4)
			s = validPat(r, 4) // pattern against pattern: the covering relation
		default:
			p = validPat(r, 6)
			s = joinToks(r, nameToks, 5)
		}
		pairOps(p, s)
		single(p)
		single(s)
		// tag replacement
		args := []string{"replace", p}
		for _, k := range []string{"x", "y", "xy", "", "b"} {
			if r.Chance(1, 3) {
				args = append(args, k, r.Pick(tagvals))
			}
		}
		emit(wire.Line(args...))
		emit(wire.Line("replacetag", p, r.Pick([]string{"x", "y", "xy", "", "b", "x$"}), r.Pick(tagvals)))
		emit(wire.Line("idtorid", p, r.Pick([]string{"x", "y", "xy", "b"}), r.Pick([]string{"1", "v", "42", "$z", "a-b"})))
	}
}

func (patDom) Exec(a []string) string {
	return Safe(func() string {
		if len(a) < 2 {
			return "bad-op"
		}
		p := res.Pattern(a[1])
		switch a[0] {
		case "valid":
			return wire.Bool(p.IsValid())
		case "index":
			return strconv.Itoa(p.IndexWildcard())
		case "rid":
			return wire.Bool(res.IsValidRID(a[1]))
		case "part":
			// isValidPart is unexported; res.Call panics exactly when the
			// method name is not "*" and not a valid part.
			if a[1] == "*" {
				return wire.Bool(false)
			}
			ok := true
			func() {
				defer func() {
					if recover() != nil {
						ok = false
					}
				}()
				res.Call(a[1], nil)
			}()
			return wire.Bool(ok)
		case "path":
			ok := true
			func() {
				defer func() {
					if recover() != nil {
						ok = false
					}
				}()
				res.NewMux(a[1])
			}()
			return wire.Bool(ok)
		case "matches":
			return wire.Bool(p.Matches(a[2]))
		case "values":
			m, ok := p.Values(a[2])
			if !ok {
				return "nomatch"
			}
			return wire.Map(m)
		case "law":
			mt := p.Matches(a[2])
			m, ok := p.Values(a[2])
			out := wire.Bool(mt) + "," + wire.Bool(ok) + ","
			if !ok {
				return out + "-,-"
			}
			back := p.ReplaceTags(m)
			return out + wire.Bool(back.Matches(a[2])) + "," + wire.Bool(string(back) == a[2])
		case "replace":
			m := map[string]string{}
			for i := 2; i+1 < len(a); i += 2 {
				m[a[i]] = a[i+1]
			}
			return wire.Enc(string(p.ReplaceTags(m)))
		case "replacetag":
			return wire.Enc(string(p.ReplaceTag(a[2], a[3])))
		case "idtorid":
			// store.IDTransformer: the resource id of a stored id is the pattern with that one tag replaced
			return wire.Enc(store.IDTransformer(a[2], nil).IDToRID(a[3], nil, p))
		}
		return "bad-op"
	})
}
