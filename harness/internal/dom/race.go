package dom

import (
	"encoding/json"
	"fmt"
	"net/url"
	"os"
	"strconv"
	"strings"
	"sync"
	"sync/atomic"
	"time"

	"github.com/dgraph-io/badger"
	res "github.com/jirenius/go-res"
	"github.com/jirenius/go-res/logger"
	"github.com/jirenius/go-res/store"
	"github.com/jirenius/go-res/store/badgerstore"
	"github.com/jirenius/go-res/store/mockstore"
	"verif/harness/internal/gen"
	"verif/harness/internal/recconn"
	"verif/harness/internal/wire"
)

// race: concurrent client programs over the whole public API, meant to be run
// in a binary built with -race (C16). Handlers touch per-group scratch memory
// WITHOUT synchronisation: the library's serialisation per group is what makes
// that safe, so a loss of mutual exclusion shows up as a data race too.

type raceDom struct{}

var dbgNil, dbgQ int64

func init() { Register("race", func() Domain { return raceDom{} }) }

func (raceDom) Gen(r *gen.R, tier string, emit func(string)) {
	n := 12
	if tier == "thorough" {
		n = 150
	}
	for i := 0; i < n; i++ {
		emit(wire.Line("race", strconv.Itoa(1+r.Intn(4)), strconv.Itoa(r.Intn(1000000))))
		emit(wire.Line("raceq", strconv.Itoa(2+r.Intn(3)), strconv.Itoa(r.Intn(1000000))))
		if i%4 == 1 {
			emit(wire.Line("raceidx", strconv.Itoa(1+i%3), "0"))
		}
		if i%4 == 2 || i%4 == 3 {
			emit(wire.Line("racelock", strconv.Itoa(i), "0"))
		}
		if i%3 == 0 {
			emit(wire.Line("raceown", strconv.Itoa(i/3), strconv.Itoa(r.Intn(1000000))))
			emit(wire.Line("racerestart", strconv.Itoa(1+i%4), strconv.Itoa(r.Intn(1000000))))
		}
	}
}

func raceScenario(workers int, seed uint64) string {
	r := gen.New(seed)
	dir, err := os.MkdirTemp("", "verif-race")
	if err != nil {
		return "tempdir-failed"
	}
	defer os.RemoveAll(dir)
	db, err := badger.Open(badger.DefaultOptions(dir).WithLogger(nil).WithSyncWrites(false))
	if err != nil {
		return "badger-open-failed"
	}
	defer db.Close()
	bst := badgerstore.NewStore(db).SetType(idxVal{}).SetPrefix("rv")
	qs := badgerstore.NewQueryStore(bst, func(qs *badgerstore.QueryStore, q url.Values) (*badgerstore.IndexQuery, error) {
		return &badgerstore.IndexQuery{Index: qs.Index("k"), KeyPrefix: []byte(q.Get("p")), Limit: -1}, nil
	}).AddIndex(badgerstore.Index{Name: "k", Key: func(v interface{}) []byte { return []byte(v.(idxVal).K) }})
	qs.OnQueryChange(func(qc store.QueryChange) { qc.Events(url.Values{"p": {"a"}}) })
	ms := mockstore.NewStore()

	const ngroups = 4
	scratch := make([]int, ngroups) // group-confined, unsynchronised on purpose
	mlog := logger.NewMemLogger().SetTrace(true)
	s := res.NewService("rs")
	s.SetLogger(mlog)
	s.SetWorkerCount(workers)
	s.SetInChannelSize(4)
	s.SetQueryEventDuration(2 * time.Millisecond)
	s.Handle("c.$id", res.Group("g.${id}"), res.Call("do", func(r res.CallRequest) {
		id, _ := strconv.Atoi(r.PathParam("id"))
		scratch[id%ngroups]++
		if scratch[id%ngroups]%5 == 0 {
			r.QueryEvent(func(q res.QueryRequest) {
				scratch[id%ngroups]++ // the query callbacks belong to the same group
			})
		}
		r.Event("poke", nil)
		r.OK(scratch[id%ngroups])
	}))
	// a Parallel resource with query events: its request and expiry callbacks run on different workers
	pqCallback := func(q res.QueryRequest) {
		if q == nil {
			atomic.AddInt64(&dbgNil, 1)
			return
		}
		atomic.AddInt64(&dbgQ, 1)
		time.Sleep(700 * time.Microsecond) // still running when the event expires on another worker
		q.NotFound()
	}
	s.Handle("pq.$id", res.Parallel(true), res.Call("do", func(r res.CallRequest) {
		r.QueryEvent(pqCallback)
		r.OK(nil)
	}))
	s.Handle("p.$id", res.Parallel(true), res.GetResource(func(r res.GetRequest) { r.Model(map[string]int{"x": 1}) }))
	s.Handle("m.$id", res.Model, store.Handler{Store: ms, Transformer: store.IDTransformer("id", nil)})
	s.Handle("b.$id", res.Model, store.Handler{Store: bst, Transformer: store.IDTransformer("id", nil)})
	s.Handle("q", res.Collection, store.QueryHandler{QueryStore: qs, QueryRequestHandler: func(rname string, pathParams map[string]string, q url.Values) (url.Values, string, error) {
		return q, q.Encode(), nil
	}})

	for cycle := 0; cycle < 2; cycle++ {
		conn := recconn.New()
		// query requests for every announced query event, spread around its expiry (2 ms)
		var qn int64
		conn.OnPub = func(p recconn.Pub) {
			if !strings.HasSuffix(p.Subject, ".query") || !strings.HasPrefix(p.Subject, "event.rs.") {
				return
			}
			var ev struct {
				Subject string `json:"subject"`
			}
			if json.Unmarshal(p.Data, &ev) != nil || ev.Subject == "" {
				return
			}
			go func() {
				for i := 0; i < 6; i++ {
					time.Sleep(500 * time.Microsecond)
					conn.Deliver(ev.Subject, fmt.Sprintf("_INBOX.q%d", atomic.AddInt64(&qn, 1)), []byte(`{"query":"a=1"}`))
				}
			}()
		}
		served := make(chan struct{})
		s.SetOnServe(func(*res.Service) { close(served) })
		done := make(chan error, 1)
		go func() { done <- s.Serve(conn) }()
		select {
		case <-served:
		case <-time.After(5 * time.Second):
			return "serve-hung"
		}
		var stop int32
		var wg sync.WaitGroup
		spawn := func(f func(r *gen.R)) {
			wg.Add(1)
			rr := r.Fork()
			go func() {
				defer wg.Done()
				defer func() {
					if e := recover(); e != nil && os.Getenv("VERIF_DEBUG") != "" {
						fmt.Fprintln(os.Stderr, "spawn panic:", e)
					}
				}()
				for i := 0; i < 400 && atomic.LoadInt32(&stop) == 0; i++ {
					f(rr)
				}
			}()
		}
		var seq int64
		spawn(func(r *gen.R) {
			n := atomic.AddInt64(&seq, 1)
			conn.Deliver(fmt.Sprintf("call.rs.c.%d.do", r.Intn(ngroups)), fmt.Sprintf("_INBOX.r%d", n), nil)
		})
		spawn(func(r *gen.R) {
			n := atomic.AddInt64(&seq, 1)
			if r.Bool() {
				conn.Deliver(fmt.Sprintf("call.rs.pq.%d.do", r.Intn(2)), fmt.Sprintf("_INBOX.r%d", n), nil)
			} else {
				s.With("rs.pq."+strconv.Itoa(r.Intn(2)), func(rr res.Resource) { rr.QueryEvent(pqCallback) })
			}
			time.Sleep(300 * time.Microsecond)
		})
		spawn(func(r *gen.R) {
			n := atomic.AddInt64(&seq, 1)
			conn.Deliver(fmt.Sprintf("get.rs.%s.%d", r.Pick([]string{"p", "m", "b"}), r.Intn(3)), fmt.Sprintf("_INBOX.r%d", n), nil)
		})
		spawn(func(r *gen.R) {
			g := r.Intn(ngroups)
			s.WithGroup("g."+strconv.Itoa(g), func(*res.Service) { scratch[g]++ })
		})
		spawn(func(r *gen.R) {
			g := r.Intn(ngroups)
			s.With("rs.c."+strconv.Itoa(g), func(rr res.Resource) { scratch[g]++; rr.Event("with", nil) })
		})
		spawn(func(r *gen.R) {
			switch r.Intn(4) {
			case 0:
				s.Reset([]string{"rs.c.1"}, nil)
			case 1:
				s.ResetAll()
			case 2:
				s.TokenEvent("cid"+strconv.Itoa(r.Intn(3)), map[string]int{"u": 1})
			default:
				s.TokenReset("rs.auth", "tid")
			}
		})
		spawn(func(r *gen.R) { // store mutations on a foreign goroutine: change events are published from here
			id := strconv.Itoa(r.Intn(3))
			txn := ms.Write(id)
			v := map[string]json.RawMessage{"n": json.RawMessage(strconv.Itoa(r.Intn(5)))}
			if txn.Create(v) != nil {
				if r.Bool() {
					txn.Update(v)
				} else {
					txn.Delete()
				}
			}
			txn.Close()
		})
		spawn(func(r *gen.R) {
			id := strconv.Itoa(r.Intn(3))
			txn := bst.Write(id)
			v := idxVal{K: r.Pick([]string{"a", "ab", "b"}), G: "g"}
			if txn.Create(v) != nil {
				if r.Bool() {
					txn.Update(v)
				} else {
					txn.Delete()
				}
			}
			txn.Close()
		})
		spawn(func(r *gen.R) {
			rt := bst.Read(strconv.Itoa(r.Intn(3)))
			rt.Value()
			rt.Exists()
			rt.Close()
			qs.Query(url.Values{"p": {r.Pick([]string{"", "a"})}})
			if r.Chance(1, 8) {
				qs.Flush()
			}
		})
		spawn(func(r *gen.R) { _ = mlog.String() })
		time.Sleep(time.Duration(2+r.Intn(6)) * time.Millisecond)
		sd := make(chan struct{})
		go func() { s.Shutdown(); close(sd) }()
		select {
		case <-sd:
		case <-time.After(5 * time.Second):
			return "shutdown-hung"
		}
		atomic.StoreInt32(&stop, 1)
		wg.Wait()
		select {
		case <-done:
		case <-time.After(5 * time.Second):
			return "serve-did-not-return"
		}
		qs.Flush()
	}
	if os.Getenv("VERIF_DEBUG") != "" {
		return fmt.Sprintf("done nil=%d q=%d", atomic.LoadInt64(&dbgNil), atomic.LoadInt64(&dbgQ))
	}
	return "done"
}

// raceQScenario: query events under light load, so that their callbacks really run:
// a Parallel resource (request callbacks and the expiry run on different workers and may
// overlap) and a grouped one, query events created from handlers and from foreign
// goroutines through With, query requests spread around the expiry, and a Shutdown that
// overlaps all of it.
func raceQScenario(workers int, seed uint64) string {
	r := gen.New(seed)
	s := res.NewService("rq")
	s.SetLogger(logger.NewMemLogger().SetTrace(true))
	s.SetWorkerCount(workers)
	s.SetQueryEventDuration(2 * time.Millisecond)
	var nilCalls, reqCalls int64
	gscratch := 0 // confined to group "g"
	pqCallback := func(q res.QueryRequest) {
		if q == nil {
			atomic.AddInt64(&nilCalls, 1)
			return
		}
		atomic.AddInt64(&reqCalls, 1)
		time.Sleep(700 * time.Microsecond) // still running when the event expires on another worker
		q.NotFound()
	}
	gqCallback := func(q res.QueryRequest) {
		gscratch++
		if q != nil {
			q.Model(map[string]int{"n": 1})
		}
	}
	s.Handle("pq.$id", res.Parallel(true), res.Call("do", func(r res.CallRequest) {
		r.QueryEvent(pqCallback)
		r.OK(nil)
	}))
	s.Handle("gq.$id", res.Group("g"), res.Call("do", func(r res.CallRequest) {
		gscratch++
		r.QueryEvent(gqCallback)
		r.OK(nil)
	}))
	for cycle := 0; cycle < 2; cycle++ {
		conn := recconn.New()
		var qn int64
		conn.OnPub = func(p recconn.Pub) {
			if !strings.HasSuffix(p.Subject, ".query") || !strings.HasPrefix(p.Subject, "event.rq.") {
				return
			}
			var ev struct {
				Subject string `json:"subject"`
			}
			if json.Unmarshal(p.Data, &ev) != nil || ev.Subject == "" {
				return
			}
			go func() {
				for i := 0; i < 6; i++ {
					time.Sleep(450 * time.Microsecond)
					conn.Deliver(ev.Subject, fmt.Sprintf("_INBOX.q%d", atomic.AddInt64(&qn, 1)), []byte(`{"query":"a=1"}`))
				}
			}()
		}
		served := make(chan struct{})
		s.SetOnServe(func(*res.Service) { close(served) })
		done := make(chan error, 1)
		go func() { done <- s.Serve(conn) }()
		select {
		case <-served:
		case <-time.After(5 * time.Second):
			return "serve-hung"
		}
		var stop int32
		var wg sync.WaitGroup
		spawn := func(f func(r *gen.R)) {
			wg.Add(1)
			rr := r.Fork()
			go func() {
				defer wg.Done()
				defer func() { recover() }()
				for i := 0; i < 200 && atomic.LoadInt32(&stop) == 0; i++ {
					f(rr)
					time.Sleep(300 * time.Microsecond)
				}
			}()
		}
		var seq int64
		spawn(func(r *gen.R) {
			n := atomic.AddInt64(&seq, 1)
			conn.Deliver(fmt.Sprintf("call.rq.%s.%d.do", r.Pick([]string{"pq", "gq"}), r.Intn(2)), fmt.Sprintf("_INBOX.r%d", n), nil)
		})
		spawn(func(r *gen.R) {
			s.With("rq.pq."+strconv.Itoa(r.Intn(2)), func(rr res.Resource) { rr.QueryEvent(pqCallback) })
		})
		spawn(func(r *gen.R) {
			s.With("rq.gq."+strconv.Itoa(r.Intn(2)), func(rr res.Resource) { gscratch++; rr.QueryEvent(gqCallback) })
		})
		time.Sleep(time.Duration(6+r.Intn(10)) * time.Millisecond)
		sd := make(chan struct{})
		go func() { s.Shutdown(); close(sd) }()
		select {
		case <-sd:
		case <-time.After(5 * time.Second):
			return "shutdown-hung"
		}
		atomic.StoreInt32(&stop, 1)
		wg.Wait()
		select {
		case <-done:
		case <-time.After(5 * time.Second):
			return "serve-did-not-return"
		}
	}
	if atomic.LoadInt64(&reqCalls) == 0 || atomic.LoadInt64(&nilCalls) == 0 {
		return "done-idle" // the scenario did not exercise what it is for
	}
	return "done"
}

// raceOwnership: services whose default ownership has an empty side (access-only, get-only,
// explicitly empty lists) with ResetAll, Reset and requests from several goroutines.
func raceOwnership(variant int, seed uint64) string {
	r := gen.New(seed)
	s := res.NewService("ro")
	s.SetLogger(logger.NewMemLogger())
	switch variant % 3 {
	case 0:
		s.Handle("a.$id", res.Access(func(r res.AccessRequest) { r.AccessGranted() }))
	case 1:
		s.Handle("a.$id", res.GetResource(func(r res.GetRequest) { r.NotFound() }))
	default:
		s.Handle("a.$id", res.Access(func(r res.AccessRequest) { r.AccessGranted() }), res.GetResource(func(r res.GetRequest) { r.NotFound() }))
		s.SetOwnedResources([]string{}, []string{"ro.>"})
	}
	conn := recconn.New()
	served := make(chan struct{})
	s.SetOnServe(func(*res.Service) { close(served) })
	done := make(chan error, 1)
	go func() { done <- s.Serve(conn) }()
	select {
	case <-served:
	case <-time.After(5 * time.Second):
		return "serve-hung"
	}
	var wg sync.WaitGroup
	for g := 0; g < 4; g++ {
		wg.Add(1)
		rr := r.Fork()
		go func(g int) {
			defer wg.Done()
			for i := 0; i < 150; i++ {
				switch rr.Intn(4) {
				case 0, 1:
					s.ResetAll()
				case 2:
					s.Reset([]string{"ro.a.1"}, nil)
				default:
					conn.Deliver(fmt.Sprintf("access.ro.a.%d", rr.Intn(3)), fmt.Sprintf("_INBOX.o%d_%d", g, i), nil)
				}
			}
		}(g)
	}
	wg.Wait()
	sd := make(chan struct{})
	go func() { s.Shutdown(); close(sd) }()
	select {
	case <-sd:
	case <-time.After(5 * time.Second):
		return "shutdown-hung"
	}
	<-done
	return "done"
}

// raceRestart: a supervisor keeps calling Serve on a fresh connection (it is refused until the
// service is stopped) while Shutdown is still finishing.
func raceRestart(workers int, seed uint64) string {
	// widen the tail of Shutdown (a delay by time only: it adds no happens-before edge)
	setHooks(nil, func(point string) {
		if point == "shutdown.waited" {
			time.Sleep(2 * time.Millisecond)
		}
	})
	defer setHooks(nil, nil)
	s := res.NewService("rr")
	s.SetLogger(logger.NewMemLogger())
	s.SetWorkerCount(workers)
	s.Handle("a.$id", res.Call("do", func(r res.CallRequest) { r.OK(nil) }))
	served := make(chan struct{}, 8)
	s.SetOnServe(func(*res.Service) { served <- struct{}{} })
	done := make(chan struct{}, 8)
	conn := recconn.New()
	go func() { s.Serve(conn); done <- struct{}{} }()
	select {
	case <-served:
	case <-time.After(5 * time.Second):
		return "serve-hung"
	}
	for cycle := 0; cycle < 6; cycle++ {
		conn.Deliver("call.rr.a.1.do", fmt.Sprintf("_INBOX.rr%d", cycle), nil)
		go s.Shutdown()
		next := recconn.New()
		go func() {
			deadline := time.Now().Add(5 * time.Second)
			for time.Now().Before(deadline) {
				if err := s.Serve(next); err == nil {
					break
				}
			}
			done <- struct{}{}
		}()
		select {
		case <-served:
		case <-time.After(6 * time.Second):
			return "restart-hung"
		}
		_ = s.Conn()
		conn = next
	}
	s.Shutdown()
	for i := 0; i < 7; i++ {
		select {
		case <-done:
		case <-time.After(6 * time.Second):
			return "serve-did-not-return"
		}
	}
	return "done"
}

// raceIndexQueue: the query store's index updates and its OnQueryChange callbacks run on one
// consumer goroutine, whatever the writers do - state touched only from those callbacks needs no
// synchronisation. A writer outruns the (slowed-down) consumer until the queue of pending index
// tasks is full and beyond; the callback counts in plain memory.
func raceIndexQueue(writers int) string {
	dir, err := os.MkdirTemp("", "verif-raceidx")
	if err != nil {
		return "no-db"
	}
	defer os.RemoveAll(dir)
	db, err := badger.Open(badger.DefaultOptions(dir).WithLogger(nil).WithSyncWrites(false))
	if err != nil {
		return "no-db"
	}
	defer db.Close()
	type val struct{ K string }
	st := badgerstore.NewStore(db).SetType(val{}).SetPrefix("r")
	// one prebuilt "everything" query, handed to every caller: the library only reads it
	var sharedQ *badgerstore.IndexQuery
	qs := badgerstore.NewQueryStore(st, func(qs *badgerstore.QueryStore, q url.Values) (*badgerstore.IndexQuery, error) {
		if q.Get("shared") != "" {
			return sharedQ, nil
		}
		return &badgerstore.IndexQuery{Index: qs.Index("k")}, nil
	}).AddIndex(badgerstore.Index{Name: "k", Key: func(v interface{}) []byte { return []byte(v.(val).K) }})
	sharedQ = &badgerstore.IndexQuery{Index: qs.Index("k"), Limit: -1}
	calls := 0 // plain memory: only the consumer goroutine touches it
	qs.OnQueryChange(func(store.QueryChange) { calls++ })
	badgerstore.VerifPointFn = func(p, id string) {
		if p == "index.task" {
			time.Sleep(200 * time.Microsecond)
		}
	}
	defer func() { badgerstore.VerifPointFn = nil }()
	if writers < 1 {
		writers = 1
	}
	var wg sync.WaitGroup
	per := 340 / writers
	for w := 0; w < writers; w++ {
		wg.Add(1)
		go func(w int) {
			defer wg.Done()
			for i := 0; i < per; i++ {
				t := st.Write("w" + strconv.Itoa(w) + "." + strconv.Itoa(i))
				t.Create(val{K: "a"})
				t.Close()
			}
		}(w)
	}
	wg.Wait()
	qs.Flush()
	if calls != per*writers {
		return "done-lost-callbacks"
	}
	var short int32
	for g := 0; g < 4; g++ {
		wg.Add(1)
		go func() {
			defer wg.Done()
			for i := 0; i < 5; i++ {
				v, err := qs.Query(url.Values{"shared": {"1"}})
				if ids, _ := v.([]string); err != nil || len(ids) != per*writers {
					atomic.StoreInt32(&short, 1)
				}
			}
		}()
	}
	wg.Wait()
	if short != 0 {
		return "done-short-query"
	}
	return "done"
}

// raceKeyLock: while a write transaction on an id is open, no other transaction on that id - read or
// write, with or without a store prefix - gets in. State that is only touched inside transactions on
// one id therefore needs no synchronisation of its own.
func raceKeyLock(variant int) string {
	dir, err := os.MkdirTemp("", "verif-racelock")
	if err != nil {
		return "no-db"
	}
	defer os.RemoveAll(dir)
	db, err := badger.Open(badger.DefaultOptions(dir).WithLogger(nil).WithSyncWrites(false))
	if err != nil {
		return "no-db"
	}
	defer db.Close()
	type val struct{ K string }
	st := badgerstore.NewStore(db).SetType(val{})
	if variant%2 == 1 {
		st.SetPrefix("locked")
	}
	w := st.Write("a")
	w.Create(val{K: "0"})
	w.Close()
	shared := 0 // plain memory, touched only inside transactions on id "a"
	var wg sync.WaitGroup
	for g := 0; g < 4; g++ {
		wg.Add(1)
		go func(g int) {
			defer wg.Done()
			for i := 0; i < 25; i++ {
				if g%2 == 0 {
					t := st.Write("a")
					shared++
					t.Update(val{K: strconv.Itoa(i)})
					time.Sleep(50 * time.Microsecond)
					shared++
					t.Close()
				} else {
					t := st.Read("a")
					_ = shared
					t.Value()
					t.Close()
				}
			}
		}(g)
	}
	wg.Wait()
	if shared != 100 {
		return "done-lost-updates"
	}
	return "done"
}

func (raceDom) Exec(a []string) string {
	return Safe(func() string {
		if len(a) < 3 || (a[0] != "race" && a[0] != "raceq" && a[0] != "raceown" && a[0] != "racerestart" && a[0] != "raceidx" && a[0] != "racelock") {
			return "bad-op"
		}
		w, _ := strconv.Atoi(a[1])
		seed, _ := strconv.Atoi(a[2])
		if a[0] == "raceq" {
			return raceQScenario(w, uint64(seed))
		}
		if a[0] == "raceown" {
			return raceOwnership(w, uint64(seed))
		}
		if a[0] == "raceidx" {
			return raceIndexQueue(w)
		}
		if a[0] == "racelock" {
			return raceKeyLock(w)
		}
		if a[0] == "racerestart" {
			return raceRestart(w, uint64(seed))
		}
		return raceScenario(w, uint64(seed))
	})
}
