package dom

import (
	"fmt"
	"sort"
	"strconv"
	"strings"

	res "github.com/jirenius/go-res"
	"verif/harness/internal/gen"
	"verif/harness/internal/wire"
)

type muxDom struct {
	muxes    map[int]*res.Mux
	next     int
	seen     []int
	onreg    []string
	listened bool
}

func init() { Register("mux", func() Domain { return &muxDom{muxes: map[int]*res.Mux{}} }) }

var muxPatToks = []string{"a", "b", "c", "$x", "$y", "*", ">", "$x", "a", "b", "x", "y", "$xy"} // literals spelled like tag names, a tag whose name extends another
var muxNameToks = []string{"a", "b", "c", "x", "", "$x", ">", "*", "a", "b"}

func randPattern(r *gen.R, maxn int) string {
	n := r.Intn(maxn + 1)
	toks := make([]string, n)
	for i := range toks {
		if r.Chance(1, 40) {
			toks[i] = r.Pick([]string{"", "$", "*a", ">a", "a$b", "$x$", "?"})
		} else {
			toks[i] = r.Pick(muxPatToks)
		}
		if toks[i] == ">" && i < n-1 && !r.Chance(1, 20) {
			toks[i] = "b"
		}
	}
	return strings.Join(toks, ".")
}

func patTags(p string) []string {
	var out []string
	for _, t := range splitDots(p) {
		if len(t) > 1 && t[0] == '$' {
			out = append(out, t[1:])
		}
	}
	return out
}

func randGroup(r *gen.R, p string) []string {
	switch r.Intn(10) {
	case 0, 1, 2:
		return []string{"none"}
	case 3:
		if r.Bool() {
			return []string{"parallel"}
		}
		// Parallel overrides any Group value, even one that would not parse or names no tag of the pattern
		tags := append(patTags(p), "nope")
		return []string{"parallel", r.Pick([]string{"g", "lit.g", "${" + r.Pick(tags) + "}", "x${" + r.Pick(tags) + "}", "${"})}
	case 4:
		return []string{"group", r.Pick([]string{"g", "lit.g", "${x}", "${nope}", "${", "$x", "${}", "${x", "a${x}b${y}", "${x}${x}", "${a b}"})}
	}
	tags := patTags(p)
	if len(tags) == 0 {
		return []string{"group", r.Pick([]string{"g1", "g2", "grp"})}
	}
	g := ""
	n := 1 + r.Intn(3)
	for i := 0; i < n; i++ {
		if r.Bool() {
			g += r.Pick([]string{"g", ".", "-", "x"})
		}
		g += "${" + r.Pick(tags) + "}"
	}
	if r.Bool() {
		g += r.Pick([]string{"z", ".q"})
	}
	return []string{"group", g}
}

// a name that follows an existing pattern (so lookups mostly hit)
func nameFor(r *gen.R, p string) string {
	if p == "" {
		return ""
	}
	toks := splitDots(p)
	var out []string
	for _, t := range toks {
		switch {
		case t == ">":
			k := 1 + r.Intn(2)
			for j := 0; j < k; j++ {
				out = append(out, r.Pick(muxNameToks))
			}
		case len(t) > 0 && (t[0] == '$' || t[0] == '*'):
			out = append(out, r.Pick(muxNameToks))
		default:
			if r.Chance(1, 10) {
				out = append(out, r.Pick(muxNameToks))
			} else {
				out = append(out, t)
			}
		}
	}
	if r.Chance(1, 12) && len(out) > 0 {
		out = out[:len(out)-1]
	}
	if r.Chance(1, 12) {
		out = append(out, r.Pick(muxNameToks))
	}
	return strings.Join(out, ".")
}

func (d *muxDom) Gen(r *gen.R, tier string, emit func(string)) {
	blocks := 1500
	if tier == "thorough" {
		blocks = 40000
	}
	paths := []string{"", "", "p", "p.q", "s", "a", "$x", "a..b", ">"}
	for b := 0; b < blocks; b++ {
		emit(wire.Line("reset"))
		nmux := 1 + r.Intn(3)
		mpaths := make([]string, nmux)
		for m := 0; m < nmux; m++ {
			mpaths[m] = r.Pick(paths[:5])
			if r.Chance(1, 30) {
				mpaths[m] = r.Pick(paths)
			}
			emit(wire.Line("new", strconv.Itoa(m), mpaths[m]))
		}
		// full paths of registered patterns, to derive names from
		type regd struct {
			mux int
			pat string
		}
		var regs []regd
		mounts := map[int][2]string{} // child -> parent, path
		children := map[int][]int{}   // parent -> children mounted below it (first mount of each child)
		nops := 2 + r.Intn(10)
		for i := 0; i < nops; i++ {
			m := r.Intn(nmux)
			switch k := r.Intn(11); {
			case k == 10:
				// registration THROUGH mounts: a pattern of mux m that runs through one or two levels
				// of already mounted sub-muxes and has placeholders (and group tags) behind them
				if len(children[m]) == 0 {
					for pm := range children {
						m = pm
					}
				}
				if len(children[m]) == 0 {
					continue
				}
				c := children[m][r.Intn(len(children[m]))]
				prefix := mergeP(mounts[c][1], mpaths[c])
				if len(children[c]) > 0 && r.Bool() {
					c2 := children[c][r.Intn(len(children[c]))]
					prefix = mergeP(prefix, mergeP(mounts[c2][1], mpaths[c2]))
				}
				rest := randPattern(r, 3)
				if !strings.Contains(rest, "$") {
					rest = mergeP(r.Pick([]string{"$x", "$y", "a.$x", "$x.$y"}), rest)
				}
				p := mergeP(prefix, rest)
				if r.Chance(1, 4) {
					emit(wire.Line("listen", strconv.Itoa(m), p))
				} else {
					args := append([]string{"handle", strconv.Itoa(m), p}, randGroup(r, p)...)
					emit(wire.Line(args...))
					regs = append(regs, regd{m, p})
				}
			case k < 6:
				p := randPattern(r, 3)
				if len(regs) > 0 && r.Chance(1, 6) {
					p = regs[r.Intn(len(regs))].pat // conflicts
				}
				args := append([]string{"handle", strconv.Itoa(m), p}, randGroup(r, p)...)
				emit(wire.Line(args...))
				regs = append(regs, regd{m, p})
			case k < 8:
				p := randPattern(r, 3)
				if len(regs) > 0 && r.Chance(2, 3) {
					p = regs[r.Intn(len(regs))].pat
					if r.Chance(1, 5) {
						p = strings.ReplaceAll(p, "$x", "$y")
					}
				}
				emit(wire.Line("listen", strconv.Itoa(m), p))
			default:
				if nmux > 1 {
					c := r.Intn(nmux)
					if c == m || c == 0 {
						c = (m + 1) % nmux
					}
					if c == 0 || c == m {
						continue
					}
					// avoid cycles: only mount higher ids below lower ids
					if c < m {
						continue
					}
					mp := r.Pick([]string{"m", "a", "a.b", "", "m.n", "$x", "b"})
					emit(wire.Line("mount", strconv.Itoa(m), mp, strconv.Itoa(c)))
					if _, ok := mounts[c]; !ok {
						mounts[c] = [2]string{strconv.Itoa(m), mp}
						children[m] = append(children[m], c)
					}
				}
			}
		}
		// lookups on every mux
		var absOf func(m int) (string, bool)
		absOf = func(m int) (string, bool) { return "", true }
		_ = absOf
		for m := 0; m < nmux; m++ {
			ms := strconv.Itoa(m)
			names := []string{"", mpaths[m], "a", "a.b", "a.b.c", "x", "a..b", ".", "a.", ".a"}
			for _, rg := range regs {
				for k := 0; k < 3; k++ {
					n := nameFor(r, rg.pat)
					// from the registering mux, and through mounts
					names = append(names, mergeP(mpaths[m], n))
					if mpaths[m] != "" && k == 0 {
						// the mux path as a string prefix that is not a token prefix: must not match
						names = append(names, mpaths[m]+"x"+n, mpaths[m]+"-."+n, mpaths[m]+r.Pick([]string{"2", "s", "_"})+"."+n)
					}
					if mt, ok := mounts[rg.mux]; ok {
						n2 := mergeP(mergeP(mt[1], mpaths[rg.mux]), n)
						names = append(names, mergeP(mpaths[m], n2), n2)
						pm, _ := strconv.Atoi(mt[0])
						if mt2, ok := mounts[pm]; ok {
							n3 := mergeP(mergeP(mt2[1], mpaths[pm]), n2)
							names = append(names, mergeP(mpaths[m], n3))
						}
					}
				}
			}
			for _, n := range names {
				emit(wire.Line("get", ms, n))
			}
			emit(wire.Line("validate", ms))
			emit(wire.Line("fullpath", ms))
		}
		// last operation of the block: mux 0 (with everything mounted below it) is mounted on a service;
		// every handler's OnRegister callback is told its full pattern
		emit(wire.Line("onreg"))
	}
}

func mergeP(a, b string) string {
	if a == "" {
		return b
	}
	if b == "" {
		return a
	}
	return a + "." + b
}

func (d *muxDom) Exec(a []string) string {
	return Safe(func() string {
		if len(a) == 0 {
			return "bad-op"
		}
		atoi := func(s string) int { n, _ := strconv.Atoi(s); return n }
		switch a[0] {
		case "reset":
			d.muxes = map[int]*res.Mux{}
			d.next = 0
			d.listened = false
			return "ok"
		case "new":
			d.muxes[atoi(a[1])] = res.NewMux(a[2])
			return "ok"
		case "handle":
			id := d.next
			d.next++
			h := res.Handler{Call: map[string]res.CallHandler{strconv.Itoa(id): nil},
				OnRegister: func(_ *res.Service, p res.Pattern, _ res.Handler) { d.onreg = append(d.onreg, string(p)) }}
			switch a[3] {
			case "group":
				h.Group = a[4]
			case "parallel":
				h.Parallel = true
				if len(a) > 4 {
					h.Group = a[4]
				}
			}
			d.muxes[atoi(a[1])].AddHandler(a[2], h)
			return "ok"
		case "listen":
			id := d.next
			d.next++
			d.listened = true
			d.muxes[atoi(a[1])].AddListener(a[2], func(*res.Event) { d.seen = append(d.seen, id) })
			return "ok"
		case "mount":
			d.muxes[atoi(a[1])].Mount(a[2], d.muxes[atoi(a[3])])
			return "ok"
		case "get":
			m := d.muxes[atoi(a[1])].GetHandler(a[2])
			if m == nil {
				return "nil"
			}
			hid := "?"
			for k := range m.Handler.Call {
				hid = k
			}
			d.seen = nil
			for _, l := range m.Listeners {
				l(nil)
			}
			ls := make([]string, len(d.seen))
			for i, v := range d.seen {
				ls[i] = strconv.Itoa(v)
			}
			return fmt.Sprintf("h=%s ls=[%s] params=%s group=%s", hid, strings.Join(ls, ", "), wire.Map(m.Params), wire.Enc(m.Group))
		case "onreg":
			d.onreg = nil
			m0, ok := d.muxes[0]
			if !ok {
				return "nomux"
			}
			sv := res.NewService("svc")
			sv.Mount("top", m0)
			// placeholders compared by position; by name too when no listener was registered in this block (a
			// listener on the same node may give an anonymous placeholder its name)
			render := func(norm bool) string {
				out := make([]string, len(d.onreg))
				for i, p := range d.onreg {
					if norm {
						toks := strings.Split(p, ".")
						for j, t := range toks {
							if len(t) > 1 && t[0] == '$' {
								toks[j] = "*"
							}
						}
						p = strings.Join(toks, ".")
					}
					out[i] = p
				}
				sort.Strings(out)
				for i := range out {
					out[i] = wire.Enc(out[i])
				}
				return "[" + strings.Join(out, ",") + "]"
			}
			if d.listened {
				return "norm=" + render(true) + " exact=-"
			}
			return "norm=" + render(true) + " exact=" + render(false)
		case "validate":
			if d.muxes[atoi(a[1])].ValidateListeners() != nil {
				return "err"
			}
			return "ok"
		case "fullpath":
			return wire.Enc(d.muxes[atoi(a[1])].FullPath())
		}
		return "bad-op"
	})
}
