package dom

import (
	"bytes"
	"encoding/json"
	"errors"
	"fmt"
	"github.com/jirenius/go-res/logger"
	"net/url"
	"os"
	"reflect"
	"sort"
	"strconv"
	"strings"
	"sync"
	"time"

	res "github.com/jirenius/go-res"
	"verif/harness/internal/gen"
	"verif/harness/internal/recconn"
	"verif/harness/internal/svc"
	"verif/harness/internal/wire"
)

type reqDom struct{}

func init() { Register("req", func() Domain { return reqDom{} }) }

// ---- generator ------------------------------------------------------------

var reqVals = []string{`null`, `1`, `"s"`, `{"a":1}`, `[1,2]`, `true`, `{"rid":"x.y"}`, `"q\"uote"`, `12.5`, `{"a":{"b":[]}}`}
var reqMsgs = []string{"Custom message", "Oops", "m", "say \"hi\"", "back\\slash and\ttab", "two\nlines"}
var reqCodes = []string{"custom.code", "system.notFound", "system.invalidParams", "x.y"}

func jv(r *gen.R) string {
	if r.Chance(1, 12) {
		return "U"
	}
	return "J" + wire.Enc(r.Pick(reqVals))
}

func act(name string, args ...string) string {
	return strings.Join(append([]string{name}, args...), ":")
}

func e(s string) string { return wire.Enc(s) }

func genAction(r *gen.R) string {
	switch k := r.Intn(100); {
	case k < 8:
		if r.Bool() {
			return act("ok", "-")
		}
		return act("ok", jv(r))
	case k < 11:
		return act("resource", e(r.Pick([]string{"x.y", "svc.a", "bad..rid", "a?q=1", "*", "", "?", "?limit=5", "a.b?", "a.>", "a b", "x.a\\b", "x.\"q\"", "x.y?q=\"1\"", "x.a\x7fb", "x.a~b", "x.a!b", "x.a\x1fb", "x.a\u00e9b"})))
	case k < 16:
		switch r.Intn(6) {
		case 5:
			return act("error", "N") // Error(nil): an error variable that was never set
		case 0, 1:
			return act("error", "R", e(r.Pick(reqCodes)), e(r.Pick(reqMsgs)))
		case 2:
			return act("error", "W", e(r.Pick(reqCodes)), e(r.Pick(reqMsgs)))
		case 3:
			return act("error", "U")
		}
		return act("error", "G", e(r.Pick(reqMsgs)))
	case k < 19:
		return act("notFound")
	case k < 21:
		return act("methodNotFound")
	case k < 24:
		return act("invalidParams", e(r.Pick([]string{"", "Bad param"})))
	case k < 26:
		return act("invalidQuery", e(r.Pick([]string{"", "Bad query"})))
	case k < 29:
		return act("access", wire.Bool(r.Bool()), e(r.Pick([]string{"", "*", "set,get"})))
	case k < 31:
		return act("accessDenied")
	case k < 33:
		return act("accessGranted")
	case k < 37:
		return act("model", jv(r), e(r.Pick([]string{"", "", "q=1"})))
	case k < 40:
		return act("collection", jv(r), e(r.Pick([]string{"", "", "q=1"})))
	case k < 42:
		return act("new", e(r.Pick([]string{"x.y", "bad..rid", "", "?q=1", "a.b?x=1", "x.a\\b", "x.\"q\"", "x.a\x7fb", "x.a~b", "x.a!b", "x.a\x1fb"})))
	case k < 49:
		if r.Chance(1, 3) {
			// a duration that is not a whole number of milliseconds: the pre-response announces whole milliseconds
			return act("timeoutus", r.Pick([]string{"1500", "666666", "999", "2500001", "1", "100000", "-1"}))
		}
		return act("timeout", r.Pick([]string{"0", "100", "4500", "-1", "3000000", "1200000"}))
	case k < 56:
		n := r.Intn(3)
		args := []string{}
		keys := []string{"a", "b", "c"}
		for i := 0; i < n; i++ {
			args = append(args, e(keys[i]), jv(r))
		}
		return act("change", args...)
	case k < 61:
		return act("add", jv(r), r.Pick([]string{"0", "1", "5", "-1"}))
	case k < 65:
		return act("remove", r.Pick([]string{"0", "2", "-1"}))
	case k < 68:
		if r.Chance(1, 4) {
			return act("create", "N") // CreateEvent(nil): the apply handler is asked all the same
		}
		return act("create", jv(r))
	case k < 71:
		return act("delete")
	case k < 76:
		p := "-"
		if r.Bool() {
			p = jv(r)
		}
		return act("custom", e(r.Pick([]string{"foo", "bar", "change", "delete", "a.b", "", "patch", "x*", "user joined", "tab\tbed", "q?", "ok-name", "foo", "query", "add", "remove", "reaccess", "unsubscribe", "Query", "queries"})), p)
	case k < 78:
		return act("reaccess")
	case k < 81:
		p := "-"
		if r.Bool() {
			p = jv(r)
		}
		return act("token", p)
	case k < 86:
		return act("status", r.Pick([]string{"0", "200", "404", "503"}))
	case k < 90:
		return act("header", e(r.Pick([]string{"X-A", "Set-Cookie"})), e(r.Pick([]string{"v1", "v2"})))
	case k < 97:
		switch r.Intn(6) {
		case 4:
			return act("panic", "W", e(r.Pick(reqCodes)), e(r.Pick(reqMsgs)))
		case 5:
			return act("panic", "U")
		case 0:
			return act("panic", "R", e(r.Pick(reqCodes)), e(r.Pick(reqMsgs)))
		case 1:
			return act("panic", "G", e(r.Pick(reqMsgs)))
		case 2:
			return act("panic", "S", e(r.Pick(reqMsgs)))
		default:
			return act("panic", "O", e(r.Pick([]string{"42", "7"})))
		}
	default:
		return act("parse", wire.Bool(r.Bool()))
	}
}

// a name that matches the pattern
func exactName(r *gen.R, p string) string {
	lits := []string{"a", "b", "ab", "x", "c", "1"}
	var out []string
	for _, t := range splitDots(p) {
		switch {
		case t == ">":
			for j := 1 + r.Intn(2); j > 0; j-- {
				out = append(out, r.Pick(lits))
			}
		case len(t) > 0 && (t[0] == '$' || t[0] == '*'):
			out = append(out, r.Pick(lits))
		default:
			out = append(out, t)
		}
	}
	return strings.Join(out, ".")
}

func (reqDom) Gen(r *gen.R, tier string, emit func(string)) {
	n := 5000
	if tier == "thorough" {
		n = 80000
	}
	pats := []string{"a", "a.$x", "a.$x.b", "m.>", "a.*", "$x.$y", "a.b.c", "", "a.$x"}
	for i := 0; i < n; i++ {
		pat := r.Pick(pats)
		rname := "svc." + exactName(r, pat)
		if pat == "" {
			rname = "svc"
		}
		if r.Chance(1, 8) && pat != "" {
			rname = "svc." + nearName(r, pat)
		}
		if r.Chance(1, 30) {
			rname = "svc"
		}
		if r.Chance(1, 40) {
			rname = "other." + nearName(r, pat)
		}
		rtype := r.Pick([]string{"access", "get", "call", "auth", "call", "get"})
		subj := rtype + "." + rname
		if rtype == "call" || rtype == "auth" {
			subj += "." + r.Pick([]string{"m", "new", "set", "x", "m"})
		}
		pk := "o"
		if r.Chance(1, 8) {
			pk = "e"
		} else if r.Chance(1, 12) {
			// broken JSON, JSON that is not an object, plain garbage
			pk = r.Pick([]string{"b", "b", "ba", "bn", "bs", "bx"})
		} else if r.Chance(1, 16) {
			pk = r.Pick([]string{"ow", "en"}) // an object after JSON whitespace; the JSON null
		}
		params, token := "-", "-"
		if r.Bool() {
			params = r.Pick([]string{`{"p":1}`, `"str"`, `null`, `[1]`})
		}
		if r.Bool() {
			token = r.Pick([]string{`{"user":"x"}`, `null`, `1`})
		}
		kinds := ""
		for _, k := range "agn" {
			if r.Chance(4, 5) {
				kinds += string(k)
			}
		}
		if kinds == "" {
			kinds = "-"
		}
		pickSet := func(opts []string) string {
			var o []string
			for _, x := range opts {
				if r.Chance(2, 3) {
					o = append(o, x)
				}
			}
			if len(o) == 0 {
				return "-"
			}
			return strings.Join(o, ",")
		}
		apply := ""
		for j := 0; j < 5; j++ {
			c := r.Pick([]string{"-", "-", "o", "o", "e", "-", "-", "o", "o", "e", "b", "n"})
			if j == 0 && r.Chance(1, 6) {
				c = "z"
			}
			apply += c
		}
		nact := r.Intn(6)
		if r.Chance(1, 10) {
			nact = 0
		}
		// the ownership lists the service is started with: everything, or overlapping lists in
		// either order (a subject under several owned patterns is still subscribed once, C09)
		opName := "req"
		if r.Chance(1, 25) {
			opName = "reqn" // the message carries no reply subject
		} else if r.Chance(1, 6) {
			opName = "reqr" // routed sub-mux + Handler.Listeners
		} else if r.Chance(1, 4) && (rname == "svc" || strings.HasPrefix(rname, "svc.")) && !strings.Contains(rname, "..") && !strings.HasSuffix(rname, ".") {
			opName = r.Pick([]string{"req1", "req2", "req3"})
			if (res.Pattern("svc.*").Matches(rname) || res.Pattern("svc.a.*").Matches(rname)) && r.Bool() {
				opName = "req4"
			}
		}
		args := []string{opName, subj, pk, r.Pick([]string{"cid1", "c.x", "", "cid1", "c d", "cid2"}), wire.Bool(r.Bool()), params, token,
			r.Pick([]string{"", "q=1&b=2", "", "q=1&b=2", "?limit=10", "?", "??", "limit=10&from=%ZZ&type=u.a", "a=1;b=2&c=3", "a=b=c&&d", "x=%41+b"}), pat, kinds, pickSet([]string{"m", "*", "set"}), pickSet([]string{"m", "*"}),
			strconv.Itoa(r.Intn(3)), apply, strconv.Itoa(r.Intn(3))}
		for j := 0; j < nact; j++ {
			args = append(args, genAction(r))
		}
		emit(wire.Line(args...))
	}
}

// ---- executor -------------------------------------------------------------

type effLog struct {
	mu  sync.Mutex
	out []string
}

func (l *effLog) add(s string) {
	l.mu.Lock()
	l.out = append(l.out, s)
	l.mu.Unlock()
}

var goErrMarkers = []string{"json:", "invalid character", "unexpected end of JSON", "cannot unmarshal", "unsupported type", "unsupported value"}

func canonJSON(b []byte) string {
	dec := json.NewDecoder(bytes.NewReader(b))
	dec.UseNumber()
	var v interface{}
	if err := dec.Decode(&v); err != nil {
		return string(b)
	}
	// replace Go-generated error texts
	if m, ok := v.(map[string]interface{}); ok {
		if em, ok := m["error"].(map[string]interface{}); ok {
			if msg, ok := em["message"].(string); ok {
				for _, mk := range goErrMarkers {
					if strings.Contains(msg, mk) {
						em["message"] = "<go-error>"
						break
					}
				}
				if strings.HasPrefix(msg, "Internal error: res:") || strings.HasPrefix(msg, "Internal error: call to ") {
					em["message"] = "<lib-panic>"
				}
			}
		}
	}
	var buf bytes.Buffer
	enc := json.NewEncoder(&buf)
	enc.SetEscapeHTML(false)
	if err := enc.Encode(v); err != nil {
		return string(b)
	}
	return strings.TrimRight(buf.String(), "\n")
}

func toJV(s string) interface{} {
	if s == "U" {
		return make(chan int)
	}
	if len(s) > 0 && s[0] == 'J' {
		d, _ := wire.Dec(s[1:])
		return json.RawMessage(d)
	}
	return nil
}

func dd(s string) string { d, _ := wire.Dec(s); return d }

func runScript(r *res.Request, acts []string) {
	for _, a := range acts {
		f := strings.Split(a, ":")
		switch f[0] {
		case "ok":
			if f[1] == "-" {
				r.OK(nil)
			} else {
				r.OK(toJV(f[1]))
			}
		case "resource":
			r.Resource(dd(f[1]))
		case "error":
			switch f[1] {
			case "R":
				r.Error(&res.Error{Code: dd(f[2]), Message: dd(f[3])})
			case "W":
				r.Error(fmt.Errorf("wrap: %w", &res.Error{Code: dd(f[2]), Message: dd(f[3])}))
			case "U":
				r.Error(&res.Error{Code: "custom.code", Message: "Oops", Data: make(chan int)})
			case "N":
				r.Error(nil)
			default:
				r.Error(errors.New(dd(f[2])))
			}
		case "notFound":
			r.NotFound()
		case "methodNotFound":
			r.MethodNotFound()
		case "invalidParams":
			r.InvalidParams(dd(f[1]))
		case "invalidQuery":
			r.InvalidQuery(dd(f[1]))
		case "access":
			r.Access(f[1] == "T", dd(f[2]))
		case "accessDenied":
			r.AccessDenied()
		case "accessGranted":
			r.AccessGranted()
		case "model":
			if q := dd(f[2]); q != "" {
				r.QueryModel(toJV(f[1]), q)
			} else {
				r.Model(toJV(f[1]))
			}
		case "collection":
			if q := dd(f[2]); q != "" {
				r.QueryCollection(toJV(f[1]), q)
			} else {
				r.Collection(toJV(f[1]))
			}
		case "new":
			r.New(res.Ref(dd(f[1])))
		case "timeout":
			ms, _ := strconv.Atoi(f[1])
			r.Timeout(time.Duration(ms) * time.Millisecond)
		case "timeoutus":
			us, _ := strconv.Atoi(f[1])
			r.Timeout(time.Duration(us) * time.Microsecond)
		case "change":
			m := map[string]interface{}{}
			for i := 1; i+1 < len(f); i += 2 {
				m[dd(f[i])] = toJV(f[i+1])
			}
			r.ChangeEvent(m)
		case "add":
			idx, _ := strconv.Atoi(f[2])
			r.AddEvent(toJV(f[1]), idx)
		case "remove":
			idx, _ := strconv.Atoi(f[1])
			r.RemoveEvent(idx)
		case "create":
			r.CreateEvent(toJV(f[1]))
		case "delete":
			r.DeleteEvent()
		case "custom":
			if f[2] == "-" {
				r.Event(dd(f[1]), nil)
			} else {
				r.Event(dd(f[1]), toJV(f[2]))
			}
		case "reaccess":
			r.ReaccessEvent()
		case "token":
			if f[1] == "-" {
				r.TokenEvent(nil)
			} else {
				r.TokenEvent(toJV(f[1]))
			}
		case "status":
			c, _ := strconv.Atoi(f[1])
			r.SetResponseStatus(c)
		case "header":
			r.ResponseHeader().Add(dd(f[1]), dd(f[2]))
		case "parse":
			if f[1] == "T" {
				var v interface{}
				r.ParseParams(&v)
			} else {
				var v chan int // never unmarshalable
				r.ParseParams(&v)
			}
		case "panic":
			switch f[1] {
			case "W":
				panic(fmt.Errorf("wrap: %w", &res.Error{Code: dd(f[2]), Message: dd(f[3])}))
			case "U":
				panic(&res.Error{Code: "custom.code", Message: "Oops", Data: make(chan int)})
			case "R":
				panic(&res.Error{Code: dd(f[2]), Message: dd(f[3])})
			case "G":
				panic(errors.New(dd(f[2])))
			case "S":
				panic(dd(f[2]))
			default:
				n, _ := strconv.Atoi(dd(f[2]))
				panic(n)
			}
		}
	}
}

func seenDesc(kind string, r *res.Request) string {
	pp := r.PathParams()
	keys := make([]string, 0, len(pp))
	for k := range pp {
		keys = append(keys, k)
	}
	sort.Strings(keys)
	kv := make([]string, len(keys))
	for i, k := range keys {
		kv[i] = k + "=" + pp[k]
	}
	opt := func(b json.RawMessage) string {
		if b == nil {
			return "-"
		}
		return string(b)
	}
	return strings.Join([]string{kind, r.ResourceName(), r.Method(), r.Query(), r.CID(), wire.Bool(r.IsHTTP()),
		opt(r.RawParams()), opt(r.RawToken()), strings.Join(kv, ","), "pq=" + wire.Bool(parsedQueryAgrees(r)), "md=" + wire.Bool(metaAgrees(r))}, "|")
}

// the connection metadata of the request being delivered (nil: none was sent). Written before the
// message is delivered, read by the handler on a worker.
type connMeta struct {
	header            map[string][]string
	host, remote, uri string
}

var sentMeta *connMeta

// metaAgrees: header, host, remote address and URI reach the handler exactly as sent.
func metaAgrees(r *res.Request) bool {
	m := sentMeta
	if m == nil {
		return len(r.Header()) == 0 && r.Host() == "" && r.RemoteAddr() == "" && r.URI() == ""
	}
	if r.Host() != m.host || r.RemoteAddr() != m.remote || r.URI() != m.uri || len(r.Header()) != len(m.header) {
		return false
	}
	for k, v := range m.header {
		got, ok := r.Header()[k]
		if !ok || len(got) != len(v) {
			return false
		}
		for i := range v {
			if got[i] != v[i] {
				return false
			}
		}
	}
	return true
}

// parsedQueryAgrees: Request.ParseQuery is url.ParseQuery of the query as sent, keeping the pairs
// that are well formed when another pair is not.
func parsedQueryAgrees(r *res.Request) bool {
	want, _ := url.ParseQuery(r.Query())
	got := r.ParseQuery()
	if len(got) != len(want) {
		return false
	}
	for k, v := range want {
		if !reflect.DeepEqual(got[k], v) {
			return false
		}
	}
	return true
}

func (reqDom) Exec(a []string) string {
	return Safe(func() string {
		if len(a) < 15 || !strings.HasPrefix(a[0], "req") {
			return "bad-op"
		}
		owned := []string{">"}
		switch a[0] {
		case "req1":
			owned = []string{"svc", "svc.>", "svc.a.>"}
		case "req2":
			owned = []string{"svc.a.>", "svc", "svc.>"}
		case "req3":
			owned = []string{"svc.>", "svc", "svc.a.b.c", "svc.*"}
		case "req4":
			// owned patterns with single-token wildcards only (no trailing >)
			owned = []string{"svc.*", "svc.a.*", "svc.zz.sentinel"}
		}
		subj, pk, cid, http, params, token, query := a[1], a[2], a[3], a[4] == "T", a[5], a[6], a[7]
		pat, kinds, call, auth, typ, apply, nls := a[8], a[9], a[10], a[11], a[12], a[13], a[14]
		acts := a[15:]
		log := &effLog{}
		h := func(kind string) func(r *res.Request) {
			return func(r *res.Request) {
				log.add("S@" + wire.Enc(seenDesc(kind, r)))
				runScript(r, acts)
			}
		}
		var opts []res.Option
		switch typ {
		case "1":
			opts = append(opts, res.Model)
		case "2":
			opts = append(opts, res.Collection)
		}
		for _, k := range kinds {
			switch k {
			case 'a':
				f := h("access")
				opts = append(opts, res.Access(func(r res.AccessRequest) { f(r.(*res.Request)) }))
			case 'g':
				f := h("get")
				opts = append(opts, res.GetResource(func(r res.GetRequest) { f(r.(*res.Request)) }))
			case 'n':
				f := h("new")
				opts = append(opts, res.New(func(r res.NewRequest) { f(r.(*res.Request)) }))
			}
		}
		if call != "-" {
			for _, m := range strings.Split(call, ",") {
				kind := "call"
				if m == "*" {
					kind = "call*"
				}
				f := h(kind)
				opts = append(opts, res.Call(m, func(r res.CallRequest) { f(r.(*res.Request)) }))
			}
		}
		if auth != "-" {
			for _, m := range strings.Split(auth, ",") {
				kind := "auth"
				if m == "*" {
					kind = "auth*"
				}
				f := h(kind)
				opts = append(opts, res.Auth(m, func(r res.AuthRequest) { f(r.(*res.Request)) }))
			}
		}
		applyErr := errors.New("apply failed")
		ap := func(i int) byte {
			if i < len(apply) {
				return apply[i]
			}
			return '-'
		}
		if c := ap(0); c != '-' {
			opts = append(opts, res.ApplyChange(func(r res.Resource, ch map[string]interface{}) (map[string]interface{}, error) {
				log.add("A@change")
				switch c {
				case 'e':
					return nil, applyErr
				case 'b': // failed after a partial apply: a revert map and the error
					return map[string]interface{}{"old": 1}, applyErr
				case 'n':
					return nil, res.ErrNotFound
				case 'z':
					return map[string]interface{}{}, nil
				}
				return map[string]interface{}{"old": 1}, nil
			}))
		}
		if c := ap(1); c != '-' {
			opts = append(opts, res.ApplyAdd(func(r res.Resource, v interface{}, idx int) error {
				log.add("A@add")
				if c == 'e' || c == 'b' {
					return applyErr
				}
				if c == 'n' {
					return res.ErrNotFound
				}
				return nil
			}))
		}
		if c := ap(2); c != '-' {
			opts = append(opts, res.ApplyRemove(func(r res.Resource, idx int) (interface{}, error) {
				log.add("A@remove")
				if c == 'e' {
					return nil, applyErr
				}
				if c == 'b' {
					return 1, applyErr
				}
				if c == 'n' {
					return nil, res.ErrNotFound
				}
				return 1, nil
			}))
		}
		if c := ap(3); c != '-' {
			opts = append(opts, res.ApplyCreate(func(r res.Resource, v interface{}) error {
				log.add("A@create")
				if c == 'e' || c == 'b' {
					return applyErr
				}
				if c == 'n' {
					return res.ErrNotFound
				}
				return nil
			}))
		}
		if c := ap(4); c != '-' {
			opts = append(opts, res.ApplyDelete(func(r res.Resource) (interface{}, error) {
				log.add("A@delete")
				if c == 'e' {
					return nil, applyErr
				}
				if c == 'b' {
					return 1, applyErr
				}
				if c == 'n' { // "already gone": an error like any other, nothing is announced
					return nil, res.ErrNotFound
				}
				return 1, nil
			}))
		}
		s := res.NewService("svc")
		s.SetLogger(svc.NopLogger{})
		if os.Getenv("VERIF_DEBUG") != "" {
			s.SetLogger(logger.NewStdLogger().SetTrace(true))
		}
		// what is logged, and where to, makes no difference to any response: no logger at all, and
		// no logger but an error callback, for two of the connection ids
		switch cid {
		case "c d":
			s.SetLogger(nil)
		case "cid2":
			s.SetLogger(nil)
			s.SetOnError(func(*res.Service, string) {})
		}
		s.SetWorkerCount(2)
		n, _ := strconv.Atoi(nls)
		firstAdd := 0
		toks := strings.SplitN(pat, ".", 2)
		if a[0] == "reqr" && len(toks) == 2 && toks[0] != "" && !strings.ContainsAny(toks[0][:1], "$*>") {
			// the handler sits on a routed sub-mux (registered before that mux is mounted) and its
			// first listener comes with the handler itself (Handler.Listeners)
			s.Route(toks[0], func(m *res.Mux) {
				lopts := opts
				if n > 0 {
					firstAdd = 1
					lopts = append(append([]res.Option{}, opts...), res.OptionFunc(func(h *res.Handler) {
						// several entries: each pattern keeps its own listener (the other ones belong to resources that get no event here)
						h.Listeners = map[string]func(*res.Event){
							toks[1]: func(ev *res.Event) { log.add(fmt.Sprintf("L@%d@%s", 0, wire.Enc(ev.Name))) },
						}
						for _, decoy := range []string{"zz.decoy1", "zz.decoy2", "zz.decoy3"} {
							decoy := decoy
							h.Listeners[decoy] = func(ev *res.Event) { log.add("L@wrong-listener@" + wire.Enc(decoy)) }
						}
					}))
				}
				m.Handle(toks[1], lopts...)
				if n > 0 {
					for _, decoy := range []string{"zz.decoy1", "zz.decoy2", "zz.decoy3"} {
						m.Handle(decoy, res.GetResource(func(r res.GetRequest) { r.NotFound() }))
					}
				}
			})
		} else {
			s.Handle(pat, opts...)
		}
		for i := firstAdd; i < n; i++ {
			i := i
			s.AddListener(pat, func(ev *res.Event) { log.add(fmt.Sprintf("L@%d@%s", i, wire.Enc(ev.Name))) })
		}
		s.Handle("zz.sentinel", res.Call("ping", func(r res.CallRequest) { r.OK(nil) }))
		s.SetOwnedResources(owned, owned)
		run, err := svc.Start(s)
		if err != nil {
			return "start-failed"
		}
		defer run.Stop()
		const reply = "_INBOX.request"
		run.C.OnPub = func(p recconn.Pub) {
			if strings.HasPrefix(p.Subject, "_INBOX.h") || p.Subject == "system.reset" {
				return
			}
			sj := p.Subject
			if sj == reply {
				sj = "REPLY"
			}
			pl := string(p.Data)
			if len(pl) > 0 && (pl[0] == '{' || pl[0] == '[') {
				pl = canonJSON(p.Data)
			}
			log.add("P@" + wire.Enc(sj) + "@" + wire.Enc(pl))
		}
		var payload []byte
		switch pk {
		case "b":
			payload = []byte(`{"cid":`)
		case "ba":
			payload = []byte(`[]`)
		case "bn":
			payload = []byte(`1`)
		case "bs":
			payload = []byte(`"str"`)
		case "bx":
			payload = []byte(`xyz`)
		case "en":
			payload = []byte(`null`)
		case "o", "ow":
			m := map[string]interface{}{"cid": cid, "isHttp": http, "query": query}
			// connection metadata, with header names that are not in canonical form
			sentMeta = &connMeta{
				header: map[string][]string{"x-request-id": {"abc"}, "X-Request-Id": {"def"}, "ETag": {"v1"}, "Cache-Control": {"no-cache", "x"}, "Empty": {}},
				host:   "Example.COM:8080", remote: "[::1]:4711", uri: "/api/x?y=%20z",
			}
			m["header"], m["host"], m["remoteAddr"], m["uri"] = sentMeta.header, sentMeta.host, sentMeta.remote, sentMeta.uri
			if params != "-" {
				m["params"] = json.RawMessage(params)
			}
			if token != "-" {
				m["token"] = json.RawMessage(token)
			}
			payload, _ = json.Marshal(m)
			if pk == "ow" {
				payload = append([]byte(" \n\t"), payload...)
			}
		}
		if pk != "o" && pk != "ow" {
			sentMeta = nil
		}
		replyTo := reply
		if a[0] == "reqn" {
			replyTo = ""
		}
		if run.C.Deliver(subj, replyTo, payload) == 0 {
			return "not-delivered"
		}
		// the listener goroutine handles messages in order: once the ping is answered the
		// request has been enqueued; a callback enqueued on its group then runs after it
		if _, ok := run.Request("call.svc.zz.sentinel.ping", nil, 5000); !ok {
			return "hang-ping"
		}
		rname := subj[strings.IndexByte(subj, '.')+1:]
		if strings.HasPrefix(subj, "call.") || strings.HasPrefix(subj, "auth.") {
			rname = rname[:strings.LastIndexByte(rname, '.')]
		}
		done := make(chan struct{})
		s.WithGroup(rname, func(*res.Service) { close(done) })
		select {
		case <-done:
		case <-time.After(5 * time.Second):
			return "hang-request"
		}
		log.mu.Lock()
		defer log.mu.Unlock()
		if len(log.out) == 0 {
			return "-"
		}
		return strings.Join(log.out, ";")
	})
}
