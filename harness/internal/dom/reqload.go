package dom

import (
	"fmt"
	"strconv"
	"strings"
	"sync"
	"time"

	res "github.com/jirenius/go-res"
	"verif/harness/internal/gen"
	"verif/harness/internal/recconn"
	"verif/harness/internal/svc"
	"verif/harness/internal/wire"
)

// reqload: C04 under concurrent load on many resources. One op runs a whole
// scenario: a service with few workers and a small in-channel, optionally a
// worker blocked in a handler while requests for many distinct resources pile
// up, several delivering goroutines; every request must get exactly one response.

type reqloadDom struct{}

func init() { Register("reqload", func() Domain { return reqloadDom{} }) }

func (reqloadDom) Gen(r *gen.R, tier string, emit func(string)) {
	n := 40
	if tier == "thorough" {
		n = 600
	}
	emit(wire.Line("restart", "1"))
	emit(wire.Line("restart", "2"))
	for i := 0; i < n; i++ {
		workers := r.Pick([]string{"1", "1", "2", "3", "32"})
		inch := r.Pick([]string{"1", "2", "4", "1024"})
		nres := strconv.Itoa(1 + r.Intn(12))
		nreq := strconv.Itoa(5 + r.Intn(60))
		block := wire.Bool(r.Chance(2, 3))
		senders := strconv.Itoa(1 + r.Intn(4))
		emit(wire.Line("load", workers, inch, nres, nreq, block, senders, strconv.Itoa(r.Intn(1000000))))
	}
}

// reqRestart: the only worker is busy and a callback for another resource is still waiting
// in the shared queue when the service is shut down; after Serve is called again, requests on
// both resources must be answered (nothing of the previous run may be left behind).
func reqRestart(workers int) string {
	s := res.NewService("svc")
	s.SetLogger(svc.NopLogger{})
	s.SetWorkerCount(workers)
	s.Handle("item.$id", res.GetResource(func(r res.GetRequest) { r.Model(map[string]string{"id": r.PathParam("id")}) }))
	run, err := svc.Start(s)
	if err != nil {
		return "start-failed"
	}
	release := make(chan struct{})
	var busy sync.WaitGroup
	busy.Add(workers)
	for i := 0; i < workers; i++ {
		s.With("svc.item.a"+strconv.Itoa(i), func(res.Resource) { busy.Done(); <-release })
	}
	busy.Wait()
	s.With("svc.item.b", func(res.Resource) {}) // waits in the shared queue
	sd := make(chan struct{})
	go func() { s.Shutdown(); close(sd) }()
	time.Sleep(5 * time.Millisecond)
	close(release)
	select {
	case <-sd:
	case <-time.After(5 * time.Second):
		return "shutdown-hung"
	}
	<-run.Done
	run, err = svc.Start(s)
	if err != nil {
		return "restart-failed"
	}
	defer run.Stop()
	answered := 0
	for _, id := range []string{"a0", "b", "c"} {
		if _, ok := run.Request("get.svc.item."+id, nil, 1500); ok {
			answered++
		}
	}
	return fmt.Sprintf("restart sent=3 answered=%d", answered)
}

func (reqloadDom) Exec(a []string) string {
	return Safe(func() string {
		if len(a) == 2 && a[0] == "restart" {
			n, _ := strconv.Atoi(a[1])
			return reqRestart(n)
		}
		if len(a) < 8 || a[0] != "load" {
			return "bad-op"
		}
		atoi := func(s string) int { n, _ := strconv.Atoi(s); return n }
		workers, inch, nres, nreq, block, senders, seed := atoi(a[1]), atoi(a[2]), atoi(a[3]), atoi(a[4]), a[5] == "T", atoi(a[6]), atoi(a[7])
		s := res.NewService("svc")
		s.SetLogger(svc.NopLogger{})
		s.SetWorkerCount(workers)
		s.SetInChannelSize(inch)
		release := make(chan struct{})
		blocked := make(chan struct{})
		var once sync.Once
		s.Handle("item.$id",
			res.GetResource(func(r res.GetRequest) { r.Model(map[string]string{"id": r.PathParam("id")}) }),
			res.Call("do", func(r res.CallRequest) { r.OK(nil) }),
			res.Call("none", func(r res.CallRequest) {}),
			res.Call("panic", func(r res.CallRequest) { panic("boom") }),
		)
		s.Handle("block", res.Call("wait", func(r res.CallRequest) {
			once.Do(func() { close(blocked) })
			<-release
			r.OK(nil)
		}))
		run, err := svc.Start(s)
		if err != nil {
			return "start-failed"
		}
		defer run.Stop()
		var mu sync.Mutex
		got := map[string]int{}
		run.C.OnPub = func(p recconn.Pub) {
			if strings.HasPrefix(p.Subject, "_INBOX.L") && !svc.IsPre(p.Data) {
				mu.Lock()
				got[p.Subject]++
				mu.Unlock()
			}
		}
		total := 0
		if block {
			run.C.Deliver("call.svc.block.wait", "_INBOX.Lblock", nil)
			total++
			select {
			case <-blocked:
			case <-time.After(5 * time.Second):
				return "block-not-started"
			}
		}
		g := gen.New(uint64(seed))
		type reqT struct{ subj, reply string }
		var reqs []reqT
		for i := 0; i < nreq; i++ {
			id := g.Intn(nres)
			var subj string
			switch g.Intn(5) {
			case 0:
				subj = fmt.Sprintf("get.svc.item.%d", id)
			case 1:
				subj = fmt.Sprintf("call.svc.item.%d.none", id)
			case 2:
				subj = fmt.Sprintf("call.svc.item.%d.panic", id)
			case 3:
				subj = fmt.Sprintf("get.svc.missing.%d", id)
			default:
				subj = fmt.Sprintf("call.svc.item.%d.do", id)
			}
			reqs = append(reqs, reqT{subj, fmt.Sprintf("_INBOX.L%d", i)})
		}
		total += len(reqs)
		var wg sync.WaitGroup
		for k := 0; k < senders; k++ {
			wg.Add(1)
			go func(k int) {
				defer wg.Done()
				for i := k; i < len(reqs); i += senders {
					run.C.Deliver(reqs[i].subj, reqs[i].reply, nil)
				}
			}(k)
		}
		// deliveries block once the in-channel is full and the listener is busy; release the
		// blocked worker after a moment so that a queue has built up
		time.Sleep(2 * time.Millisecond)
		close(release)
		wg.Wait()
		deadline := time.Now().Add(3 * time.Second)
		for {
			mu.Lock()
			n := len(got)
			mu.Unlock()
			if n >= total || time.Now().After(deadline) {
				break
			}
			time.Sleep(500 * time.Microsecond)
		}
		time.Sleep(2 * time.Millisecond) // late duplicates
		mu.Lock()
		defer mu.Unlock()
		dup := 0
		for _, c := range got {
			if c > 1 {
				dup++
			}
		}
		return fmt.Sprintf("sent=%d answered=%d dup=%d", total, len(got), dup)
	})
}
