// Package dom holds the correspondence domains: for each modelled part of
// go-res a generator of operation lines and an executor that runs one
// operation on the real code and renders its canonical outcome.
package dom

import (
	"fmt"
	"sort"

	"verif/harness/internal/gen"
)

// Domain is one modelled part of go-res.
type Domain interface {
	// Gen emits operation lines (already wire-encoded).
	Gen(r *gen.R, tier string, emit func(line string))
	// Exec runs one decoded operation on the implementation.
	Exec(args []string) string
}

var registry = map[string]func() Domain{}

// Register adds a domain constructor.
func Register(name string, f func() Domain) { registry[name] = f }

// Get returns a fresh domain instance.
func Get(name string) (Domain, error) {
	f, ok := registry[name]
	if !ok {
		names := make([]string, 0, len(registry))
		for n := range registry {
			names = append(names, n)
		}
		sort.Strings(names)
		return nil, fmt.Errorf("unknown domain %q (have %v)", name, names)
	}
	return f(), nil
}

// Safe runs f and renders a panic as "panic".
func Safe(f func() string) (out string) {
	defer func() {
		if v := recover(); v != nil {
			out = "panic"
		}
	}()
	return f()
}
