package dom

import (
	"encoding/json"
	"errors"
	"fmt"
	"runtime"
	"strconv"
	"strings"
	"sync"
	"time"

	res "github.com/jirenius/go-res"
	"verif/harness/internal/gen"
	"verif/harness/internal/recconn"
	"verif/harness/internal/svc"
	"verif/harness/internal/wire"
)

// qe: the life of one query event on a real service (C15).

const qeDuration = 400 * time.Millisecond // long enough that a slow machine still delivers a block of requests inside it

type qeDom struct {
	run      *svc.Runner
	subject  string
	mu       sync.Mutex
	script   []string
	cbCalls  int
	nilCalls int
	nilCh    chan struct{}
	seq      int
}

func init() { Register("qe", func() Domain { return &qeDom{} }) }

func (d *qeDom) Close() {
	if d.run != nil {
		d.run.Stop()
		d.run = nil
	}
}

var qeActs = []string{"model:T", "model:F", "collection:T", "collection:F", "change:2:T", "change:1:F", "change:0:T", "add:0:T", "add:1:F", "add:-1:T",
	"remove:0", "remove:-1", "notFound", "invalidQuery:T", "invalidQuery:F", "error:R:custom.code", "error:G", "timeout:100", "timeout:-1",
	"panic:R:custom.code", "panic:G", "panic:S", "panic:O"}

func (d *qeDom) Gen(r *gen.R, tier string, emit func(string)) {
	blocks := 30
	if tier == "thorough" {
		blocks = 400
	}
	genReq := func(op string) {
		p := r.Pick([]string{"o", "o", "o", "o", "e", "b", "n", "t", "u", "w"})
		args := []string{op, p}
		n := r.Intn(4)
		for i := 0; i < n; i++ {
			args = append(args, r.Pick(qeActs))
		}
		emit(wire.Line(args...))
	}
	// the two ways a subscription fails, for every resource type (always, whatever the seed)
	for _, op := range []string{"startfail", "startstopped"} {
		for _, typ := range []string{"0", "1", "2"} {
			emit(wire.Line("reset"))
			emit(wire.Line(op, typ))
		}
	}
	for b := 0; b < blocks; b++ {
		emit(wire.Line("reset"))
		typ := strconv.Itoa(r.Intn(3))
		if r.Chance(1, 8) {
			emit(wire.Line(r.Pick([]string{"startfail", "startstopped"}), typ))
			continue
		}
		emit(wire.Line("start", typ))
		for k := r.Intn(7); k > 0; k-- {
			genReq("req")
		}
		emit(wire.Line("expire"))
		for k := r.Intn(3); k > 0; k-- {
			genReq("late")
		}
	}
	// scenarios with two callbacks in flight
	nscen := 3
	if tier == "thorough" {
		nscen = 12
	}
	for i := 0; i < nscen; i++ {
		emit(wire.Line("reset"))
		emit(wire.Line("serial", strconv.Itoa(1+i%3)))
		emit(wire.Line("reset"))
		emit(wire.Line("queued", strconv.Itoa(1+i%3)))
		emit(wire.Line("reset"))
		emit(wire.Line("lateenq", strconv.Itoa(1+i%3)))
		emit(wire.Line("reset"))
		emit(wire.Line("burst", strconv.Itoa(1+i%3)))
		emit(wire.Line("reset"))
		emit(wire.Line("pubfail", strconv.Itoa(1+i)))
		emit(wire.Line("reset"))
		emit(wire.Line("shutdownlive", strconv.Itoa(1+2*i)))
		emit(wire.Line("reset"))
		emit(wire.Line("restartdur", "0"))
	}
	emit(wire.Line("reset"))
}

func countListeners() int {
	buf := make([]byte, 1<<20)
	n := runtime.Stack(buf, true)
	return strings.Count(string(buf[:n]), "startQueryListener")
}

// settledListeners counts the query listener goroutines once they have had time to end: the
// goroutine of an expired query event ends a moment after the nil callback (on a loaded machine,
// many milliseconds after); one that is still there after two seconds is a leak.
func settledListeners() int {
	n := countListeners()
	for dl := time.Now().Add(2 * time.Second); n > 0 && time.Now().Before(dl); n = countListeners() {
		time.Sleep(2 * time.Millisecond)
	}
	return n
}

func (d *qeDom) cb(r res.QueryRequest) {
	if r == nil {
		d.mu.Lock()
		d.nilCalls++
		ch := d.nilCh
		d.mu.Unlock()
		if ch != nil {
			select {
			case ch <- struct{}{}:
			default:
			}
		}
		return
	}
	d.mu.Lock()
	d.cbCalls++
	script := d.script
	d.mu.Unlock()
	for _, a := range script {
		f := strings.Split(a, ":")
		val := func(ok string) interface{} {
			if ok == "T" {
				return json.RawMessage(`{"a":1}`)
			}
			return make(chan int)
		}
		switch f[0] {
		case "model":
			r.Model(val(f[1]))
		case "collection":
			if f[1] == "T" {
				r.Collection(json.RawMessage(`[1]`))
			} else {
				r.Collection(make(chan int))
			}
		case "change":
			n, _ := strconv.Atoi(f[1])
			m := map[string]interface{}{}
			for i := 0; i < n; i++ {
				if f[2] == "T" {
					m["k"+strconv.Itoa(i)] = i
				} else {
					m["k"+strconv.Itoa(i)] = make(chan int)
				}
			}
			r.ChangeEvent(m)
		case "add":
			i, _ := strconv.Atoi(f[1])
			if f[2] == "T" {
				r.AddEvent(1, i)
			} else {
				r.AddEvent(make(chan int), i)
			}
		case "remove":
			i, _ := strconv.Atoi(f[1])
			r.RemoveEvent(i)
		case "notFound":
			r.NotFound()
		case "invalidQuery":
			if f[1] == "T" {
				r.InvalidQuery("Custom \"quoted\" back\\slash\nnewline") // a message that needs JSON escaping
			} else {
				r.InvalidQuery("")
			}
		case "error":
			if f[1] == "R" {
				r.Error(&res.Error{Code: f[2], Message: "m \"q\" \\ \t"})
			} else {
				r.Error(errors.New("plain"))
			}
		case "timeout":
			ms, _ := strconv.Atoi(f[1])
			r.Timeout(time.Duration(ms) * time.Millisecond)
		case "panic":
			switch f[1] {
			case "R":
				panic(&res.Error{Code: f[2], Message: "m"})
			case "G":
				panic(errors.New("plain"))
			case "S":
				panic("str")
			default:
				panic(42)
			}
		}
	}
}

func classReply(data []byte) string {
	s := string(data)
	if strings.HasPrefix(s, `timeout:"`) {
		return "pre:" + strings.TrimSuffix(strings.TrimPrefix(s, `timeout:"`), `"`)
	}
	var r struct {
		Result *struct {
			Events     *[]json.RawMessage `json:"events"`
			Model      json.RawMessage    `json:"model"`
			Collection json.RawMessage    `json:"collection"`
		} `json:"result"`
		Error *struct {
			Code string `json:"code"`
		} `json:"error"`
	}
	if json.Unmarshal(data, &r) != nil {
		return "garbage"
	}
	switch {
	case r.Error != nil:
		return "error:" + wire.Enc(r.Error.Code)
	case r.Result == nil:
		return "garbage"
	case r.Result.Events != nil:
		return "events:" + strconv.Itoa(len(*r.Result.Events))
	case r.Result.Model != nil:
		return "model"
	case r.Result.Collection != nil:
		return "collection"
	}
	return "garbage"
}

// send delivers a query request and collects everything published on its reply subject.
func (d *qeDom) send(payload string, script []string, waitMs int) (string, int) {
	d.mu.Lock()
	d.script = script
	before := d.cbCalls
	d.seq++
	reply := fmt.Sprintf("_INBOX.q%d", d.seq)
	d.mu.Unlock()
	var data []byte
	switch payload {
	case "b":
		data = []byte(`{"query":`)
	case "n":
		data = []byte(`{"query":""}`)
	case "o":
		data = []byte(`{"query":"a=1"}`)
	case "t": // a well-formed object followed by garbage: not JSON
		data = []byte(`{"query":"a=1"}]`)
	case "u": // two values
		data = []byte(`{"query":"a=1"} {"query":"a=2"}`)
	case "w": // surrounding whitespace is fine
		data = []byte(" {\"query\":\"a=1\"}\n")
	}
	from := d.run.C.NumPubs()
	if d.run.C.Deliver(d.subject, reply, data) == 0 {
		return "not-delivered", 0
	}
	// wait for a response (not a pre-response), then a little for anything further
	_, _, ok := d.run.C.WaitPub(from, func(p recconn.Pub) bool { return p.Subject == reply && !svc.IsPre(p.Data) }, waitMs)
	if ok {
		time.Sleep(2 * time.Millisecond)
	}
	_, pubs := d.run.C.Snapshot()
	var out []string
	for _, p := range pubs[from:] {
		if p.Subject == reply {
			out = append(out, classReply(p.Data))
		}
	}
	d.mu.Lock()
	delta := d.cbCalls - before
	d.mu.Unlock()
	if len(out) == 0 {
		return "-", delta
	}
	return strings.Join(out, ";"), delta
}

func (d *qeDom) Exec(a []string) string {
	return Safe(func() string {
		if len(a) == 0 {
			return "bad-op"
		}
		switch a[0] {
		case "reset":
			d.Close()
			return "ok"
		case "startstopped":
			// a Resource obtained while the service ran, used for a query event after its Shutdown
			d.Close()
			d.cbCalls, d.nilCalls = 0, 0
			d.nilCh = make(chan struct{}, 4)
			s := res.NewService("svc")
			s.SetLogger(svc.NopLogger{})
			s.SetQueryEventDuration(30 * time.Millisecond)
			opts := []res.Option{res.GetResource(func(r res.GetRequest) { r.NotFound() })}
			switch a[1] {
			case "1":
				opts = append(opts, res.Model)
			case "2":
				opts = append(opts, res.Collection)
			}
			s.Handle("q", opts...)
			run, err := svc.Start(s)
			if err != nil {
				return "start-failed"
			}
			held := make(chan res.Resource, 1)
			if err := s.With("svc.q", func(r res.Resource) { held <- r }); err != nil {
				run.Stop()
				return "with-failed"
			}
			hr := <-held
			// Shutdown itself must have returned (Serve returns a little earlier, while the
			// connection field is still set)
			sd := make(chan struct{})
			go func() { s.Shutdown(); close(sd) }()
			select {
			case <-sd:
			case <-time.After(10 * time.Second):
				return "hang-shutdown"
			}
			<-run.Done
			from := run.C.NumPubs()
			hr.QueryEvent(d.cb)
			time.Sleep(100 * time.Millisecond) // several durations: a second or a late nil call would show
			ls := settledListeners()
			d.mu.Lock()
			defer d.mu.Unlock()
			return fmt.Sprintf("nil=%d pubs=%d listener=%d", d.nilCalls, run.C.NumPubs()-from, ls)
		case "start", "startfail":
			d.Close()
			d.cbCalls, d.nilCalls = 0, 0
			d.nilCh = make(chan struct{}, 4)
			s := res.NewService("svc")
			s.SetLogger(svc.NopLogger{})
			s.SetWorkerCount(2)
			s.SetQueryEventDuration(qeDuration)
			opts := []res.Option{res.GetResource(func(r res.GetRequest) { r.NotFound() })}
			switch a[1] {
			case "1":
				opts = append(opts, res.Model)
			case "2":
				opts = append(opts, res.Collection)
			}
			s.Handle("q", opts...)
			run, err := svc.Start(s)
			if err != nil {
				return "start-failed"
			}
			d.run = run
			if a[0] == "startfail" {
				// the next subscription (the query inbox) fails
				subs, _ := run.C.Snapshot()
				run.C.FailNext(len(subs))
			}
			from := run.C.NumPubs()
			done := make(chan struct{})
			if err := s.With("svc.q", func(r res.Resource) { r.QueryEvent(d.cb); close(done) }); err != nil {
				return "with-failed"
			}
			<-done
			_, pubs := run.C.Snapshot()
			d.subject = ""
			npub := 0
			for _, p := range pubs[from:] {
				npub++
				if p.Subject == "event.svc.q.query" {
					var ev struct {
						Subject string `json:"subject"`
					}
					json.Unmarshal(p.Data, &ev)
					d.subject = ev.Subject
				}
			}
			if a[0] == "startfail" {
				ls := settledListeners()
				d.mu.Lock()
				defer d.mu.Unlock()
				return fmt.Sprintf("nil=%d pubs=%d listener=%d", d.nilCalls, npub, ls)
			}
			if d.subject == "" {
				return "no-query-subject"
			}
			return "ok"
		case "serial", "queued", "lateenq", "burst", "pubfail", "shutdownlive", "restartdur":
			d.Close()
			return qeScenario(a)
		case "req":
			out, _ := d.send(a[1], a[2:], 6000)
			return out
		case "late":
			out, delta := d.send(a[1], a[2:], 30)
			return fmt.Sprintf("replies=%s cb=+%d", out, delta)
		case "expire":
			select {
			case <-d.nilCh:
			case <-time.After(3 * time.Second):
			}
			ls := settledListeners() // let the listener goroutine finish
			d.mu.Lock()
			defer d.mu.Unlock()
			return fmt.Sprintf("nil=%d cb=%d listener=%d", d.nilCalls, d.cbCalls, ls)
		}
		return "bad-op"
	})
}
