package dom

import (
	"encoding/json"
	"errors"
	"fmt"
	"sort"
	"strconv"
	"strings"
	"sync"
	"time"

	res "github.com/jirenius/go-res"
	"github.com/jirenius/go-res/store"
	"github.com/jirenius/go-res/store/mockstore"
	"verif/harness/internal/gen"
	"verif/harness/internal/recconn"
	"verif/harness/internal/svc"
	"verif/harness/internal/wire"
)

type storeDom struct {
	run   *svc.Runner
	st    *mockstore.Store
	model bool
	trans bool
}

func init() { Register("store", func() Domain { return &storeDom{} }) }

var storeElems = []string{`1`, `2`, `3`, `"a"`, `"b"`, `null`, `true`, `{"rid":"x.y"}`, `{"rid":"x.y","soft":true}`, `{"rid":"x.~y!"}`, `{"rid":"~.!","soft":true}`, `{"data":{"a":1}}`, `{"data":[1,2]}`, `"with space"`, `"q\"uote"`, `1.5`}
var storeKeys = []string{"a", "b", "c", "k.d", "e f"}

func genColl(r *gen.R, maxn int, pool []string) []string {
	n := r.Intn(maxn + 1)
	out := []string{strconv.Itoa(n)}
	for i := 0; i < n; i++ {
		out = append(out, r.Pick(pool))
	}
	return out
}

func genModel(r *gen.R, maxn int) []string {
	perm := append([]string{}, storeKeys...)
	for i := range perm {
		j := i + r.Intn(len(perm)-i)
		perm[i], perm[j] = perm[j], perm[i]
	}
	n := r.Intn(maxn + 1)
	if n > len(perm) {
		n = len(perm)
	}
	out := []string{strconv.Itoa(n)}
	for i := 0; i < n; i++ {
		out = append(out, perm[i], r.Pick(storeElems[:8]))
	}
	return out
}

// a collection derived from another by a few edits, so diffs are interesting
func mutateColl(r *gen.R, c []string, pool []string) []string {
	els := append([]string{}, c[1:]...)
	k := 1 + r.Intn(3)
	for i := 0; i < k; i++ {
		switch r.Intn(4) {
		case 0:
			if len(els) > 0 {
				p := r.Intn(len(els))
				els = append(els[:p], els[p+1:]...)
			}
		case 1:
			p := r.Intn(len(els) + 1)
			els = append(els[:p], append([]string{r.Pick(pool)}, els[p:]...)...)
		case 2:
			if len(els) > 1 {
				p, q := r.Intn(len(els)), r.Intn(len(els))
				els[p], els[q] = els[q], els[p]
			}
		default:
			if len(els) > 0 {
				els[r.Intn(len(els))] = r.Pick(pool)
			}
		}
	}
	return append([]string{strconv.Itoa(len(els))}, els...)
}

func (d *storeDom) Gen(r *gen.R, tier string, emit func(string)) {
	ridOf := func(trans bool, id string) string {
		if trans {
			return "svc.item." + id
		}
		return id
	}
	idOf := func(trans bool, k string) string {
		if trans {
			return k
		}
		return "svc.item." + k
	}
	// 1. exhaustive pairs of short collections over 3 values: create a, get, update b, get
	maxl := 4
	if tier == "thorough" {
		maxl = 5
	}
	var lists [][]string
	var rec func(cur []string)
	rec = func(cur []string) {
		lists = append(lists, append([]string{strconv.Itoa(len(cur))}, cur...))
		if len(cur) == maxl {
			return
		}
		for _, e := range []string{`1`, `2`, `"a"`} {
			rec(append(append([]string{}, cur...), e))
		}
	}
	rec(nil)
	emit(wire.Line("reset"))
	emit(wire.Line("cfg", "coll", "T", "N"))
	n := 0
	for _, a := range lists {
		for _, b := range lists {
			if tier != "thorough" || true {
				if n%32 == 0 && n > 0 {
					emit(wire.Line("reset"))
					emit(wire.Line("cfg", "coll", "T", "N"))
				}
				id := "p" + strconv.Itoa(n)
				n++
				emit(wire.Line(append([]string{"create", id}, a...)...))
				emit(wire.Line("get", ridOf(true, id)))
				emit(wire.Line(append([]string{"update", id}, b...)...))
				emit(wire.Line("get", ridOf(true, id)))
			}
		}
		if n > 400000 {
			break
		}
	}
	emit(wire.Line("reset"))
	emit(wire.Line("getrace", "model"))
	emit(wire.Line("getrace", "coll"))
	// 2. random histories over 3 ids, all handler configurations
	blocks := 400
	if tier == "thorough" {
		blocks = 8000
	}
	for b := 0; b < blocks; b++ {
		emit(wire.Line("reset"))
		model := r.Bool()
		tkind := r.Pick([]string{"F", "T", "X", "X", "H"})
		trans := tkind != "F" && tkind != "H"
		typ := "coll"
		if model {
			typ = "model"
		}
		pool := storeElems
		if r.Bool() {
			pool = storeElems[:3]
		}
		if tkind == "H" {
			// values the transformer hides (Transform fails with not-found): collections holding "H", models with key h
			pool = append(append([]string{}, pool[:3]...), `"H"`)
		}
		cfg := []string{"cfg", typ, tkind}
		if r.Bool() {
			cfg = append(cfg, "D")
			if model {
				cfg = append(cfg, genModel(r, 3)...)
			} else {
				cfg = append(cfg, genColl(r, 3, pool)...)
			}
		} else {
			cfg = append(cfg, "N")
		}
		emit(wire.Line(cfg...))
		keys := []string{"x", "y", "z"}
		cur := map[string][]string{}
		for _, k := range keys {
			emit(wire.Line("get", ridOf(trans, idOf(trans, k))))
		}
		steps := 3 + r.Intn(18)
		for i := 0; i < steps; i++ {
			k := r.Pick(keys)
			id := idOf(trans, k)
			var val []string
			if model {
				val = genModel(r, 4)
				if tkind == "H" && r.Chance(1, 3) {
					n, _ := strconv.Atoi(val[0])
					val = append([]string{strconv.Itoa(n + 1)}, append(val[1:], "h", "1")...)
				}
			} else if c, ok := cur[k]; ok && r.Chance(3, 4) {
				val = mutateColl(r, c, pool)
			} else {
				val = genColl(r, 6, pool)
			}
			_, exists := cur[k]
			switch x := r.Intn(10); {
			case x < 2 || (!exists && x < 6):
				emit(wire.Line(append([]string{"create", id}, val...)...))
				if !exists {
					cur[k] = val
				}
			case x < 8:
				if exists && r.Chance(1, 8) {
					val = cur[k] // no change in representation
				}
				emit(wire.Line(append([]string{"update", id}, val...)...))
				if exists {
					cur[k] = val
				}
			default:
				emit(wire.Line("delete", id))
				delete(cur, k)
			}
			emit(wire.Line("get", ridOf(trans, id)))
			if r.Chance(1, 4) {
				emit(wire.Line("get", ridOf(trans, idOf(trans, r.Pick(keys)))))
			}
		}
	}
}

// storeGetRace: a get request is being answered (its Transform is still running) while the
// value is updated from another goroutine. The handler's read transaction must keep the writer
// out until the response is on its way: the client sees the response first, then the event.
func storeGetRace(model bool) string {
	st := mockstore.NewStore()
	var v1, v2 interface{}
	typ := res.Collection
	if model {
		typ = res.Model
		v1 = map[string]json.RawMessage{"n": json.RawMessage(`1`)}
		v2 = map[string]json.RawMessage{"n": json.RawMessage(`2`)}
	} else {
		v1 = []json.RawMessage{json.RawMessage(`1`)}
		v2 = []json.RawMessage{json.RawMessage(`1`), json.RawMessage(`2`)}
	}
	st.Add("a", v1)
	inTransform := make(chan struct{}, 4)
	proceed := make(chan struct{})
	first := true
	var mu sync.Mutex
	h := store.Handler{Store: st, Transformer: store.IDTransformer("id", func(id string, v interface{}) (interface{}, error) {
		mu.Lock()
		f := first
		first = false
		mu.Unlock()
		if f {
			inTransform <- struct{}{}
			select {
			case <-proceed:
			case <-time.After(2 * time.Second):
			}
		}
		return v, nil
	})}
	s := res.NewService("svc")
	s.SetLogger(svc.NopLogger{})
	s.Handle("item.$id", typ, h)
	run, err := svc.Start(s)
	if err != nil {
		return "start-failed"
	}
	defer run.Stop()
	from := run.C.NumPubs()
	run.C.Deliver("get.svc.item.a", "_INBOX.gr", nil)
	select {
	case <-inTransform:
	case <-time.After(2 * time.Second):
		close(proceed)
		return "transform-not-called"
	}
	updated := make(chan struct{})
	go func() {
		txn := st.Write("a")
		txn.Update(v2)
		txn.Close()
		close(updated)
	}()
	select {
	case <-updated: // the writer got through while the get was being answered
	case <-time.After(60 * time.Millisecond):
	}
	close(proceed)
	select {
	case <-updated:
	case <-time.After(3 * time.Second):
		return "update-hung"
	}
	run.C.WaitPub(from, func(p recconn.Pub) bool { return p.Subject == "_INBOX.gr" }, 2000)
	time.Sleep(5 * time.Millisecond)
	_, pubs := run.C.Snapshot()
	var order []string
	for _, p := range pubs[from:] {
		switch {
		case p.Subject == "_INBOX.gr":
			order = append(order, "response")
		case strings.HasPrefix(p.Subject, "event.svc.item.a."):
			order = append(order, "event")
		}
	}
	return "getrace order=" + strings.Join(order, ",")
}

func rawList(items []string) []json.RawMessage {
	out := make([]json.RawMessage, len(items))
	for i, s := range items {
		out[i] = json.RawMessage(s)
	}
	return out
}

func (d *storeDom) parseVal(a []string) (interface{}, []string) {
	if len(a) == 0 {
		return nil, nil
	}
	k, _ := strconv.Atoi(a[0])
	if d.model {
		m := map[string]json.RawMessage{}
		for i := 0; i < k && 2+2*i < len(a)+1; i++ {
			m[a[1+2*i]] = json.RawMessage(a[2+2*i])
		}
		return m, a[1+2*k:]
	}
	return rawList(a[1 : 1+k]), a[1+k:]
}

func compact(b []byte) string {
	var v interface{}
	if json.Unmarshal(b, &v) != nil {
		return string(b)
	}
	return string(b)
}

func renderEvents(pubs []recconn.Pub) string {
	var out []string
	for _, p := range pubs {
		if !strings.HasPrefix(p.Subject, "event.") {
			continue
		}
		rest := p.Subject[len("event."):]
		i := strings.LastIndexByte(rest, '.')
		rid, name := rest[:i], rest[i+1:]
		switch name {
		case "create", "delete":
			out = append(out, name+"@"+wire.Enc(rid))
		case "remove":
			var ev struct {
				Idx int `json:"idx"`
			}
			json.Unmarshal(p.Data, &ev)
			out = append(out, "remove@"+wire.Enc(rid)+":"+strconv.Itoa(ev.Idx))
		case "add":
			var ev struct {
				Value json.RawMessage `json:"value"`
				Idx   int             `json:"idx"`
			}
			json.Unmarshal(p.Data, &ev)
			out = append(out, "add@"+wire.Enc(rid)+":"+strconv.Itoa(ev.Idx)+":"+wire.Enc(string(ev.Value)))
		case "change":
			var ev struct {
				Values map[string]json.RawMessage `json:"values"`
			}
			json.Unmarshal(p.Data, &ev)
			keys := make([]string, 0, len(ev.Values))
			for k := range ev.Values {
				keys = append(keys, k)
			}
			sort.Strings(keys)
			var kv []string
			for _, k := range keys {
				v := string(ev.Values[k])
				if v == `{"action":"delete"}` {
					kv = append(kv, wire.Enc(k)+"=<del>")
				} else {
					kv = append(kv, wire.Enc(k)+"="+wire.Enc(v))
				}
			}
			out = append(out, "change@"+wire.Enc(rid)+":"+strings.Join(kv, ","))
		default:
			out = append(out, "other@"+wire.Enc(rid))
		}
	}
	if len(out) == 0 {
		return "-"
	}
	return strings.Join(out, ";")
}

func (d *storeDom) stop() {
	if d.run != nil {
		d.run.Stop()
		d.run = nil
	}
}

func (d *storeDom) Exec(a []string) string {
	return Safe(func() string {
		if len(a) == 0 {
			return "bad-op"
		}
		switch a[0] {
		case "reset":
			d.stop()
			return "ok"
		case "cfg":
			d.stop()
			d.model = a[1] == "model"
			d.trans = a[2] == "T" || a[2] == "X"
			d.st = mockstore.NewStore()
			// the handler reads through a store that reports a missing value with an error WRAPPING
			// store.ErrNotFound, as the store contract allows
			h := store.Handler{Store: wrapNotFoundStore{d.st}}
			if a[2] == "X" {
				// a transformer that changes the served representation
				h.Transformer = store.IDTransformer("id", func(id string, v interface{}) (interface{}, error) {
					switch x := v.(type) {
					case []json.RawMessage:
						return append([]json.RawMessage{json.RawMessage(`"T"`)}, x...), nil
					case map[string]json.RawMessage:
						m := map[string]json.RawMessage{"_t": json.RawMessage(`1`)}
						for k, e := range x {
							if k != "_t" {
								m[k] = e
							}
						}
						return m, nil
					}
					// like a real transformer, it only knows the store's value type
					return nil, errors.New("transform: unexpected value type")
				})
			} else if a[2] == "H" {
				// ids are resource ids; the transformer hides some values (as a soft-delete flag would)
				h.Transformer = store.TransformFuncs(nil, nil, func(id string, v interface{}) (interface{}, error) {
					switch x := v.(type) {
					case []json.RawMessage:
						for _, e := range x {
							if string(e) == `"H"` {
								return nil, res.ErrNotFound
							}
						}
					case map[string]json.RawMessage:
						if _, ok := x["h"]; ok {
							return nil, res.ErrNotFound
						}
					}
					return v, nil
				})
			} else if d.trans {
				h.Transformer = store.IDTransformer("id", nil)
			}
			if a[3] == "D" {
				v, _ := d.parseVal(a[4:])
				h.Default = v
			}
			s := res.NewService("svc")
			s.SetLogger(svc.NopLogger{})
			typ := res.Collection
			if d.model {
				typ = res.Model
			}
			s.Handle("item.$id", typ, h)
			run, err := svc.Start(s)
			if err != nil {
				return "start-failed"
			}
			d.run = run
			return "ok"
		case "getrace":
			return storeGetRace(a[1] == "model")
		case "create", "update", "delete":
			from := d.run.C.NumPubs()
			err, panicked := func() (err error, panicked bool) {
				txn := d.st.Write(a[1])
				defer txn.Close()
				defer func() {
					if recover() != nil {
						panicked = true
					}
				}()
				switch a[0] {
				case "create":
					v, _ := d.parseVal(a[2:])
					err = txn.Create(v)
				case "update":
					v, _ := d.parseVal(a[2:])
					err = txn.Update(v)
				default:
					err = txn.Delete()
				}
				return
			}()
			if panicked {
				_, pubs := d.run.C.Snapshot()
				return "panic evs=" + renderEvents(pubs[from:])
			}
			if err != nil {
				return "err"
			}
			_, pubs := d.run.C.Snapshot()
			return "ok evs=" + renderEvents(pubs[from:])
		case "get":
			resp, ok := d.run.Request("get."+a[1], nil, 5000)
			if !ok {
				return "noreply"
			}
			var r struct {
				Result *struct {
					Model      map[string]json.RawMessage `json:"model"`
					Collection []json.RawMessage          `json:"collection"`
				} `json:"result"`
				Error *struct {
					Code string `json:"code"`
				} `json:"error"`
			}
			if json.Unmarshal(resp, &r) != nil {
				return "badjson"
			}
			if r.Error != nil {
				return "err:" + r.Error.Code
			}
			if r.Result == nil {
				return "noresult"
			}
			if d.model {
				keys := make([]string, 0, len(r.Result.Model))
				for k := range r.Result.Model {
					keys = append(keys, k)
				}
				sort.Strings(keys)
				kv := make([]string, len(keys))
				for i, k := range keys {
					kv[i] = wire.Enc(k) + "=" + wire.Enc(string(r.Result.Model[k]))
				}
				return "model:" + strings.Join(kv, ",")
			}
			el := make([]string, len(r.Result.Collection))
			for i, e := range r.Result.Collection {
				el[i] = wire.Enc(string(e))
			}
			return "coll:" + strings.Join(el, ",")
		}
		return "bad-op"
	})
}

// wrapNotFoundStore is a store whose read transactions wrap the not-found error.
type wrapNotFoundStore struct{ *mockstore.Store }

type wrapReadTxn struct{ store.ReadTxn }

func (s wrapNotFoundStore) Read(id string) store.ReadTxn { return wrapReadTxn{s.Store.Read(id)} }

func (t wrapReadTxn) Value() (interface{}, error) {
	v, err := t.ReadTxn.Value()
	if err != nil && errors.Is(err, store.ErrNotFound) {
		return nil, fmt.Errorf("value of %q: %w", t.ID(), err)
	}
	return v, err
}
