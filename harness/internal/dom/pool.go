package dom

import (
	"encoding/json"
	"fmt"
	"runtime"
	"strconv"
	"strings"
	"sync"
	"sync/atomic"
	"time"

	res "github.com/jirenius/go-res"
	"verif/harness/internal/gen"
	"verif/harness/internal/recconn"
	"verif/harness/internal/svc"
	"verif/harness/internal/wire"
)

// The pool domain records traces of the instrumented worker pool (notes made
// by the verif hooks plus the harness' own events) under stress workloads.
// Each line "n GOID POINT WID N" is one note, in global order.

type poolDom struct{}

func init() { Register("pool", func() Domain { return poolDom{} }) }

type note struct {
	goid  int
	point string
	wid   string
	n     int
}

type recorder struct {
	mu         sync.Mutex
	notes      []note
	byRep      map[string]int         // reply subject -> callback id
	grp        map[int]string         // callback id -> group
	rgroup     map[string]string      // resource name -> group (for query expiry)
	nilIDs     map[string][]int       // resource name -> ids allocated for pending expiry callbacks
	pendingNil map[int][2]interface{} // goroutine -> (resource name, id) between the expiry note and its enqueue
	nextNil    int
	openSig    int // submissions that have enqueued a new work item and not yet returned from Signal
	qexp       int // expiry timers that have fired
}

// settled reports whether no goroutine of this workload is still inside the library between two of
// its notes (a submitter between its enqueue and the end of its Signal; an expiry timer that has not
// fired, or has fired and not yet been enqueued or refused).
func (r *recorder) settled(timers int64) bool {
	r.mu.Lock()
	defer r.mu.Unlock()
	return r.openSig == 0 && len(r.pendingNil) == 0 && int64(r.qexp) >= timers
}

func goid() int {
	var buf [64]byte
	n := runtime.Stack(buf[:], false)
	// "goroutine 123 ["
	id := 0
	for i := len("goroutine "); i < n && buf[i] >= '0' && buf[i] <= '9'; i++ {
		id = id*10 + int(buf[i]-'0')
	}
	return id
}

func (r *recorder) add(point, wid string, n int) {
	g := goid()
	r.mu.Lock()
	switch point {
	case "s.request", "s.qrequest":
		// translate the reply subject into the callback id and the group the harness expects
		id := r.byRep[wid]
		wid = r.grp[id]
		n = id
	case "s.qexpire":
		// the expiry callback of a query event on resource wid: allocate its callback id
		r.nextNil++
		id := 1000000 + r.nextNil
		rname := wid
		wid = r.rgroup[rname]
		if r.grp == nil {
			r.grp = map[int]string{}
		}
		r.grp[id] = wid
		// the id is handed to the nil callbacks of this resource in the order in which the expiry
		// callbacks are ENQUEUED (the note below is taken before that, outside the service mutex)
		if r.pendingNil == nil {
			r.pendingNil = map[int][2]interface{}{}
		}
		r.pendingNil[g] = [2]interface{}{rname, id}
		n = id
	case "s.enq.new", "s.enq.app":
		if point == "s.enq.new" {
			r.openSig++ // this goroutine still has its Signal (and the two notes around it) ahead
		}
		if pn, ok := r.pendingNil[g]; ok {
			delete(r.pendingNil, g)
			if r.nilIDs == nil {
				r.nilIDs = map[string][]int{}
			}
			r.nilIDs[pn[0].(string)] = append(r.nilIDs[pn[0].(string)], pn[1].(int))
		}
	case "s.refused", "s.refused.closed":
		delete(r.pendingNil, g)
	case "s.sigend":
		r.openSig--
	}
	if point == "s.qexpire" {
		r.qexp++
	}
	r.notes = append(r.notes, note{g, point, wid, n})
	r.mu.Unlock()
}

type poolCfg struct {
	workers, inch, groups, subs, perSub, cycles int
	shutdownMidway                              bool
	perturb                                     int // 1/perturb chance of a yield/sleep at a gate (0 = never)
	requests                                    bool
}

// The library's hook variables are set once; what they do is switched atomically, because
// goroutines of an earlier service (timers of expired query events) may still call them.
var hookNote, hookGate atomic.Value

type noteFn func(point, wid string, n int)
type gateFn func(point string)

func init() {
	res.VerifNoteFn = func(point, wid string, n int) {
		if f, _ := hookNote.Load().(noteFn); f != nil {
			f(point, wid, n)
		}
	}
	res.VerifGateFn = func(point string) {
		if f, _ := hookGate.Load().(gateFn); f != nil {
			f(point)
		}
	}
}

func setHooks(n noteFn, g gateFn) {
	hookNote.Store(n)
	hookGate.Store(g)
}

// poolHung is set once a Shutdown or Serve call did not return: further workloads would only
// pile up leaked goroutines, so generation stops there.
var poolHung int32

func runPoolWorkload(r *gen.R, c poolCfg, emit func(string)) {
	if atomic.LoadInt32(&poolHung) != 0 {
		return
	}
	rec := &recorder{byRep: map[string]int{}, grp: map[int]string{}}
	setHooks(rec.add, nil)
	var gateSeed uint64 = r.U64()
	if c.perturb > 0 {
		var ctr uint64
		setHooks(rec.add, func(point string) {
			x := atomic.AddUint64(&ctr, 0x9E3779B97F4A7C15) ^ gateSeed
			x ^= x >> 31
			if int(x%uint64(c.perturb)) == 0 {
				if x&1024 == 0 {
					runtime.Gosched()
				} else {
					time.Sleep(time.Duration(x%50) * time.Microsecond)
				}
			}
		})
	}
	defer setHooks(nil, nil)

	s := res.NewService("pool")
	s.SetLogger(svc.NopLogger{})
	s.SetWorkerCount(c.workers)
	s.SetInChannelSize(c.inch)
	s.SetQueryEventDuration(3 * time.Millisecond)
	rec.rgroup = map[string]string{}
	var started, ended int64
	var qeCreated, qeExpired int64
	var qeTimers int64 // query events whose subscription succeeded: each has a timer that fires once
	var endedQ int64   // callbacks of query requests that ended (such requests may be dropped at expiry)

	body := func(id int, seedv uint64) {
		rec.add("h.cbstart", "", id)
		atomic.AddInt64(&started, 1)
		switch seedv % 4 {
		case 0:
			runtime.Gosched()
		case 1:
			time.Sleep(time.Duration(seedv%30) * time.Microsecond)
		}
		atomic.AddInt64(&ended, 1)
		rec.add("h.cbend", "", id)
	}
	// request handlers: the callback id travels in the params
	handler := func(r res.CallRequest) {
		var p struct {
			ID int    `json:"id"`
			S  uint64 `json:"s"`
		}
		r.ParseParams(&p)
		body(p.ID, p.S)
		r.OK(nil)
	}
	// a call that starts a query event on its resource; the query callback records itself like
	// every other callback: requests carry their id in the query, the nil call takes the id the
	// recorder allocated at the expiry note
	qeHandler := func(r res.CallRequest) {
		var p struct {
			ID int    `json:"id"`
			S  uint64 `json:"s"`
		}
		r.ParseParams(&p)
		rec.add("h.cbstart", "", p.ID)
		rname := r.ResourceName()
		atomic.AddInt64(&qeCreated, 1)
		var inCall int32 = 1
		atomic.AddInt64(&qeTimers, 1)
		r.QueryEvent(func(q res.QueryRequest) {
			if q == nil && atomic.LoadInt32(&inCall) == 1 {
				atomic.AddInt64(&qeTimers, -1) // the subscription failed: nil at once, no timer
			}
			if q == nil {
				rec.mu.Lock()
				ids := rec.nilIDs[rname]
				id := 0
				if len(ids) > 0 {
					id = ids[0]
					rec.nilIDs[rname] = ids[1:]
				}
				rec.mu.Unlock()
				rec.add("h.cbstart", "", id)
				rec.add("h.cbend", "", id)
				atomic.AddInt64(&qeExpired, 1)
				return
			}
			id, _ := strconv.Atoi(strings.TrimPrefix(q.Query(), "id="))
			body(id, uint64(id))
			atomic.AddInt64(&endedQ, 1)
		})
		atomic.StoreInt32(&inCall, 0)
		atomic.AddInt64(&ended, 1)
		rec.add("h.cbend", "", p.ID)
		r.OK(nil)
	}
	s.Handle("r.$id", res.Call("do", handler), res.Call("qe", qeHandler))
	s.Handle("g.$id", res.Call("do", handler), res.Call("qe", qeHandler), res.Group("grp.${id}"))
	s.Handle("p.$id", res.Call("do", handler), res.Parallel(true))
	s.Handle("", res.Call("do", handler)) // the root resource: its group is the service name
	// a mounted sub-mux with a wildcard pattern whose group tag sits behind the mount point
	s.Route("sub", func(m *res.Mux) {
		m.Handle("$type.$id.>", res.Group("mg.${id}"), res.Call("do", handler))
	})

	emit("reset")
	var qsubmitted int64
	nextID := 1
	var idMu sync.Mutex
	newID := func(group string) int {
		idMu.Lock()
		id := nextID
		nextID++
		idMu.Unlock()
		rec.mu.Lock()
		rec.grp[id] = group
		rec.mu.Unlock()
		return id
	}
	for cycle := 0; cycle < c.cycles; cycle++ {
		conn := recconn.New()
		// every query event announced on the connection gets one query request from the harness
		conn.OnPub = func(p recconn.Pub) {
			if !strings.HasPrefix(p.Subject, "event.pool.") || !strings.HasSuffix(p.Subject, ".query") {
				return
			}
			var ev struct {
				Subject string `json:"subject"`
			}
			if json.Unmarshal(p.Data, &ev) != nil || ev.Subject == "" {
				return
			}
			rname := strings.TrimSuffix(strings.TrimPrefix(p.Subject, "event."), ".query")
			go func() {
				rec.mu.Lock()
				group := rec.rgroup[rname]
				rec.mu.Unlock()
				id := newID(group)
				reply := fmt.Sprintf("_INBOX.pq%d", id)
				rec.mu.Lock()
				rec.byRep[reply] = id
				rec.mu.Unlock()
				atomic.AddInt64(&qsubmitted, 1)
				if conn.Deliver(ev.Subject, reply, []byte(fmt.Sprintf(`{"query":"id=%d"}`, id))) == 0 {
					atomic.AddInt64(&qsubmitted, -1)
				}
			}()
		}
		served := make(chan struct{})
		s.SetOnServe(func(*res.Service) { close(served) })
		serveDone := make(chan error, 1)
		go func() { serveDone <- s.Serve(conn) }()
		select {
		case <-served:
		case <-time.After(10 * time.Second):
			rec.add("h.serve.hung", "", 0)
			atomic.StoreInt32(&poolHung, 1)
			flushNotes(rec, emit)
			return
		}
		var wg sync.WaitGroup
		var submitted int64
		atomic.StoreInt64(&ended, 0)
		atomic.StoreInt64(&endedQ, 0)
		atomic.StoreInt64(&qsubmitted, 0)
		atomic.StoreInt64(&qeCreated, 0)
		atomic.StoreInt64(&qeExpired, 0)
		stopSub := int32(0)
		for k := 0; k < c.subs; k++ {
			wg.Add(1)
			sr := r.Fork()
			go func(k int) {
				defer wg.Done()
				defer func() {
					if v := recover(); v != nil {
						rec.add("h.panic", fmt.Sprint(v), 0)
					}
				}()
				for i := 0; i < c.perSub; i++ {
					if atomic.LoadInt32(&stopSub) != 0 && sr.Chance(1, 3) {
						return
					}
					gi := sr.Intn(c.groups)
					kind := sr.Intn(10)
					switch {
					case c.requests && kind < 4:
						// a request message through the connection
						var subj, group string
						switch sr.Intn(7) {
						case 6:
							subj, group = fmt.Sprintf("call.pool.sub.%s.%d.%s.do", sr.Pick([]string{"a", "b"}), gi, sr.Pick([]string{"x", "y.z"})), fmt.Sprintf("mg.%d", gi)
						case 5:
							subj, group = "call.pool.do", "pool"
						case 0:
							subj, group = fmt.Sprintf("call.pool.r.%d.do", gi), fmt.Sprintf("pool.r.%d", gi)
						case 1:
							subj, group = fmt.Sprintf("call.pool.g.%d.do", gi), fmt.Sprintf("grp.%d", gi)
						case 2:
							subj, group = fmt.Sprintf("call.pool.g.%d.qe", gi), fmt.Sprintf("grp.%d", gi)
							rec.mu.Lock()
							rec.rgroup[fmt.Sprintf("pool.g.%d", gi)] = group
							rec.mu.Unlock()
						case 3:
							subj, group = fmt.Sprintf("call.pool.r.%d.qe", gi), fmt.Sprintf("pool.r.%d", gi)
							rec.mu.Lock()
							rec.rgroup[fmt.Sprintf("pool.r.%d", gi)] = group
							rec.mu.Unlock()
						default:
							subj, group = fmt.Sprintf("call.pool.p.%d.do", gi), ""
						}
						id := newID(group)
						reply := fmt.Sprintf("_INBOX.p%d", id)
						rec.mu.Lock()
						rec.byRep[reply] = id
						rec.mu.Unlock()
						atomic.AddInt64(&submitted, 1)
						conn.Deliver(subj, reply, []byte(fmt.Sprintf(`{"params":{"id":%d,"s":%d}}`, id, sr.U64()%1000)))
					default:
						group := fmt.Sprintf("grp.%d", gi)
						if kind == 9 {
							group = ""
						} else if kind == 8 {
							group = fmt.Sprintf("pool.r.%d", gi)
						}
						id := newID(group)
						sv := sr.U64()
						rec.add("h.submit", group, id)
						atomic.AddInt64(&submitted, 1)
						s.WithGroup(group, func(*res.Service) { body(id, sv) })
					}
					if sr.Chance(1, 6) {
						runtime.Gosched()
					}
				}
			}(k)
		}
		if c.shutdownMidway {
			time.Sleep(time.Duration(r.Intn(300)) * time.Microsecond)
			atomic.StoreInt32(&stopSub, 1)
		} else {
			wg.Wait()
			// wait until everything submitted has run
			deadline := time.Now().Add(10 * time.Second)
			for (atomic.LoadInt64(&ended) < atomic.LoadInt64(&submitted)+atomic.LoadInt64(&qsubmitted) ||
				atomic.LoadInt64(&qeExpired) < atomic.LoadInt64(&qeCreated)) && time.Now().Before(deadline) {
				time.Sleep(200 * time.Microsecond)
			}
			if !time.Now().Before(deadline) && atomic.LoadInt64(&ended)-atomic.LoadInt64(&endedQ) < atomic.LoadInt64(&submitted) {
				// accepted callbacks (not counting query requests, which an expiring query event may
				// drop) did not run within ten seconds: the quiescent note below makes that a
				// verdict; further workloads would each wait as long and add nothing
				defer atomic.StoreInt32(&poolHung, 1)
			}
			rec.add("h.quiescent", "", int(atomic.LoadInt64(&submitted)))
		}
		rec.add("h.shutdown.begin", "", 0)
		sdDone := make(chan struct{})
		go func() { s.Shutdown(); close(sdDone) }()
		select {
		case <-sdDone:
			rec.add("h.shutdown.end", "", 0)
		case <-time.After(5 * time.Second):
			rec.add("h.shutdown.hung", "", 0)
			atomic.StoreInt32(&poolHung, 1)
			flushNotes(rec, emit)
			return
		}
		select {
		case <-serveDone:
		case <-time.After(5 * time.Second):
			rec.add("h.serve.hung", "", 0)
			atomic.StoreInt32(&poolHung, 1)
			flushNotes(rec, emit)
			return
		}
		rec.add("h.connclosed", "", conn.ClosedCount())
		wg.Wait()
	}
	// timers of query events created shortly before the last Shutdown still fire (and are refused):
	// let them do so while this workload's recorder is attached, not the next one's
	time.Sleep(10 * time.Millisecond)
	// ... and on a loaded machine a goroutine may be descheduled for longer than that between two of
	// its notes (seen: a submitter between its enqueue and the note after its Signal): wait for them
	for dl := time.Now().Add(3 * time.Second); !rec.settled(atomic.LoadInt64(&qeTimers)) && time.Now().Before(dl); {
		time.Sleep(500 * time.Microsecond)
	}
	flushNotes(rec, emit)
}

func flushNotes(rec *recorder, emit func(string)) {
	rec.mu.Lock()
	defer rec.mu.Unlock()
	for _, n := range rec.notes {
		emit(wire.Line("n", strconv.Itoa(n.goid), n.point, n.wid, strconv.Itoa(n.n)))
	}
}

func (poolDom) Gen(r *gen.R, tier string, emit func(string)) {
	traces := 60
	if tier == "thorough" {
		traces = 1500
	}
	steerAll(emit)
	workersChoices := []int{1, 1, 2, 2, 3, 4, 32}
	inchChoices := []int{1, 2, 1024}
	for t := 0; t < traces; t++ {
		c := poolCfg{
			workers:        workersChoices[r.Intn(len(workersChoices))],
			inch:           inchChoices[r.Intn(len(inchChoices))],
			groups:         1 + r.Intn(4),
			subs:           1 + r.Intn(5),
			perSub:         5 + r.Intn(40),
			cycles:         1 + r.Intn(3),
			shutdownMidway: r.Chance(1, 3),
			requests:       r.Chance(2, 3),
		}
		if r.Chance(2, 3) {
			c.perturb = 2 + r.Intn(20)
		}
		runPoolWorkload(r.Fork(), c, emit)
	}
}

func (poolDom) Exec(a []string) string {
	// traces are observations, not operations: a replay re-validates the recorded history
	return "ok"
}
