package dom

import (
	"errors"
	"fmt"
	"strings"
	"sync/atomic"
	"time"

	res "github.com/jirenius/go-res"
	"verif/harness/internal/gen"
	"verif/harness/internal/recconn"
	"verif/harness/internal/svc"
	"verif/harness/internal/wire"
)

// Domain getreq (C04, getrequest.go): Resource.Value() called from a call handler runs the
// resource's Get handler on an in-memory get request. The Get handler interprets a script over
// the GetRequest API; the call handler records what Value() returned and answers OK. One
// operation = one call request: the outcome is the number of responses to it and the
// (value, error) pair Value() gave.
type getreqDom struct {
	run    *svc.Runner
	hasGet bool
	script atomic.Value // []string
	seen   atomic.Value // string
}

func init() { Register("getreq", func() Domain { return &getreqDom{} }) }

var getreqVals = []string{`{"a":1}`, `[1,2]`, `null`, `"s"`, `{}`, `[]`, `{"rid":"x.y"}`}
var getreqActs = []string{"model|0", "model|1", "collection|1", "collection|5", "qmodel|0", "qcollection|1", "qmodel|2", "notFound", "invalidQuery|", "invalidQuery|bad q",
	"error|R|custom.code|Custom", "error|R|system.notFound|Gone", "error|G|plain failure", "timeout", "forvalue", "value", "requirevalue",
	"panic|R|custom.panic|P", "panic|R|system.notFound|Not found", "panic|G|boom error", "panic|S|boom string", "panic|O|42"}

func (d *getreqDom) Gen(r *gen.R, tier string, emit func(string)) {
	n := 400
	if tier == "thorough" {
		n = 6000
	}
	emit(wire.Line("reset"))
	// every single action, alone and followed by a reply, with and without a get handler
	for _, a := range getreqActs {
		emit(wire.Line("value", "T", a))
		emit(wire.Line("value", "T", a, "model|0"))
		emit(wire.Line("value", "T", "timeout", a, "error|R|late.code|late"))
	}
	emit(wire.Line("value", "T"))
	emit(wire.Line("value", "F"))
	emit(wire.Line("value", "F", "model|0"))
	for i := 0; i < n; i++ {
		args := []string{"value", "T"}
		if r.Chance(1, 12) {
			args[1] = "F"
		}
		for k := r.Intn(5); k > 0; k-- {
			args = append(args, r.Pick(getreqActs))
		}
		emit(wire.Line(args...))
	}
	emit(wire.Line("reset"))
}

func (d *getreqDom) Close() {
	if d.run != nil {
		d.run.Stop()
		d.run = nil
	}
}

func renderErr(err error) string {
	if err == nil {
		return "-"
	}
	var re *res.Error
	if e, ok := err.(*res.Error); ok {
		re = e
		return "R|" + wire.Enc(re.Code) + "|" + wire.Enc(re.Message)
	}
	return "G|" + wire.Enc(err.Error())
}

func (d *getreqDom) start(hasGet bool) error {
	d.Close()
	d.hasGet = hasGet
	s := res.NewService("svc")
	s.SetLogger(svc.NopLogger{})
	s.SetWorkerCount(2)
	opts := []res.Option{res.Call("do", func(r res.CallRequest) {
		out := "value-not-returned"
		func() {
			defer func() {
				if p := recover(); p != nil {
					out = "value-panicked:" + wire.Enc(fmt.Sprint(p))
				}
			}()
			v, err := r.Value()
			vs := "-"
			if err == nil || v != nil {
				switch x := v.(type) {
				case nil:
					vs = wire.Enc("null")
				case rawJSON:
					vs = wire.Enc(string(x))
				default:
					vs = wire.Enc(fmt.Sprintf("unexpected:%v", x))
				}
			}
			out = "v=" + vs + " err=" + renderErr(err)
		}()
		d.seen.Store(out)
		r.OK(nil)
	})}
	if hasGet {
		opts = append(opts, res.GetResource(func(r res.GetRequest) {
			sc, _ := d.script.Load().([]string)
			for _, a := range sc {
				f := strings.Split(a, "|")
				arg := func(i int) string {
					if i < len(f) {
						return f[i]
					}
					return ""
				}
				val := func() interface{} {
					var idx int
					fmt.Sscan(arg(1), &idx)
					return rawJSON(getreqVals[idx%len(getreqVals)])
				}
				switch f[0] {
				case "model":
					r.Model(val())
				case "collection":
					r.Collection(val())
				case "qmodel":
					r.QueryModel(val(), "q=1")
				case "qcollection":
					r.QueryCollection(val(), "q=1")
				case "notFound":
					r.NotFound()
				case "invalidQuery":
					r.InvalidQuery(arg(1))
				case "error":
					if arg(1) == "R" {
						r.Error(&res.Error{Code: arg(2), Message: arg(3)})
					} else {
						r.Error(errors.New(arg(2)))
					}
				case "timeout":
					r.Timeout(5 * time.Second)
				case "forvalue":
					if !r.ForValue() {
						panic("ForValue() is false on a get request made for Value()")
					}
				case "value":
					r.Value()
				case "requirevalue":
					r.RequireValue()
				case "panic":
					switch arg(1) {
					case "R":
						panic(&res.Error{Code: arg(2), Message: arg(3)})
					case "G":
						panic(errors.New(arg(2)))
					case "S":
						panic(arg(2))
					default:
						var n int
						fmt.Sscan(arg(2), &n)
						panic(n)
					}
				}
			}
		}))
	}
	s.Handle("res", opts...)
	run, err := svc.Start(s)
	if err != nil {
		return err
	}
	d.run = run
	return nil
}

type rawJSON string

func (r rawJSON) MarshalJSON() ([]byte, error) { return []byte(r), nil }

func (d *getreqDom) Exec(a []string) string {
	return Safe(func() string {
		switch a[0] {
		case "reset":
			d.Close()
			return "ok"
		case "value":
			hasGet := a[1] == "T"
			if d.run == nil || d.hasGet != hasGet {
				if err := d.start(hasGet); err != nil {
					return "start-failed"
				}
			}
			d.script.Store(append([]string(nil), a[2:]...))
			d.seen.Store("handler-not-called")
			reply := "_INBOX.gv"
			from := d.run.C.NumPubs()
			d.run.C.Deliver("call.svc.res.do", reply, []byte(`{}`))
			_, _, ok := d.run.C.WaitPub(from, func(p recconn.Pub) bool { return p.Subject == reply && !svc.IsPre(p.Data) }, 3000)
			if !ok {
				return "resp=0 " + d.seen.Load().(string)
			}
			// let a second response show itself: a probe through the same group comes back after it
			d.run.Request("call.svc.res.do", []byte(`{}`), 3000)
			_, pubs := d.run.C.Snapshot()
			n := 0
			for _, p := range pubs[from:] {
				if p.Subject == reply && !svc.IsPre(p.Data) {
					n++
				}
			}
			return fmt.Sprintf("resp=%d ", n) + d.seen.Load().(string)
		}
		return "bad-op"
	})
}
