package dom

import (
	"encoding/json"
	"errors"
	"fmt"
	"net/url"
	"os"
	"sort"
	"strconv"
	"strings"
	"sync"
	"time"

	"github.com/dgraph-io/badger"
	res "github.com/jirenius/go-res"
	"github.com/jirenius/go-res/store"
	"github.com/jirenius/go-res/store/badgerstore"
	"verif/harness/internal/gen"
	"verif/harness/internal/recconn"
	"verif/harness/internal/svc"
	"verif/harness/internal/wire"
)

// qh: store.QueryHandler over a real badgerstore QueryStore on a real service (C14, last
// sentence): a client holds results of queries on ordinary and query resources; after every
// store mutation it reacts to what the service publishes (system reset -> get again, events ->
// apply, query event -> query request with its query, then replace or apply) and must then
// hold what a fresh get serves.
//
// Two query stores: "badger" is badgerstore.QueryStore as it is (Events answers with a reset
// flag only); "diff" wraps it so that Events answers with result events computed from a shadow
// copy of the values, which exercises the event paths of the handler and the transformers.

type qhHeld struct {
	rid   string // resource name without the service prefix, e.g. "byp.a"
	query string // normalised query, "" for ordinary resources
}

type qhDom struct {
	dir    string
	db     *badger.DB
	bst    *badgerstore.Store
	qs     *badgerstore.QueryStore
	run    *svc.Runner
	held   []qhHeld
	diff   bool
	mu     sync.Mutex
	shadow map[string]idxVal // the diff store's copy of the values
}

func init() { Register("qh", func() Domain { return &qhDom{} }) }

func (d *qhDom) Close() {
	if d.run != nil {
		d.run.Stop()
		d.run = nil
	}
	if d.db != nil {
		d.db.Close()
		d.db = nil
	}
	if d.dir != "" {
		os.RemoveAll(d.dir)
		d.dir = ""
	}
	d.held = nil
}

var qhIDs = []string{"1", "2", "3", "4", "5"}
var qhKeys = []string{"a", "ab", "abc", "b", "ax", "bx", "", "a", "ab"}
var qhPrefixes = []string{"", "a", "ab", "b", "abc", "x"}

func (d *qhDom) Gen(r *gen.R, tier string, emit func(string)) {
	blocks := 60
	if tier == "thorough" {
		blocks = 600
	}
	for b := 0; b < blocks; b++ {
		emit(wire.Line("reset"))
		emit(wire.Line("start", r.Pick([]string{"badger", "diff"})))
		exists := map[string]bool{}
		mutate := func() {
			id := r.Pick(qhIDs)
			// mostly applicable mutations; one in eight is aimed at the wrong state (duplicate / missing)
			wrong := r.Chance(1, 8)
			switch {
			case exists[id] == wrong:
				emit(wire.Line("create", id, r.Pick(qhKeys), r.Pick(idxGroups)))
				if !exists[id] {
					exists[id] = true
				}
			case r.Chance(2, 3):
				emit(wire.Line("update", id, r.Pick(qhKeys), r.Pick(idxGroups)))
			default:
				emit(wire.Line("delete", id))
				delete(exists, id)
			}
		}
		// some values first
		for i := r.Intn(5); i > 0; i-- {
			mutate()
		}
		genHold := func() {
			switch r.Intn(7) {
			case 0:
				emit(wire.Line("hold", r.Pick([]string{"coll", "fixed"})))
			case 1:
				emit(wire.Line("hold", "byp."+r.Pick([]string{"a", "ab", "b", "abc", "x"})))
			case 2:
				emit(wire.Line("hold", "cbyp."+r.Pick([]string{"a", "ab", "b", "abc", "x"})))
			default:
				rid := r.Pick([]string{"qq", "qc", "qp.k", "qp.kg", "qp.e"})
				pre := r.Pick(qhPrefixes)
				if rid == "qp.kg" && r.Bool() {
					pre = r.Pick([]string{"g_", "g_a", "h_", "g"})
				}
				emit(wire.Line("hold", rid, pre, r.Pick([]string{"none", "none", "even", "hasx"}),
					r.Pick([]string{"0", "0", "0", "1", "2"}), r.Pick([]string{"-1", "-1", "-1", "1", "2", "3", "0"}), wire.Bool(r.Chance(1, 4))))
			}
		}
		for i := 1 + r.Intn(5); i > 0; i-- {
			genHold()
		}
		steps := 4 + r.Intn(14)
		for i := 0; i < steps; i++ {
			switch k := r.Intn(12); {
			case k < 10:
				mutate()
			case k < 11:
				genHold()
			default:
				emit(wire.Line("fresh"))
			}
		}
		emit(wire.Line("fresh"))
	}
	emit(wire.Line("reset"))
}

func qhIQ(qs *badgerstore.QueryStore, q url.Values) (*badgerstore.IndexQuery, error) {
	ix := q.Get("idx")
	if ix == "" {
		ix = "k"
	}
	off, _ := strconv.Atoi(q.Get("offset"))
	lim := -1
	if s := q.Get("limit"); s != "" {
		lim, _ = strconv.Atoi(s)
	}
	return &badgerstore.IndexQuery{
		Index:      qs.Index(ix),
		KeyPrefix:  []byte(q.Get("prefix")),
		FilterKeys: idxFilter(q.Get("filter")),
		Offset:     off,
		Limit:      lim,
		Reverse:    q.Get("rev") == "T",
	}, nil
}

func qhNorm(q url.Values) string {
	get := func(k, def string) string {
		if v := q.Get(k); v != "" {
			return v
		}
		return def
	}
	return "idx=" + url.QueryEscape(get("idx", "k")) + "&prefix=" + url.QueryEscape(q.Get("prefix")) + "&filter=" + url.QueryEscape(get("filter", "none")) +
		"&offset=" + url.QueryEscape(get("offset", "0")) + "&limit=" + url.QueryEscape(get("limit", "-1")) + "&rev=" + url.QueryEscape(get("rev", "F"))
}

// key of a value in an index, as the indexes of the idx domain define them
func qhKey(ix string, v idxVal) ([]byte, bool) {
	switch ix {
	case "kg":
		return []byte(v.G + "_" + v.K), true
	case "e":
		if v.G == "n" {
			return nil, false
		}
		return []byte(v.K), true
	}
	if v.K == "" {
		return nil, false
	}
	return []byte(v.K), true
}

// shadowResult: the result of a query over the diff store's shadow values ("sort, filter, window")
func shadowResult(vals map[string]idxVal, q url.Values) []string {
	iq, _ := qhIQ2(q)
	type ent struct{ k, id string }
	var ents []ent
	for id, v := range vals {
		k, ok := qhKey(iq.ix, v)
		if !ok || !strings.HasPrefix(string(k), iq.pre) {
			continue
		}
		if f := idxFilter(iq.filt); f != nil && !f(k) {
			continue
		}
		ents = append(ents, ent{string(k), id})
	}
	sort.Slice(ents, func(i, j int) bool {
		if ents[i].k != ents[j].k {
			return ents[i].k < ents[j].k
		}
		return ents[i].id < ents[j].id
	})
	if iq.rev {
		for i, j := 0, len(ents)-1; i < j; i, j = i+1, j-1 {
			ents[i], ents[j] = ents[j], ents[i]
		}
	}
	out := []string{}
	if iq.lim == 0 {
		return out
	}
	for i, e := range ents {
		if i < iq.off {
			continue
		}
		if iq.lim > 0 && len(out) >= iq.lim {
			break
		}
		out = append(out, e.id)
	}
	return out
}

type qhQ struct {
	ix, pre, filt string
	off, lim      int
	rev           bool
}

func qhIQ2(q url.Values) (qhQ, error) {
	ix := q.Get("idx")
	if ix == "" {
		ix = "k"
	}
	off, _ := strconv.Atoi(q.Get("offset"))
	lim := -1
	if s := q.Get("limit"); s != "" {
		lim, _ = strconv.Atoi(s)
	}
	return qhQ{ix, q.Get("prefix"), q.Get("filter"), off, lim, q.Get("rev") == "T"}, nil
}

// diffEvents mirrors GoRes.QueryHandler.diffEvents.
func diffEvents(id string, old, new []string) []store.ResultEvent {
	if strings.Join(old, "\x00") == strings.Join(new, "\x00") && len(old) == len(new) {
		return nil
	}
	contains := func(l []string, x string) bool {
		for _, y := range l {
			if y == x {
				return true
			}
		}
		return false
	}
	cur := append([]string{}, old...)
	var evs []store.ResultEvent
	for i := 0; i < len(cur); {
		x := cur[i]
		if x == id || !contains(new, x) {
			evs = append(evs, store.ResultEvent{Name: "remove", Idx: i, Value: x})
			cur = append(cur[:i], cur[i+1:]...)
		} else {
			i++
		}
	}
	for i, x := range new {
		if i < len(cur) && cur[i] == x {
			continue
		}
		evs = append(evs, store.ResultEvent{Name: "add", Idx: i, Value: x})
		cur = append(cur[:i], append([]string{x}, cur[i:]...)...)
	}
	return evs
}

// diffQS wraps the badger query store: Events answers with result events.
type diffQS struct {
	d  *qhDom
	qs *badgerstore.QueryStore
}

type diffChange struct {
	store.QueryChange
	old, new map[string]idxVal
}

func (c diffChange) Events(q url.Values) ([]store.ResultEvent, bool, error) {
	return diffEvents(c.ID(), shadowResult(c.old, q), shadowResult(c.new, q)), false, nil
}

func (w diffQS) Query(q url.Values) (interface{}, error) { return w.qs.Query(q) }

func (w diffQS) OnQueryChange(cb func(store.QueryChange)) {
	w.qs.OnQueryChange(func(qc store.QueryChange) {
		w.d.mu.Lock()
		old := map[string]idxVal{}
		for k, v := range w.d.shadow {
			old[k] = v
		}
		// the shadow is advanced by the first wrapper callback that sees this change
		cur := map[string]idxVal{}
		for k, v := range old {
			cur[k] = v
		}
		if b := qc.Before(); b != nil {
			cur[qc.ID()] = b.(idxVal)
		} else {
			delete(cur, qc.ID())
		}
		nw := map[string]idxVal{}
		for k, v := range cur {
			nw[k] = v
		}
		if a := qc.After(); a != nil {
			nw[qc.ID()] = a.(idxVal)
		} else {
			delete(nw, qc.ID())
		}
		w.d.shadow = nw
		w.d.mu.Unlock()
		cb(diffChange{qc, cur, nw})
	})
}

func letters(s string) bool {
	if s == "" {
		return false
	}
	for _, c := range s {
		if c < 'a' || c > 'z' {
			return false
		}
	}
	return true
}

// prefixes of the K of the value before and after, as resource ids under pattern p
func qhAffectedByPrefix(p res.Pattern, qc store.QueryChange) []string {
	seen := map[string]bool{}
	var out []string
	for _, v := range []interface{}{qc.Before(), qc.After()} {
		if v == nil {
			continue
		}
		k := v.(idxVal).K
		for n := 1; n <= len(k) && n <= 3; n++ {
			pre := k[:n]
			if letters(pre) && !seen[pre] {
				seen[pre] = true
				out = append(out, string(p.ReplaceTag("p", pre)))
			}
		}
	}
	return out
}

func (d *qhDom) start(kind string) string {
	d.Close()
	d.diff = kind == "diff"
	d.shadow = map[string]idxVal{}
	dir, err := os.MkdirTemp("", "verif-qh")
	if err != nil {
		return "tempdir-failed"
	}
	d.dir = dir
	db, err := badger.Open(badger.DefaultOptions(dir).WithLogger(nil).WithSyncWrites(false).WithNumVersionsToKeep(1))
	if err != nil {
		return "badger-open-failed"
	}
	d.db = db
	d.bst = badgerstore.NewStore(db).SetType(idxVal{}).SetPrefix("v")
	d.qs = badgerstore.NewQueryStore(d.bst, qhIQ).
		AddIndex(badgerstore.Index{Name: "k", Key: func(v interface{}) []byte { k, _ := qhKey("k", v.(idxVal)); return k }}).
		AddIndex(badgerstore.Index{Name: "kg", Key: func(v interface{}) []byte { k, _ := qhKey("kg", v.(idxVal)); return k }}).
		AddIndex(badgerstore.Index{Name: "e", Key: func(v interface{}) []byte {
			k, ok := qhKey("e", v.(idxVal))
			if !ok {
				return nil
			}
			if k == nil {
				k = []byte{}
			}
			return k
		}})
	var qstore store.QueryStore = d.qs
	if d.diff {
		qstore = diffQS{d, d.qs}
	}
	toRID := func(id string) string { return "svc.item." + id }
	byPrefix := func(rname string, pp map[string]string) (url.Values, error) {
		return url.Values{"idx": {"k"}, "prefix": {pp["p"]}}, nil
	}
	queryReq := func(rname string, pp map[string]string, q url.Values) (url.Values, string, error) {
		out := url.Values{}
		for k, v := range q {
			out[k] = v
		}
		if ix, ok := pp["ix"]; ok {
			out.Set("idx", ix)
		}
		return out, qhNorm(out), nil
	}
	s := res.NewService("svc")
	s.SetLogger(svc.NopLogger{})
	s.SetQueryEventDuration(300 * time.Millisecond)
	s.Handle("coll", res.Collection, store.QueryHandler{QueryStore: qstore})
	// an ordinary resource on a static pattern whose RequestHandler supplies a fixed, non-default query
	s.Handle("fixed", res.Collection, store.QueryHandler{QueryStore: qstore, RequestHandler: func(string, map[string]string) (url.Values, error) {
		return url.Values{"idx": {"kg"}, "prefix": {"g_"}, "rev": {"T"}}, nil
	}})
	s.Handle("byp.$p", res.Model, store.QueryHandler{QueryStore: qstore, RequestHandler: byPrefix,
		Transformer: store.IDToRIDModelTransformer(toRID), AffectedResources: qhAffectedByPrefix})
	s.Handle("cbyp.$p", res.Collection, store.QueryHandler{QueryStore: qstore, RequestHandler: byPrefix,
		Transformer: store.IDToRIDCollectionTransformer(toRID), AffectedResources: qhAffectedByPrefix})
	s.Handle("qq", res.Collection, store.QueryHandler{QueryStore: qstore, QueryRequestHandler: queryReq})
	s.Handle("qc", res.Collection, store.QueryHandler{QueryStore: qstore, QueryRequestHandler: queryReq,
		Transformer: store.IDToRIDCollectionTransformer(toRID)})
	s.Handle("qp.$ix", res.Model, store.QueryHandler{QueryStore: qstore, QueryRequestHandler: queryReq,
		Transformer: store.IDToRIDModelTransformer(toRID),
		AffectedResources: func(p res.Pattern, qc store.QueryChange) []string {
			return []string{"svc.qp.k", "svc.qp.kg", "svc.qp.e"}
		}})
	run, err := svc.Start(s)
	if err != nil {
		return "start-failed"
	}
	d.run = run
	return "ok"
}

func renderVal(v interface{}) string {
	switch x := v.(type) {
	case string:
		return x
	case map[string]interface{}:
		if rid, ok := x["rid"].(string); ok {
			return "@" + rid
		}
		if a, ok := x["action"].(string); ok && a == "delete" {
			return "~"
		}
	}
	b, _ := json.Marshal(v)
	return "?" + string(b)
}

func renderContent(result map[string]json.RawMessage) string {
	if raw, ok := result["collection"]; ok {
		var l []interface{}
		if json.Unmarshal(raw, &l) != nil {
			return "garbage"
		}
		out := make([]string, len(l))
		for i, v := range l {
			out[i] = wire.Enc(renderVal(v))
		}
		return "c" + strings.Join(out, ",")
	}
	if raw, ok := result["model"]; ok {
		var m map[string]interface{}
		if json.Unmarshal(raw, &m) != nil {
			return "garbage"
		}
		keys := make([]string, 0, len(m))
		for k := range m {
			keys = append(keys, k)
		}
		sort.Strings(keys)
		out := make([]string, len(keys))
		for i, k := range keys {
			out[i] = wire.Enc(k) + "=" + wire.Enc(renderVal(m[k]))
		}
		return "m" + strings.Join(out, ",")
	}
	return "garbage"
}

func renderEvent(name string, data []byte) string {
	switch name {
	case "add":
		var e struct {
			Value interface{} `json:"value"`
			Idx   int         `json:"idx"`
		}
		json.Unmarshal(data, &e)
		return "add@" + strconv.Itoa(e.Idx) + "@" + wire.Enc(renderVal(e.Value))
	case "remove":
		var e struct {
			Idx int `json:"idx"`
		}
		json.Unmarshal(data, &e)
		return "rm@" + strconv.Itoa(e.Idx)
	case "change":
		var e struct {
			Values map[string]interface{} `json:"values"`
		}
		json.Unmarshal(data, &e)
		keys := make([]string, 0, len(e.Values))
		for k := range e.Values {
			keys = append(keys, k)
		}
		sort.Strings(keys)
		out := make([]string, len(keys))
		for i, k := range keys {
			out[i] = wire.Enc(k) + "=" + wire.Enc(renderVal(e.Values[k]))
		}
		return "ch@" + strings.Join(out, ",")
	}
	return "other@" + wire.Enc(name)
}

// get performs the client's get request for a held resource.
func (d *qhDom) get(h qhHeld) (content string, normQuery string) {
	var payload []byte
	if h.query != "" {
		payload, _ = json.Marshal(map[string]string{"query": h.query})
	}
	resp, ok := d.run.Request("get.svc."+h.rid, payload, 5000)
	if !ok {
		return "noreply", ""
	}
	var r struct {
		Result map[string]json.RawMessage `json:"result"`
		Error  *struct {
			Code string `json:"code"`
		} `json:"error"`
	}
	if json.Unmarshal(resp, &r) != nil {
		return "badjson", ""
	}
	if r.Error != nil {
		return "err>" + wire.Enc(r.Error.Code), ""
	}
	var nq string
	if raw, ok := r.Result["query"]; ok {
		json.Unmarshal(raw, &nq)
	}
	return renderContent(r.Result), nq
}

// told works out what the client holding h learns from the publications pubs.
func (d *qhDom) told(h qhHeld, pubs []recconn.Pub) string {
	var parts []string
	var evs []string
	for _, p := range pubs {
		switch {
		case p.Subject == "system.reset":
			var sr struct {
				Resources []string `json:"resources"`
			}
			json.Unmarshal(p.Data, &sr)
			for _, pat := range sr.Resources {
				if res.Pattern(pat).Matches("svc."+h.rid) || pat == "svc."+h.rid {
					c, _ := d.get(h)
					parts = append(parts, "reset:"+c)
					break
				}
			}
		case p.Subject == "event.svc."+h.rid+".query":
			var ev struct {
				Subject string `json:"subject"`
			}
			json.Unmarshal(p.Data, &ev)
			// another client holding the resource with a different query asks first, on the same query event:
			// every query request is answered for its own query
			if dq, err := url.ParseQuery(h.query); err == nil && h.query != "" {
				if dq.Get("prefix") == "" {
					dq.Set("prefix", "a")
				} else {
					dq.Set("prefix", "")
				}
				decoy, _ := json.Marshal(map[string]string{"query": dq.Encode()})
				d.run.Request(ev.Subject, decoy, 3000)
			}
			payload, _ := json.Marshal(map[string]string{"query": h.query})
			resp, ok := d.run.Request(ev.Subject, payload, 3000)
			if !ok {
				parts = append(parts, "qnoreply")
				continue
			}
			var r struct {
				Result map[string]json.RawMessage `json:"result"`
				Error  *struct {
					Code string `json:"code"`
				} `json:"error"`
			}
			if json.Unmarshal(resp, &r) != nil {
				parts = append(parts, "qbadjson")
				continue
			}
			switch {
			case r.Error != nil:
				parts = append(parts, "qerr:"+wire.Enc(r.Error.Code))
			case r.Result["events"] != nil:
				var qevs []struct {
					Event string          `json:"event"`
					Data  json.RawMessage `json:"data"`
				}
				json.Unmarshal(r.Result["events"], &qevs)
				out := make([]string, len(qevs))
				for i, e := range qevs {
					out[i] = renderEvent(e.Event, e.Data)
				}
				parts = append(parts, "qev:"+strings.Join(out, ";"))
			default:
				parts = append(parts, "qres:"+renderContent(r.Result))
			}
		case strings.HasPrefix(p.Subject, "event.svc."+h.rid+"."):
			name := strings.TrimPrefix(p.Subject, "event.svc."+h.rid+".")
			if !strings.Contains(name, ".") {
				evs = append(evs, renderEvent(name, p.Data))
			}
		}
	}
	if len(evs) > 0 {
		parts = append(parts, "ev:"+strings.Join(evs, ";"))
	}
	if len(parts) == 0 {
		return "none"
	}
	return strings.Join(parts, "&")
}

func (d *qhDom) Exec(a []string) string {
	return Safe(func() string {
		if len(a) == 0 {
			return "bad-op"
		}
		switch a[0] {
		case "reset":
			d.Close()
			return "ok"
		case "start":
			return d.start(a[1])
		}
		if d.run == nil {
			return "not-started"
		}
		switch a[0] {
		case "hold":
			h := qhHeld{rid: a[1]}
			if len(a) >= 7 {
				q := url.Values{"prefix": {a[2]}, "filter": {a[3]}, "offset": {a[4]}, "limit": {a[5]}, "rev": {a[6]}}
				if strings.HasPrefix(a[1], "qp.") {
					q.Set("idx", strings.TrimPrefix(a[1], "qp."))
				}
				h.query = qhNorm(q)
			}
			for _, x := range d.held {
				if x == h {
					return "already-held"
				}
			}
			c, nq := d.get(h)
			if h.query != "" && nq != h.query {
				return "normalised-query-differs:" + wire.Enc(nq)
			}
			d.held = append(d.held, h)
			return "ok " + c
		case "create", "update", "delete":
			from := d.run.C.NumPubs()
			txn := d.bst.Write(a[1])
			var err error
			switch a[0] {
			case "create":
				err = txn.Create(idxVal{a[2], a[3]})
			case "update":
				err = txn.Update(idxVal{a[2], a[3]})
			default:
				err = txn.Delete()
			}
			txn.Close()
			if err != nil {
				switch {
				case errors.Is(err, store.ErrDuplicate):
					return "err:dup"
				case errors.Is(err, store.ErrNotFound):
					return "err:notfound"
				}
				return "err:other"
			}
			d.qs.Flush()
			_, pubs := d.run.C.Snapshot()
			pubs = append([]recconn.Pub{}, pubs[from:]...)
			out := make([]string, len(d.held))
			for i, h := range d.held {
				out[i] = d.told(h, pubs)
			}
			if len(out) == 0 {
				return "ok told=-"
			}
			return "ok told=" + strings.Join(out, "|")
		case "fresh":
			out := make([]string, len(d.held))
			for i, h := range d.held {
				out[i], _ = d.get(h)
			}
			if len(out) == 0 {
				return "fresh=-"
			}
			return "fresh=" + strings.Join(out, "|")
		}
		return fmt.Sprintf("bad-op")
	})
}
