package dom

import (
	"errors"
	"net/url"
	"os"
	"sort"
	"strconv"
	"strings"
	"sync"
	"sync/atomic"
	"time"

	"github.com/dgraph-io/badger"
	"github.com/jirenius/go-res/store"
	"github.com/jirenius/go-res/store/badgerstore"
	"github.com/jirenius/go-res/store/mockstore"
	"verif/harness/internal/gen"
	"verif/harness/internal/wire"
)

type idxVal struct {
	K string `json:"k"`
	G string `json:"g"`
}

type idxWatch struct{ idx, pre, filt string }

type idxDom struct {
	dir     string
	db      *badger.DB
	st      store.Store
	bst     *badgerstore.Store
	qs      *badgerstore.QueryStore
	mock    bool
	veto    bool
	mu      sync.Mutex
	cbs     []string
	qcbs    []string
	watches []idxWatch
	histDone map[string]bool
}

func init() { Register("idx", func() Domain { return &idxDom{histDone: map[string]bool{}} }) }

func (d *idxDom) Close() {
	if d.db != nil {
		d.db.Close()
		d.db = nil
	}
	if d.dir != "" {
		os.RemoveAll(d.dir)
		d.dir = ""
	}
}

func idxFilter(name string) func([]byte) bool {
	switch name {
	case "even":
		return func(k []byte) bool { return len(k)%2 == 0 }
	case "hasx":
		return func(k []byte) bool { return strings.Contains(string(k), "x") }
	}
	return nil
}

func (d *idxDom) iq(qs *badgerstore.QueryStore, q url.Values) (*badgerstore.IndexQuery, error) {
	off, _ := strconv.Atoi(q.Get("offset"))
	lim, _ := strconv.Atoi(q.Get("limit"))
	return &badgerstore.IndexQuery{
		Index:      qs.Index(q.Get("idx")),
		KeyPrefix:  []byte(q.Get("prefix")),
		FilterKeys: idxFilter(q.Get("filter")),
		Offset:     off,
		Limit:      lim,
		Reverse:    q.Get("rev") == "T",
	}, nil
}

func optVal(v interface{}) string {
	if v == nil {
		return "nil"
	}
	x := v.(idxVal)
	return wire.Enc(x.K) + "/" + wire.Enc(x.G)
}

func (d *idxDom) open(kind string) error {
	d.Close()
	d.veto = false
	d.cbs, d.qcbs, d.watches = nil, nil, nil
	d.mock = kind == "mock"
	onChange := func(id string, before, after interface{}) {
		d.mu.Lock()
		d.cbs = append(d.cbs, wire.Enc(id)+":"+optVal(before)+">"+optVal(after))
		d.mu.Unlock()
	}
	if d.mock {
		ms := mockstore.NewStore()
		ms.OnChange(onChange)
		d.st = ms
		d.bst, d.qs = nil, nil
		return nil
	}
	dir, err := os.MkdirTemp("", "verif-idx")
	if err != nil {
		return err
	}
	d.dir = dir
	opts := badger.DefaultOptions(dir).WithLogger(nil).WithSyncWrites(false).WithNumVersionsToKeep(1)
	db, err := badger.Open(opts)
	if err != nil {
		return err
	}
	d.db = db
	bst := badgerstore.NewStore(db).SetType(idxVal{})
	if kind == "badgerp" {
		bst.SetPrefix("pfx")
	}
	bst.BeforeChange(func(id string, before, after interface{}) error {
		if d.veto {
			return errors.New("veto")
		}
		return nil
	})
	bst.OnChange(onChange)
	d.bst = bst
	d.st = bst
	d.qs = badgerstore.NewQueryStore(bst, d.iq).
		AddIndex(badgerstore.Index{Name: "k", Key: func(v interface{}) []byte {
			if x := v.(idxVal); x.K != "" {
				return []byte(x.K)
			}
			return nil
		}}).
		AddIndex(badgerstore.Index{Name: "kg", Key: func(v interface{}) []byte {
			x := v.(idxVal)
			return []byte(x.G + "_" + x.K)
		}}).
		AddIndex(badgerstore.Index{Name: "e", Key: func(v interface{}) []byte {
			// always indexed, under the empty (non-nil) key when K is empty; values of group "n" are not indexed
			x := v.(idxVal)
			if x.G == "n" {
				return nil
			}
			return []byte(x.K)
		}})
	d.qs.OnQueryChange(func(qc store.QueryChange) {
		flags := ""
		for _, w := range d.watches {
			_, aff, err := qc.Events(url.Values{"idx": {w.idx}, "prefix": {w.pre}, "filter": {w.filt}, "limit": {"-1"}})
			switch {
			case err != nil:
				flags += "E"
			case aff:
				flags += "T"
			default:
				flags += "F"
			}
		}
		d.mu.Lock()
		d.qcbs = append(d.qcbs, wire.Enc(qc.ID())+":"+flags)
		d.mu.Unlock()
	})
	return nil
}

// exclusion: a transaction of kind `held` is open on an id; does a transaction of kind
// `cont` on the same (or another) id, started by another goroutine, get through before it closes?
func (d *idxDom) exclusion(held, cont string, same bool) string {
	open := func(kind, id string) interface{ Close() error } {
		if kind == "W" {
			return d.st.Write(id)
		}
		return d.st.Read(id)
	}
	id2 := "lock1"
	if !same {
		id2 = "lock2"
	}
	h := open(held, "lock1")
	acquired := make(chan struct{})
	go func() {
		t := open(cont, id2)
		close(acquired)
		t.Close()
	}()
	blocked := false
	select {
	case <-acquired:
	case <-time.After(40 * time.Millisecond):
		blocked = true
	}
	h.Close()
	select {
	case <-acquired:
	case <-time.After(3 * time.Second):
		return "never-acquired"
	}
	return "blocked:" + wire.Bool(blocked)
}

func (d *idxDom) takeCbs() string {
	d.mu.Lock()
	defer d.mu.Unlock()
	out := strings.Join(d.cbs, ";")
	d.cbs = nil
	if out == "" {
		return "-"
	}
	return out
}

func errClass(err error) string {
	switch {
	case errors.Is(err, store.ErrDuplicate):
		return "err:dup"
	case errors.Is(err, store.ErrNotFound):
		return "err:notfound"
	case strings.Contains(err.Error(), "veto"):
		return "err:veto"
	case strings.Contains(err.Error(), "is of type"):
		return "err:type"
	case strings.Contains(err.Error(), "missing ID"):
		return "err:noid"
	}
	return "err:other"
}

var idxKeys = []string{"a", "ab", "abc", "b", "x", "ax", "", "b", "a"}
var idxGroups = []string{"g", "h", "g", "n"}
var idxIDs = []string{"1", "2", "3", "4", "a.b", "s1"} // s1 is also the id Init seeds

func (d *idxDom) Gen(r *gen.R, tier string, emit func(string)) {
	blocks := 250
	if tier == "thorough" {
		blocks = 1200
	}
	prefixes := []string{"", "a", "ab", "b", "g_", "g_a", "h_", "g", "x", "abc", "abcd", "z", "a\x00", "", "a", "g_", "s"}
	for b := 0; b < blocks; b++ {
		emit(wire.Line("reset"))
		kind := r.Pick([]string{"badger", "badgerp", "badger", "mock"})
		emit(wire.Line("cfg", kind))
		keys := idxKeys
		if kind != "mock" && r.Chance(1, 12) {
			keys = append(append([]string{}, idxKeys...), "a\x00b", "a\x00")
		}
		if kind != "mock" {
			for w := 0; w < 3; w++ {
				emit(wire.Line("watch", r.Pick([]string{"k", "kg", "e"}), r.Pick(prefixes[:10]), r.Pick([]string{"none", "none", "even", "hasx"})))
			}
			if r.Bool() {
				emit(wire.Line("init"))
			}
		}
		steps := 5 + r.Intn(25)
		for i := 0; i < steps; i++ {
			id := r.Pick(idxIDs)
			switch k := r.Intn(20); {
			case k < 6:
				emit(wire.Line("create", id, r.Pick(keys), r.Pick(idxGroups)))
			case k < 11:
				emit(wire.Line("update", id, r.Pick(keys), r.Pick(idxGroups)))
			case k < 13:
				emit(wire.Line("delete", id))
			case k < 14:
				emit(wire.Line("value", id))
				emit(wire.Line("exists", id))
			case k == 14 && kind != "mock":
				emit(wire.Line("veto", "on"))
				emit(wire.Line(r.Pick([]string{"create", "update"}), id, r.Pick(keys), "g"))
				emit(wire.Line("delete", id))
				emit(wire.Line("veto", "off"))
			case k == 15 && r.Bool():
				emit(wire.Line("createbad", id))
				emit(wire.Line("create", "", "a", "g"))
			case k == 15:
				// several operations inside one write transaction
				args := []string{"txn", id}
				for n := 2 + r.Intn(5); n > 0; n-- {
					switch r.Intn(7) {
					case 0, 1:
						args = append(args, "V")
					case 2:
						args = append(args, "E")
					case 3:
						args = append(args, "C:"+r.Pick(keys)+":"+r.Pick(idxGroups))
					case 4, 5:
						args = append(args, "U:"+r.Pick(keys)+":"+r.Pick(idxGroups))
					default:
						args = append(args, "D")
					}
				}
				emit(wire.Line(args...))
			case k == 16 && kind != "mock":
				emit(wire.Line("init"))
			case k == 17 && kind != "mock":
				emit(wire.Line("flush"))
				emit(wire.Line("corrupt"))
				emit(wire.Line("rebuild"))
			default:
				if kind == "mock" {
					continue
				}
				emit(wire.Line("flush"))
				nq := 1 + r.Intn(4)
				for q := 0; q < nq; q++ {
					emit(wire.Line("query", r.Pick([]string{"k", "kg", "e"}), r.Pick(prefixes), r.Pick([]string{"none", "none", "even", "hasx"}),
						r.Pick([]string{"0", "0", "1", "2", "10"}), r.Pick([]string{"-1", "-1", "0", "1", "2", "3", "100"}), wire.Bool(r.Chance(1, 3))))
				}
			}
		}
		if r.Chance(1, 6) {
			emit(wire.Line("excl", r.Pick([]string{"R", "W"}), r.Pick([]string{"R", "W", "W"}), r.Pick([]string{"same", "same", "other"})))
		}
		if kind != "mock" {
			emit(wire.Line("flush"))
			for _, ix := range []string{"k", "kg", "e"} {
				// systematic probes: every index, prefixes that end at a key boundary (with the separator byte)
				for _, pre := range []string{"", "a", "a\x00", "ab\x00", "b\x00", "g_a\x00", "g_", "\x00"} {
					emit(wire.Line("query", ix, pre, "none", "0", "-1", "F"))
					emit(wire.Line("query", ix, pre, "none", "0", "-1", "T"))
				}
			}
			emit(wire.Line("rebuild"))
			emit(wire.Line("query", "k", "", "none", "0", "-1", "F"))
		}
	}
	// concurrent histories: goroutines contending on a few ids; the observed history (ordered by
	// stamps taken inside the transactions) is judged by the Lean side
	nh := 6
	if tier == "thorough" {
		nh = 60
	}
	for i := 0; i < nh; i++ {
		emit(wire.Line("reset"))
		kind := []string{"badger", "badgerp", "mock"}[i%3]
		emit(wire.Line("cfg", kind))
		line := d.concurrentHistory(r, kind, 2+r.Intn(5), 1+r.Intn(3))
		d.histDone[line] = true
		emit(line)
	}
	emit(wire.Line("reset"))
}

type histEv struct {
	seq    int64
	fields []string
}

// concurrentHistory runs goroutines of single-operation transactions against a fresh store
// and returns the `hist` line: the events ordered by the stamps taken inside the transactions.
func (d *idxDom) concurrentHistory(r *gen.R, kind string, goroutines, nids int) string {
	if err := d.open(kind); err != nil {
		return wire.Line("hist", kind, "open-failed")
	}
	defer d.Close()
	var ctr int64
	var mu sync.Mutex
	var evs []histEv
	rec := func(seq int64, f ...string) {
		mu.Lock()
		evs = append(evs, histEv{seq, f})
		mu.Unlock()
	}
	onChange := func(id string, before, after interface{}) {
		rec(atomic.AddInt64(&ctr, 1), "cb", id, optVal(before)+">"+optVal(after))
	}
	switch st := d.st.(type) {
	case *badgerstore.Store:
		st.OnChange(onChange)
	case *mockstore.Store:
		st.OnChange(onChange)
	}
	ids := []string{"1", "2", "3"}[:nids]
	var wg sync.WaitGroup
	for g := 0; g < goroutines; g++ {
		wg.Add(1)
		rr := r.Fork()
		go func() {
			defer wg.Done()
			for i := 0; i < 25; i++ {
				id := rr.Pick(ids)
				k, grp := rr.Pick([]string{"a", "ab", "b", ""}), rr.Pick([]string{"g", "h"})
				switch rr.Intn(8) {
				case 0, 1:
					t := d.st.Write(id)
					err := t.Create(idxVal{k, grp})
					rec(atomic.AddInt64(&ctr, 1), "op", id, "C:"+k+":"+grp, resOf(err))
					t.Close()
				case 2, 3:
					t := d.st.Write(id)
					err := t.Update(idxVal{k, grp})
					rec(atomic.AddInt64(&ctr, 1), "op", id, "U:"+k+":"+grp, resOf(err))
					t.Close()
				case 4:
					t := d.st.Write(id)
					err := t.Delete()
					rec(atomic.AddInt64(&ctr, 1), "op", id, "D", resOf(err))
					t.Close()
				case 5:
					// read-modify-write in one transaction
					t := d.st.Write(id)
					v, err := t.Value()
					rec(atomic.AddInt64(&ctr, 1), "op", id, "V", valOf(v, err))
					if err == nil {
						nv := idxVal{v.(idxVal).K + "x", grp}
						err = t.Update(nv)
						rec(atomic.AddInt64(&ctr, 1), "op", id, "U:"+nv.K+":"+grp, resOf(err))
					}
					t.Close()
				case 6:
					t := d.st.Read(id)
					v, err := t.Value()
					rec(atomic.AddInt64(&ctr, 1), "op", id, "V", valOf(v, err))
					t.Close()
				default:
					t := d.st.Read(id)
					ex := t.Exists()
					rec(atomic.AddInt64(&ctr, 1), "op", id, "E", wire.Bool(ex))
					t.Close()
				}
			}
		}()
	}
	wg.Wait()
	sort.Slice(evs, func(i, j int) bool { return evs[i].seq < evs[j].seq })
	args := []string{"hist", kind}
	for _, e := range evs {
		args = append(args, strings.Join(e.fields, "|"))
	}
	return wire.Line(args...)
}

func resOf(err error) string {
	if err == nil {
		return "ok"
	}
	return errClass(err)
}

func valOf(v interface{}, err error) string {
	if err != nil {
		return errClass(err)
	}
	return "val:" + optVal(v)
}

func (d *idxDom) Exec(a []string) string {
	return Safe(func() string {
		if len(a) == 0 {
			return "bad-op"
		}
		switch a[0] {
		case "reset":
			d.Close()
			return "ok"
		case "hist":
			// a history is an observation of the implementation (made by `run`); nothing to execute
			return "ok"
		case "txn":
			txn := d.st.Write(a[1])
			defer txn.Close()
			var outs []string
			for _, step := range a[2:] {
				f := strings.SplitN(step, ":", 3)
				switch f[0] {
				case "V":
					v, err := txn.Value()
					outs = append(outs, valOf(v, err))
				case "E":
					outs = append(outs, wire.Bool(txn.Exists()))
				case "C":
					outs = append(outs, resOf(txn.Create(idxVal{f[1], f[2]})))
				case "U":
					outs = append(outs, resOf(txn.Update(idxVal{f[1], f[2]})))
				case "D":
					outs = append(outs, resOf(txn.Delete()))
				default:
					return "bad-op"
				}
			}
			return strings.Join(outs, ";") + " cbs=" + d.takeCbs()
		case "excl":
			return d.exclusion(a[1], a[2], a[3] == "same")
		case "cfg":
			if err := d.open(a[1]); err != nil {
				return "open-failed"
			}
			return "ok"
		case "veto":
			d.veto = a[1] == "on"
			if d.mock {
				ms := d.st.(*mockstore.Store)
				if d.veto {
					ms.OnCreate = func(*mockstore.Store, string, interface{}) error { return errors.New("veto") }
					ms.OnUpdate = func(*mockstore.Store, string, interface{}) (interface{}, error) { return nil, errors.New("veto") }
					ms.OnDelete = func(*mockstore.Store, string) (interface{}, error) { return nil, errors.New("veto") }
				} else {
					ms.OnCreate, ms.OnUpdate, ms.OnDelete = nil, nil, nil
				}
			}
			return "ok"
		case "watch":
			d.watches = append(d.watches, idxWatch{a[1], a[2], a[3]})
			return "ok"
		case "create", "update", "delete", "createbad":
			txn := d.st.Write(a[1])
			defer txn.Close()
			var err error
			switch a[0] {
			case "create":
				err = txn.Create(idxVal{a[2], a[3]})
			case "createbad":
				if d.mock {
					return "err:type" // mockstore is untyped: not applicable
				}
				err = txn.Create(map[string]interface{}{"k": 1})
			case "update":
				err = txn.Update(idxVal{a[2], a[3]})
			default:
				err = txn.Delete()
			}
			if err != nil {
				if cb := d.takeCbs(); cb != "-" {
					return errClass(err) + "+callbacks"
				}
				if a[0] == "create" && a[1] == "" && d.mock && err.Error() == "missing ID" {
					return "err:noid"
				}
				return errClass(err)
			}
			// reads inside the write transaction see its own write
			v, verr := txn.Value()
			switch a[0] {
			case "delete":
				if !errors.Is(verr, store.ErrNotFound) || txn.Exists() {
					return "own-write-not-seen"
				}
			default:
				if verr != nil || v.(idxVal) != (idxVal{a[2], a[3]}) || !txn.Exists() {
					return "own-write-not-seen"
				}
			}
			return "ok cbs=" + d.takeCbs()
		case "value":
			txn := d.st.Read(a[1])
			defer txn.Close()
			v, err := txn.Value()
			if err != nil {
				return errClass(err)
			}
			return "val:" + optVal(v)
		case "exists":
			txn := d.st.Read(a[1])
			defer txn.Close()
			return wire.Bool(txn.Exists())
		case "init":
			err := d.bst.Init(func(add func(id string, v interface{})) error {
				add("s1", idxVal{"seed", "g"})
				return nil
			})
			if err != nil {
				return "err:other"
			}
			d.mu.Lock()
			sort.Strings(d.cbs)
			d.mu.Unlock()
			return "ok cbs=" + d.takeCbs()
		case "flush":
			d.qs.Flush()
			d.mu.Lock()
			defer d.mu.Unlock()
			out := strings.Join(d.qcbs, ";")
			d.qcbs = nil
			if out == "" {
				out = "-"
			}
			return "cbs=" + out
		case "corrupt":
			d.qs.Flush()
			d.db.DropPrefix([]byte("k:"))
			d.db.DropPrefix([]byte("e:"))
			d.db.Update(func(txn *badger.Txn) error {
				return txn.Set([]byte("kg:zzz\x00ghost"), nil)
			})
			return "ok"
		case "rebuild":
			if err := d.qs.RebuildIndexes(); err != nil {
				return "err:" + err.Error()
			}
			return "ok"
		case "query":
			res, err := d.qs.Query(url.Values{"idx": {a[1]}, "prefix": {a[2]}, "filter": {a[3]}, "offset": {a[4]}, "limit": {a[5]}, "rev": {a[6]}})
			if err != nil {
				return "err"
			}
			return wire.List(res.([]string))
		}
		return "bad-op"
	})
}
