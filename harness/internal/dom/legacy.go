package dom

import (
	"encoding/json"
	"errors"
	"net/url"
	"os"
	"sort"
	"strconv"
	"strings"
	"sync"

	"github.com/dgraph-io/badger"
	res "github.com/jirenius/go-res"
	"github.com/jirenius/go-res/middleware"
	"github.com/jirenius/go-res/middleware/resbadger"
	"verif/harness/internal/gen"
	"verif/harness/internal/recconn"
	"verif/harness/internal/svc"
	"verif/harness/internal/wire"
)

// legacy: the deprecated BadgerDB middleware (packages middleware and
// middleware/resbadger) serving one resource "svc.r" (C20).

// legacyT is the Go type of the typed resbadger model
type legacyT struct {
	A json.RawMessage `json:"a,omitempty"`
	B json.RawMessage `json:"b,omitempty"`
	C json.RawMessage `json:"c,omitempty"`
}

// legacyView is the Map callback of the `rbm` configuration: it hides `b` and `c` and adds a marker
func legacyView(v interface{}) (interface{}, error) {
	t, ok := v.(legacyT)
	if !ok {
		return nil, errors.New("map: unexpected type")
	}
	out := map[string]interface{}{"view": true}
	if t.A != nil {
		out["a"] = t.A
	}
	return out, nil
}

type legacyDom struct {
	mapped  bool
	idxs    *resbadger.IndexSet
	dir     string
	db      *badger.DB
	run     *svc.Runner
	cfgArgs []string
	model   bool
	mu      sync.Mutex
	old     string
	data    string
}

func init() { Register("legacy", func() Domain { return &legacyDom{} }) }

func (d *legacyDom) stop() {
	if d.run != nil {
		d.run.Stop()
		d.run = nil
	}
	if d.db != nil {
		d.db.Close()
		d.db = nil
	}
}

func (d *legacyDom) Close() {
	d.stop()
	if d.dir != "" {
		os.RemoveAll(d.dir)
		d.dir = ""
	}
}

var legacyVals = []string{`1`, `2`, `"a"`, `"b"`, `true`, `null`, `"1"`, `"true"`}
var legacyKeys = []string{"a", "b", "c"}

func (d *legacyDom) Gen(r *gen.R, tier string, emit func(string)) {
	blocks := 120
	if tier == "thorough" {
		blocks = 2500
	}
	for _, pkg := range []string{"mw", "rb"} {
		emit(wire.Line("reset"))
		emit(wire.Line("cfg", pkg, "coll", "N"))
		emit(wire.Line("bigints"))
	}
	for b := 0; b < blocks; b++ {
		emit(wire.Line("reset"))
		model := r.Bool()
		typ := "coll"
		if model {
			typ = "model"
		}
		genVal := func() []string {
			if model {
				n := r.Intn(3)
				out := []string{strconv.Itoa(n)}
				for i := 0; i < n; i++ {
					out = append(out, legacyKeys[i], r.Pick(legacyVals))
				}
				return out
			}
			n := r.Intn(4)
			out := []string{strconv.Itoa(n)}
			for i := 0; i < n; i++ {
				out = append(out, r.Pick(legacyVals))
			}
			return out
		}
		pkg := r.Pick([]string{"mw", "rb"})
		if model && r.Chance(1, 3) {
			pkg = r.Pick([]string{"rbi", "rbi", "rbe", "rbm"}) // rbm: with a Map callback (the get response is a view; Value() is the stored value); resbadger, typed model with an index set (+ query collection) / an empty index set
		}
		cfg := []string{"cfg", pkg, typ}
		if pkg != "rbi" && pkg != "rbe" && pkg != "rbm" && r.Chance(1, 3) {
			cfg = append(append(cfg, "D"), genVal()...)
		} else {
			cfg = append(cfg, "N")
		}
		emit(wire.Line(cfg...))
		emit(wire.Line("get"))
		steps := 3 + r.Intn(12)
		for i := 0; i < steps; i++ {
			switch k := r.Intn(12); {
			case k < 4 && model || k < 1:
				args := []string{"change"}
				for _, key := range legacyKeys {
					if r.Bool() {
						v := r.Pick(legacyVals)
						if r.Chance(1, 4) {
							v = "<del>"
						}
						args = append(args, key, v)
					}
				}
				emit(wire.Line(args...))
			case k < 7:
				emit(wire.Line("add", r.Pick(legacyVals), r.Pick([]string{"0", "0", "1", "2", "5"})))
			case k < 9:
				emit(wire.Line("remove", r.Pick([]string{"0", "0", "1", "3"})))
			case k < 10:
				emit(wire.Line(append([]string{"create"}, genVal()...)...))
			case k < 11:
				emit(wire.Line("delete"))
			default:
				emit(wire.Line("reopen"))
			}
			emit(wire.Line("get"))
			if pkg == "rbi" {
				emit(wire.Line("iq", r.Pick([]string{"ia", "ib"}), r.Pick([]string{"", "", "1", "\"", "\"a", "t", "n"})))
			}
		}
		emit(wire.Line("reopen"))
		emit(wire.Line("get"))
		if pkg == "rbi" {
			emit(wire.Line("iq", "ia", ""))
			emit(wire.Line("iq", "ib", ""))
		}
	}
	emit(wire.Line("reset"))
}

func goVal(s string) interface{} {
	var v interface{}
	json.Unmarshal([]byte(s), &v)
	return v
}

func (d *legacyDom) parseVal(a []string) interface{} {
	k, _ := strconv.Atoi(a[0])
	if d.model {
		m := map[string]interface{}{}
		for i := 0; i < k; i++ {
			m[a[1+2*i]] = goVal(a[2+2*i])
		}
		return m
	}
	l := make([]interface{}, k)
	for i := 0; i < k; i++ {
		l[i] = goVal(a[1+i])
	}
	return l
}

func renderAny(v interface{}) string {
	switch x := v.(type) {
	case nil:
		return "nil"
	case json.RawMessage:
		if len(x) == 0 {
			return "nil"
		}
		var y interface{}
		if json.Unmarshal(x, &y) != nil {
			return "garbage"
		}
		return renderAny(y)
	case map[string]interface{}:
		keys := make([]string, 0, len(x))
		for k := range x {
			keys = append(keys, k)
		}
		sort.Strings(keys)
		kv := make([]string, len(keys))
		for i, k := range keys {
			b, _ := json.Marshal(x[k])
			kv[i] = wire.Enc(k) + "=" + wire.Enc(string(b))
		}
		return "model:" + strings.Join(kv, ",")
	case []interface{}:
		el := make([]string, len(x))
		for i, e := range x {
			b, _ := json.Marshal(e)
			el[i] = wire.Enc(string(b))
		}
		return "coll:" + strings.Join(el, ",")
	case legacyT:
		// the typed value: rendered through its JSON form
		b, err := json.Marshal(x)
		if err != nil {
			return "garbage"
		}
		return renderAny(json.RawMessage(b))
	}
	return "other"
}

func (d *legacyDom) start() error {
	opts := badger.DefaultOptions(d.dir).WithLogger(nil).WithSyncWrites(false)
	db, err := badger.Open(opts)
	if err != nil {
		return err
	}
	d.db = db
	a := d.cfgArgs
	d.model = a[2] == "model"
	d.mapped = false
	var def interface{}
	if a[3] == "D" {
		def = d.parseVal(a[4:])
	}
	var opt res.Option
	typ := res.Collection
	if d.model {
		typ = res.Model
	}
	// the default Go types, given explicitly through the builder in either order
	var typ0 interface{} = []interface{}(nil)
	if d.model {
		typ0 = map[string]interface{}(nil)
	}
	order := len(strings.Join(a, " ")) % 3
	if a[1] == "mw" {
		o := middleware.BadgerDB{DB: db}
		switch {
		case def != nil && order == 0:
			o = o.WithDefault(def).WithType(typ0)
		case def != nil && order == 1:
			o = o.WithType(typ0).WithDefault(def)
		case def != nil:
			o = o.WithDefault(def)
		case order == 0:
			o = o.WithType(typ0)
		}
		opt = o
	} else if a[1] == "rbe" {
		// resbadger typed model with an index set that has no index
		opt = resbadger.BadgerDB{DB: db}.Model().WithType(legacyT{}).WithIndexSet(&resbadger.IndexSet{})
	} else if a[1] == "rbm" {
		// typed model with a Map callback: get responses show the view, Value() the stored value
		d.mapped = true
		opt = resbadger.BadgerDB{DB: db}.Model().WithType(legacyT{}).WithIndexSet(&resbadger.IndexSet{}).WithMap(legacyView)
	} else if a[1] == "rbi" {
		keyOf := func(field string) func(interface{}) []byte {
			return func(v interface{}) []byte {
				switch x := v.(type) {
				case legacyT:
					switch field {
					case "a":
						return x.A
					default:
						return x.B
					}
				case map[string]interface{}:
					if e, ok := x[field]; ok {
						b, _ := json.Marshal(e)
						return b
					}
				}
				return nil
			}
		}
		d.idxs = &resbadger.IndexSet{Indexes: []resbadger.Index{{Name: "ia", Key: keyOf("a")}, {Name: "ib", Key: keyOf("b")}}}
		opt = resbadger.BadgerDB{DB: db}.Model().WithType(legacyT{}).WithIndexSet(d.idxs)
	} else if d.model {
		o := resbadger.BadgerDB{DB: db}.Model()
		switch {
		case def != nil && order == 0:
			o = o.WithDefault(def).WithType(typ0)
		case def != nil && order == 1:
			o = o.WithType(typ0).WithDefault(def)
		case def != nil:
			o = o.WithDefault(def)
		}
		opt = o
	} else {
		o := resbadger.BadgerDB{DB: db}.Collection()
		if def != nil {
			o = o.WithDefault(def)
		}
		opt = o
	}
	s := res.NewService("svc")
	s.SetLogger(svc.NopLogger{})
	s.SetWorkerCount(2)
	if a[1] == "mw" {
		s.Handle("r", typ, opt)
	} else {
		s.Handle("r", opt)
	}
	if a[1] == "rbi" {
		s.Handle("qc", resbadger.BadgerDB{DB: db}.QueryCollection().WithIndexSet(d.idxs).WithQueryCallback(
			func(idxs *resbadger.IndexSet, rname string, params map[string]string, q url.Values) (*resbadger.IndexQuery, string, error) {
				ix, err := idxs.GetIndex(q.Get("idx"))
				if err != nil {
					return nil, "", err
				}
				return &resbadger.IndexQuery{Index: ix, KeyPrefix: []byte(q.Get("p")), Limit: -1}, "idx=" + q.Get("idx") + "&p=" + url.QueryEscape(q.Get("p")), nil
			}))
	}
	s.AddListener("r", func(ev *res.Event) {
		d.mu.Lock()
		defer d.mu.Unlock()
		switch ev.Name {
		case "change":
			keys := make([]string, 0, len(ev.OldValues))
			for k := range ev.OldValues {
				keys = append(keys, k)
			}
			sort.Strings(keys)
			kv := make([]string, len(keys))
			for i, k := range keys {
				if ev.OldValues[k] == res.DeleteAction {
					kv[i] = wire.Enc(k) + "=<del>"
				} else {
					b, _ := json.Marshal(ev.OldValues[k])
					kv[i] = wire.Enc(k) + "=" + wire.Enc(string(b))
				}
			}
			d.old = "{" + strings.Join(kv, ",") + "}"
		case "delete":
			d.data = renderAny(ev.Data)
		}
	})
	run, err := svc.Start(s)
	if err != nil {
		return err
	}
	d.run = run
	return nil
}

func (d *legacyDom) event(f func(r res.Resource)) string {
	d.mu.Lock()
	d.old, d.data = "{}", "nil"
	d.mu.Unlock()
	from := d.run.C.NumPubs()
	failed := false
	done := make(chan struct{})
	err := d.run.S.With("svc.r", func(r res.Resource) {
		defer close(done)
		defer func() {
			if recover() != nil {
				failed = true
			}
		}()
		f(r)
	})
	if err != nil {
		return "with-failed"
	}
	<-done
	_, pubs := d.run.C.Snapshot()
	pub := false
	for _, p := range pubs[from:] {
		if strings.HasPrefix(p.Subject, "event.svc.r.") {
			pub = true
		}
	}
	d.mu.Lock()
	defer d.mu.Unlock()
	return "pub=" + wire.Bool(pub) + " fail=" + wire.Bool(failed) + " old=" + d.old + " data=" + d.data
}

func (d *legacyDom) Exec(a []string) string {
	return Safe(func() string {
		if len(a) == 0 {
			return "bad-op"
		}
		switch a[0] {
		case "reset":
			d.Close()
			return "ok"
		case "cfg":
			d.Close()
			dir, err := os.MkdirTemp("", "verif-legacy")
			if err != nil {
				return "tempdir-failed"
			}
			d.dir = dir
			d.cfgArgs = append([]string{}, a...)
			if err := d.start(); err != nil {
				return "start-failed"
			}
			return "ok"
		case "reopen":
			d.stop()
			if err := d.start(); err != nil {
				return "start-failed"
			}
			return "ok"
		case "change":
			m := map[string]interface{}{}
			for i := 1; i+1 < len(a); i += 2 {
				if a[i+1] == "<del>" {
					m[a[i]] = res.DeleteAction
				} else {
					m[a[i]] = goVal(a[i+1])
				}
			}
			return d.event(func(r res.Resource) { r.ChangeEvent(m) })
		case "add":
			idx, _ := strconv.Atoi(a[2])
			return d.event(func(r res.Resource) { r.AddEvent(goVal(a[1]), idx) })
		case "remove":
			idx, _ := strconv.Atoi(a[1])
			return d.event(func(r res.Resource) { r.RemoveEvent(idx) })
		case "bigints":
			// a collection holding integers that a float64 cannot keep exactly; an add and a remove of other
			// elements must leave them as they are. The served text is compared, not a decoded value.
			big := []string{"9007199254740993", "-9007199254740995", "123456789012345678901234567890"}
			vals := make([]interface{}, len(big)+1)
			for i, b := range big {
				vals[i] = json.Number(b)
			}
			vals[len(big)] = "x"
			steps := []func(r res.Resource){
				func(r res.Resource) { r.CreateEvent(vals) },
				func(r res.Resource) { r.AddEvent("y", 1) },
				func(r res.Resource) { r.RemoveEvent(1) },
				func(r res.Resource) { r.RemoveEvent(len(big)) },
			}
			for _, st := range steps {
				if out := d.event(st); !strings.HasPrefix(out, "pub=T fail=F") {
					return "event-failed:" + out
				}
			}
			resp, ok := d.run.Request("get.svc.r", nil, 5000)
			if !ok {
				return "noreply"
			}
			var raw struct {
				Result map[string]json.RawMessage `json:"result"`
			}
			json.Unmarshal(resp, &raw)
			return "coll=" + wire.Enc(compactJSON(raw.Result["collection"]))
		case "create":
			v := d.parseVal(a[1:])
			return d.event(func(r res.Resource) { r.CreateEvent(v) })
		case "delete":
			return d.event(func(r res.Resource) { r.DeleteEvent() })
		case "iq":
			payload, _ := json.Marshal(map[string]string{"query": "idx=" + a[1] + "&p=" + url.QueryEscape(a[2])})
			resp, ok := d.run.Request("get.svc.qc", payload, 5000)
			if !ok {
				return "noreply"
			}
			var qr struct {
				Result *struct {
					Collection []struct {
						RID string `json:"rid"`
					} `json:"collection"`
				} `json:"result"`
				Error *struct {
					Code string `json:"code"`
				} `json:"error"`
			}
			if json.Unmarshal(resp, &qr) != nil {
				return "badjson"
			}
			if qr.Error != nil {
				return "err:" + qr.Error.Code
			}
			if qr.Result == nil {
				return "noresult"
			}
			out := make([]string, len(qr.Result.Collection))
			for i, e := range qr.Result.Collection {
				out[i] = wire.Enc(e.RID)
			}
			return "[" + strings.Join(out, ",") + "]"
		case "get":
			resp, ok := d.run.Request("get.svc.r", nil, 5000)
			if !ok {
				return "noreply"
			}
			var rr struct {
				Result *struct {
					Model      map[string]interface{} `json:"model"`
					Collection []interface{}          `json:"collection"`
				} `json:"result"`
				Error *struct {
					Code string `json:"code"`
				} `json:"error"`
			}
			if json.Unmarshal(resp, &rr) != nil {
				return "badjson"
			}
			if rr.Error != nil {
				return "err:" + rr.Error.Code
			}
			if rr.Result == nil {
				return "noresult"
			}
			// a `null` (or missing) model/collection is not a model/collection: the fold of
			// events over a collection is always a JSON array
			var raw struct {
				Result map[string]json.RawMessage `json:"result"`
			}
			json.Unmarshal(resp, &raw)
			if d.model {
				if m, ok := raw.Result["model"]; !ok || string(m) == "null" {
					return "model-null"
				}
			} else if c, ok := raw.Result["collection"]; !ok || string(c) == "null" {
				return "coll-null"
			}
			out := ""
			if d.model {
				if rr.Result.Model == nil {
					out = "model:"
				} else {
					out = renderAny(rr.Result.Model)
				}
			} else if rr.Result.Collection == nil {
				out = "coll:"
			} else {
				out = renderAny(rr.Result.Collection)
			}
			// Value() must give the same (through a With callback; typed values are rendered via JSON)
			val, valJSON := "value-not-called", ""
			done := make(chan struct{})
			if d.run.S.With("svc.r", func(r res.Resource) {
				defer close(done)
				defer func() {
					if recover() != nil {
						val = "value-panic"
					}
				}()
				v, err := r.Value()
				if err != nil {
					val = "value-err"
					return
				}
				b, _ := json.Marshal(v)
				valJSON = string(b)
				if _, typed := v.(legacyT); d.mapped && !typed {
					val = "value-is-not-the-stored-type"
					return
				}
				val = renderAny(json.RawMessage(b))
			}) == nil {
				<-done
			}
			if d.mapped {
				// the get response is the Map view of the stored value; the operation's outcome is the stored value
				if val == "value-err" || val == "value-panic" || val == "value-not-called" {
					return out + " BUT-Value()=" + val
				}
				var t legacyT
				json.Unmarshal([]byte(valJSON), &t)
				view, _ := legacyView(t)
				vb, _ := json.Marshal(view)
				if want := renderAny(json.RawMessage(vb)); want != out {
					return val + " BUT-get=" + out + " instead-of-the-view=" + want
				}
				return val
			}
			if val != out {
				return out + " BUT-Value()=" + val
			}
			return out
		}
		return "bad-op"
	})
}

var _ = recconn.New
