// Package gen is the single source of randomness of the harness: one
// splitmix64 state per run, derived from VERIF_SEED.
package gen

// R is a splitmix64 generator.
type R struct{ s uint64 }

// New returns a generator for the seed.
func New(seed uint64) *R { return &R{s: seed*0x9E3779B97F4A7C15 + 0x1234567} }

// U64 returns the next value.
func (r *R) U64() uint64 {
	r.s += 0x9E3779B97F4A7C15
	z := r.s
	z = (z ^ (z >> 30)) * 0xBF58476D1CE4E5B9
	z = (z ^ (z >> 27)) * 0x94D049BB133111EB
	return z ^ (z >> 31)
}

// Intn returns a value in [0,n).
func (r *R) Intn(n int) int {
	if n <= 0 {
		return 0
	}
	return int(r.U64() % uint64(n))
}

// Bool returns a coin flip.
func (r *R) Bool() bool { return r.U64()&1 == 1 }

// Chance returns true with probability num/den.
func (r *R) Chance(num, den int) bool { return r.Intn(den) < num }

// Pick returns a random element.
func (r *R) Pick(l []string) string { return l[r.Intn(len(l))] }

// Fork derives an independent generator.
func (r *R) Fork() *R { return &R{s: r.U64()} }
