// Package wire implements the line protocol shared with the Lean driver.
//
// A line is a list of fields separated by single spaces.  A field is a byte
// string, percent-encoded: every byte outside 0x21..0x7e, and '%' itself, is
// written %XX (as are the separators , ; : = @ | used inside outcomes); the
// empty string is written %_.
package wire

import (
	"fmt"
	"sort"
	"strings"
)

const hexd = "0123456789ABCDEF"

// Enc encodes one field.
func Enc(s string) string {
	if s == "" {
		return "%_"
	}
	var b strings.Builder
	for i := 0; i < len(s); i++ {
		c := s[i]
		if c < 33 || c > 126 || c == '%' || c == ',' || c == ';' || c == ':' || c == '=' || c == '@' || c == '|' {
			b.WriteByte('%')
			b.WriteByte(hexd[c>>4])
			b.WriteByte(hexd[c&15])
		} else {
			b.WriteByte(c)
		}
	}
	return b.String()
}

func unhex(c byte) (byte, bool) {
	switch {
	case c >= '0' && c <= '9':
		return c - '0', true
	case c >= 'A' && c <= 'F':
		return c - 'A' + 10, true
	case c >= 'a' && c <= 'f':
		return c - 'a' + 10, true
	}
	return 0, false
}

// Dec decodes one field.
func Dec(f string) (string, error) {
	var b []byte
	for i := 0; i < len(f); i++ {
		c := f[i]
		if c != '%' {
			b = append(b, c)
			continue
		}
		if i+1 < len(f) && f[i+1] == '_' {
			i++
			continue
		}
		if i+2 >= len(f) {
			return "", fmt.Errorf("bad escape in %q", f)
		}
		x, ok1 := unhex(f[i+1])
		y, ok2 := unhex(f[i+2])
		if !ok1 || !ok2 {
			return "", fmt.Errorf("bad escape in %q", f)
		}
		b = append(b, x<<4|y)
		i += 2
	}
	return string(b), nil
}

// Line encodes fields into a line.
func Line(fields ...string) string {
	out := make([]string, len(fields))
	for i, f := range fields {
		out[i] = Enc(f)
	}
	return strings.Join(out, " ")
}

// Fields decodes a line.
func Fields(line string) ([]string, error) {
	var out []string
	for _, f := range strings.Split(line, " ") {
		if f == "" {
			continue
		}
		d, err := Dec(f)
		if err != nil {
			return nil, err
		}
		out = append(out, d)
	}
	return out, nil
}

// Bool is the canonical boolean.
func Bool(b bool) string {
	if b {
		return "T"
	}
	return "F"
}

// Map is the canonical sorted map rendering.
func Map(m map[string]string) string {
	keys := make([]string, 0, len(m))
	for k := range m {
		keys = append(keys, k)
	}
	sort.Strings(keys)
	parts := make([]string, len(keys))
	for i, k := range keys {
		parts[i] = Enc(k) + "=" + Enc(m[k])
	}
	return "{" + strings.Join(parts, ",") + "}"
}

// List is the canonical list rendering.
func List(l []string) string {
	parts := make([]string, len(l))
	for i, s := range l {
		parts[i] = Enc(s)
	}
	return "[" + strings.Join(parts, ",") + "]"
}
