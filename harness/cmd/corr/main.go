// Command corr is the correspondence harness: it generates operation lines for
// a domain, runs each on the real go-res code (linked from /repo's working
// tree) and prints "op<TAB>impl-output" per line.
//
//	corr <domain> run  -tier quick|thorough -seed N   generate and execute
//	corr <domain> exec                                 execute ops read from stdin
package main

import (
	"bufio"
	"flag"
	"fmt"
	"os"

	"verif/harness/internal/dom"
	"verif/harness/internal/gen"
	"verif/harness/internal/wire"
)

func main() {
	if len(os.Args) > 2 && os.Args[1] == "crashchild" {
		dom.CrashChild(os.Args[2:])
		return
	}
	if len(os.Args) < 3 {
		fmt.Fprintln(os.Stderr, "usage: corr <domain> run|exec [flags]")
		os.Exit(2)
	}
	d, err := dom.Get(os.Args[1])
	if err != nil {
		fmt.Fprintln(os.Stderr, err)
		os.Exit(2)
	}
	fs := flag.NewFlagSet("corr", flag.ExitOnError)
	tier := fs.String("tier", "quick", "quick|thorough")
	seed := fs.Uint64("seed", 1, "seed")
	fs.Parse(os.Args[3:])
	out := bufio.NewWriterSize(os.Stdout, 1<<20)
	defer out.Flush()
	if c, ok := d.(interface{ Close() }); ok {
		defer c.Close()
	}
	// the operation about to run is announced on stderr (unbuffered), so that a crash of the
	// process (a fatal error cannot be recovered) can be attributed to it
	announce := os.Getenv("VERIF_ANNOUNCE") != ""
	execLine := func(line string) {
		if announce {
			fmt.Fprintf(os.Stderr, "@op\t%s\n", line)
		}
		args, err := wire.Fields(line)
		res := ""
		if err != nil {
			res = "bad-encoding"
		} else {
			res = d.Exec(args)
		}
		fmt.Fprintf(out, "%s\t%s\n", line, res)
	}
	switch os.Args[2] {
	case "run":
		d.Gen(gen.New(*seed), *tier, execLine)
	case "exec":
		sc := bufio.NewScanner(os.Stdin)
		sc.Buffer(make([]byte, 1<<20), 1<<26)
		for sc.Scan() {
			execLine(sc.Text())
		}
	default:
		fmt.Fprintln(os.Stderr, "unknown mode", os.Args[2])
		os.Exit(2)
	}
}
