package main

import (
	"fmt"
	"go/ast"
	"go/parser"
	"go/token"
	"path/filepath"
	"strings"
)

// initShape is the database-relevant skeleton of badgerstore.Store.Init in source order: where the
// update transaction opens and closes, the reads and writes made through it (of the init marker,
// of a seed), any read made beside it, and the listener notification. Props/C12.lean checks that
// this is the program `Txn.initProg` models: one transaction; marker read, seed reads and seed
// writes, marker write all inside it; listeners after it.
func initShape(repo string) ([]string, error) {
	fset := token.NewFileSet()
	f, err := parser.ParseFile(fset, filepath.Join(repo, "store", "badgerstore", "store.go"), nil, 0)
	if err != nil {
		return nil, err
	}
	var out []string
	isMarker := func(e ast.Expr) bool {
		id, ok := e.(*ast.Ident)
		return ok && id.Name == "initKey"
	}
	var walk func(n ast.Node) bool
	walk = func(n ast.Node) bool {
		c, ok := n.(*ast.CallExpr)
		if !ok {
			return true
		}
		sel, ok := c.Fun.(*ast.SelectorExpr)
		if !ok {
			return true
		}
		recv := ""
		switch x := sel.X.(type) {
		case *ast.Ident:
			recv = x.Name
		case *ast.SelectorExpr:
			if id, ok := x.X.(*ast.Ident); ok {
				recv = id.Name + "." + x.Sel.Name
			}
		}
		name := recv + "." + sel.Sel.Name
		switch {
		case name == "st.DB.Update" || name == "st.update":
			out = append(out, "update{")
			for _, a := range c.Args {
				ast.Inspect(a, walk)
			}
			out = append(out, "}update")
			return false
		case name == "st.DB.View" || name == "st.Get" || name == "st.Read" || name == "st.DB.NewTransaction":
			out = append(out, "beside:"+sel.Sel.Name)
		case name == "txn.Get" && len(c.Args) == 1:
			if isMarker(c.Args[0]) {
				out = append(out, "txn.get:marker")
			} else {
				out = append(out, "txn.get:seed")
			}
		case name == "txn.Set" && len(c.Args) >= 1:
			if isMarker(c.Args[0]) {
				out = append(out, "txn.set:marker")
			} else {
				out = append(out, "txn.set:other")
			}
		case name == "st.setValue":
			out = append(out, "txn.set:seed")
		case name == "st.callOnChange" || name == "st.callBeforeChange":
			out = append(out, "notify:"+sel.Sel.Name)
		case strings.HasPrefix(name, "txn."):
			out = append(out, "txn.other:"+sel.Sel.Name)
		}
		return true
	}
	for _, d := range f.Decls {
		fd, ok := d.(*ast.FuncDecl)
		if !ok || fd.Body == nil || fd.Name.Name != "Init" || fd.Recv == nil {
			continue
		}
		ast.Inspect(fd.Body, walk)
	}
	return out, nil
}

func initShapeLean(repo string) (string, error) {
	sh, err := initShape(repo)
	if err != nil {
		return "", err
	}
	qs := make([]string, len(sh))
	for i, s := range sh {
		qs[i] = fmt.Sprintf("%q", s)
	}
	return "/-- the database-relevant skeleton of `badgerstore.Store.Init`, in source order -/\ndef initShape : List String := [" + strings.Join(qs, ", ") + "]\n", nil
}
