package main

import (
	"fmt"
	"go/ast"
	"go/parser"
	"go/token"
	"path/filepath"
	"sort"
	"strings"
)

// stateOps lists every sync/atomic operation on the `state` field of the Service, in source
// order per function: (function, operation, arguments after the address). The lifecycle state
// machine (stopped -> starting -> started -> stopping -> stopped) is read off this table in
// Props/C03.lean: who may move the state, by which kind of operation, between which values.
func stateOps(repo string) ([][3]string, error) {
	fset := token.NewFileSet()
	files, err := filepath.Glob(filepath.Join(repo, "*.go"))
	if err != nil {
		return nil, err
	}
	sort.Strings(files)
	var out [][3]string
	for _, fn := range files {
		if strings.HasSuffix(fn, "_test.go") {
			continue
		}
		f, err := parser.ParseFile(fset, fn, nil, 0)
		if err != nil {
			return nil, err
		}
		if f.Name.Name != "res" {
			continue
		}
		for _, d := range f.Decls {
			fd, ok := d.(*ast.FuncDecl)
			if !ok || fd.Body == nil {
				continue
			}
			name := fd.Name.Name
			if fd.Recv != nil && len(fd.Recv.List) == 1 {
				t := fd.Recv.List[0].Type
				if st, ok := t.(*ast.StarExpr); ok {
					t = st.X
				}
				if id, ok := t.(*ast.Ident); ok {
					name = id.Name + "." + name
				}
			}
			ast.Inspect(fd.Body, func(n ast.Node) bool {
				c, ok := n.(*ast.CallExpr)
				if !ok {
					return true
				}
				sel, ok := c.Fun.(*ast.SelectorExpr)
				if !ok || len(c.Args) == 0 {
					return true
				}
				if id, ok := sel.X.(*ast.Ident); !ok || id.Name != "atomic" {
					return true
				}
				u, ok := c.Args[0].(*ast.UnaryExpr)
				if !ok || u.Op != token.AND {
					return true
				}
				fs, ok := u.X.(*ast.SelectorExpr)
				if !ok || fs.Sel.Name != "state" {
					return true
				}
				var args []string
				for _, a := range c.Args[1:] {
					if id, ok := a.(*ast.Ident); ok {
						args = append(args, id.Name)
					} else {
						args = append(args, "?")
					}
				}
				out = append(out, [3]string{name, sel.Sel.Name, strings.Join(args, ",")})
				return true
			})
		}
	}
	sort.SliceStable(out, func(i, j int) bool { return out[i][0] < out[j][0] })
	return out, nil
}

func stateOpsLean(repo string) (string, error) {
	ops, err := stateOps(repo)
	if err != nil {
		return "", err
	}
	var b strings.Builder
	b.WriteString("/-- every sync/atomic operation on `Service.state`: (function, operation, arguments after the address), in source order per function -/\ndef stateOps : List (String × String × String) := [\n")
	for i, o := range ops {
		sep := ","
		if i == len(ops)-1 {
			sep = ""
		}
		fmt.Fprintf(&b, "  (%q, %q, %q)%s\n", o[0], o[1], o[2], sep)
	}
	b.WriteString("]\n")
	return b.String(), nil
}
