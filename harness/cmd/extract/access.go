package main

// Access table for C16 (and for the "one action = one critical section"
// premise of the pool model, C01-C03): every read and write of a field of
// Service, work and queryEvent in package res, with the enclosing function,
// the state of the service mutex at that point (syntactic dataflow over the
// function body), and whether the access goes through sync/atomic. Also every
// call between functions of the package with the mutex state at the call, so
// that "entered with the mutex held" can be checked instead of assumed, and
// the source order of effect categories of the event methods (C08).
//
// Type information comes from go/types over the package's own files with a
// stub importer: imported packages are empty, the resulting errors are
// ignored; selections of fields of locally declared structs resolve fine.

import (
	"fmt"
	"go/ast"
	"go/parser"
	"go/token"
	"go/types"
	"os"
	"path/filepath"
	"sort"
	"strings"
)

type lk int

const (
	lkU lk = iota // mutex not held
	lkL           // mutex held
	lkM           // held on some paths only
	lkX           // unreachable (after return/panic)
)

func (a lk) String() string { return [...]string{"U", "L", "M", "X"}[a] }

func join(a, b lk) lk {
	if a == lkX {
		return b
	}
	if b == lkX {
		return a
	}
	if a == b {
		return a
	}
	return lkM
}

type stubImporter struct{ pkgs map[string]*types.Package }

func (si *stubImporter) Import(path string) (*types.Package, error) {
	if p, ok := si.pkgs[path]; ok {
		return p, nil
	}
	name := path[strings.LastIndex(path, "/")+1:]
	if name == "nats.go" {
		name = "nats"
	}
	p := types.NewPackage(path, name)
	p.MarkComplete()
	si.pkgs[path] = p
	return p, nil
}

type access struct {
	fn, strct, field, kind string // kind: r w ar aw
	lock                  lk
}

type callrec struct {
	caller, callee string
	lock           lk
}

type analyzer struct {
	info     *types.Info
	tracked  map[string]bool // struct names
	syncFld  map[string]bool // "Struct.field" whose type is sync.*
	muOwner  string          // struct that owns the mutex ("Service")
	pkgName  string
	accesses map[access]bool
	calls    map[callrec]bool
	held     map[callrec]bool // calls out of the package made with the mutex held
	cur      string
	nlit     int
	pending  []pendingLit
}

type pendingLit struct {
	name string
	lit  *ast.FuncLit
}

// fieldOf reports the tracked (struct, field) a selector denotes, if any.
func (a *analyzer) fieldOf(e ast.Expr) (string, string, bool) {
	sel, ok := e.(*ast.SelectorExpr)
	if !ok {
		return "", "", false
	}
	s, ok := a.info.Selections[sel]
	if !ok || s.Kind() != types.FieldVal {
		return "", "", false
	}
	v, ok := s.Obj().(*types.Var)
	if !ok || !v.IsField() {
		return "", "", false
	}
	// owner: the struct type that declares the field (walk the embedding path)
	t := s.Recv()
	idx := s.Index()
	for i, ix := range idx {
		if p, ok := t.(*types.Pointer); ok {
			t = p.Elem()
		}
		named, _ := t.(*types.Named)
		st, ok := t.Underlying().(*types.Struct)
		if !ok {
			return "", "", false
		}
		if i == len(idx)-1 {
			if named == nil || !a.tracked[named.Obj().Name()] {
				return "", "", false
			}
			return named.Obj().Name(), v.Name(), true
		}
		t = st.Field(ix).Type()
	}
	return "", "", false
}

func (a *analyzer) rec(strct, field, kind string, l lk) {
	if a.syncFld[strct+"."+field] {
		return
	}
	a.accesses[access{a.cur, strct, field, kind, l}] = true
}

// isMuCall: X.mu.Lock() / Unlock() on the service mutex
func (a *analyzer) isMuCall(call *ast.CallExpr) (string, bool) {
	sel, ok := call.Fun.(*ast.SelectorExpr)
	if !ok {
		return "", false
	}
	if sel.Sel.Name != "Lock" && sel.Sel.Name != "Unlock" {
		return "", false
	}
	st, f, ok := a.fieldOf(sel.X)
	if !ok || st != a.muOwner || f != "mu" {
		return "", false
	}
	return sel.Sel.Name, true
}

func unparen(e ast.Expr) ast.Expr {
	for {
		p, ok := e.(*ast.ParenExpr)
		if !ok {
			return e
		}
		e = p.X
	}
}

// lhsBase strips index/slice/star/paren from an assignment target: writing
// s.rwork[k] or w.queue[i] writes the object the field refers to.
func lhsBase(e ast.Expr) ast.Expr {
	for {
		switch x := unparen(e).(type) {
		case *ast.IndexExpr:
			e = x.X
		case *ast.SliceExpr:
			e = x.X
		case *ast.StarExpr:
			e = x.X
		default:
			return unparen(e)
		}
	}
}

// expr walks an expression in state l, recording reads, atomic accesses and calls.
func (a *analyzer) expr(e ast.Node, l lk) {
	if e == nil {
		return
	}
	ast.Inspect(e, func(n ast.Node) bool {
		switch x := n.(type) {
		case *ast.FuncLit:
			a.nlit++
			a.pending = append(a.pending, pendingLit{fmt.Sprintf("%s$%d", strings.SplitN(a.cur, "$", 2)[0], a.nlit), x})
			return false
		case *ast.CallExpr:
			// atomic.Op(&x.f, ...)
			if sel, ok := x.Fun.(*ast.SelectorExpr); ok {
				if id, ok := sel.X.(*ast.Ident); ok && id.Name == "atomic" && len(x.Args) > 0 {
					if u, ok := unparen(x.Args[0]).(*ast.UnaryExpr); ok && u.Op == token.AND {
						if st, f, ok := a.fieldOf(unparen(u.X)); ok {
							kind := "aw"
							if strings.HasPrefix(sel.Sel.Name, "Load") {
								kind = "ar"
							}
							a.rec(st, f, kind, l)
							// the receiver path of the field (e.g. qe in &qe.expired) is still read
							a.expr(unparen(u.X).(*ast.SelectorExpr).X, l)
							for _, arg := range x.Args[1:] {
								a.expr(arg, l)
							}
							return false
						}
					}
				}
			}
			// delete(x.f, k): a write to the map
			if id, ok := x.Fun.(*ast.Ident); ok && id.Name == "delete" && len(x.Args) == 2 {
				if st, f, ok := a.fieldOf(lhsBase(x.Args[0])); ok {
					a.rec(st, f, "w", l)
				}
			}
			// calls to functions/methods of this package
			var obj types.Object
			switch f := x.Fun.(type) {
			case *ast.Ident:
				obj = a.info.Uses[f]
			case *ast.SelectorExpr:
				if s, ok := a.info.Selections[f]; ok {
					obj = s.Obj()
				} else {
					obj = a.info.Uses[f.Sel]
				}
			}
			if fn, ok := obj.(*types.Func); ok && fn.Pkg() != nil && fn.Pkg().Name() == a.pkgName {
				a.calls[callrec{a.cur, funcName(fn), l}] = true
			} else if (l == lkL || l == lkM) && !strings.Contains(a.cur, "$defer") {
				// anything else called while the mutex is (or may be) held: methods of other
				// packages' values and interfaces, function values, the channel builtin close.
				// Conversions, the allocation/length builtins and sync/atomic are not calls that
				// can block or re-enter.
				name := exprString(x.Fun)
				skip := false
				if _, isType := obj.(*types.TypeName); isType {
					skip = true
				}
				if b, isB := obj.(*types.Builtin); isB && b.Name() != "close" {
					skip = true
				}
				if obj == nil {
					if tv, ok := a.info.Types[x.Fun]; ok && tv.IsType() {
						skip = true
					}
				}
				if strings.HasPrefix(name, "atomic.") || a.isMu(x) || name == "verifNote" || name == "verifGate" {
					skip = true // (the two hooks are no-ops without the build tag)
				}
				if !skip {
					a.held[callrec{a.cur, name, l}] = true
				}
			}
			return true
		case *ast.SelectorExpr:
			if st, f, ok := a.fieldOf(x); ok {
				a.rec(st, f, "r", l)
			}
			return true
		}
		return true
	})
}

func (a *analyzer) isMu(c *ast.CallExpr) bool { _, ok := a.isMuCall(c); return ok }

func exprString(e ast.Expr) string {
	switch x := e.(type) {
	case *ast.Ident:
		return x.Name
	case *ast.SelectorExpr:
		return exprString(x.X) + "." + x.Sel.Name
	case *ast.ParenExpr:
		return exprString(x.X)
	case *ast.IndexExpr:
		return exprString(x.X) + "[]"
	case *ast.CallExpr:
		return exprString(x.Fun) + "()"
	case *ast.FuncLit:
		return "func-literal"
	}
	return "?"
}

func funcName(fn *types.Func) string {
	sig, _ := fn.Type().(*types.Signature)
	if sig != nil && sig.Recv() != nil {
		t := sig.Recv().Type()
		if p, ok := t.(*types.Pointer); ok {
			t = p.Elem()
		}
		if n, ok := t.(*types.Named); ok {
			return n.Obj().Name() + "." + fn.Name()
		}
	}
	return fn.Name()
}

func terminates(s ast.Stmt) bool {
	switch x := s.(type) {
	case *ast.ReturnStmt:
		return true
	case *ast.ExprStmt:
		if c, ok := x.X.(*ast.CallExpr); ok {
			if id, ok := c.Fun.(*ast.Ident); ok && id.Name == "panic" {
				return true
			}
		}
	}
	return false
}

// stmt analyses a statement entered in state l and returns the state after it.
func (a *analyzer) stmt(s ast.Stmt, l lk) lk {
	switch x := s.(type) {
	case nil:
		return l
	case *ast.BlockStmt:
		for _, st := range x.List {
			l = a.stmt(st, l)
		}
		return l
	case *ast.ExprStmt:
		if c, ok := x.X.(*ast.CallExpr); ok {
			if op, ok := a.isMuCall(c); ok {
				if op == "Lock" {
					return lkL
				}
				return lkU
			}
		}
		a.expr(x.X, l)
		if terminates(s) {
			return lkX
		}
		return l
	case *ast.DeferStmt:
		if _, ok := a.isMuCall(x.Call); ok {
			return l // released at function exit: the rest of the body keeps the state
		}
		if fl, ok := x.Call.Fun.(*ast.FuncLit); ok {
			a.nlit++
			a.pending = append(a.pending, pendingLit{fmt.Sprintf("%s$defer%d", strings.SplitN(a.cur, "$", 2)[0], a.nlit), fl})
			for _, arg := range x.Call.Args {
				a.expr(arg, l)
			}
			return l
		}
		a.expr(x.Call, lkM) // runs at exit, in whatever state the function ends
		return l
	case *ast.GoStmt:
		if fl, ok := x.Call.Fun.(*ast.FuncLit); ok {
			a.nlit++
			a.pending = append(a.pending, pendingLit{fmt.Sprintf("%s$go%d", strings.SplitN(a.cur, "$", 2)[0], a.nlit), fl})
			for _, arg := range x.Call.Args {
				a.expr(arg, l)
			}
			return l
		}
		// go f(args): f runs on a new goroutine, not holding the mutex; the arguments are evaluated here
		if sel, ok := x.Call.Fun.(*ast.SelectorExpr); ok {
			a.expr(sel.X, l)
		}
		for _, arg := range x.Call.Args {
			a.expr(arg, l)
		}
		var obj types.Object
		switch f := x.Call.Fun.(type) {
		case *ast.Ident:
			obj = a.info.Uses[f]
		case *ast.SelectorExpr:
			if s, ok := a.info.Selections[f]; ok {
				obj = s.Obj()
			}
		}
		if fn, ok := obj.(*types.Func); ok {
			a.calls[callrec{a.cur, funcName(fn), lkU}] = true
		}
		return l
	case *ast.AssignStmt:
		for _, r := range x.Rhs {
			a.expr(r, l)
		}
		for _, lh := range x.Lhs {
			b := lhsBase(lh)
			if st, f, ok := a.fieldOf(b); ok {
				a.rec(st, f, "w", l)
				if x.Tok != token.ASSIGN && x.Tok != token.DEFINE {
					a.rec(st, f, "r", l)
				}
				// receiver path and index expressions are reads
				a.expr(b.(*ast.SelectorExpr).X, l)
				if b != unparen(lh) {
					a.lhsIndexReads(lh, l)
				}
			} else {
				a.expr(lh, l)
			}
		}
		return l
	case *ast.IncDecStmt:
		b := lhsBase(x.X)
		if st, f, ok := a.fieldOf(b); ok {
			a.rec(st, f, "w", l)
			a.rec(st, f, "r", l)
		} else {
			a.expr(x.X, l)
		}
		return l
	case *ast.DeclStmt:
		a.expr(x.Decl, l)
		return l
	case *ast.ReturnStmt:
		for _, r := range x.Results {
			a.expr(r, l)
		}
		return lkX
	case *ast.IfStmt:
		l = a.stmt(x.Init, l)
		a.expr(x.Cond, l)
		t := a.stmt(x.Body, l)
		e := l
		if x.Else != nil {
			e = a.stmt(x.Else, l)
		}
		return join(t, e)
	case *ast.ForStmt:
		l = a.stmt(x.Init, l)
		head := l
		for i := 0; i < 3; i++ {
			a.expr(x.Cond, head)
			out := a.stmt(x.Body, head)
			out = a.stmt(x.Post, out)
			nh := join(head, out)
			if nh == head {
				break
			}
			head = nh
		}
		if x.Cond == nil {
			// `for { ... }` is left only by return/break; approximate by the head state
			return head
		}
		return head
	case *ast.RangeStmt:
		a.expr(x.X, l)
		head := l
		for i := 0; i < 3; i++ {
			out := a.stmt(x.Body, head)
			nh := join(head, out)
			if nh == head {
				break
			}
			head = nh
		}
		return head
	case *ast.SwitchStmt:
		l = a.stmt(x.Init, l)
		a.expr(x.Tag, l)
		return a.clauses(x.Body, l, false)
	case *ast.TypeSwitchStmt:
		l = a.stmt(x.Init, l)
		l = a.stmt(x.Assign, l)
		return a.clauses(x.Body, l, false)
	case *ast.SelectStmt:
		return a.clauses(x.Body, l, true)
	case *ast.LabeledStmt:
		return a.stmt(x.Stmt, l)
	case *ast.SendStmt:
		a.expr(x.Chan, l)
		a.expr(x.Value, l)
		return l
	case *ast.BranchStmt, *ast.EmptyStmt:
		return l
	default:
		a.expr(s, l)
		return l
	}
}

func (a *analyzer) lhsIndexReads(e ast.Expr, l lk) {
	switch x := unparen(e).(type) {
	case *ast.IndexExpr:
		a.expr(x.Index, l)
		a.lhsIndexReads(x.X, l)
	case *ast.SliceExpr:
		a.expr(x.Low, l)
		a.expr(x.High, l)
		a.expr(x.Max, l)
		a.lhsIndexReads(x.X, l)
	case *ast.StarExpr:
		a.lhsIndexReads(x.X, l)
	}
}

func (a *analyzer) clauses(body *ast.BlockStmt, l lk, isSelect bool) lk {
	out := lkX
	hasDefault := false
	for _, c := range body.List {
		cl := l
		switch cc := c.(type) {
		case *ast.CaseClause:
			if cc.List == nil {
				hasDefault = true
			}
			for _, e := range cc.List {
				a.expr(e, l)
			}
			for _, st := range cc.Body {
				cl = a.stmt(st, cl)
			}
		case *ast.CommClause:
			if cc.Comm == nil {
				hasDefault = true
			}
			cl = a.stmt(cc.Comm, cl)
			for _, st := range cc.Body {
				cl = a.stmt(st, cl)
			}
		}
		out = join(out, cl)
	}
	if !hasDefault && !isSelect {
		out = join(out, l)
	}
	return out
}

// ---------------------------------------------------------------- effect order (C08)

// effectOrder lists, in source order, the effect categories of an event method:
// "panic", "return", "apply" (call of r.h.Apply*), "publish" (r.s.event / r.s.rawEvent),
// "listeners" (a loop over r.listeners).
func effectOrder(fd *ast.FuncDecl) []string {
	var out []string
	ast.Inspect(fd.Body, func(n ast.Node) bool {
		switch x := n.(type) {
		case *ast.ReturnStmt:
			out = append(out, "return")
		case *ast.RangeStmt:
			if sel, ok := x.X.(*ast.SelectorExpr); ok && sel.Sel.Name == "listeners" {
				out = append(out, "listeners")
				return false
			}
		case *ast.CallExpr:
			switch f := x.Fun.(type) {
			case *ast.Ident:
				if f.Name == "panic" {
					out = append(out, "panic")
				}
			case *ast.SelectorExpr:
				if strings.HasPrefix(f.Sel.Name, "Apply") {
					out = append(out, "apply")
				} else if f.Sel.Name == "event" || f.Sel.Name == "rawEvent" {
					out = append(out, "publish")
				}
			}
		}
		return true
	})
	return out
}

// sourceOrder lists, in source order, the accesses to Service fields, the operations on the
// service mutex, calls of Service methods and goroutine starts of a function body.
func (a *analyzer) sourceOrder(fd *ast.FuncDecl) []string {
	var out []string
	writes := map[ast.Expr]bool{}
	ast.Inspect(fd.Body, func(n ast.Node) bool {
		if as, ok := n.(*ast.AssignStmt); ok {
			for _, lh := range as.Lhs {
				writes[lhsBase(lh)] = true
			}
		}
		return true
	})
	var walk func(n ast.Node) bool
	walk = func(n ast.Node) bool {
		switch x := n.(type) {
		case *ast.FuncLit:
			return false
		case *ast.AssignStmt:
			// right-hand sides are evaluated before the store
			for _, r := range x.Rhs {
				ast.Inspect(r, walk)
			}
			for _, lh := range x.Lhs {
				ast.Inspect(lh, walk)
			}
			return false
		case *ast.GoStmt:
			if sel, ok := x.Call.Fun.(*ast.SelectorExpr); ok {
				if s, ok := a.info.Selections[sel]; ok {
					if fn, ok := s.Obj().(*types.Func); ok {
						out = append(out, "go:"+funcName(fn))
						return false
					}
				}
			}
			out = append(out, "go:?")
			return false
		case *ast.CallExpr:
			if op, ok := a.isMuCall(x); ok {
				out = append(out, strings.ToLower(op))
				return false
			}
			if sel, ok := x.Fun.(*ast.SelectorExpr); ok {
				if id, ok := sel.X.(*ast.Ident); ok && id.Name == "atomic" && len(x.Args) > 0 {
					if u, ok := unparen(x.Args[0]).(*ast.UnaryExpr); ok && u.Op == token.AND {
						if st, f, ok := a.fieldOf(unparen(u.X)); ok && st == a.muOwner {
							kind := "aw:"
							if strings.HasPrefix(sel.Sel.Name, "Load") {
								kind = "ar:"
							}
							item := kind + f
							// the value an atomic write publishes, when it is a named constant
							// (the new value of a Store, Swap or CompareAndSwap is the last argument)
							if kind == "aw:" && len(x.Args) > 1 {
								if id, ok := unparen(x.Args[len(x.Args)-1]).(*ast.Ident); ok {
									item += "=" + id.Name
								}
							}
							out = append(out, item)
							return false
						}
					}
				}
				for _, arg := range x.Args {
					ast.Inspect(arg, walk)
				}
				ast.Inspect(sel.X, walk)
				if s, ok := a.info.Selections[sel]; ok {
					if fn, ok := s.Obj().(*types.Func); ok && strings.HasPrefix(funcName(fn), a.muOwner+".") {
						out = append(out, "call:"+funcName(fn))
					}
				}
				return false
			}
			return true
		case *ast.SelectorExpr:
			if st, f, ok := a.fieldOf(x); ok && st == a.muOwner && !a.syncFld[st+"."+f] {
				if writes[x] {
					out = append(out, "w:"+f)
				} else {
					out = append(out, "r:"+f)
				}
			}
			return true
		}
		return true
	}
	ast.Inspect(fd.Body, walk)
	return out
}

// ---------------------------------------------------------------- driver

type pkgResult struct {
	a           *analyzer
	fieldsOf    map[string][]string
	order       map[string][]string
	srcOrder    map[string][]string
	entryLocked map[string]bool
}

// analyzePkg runs the access analysis over the non-test files of one package directory.
func analyzePkg(dir, pkgName string, tracked []string, muOwner string) (*pkgResult, error) {
	fset := token.NewFileSet()
	ents, err := os.ReadDir(dir)
	if err != nil {
		return nil, err
	}
	var files []*ast.File
	for _, e := range ents {
		n := e.Name()
		if e.IsDir() || !strings.HasSuffix(n, ".go") || strings.HasSuffix(n, "_test.go") || strings.HasPrefix(n, "verif_") {
			continue
		}
		f, err := parser.ParseFile(fset, filepath.Join(dir, n), nil, 0)
		if err != nil {
			return nil, err
		}
		if f.Name.Name != pkgName {
			continue
		}
		files = append(files, f)
	}
	info := &types.Info{
		Selections: map[*ast.SelectorExpr]*types.Selection{},
		Uses:       map[*ast.Ident]types.Object{},
		Defs:       map[*ast.Ident]types.Object{},
	}
	conf := types.Config{Importer: &stubImporter{pkgs: map[string]*types.Package{}}, Error: func(error) {}, DisableUnusedImportCheck: true}
	conf.Check(pkgName, fset, files, info) // errors (unknown imported names) are expected and ignored

	tr := map[string]bool{}
	for _, t := range tracked {
		tr[t] = true
	}
	a := &analyzer{info: info, tracked: tr, pkgName: pkgName,
		syncFld: map[string]bool{}, muOwner: muOwner, accesses: map[access]bool{}, calls: map[callrec]bool{}, held: map[callrec]bool{}}
	// fields of sync types are internally synchronised
	fieldsOf := map[string][]string{}
	for _, f := range files {
		for _, d := range f.Decls {
			gd, ok := d.(*ast.GenDecl)
			if !ok || gd.Tok != token.TYPE {
				continue
			}
			for _, sp := range gd.Specs {
				ts := sp.(*ast.TypeSpec)
				st, ok := ts.Type.(*ast.StructType)
				if !ok || !a.tracked[ts.Name.Name] {
					continue
				}
				for _, fl := range st.Fields.List {
					isSync := false
					if sel, ok := fl.Type.(*ast.SelectorExpr); ok {
						if id, ok := sel.X.(*ast.Ident); ok && id.Name == "sync" {
							isSync = true
						}
					}
					for _, n := range fl.Names {
						fieldsOf[ts.Name.Name] = append(fieldsOf[ts.Name.Name], n.Name)
						if isSync {
							a.syncFld[ts.Name.Name+"."+n.Name] = true
						}
					}
				}
			}
		}
	}
	order := map[string][]string{}
	srcOrder := map[string][]string{}
	declName := func(fd *ast.FuncDecl) string {
		name := fd.Name.Name
		if fd.Recv != nil && len(fd.Recv.List) == 1 {
			t := fd.Recv.List[0].Type
			if s, ok := t.(*ast.StarExpr); ok {
				t = s.X
			}
			if id, ok := t.(*ast.Ident); ok {
				name = id.Name + "." + name
			}
		}
		return name
	}
	// A function all of whose call sites hold the mutex (and which is never started with `go`) is
	// analysed as entered with the mutex held. Iterate: the call sites' states depend on the entries.
	entryLocked := map[string]bool{}
	for round := 0; round < 5; round++ {
		a.accesses = map[access]bool{}
		a.calls = map[callrec]bool{}
		for _, f := range files {
			for _, d := range f.Decls {
				fd, ok := d.(*ast.FuncDecl)
				if !ok || fd.Body == nil {
					continue
				}
				name := declName(fd)
				a.cur = name
				a.nlit = 0
				entry := lkU
				if entryLocked[name] {
					entry = lkL
				}
				a.stmt(fd.Body, entry)
				for len(a.pending) > 0 {
					p := a.pending[0]
					a.pending = a.pending[1:]
					a.cur = p.name
					a.stmt(p.lit.Body, lkU)
				}
				switch name {
				case "resource.Event", "resource.ChangeEvent", "resource.AddEvent", "resource.RemoveEvent",
					"resource.CreateEvent", "resource.DeleteEvent":
					order[name] = effectOrder(fd)
				case "Service.serve", "Service.Shutdown", "Service.close", "Service.subscribe":
					srcOrder[name] = a.sourceOrder(fd)
				}
			}
		}
		next := map[string]bool{}
		seen := map[string]bool{}
		bad := map[string]bool{}
		for c := range a.calls {
			seen[c.callee] = true
			if c.lock != lkL {
				bad[c.callee] = true
			}
		}
		for f := range seen {
			if !bad[f] && f != "" && !ast.IsExported(f[strings.LastIndex(f, ".")+1:]) {
				next[f] = true
			}
		}
		same := len(next) == len(entryLocked)
		for f := range next {
			if !entryLocked[f] {
				same = false
			}
		}
		entryLocked = next
		if same {
			break
		}
	}
	// only calls of methods of the tracked structs matter for the discipline
	for c := range a.calls {
		keep := false
		for t := range a.tracked {
			if strings.HasPrefix(c.callee, t+".") {
				keep = true
			}
		}
		if !keep {
			delete(a.calls, c)
		}
	}

	return &pkgResult{a: a, fieldsOf: fieldsOf, order: order, srcOrder: srcOrder, entryLocked: entryLocked}, nil
}

func writeAccess(repo, out string) error {
	r, err := analyzePkg(repo, "res", []string{"Service", "work", "queryEvent"}, "Service")
	if err != nil {
		return err
	}
	a, fieldsOf, order, srcOrder, entryLocked := r.a, r.fieldsOf, r.order, r.srcOrder, r.entryLocked
	// other packages named by C16: the loggers and the BadgerDB store (struct names are qualified)
	type ext struct {
		dir, pkg string
		tracked  []string
		mu       string
	}
	var extAcc []access
	extFields := map[string][]string{}
	for _, e := range []ext{
		{"logger", "logger", []string{"MemLogger", "StdLogger"}, "MemLogger"},
		{"store/badgerstore", "badgerstore", []string{"Store", "QueryStore", "IndexQuery", "Index"}, ""},
	} {
		er, err := analyzePkg(filepath.Join(repo, e.dir), e.pkg, e.tracked, e.mu)
		if err != nil {
			return err
		}
		for k := range er.a.accesses {
			k.strct = e.pkg + "." + k.strct
			extAcc = append(extAcc, k)
		}
		for k, v := range er.fieldsOf {
			var fs []string
			for _, f := range v {
				if !er.a.syncFld[k+"."+f] {
					fs = append(fs, f)
				}
			}
			extFields[e.pkg+"."+k] = fs
		}
	}
	sortAcc := func(acc []access) {
		sort.Slice(acc, func(i, j int) bool {
			x, y := acc[i], acc[j]
			if x.strct != y.strct {
				return x.strct < y.strct
			}
			if x.field != y.field {
				return x.field < y.field
			}
			if x.fn != y.fn {
				return x.fn < y.fn
			}
			if x.kind != y.kind {
				return x.kind < y.kind
			}
			return x.lock < y.lock
		})
	}
	sortAcc(extAcc)
	var acc []access
	for k := range a.accesses {
		acc = append(acc, k)
	}
	sort.Slice(acc, func(i, j int) bool {
		x, y := acc[i], acc[j]
		if x.strct != y.strct {
			return x.strct < y.strct
		}
		if x.field != y.field {
			return x.field < y.field
		}
		if x.fn != y.fn {
			return x.fn < y.fn
		}
		if x.kind != y.kind {
			return x.kind < y.kind
		}
		return x.lock < y.lock
	})
	var calls []callrec
	for k := range a.calls {
		calls = append(calls, k)
	}
	sort.Slice(calls, func(i, j int) bool {
		x, y := calls[i], calls[j]
		if x.callee != y.callee {
			return x.callee < y.callee
		}
		if x.caller != y.caller {
			return x.caller < y.caller
		}
		return x.lock < y.lock
	})

	var b strings.Builder
	b.WriteString("/-! GENERATED by harness/cmd/extract (access.go) from /repo's source on every run of ./check — do not edit.\n")
	b.WriteString("`accesses`: every read (r), write (w), atomic read (ar) and atomic write (aw) of a field of\n")
	b.WriteString("`Service`, `work` and `queryEvent` in package res (fields of `sync` types excluded), with the\n")
	b.WriteString("enclosing function (`F$k`: the k-th function literal inside F, which runs later and on its own)\n")
	b.WriteString("and the state of the service mutex there: U not held, L held, M held on some paths, X dead code.\n")
	b.WriteString("`calls`: calls between functions of the package with the mutex state at the call site.\n")
	b.WriteString("`eventOrder`: source order of the effect categories of the event methods of resource.go. -/\n")
	b.WriteString("namespace GoRes.Generated\n\n")
	b.WriteString("/-- (struct, field, function, kind, mutex state) -/\ndef accesses : List (String × String × String × String × String) := [\n")
	for i, x := range acc {
		sep := ","
		if i == len(acc)-1 {
			sep = ""
		}
		fmt.Fprintf(&b, "  (%q, %q, %q, %q, %q)%s\n", x.strct, x.field, x.fn, x.kind, x.lock.String(), sep)
	}
	b.WriteString("]\n\n/-- (callee, caller, mutex state at the call) -/\ndef calls : List (String × String × String) := [\n")
	for i, x := range calls {
		sep := ","
		if i == len(calls)-1 {
			sep = ""
		}
		fmt.Fprintf(&b, "  (%q, %q, %q)%s\n", x.callee, x.caller, x.lock.String(), sep)
	}
	b.WriteString("]\n\n/-- calls out of package res (methods of other packages' values and of interfaces, function values,\nthe builtin `close`) made while the service mutex is held (L) or held on some paths (M): (function, callee as written, state) -/\ndef heldCalls : List (String × String × String) := [\n")
	var hc []callrec
	for k := range a.held {
		hc = append(hc, k)
	}
	sort.Slice(hc, func(i, j int) bool {
		if hc[i].caller != hc[j].caller {
			return hc[i].caller < hc[j].caller
		}
		return hc[i].callee < hc[j].callee
	})
	for i, x := range hc {
		sep := ","
		if i == len(hc)-1 {
			sep = ""
		}
		fmt.Fprintf(&b, "  (%q, %q, %q)%s\n", x.caller, x.callee, x.lock.String(), sep)
	}
	b.WriteString("]\n\n/-- the same table for the other packages C16 names: the loggers (mutex of `MemLogger`) and the\nBadgerDB store (no mutex of its own: per-id key locks and a single-consumer task queue) -/\ndef extAccesses : List (String × String × String × String × String) := [\n")
	for i, x := range extAcc {
		sep := ","
		if i == len(extAcc)-1 {
			sep = ""
		}
		fmt.Fprintf(&b, "  (%q, %q, %q, %q, %q)%s\n", x.strct, x.field, x.fn, x.kind, x.lock.String(), sep)
	}
	b.WriteString("]\n\n/-- declared fields (sync types excluded) of those structs -/\ndef extStructFields : List (String × List String) := [\n")
	var en []string
	for k := range extFields {
		en = append(en, k)
	}
	sort.Strings(en)
	for i, k := range en {
		sep := ","
		if i == len(en)-1 {
			sep = ""
		}
		qs := make([]string, len(extFields[k]))
		for j, f := range extFields[k] {
			qs[j] = fmt.Sprintf("%q", f)
		}
		fmt.Fprintf(&b, "  (%q, [%s])%s\n", k, strings.Join(qs, ", "), sep)
	}
	b.WriteString("]\n\n/-- functions analysed as entered with the mutex held (all their call sites hold it) -/\ndef entryLocked : List String := [")
	var el []string
	for f := range entryLocked {
		el = append(el, fmt.Sprintf("%q", f))
	}
	sort.Strings(el)
	b.WriteString(strings.Join(el, ", "))
	b.WriteString("]\n\n/-- source order of field accesses (`r:f`, `w:f`, `ar:f`, `aw:f`), mutex operations (`lock`, `unlock`), calls of\nService methods (`call:F`) and goroutine starts (`go:F`) in the lifecycle functions -/\ndef sourceOrder : List (String × List String) := [\n")
	var so []string
	for k := range srcOrder {
		so = append(so, k)
	}
	sort.Strings(so)
	for i, k := range so {
		sep := ","
		if i == len(so)-1 {
			sep = ""
		}
		qs := make([]string, len(srcOrder[k]))
		for j, f := range srcOrder[k] {
			qs[j] = fmt.Sprintf("%q", f)
		}
		fmt.Fprintf(&b, "  (%q, [%s])%s\n", k, strings.Join(qs, ", "), sep)
	}
	b.WriteString("]\n\n/-- the declared fields of the tracked structs -/\ndef structFields : List (String × List String) := [\n")
	var sn []string
	for k := range fieldsOf {
		sn = append(sn, k)
	}
	sort.Strings(sn)
	for i, k := range sn {
		sep := ","
		if i == len(sn)-1 {
			sep = ""
		}
		qs := make([]string, len(fieldsOf[k]))
		for j, f := range fieldsOf[k] {
			qs[j] = fmt.Sprintf("%q", f)
		}
		fmt.Fprintf(&b, "  (%q, [%s])%s\n", k, strings.Join(qs, ", "), sep)
	}
	b.WriteString("]\n\n/-- (event method, effect categories in source order) -/\ndef eventOrder : List (String × List String) := [\n")
	var on []string
	for k := range order {
		on = append(on, k)
	}
	sort.Strings(on)
	for i, k := range on {
		sep := ","
		if i == len(on)-1 {
			sep = ""
		}
		qs := make([]string, len(order[k]))
		for j, f := range order[k] {
			qs[j] = fmt.Sprintf("%q", f)
		}
		fmt.Fprintf(&b, "  (%q, [%s])%s\n", k, strings.Join(qs, ", "), sep)
	}
	b.WriteString("]\n\n")
	stOps, err := stateOpsLean(repo)
	if err != nil {
		return err
	}
	b.WriteString(stOps)
	ish, err := initShapeLean(repo)
	if err != nil {
		return err
	}
	b.WriteString("\n" + ish)
	b.WriteString("\nend GoRes.Generated\n")
	if old, err := os.ReadFile(out); err == nil && string(old) == b.String() {
		return nil
	}
	return os.WriteFile(out, []byte(b.String()), 0644)
}
