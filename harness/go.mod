module verif/harness

go 1.21

require (
	github.com/dgraph-io/badger v1.6.2
	github.com/jirenius/go-res v0.0.0
	github.com/nats-io/nats-server/v2 v2.1.8
	github.com/nats-io/nats.go v1.10.0
)

require (
	github.com/AndreasBriese/bbloom v0.0.0-20190825152654-46b345b51c96 // indirect
	github.com/cespare/xxhash v1.1.0 // indirect
	github.com/dgraph-io/ristretto v0.0.2 // indirect
	github.com/dustin/go-humanize v1.0.0 // indirect
	github.com/golang/protobuf v1.4.0 // indirect
	github.com/jirenius/keylock v1.0.0 // indirect
	github.com/jirenius/taskqueue v1.1.0 // indirect
	github.com/jirenius/timerqueue v1.0.0 // indirect
	github.com/nats-io/jwt v0.3.2 // indirect
	github.com/nats-io/nkeys v0.1.4 // indirect
	github.com/nats-io/nuid v1.0.1 // indirect
	github.com/pkg/errors v0.8.1 // indirect
	golang.org/x/crypto v0.0.0-20200323165209-0ec3e9974c59 // indirect
	golang.org/x/net v0.0.0-20190620200207-3b0461eec859 // indirect
	golang.org/x/sys v0.0.0-20190726091711-fc99dfbffb4e // indirect
	google.golang.org/protobuf v1.22.0 // indirect
)

replace github.com/jirenius/go-res => /repo
