module verif/harness

go 1.21

require (
	github.com/jirenius/go-res v0.0.0
	github.com/nats-io/nats.go v1.10.0
)

require (
	github.com/jirenius/timerqueue v1.0.0 // indirect
	github.com/nats-io/jwt v0.3.2 // indirect
	github.com/nats-io/nkeys v0.1.4 // indirect
	github.com/nats-io/nuid v1.0.1 // indirect
	golang.org/x/crypto v0.0.0-20200323165209-0ec3e9974c59 // indirect
)

replace github.com/jirenius/go-res => /repo
