#!/bin/sh
# usage: tools/seeded_sweep.sh [name-glob]
# Runs every seeded change under seeded/ (or those matching the glob, e.g. 'C0*') against the quick
# check of the property it breaks, undoing it afterwards. The repository the change is applied to is
# $VERIF_REPO (default /repo) - the same one ./check builds against. Writes seeded/RESULTS[.<glob>].md.
cd "$(dirname "$0")/.."
REPO=${VERIF_REPO:-/repo}
GLOB=${1:-*}
OUT=seeded/RESULTS.md
[ "$GLOB" != "*" ] && OUT="seeded/RESULTS.$(echo "$GLOB" | tr -d '*?[]').md"
echo "| seeded change | property | check result |" > $OUT.tmp
echo "|---|---|---|" >> $OUT.tmp
for d in seeded/$GLOB/; do
  n=$(basename $d)
  [ -f $d/patch.diff ] || continue
  id=$(python3 -c "import json; print(json.load(open('$d/meta.json'))['property'])")
  git -C $REPO apply $(pwd)/$d/patch.diff || { echo "| $n | $id | patch does not apply |" >> $OUT.tmp; continue; }
  res=$(timeout 900 ./check $id --tier quick 2>&1 | grep -E "^(VIOLATION|OK)" | head -1)
  git -C $REPO checkout -- .
  [ -z "$res" ] && res="NO RESULT (timeout or crash)"
  echo "| $n | $id | $res |" >> $OUT.tmp
  echo "$n: $res"
done
mv $OUT.tmp $OUT
