#!/bin/sh
# Runs every seeded change under /verif/seeded against the quick check of the property it breaks
# (and optional extra properties given in meta.json "also_check"), undoing it afterwards.
cd /verif
OUT=seeded/RESULTS.md
echo "| seeded change | property | check result |" > $OUT.tmp
echo "|---|---|---|" >> $OUT.tmp
for d in seeded/*/; do
  n=$(basename $d)
  [ -f $d/patch.diff ] || continue
  id=$(python3 -c "import json; print(json.load(open('$d/meta.json'))['property'])")
  git -C /repo apply /verif/$d/patch.diff || { echo "| $n | $id | patch does not apply |" >> $OUT.tmp; continue; }
  res=$(timeout 900 ./check $id --tier quick 2>&1 | grep -E "^(VIOLATION|OK|KNOWN)" | head -2 | tr '\n' ' ')
  git -C /repo checkout -- .
  echo "| $n | $id | $res |" >> $OUT.tmp
  python3 tools/record_mutant.py $n /tmp/mut/out/$(echo $n | tr - /) "./check $id --tier quick: $res" > /dev/null
done
mv $OUT.tmp $OUT
cat $OUT
