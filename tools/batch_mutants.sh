#!/bin/sh
# usage: tools/batch_mutants.sh "C10/2 C17/1 ..."   (directories under ${MUTOUT:-/tmp/mut/out})
for m in $1; do
  id=${m%/*}
  echo "== $m"
  timeout 900 /verif/tools/trymutant.sh ${MUTOUT:-/tmp/mut/out}/$m/patch.diff $id 2>&1 | tail -2
  git -C /repo checkout -- . 2>/dev/null
done
