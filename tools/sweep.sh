#!/bin/sh
# usage: tools/sweep.sh <first-seed> <last-seed> [tier] [props...]  — unchanged-tree sweep: every check must exit 0
cd "$(dirname "$0")/.."
A=$1; B=$2; TIER=${3:-quick}; shift; shift; shift 2>/dev/null
PROPS="$*"
[ -z "$PROPS" ] && PROPS=$(python3 -c "import json; print(' '.join(c['property_id'] for c in json.load(open('MANIFEST.json'))['checks']))")
FAIL=0
for seed in $(seq $A $B); do
  for p in $PROPS; do
    out=$(VERIF_SEED=$seed ./check $p --tier $TIER 2>&1 | grep -E "^(OK|VIOLATION|KNOWN)" | tr '\n' ' ')
    case "$out" in
      *VIOLATION*) FAIL=$((FAIL+1)); echo "seed=$seed $p: $out"; cp replays/$p-*.json /tmp/ 2>/dev/null;;
      *OK*) : ;;
      *) FAIL=$((FAIL+1)); echo "seed=$seed $p: NO RESULT";;
    esac
  done
  echo "seed $seed done, failures so far: $FAIL"
done
echo "sweep finished: failures=$FAIL"
