#!/bin/sh
# usage: tools/seeded_one.sh <name>...  — re-run single seeded changes and update their rows in seeded/RESULTS.md
cd /verif
for n in "$@"; do
  d=seeded/$n
  id=$(python3 -c "import json; print(json.load(open('$d/meta.json'))['property'])")
  git -C /repo apply /verif/$d/patch.diff || { echo "$n: patch does not apply"; continue; }
  res=$(timeout 900 ./check $id --tier quick 2>&1 | grep -E "^(VIOLATION|OK)" | head -1)
  git -C /repo checkout -- .
  python3 - "$n" "$id" "$res" <<'PY'
import sys,re
n,id,res=sys.argv[1:4]
p='/verif/seeded/RESULTS.md'
lines=open(p).read().splitlines()
row="| %s | %s | %s |" % (n,id,res)
out=[];done=False
for l in lines:
    if l.startswith("| %s |" % n):
        out.append(row);done=True
    else: out.append(l)
if not done: out.append(row)
open(p,'w').write("\n".join(out)+"\n")
PY
  python3 tools/record_mutant.py $n /tmp/mut/out/$(echo $n | tr - /) "./check $id --tier quick: $res" > /dev/null
  echo "$n: $res"
done
