#!/usr/bin/env python3
"""usage: record_mutant.py <name> <orig_dir> <check-result-line...>  — finalise /verif/seeded/<name>/meta.json"""
import json, sys, os
name, orig = sys.argv[1], sys.argv[2].rstrip('/') + '/'
res = " ".join(sys.argv[3:])
p = '/verif/seeded/%s/meta.json' % name
m = json.load(open(p))
m['demo_cmd'] = m['demo_cmd'].replace(orig, '/verif/seeded/%s/' % name)
m['breaks_property'] = m.get('property')
m['confirmed_by'] = ("tools/confirm_mutant.sh in a scratch worktree of /repo: applies patch.diff, go build ./... and -tags verif, "
                     "go test -vet=off -count=1 ./... (passes), demo fails with the change and passes without it")
m['check_result'] = res
json.dump(m, open(p, 'w'), indent=1)
print(name, res)
