#!/bin/sh
# usage: tools/confirm_mutant.sh <dir with patch.diff, demo files, meta.json> <name>
# Confirms in a scratch worktree that the change compiles, passes the pinned suite, and that the
# demonstration fails with the change and passes without it. Then stores it under /verif/seeded/<name>.
D="$1"; NAME="$2"
export GOFLAGS=-mod=mod GOPROXY=off GOSUMDB=off GOTOOLCHAIN=local
WT=/tmp/confirm/$NAME
rm -rf "$WT"; git -C /repo worktree prune; git -C /repo worktree add -q --detach "$WT" HEAD || exit 3
cd "$WT"
DEMO=$(python3 -c "import json,sys; print(json.load(open('$D/meta.json'))['demo_cmd'])")
git apply "$D/patch.diff" || { echo "CONFIRM: patch does not apply"; exit 3; }
go build ./... && go build -tags verif ./... || { echo "CONFIRM: does not build"; exit 4; }
if go test -vet=off -count=1 ./... > /tmp/confirm/$NAME.suite.log 2>&1; then SUITE=pass; else SUITE=FAIL; fi
# place the demonstration file(s) in the package directory the demo command tests
PKG=$(python3 -c "
import json,shlex
toks=shlex.split(json.load(open('$D/meta.json'))['demo_cmd'])
c=[t for t in toks if t=='.' or t.startswith('./')]
print((c[-1] if c else '.').rstrip('/') or '.')")
mkdir -p "$PKG"
for f in "$D"/*.go; do [ -f "$f" ] && cp "$f" "$PKG"/; done
sh -c "$DEMO" > /tmp/confirm/$NAME.demo_with.log 2>&1; WITH=$?
git checkout -q -- . 
sh -c "$DEMO" > /tmp/confirm/$NAME.demo_without.log 2>&1; WITHOUT=$?
echo "CONFIRM $NAME: suite=$SUITE demo_with_change_exit=$WITH demo_without_change_exit=$WITHOUT"
cd /; git -C /repo worktree remove --force "$WT"
if [ "$SUITE" = pass ] && [ "$WITH" != 0 ] && [ "$WITHOUT" = 0 ]; then
  mkdir -p /verif/seeded/$NAME && cp -r "$D"/* /verif/seeded/$NAME/ && echo "stored /verif/seeded/$NAME"
else
  echo "NOT CONFIRMED"; tail -5 /tmp/confirm/$NAME.demo_with.log /tmp/confirm/$NAME.demo_without.log
fi
