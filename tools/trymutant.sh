#!/bin/sh
# usage: tools/trymutant.sh <patch.diff> <PROP> [tier]   — apply a seeded change to /repo, run the check, undo it
P="$1"; ID="$2"; TIER="${3:-quick}"
cd /verif
git -C /repo apply "$P" || { echo "patch does not apply"; exit 3; }
./check "$ID" --tier "$TIER"; RC=$?
git -C /repo checkout -- . 
git -C /repo status --short | grep -v '^??' | head -3
echo "exit=$RC"
