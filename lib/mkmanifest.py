#!/usr/bin/env python3
"""Regenerates MANIFEST.json from lib/props.py + lib/manifest_text.py so that the
manifest is always consistent with what ./check can decide."""
import json, os, sys
ROOT = os.path.dirname(os.path.dirname(os.path.abspath(__file__)))
sys.path.insert(0, os.path.join(ROOT, "lib"))
from props import PROPS
from manifest_text import TEXT, NOT_YET, HOOK_COMMITS, PENDING

ids = [json.loads(l)["id"] for l in open(os.path.join(ROOT, "properties.jsonl"))]
checks = []
na = []
for pid in ids:
    if pid in PROPS and pid in TEXT and pid not in PENDING:
        t = TEXT[pid]
        checks.append({
            "property_id": pid,
            "quick_cmd": "./check %s --tier quick" % pid,
            "thorough_cmd": "./check %s --tier thorough" % pid,
            "evidence_file": "/verif/evidence/%s.json" % pid,
            "replay_cmd_template": "./check %s --replay {path}" % pid,
            "engine": "lean4-proof+correspondence",
            "level_claimed": {"category": "proof", "text": t["text"], "design_ref": t.get("design_ref", "DESIGN.md §4 " + pid)},
            "level_note": t["note"],
            "technique": t.get("technique", "Lean 4 theorems about an executable model; model tied to the Go code by a differential correspondence run"),
        })
    else:
        na.append({"property_id": pid, "reason": NOT_YET.get(pid, "check not built yet (work in progress); see DESIGN.md §4 for the planned Lean model and theorems")})
m = {
    "version": 1,
    "setup_cmd": "./setup.sh",
    "hooks": {
        "guard": "verif",
        "enable": "go build -tags verif (the harness in /verif/harness is built with it against /repo via a replace directive)",
        "baseline_off_cmd": "cd /repo && GOFLAGS=-mod=mod GOPROXY=off GOSUMDB=off go test -vet=off -count=1 -timeout 25m ./...",
        "source_commits": HOOK_COMMITS,
        "add_only": True,
    },
    "engines": [{
        "name": "lean4-proof+correspondence", "path": "/verif/check",
        "serves_properties": [c["property_id"] for c in checks],
        "kind_free_text": "Lean 4 model + spec + theorems (lean/), Go differential harness (harness/), python orchestrator (check)",
    }],
    "checks": checks,
    "not_applicable": na,
    "notes": "All checks: ./check <ID> [--tier quick|thorough] [--replay file]. VERIF_SEED selects the generator seed. See DESIGN.md.",
}
json.dump(m, open(os.path.join(ROOT, "MANIFEST.json"), "w"), indent=1)
print("checks:", [c["property_id"] for c in checks], "not_applicable:", len(na))
