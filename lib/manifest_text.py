HOOK_COMMITS = ['0b4062a', 'ab40d75', '04e6a20', 'f1571dc', '486cecc', '353414c']
# properties whose check exists but whose theorems are still being proved: not claimed yet
PENDING = set()
NOT_YET = {}
TEXT = {
    "C17": {
        "text": "Lean 4 theorems (Props/C17.lean) over ALL byte strings / token lists: IsValid = the tokenising parser accepts; "
                "Matches and Values equal the token-wise relation/extraction; matches <-> values succeeds; substituting the values back "
                "matches (and is the name without anonymous wildcards); covers <-> every name of q matches p; IndexWildcard, path/part/RID "
                "validators consistent; IDTransformer round trip. The model is a byte-for-byte transcription of the Go loops and is tied to "
                "/repo by running both on >600k generated (pattern, name) inputs per quick run (bounded-exhaustive short strings + structured random).",
        "note": "Trusted: Lean kernel; the hand transcription pattern.go -> Model/Pattern.lean as far as the correspondence run exercises it; "
                "the Go harness. Patterns with a repeated $tag are outside the substitution law (a Go map cannot hold both values).",
    },
    "C09": {
        "text": "Lean 4 theorems (Props/C09.lean) about the model of setDefaultOwnership/subscribe for EVERY configuration: no subscribed subject "
                "is matched by another (irredundant, no hypothesis on the patterns); every request pattern of every owned pattern - and every concrete "
                "get/call/auth/access subject of a matching resource name and method - is matched by a subscription; all subjects are valid NATS subjects; "
                "Matches coincides with NATS subject matching on such subjects; default ownership is the service name and everything below it ('>' without name). "
                "Tie: the real Service is served on a recording connection for exhaustive small and random ownership configurations; its subscriptions, queue "
                "group and system.reset content are compared with the model and judged by the Lean NATS-side specification (Subs.judge).",
        "note": "Trusted: Lean kernel; recording connection re-implements nats.go subject validation; ownership entries are assumed to be valid patterns of "
                "literal tokens, * and a trailing > (ownedOk). Reconnect-triggered resets are not exercised (no real NATS in quick).",
    },
    "C06": {
        "text": "Lean 4 theorems (Props/C06.lean) about the trie model of mux.go for EVERY tree reachable by registrations and every name: lookup is sound, "
                "complete and returns a most specific stored pattern (literal > placeholder > full wildcard, token by token); registration stores exactly the "
                "pattern, frames every other pattern, rejects duplicates and invalid patterns, accepts every documented-valid pattern with distinct tags "
                "(incl. the anonymous *); lookup never panics on any input string; params and group indexes are exact. Mount/Route/path-prefix arrangements are "
                "covered by the executable model + an independent executable spec (registration list + 'best match'), both compared with the real Mux on "
                "~10^5 (quick) / 2.6*10^6 (thorough) generated operations across up to 3 nested muxes.",
        "note": "Trusted: Lean kernel; hand transcription of mux.go/group.go; harness. The Lean theorems are for a single mux (no Mount); the mounted arrangements "
                "are tied by model=spec=impl agreement only. Listener-only patterns (rejected by Serve) and cyclic mounts are outside the specification.",
    },
    "C10": {
        "text": "Lean 4 theorems (Props/C10.lean): the remove/add events of collectionDiff (modelled as written: prefix/suffix trimming, LCS table, "
                "backtracking switch, adds records, final index formula over Int), applied in order with range checks, turn ANY old list into ANY new list - "
                "for an arbitrary content of the LCS table; equal lists publish nothing; the change event of modelDiff turns any old model into any new one with "
                "removed keys as delete actions and only differing keys sent; changeHandler's create/delete/diff selection with or without default keeps a client "
                "coherent with what get serves. Tie: real store.Handler on mockstore inside a real Service; all pairs of collections of length <= 4 (quick) / <= 5 "
                "(thorough) over 3 values plus random mutation histories over all handler configurations; the published events are fed to the Lean reference "
                "client, whose cache must equal every later get.",
        "note": "Trusted: Lean kernel; transcription of storehandler.go; encoding/json; mockstore; element equality = byte equality of canonical JSON (C18 covers Value.Equal). "
                "A failing Transformer.Transform is not modelled.",
    },
    "C04": {
        "text": "Lean 4 theorems (Props/C04.lean) over the model of processRequest/executeHandler where a handler is an ARBITRARY script of responder, event, meta, "
                "timeout, parse and panic actions: exactly one response is published on the reply subject for every configuration, request type, payload and script, "
                "except for an access request on a pattern without access handler, which stays silent; no prefix of the execution ever contains two responses; a panic "
                "is absorbed. Tie: thousands of generated (request, handler, script) cases run on a real Service over a recording connection; the full effect log is "
                "compared with the model and the response count is judged by the Lean specification.",
        "note": "Trusted: Lean kernel; transcription of request.go/resource.go/service.go into Model/Req.lean; encoding/json (payloads canonicalised); the script interpreter in the harness. Handlers that never return are excluded; panic(nil) has Go >= 1.21 semantics.",
    },
    "C05": {
        "text": "Lean 4 theorems (Props/C05.lean): subject splitting for every resource name (dots and method-like tokens included); the handler decision table stated "
                "outright (named method, else *, new prefers the new handler); notFound / methodNotFound / internalError when nothing can be invoked; the handler sees the "
                "request fields verbatim; *Error values passed to Error or panicked are returned verbatim, any other panic or a missing reply is system.internalError. "
                "Tie as C04; the Lean specification judges which handler ran, what it saw and the response code.",
        "note": "Trusted: Lean kernel; transcription of request.go/resource.go/service.go into Model/Req.lean; encoding/json (payloads canonicalised); the script interpreter in the harness. Handlers that never return are excluded; panic(nil) has Go >= 1.21 semantics. JSON decoding of the request payload is encoding/json; the model receives the decoded fields.",
    },
    "C07": {
        "text": "Lean 4 theorems (Props/C07.lean): every message process publishes, for every script, is built by a documented constructor on a documented subject "
                "(reply: pre-response or exactly one of result/resource/error, meta only for HTTP requests; event.<rid>.<name>; conn.<cid>.token); unmarshalable values give "
                "system.internalError responses and silent events; each event type carries its documented fields. Tie as C04; additionally every message the real service "
                "publishes is parsed by the Lean JSON reader and judged by the Lean conformance predicate (subject grammar, member sets, meta only when HTTP).",
        "note": "Trusted: Lean kernel; transcription of request.go/resource.go/service.go into Model/Req.lean; encoding/json (payloads canonicalised); the script interpreter in the harness. Handlers that never return are excluded; panic(nil) has Go >= 1.21 semantics. Connection ids that are not valid name parts are outside the property.",
    },
    "C08": {
        "text": "Lean 4 theorems (Props/C08.lean): for change/add/remove/create/delete/custom the effects of one call are [apply?] ++ [publish] ++ listeners in registration order; "
                "a failing apply handler, an apply handler reporting no change, or an invalid call publishes nothing and runs no listener; the log of a script is the "
                "concatenation of its steps' effects (program order). Tie as C04: apply handlers, the connection and listeners feed one ordered log which is compared with "
                "the model and judged by the Lean order specification.",
        "note": "Trusted: Lean kernel; transcription of request.go/resource.go/service.go into Model/Req.lean; encoding/json (payloads canonicalised); the script interpreter in the harness. Handlers that never return are excluded; panic(nil) has Go >= 1.21 semantics. Event values that cannot be marshalled are outside the property (nothing is published but listeners run; documented in DESIGN.md).",
    },
    "C01": {
        "text": "Lean 4 theorem (Props/C01.lean): in EVERY state reachable by ANY sequence of actions of the pool transition system (any number of workers, submitters, groups, "
                "start/stop/start cycles, every interleaving at mutex granularity, even spurious wake-ups) no two workers run callbacks of the same non-parallel group; "
                "invariant: at most one live work item per group, registered in rwork. Tie: traces of the instrumented real service (notes made under the mutex) from stress "
                "workloads (1-32 workers, requests + WithGroup, mid-way Shutdown, restart cycles, schedule perturbation at gates) and steered schedules are replayed through "
                "Pool.step action by action (observed behaviours are model behaviours) and judged independently for mutual exclusion.",
        "note": "Trusted: Lean kernel; the pool model (one action per critical section of the service mutex); the verif hooks and the trace recorder; sync.Mutex/Cond/WaitGroup/atomic as documented. A Wait that returns before its Signal was recorded is validated as a spurious wake-up (the model allows them; the theorems hold with them). Callbacks terminate.",
    },
    "C02": {
        "text": "Lean 4 theorems (Props/C02.lean) for every reachable state: per group the started callbacks are a subsequence of the accepted ones in enqueue order; without Shutdown "
                "accepted = started ++ pending exactly (never dropped, never reordered); distinct submissions never start twice; nothing unaccepted runs; rwork registers exactly the "
                "groups with a live item; no lost wake-up (queued work implies a worker that will look or a submitter that owes a Signal); a worker looking at the queue starts its head. "
                "Tie as C01; the trace judge checks FIFO and exactly-once against the enqueue order under the mutex, and the model replay checks every started callback against the one "
                "the model says is next.",
        "note": "Trusted: Lean kernel; the pool model (one action per critical section of the service mutex); the verif hooks and the trace recorder; sync.Mutex/Cond/WaitGroup/atomic as documented. A Wait that returns before its Signal was recorded is validated as a spurious wake-up (the model allows them; the theorems hold with them). Callbacks terminate. 'Eventually starts' is shown as no-lost-wakeup + progress of the worker's own step, under fairness of worker steps.",
    },
    "C03": {
        "text": "Lean 4 theorems (Props/C03.lean): once close() has set the queue to nil only the next Serve re-opens it (a submission that passed the state check earlier is refused under the "
                "lock); Shutdown returns only when all workers have exited, hence drained; nothing starts afterwards; with the queue closed the sum of the workers' remaining steps "
                "never increases, strictly decreases with every worker step, and after the broadcast no worker is blocked (bounded exit); a stopped service can be served again. "
                "Tie as C01 plus steered schedules through the runWith/worker gates (late submission after close, retire/append window, Signal gap) for 1-3 workers; the judge requires "
                "Shutdown and Serve to return, no callback after it, no panicking API call, the connection closed once.",
        "note": "Trusted: Lean kernel; the pool model (one action per critical section of the service mutex); the verif hooks and the trace recorder; sync.Mutex/Cond/WaitGroup/atomic as documented. A Wait that returns before its Signal was recorded is validated as a spurious wake-up (the model allows them; the theorems hold with them). Callbacks terminate. PARTIAL: real-time bounds, the Go runtime's WaitGroup reuse rule and callbacks that never return are outside the model; liveness is 'finitely many enabled steps remain'.",
    },
    "C11": {
        "text": "Lean 4 theorems (Props/C11.lean) about the store operation model for every state, id and history: a successful Create/Update/Delete acts exactly as on a key-value map; "
                "duplicate / empty id / not-found / wrong type / veto fail, leave the state unchanged and run no callback; exactly one callback per successful mutation with the value "
                "immediately before and after; over any history the callbacks of an id form a chain; reads inside the transaction see its own writes; the per-id read/write lock model "
                "(Model/Lock.lean): while a transaction is open on an id no write lock on it is granted, writer and readers never coexist. Tie: the same operation streams run "
                "on real badgerstore (with and without prefix, typed) on a real BadgerDB and on mockstore, results and callbacks compared with the model (= the map specification): single "
                "operations, several operations inside one write transaction (txn), lock grants observed with a held transaction and a contender goroutine (excl), and concurrent histories "
                "of 2-6 goroutines contending on 1-3 ids, ordered by stamps taken inside the transactions and replayed by the Lean side as a per-id sequential history (results and callbacks).",
        "note": "Trusted: Lean kernel; the transcription of badgerstore into Model/Index.lean / Model/StoreMap.lean; BadgerDB v1.6.2 (transactions atomic and durable, iterator Seek/ValidForPrefix semantics as modelled and exercised on a real database in a temp dir); taskqueue FIFO; encoding/json. Per-id mutual exclusion between goroutines is keylock / the mockstore mutex (trusted dependencies, modelled as a read/write lock and observed by the excl operations); concurrent histories are sampled executions, not all interleavings.",
    },
    "C12": {
        "text": "Lean 4 theorems (Props/C12.lean): a crash leaves exactly a committed prefix of the transactions (the one in flight all-or-nothing); Init is one transaction that seeds only missing "
                "ids and sets the marker, later Inits are the identity (no duplication, no resurrection of deleted seeds, no half-seeding); RebuildIndexes makes every index exactly the image "
                "of the stored values whatever garbage it held. Tie: Init / corrupt-the-index / RebuildIndexes / query sequences on a real BadgerDB compared with the model and the "
                "sort-filter-window specification; a crash harness kills a child process at every instrumented point of a seeded workload and compares the reopened database with the model's "
                "recovered state for that cut.",
        "note": "Trusted: Lean kernel; the transcription of badgerstore into Model/Index.lean / Model/StoreMap.lean; BadgerDB v1.6.2 (transactions atomic and durable, iterator Seek/ValidForPrefix semantics as modelled and exercised on a real database in a temp dir); taskqueue FIFO; encoding/json. PARTIAL: BadgerDB's own atomicity/durability of one Update transaction (SyncWrites) and OS behaviour under power loss are trusted, not modelled.",
    },
    "C13": {
        "text": "Lean 4 theorems (Props/C13.lean): the on-disk order of <key>\\0<id> is the lexicographic order of (key, id) for separator-free keys; FetchCollection over the sorted database keys "
                "(BadgerDB forward/reverse Seek + ValidForPrefix semantics, the LastIndexByte split, the qplen guard, filter, offset, limit) equals sort-filter-reverse-drop-take of the index "
                "entries for EVERY prefix, filter, offset, limit and direction; after every history of mutations the index entries are exactly the image of the values and the database stays "
                "sorted; zero limit is empty. (The only extra hypothesis found necessary by the proof: fewer than 2^63 hits when the limit is negative.) Tie: random histories on a real "
                "BadgerDB + QueryStore, queries over the parameter grid after Flush (an index task is delayed at its hook so that a premature Flush shows), compared with model and spec.",
        "note": "Trusted: Lean kernel; the transcription of badgerstore into Model/Index.lean / Model/StoreMap.lean; BadgerDB v1.6.2 (transactions atomic and durable, iterator Seek/ValidForPrefix semantics as modelled and exercised on a real database in a temp dir); taskqueue FIFO; encoding/json. Known finding: keys containing the byte 0x00 are not ordered by (key,id) (on-disk format); reverse queries assume no key byte 0xFF directly after the prefix.",
    },
    "C14": {
        "text": "Lean 4 theorems (Props/C14.lean): the query-change callbacks run exactly when the mutation changes the key in some index; if the mutation changes what a query returns (any "
                "prefix, filter, window, direction) the change reports it affected; if neither the old nor the new key matches it reports it unaffected; same key never reported; "
                "through the query handler (Model/QueryHandler.lean = store/querystorehandler.go + the stock transformers): whatever sound answer the query store gives to Events (reset, or "
                "result events), a client of an ordinary or of a query resource that reacts to what it is told (get again / apply events / new result) holds the transformed new result "
                "(resource_client_coherent, query_client_coherent), BadgerDB's answer is sound for every mutation and query (badger_answer_sound), hence badger_clients_coherent end to end. "
                "Tie: real QueryStore with watches; after each Flush the callbacks (ids in order, affected flags per watched query) are compared with the model and judged against "
                "the values by the Lean specification; the qh stream runs store.QueryHandler on a real service over a real BadgerDB (ordinary, path-parameter and query resources, "
                "model and collection transformers, AffectedResources; the badger query store and a wrapper answering with result events): a reference client written in Lean is fed what "
                "the service publishes and answers and must hold what sort-filter-window over the values gives after every mutation.",
        "note": "Trusted: Lean kernel; the transcription of badgerstore into Model/Index.lean / Model/StoreMap.lean; BadgerDB v1.6.2 (transactions atomic and durable, iterator Seek/ValidForPrefix semantics as modelled and exercised on a real database in a temp dir); taskqueue FIFO; encoding/json. BadgerDB's Events() returns no event list (as in the code); the event paths of the handler are exercised with a harness-side query store wrapper that computes result events from a shadow copy of the values (its algorithm is mirrored by QueryHandler.diffEvents in the model; its soundness is checked at run time by the reference client, not proved).",
    },
    "C18": {
        "text": "Lean 4 theorems (Props/C18.lean): Ref/SoftRef.MarshalJSON and MarshalDataValue assemble exactly {\"rid\":enc}, {\"rid\":enc,\"soft\":true}, {\"data\":enc} for every encoding of every "
                "length (make/copy offsets as written); data-value wrap/unwrap is the identity on every JSON tree; store.Value classification as the protocol defines it; Equal is an "
                "equivalence that implies equal meaning; a response is exactly one of result/resource/error and the service's envelopes are classified as what they are. Tie: real "
                "json.Marshal of Ref/SoftRef on strings with quotes, control characters, non-ASCII; MarshalDataValue/UnmarshalDataValue/Value.UnmarshalJSON/Equal/ParseResponse on JSON texts "
                "with surrounding whitespace and extra members, compared with the model (Lean JSON reader) and the protocol specification.",
        "note": "Trusted: Lean kernel; encoding/json (text <-> tree, string escaping); the small JSON reader in Model/Json.lean (specification side). JSON member names are matched case-sensitively "
                "in the model (encoding/json is case-insensitive; the generator uses exact case).",
    },
    "C19": {
        "text": "Lean 4 theorems (Props/C19.lean) over the model of SendRequest's select loop as a function of any timed message history: the first message that is not a pre-response and "
                "arrives before the current deadline is returned and everything later is ignored; each timeout pre-response restarts the deadline with the announced duration and is "
                "reported to the callbacks, other pre-responses change nothing; the result is the timeout error exactly when no response arrives before the current deadline; marshal, "
                "subscribe and publish failures are internal errors without waiting; the subscription is released on every path; pre-response recognition (first byte a letter, "
                "timeout:\"<digits>\"). Tie: real SendRequest against a scripted connection (failing operations, sequences of pre-responses, responses and silences on a 30 ms grid, "
                "arrivals never on a deadline), run 48-wide in parallel.",
        "note": "PARTIAL: scheduler latency and timer resolution are outside the model (grid of 30 ms, arrivals and deadlines at least one unit apart); a message exactly at a deadline is a genuine race "
                "in select and excluded. Trusted: Lean kernel, reflect.StructTag.Lookup/strconv.Atoi as modelled, nats.Subscription.Unsubscribe (the release is the deferred call in the code).",
    },
    "C15": {
        "text": "Lean 4 theorems (Props/C15.lean) over the model of a query event's life: every query request on an active query event gets exactly one response for EVERY callback script "
                "(replies, double replies, only events, nothing, panics of any kind, wrong resource type, pre-responses); a missing query or a malformed payload is answered with an error; "
                "the callback is called with nil at most once over any history and exactly once after the expiry; after it no request reaches the callback and nothing is published; "
                "listener and subscription are released; a failed subscription calls back with nil once and publishes nothing. Serialisation in the resource's group is C01/C02 (the pool "
                "traces include query requests and expiry callbacks). Tie: a real Service with a 150 ms query event duration on the recording connection: scripted callbacks, the expiry, "
                "late requests after the expiry, failing subscription; the number of goroutines in startQueryListener is read from the goroutine dump.",
        "note": "Trusted: Lean kernel; timerqueue (fires once after the duration); nats Subscription.Drain (the recording connection cannot observe it: subscription release is the Drain call in "
                "the code). A request racing the expiry may be answered or dropped (the 'while it is active' boundary); Parallel resources have no serialisation by design.",
    },
    "C16": {
        "text": "Lean 4 theorems (Props/C16.lean) over the pool model, whose action order is the synchronisation order of the service mutex: in every reachable state every started callback of a "
                "group except the most recent one has finished, the running one is the most recent, an idle group has all its callbacks finished, a running callback is not finished and "
                "nothing finishes twice - so the end of each callback of a group happens-before the start of the next one and group-confined user state needs no synchronisation. "
                "The absence of unsynchronised accesses inside the library is SEARCHED, not proved: a harness binary built with the Go race detector runs concurrent client programs over "
                "the whole public API (requests, With/WithGroup, Reset/ResetAll/TokenEvent/TokenReset, store mutations on foreign goroutines publishing events, query events, badgerstore "
                "transactions, index queries and Flush, the memory logger, Shutdown and restart racing all of them; handlers write per-group scratch memory without synchronisation) and the "
                "pool stress/steered workloads; any report is a violation with the report as replay.",
        "note": "PARTIAL: a race detector run is not a proof - it reports only races that occur in the executions explored (12 scenarios + ~75 pool workloads per quick run, more in thorough). "
                "Races inside dependencies and the memory model below mutex/atomic/channel edges are outside. The static access-discipline table planned in DESIGN.md 4/C16(b) is not built.",
    },
    "C20": {
        "text": "Lean 4 theorems (Props/C20.lean) over the model of the deprecated BadgerDB middleware (apply handlers + getResource of both packages, composed with the event methods): an event "
                "that cannot be applied (index out of range, create on an existing resource or with a default, change/remove on a missing resource without default, wrong type, negative index) "
                "publishes nothing and leaves storage unchanged; nothing changes without a published event; the served value is the fold of the successfully applied events for every history; "
                "a change sets exactly the given keys and the old values handed to listeners are exactly the previous stored values; a change that changes nothing is silent; the data handed "
                "to delete listeners is the previous stored value; add/remove are list insertion/deletion. Tie: both packages (middleware.BadgerDB, resbadger Model/Collection) on a real "
                "BadgerDB: random event sequences on models and collections with and without default, get after every event, database closed and reopened in between and at the end; "
                "publication, failure, listener old values / delete data and the served value compared with the model and with the fold of the published events.",
        "note": "Trusted: Lean kernel; transcription of both packages into one model (they differ only in deleting a resource that is not stored: resbadger fails, middleware publishes); BadgerDB; "
                "encoding/json and reflect.DeepEqual (values are JSON primitives). resbadger index sets, typed values (Type option) and QueryCollection are not covered.",
    },
}


# ---- later additions (applied to the evaluated texts) -------------------------------------
def _rep(pid, field, a, b):
    t = TEXT[pid][field]
    assert a in t, (pid, a[:50])
    TEXT[pid][field] = t.replace(a, b)


_rep('C03', 'text', "Tie as C01 plus steered schedules through the runWith/worker gates (late submission after close, retire/append window, Signal gap) for 1-3 workers;",
     "Tie as C01 plus steered schedules through the runWith/worker gates (late submission after close, retire/append window, Signal gap, restart with stale group entries, "
     "Serve retried while Shutdown drains with submissions to the still-running group, Shutdown completing inside the OnServe callback, a failing subscription at different "
     "positions with self-shutdown and restart) for 1-3 workers;")
_rep('C06', 'text', "Mount/Route/path-prefix arrangements are covered by the executable model + an independent executable spec",
     "Through mounted sub-muxes (any nesting composes): a lookup through a mount finds what the sub-mux finds with the mount index shifted by the path length, hence the same "
     "params and group (match/params/group_through_mount); registering st.p on the parent with tag positions counted in the full pattern equals registering p on the sub-mux - "
     "same subtree, same outcome, for valid, invalid, fresh and conflicting patterns (add_through_mount; mount paths are what isValidPath accepts: litPath_of_validPath). "
     "Mount/Route/path-prefix arrangements are also covered by the executable model + an independent executable spec")
_rep('C06', 'note', "The Lean theorems are for a single mux (no Mount); the mounted arrangements are tied by model=spec=impl agreement only.",
     "The World-level bookkeeping of Mount (which mux owns which subtree, FullPath) is tied by model=spec=impl agreement; the tree-level theorems cover lookup and registration "
     "through a mount point.")
_rep('C07', 'text', "each event type carries its documented fields. Tie as C04;",
     "each event type carries its documented fields; for publications made through the service API (Model/SvcApi.lean): With/Resource on any valid resource id (with any query "
     "part) publishes events exactly on event.<name part>.<event> with a valid resource name and NATS subject, a reset names exactly that name, reserved/malformed event names "
     "publish nothing; TokenReset publishes only a concrete subject with at least one token id; TokenEventWithID only on conn.<cid>.token for a single valid token. Tie as C04;")
_rep('C07', 'text', "judged by the Lean conformance predicate (subject grammar, member sets, meta only when HTTP).",
     "judged by the Lean conformance predicate (subject grammar, member sets, meta only when HTTP); the svcapi stream drives With (resource ids with '?', '??', empty query), "
     "TokenEvent(WithID), TokenReset and Reset with valid and invalid arguments and judges every publication (NATS publish-subject rules, resource-name rules, system event payloads).")
_rep('C15', 'text', "failing subscription; the number of goroutines in startQueryListener is read from the goroutine dump.",
     "failing subscription; the number of goroutines in startQueryListener is read from the goroutine dump; scenarios with two callbacks in flight: serial (a shared explicit "
     "group), queued (a request held in the group queue across the expiry is still answered, the nil call comes last), lateenq (the listener is held at its hook between receipt "
     "and enqueue until the nil call is queued: the callback must not run after nil).")
_rep('C16', 'note', "(12 scenarios + ~75 pool workloads per quick run, more in thorough)",
     "(12 whole-API scenarios, 12 query-event scenarios on Parallel and grouped resources, 4 ownership/ResetAll scenarios + ~75 pool workloads per quick run, more in thorough)")
_rep('C19', 'text', "Tie: real SendRequest against a scripted connection (failing operations, sequences of pre-responses, responses and silences on a 30 ms grid, arrivals never on a deadline), run 48-wide in parallel.",
     "Tie: real SendRequest with scripted message timings (failing operations, sequences of pre-responses, responses and silences on a 30 ms grid, arrivals never on a deadline; "
     "48-wide in parallel; a watchdog turns a call that never returns into the outcome 'hang') on REAL inbox subscriptions of an embedded nats-server, whose release is observed "
     "(Subscription.IsValid), and against a real res.Service over that server (response, extension by a real Timeout pre-response, silence, slow handler, failing publish, 40 "
     "mixed calls; Conn.NumSubscriptions afterwards).")
_rep('C19', 'note', "nats.Subscription.Unsubscribe (the release is the deferred call in the code).", "the embedded nats-server v2.1.8 / nats.go on loopback.")
_rep('C20', 'text', "compared with the model and with the fold of the published events.",
     "compared with the model and with the fold of the published events; resbadger typed model (Type option) with an IndexSet of two indexes and a QueryCollection: after every "
     "event the query collection is fetched for both indexes and must list the resource exactly when the folded model has the indexed member with the queried prefix (also after reopen).")
_rep('C20', 'note', "resbadger index sets, typed values (Type option) and QueryCollection are not covered.",
     "Index sets are exercised with one resource and keys that are never empty (Create indexes under non-nil keys while Change uses non-empty keys: an empty non-nil key would leave "
     "a stale entry - not in the generated inputs); resbadger's Model.RebuildIndexes (DropPrefix(index name) without the ':' separator, i.e. also every resource whose name starts "
     "with an index name) is outside C20 and not exercised.")
_rep('C12', 'note', "PARTIAL:", "Known finding: with an empty store prefix an id starting with '<index>:' shares the index's key space (queries fail, RebuildIndexes deletes the value). PARTIAL:")

# ---- wave 6 additions ----------------------------------------------------------------------
_rep('C01', 'text', "Tie:", "Tie (also: steered schedules same-group - two submissions of one group by the documented rules (same resource, one group template, a wildcard pattern in a mounted sub-mux with its tag behind the mount point, nested routes, the root resource, request + With), the first blocking - and expiry-during-shutdown):") if "Tie:" in TEXT['C01']['text'] else None
_rep('C09', 'text', "Tie:", "Tie (handlers placed on an ordinary resource, on the service's root resource, or split over a placeholder node and a node below it; a reconnect scenario: the service on a real nats.Conn through a TCP proxy that is cut, an observer connected directly sees the reset again, with and without OnReconnect):") if "Tie:" in TEXT['C09']['text'] else None
_rep('C13', 'note', "reverse queries assume no key byte 0xFF directly after the prefix.", "bytes are only required to be bytes: the reverse seek was repaired (fix 1fe12a7, prefixEnd) and fetch_spec no longer excludes 0xFF; the idx stream uses binary keys (0xFF written as ~).") if "reverse queries assume no key byte 0xFF" in TEXT['C13']['note'] else None
_rep('C09', 'note', "Reconnect-triggered resets are not exercised (no real NATS in quick).", "Reconnect-triggered resets are exercised on an embedded nats-server through a TCP proxy (two runs per check).") if "Reconnect-triggered resets are not exercised" in TEXT['C09']['note'] else None
