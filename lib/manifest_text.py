HOOK_COMMITS = []
NOT_YET = {}
TEXT = {
    "C17": {
        "text": "Lean 4 theorems (Props/C17.lean) over ALL byte strings / token lists: IsValid = the tokenising parser accepts; "
                "Matches and Values equal the token-wise relation/extraction; matches <-> values succeeds; substituting the values back "
                "matches (and is the name without anonymous wildcards); covers <-> every name of q matches p; IndexWildcard, path/part/RID "
                "validators consistent; IDTransformer round trip. The model is a byte-for-byte transcription of the Go loops and is tied to "
                "/repo by running both on >600k generated (pattern, name) inputs per quick run (bounded-exhaustive short strings + structured random).",
        "note": "Trusted: Lean kernel; the hand transcription pattern.go -> Model/Pattern.lean as far as the correspondence run exercises it; "
                "the Go harness. Patterns with a repeated $tag are outside the substitution law (a Go map cannot hold both values).",
    },
}
