"""Per-property configuration of ./check: which correspondence streams decide
a property, which branch tags a run must reach, what is trusted."""

PROPS = {
    "C17": {
        "streams": [{"domain": "pat"}],
        "require_tags": ["match-wf", "nomatch-wf", "vals-wf", "novals-wf", "law-m-wf", "law-n-wf", "valid", "invalid",
                         "repl-changed", "repl-same", "wild", "nowild", "rid-ok", "rid-bad", "part-ok", "path-ok"],
        "trusted": ["isValidPart/isValidPath are observed through res.Call / res.NewMux panics"],
        "assumptions": ["Go strings are modelled as lists of byte values; range-over-string rune decoding only matters for bytes >= 0x80, which every validator rejects"],
    },
    "C06": {
        "streams": [{"domain": "mux"}],
        "require_tags": ["get-found", "get-found-params", "get-found-ls", "get-nil", "handle-ok", "handle-panic",
                         "listen-ok", "mount-ok", "mount-panic", "validate-ok", "validate-err"],
        "trusted": ["handler identity is observed through a marker key in Handler.Call; listener identity by calling the listener"],
        "assumptions": ["configurations with a listener on a pattern without handler are rejected by Serve (ValidateListeners) and are outside the specification",
                        "cyclic mounts are not generated"],
    },
    "C09": {
        "streams": [{"domain": "subs"}],
        "require_tags": ["serve-all-default", "serve-pruned-default", "serve-pruned-explicit", "serve-all-explicit",
                         "serve-none-default", "serve-all-default-noname"],
        "trusted": ["recording connection (harness/internal/recconn) validates subjects like nats.go"],
        "assumptions": ["explicit ownership entries are valid resource patterns"],
    },
    "C10": {
        "streams": [{"domain": "store"}],
        "require_tags": ["update-remadd", "update-rem", "update-add", "update-change", "update-silent", "create-createev",
                         "delete-deleteev", "create-change-dflt", "create-remadd-dflt", "delete-change-dflt", "get-held", "get-missing"],
        "trusted": ["encoding/json for the wire format of events and get responses; mockstore as the store"],
        "assumptions": ["element values are canonical JSON texts, so byte equality coincides with store.Value.Equal (C18 covers Equal itself)",
                        "the transformer's Transform is total (failing transforms are not modelled)"],
    },
}
