"""Per-property configuration of ./check: which correspondence streams decide
a property, which branch tags a run must reach, what is trusted."""

PROPS = {
    "C17": {
        "streams": [{"domain": "pat"}],
        "require_tags": ["match-wf", "nomatch-wf", "vals-wf", "novals-wf", "law-m-wf", "law-n-wf", "valid", "invalid",
                         "repl-changed", "repl-same", "wild", "nowild", "rid-ok", "rid-bad", "part-ok", "path-ok"],
        "trusted": ["isValidPart/isValidPath are observed through res.Call / res.NewMux panics"],
        "assumptions": ["Go strings are modelled as lists of byte values; range-over-string rune decoding only matters for bytes >= 0x80, which every validator rejects"],
    },
}
