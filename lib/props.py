"""Per-property configuration of ./check: which correspondence streams decide
a property, which branch tags a run must reach, what is trusted."""

PROPS = {
    "C17": {
        "streams": [{"domain": "pat"}],
        "require_tags": ["match-wf", "nomatch-wf", "vals-wf", "novals-wf", "law-m-wf", "law-n-wf", "valid", "invalid",
                         "repl-changed", "repl-same", "wild", "nowild", "rid-ok", "rid-bad", "part-ok", "path-ok"],
        "trusted": ["isValidPart/isValidPath are observed through res.Call / res.NewMux panics"],
        "assumptions": ["Go strings are modelled as lists of byte values; range-over-string rune decoding only matters for bytes >= 0x80, which every validator rejects"],
    },
    "C06": {
        "streams": [{"domain": "mux"}],
        "require_tags": ["get-found", "get-found-params", "get-found-ls", "get-nil", "handle-ok", "handle-panic",
                         "listen-ok", "mount-ok", "mount-panic", "validate-ok", "validate-err"],
        "trusted": ["handler identity is observed through a marker key in Handler.Call; listener identity by calling the listener"],
        "assumptions": ["configurations with a listener on a pattern without handler are rejected by Serve (ValidateListeners) and are outside the specification",
                        "cyclic mounts are not generated"],
    },
    "C09": {
        "streams": [{"domain": "subs"}],
        "require_tags": ["serve-all-default", "serve-pruned-default", "serve-pruned-explicit", "serve-all-explicit",
                         "serve-none-default", "serve-all-default-noname"],
        "trusted": ["recording connection (harness/internal/recconn) validates subjects like nats.go"],
        "assumptions": ["explicit ownership entries are valid resource patterns"],
    },
    "C10": {
        "streams": [{"domain": "store"}],
        "require_tags": ["update-remadd", "update-rem", "update-add", "update-change", "update-silent", "create-createev",
                         "delete-deleteev", "create-change-dflt", "create-remadd-dflt", "delete-change-dflt", "get-held", "get-missing"],
        "trusted": ["encoding/json for the wire format of events and get responses; mockstore as the store"],
        "assumptions": ["element values are canonical JSON texts, so byte equality coincides with store.Value.Equal (C18 covers Equal itself)",
                        "the transformer's Transform is total (failing transforms are not modelled)"],
    },
    "C04": {
        "streams": [{"domain": "req", "driver": "req04"}],
        "require_tags": ["req-call-h", "req-get-h", "req-access-h", "req-auth-h", "req-call-h-noreply", "req-call-h-panic", "req-get-nomatch",
                         "req-call-badpayload", "req-access-nohandler", "req-call-nohandler", "req-get-nohandler"],
        "trusted": ["encoding/json (payloads are compared after canonicalisation: compact, sorted members); error texts produced by Go itself are replaced by a placeholder",
                    "completion of a request is detected without hooks: a ping request through the same listener, then a WithGroup callback on the request's group"],
        "assumptions": ["handler behaviour is a script over the responder/event API; handlers that block forever are excluded",
                        "panic(nil) is given the Go >= 1.21 semantics (the harness module declares go 1.21)"],
    },
    "C05": {
        "streams": [{"domain": "req", "driver": "req05"}],
        "require_tags": ["req-call-h", "req-get-h", "req-access-h", "req-auth-h", "req-call-h-noreply", "req-call-h-panic", "req-get-nomatch",
                         "req-call-badpayload", "req-call-nohandler", "req-auth-nohandler", "req-get-nohandler"],
        "trusted": ["encoding/json (payloads are compared after canonicalisation: compact, sorted members); error texts produced by Go itself are replaced by a placeholder",
                    "completion of a request is detected without hooks: a ping request through the same listener, then a WithGroup callback on the request's group"],
        "assumptions": ["handler behaviour is a script over the responder/event API; handlers that block forever are excluded",
                        "panic(nil) is given the Go >= 1.21 semantics (the harness module declares go 1.21)"],
    },
    "C07": {
        "streams": [{"domain": "req", "driver": "req07"}],
        "require_tags": ["req-call-h", "req-get-h", "req-call-h-ev", "req-call-h-meta", "req-get-h-ev", "req-auth-h-ev", "req-call-h-panic"],
        "trusted": ["encoding/json (payloads are compared after canonicalisation: compact, sorted members); error texts produced by Go itself are replaced by a placeholder",
                    "completion of a request is detected without hooks: a ping request through the same listener, then a WithGroup callback on the request's group"],
        "assumptions": ["handler behaviour is a script over the responder/event API; handlers that block forever are excluded",
                        "panic(nil) is given the Go >= 1.21 semantics (the harness module declares go 1.21)"],
    },
    "C08": {
        "streams": [{"domain": "req", "driver": "req08"}],
        "require_tags": ["req-call-h-ev", "req-call-h-ev-apply-ls", "req-get-h-ev-apply", "req-call-h-ev-ls", "req-call-h-apply"],
        "trusted": ["encoding/json (payloads are compared after canonicalisation: compact, sorted members); error texts produced by Go itself are replaced by a placeholder",
                    "completion of a request is detected without hooks: a ping request through the same listener, then a WithGroup callback on the request's group"],
        "assumptions": ["handler behaviour is a script over the responder/event API; handlers that block forever are excluded",
                        "panic(nil) is given the Go >= 1.21 semantics (the harness module declares go 1.21)"],
    },
}
