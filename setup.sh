#!/bin/sh
# Offline build of the framework: Lean models/proofs/driver and the Go harness.
set -e
cd "$(dirname "$0")"
export GOFLAGS=-mod=mod GOPROXY=off GOSUMDB=off GOTOOLCHAIN=local
(cd lean && lake build GoRes gores-driver)
cp /repo/go.sum harness/go.sum
(cd harness && mkdir -p bin && go build -tags verif -o bin/ ./cmd/...)
echo setup done
