import GoRes.Model.Mux
/-! Helper lemmas for the mux model (C06). -/
namespace GoRes.Mux
open GoRes Ch

end GoRes.Mux
