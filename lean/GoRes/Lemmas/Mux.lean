import GoRes.Model.Mux
/-! Helper lemmas for the mux model (C06).

Everything here is about `mount = none` (a single mux, as in `Props/C06.lean`).
The trie edges are handled uniformly through `child` / `setChild`, and `fetch`
is rephrased as `classify` (the per-token checks) followed by the recursive
call (`fetch_none_cons`). -/
namespace GoRes.Mux
open GoRes Ch

/-! ## accessors -/
@[simp] theorem Node.hs_setHs (n : Node) (h) : (n.setHs h).hs = h := by cases n; rfl
@[simp] theorem Node.params_setHs (n : Node) (h) : (n.setHs h).params = n.params := by cases n; rfl
@[simp] theorem Node.listeners_setHs (n : Node) (h) : (n.setHs h).listeners = n.listeners := by cases n; rfl
@[simp] theorem Node.mounted_setHs (n : Node) (h) : (n.setHs h).mounted = n.mounted := by cases n; rfl
@[simp] theorem Node.lits_setHs (n : Node) (h) : (n.setHs h).lits = n.lits := by cases n; rfl
@[simp] theorem Node.param_setHs (n : Node) (h) : (n.setHs h).param = n.param := by cases n; rfl
@[simp] theorem Node.wild_setHs (n : Node) (h) : (n.setHs h).wild = n.wild := by cases n; rfl
@[simp] theorem Node.hs_setParams (n : Node) (p) : (n.setParams p).hs = n.hs := by cases n; rfl
@[simp] theorem Node.params_setParams (n : Node) (p) : (n.setParams p).params = p := by cases n; rfl
@[simp] theorem Node.listeners_setParams (n : Node) (p) : (n.setParams p).listeners = n.listeners := by cases n; rfl
@[simp] theorem Node.mounted_setParams (n : Node) (p) : (n.setParams p).mounted = n.mounted := by cases n; rfl
@[simp] theorem Node.lits_setParams (n : Node) (p) : (n.setParams p).lits = n.lits := by cases n; rfl
@[simp] theorem Node.param_setParams (n : Node) (p) : (n.setParams p).param = n.param := by cases n; rfl
@[simp] theorem Node.wild_setParams (n : Node) (p) : (n.setParams p).wild = n.wild := by cases n; rfl
@[simp] theorem Node.hs_setMounted (n : Node) (b) : (n.setMounted b).hs = n.hs := by cases n; rfl
@[simp] theorem Node.params_setMounted (n : Node) (b) : (n.setMounted b).params = n.params := by cases n; rfl
@[simp] theorem Node.listeners_setMounted (n : Node) (b) : (n.setMounted b).listeners = n.listeners := by cases n; rfl
@[simp] theorem Node.mounted_setMounted (n : Node) (b) : (n.setMounted b).mounted = b := by cases n; rfl
@[simp] theorem Node.lits_setMounted (n : Node) (b) : (n.setMounted b).lits = n.lits := by cases n; rfl
@[simp] theorem Node.param_setMounted (n : Node) (b) : (n.setMounted b).param = n.param := by cases n; rfl
@[simp] theorem Node.wild_setMounted (n : Node) (b) : (n.setMounted b).wild = n.wild := by cases n; rfl
@[simp] theorem Node.hs_setLits (n : Node) (ls) : (n.setLits ls).hs = n.hs := by cases n; rfl
@[simp] theorem Node.params_setLits (n : Node) (ls) : (n.setLits ls).params = n.params := by cases n; rfl
@[simp] theorem Node.listeners_setLits (n : Node) (ls) : (n.setLits ls).listeners = n.listeners := by cases n; rfl
@[simp] theorem Node.mounted_setLits (n : Node) (ls) : (n.setLits ls).mounted = n.mounted := by cases n; rfl
@[simp] theorem Node.lits_setLits (n : Node) (ls) : (n.setLits ls).lits = ls := by cases n; rfl
@[simp] theorem Node.param_setLits (n : Node) (ls) : (n.setLits ls).param = n.param := by cases n; rfl
@[simp] theorem Node.wild_setLits (n : Node) (ls) : (n.setLits ls).wild = n.wild := by cases n; rfl
@[simp] theorem Node.hs_setParam (n : Node) (pa) : (n.setParam pa).hs = n.hs := by cases n; rfl
@[simp] theorem Node.params_setParam (n : Node) (pa) : (n.setParam pa).params = n.params := by cases n; rfl
@[simp] theorem Node.listeners_setParam (n : Node) (pa) : (n.setParam pa).listeners = n.listeners := by cases n; rfl
@[simp] theorem Node.mounted_setParam (n : Node) (pa) : (n.setParam pa).mounted = n.mounted := by cases n; rfl
@[simp] theorem Node.lits_setParam (n : Node) (pa) : (n.setParam pa).lits = n.lits := by cases n; rfl
@[simp] theorem Node.param_setParam (n : Node) (pa) : (n.setParam pa).param = pa := by cases n; rfl
@[simp] theorem Node.wild_setParam (n : Node) (pa) : (n.setParam pa).wild = n.wild := by cases n; rfl
@[simp] theorem Node.hs_setWild (n : Node) (w) : (n.setWild w).hs = n.hs := by cases n; rfl
@[simp] theorem Node.params_setWild (n : Node) (w) : (n.setWild w).params = n.params := by cases n; rfl
@[simp] theorem Node.listeners_setWild (n : Node) (w) : (n.setWild w).listeners = n.listeners := by cases n; rfl
@[simp] theorem Node.mounted_setWild (n : Node) (w) : (n.setWild w).mounted = n.mounted := by cases n; rfl
@[simp] theorem Node.lits_setWild (n : Node) (w) : (n.setWild w).lits = n.lits := by cases n; rfl
@[simp] theorem Node.param_setWild (n : Node) (w) : (n.setWild w).param = n.param := by cases n; rfl
@[simp] theorem Node.wild_setWild (n : Node) (w) : (n.setWild w).wild = w := by cases n; rfl
@[simp] theorem Node.hs_addListener (n : Node) (a) : (n.addListener a).hs = n.hs := by cases n; rfl
@[simp] theorem Node.params_addListener (n : Node) (a) : (n.addListener a).params = n.params := by cases n; rfl
@[simp] theorem Node.listeners_addListener (n : Node) (a) : (n.addListener a).listeners = n.listeners ++ [a] := by cases n; rfl
@[simp] theorem Node.mounted_addListener (n : Node) (a) : (n.addListener a).mounted = n.mounted := by cases n; rfl
@[simp] theorem Node.lits_addListener (n : Node) (a) : (n.addListener a).lits = n.lits := by cases n; rfl
@[simp] theorem Node.param_addListener (n : Node) (a) : (n.addListener a).param = n.param := by cases n; rfl
@[simp] theorem Node.wild_addListener (n : Node) (a) : (n.addListener a).wild = n.wild := by cases n; rfl

@[simp] theorem Node.hs_empty : Node.empty.hs = none := rfl
@[simp] theorem Node.params_empty : Node.empty.params = [] := rfl
@[simp] theorem Node.listeners_empty : Node.empty.listeners = [] := rfl
@[simp] theorem Node.mounted_empty : Node.empty.mounted = false := rfl
@[simp] theorem Node.lits_empty : Node.empty.lits = [] := rfl
@[simp] theorem Node.param_empty : Node.empty.param = none := rfl
@[simp] theorem Node.wild_empty : Node.empty.wild = none := rfl

/-! ## literal children -/

@[simp] theorem lookupLit_nil (s : Str) : lookupLit [] s = none := rfl

theorem lookupLit_setLit_self (l : List (Str × Node)) (s : Str) (n : Node) :
    lookupLit (setLit l s n) s = some n := by
  induction l with
  | nil => simp [setLit, lookupLit]
  | cons a l ih =>
    obtain ⟨k, m⟩ := a
    by_cases h : k = s
    · simp [setLit, lookupLit, h]
    · simp [setLit, lookupLit, h, ih]

theorem lookupLit_setLit_ne (l : List (Str × Node)) (s s' : Str) (n : Node) (hne : s' ≠ s) :
    lookupLit (setLit l s n) s' = lookupLit l s' := by
  induction l with
  | nil => simp [setLit, lookupLit]; intro h; exact absurd h.symm hne
  | cons a l ih =>
    obtain ⟨k, m⟩ := a
    by_cases h : k = s
    · subst h
      have : ¬ k = s' := fun h => hne h.symm
      simp [setLit, lookupLit, this]
    · simp [setLit, lookupLit, h, ih]

/-! ## uniform edges -/

/-- the child of `n` along trie edge `e` -/
def child (n : Node) : Elem → Option Node
  | .lit s => lookupLit n.lits s
  | .param => n.param
  | .wild => n.wild

/-- replace/create the child of `n` along edge `e` -/
def setChild (n : Node) (e : Elem) (c : Node) : Node :=
  match e with
  | .lit s => n.setLits (setLit n.lits s c)
  | .param => n.setParam (some c)
  | .wild => n.setWild (some c)

@[simp] theorem child_setChild_self (n : Node) (e : Elem) (c : Node) : child (setChild n e c) e = some c := by
  cases e <;> simp [child, setChild, lookupLit_setLit_self]

theorem child_setChild_ne (n : Node) (e e' : Elem) (c : Node) (hne : e' ≠ e) :
    child (setChild n e c) e' = child n e' := by
  cases e <;> cases e' <;> simp_all [child, setChild]
  rename_i s s'
  exact lookupLit_setLit_ne _ _ _ _ hne

@[simp] theorem hs_setChild (n : Node) (e : Elem) (c : Node) : (setChild n e c).hs = n.hs := by
  cases e <;> simp [setChild]
@[simp] theorem params_setChild (n : Node) (e : Elem) (c : Node) : (setChild n e c).params = n.params := by
  cases e <;> simp [setChild]
@[simp] theorem listeners_setChild (n : Node) (e : Elem) (c : Node) : (setChild n e c).listeners = n.listeners := by
  cases e <;> simp [setChild]
@[simp] theorem mounted_setChild (n : Node) (e : Elem) (c : Node) : (setChild n e c).mounted = n.mounted := by
  cases e <;> simp [setChild]

@[simp] theorem child_empty (e : Elem) : child Node.empty e = none := by
  cases e <;> rfl

theorem getAt_cons (n : Node) (e : Elem) (r : List Elem) : getAt n (e :: r) = (child n e).bind (getAt · r) := by
  cases e <;> rfl

@[simp] theorem getAt_nil (n : Node) : getAt n [] = some n := by
  cases n; rfl

/-! ## `fetch` without mount, one token at a time -/

/-- the per-token checks of `fetch`: the edge to follow and the extended parameter list,
or the panic -/
def classify (t : Str) (rest : List Str) (params : List PathParam) (idx : Nat) :
    Except FetchErr (Elem × List PathParam) :=
  match t with
  | [] => .error .invalid
  | c :: name =>
    if c = dollar ∨ c = star then
      if (name.isEmpty) != (c = star) then .error .invalid
      else if c = dollar ∧ params.any (·.name = name) then .error .dupParam
      else .ok (.param, if c = dollar then params ++ [⟨name, idx⟩] else params)
    else if c = gt then
      if !name.isEmpty ∨ !rest.isEmpty then .error .invalid
      else .ok (.wild, params)
    else .ok (.lit t, params)

theorem fetch_none_nil {α : Type} (k : Node → Bool → List PathParam → Nat → Node × Except FetchErr α)
    (n : Node) (i mi : Nat) (ps : List PathParam) (fr : Bool) :
    fetch none k n [] i mi ps fr = k n fr ps mi := rfl

theorem fetch_none_cons {α : Type} (k : Node → Bool → List PathParam → Nat → Node × Except FetchErr α)
    (n : Node) (t : Str) (rest : List Str) (i mi : Nat) (ps : List PathParam) (fr : Bool) :
    fetch none k n (t :: rest) i mi ps fr =
      match classify t rest ps (i - (if n.mounted then i else mi)) with
      | .error e => (n, .error e)
      | .ok (e, ps') =>
        let r := fetch none k ((child n e).getD Node.empty) rest (i + 1) (if n.mounted then i else mi) ps'
          (child n e).isNone
        (setChild n e r.1, r.2) := by
  cases t with
  | nil => simp [fetch, classify]
  | cons c name =>
    simp only [fetch, classify]
    by_cases h1 : c = dollar ∨ c = star
    · simp only [h1, if_true]
      split
      · rfl
      · split
        · rfl
        · simp only [child, setChild]
          cases hp : n.param <;> simp
    · simp only [h1, if_false]
      by_cases h2 : c = gt
      · simp only [h2, if_true]
        split
        · rfl
        · simp only [child, setChild]
          cases hp : n.wild <;> simp
      · simp only [h2, if_false]
        simp only [child, setChild]
        cases hp : lookupLit n.lits (c :: name) <;> simp

/-- the parameter contributed by one pattern token -/
def tokParams (t : Str) (idx : Nat) : List PathParam :=
  match t with
  | [] => []
  | c :: name => if c = dollar then [⟨name, idx⟩] else []

theorem classify_ok {t rest ps idx e ps'} (h : classify t rest ps idx = .ok (e, ps')) :
    e = elemOf t ∧ (e = .wild → rest = []) ∧ ps' = ps ++ tokParams t idx ∧
      (∀ pp ∈ tokParams t idx, ∀ q ∈ ps, q.name ≠ pp.name) := by
  cases t with
  | nil => simp [classify] at h
  | cons c name =>
    simp only [classify] at h
    by_cases h1 : c = dollar ∨ c = star
    · simp only [h1, if_true] at h
      split at h
      · simp at h
      · split at h
        · simp at h
        · rename_i hd
          simp only [Except.ok.injEq, Prod.mk.injEq] at h
          obtain ⟨rfl, rfl⟩ := h
          refine ⟨by simp [elemOf, h1], by simp, ?_, ?_⟩
          · by_cases hc : c = dollar <;> simp [tokParams, hc]
          · intro pp hpp q hq
            by_cases hc : c = dollar
            · simp [tokParams, hc] at hpp
              subst hpp
              simp only [hc, true_and, List.any_eq_true, decide_eq_true_eq, not_exists, not_and] at hd
              exact hd q hq
            · simp [tokParams, hc] at hpp
    · simp only [h1, if_false] at h
      have hnd : c ≠ dollar := fun hc => h1 (Or.inl hc)
      by_cases h2 : c = gt
      · simp only [h2, if_true] at h
        split at h
        · simp at h
        · rename_i hr
          simp only [Except.ok.injEq, Prod.mk.injEq] at h
          obtain ⟨rfl, rfl⟩ := h
          refine ⟨?_, ?_, ?_, ?_⟩
          · simp [elemOf, h2]; decide
          · intro _; simp at hr; exact hr.2
          · simp [tokParams, hnd]
          · simp [tokParams, hnd]
      · simp only [h2, if_false, Except.ok.injEq, Prod.mk.injEq] at h
        obtain ⟨rfl, rfl⟩ := h
        refine ⟨by simp [elemOf, h1, h2], by simp, by simp [tokParams, hnd], by simp [tokParams, hnd]⟩

/-! ## statement-level notions (the same recursions as in `Props/C06.lean`) -/

/-- same as `Props.C06.ElemsMatch` -/
def EMatch : List Elem → List Str → Prop
  | [], [] => True
  | [.wild], _ :: _ => True
  | .lit s :: ps, t :: ts => s = t ∧ EMatch ps ts
  | .param :: ps, _ :: ts => EMatch ps ts
  | _, _ => False

def eCls : Elem → Nat
  | .lit _ => 2
  | .param => 1
  | .wild => 0

/-- same as `Props.C06.MoreSpecific` -/
def MoreSpec : List Elem → List Elem → Prop
  | a :: as, b :: bs => eCls a > eCls b ∨ (eCls a = eCls b ∧ MoreSpec as bs)
  | _, _ => False

/-- a full wildcard occurs at most as the last edge -/
def WildLast : List Elem → Prop
  | [] => True
  | e :: r => (e = .wild → r = []) ∧ WildLast r

theorem EMatch_nil_right (ps : List Elem) : EMatch ps [] ↔ ps = [] := by
  cases ps with
  | nil => simp [EMatch]
  | cons e r => cases e <;> simp [EMatch]

theorem EMatch_nil_left (ts : List Str) : EMatch [] ts ↔ ts = [] := by
  cases ts <;> simp [EMatch]

theorem EMatch_cons (e : Elem) (ps : List Elem) (t : Str) (ts : List Str) :
    EMatch (e :: ps) (t :: ts) ↔
      (e = .wild ∧ ps = []) ∨ (e = .lit t ∧ EMatch ps ts) ∨ (e = .param ∧ EMatch ps ts) := by
  cases e with
  | lit s => simp [EMatch]
  | param => simp [EMatch]
  | wild => cases ps <;> simp [EMatch]

theorem EMatch_length {ps : List Elem} {ts : List Str} (h : EMatch ps ts) : ps.length ≤ ts.length := by
  induction ts generalizing ps with
  | nil => rw [EMatch_nil_right] at h; simp [h]
  | cons t ts ih =>
    cases ps with
    | nil => simp
    | cons e ps =>
      rw [EMatch_cons] at h
      rcases h with ⟨_, rfl⟩ | ⟨_, h⟩ | ⟨_, h⟩
      · simp
      · have := ih h; simp; omega
      · have := ih h; simp; omega

theorem EMatch_wildLast {ps : List Elem} {ts : List Str} (h : EMatch ps ts) : WildLast ps := by
  induction ts generalizing ps with
  | nil => rw [EMatch_nil_right] at h; simp [h, WildLast]
  | cons t ts ih =>
    cases ps with
    | nil => simp [WildLast]
    | cons e ps =>
      rw [EMatch_cons] at h
      rcases h with ⟨rfl, rfl⟩ | ⟨rfl, h⟩ | ⟨rfl, h⟩
      · simp [WildLast]
      · simp [WildLast, ih h]
      · simp [WildLast, ih h]

/-! ## `matchNode` -/

/-- one alternative of `matchNode`: descend into child `c` (if any) -/
def tryChild (c : Option Node) (rest : List Str) (i mi : Nat) : Option Found :=
  match c with
  | none => none
  | some n => if rest.isEmpty then (if n.hs.isSome then some ⟨n, mi⟩ else none) else matchNode n rest i mi

theorem matchNode_cons (l : Node) (t : Str) (rest : List Str) (i mi : Nat) :
    matchNode l (t :: rest) i mi =
      match tryChild (child l (.lit t)) rest (i + 1) (if l.mounted then i else mi) with
      | some f => some f
      | none =>
        match tryChild (child l .param) rest (i + 1) (if l.mounted then i else mi) with
        | some f => some f
        | none => (child l .wild).map (fun w => ⟨w, if l.mounted then i else mi⟩) := by
  rfl

theorem matchNode_nil (l : Node) (i mi : Nat) : matchNode l [] i mi = none := rfl

/-- the three alternatives, in DFS order -/
theorem matchNode_cons_cases {l : Node} {t : Str} {rest : List Str} {i mi : Nat} {f : Found}
    (h : matchNode l (t :: rest) i mi = some f) :
    tryChild (child l (.lit t)) rest (i + 1) (if l.mounted then i else mi) = some f ∨
    (tryChild (child l (.lit t)) rest (i + 1) (if l.mounted then i else mi) = none ∧
      tryChild (child l .param) rest (i + 1) (if l.mounted then i else mi) = some f) ∨
    (tryChild (child l (.lit t)) rest (i + 1) (if l.mounted then i else mi) = none ∧
      tryChild (child l .param) rest (i + 1) (if l.mounted then i else mi) = none ∧
      ∃ w, child l .wild = some w ∧ f = ⟨w, if l.mounted then i else mi⟩) := by
  rw [matchNode_cons] at h
  split at h
  · left; simp_all
  · rename_i h1
    split at h
    · right; left; simp_all
    · rename_i h2
      right; right
      refine ⟨h1, h2, ?_⟩
      cases hw : child l .wild with
      | none => simp [hw] at h
      | some w => simp [hw] at h; exact ⟨w, rfl, h.symm⟩

theorem tryChild_some {c : Option Node} {rest : List Str} {i mi : Nat} {f : Found}
    (h : tryChild c rest i mi = some f) :
    ∃ n, c = some n ∧ ((rest = [] ∧ n.hs.isSome ∧ f = ⟨n, mi⟩) ∨ (rest ≠ [] ∧ matchNode n rest i mi = some f)) := by
  cases c with
  | none => simp [tryChild] at h
  | some n =>
    refine ⟨n, rfl, ?_⟩
    simp only [tryChild] at h
    cases rest with
    | nil =>
      left
      simp only [List.isEmpty_nil, if_true] at h
      split at h
      · rename_i hh; simp at h; exact ⟨rfl, hh, h.symm⟩
      · simp at h
    | cons t r => right; simpa using h

theorem tryChild_none {c : Option Node} {rest : List Str} {i mi : Nat} {n : Node}
    (h : tryChild c rest i mi = none) (hc : c = some n) :
    (rest = [] ∧ n.hs.isSome = false) ∨ (rest ≠ [] ∧ matchNode n rest i mi = none) := by
  subst hc
  simp only [tryChild] at h
  cases rest with
  | nil =>
    left
    simp only [List.isEmpty_nil, if_true] at h
    split at h
    · simp at h
    · rename_i hh; simpa using hh
  | cons t r => right; simpa using h

/-- soundness of `matchNode`, for every start index -/
theorem matchNode_sound (toks : List Str) : ∀ (l : Node) (i mi : Nat) (f : Found),
    matchNode l toks i mi = some f → ∃ pat, getAt l pat = some f.node ∧ EMatch pat toks := by
  induction toks with
  | nil => intro l i mi f h; simp [matchNode_nil] at h
  | cons t rest ih =>
    intro l i mi f h
    have step : ∀ (e : Elem) (mi' : Nat), (e = .lit t ∨ e = .param) →
        tryChild (child l e) rest (i + 1) mi' = some f →
        ∃ pat, getAt l pat = some f.node ∧ EMatch pat (t :: rest) := by
      intro e mi' he h1
      obtain ⟨n, hc, h2⟩ := tryChild_some h1
      rcases h2 with ⟨rfl, _, rfl⟩ | ⟨_, h2⟩
      · refine ⟨[e], by simp [getAt_cons, hc], ?_⟩
        rw [EMatch_cons]; rcases he with rfl | rfl <;> simp [EMatch]
      · obtain ⟨pat, hp, hm⟩ := ih n _ _ f h2
        refine ⟨e :: pat, by simp [getAt_cons, hc, hp], ?_⟩
        rw [EMatch_cons]; rcases he with rfl | rfl <;> simp [hm]
    rcases matchNode_cons_cases h with h1 | ⟨_, h1⟩ | ⟨_, _, w, hw, rfl⟩
    · exact step _ _ (Or.inl rfl) h1
    · exact step _ _ (Or.inr rfl) h1
    · exact ⟨[.wild], by simp [getAt_cons, hw], by simp [EMatch]⟩

/-- completeness of `matchNode`, for every start index -/
theorem matchNode_complete (toks : List Str) : ∀ (l : Node) (i mi : Nat) (pat : List Elem) (x : Node),
    getAt l pat = some x → x.hs.isSome → EMatch pat toks → toks ≠ [] →
    ∃ f, matchNode l toks i mi = some f := by
  induction toks with
  | nil => intro l i mi pat x _ _ _ h; exact absurd rfl h
  | cons t rest ih =>
    intro l i mi pat x hg hh hm _
    cases pat with
    | nil => simp [EMatch] at hm
    | cons e ps =>
      rw [getAt_cons] at hg
      cases hc : child l e with
      | none => simp [hc] at hg
      | some c =>
        simp only [hc, Option.bind_some] at hg
        -- descending into a matching child succeeds
        have sub : ∀ mi', EMatch ps rest → ∃ f, tryChild (some c) rest (i + 1) mi' = some f := by
          intro mi' hm'
          cases rest with
          | nil =>
            rw [EMatch_nil_right] at hm'; subst hm'
            simp at hg; subst hg
            exact ⟨⟨c, mi'⟩, by simp [tryChild, hh]⟩
          | cons t' r' =>
            obtain ⟨f, hf⟩ := ih c (i + 1) mi' ps x hg hh hm' (by simp)
            exact ⟨f, by simp [tryChild, hf]⟩
        rw [matchNode_cons]
        rw [EMatch_cons] at hm
        rcases hm with ⟨rfl, rfl⟩ | ⟨rfl, hm⟩ | ⟨rfl, hm⟩
        · split
          · exact ⟨_, rfl⟩
          · split
            · exact ⟨_, rfl⟩
            · simp [hc]
        · obtain ⟨f, hf⟩ := sub (if l.mounted then i else mi) hm
          rw [hc, hf]; exact ⟨_, rfl⟩
        · split
          · exact ⟨_, rfl⟩
          · obtain ⟨f, hf⟩ := sub (if l.mounted then i else mi) hm
            rw [hc, hf]; exact ⟨_, rfl⟩


theorem MoreSpec_nil_right (a : List Elem) : ¬ MoreSpec a [] := by
  cases a <;> simp [MoreSpec]

theorem MoreSpec_nil_left (a : List Elem) : ¬ MoreSpec [] a := by
  simp [MoreSpec]

theorem MoreSpec_cons (a b : Elem) (as bs : List Elem) :
    MoreSpec (a :: as) (b :: bs) ↔ eCls a > eCls b ∨ (eCls a = eCls b ∧ MoreSpec as bs) := by
  simp [MoreSpec]

/-- if the alternative along edge `e` failed, nothing matching with a handler is stored below `e` -/
theorem tryChild_none_noMatch {l : Node} {e : Elem} {rest : List Str} {i mi : Nat}
    (h : tryChild (child l e) rest i mi = none) (ps : List Elem) (x : Node)
    (hg : getAt l (e :: ps) = some x) (hh : x.hs.isSome) (hm : EMatch ps rest) : False := by
  rw [getAt_cons] at hg
  cases hc : child l e with
  | none => simp [hc] at hg
  | some c =>
    simp only [hc, Option.bind_some] at hg
    rcases tryChild_none h hc with ⟨rfl, h2⟩ | ⟨hne, h2⟩
    · rw [EMatch_nil_right] at hm; subst hm
      simp at hg; subst hg; simp [hh] at h2
    · obtain ⟨f, hf⟩ := matchNode_complete rest c i mi ps x hg hh hm hne
      simp [hf] at h2

theorem getLast?_cons_of_some {α} (e : α) (l : List α) (a : α) (h : l.getLast? = some a) : (e :: l).getLast? = some a := by
  cases l with
  | nil => simp at h
  | cons b l => simpa [List.getLast?_cons_cons] using h

/-- `matchNode` returns the most specific match (DFS order = lexicographic order on `eCls`) -/
theorem matchNode_most_specific (toks : List Str) : ∀ (l : Node) (i mi : Nat) (f : Found),
    (∀ pat x, getAt l pat = some x → WildLast pat → pat.getLast? = some .wild → x.hs.isSome) →
    matchNode l toks i mi = some f →
    ∃ pat, getAt l pat = some f.node ∧ EMatch pat toks ∧ f.node.hs.isSome ∧
      ∀ pat' x', getAt l pat' = some x' → x'.hs.isSome → EMatch pat' toks → ¬ MoreSpec pat' pat := by
  induction toks with
  | nil => intro l i mi f _ h; simp [matchNode_nil] at h
  | cons t rest ih =>
    intro l i mi f hw h
    -- the alternative along a literal / placeholder edge
    have step : ∀ (e : Elem) (mi' : Nat), (e = .lit t ∨ e = .param) →
        tryChild (child l e) rest (i + 1) mi' = some f →
        ∃ pat0, getAt l (e :: pat0) = some f.node ∧ EMatch (e :: pat0) (t :: rest) ∧ f.node.hs.isSome ∧
          ∀ ps' x', getAt l (e :: ps') = some x' → x'.hs.isSome → EMatch ps' rest → ¬ MoreSpec ps' pat0 := by
      intro e mi' he h1
      have hew : e ≠ .wild := by rcases he with rfl | rfl <;> simp
      obtain ⟨n, hc, h2⟩ := tryChild_some h1
      rcases h2 with ⟨rfl, hh, rfl⟩ | ⟨_, h2⟩
      · refine ⟨[], by simp [getAt_cons, hc], ?_, hh, ?_⟩
        · rw [EMatch_cons]; rcases he with rfl | rfl <;> simp [EMatch]
        · intro ps' x' _ _ _; exact MoreSpec_nil_right _
      · have hwn : ∀ pat x, getAt n pat = some x → WildLast pat → pat.getLast? = some .wild → x.hs.isSome := by
          intro pat x hg hwl hl
          apply hw (e :: pat) x
          · simp [getAt_cons, hc, hg]
          · exact ⟨fun h => absurd h hew, hwl⟩
          · exact getLast?_cons_of_some _ _ _ hl
        obtain ⟨pat, hp, hm, hh, hbest⟩ := ih n _ _ f hwn h2
        refine ⟨pat, by simp [getAt_cons, hc, hp], ?_, hh, ?_⟩
        · rw [EMatch_cons]; rcases he with rfl | rfl <;> simp [hm]
        · intro ps' x' hg' hh' hm'
          apply hbest ps' x' _ hh' hm'
          simpa [getAt_cons, hc] using hg'
    rcases matchNode_cons_cases h with h1 | ⟨h0, h1⟩ | ⟨h0, h1, w, hw', rfl⟩
    · obtain ⟨pat0, hg, hm, hh, hbest⟩ := step _ _ (Or.inl rfl) h1
      refine ⟨_, hg, hm, hh, ?_⟩
      intro pat' x' hg' hh' hm'
      cases pat' with
      | nil => exact MoreSpec_nil_left _
      | cons e' ps' =>
        rw [MoreSpec_cons]
        rw [EMatch_cons] at hm'
        rcases hm' with ⟨rfl, rfl⟩ | ⟨rfl, hm'⟩ | ⟨rfl, hm'⟩
        · simp [eCls]
        · simp only [eCls, gt_iff_lt, Nat.lt_irrefl, true_and, false_or]
          exact hbest ps' x' hg' hh' hm'
        · simp [eCls]
    · obtain ⟨pat0, hg, hm, hh, hbest⟩ := step _ _ (Or.inr rfl) h1
      refine ⟨_, hg, hm, hh, ?_⟩
      intro pat' x' hg' hh' hm'
      cases pat' with
      | nil => exact MoreSpec_nil_left _
      | cons e' ps' =>
        rw [MoreSpec_cons]
        rw [EMatch_cons] at hm'
        rcases hm' with ⟨rfl, rfl⟩ | ⟨rfl, hm'⟩ | ⟨rfl, hm'⟩
        · simp [eCls]
        · exact fun _ => tryChild_none_noMatch h0 ps' x' hg' hh' hm'
        · simp only [eCls, gt_iff_lt, Nat.lt_irrefl, true_and, false_or]
          exact hbest ps' x' hg' hh' hm'
    · refine ⟨[.wild], by simp [getAt_cons, hw'], by simp [EMatch], ?_, ?_⟩
      · exact hw [.wild] w (by simp [getAt_cons, hw']) (by simp [WildLast]) rfl
      · intro pat' x' hg' hh' hm'
        cases pat' with
        | nil => exact MoreSpec_nil_left _
        | cons e' ps' =>
          rw [MoreSpec_cons]
          rw [EMatch_cons] at hm'
          rcases hm' with ⟨rfl, rfl⟩ | ⟨rfl, hm'⟩ | ⟨rfl, hm'⟩
          · simp [eCls, MoreSpec_nil_right]
          · exact fun _ => tryChild_none_noMatch h0 ps' x' hg' hh' hm'
          · exact fun _ => tryChild_none_noMatch h1 ps' x' hg' hh' hm'


/-! ## registration as `fetch` + continuation -/

/-- the continuation `Mux.add` runs on the node reached -/
def addK (id : Nat) (g : Group) : Node → Bool → List PathParam → Nat → Node × Except FetchErr (Except RegErr Unit) :=
  fun n _ params mountIdx =>
    if n.hs.isSome then (n, .ok (.error .already))
    else match setAndValidateParams n params with
      | .error e => (n, .ok (.error e))
      | .ok n' => (n'.setHs (some ⟨id, rebase g mountIdx⟩), .ok (.ok ()))

/-- the continuation `Mux.AddListener` runs on the node reached -/
def listenK (id : Nat) : Node → Bool → List PathParam → Nat → Node × Except FetchErr (Except RegErr Unit) :=
  fun n _ params _ =>
    match setAndValidateParams n params with
    | .error e => (n, .ok (.error e))
    | .ok n' => (n'.addListener id, .ok (.ok ()))

def regResult : Except FetchErr (Except RegErr Unit) → Except RegErr Unit
  | .error e => .error (.fetch e)
  | .ok (.error e) => .error e
  | .ok (.ok ()) => .ok ()

theorem addAt_eq (root : Node) (pattern : Str) (id : Nat) (g : Group) :
    addAt root pattern id g =
      if !Pattern.isValid pattern then (root, .error .invalidPattern)
      else ((fetch none (addK id g) root (splitPattern pattern) 0 0 [] false).1,
            regResult (fetch none (addK id g) root (splitPattern pattern) 0 0 [] false).2) := by
  unfold addAt
  split
  · rfl
  · split
    rename_i root' r heq
    have heq' : fetch none (addK id g) root (splitPattern pattern) 0 0 [] false = (root', r) := heq
    rw [heq']
    rcases r with e | (e | ⟨⟨⟩⟩) <;> rfl

theorem addListenerAt_eq (root : Node) (pattern : Str) (id : Nat) :
    addListenerAt root pattern id =
      if !Pattern.isValid pattern then (root, .error .invalidPattern)
      else ((fetch none (listenK id) root (splitPattern pattern) 0 0 [] false).1,
            regResult (fetch none (listenK id) root (splitPattern pattern) 0 0 [] false).2) := by
  unfold addListenerAt
  split
  · rfl
  · split
    rename_i root' r heq
    have heq' : fetch none (listenK id) root (splitPattern pattern) 0 0 [] false = (root', r) := heq
    rw [heq']
    rcases r with e | (e | ⟨⟨⟩⟩) <;> rfl


/-! ## what `fetch` does to stored nodes -/

section fetch
variable {α : Type} (k : Node → Bool → List PathParam → Nat → Node × Except FetchErr α)

/-- a successful `fetch` leaves the continuation's output stored under the token path -/
theorem fetch_stores (toks : List Str) : ∀ (n : Node) (i mi : Nat) (ps : List PathParam) (fr : Bool) (n' : Node) (a : α),
    fetch none k n toks i mi ps fr = (n', .ok a) →
    ∃ x0 fr' ps' mi', getAt n' (toks.map elemOf) = some (k x0 fr' ps' mi').1 ∧ (k x0 fr' ps' mi').2 = .ok a ∧
      WildLast (toks.map elemOf) := by
  induction toks with
  | nil =>
    intro n i mi ps fr n' a h
    rw [fetch_none_nil] at h
    exact ⟨n, fr, ps, mi, by simp [h], by simp [h], by simp [WildLast]⟩
  | cons t rest ih =>
    intro n i mi ps fr n' a h
    rw [fetch_none_cons] at h
    split at h
    · simp at h
    · rename_i e ps' hcl
      obtain ⟨he, hwl, _, _⟩ := classify_ok hcl
      simp only [Prod.mk.injEq] at h
      obtain ⟨h1, h2⟩ := h
      obtain ⟨x0, fr', ps'', mi', hg, hk, hw⟩ := ih _ _ _ _ _ _ a (Prod.ext rfl h2)
      refine ⟨x0, fr', ps'', mi', ?_, hk, ?_⟩
      · subst h1; subst he
        simp only [List.map_cons, getAt_cons, child_setChild_self, Option.bind_some]
        exact hg
      · subst he
        refine ⟨fun hw' => by simp [hwl hw'], hw⟩

/-- if the token path already exists, `fetch` either panics or runs the continuation on the
node stored there -/
theorem fetch_existing (toks : List Str) : ∀ (n : Node) (i mi : Nat) (ps : List PathParam) (fr : Bool) (x : Node),
    getAt n (toks.map elemOf) = some x →
    (∃ e, (fetch none k n toks i mi ps fr).2 = .error e) ∨
    ∃ fr' ps' mi', (fetch none k n toks i mi ps fr).2 = (k x fr' ps' mi').2 := by
  induction toks with
  | nil =>
    intro n i mi ps fr x h
    simp at h; subst h
    exact Or.inr ⟨fr, ps, mi, rfl⟩
  | cons t rest ih =>
    intro n i mi ps fr x h
    rw [fetch_none_cons]
    split
    · exact Or.inl ⟨_, rfl⟩
    · rename_i e ps' hcl
      obtain ⟨he, _, _, _⟩ := classify_ok hcl
      subst he
      simp only [List.map_cons, getAt_cons] at h
      cases hc : child n (elemOf t) with
      | none => simp [hc] at h
      | some c =>
        simp only [hc, Option.bind_some] at h
        simpa [hc] using ih c (i + 1) (if n.mounted then i else mi) ps' false x h

/-- frame: every node stored under another path keeps its handler and listeners, whatever
the outcome of `fetch` -/
theorem fetch_frame (hk : ∀ x0 fr ps mi e, child (k x0 fr ps mi).1 e = child x0 e)
    (toks : List Str) : ∀ (n : Node) (i mi : Nat) (ps : List PathParam) (fr : Bool) (pat : List Elem) (x : Node),
    getAt n pat = some x → pat ≠ toks.map elemOf →
    ∃ x', getAt (fetch none k n toks i mi ps fr).1 pat = some x' ∧ x'.hs = x.hs ∧ x'.listeners = x.listeners := by
  induction toks with
  | nil =>
    intro n i mi ps fr pat x h hne
    cases pat with
    | nil => simp at hne
    | cons e r =>
      refine ⟨x, ?_, rfl, rfl⟩
      rw [fetch_none_nil, getAt_cons, hk, ← getAt_cons]; exact h
  | cons t rest ih =>
    intro n i mi ps fr pat x h hne
    rw [fetch_none_cons]
    split
    · exact ⟨x, h, rfl, rfl⟩
    · rename_i e ps' hcl
      obtain ⟨he, _, _, _⟩ := classify_ok hcl
      cases pat with
      | nil =>
        simp at h; subst h
        exact ⟨_, getAt_nil _, by simp, by simp⟩
      | cons e' r =>
        by_cases hee : e' = e
        · subst hee
          rw [getAt_cons] at h
          cases hc : child n e' with
          | none => simp [hc] at h
          | some c =>
            simp only [hc, Option.bind_some] at h
            have hne' : r ≠ rest.map elemOf := by
              intro hr; apply hne; simp [hr, he]
            obtain ⟨x', hg', hh⟩ := ih c (i + 1) (if n.mounted then i else mi) ps' false r x h hne'
            refine ⟨x', ?_, hh⟩
            simpa [getAt_cons, hc] using hg'
        · refine ⟨x, ?_, rfl, rfl⟩
          rw [getAt_cons] at h ⊢
          simp only [child_setChild_ne _ _ _ _ hee]
          exact h

end fetch

theorem setAndValidateParams_ok {n : Node} {ps : List PathParam} {n' : Node}
    (h : setAndValidateParams n ps = .ok n') :
    (n' = n.setParams ps ∧ n.params = []) ∨ (n' = n ∧ n.params = ps) := by
  unfold setAndValidateParams at h
  split at h
  · rename_i he
    simp at h; left; exact ⟨h.symm, by simpa using he⟩
  · split at h
    · simp at h
    · split at h
      · rename_i he; simp at h; right; exact ⟨h.symm, he⟩
      · simp at h

theorem child_addK (id : Nat) (g : Group) (x0 : Node) (fr : Bool) (ps : List PathParam) (mi : Nat) (e : Elem) :
    child (addK id g x0 fr ps mi).1 e = child x0 e := by
  unfold addK
  split
  · rfl
  · split
    · rfl
    · rename_i n' h
      rcases setAndValidateParams_ok h with ⟨rfl, _⟩ | ⟨rfl, _⟩ <;> cases e <;> simp [child]

theorem child_listenK (id : Nat) (x0 : Node) (fr : Bool) (ps : List PathParam) (mi : Nat) (e : Elem) :
    child (listenK id x0 fr ps mi).1 e = child x0 e := by
  unfold listenK
  split
  · rfl
  · rename_i n' h
    rcases setAndValidateParams_ok h with ⟨rfl, _⟩ | ⟨rfl, _⟩ <;> cases e <;> simp [child]


theorem regResult_ok {r : Except FetchErr (Except RegErr Unit)} (h : regResult r = .ok ()) : r = .ok (.ok ()) := by
  rcases r with e | (e | ⟨⟨⟩⟩) <;> simp [regResult] at h ⊢

theorem addK_ok {id : Nat} {g : Group} {x0 : Node} {fr : Bool} {ps : List PathParam} {mi : Nat}
    (h : (addK id g x0 fr ps mi).2 = .ok (.ok ())) :
    x0.hs = none ∧ ∃ n', setAndValidateParams x0 ps = .ok n' ∧
      (addK id g x0 fr ps mi).1 = n'.setHs (some ⟨id, rebase g mi⟩) := by
  unfold addK at h ⊢
  split at h
  · simp at h
  · rename_i hh
    split at h
    · simp at h
    · rename_i n' hn
      refine ⟨by simpa using hh, n', hn, ?_⟩
      simp [hh]

theorem addAt_stores {root : Node} {pattern : Str} {id : Nat} {g : Group} {root' : Node}
    (h : addAt root pattern id g = (root', .ok ())) :
    ∃ x, getAt root' ((splitPattern pattern).map elemOf) = some x ∧ WildLast ((splitPattern pattern).map elemOf) ∧
      x.hs.map (·.id) = some id := by
  rw [addAt_eq] at h
  split at h
  · simp at h
  · simp only [Prod.mk.injEq] at h
    obtain ⟨h1, h2⟩ := h
    have h2 := regResult_ok h2
    obtain ⟨x0, fr', ps', mi', hg, hk, hw⟩ := fetch_stores (addK id g) _ _ _ _ _ _ _ _ (Prod.ext h1 h2)
    obtain ⟨_, n', _, hx⟩ := addK_ok hk
    exact ⟨_, hg, hw, by simp [hx]⟩

theorem addAt_frame (root : Node) (pattern : Str) (id : Nat) (g : Group) (pat : List Elem) (x : Node)
    (hne : pat ≠ (splitPattern pattern).map elemOf) (hs : getAt root pat = some x) :
    ∃ x', getAt (addAt root pattern id g).1 pat = some x' ∧ x'.hs = x.hs ∧ x'.listeners = x.listeners := by
  rw [addAt_eq]
  split
  · exact ⟨x, hs, rfl, rfl⟩
  · exact fetch_frame (addK id g) (child_addK id g) _ _ _ _ _ _ _ _ hs hne

theorem addAt_conflict (root : Node) (pattern : Str) (id : Nat) (g : Group) (x : Node)
    (hs : getAt root ((splitPattern pattern).map elemOf) = some x) (hh : x.hs.isSome) :
    (addAt root pattern id g).2 ≠ .ok () := by
  rw [addAt_eq]
  split
  · simp
  · intro h
    have h := regResult_ok h
    rcases fetch_existing (addK id g) _ root 0 0 [] false x hs with ⟨e, he⟩ | ⟨fr', ps', mi', he⟩
    · rw [he] at h; simp at h
    · rw [he] at h
      simp [addK, hh] at h


/-! ## `parseGroup` -/

theorem findTok_some {tokens : List Str} {tag : Str} {j r : Nat} (h : findTok tokens tag j = some r) :
    j ≤ r ∧ tokens[r - j]? = some tag := by
  induction tokens generalizing j with
  | nil => simp [findTok] at h
  | cons t ts ih =>
    simp only [findTok] at h
    split at h
    · rename_i ht; simp at h; subst h; simp [ht]
    · obtain ⟨h1, h2⟩ := ih h
      refine ⟨by omega, ?_⟩
      have : r - j = (r - (j + 1)) + 1 := by omega
      rw [this]; simpa using h2


theorem parseGroupDefault_idx (tokens : List Str) (n : Nat) : ∀ (g cur : Str) (acc parts : List GPart),
    g.length = n →
    (∀ i, GPart.idx i ∈ acc → ∃ name, tokens[i]? = some (dollar :: name)) →
    parseGroupDefault tokens g cur acc = .ok parts →
    ∀ i, GPart.idx i ∈ parts → ∃ name, tokens[i]? = some (dollar :: name) := by
  induction n using Nat.strongRecOn with
  | _ n ih =>
    intro g cur acc parts hn hacc h
    have hacc' : ∀ i, GPart.idx i ∈ (if cur.isEmpty then acc else acc ++ [.str cur.reverse]) →
        ∃ name, tokens[i]? = some (dollar :: name) := by
      intro i hi
      split at hi
      · exact hacc i hi
      · simp at hi; exact hacc i hi
    cases g with
    | nil =>
      rw [parseGroupDefault] at h
      simp only [Except.ok.injEq] at h; subst h
      exact hacc'
    | cons c r =>
      rw [parseGroupDefault] at h
      split at h
      · simp only at h
        split at h
        · simp at h
        · split at h
          · simp at h
          · split at h
            · simp at h
            · rename_i tag rest ht
              split at h
              · simp at h
              · rename_i j hj
                have hlen := tagLoop_len ht
                refine ih rest.length (by simp at hn hlen ⊢; omega) rest [] _ parts rfl ?_ h
                intro i hi
                simp only [List.mem_append, List.mem_singleton, GPart.idx.injEq] at hi
                rcases hi with hi | rfl
                · exact hacc' i hi
                · have := (findTok_some hj).2
                  exact ⟨tag, by simpa using this⟩
      · exact ih r.length (by simp at hn ⊢; omega) r _ acc parts rfl hacc h

theorem parseGroup_idx' {group pattern : Str} {parts : List GPart} {i : Nat}
    (h : parseGroup group pattern = .ok (some parts)) (hi : GPart.idx i ∈ parts) :
    ∃ name, (splitPattern pattern)[i]? = some (dollar :: name) := by
  unfold parseGroup at h
  split at h
  · simp at h
  · split at h
    · rename_i gr hg
      simp at h; subst h
      exact parseGroupDefault_idx _ _ _ _ _ _ rfl (by simp) hg i hi
    · simp at h


section fresh
open Pattern

/-! ## registering a well-formed pattern on a fresh mux -/

theorem wfPat_cons {t : Tok} {r : List Tok} (h : wfPat (t :: r) = true) :
    t.ok = true ∧ (t = .full → r = []) ∧ wfPat r = true := by
  cases r with
  | nil => simpa [wfPat] using h
  | cons t' r' =>
    simp only [wfPat, Bool.and_eq_true, decide_eq_true_eq] at h
    exact ⟨h.1.1, fun hf => absurd hf h.1.2, h.2⟩

theorem classify_wf {t : Str} {rest : List Str} {ps : List PathParam} (idx : Nat)
    (hok : (parseTok t).ok = true) (hfull : parseTok t = .full → rest = [])
    (hdup : ∀ name, parseTok t = .tag name → ∀ q ∈ ps, q.name ≠ name) :
    ∃ e, classify t rest ps idx = .ok (e, ps ++ tokParams t idx) := by
  cases t with
  | nil => simp [parseTok, Tok.ok, litOk] at hok
  | cons c r =>
    by_cases hd : c = dollar
    · subst hd
      simp only [parseTok, if_true, Tok.ok, tagOk, Bool.and_eq_true] at hok hdup
      have hr : r ≠ [] := by
        intro h; subst h; simp at hok
      have hdup' := hdup r rfl
      refine ⟨.param, ?_⟩
      have hany : ps.any (fun q => decide (q.name = r)) = false := by
        simp only [List.any_eq_false, decide_eq_true_eq]
        exact fun q hq => hdup' q hq
      have h1 : (r.isEmpty != decide (dollar = star)) = false := by
        cases r with
        | nil => exact absurd rfl hr
        | cons _ _ => simp; decide
      simp [classify, tokParams, hany, h1]
    · by_cases hs : c = star
      · subst hs
        by_cases hr : r = []
        · subst hr
          refine ⟨.param, ?_⟩
          simp [classify, tokParams, hd]
        · have : parseTok (star :: r) = .lit (star :: r) := by
            simp [parseTok, hr, hd]
          simp [this, Tok.ok, litOk] at hok
      · by_cases hg : c = gt
        · subst hg
          by_cases hr : r = []
          · subst hr
            have : parseTok [gt] = .full := by simp [parseTok, hd, hs]
            have hrest := hfull this
            subst hrest
            refine ⟨.wild, ?_⟩
            simp [classify, tokParams, hd, hs]
          · have : parseTok (gt :: r) = .lit (gt :: r) := by
              simp [parseTok, hr, hd, hs]
            simp [this, Tok.ok, litOk] at hok
        · refine ⟨.lit (c :: r), ?_⟩
          simp [classify, tokParams, hd, hs, hg]

theorem tokParams_tag {t : Str} {idx : Nat} {pp : PathParam} (h : pp ∈ tokParams t idx) :
    parseTok t = .tag pp.name ∧ t = dollar :: pp.name ∧ pp.idx = idx := by
  cases t with
  | nil => simp [tokParams] at h
  | cons c r =>
    simp only [tokParams] at h
    split at h
    · rename_i hc; subst hc
      simp at h; subst h
      simp [parseTok]
    · simp at h

theorem fetch_fresh_ok {α : Type} (k : Node → Bool → List PathParam → Nat → Node × Except FetchErr α) (a : α)
    (hk : ∀ fr ps mi, (k Node.empty fr ps mi).2 = .ok a) (toks : List Str) :
    ∀ (i mi : Nat) (ps : List PathParam) (fr : Bool),
    wfPat (toks.map parseTok) = true → distinctTags (toks.map parseTok) = true →
    (∀ q ∈ ps, q.name ∉ tagsOf (toks.map parseTok)) →
    (fetch none k Node.empty toks i mi ps fr).2 = .ok a := by
  induction toks with
  | nil => intro i mi ps fr _ _ _; rw [fetch_none_nil]; exact hk _ _ _
  | cons t rest ih =>
    intro i mi ps fr hwf hdt hps
    simp only [List.map_cons] at hwf hdt hps
    obtain ⟨hok, hfull, hwf'⟩ := wfPat_cons hwf
    have hfull' : parseTok t = .full → rest = [] := fun h => by simpa using hfull h
    have hdup : ∀ name, parseTok t = .tag name → ∀ q ∈ ps, q.name ≠ name := by
      intro name hn q hq hqn
      apply hps q hq
      simp [hn, tagsOf, hqn]
    obtain ⟨e, hcl⟩ := classify_wf (rest := rest) (i - (if Node.empty.mounted then i else mi)) hok hfull' hdup
    rw [fetch_none_cons, hcl]
    simp only [child_empty, Option.getD_none]
    apply ih
    · exact hwf'
    · cases hpt : parseTok t <;> simp_all [distinctTags]
    · intro q hq
      simp only [List.mem_append] at hq
      rcases hq with hq | hq
      · have := hps q hq
        cases hpt : parseTok t <;> simp_all [tagsOf]
      · obtain ⟨hpt, _, _⟩ := tokParams_tag hq
        simp [hpt, distinctTags] at hdt
        exact hdt.1

theorem addK_empty_ok (id : Nat) (g : Group) (fr : Bool) (ps : List PathParam) (mi : Nat) :
    (addK id g Node.empty fr ps mi).2 = .ok (.ok ()) := by
  simp [addK, setAndValidateParams]

theorem parse_splitPattern {pattern : Str} {ts : List Tok} (hp : Pattern.parse pattern = some ts) :
    ts = (splitPattern pattern).map parseTok ∧ wfPat ts = true := by
  unfold Pattern.parse at hp
  unfold splitPattern
  split at hp
  · simp at hp; subst hp; simp [*, wfPat]
  · rename_i hne
    simp only at hp
    split at hp
    · rename_i hw; simp at hp; subst hp; simp [hne, hw]
    · simp at hp

theorem addAt_valid_fresh (pattern : Str) (id : Nat) (ts : List Tok) (g : Group)
    (hv : Pattern.isValid pattern = true)
    (hp : Pattern.parse pattern = some ts) (hd : distinctTags ts = true) :
    (addAt Node.empty pattern id g).2 = .ok () := by
  obtain ⟨rfl, hwf⟩ := parse_splitPattern hp
  rw [addAt_eq]
  simp only [hv, Bool.not_true, Bool.false_eq_true, if_false]
  rw [fetch_fresh_ok (addK id g) (.ok ()) (addK_empty_ok id g) _ 0 0 [] false hwf hd (by simp)]
  rfl


end fresh

/-! ## the tree after one registration on the empty mux: a single line -/

/-- the tree consisting of the path `es` ending in `x` -/
def lineNode : List Elem → Node → Node
  | [], x => x
  | e :: r, x => setChild Node.empty e (lineNode r x)

/-- the `pathParam`s of a token list whose first token has index `i` -/
def paramsOf : List Str → Nat → List PathParam
  | [], _ => []
  | t :: r, i => tokParams t i ++ paramsOf r (i + 1)

theorem tokParams_length_le (t : Str) (i : Nat) : (tokParams t i).length ≤ 1 := by
  cases t with
  | nil => simp [tokParams]
  | cons c r => simp only [tokParams]; split <;> simp

theorem nodup_names_append {ps qs : List PathParam} (hps : (ps.map (·.name)).Nodup) (hq : qs.length ≤ 1)
    (hne : ∀ pp ∈ qs, ∀ q ∈ ps, q.name ≠ pp.name) : ((ps ++ qs).map (·.name)).Nodup := by
  rw [List.map_append, List.nodup_append]
  refine ⟨hps, ?_, ?_⟩
  · match qs, hq with
    | [], _ => simp
    | [a], _ => simp
  · intro a ha b hb
    simp only [List.mem_map] at ha hb
    obtain ⟨q, hq, rfl⟩ := ha
    obtain ⟨pp, hpp, rfl⟩ := hb
    exact hne pp hpp q hq

theorem fetch_fresh_line {α : Type} (k : Node → Bool → List PathParam → Nat → Node × Except FetchErr α)
    (toks : List Str) : ∀ (i : Nat) (ps : List PathParam) (fr : Bool) (n' : Node) (a : α),
    fetch none k Node.empty toks i 0 ps fr = (n', .ok a) →
    ∃ fr', n' = lineNode (toks.map elemOf) (k Node.empty fr' (ps ++ paramsOf toks i) 0).1 ∧
      (k Node.empty fr' (ps ++ paramsOf toks i) 0).2 = .ok a ∧ WildLast (toks.map elemOf) ∧
      ((ps.map (·.name)).Nodup → ((ps ++ paramsOf toks i).map (·.name)).Nodup) := by
  induction toks with
  | nil =>
    intro i ps fr n' a h
    rw [fetch_none_nil] at h
    exact ⟨fr, by simp [paramsOf, lineNode, h], by simp [paramsOf, h], by simp [WildLast], by simp [paramsOf]⟩
  | cons t rest ih =>
    intro i ps fr n' a h
    rw [fetch_none_cons] at h
    split at h
    · simp at h
    · rename_i e ps' hcl
      obtain ⟨he, hwl, hps', hdup⟩ := classify_ok hcl
      simp only [Node.mounted_empty, Bool.false_eq_true, if_false, Nat.sub_zero, child_empty,
        Option.getD_none, Option.isNone_none, Prod.mk.injEq] at h hps' hdup
      obtain ⟨h1, h2⟩ := h
      obtain ⟨fr', hn, hk, hw, hnd⟩ := ih _ _ _ _ a (Prod.ext rfl h2)
      subst hps'
      refine ⟨fr', ?_, ?_, ?_, ?_⟩
      · rw [← h1]
        simp only [List.map_cons, lineNode, paramsOf, ← List.append_assoc, ← he]
        exact congrArg _ hn
      · simpa [paramsOf, List.append_assoc] using hk
      · subst he
        exact ⟨fun hw' => by simp [hwl hw'], hw⟩
      · intro hps
        have := hnd (nodup_names_append hps (tokParams_length_le t i) hdup)
        simpa [paramsOf, List.append_assoc] using this

theorem hs_lineNode_cons (e : Elem) (r : List Elem) (x : Node) : (lineNode (e :: r) x).hs = none := by
  simp [lineNode]

theorem child_lineNode_cons {e e' : Elem} {r : List Elem} {x n : Node}
    (h : child (lineNode (e :: r) x) e' = some n) : e' = e ∧ n = lineNode r x := by
  by_cases hee : e' = e
  · subst hee; simp [lineNode] at h; exact ⟨rfl, h.symm⟩
  · simp [lineNode, child_setChild_ne _ _ _ _ hee] at h

/-- on a single-line tree, `matchNode` can only return the end of the line -/
theorem matchNode_line (x : Node) (hx : ∀ e, child x e = none) (es : List Elem) :
    ∀ (toks : List Str) (i mi : Nat) (f : Found), WildLast es →
    matchNode (lineNode es x) toks i mi = some f →
    f.node = x ∧ f.mountIdx = mi ∧ es.length ≤ toks.length := by
  induction es with
  | nil =>
    intro toks i mi f _ h
    cases toks with
    | nil => simp [matchNode_nil] at h
    | cons t rest =>
      simp only [lineNode] at h
      rcases matchNode_cons_cases h with h1 | ⟨_, h1⟩ | ⟨_, _, w, hw, _⟩
      · obtain ⟨n, hc, _⟩ := tryChild_some h1; simp [hx] at hc
      · obtain ⟨n, hc, _⟩ := tryChild_some h1; simp [hx] at hc
      · simp [hx] at hw
  | cons e r ih =>
    intro toks i mi f hwl h
    cases toks with
    | nil => simp [matchNode_nil] at h
    | cons t rest =>
      have hm : (lineNode (e :: r) x).mounted = false := by simp [lineNode]
      have step : ∀ e', tryChild (child (lineNode (e :: r) x) e') rest (i + 1) mi = some f →
          f.node = x ∧ f.mountIdx = mi ∧ (e :: r).length ≤ (t :: rest).length := by
        intro e' h1
        obtain ⟨n, hc, h2⟩ := tryChild_some h1
        obtain ⟨rfl, rfl⟩ := child_lineNode_cons hc
        rcases h2 with ⟨rfl, hh, rfl⟩ | ⟨_, h2⟩
        · cases r with
          | nil => simp [lineNode]
          | cons e2 r2 => simp [hs_lineNode_cons] at hh
        · obtain ⟨h3, h4, h5⟩ := ih rest (i + 1) mi f hwl.2 h2
          exact ⟨h3, h4, by simp; omega⟩
      have hcases := matchNode_cons_cases h
      simp only [hm, Bool.false_eq_true, if_false] at hcases
      rcases hcases with h1 | ⟨_, h1⟩ | ⟨_, _, w, hw, rfl⟩
      · exact step _ h1
      · exact step _ h1
      · obtain ⟨rfl, rfl⟩ := child_lineNode_cons hw
        have := hwl.1 rfl; subst this
        simp [lineNode]


theorem rebase_zero (g : Group) : rebase g 0 = g := by
  unfold rebase
  cases g with
  | none => rfl
  | some l =>
    show some (l.map _) = some l
    congr 1
    induction l with
    | nil => rfl
    | cons a l ih => rw [List.map_cons, ih]; cases a <;> rfl

theorem addHandlerAt_ok {root : Node} {pattern : Str} {id : Nat} {group : Str} {par : Bool} {root' : Node}
    (h : addHandlerAt root pattern id group par = (root', .ok ())) :
    ∃ g, (if par then g = some [] else parseGroup group pattern = .ok g) ∧
      addAt root pattern id g = (root', .ok ()) := by
  unfold addHandlerAt at h
  split at h
  · rename_i hp; exact ⟨some [], by simp [hp], h⟩
  · rename_i hp
    split at h
    · simp at h
    · rename_i g hg; exact ⟨g, by simp [hp, hg], h⟩

/-- the tree after a successful registration on the empty mux -/
theorem addAt_empty_ok {pattern : Str} {id : Nat} {g : Group} {root' : Node}
    (h : addAt Node.empty pattern id g = (root', .ok ())) :
    root' = lineNode ((splitPattern pattern).map elemOf)
      ((Node.empty.setParams (paramsOf (splitPattern pattern) 0)).setHs (some ⟨id, g⟩)) ∧
    WildLast ((splitPattern pattern).map elemOf) ∧
    ((paramsOf (splitPattern pattern) 0).map (·.name)).Nodup := by
  rw [addAt_eq] at h
  split at h
  · simp at h
  · simp only [Prod.mk.injEq] at h
    obtain ⟨h1, h2⟩ := h
    have h2 := regResult_ok h2
    obtain ⟨fr', hn, _, hw, hnd⟩ := fetch_fresh_line (addK id g) _ 0 [] false _ _ (Prod.ext h1 h2)
    refine ⟨?_, hw, by simpa using hnd⟩
    rw [hn]
    simp [addK, setAndValidateParams, rebase_zero]


section pvalues
open Pattern

/-! ## Go map assignment on association lists -/

theorem mapGet_map_upd_ne (m : List (Str × Str)) (k v k' : Str) (hk : k' ≠ k) :
    mapGet (m.map (fun e => if e.1 == k then (k, v) else e)) k' = mapGet m k' := by
  induction m with
  | nil => simp [mapGet]
  | cons a m ih =>
    obtain ⟨a, b⟩ := a
    simp only [mapGet] at ih
    have hk' : ¬ k = k' := fun h => hk h.symm
    by_cases hak : a = k
    · subst hak
      simp [mapGet, hk'] at ih ⊢
      exact ih
    · by_cases hak' : a = k'
      · subst hak'; simp [mapGet, hak]
      · simp [mapGet, hak, hak'] at ih ⊢
        exact ih

theorem mapGet_map_upd_self (m : List (Str × Str)) (k v : Str) (h : m.any (·.1 == k) = true) :
    mapGet (m.map (fun e => if e.1 == k then (k, v) else e)) k = some v := by
  induction m with
  | nil => simp at h
  | cons a m ih =>
    obtain ⟨a, b⟩ := a
    by_cases hak : a = k
    · subst hak; simp [mapGet]
    · have hb : (a == k) = false := by simpa using hak
      simp only [List.any_cons, hb, Bool.false_or] at h
      have := ih h
      simp only [mapGet] at this
      simp [mapGet, hak] at this ⊢
      exact this

theorem mapGet_none_of_any_false {m : List (Str × Str)} {k : Str} (h : m.any (·.1 == k) = false) :
    mapGet m k = none := by
  simp only [mapGet, Option.map_eq_none_iff, List.find?_eq_none]
  intro x hx
  have := List.any_eq_false.1 h x hx
  exact this

theorem mapGet_mapSet (m : List (Str × Str)) (k v k' : Str) :
    mapGet (mapSet m k v) k' = if k' = k then some v else mapGet m k' := by
  unfold mapSet
  split
  · rename_i h
    by_cases hk : k' = k
    · subst hk; rw [mapGet_map_upd_self _ _ _ h]; simp
    · rw [mapGet_map_upd_ne _ _ _ _ hk]; simp [hk]
  · rename_i h
    have h : m.any (·.1 == k) = false := Bool.eq_false_iff.mpr h
    by_cases hk : k' = k
    · subst hk
      have := mapGet_none_of_any_false h
      simp only [mapGet, Option.map_eq_none_iff] at this
      simp [mapGet, List.find?_append, this]
    · have hk' : ¬ k = k' := fun h => hk h.symm
      simp only [mapGet, List.find?_append, hk, if_false]
      cases m.find? (fun x => x.1 == k') <;> simp [hk']

/-! ## parameter values -/

theorem paramValues_spec (toks : List Str) (mi : Nat) (ps : List PathParam) :
    ∀ (acc : List (Str × Str)), (∀ pp ∈ ps, pp.idx + mi < toks.length) → (ps.map (·.name)).Nodup →
    ∃ m, ps.foldlM (fun acc pp => (toks[pp.idx + mi]?).map (fun v => Pattern.mapSet acc pp.name v)) acc = some m ∧
      (∀ pp ∈ ps, mapGet m pp.name = toks[pp.idx + mi]?) ∧
      (∀ k, k ∉ ps.map (·.name) → mapGet m k = mapGet acc k) := by
  induction ps with
  | nil => intro acc _ _; exact ⟨acc, by simp, by simp, by simp⟩
  | cons p r ih =>
    intro acc hlt hnd
    have hp := hlt p (by simp)
    simp only [List.map_cons, List.nodup_cons] at hnd
    obtain ⟨m, hm, hin, hout⟩ := ih (mapSet acc p.name toks[p.idx + mi]) (fun pp hpp => hlt pp (by simp [hpp])) hnd.2
    refine ⟨m, ?_, ?_, ?_⟩
    · simp [List.foldlM_cons, List.getElem?_eq_getElem hp, hm]
    · intro pp hpp
      simp only [List.mem_cons] at hpp
      rcases hpp with rfl | hpp
      · rw [hout _ hnd.1, mapGet_mapSet]; simp [List.getElem?_eq_getElem hp]
      · exact hin pp hpp
    · intro k hk
      simp only [List.map_cons, List.mem_cons, not_or] at hk
      rw [hout k hk.2, mapGet_mapSet]; simp [hk.1]

theorem mem_paramsOf {toks : List Str} {i : Nat} {pp : PathParam} :
    pp ∈ paramsOf toks i ↔ ∃ j, toks[j]? = some (dollar :: pp.name) ∧ pp.idx = i + j := by
  induction toks generalizing i with
  | nil => simp [paramsOf]
  | cons t r ih =>
    simp only [paramsOf, List.mem_append, ih]
    constructor
    · rintro (h | ⟨j, h1, h2⟩)
      · obtain ⟨_, h1, h2⟩ := tokParams_tag h
        exact ⟨0, by simp [h1], by simp [h2]⟩
      · exact ⟨j + 1, by simpa using h1, by omega⟩
    · rintro ⟨j, h1, h2⟩
      cases j with
      | zero =>
        left
        simp at h1; subst h1
        obtain ⟨name, idx⟩ := pp
        simp at h2; subst h2
        simp [tokParams]
      | succ j => right; exact ⟨j, by simpa using h1, by omega⟩


end pvalues

/-- what lookup finds after one successful `AddHandler` on the empty mux -/
theorem addHandlerAt_empty_found {pattern : Str} {id : Nat} {group : Str} {par : Bool} {root' : Node}
    {toks : List Str} {f : Found}
    (h : addHandlerAt Node.empty pattern id group par = (root', .ok ()))
    (hm : matchNode root' toks 0 0 = some f) :
    ∃ g, (if par then g = some [] else parseGroup group pattern = .ok g) ∧
      f.mountIdx = 0 ∧
      f.node = (Node.empty.setParams (paramsOf (splitPattern pattern) 0)).setHs (some ⟨id, g⟩) ∧
      (splitPattern pattern).length ≤ toks.length ∧
      ((paramsOf (splitPattern pattern) 0).map (·.name)).Nodup := by
  obtain ⟨g, hg, hadd⟩ := addHandlerAt_ok h
  obtain ⟨hroot, hwl, hnd⟩ := addAt_empty_ok hadd
  subst hroot
  have hx : ∀ e, child ((Node.empty.setParams (paramsOf (splitPattern pattern) 0)).setHs (some ⟨id, g⟩)) e = none := by
    intro e; cases e <;> simp [child]
  obtain ⟨h1, h2, h3⟩ := matchNode_line _ hx _ toks 0 0 f hwl hm
  exact ⟨g, hg, h2, h1, by simpa using h3, hnd⟩

theorem params_exact' {pattern : Str} {id : Nat} {group : Str} {par : Bool} {root' : Node}
    {toks : List Str} {f : Found}
    (h : addHandlerAt Node.empty pattern id group par = (root', .ok ()))
    (hm : matchNode root' toks 0 0 = some f) :
    ∃ m, paramValues f.node.params toks f.mountIdx = some m ∧
      (∀ (j : Nat) (name : Str), (splitPattern pattern)[j]? = some (dollar :: name) → Pattern.mapGet m name = toks[j]?) ∧
      (∀ (name v : Str), Pattern.mapGet m name = some v → ∃ j : Nat, (splitPattern pattern)[j]? = some (dollar :: name)) := by
  obtain ⟨g, _, hmi, hnode, hlen, hnd⟩ := addHandlerAt_empty_found h hm
  have hps : f.node.params = paramsOf (splitPattern pattern) 0 := by simp [hnode]
  have hlt : ∀ pp ∈ paramsOf (splitPattern pattern) 0, pp.idx + 0 < toks.length := by
    intro pp hpp
    obtain ⟨j, hj, hidx⟩ := mem_paramsOf.1 hpp
    have : j < (splitPattern pattern).length := by
      rcases Nat.lt_or_ge j (splitPattern pattern).length with h | h
      · exact h
      · rw [List.getElem?_eq_none h] at hj; simp at hj
    omega
  obtain ⟨m, hfold, hin, hout⟩ := paramValues_spec toks 0 _ [] hlt hnd
  refine ⟨m, ?_, ?_, ?_⟩
  · rw [hps, hmi]; exact hfold
  · intro j name hj
    have hmem : (⟨name, j⟩ : PathParam) ∈ paramsOf (splitPattern pattern) 0 :=
      mem_paramsOf.2 ⟨j, hj, by simp⟩
    simpa using hin _ hmem
  · intro name v hv
    by_cases hmem : name ∈ (paramsOf (splitPattern pattern) 0).map (·.name)
    · simp only [List.mem_map] at hmem
      obtain ⟨pp, hpp, rfl⟩ := hmem
      obtain ⟨j, hj, _⟩ := mem_paramsOf.1 hpp
      exact ⟨j, hj⟩
    · rw [hout name hmem] at hv
      simp [Pattern.mapGet] at hv

theorem group_exact' {pattern : Str} {id : Nat} {group : Str} {par : Bool} {root' : Node}
    {toks : List Str} {f : Found}
    (h : addHandlerAt Node.empty pattern id group par = (root', .ok ()))
    (hm : matchNode root' toks 0 0 = some f) :
    f.mountIdx = 0 ∧ ∃ reg, f.node.hs = some reg ∧ reg.id = id ∧
      (if par then reg.group = some [] else parseGroup group pattern = .ok reg.group) := by
  obtain ⟨g, hg, hmi, hnode, _, _⟩ := addHandlerAt_empty_found h hm
  exact ⟨hmi, ⟨id, g⟩, by simp [hnode], rfl, hg⟩


/-! ## the invariant behind `lookup_never_panics` -/

/-- a node at depth `d`: not a mount point, and every token index it stores is `< d` -/
def NodeOK (x : Node) (d : Nat) : Prop :=
  x.mounted = false ∧ (∀ pp ∈ x.params, pp.idx < d) ∧
  (∀ reg, x.hs = some reg → ∀ parts, reg.group = some parts → ∀ i, GPart.idx i ∈ parts → i < d)

/-- every node below `n` (which is at depth `d`) is `NodeOK` at its depth -/
def Good (n : Node) (d : Nat) : Prop :=
  ∀ pat x, getAt n pat = some x → NodeOK x (d + pat.length)

theorem NodeOK.mono {x : Node} {d d' : Nat} (h : NodeOK x d) (hd : d ≤ d') : NodeOK x d' :=
  ⟨h.1, fun pp hpp => Nat.lt_of_lt_of_le (h.2.1 pp hpp) hd,
   fun reg hr parts hp i hi => Nat.lt_of_lt_of_le (h.2.2 reg hr parts hp i hi) hd⟩

theorem Good_iff (n : Node) (d : Nat) :
    Good n d ↔ NodeOK n d ∧ ∀ e c, child n e = some c → Good c (d + 1) := by
  constructor
  · intro h
    refine ⟨by simpa using h [] n (getAt_nil n), ?_⟩
    intro e c hc pat x hg
    have := h (e :: pat) x (by simp [getAt_cons, hc, hg])
    have e : d + (e :: pat).length = d + 1 + pat.length := by simp; omega
    rwa [e] at this
  · rintro ⟨h0, hch⟩ pat x hg
    cases pat with
    | nil => simp at hg; subst hg; simpa using h0
    | cons e r =>
      rw [getAt_cons] at hg
      cases hc : child n e with
      | none => simp [hc] at hg
      | some c =>
        simp only [hc, Option.bind_some] at hg
        have := hch e c hc r x hg
        have e : d + (e :: r).length = d + 1 + r.length := by simp; omega
        rwa [e]

theorem Good_empty (d : Nat) : Good Node.empty d := by
  rw [Good_iff]
  exact ⟨⟨rfl, by simp, by simp⟩, by simp⟩

theorem fetch_good {α : Type} (k : Node → Bool → List PathParam → Nat → Node × Except FetchErr α) (D : Nat)
    (hk : ∀ x0 fr ps, NodeOK x0 D → (∀ pp ∈ ps, pp.idx < D) → NodeOK (k x0 fr ps 0).1 D)
    (hkc : ∀ x0 fr ps mi e, child (k x0 fr ps mi).1 e = child x0 e)
    (toks : List Str) : ∀ (n : Node) (i : Nat) (ps : List PathParam) (fr : Bool),
    i + toks.length = D → Good n i → (∀ pp ∈ ps, pp.idx < i) →
    Good (fetch none k n toks i 0 ps fr).1 i := by
  induction toks with
  | nil =>
    intro n i ps fr hD hg hps
    simp at hD; subst hD
    rw [fetch_none_nil]
    rw [Good_iff] at hg ⊢
    refine ⟨hk n fr ps hg.1 hps, ?_⟩
    intro e c hc
    rw [hkc] at hc
    exact hg.2 e c hc
  | cons t rest ih =>
    intro n i ps fr hD hg hps
    rw [fetch_none_cons]
    split
    · exact hg
    · rename_i e ps' hcl
      obtain ⟨_, _, hps', _⟩ := classify_ok hcl
      have hg' := (Good_iff n i).1 hg
      have hm : n.mounted = false := hg'.1.1
      simp only [hm, Bool.false_eq_true, if_false, Nat.sub_zero] at hps' ⊢
      have hchild : Good ((child n e).getD Node.empty) (i + 1) := by
        cases hc : child n e with
        | none => simpa using Good_empty (i + 1)
        | some c => simpa using hg'.2 e c hc
      have hps'' : ∀ pp ∈ ps', pp.idx < i + 1 := by
        intro pp hpp
        subst hps'
        simp only [List.mem_append] at hpp
        rcases hpp with hpp | hpp
        · exact Nat.lt_succ_of_lt (hps pp hpp)
        · have := (tokParams_tag hpp).2.2; omega
      have hr := ih ((child n e).getD Node.empty) (i + 1) ps' (child n e).isNone
        (by simp at hD; omega) hchild hps''
      rw [Good_iff]
      refine ⟨⟨by simpa using hm, by simpa using hg'.1.2.1, by simpa using hg'.1.2.2⟩, ?_⟩
      intro e' c hc
      by_cases hee : e' = e
      · subst hee; simp at hc; subst hc; exact hr
      · rw [child_setChild_ne _ _ _ _ hee] at hc
        exact hg'.2 e' c hc

theorem addK_nodeOK (id : Nat) (g : Group) (D : Nat)
    (hg : ∀ parts, g = some parts → ∀ i, GPart.idx i ∈ parts → i < D)
    (x0 : Node) (fr : Bool) (ps : List PathParam) (h0 : NodeOK x0 D) (hps : ∀ pp ∈ ps, pp.idx < D) :
    NodeOK (addK id g x0 fr ps 0).1 D := by
  unfold addK
  split
  · exact h0
  · split
    · exact h0
    · rename_i n' hn
      rcases setAndValidateParams_ok hn with ⟨rfl, _⟩ | ⟨rfl, _⟩
      · refine ⟨by simpa using h0.1, by simpa using hps, ?_⟩
        intro reg hr parts hp i hi
        simp at hr; subst hr
        rw [rebase_zero] at hp
        exact hg parts hp i hi
      · refine ⟨by simpa using h0.1, by simpa using h0.2.1, ?_⟩
        intro reg hr parts hp i hi
        simp at hr; subst hr
        rw [rebase_zero] at hp
        exact hg parts hp i hi

theorem listenK_nodeOK (id : Nat) (D : Nat)
    (x0 : Node) (fr : Bool) (ps : List PathParam) (h0 : NodeOK x0 D) (hps : ∀ pp ∈ ps, pp.idx < D) :
    NodeOK (listenK id x0 fr ps 0).1 D := by
  unfold listenK
  split
  · exact h0
  · rename_i n' hn
    rcases setAndValidateParams_ok hn with ⟨rfl, _⟩ | ⟨rfl, _⟩
    · exact ⟨by simpa using h0.1, by simpa using hps, by simpa using h0.2.2⟩
    · exact ⟨by simpa using h0.1, by simpa using h0.2.1, by simpa using h0.2.2⟩

theorem addAt_good (root : Node) (pattern : Str) (id : Nat) (g : Group)
    (hg : ∀ parts, g = some parts → ∀ i, GPart.idx i ∈ parts → i < (splitPattern pattern).length)
    (h : Good root 0) : Good (addAt root pattern id g).1 0 := by
  rw [addAt_eq]
  split
  · exact h
  · exact fetch_good (addK id g) _ (addK_nodeOK id g _ hg) (child_addK id g) _ root 0 [] false
      (by simp) h (by simp)

theorem addHandlerAt_good (root : Node) (pattern : Str) (id : Nat) (group : Str) (par : Bool)
    (h : Good root 0) : Good (addHandlerAt root pattern id group par).1 0 := by
  unfold addHandlerAt
  split
  · exact addAt_good root pattern id _ (by simp) h
  · split
    · exact h
    · rename_i g hg
      apply addAt_good root pattern id g _ h
      intro parts hp i hi
      subst hp
      obtain ⟨name, hn⟩ := parseGroup_idx' hg hi
      rcases Nat.lt_or_ge i (splitPattern pattern).length with h | h
      · exact h
      · rw [List.getElem?_eq_none h] at hn; simp at hn

theorem addListenerAt_good (root : Node) (pattern : Str) (id : Nat)
    (h : Good root 0) : Good (addListenerAt root pattern id).1 0 := by
  rw [addListenerAt_eq]
  split
  · exact h
  · exact fetch_good (listenK id) (splitPattern pattern).length (listenK_nodeOK id _) (child_listenK id) _ root 0 [] false
      (by simp) h (by simp)


theorem matchNode_mountIdx (toks : List Str) : ∀ (l : Node) (i mi d : Nat) (f : Found),
    Good l d → matchNode l toks i mi = some f → f.mountIdx = mi := by
  induction toks with
  | nil => intro l i mi d f _ h; simp [matchNode_nil] at h
  | cons t rest ih =>
    intro l i mi d f hg h
    have hg' := (Good_iff l d).1 hg
    have hm : l.mounted = false := hg'.1.1
    have step : ∀ e, tryChild (child l e) rest (i + 1) mi = some f → f.mountIdx = mi := by
      intro e h1
      obtain ⟨n, hc, h2⟩ := tryChild_some h1
      rcases h2 with ⟨_, _, rfl⟩ | ⟨_, h2⟩
      · rfl
      · exact ih n (i + 1) mi (d + 1) f (hg'.2 e n hc) h2
    have hcases := matchNode_cons_cases h
    simp only [hm, Bool.false_eq_true, if_false] at hcases
    rcases hcases with h1 | ⟨_, h1⟩ | ⟨_, _, w, _, rfl⟩
    · exact step _ h1
    · exact step _ h1
    · rfl

theorem paramValues_isSome (toks : List Str) (mi : Nat) (ps : List PathParam)
    (h : ∀ pp ∈ ps, pp.idx + mi < toks.length) : ∃ m, paramValues ps toks mi = some m := by
  unfold paramValues
  generalize ([] : List (Str × Str)) = acc
  induction ps generalizing acc with
  | nil => exact ⟨acc, by simp⟩
  | cons p r ih =>
    have hp := h p (by simp)
    obtain ⟨m, hm⟩ := ih (fun pp hpp => h pp (by simp [hpp])) (Pattern.mapSet acc p.name toks[p.idx + mi])
    exact ⟨m, by simp [List.foldlM_cons, List.getElem?_eq_getElem hp, hm]⟩

theorem groupToString_isSome (g : Group) (rname : Str) (tokens : List Str)
    (h : ∀ parts, g = some parts → ∀ i, GPart.idx i ∈ parts → i < tokens.length) :
    ∃ s, groupToString g rname tokens = some s := by
  have fold : ∀ (parts : List GPart) (acc : Str), (∀ i, GPart.idx i ∈ parts → i < tokens.length) →
      ∃ s, parts.foldlM (fun acc gp => match gp with
        | .str s => some (acc ++ s)
        | .idx i => (tokens[i]?).map (acc ++ ·)) acc = some s := by
    intro parts
    induction parts with
    | nil => intro acc _; exact ⟨acc, by simp⟩
    | cons p r ih =>
      intro acc hp
      cases p with
      | str s =>
        obtain ⟨s', hs'⟩ := ih (acc ++ s) (fun i hi => hp i (by simp [hi]))
        exact ⟨s', by simp [List.foldlM_cons, hs']⟩
      | idx i =>
        have hi := hp i (by simp)
        obtain ⟨s', hs'⟩ := ih (acc ++ tokens[i]) (fun i hi => hp i (by simp [hi]))
        exact ⟨s', by simp [List.foldlM_cons, List.getElem?_eq_getElem hi, hs']⟩
  unfold groupToString
  split
  · exact ⟨_, rfl⟩
  · exact ⟨_, rfl⟩
  · exact ⟨_, rfl⟩
  · rename_i parts _ _
    exact fold parts [] (h parts rfl)

/-- `GetHandler` does not panic on a tree satisfying the invariant -/
theorem getHandler_ne_panic (root : Node) (hg : Good root 0) (path rname : Str) :
    getHandler path root rname ≠ .panic := by
  unfold getHandler
  simp only
  split
  · simp
  · rename_i subrname _
    split
    · -- the root node
      split
      · simp
      · rename_i h hh
        have hroot : NodeOK root 0 := ((Good_iff root 0).1 hg).1
        obtain ⟨s, hs⟩ := groupToString_isSome h.group rname []
          (fun parts hp i hi => by have := hroot.2.2 h hh parts hp i hi; omega)
        simp [hs]
    · split
      · simp
      · rename_i f hf
        split
        · simp
        · rename_i h hh
          obtain ⟨pat, hpat, hm⟩ := matchNode_sound _ root 0 0 f hf
          have hlen := EMatch_length hm
          have hok : NodeOK f.node (splitDots subrname).length :=
            (hg pat f.node hpat).mono (by omega)
          have hmi : f.mountIdx = 0 := matchNode_mountIdx _ root 0 0 0 f hg hf
          obtain ⟨ps, hps⟩ := paramValues_isSome (splitDots subrname) f.mountIdx f.node.params
            (fun pp hpp => by have := hok.2.1 pp hpp; omega)
          obtain ⟨s, hs⟩ := groupToString_isSome h.group rname ((splitDots subrname).drop f.mountIdx)
            (fun parts hp i hi => by have := hok.2.2 h hh parts hp i hi; simp [hmi]; omega)
          simp [hps, hs]


end GoRes.Mux
