import GoRes.Lemmas.Pool
/-! Happens-before between the callbacks of one group of the worker-pool model (C16): every started
callback of a group has finished, except the one running now, which is the most recent one. -/
namespace GoRes.Pool

/-! ## the callbacks running in a list of workers -/

/-- (group, callback) of the callbacks running in a list of workers -/
def runL (l : List WState) : List (Nat × Nat) := l.flatMap startedOf

theorem runningNow_eq (s : St) : runningNow s = runL s.workers := rfl

@[simp] theorem runL_nil : runL [] = [] := rfl
@[simp] theorem runL_cons (w : WState) (l : List WState) : runL (w :: l) = startedOf w ++ runL l := by
  simp [runL]
@[simp] theorem runL_append (a b : List WState) : runL (a ++ b) = runL a ++ runL b := by
  simp [runL]

@[simp] theorem setWorker_finished (s : St) (i ws wq rw) : (setWorker s i ws wq rw).finished = s.finished := rfl

theorem cbsOf_startedOf_eq {g : Nat} {ws : WState} (h : wsWid ws = some g) :
    ∃ w c, ws = .running w c ∧ w.wid = g ∧ cbsOf g (startedOf ws) = [c] := by
  cases ws with
  | running w c =>
    simp [wsWid] at h
    exact ⟨w, c, rfl, h, by simp [startedOf, cbsOf_single, h]⟩
  | _ => simp [wsWid] at h

theorem cbsOf_runL_of_cnt {g : Nat} {l : List WState} (h : cntW g l = 0) : cbsOf g (runL l) = [] := by
  induction l with
  | nil => rfl
  | cons w l ih =>
    rw [cntW_cons] at h
    have hw : ¬ wsWid w = some g := by intro hw; simp [hw] at h
    simp only [hw, if_false, Nat.add_zero] at h
    simp [cbsOf_startedOf g w hw, ih h]

theorem length_cbsOf_runL (g : Nat) (l : List WState) : (cbsOf g (runL l)).length = cntW g l := by
  induction l with
  | nil => rfl
  | cons w l ih =>
    rw [cntW_cons, runL_cons, cbsOf_append, List.length_append, ih]
    by_cases hw : wsWid w = some g
    · obtain ⟨_, _, _, _, hc⟩ := cbsOf_startedOf_eq hw
      simp [hw, hc]; omega
    · simp [hw, cbsOf_startedOf g w hw]

/-- the running callback of a group is the only one -/
theorem cbsOf_runL_running {g : Nat} {l : List WState} {i : Nat} {w : Work} {cb : Nat}
    (hi : l[i]? = some (.running w cb)) (hw : w.wid = g) (hle : cntW g l ≤ 1) : cbsOf g (runL l) = [cb] := by
  obtain ⟨A, B, hl, _, _⟩ := set_split hi
  subst hl
  simp only [cntW_append, cntW_cons, wsWid, hw, if_true] at hle
  have hA : cntW g A = 0 := by omega
  have hB : cntW g B = 0 := by omega
  simp [cbsOf_runL_of_cnt hA, cbsOf_runL_of_cnt hB, startedOf, cbsOf_cons, hw]

theorem runL_set_of_nil {l : List WState} {i : Nat} {old x : WState} (h : l[i]? = some old)
    (ho : startedOf old = []) (hx : startedOf x = []) : runL (l.set i x) = runL l := by
  obtain ⟨A, B, hl, _, hset⟩ := set_split h
  rw [hset x]; rw [hl]; simp [ho, hx]

theorem countP_runL_set {l : List WState} {i : Nat} {old : WState} (h : l[i]? = some old)
    (p : Nat × Nat → Bool) (x : WState) :
    (runL (l.set i x)).countP p + (startedOf old).countP p = (runL l).countP p + (startedOf x).countP p := by
  obtain ⟨A, B, hl, _, hset⟩ := set_split h
  rw [hset x]; rw [hl]
  simp only [runL_append, runL_cons, List.countP_append]; omega

theorem mem_runL_set {l : List WState} {i : Nat} {x : WState} {p : Nat × Nat} (h : p ∈ runL (l.set i x)) :
    p ∈ startedOf x ∨ p ∈ runL l := by
  simp only [runL, List.mem_flatMap] at h ⊢
  obtain ⟨ws, hws, hp⟩ := h
  rcases mem_set_cases hws with rfl | hws
  · exact Or.inl hp
  · exact Or.inr ⟨ws, hws, hp⟩

theorem mem_runL_of_getElem? {l : List WState} {i : Nat} {w : Work} {cb : Nat}
    (h : l[i]? = some (.running w cb)) : (w.wid, cb) ∈ runL l := by
  simp only [runL, List.mem_flatMap]
  exact ⟨_, List.mem_of_getElem? h, by simp [startedOf]⟩

@[simp] theorem startedOf_appendWS (wid cb : Nat) (w : WState) : startedOf (appendWS wid cb w) = startedOf w := by
  cases w <;> simp [appendWS, startedOf]

@[simp] theorem startedOf_bcast (w : WState) : startedOf (bcast w) = startedOf w := by cases w <;> rfl

@[simp] theorem runL_map_appendWS (wid cb : Nat) (l : List WState) : runL (l.map (appendWS wid cb)) = runL l := by
  induction l with
  | nil => rfl
  | cons w l ih => simp [ih]

@[simp] theorem runL_map_bcast (l : List WState) : runL (l.map bcast) = runL l := by
  induction l with
  | nil => rfl
  | cons w l ih => simp [ih]

@[simp] theorem runL_replicate_idle (n : Nat) : runL (List.replicate n .idle) = [] := by
  induction n with
  | zero => rfl
  | succ n ih => simp [List.replicate_succ, ih, startedOf]

theorem runL_of_all_exited {l : List WState} (h : l.all (· = .exited) = true) : runL l = [] := by
  induction l with
  | nil => rfl
  | cons w l ih =>
    simp at h
    simp [h.1, startedOf, ih (by simpa using h.2)]

/-! ## the happens-before invariant of one group -/

/-- the started callbacks of group `g` are finished ones followed by the running one (if any) -/
def HB (g : Nat) (st : List (Nat × Nat)) (fin : List Nat) (ws : List WState) : Prop :=
  ∃ pre, cbsOf g st = pre ++ cbsOf g (runL ws) ∧ ∀ c ∈ pre, c ∈ fin

theorem HB.congr {g : Nat} {st st' : List (Nat × Nat)} {fin fin' : List Nat} {ws ws' : List WState}
    (h : HB g st fin ws) (h1 : st' = st) (h2 : fin' = fin) (h3 : runL ws' = runL ws) : HB g st' fin' ws' := by
  subst h1 h2; unfold HB; rw [h3]; exact h

/-- a worker that runs nothing of `g` changes its state, possibly starting a callback -/
theorem HB.start {g : Nat} {st : List (Nat × Nat)} {fin : List Nat} {ws : List WState} (h : HB g st fin ws)
    {i : Nat} {old : WState} (hi : ws[i]? = some old) (ho : cbsOf g (startedOf old) = []) (x : WState)
    (hle : cntW g (ws.set i x) ≤ 1) : HB g (st ++ startedOf x) fin (ws.set i x) := by
  obtain ⟨pre, h1, h2⟩ := h
  obtain ⟨A, B, hl, _, hset⟩ := set_split hi
  rw [hset x] at hle ⊢
  subst hl
  refine ⟨pre, ?_, h2⟩
  simp only [cbsOf_append, runL_append, runL_cons, ho, List.nil_append] at h1 ⊢
  by_cases hg : wsWid x = some g
  · simp only [cntW_append, cntW_cons, hg, if_true] at hle
    have hA : cntW g A = 0 := by omega
    have hB : cntW g B = 0 := by omega
    simp [h1, cbsOf_runL_of_cnt hA, cbsOf_runL_of_cnt hB]
  · simp [h1, cbsOf_startedOf g x hg]

/-- a running callback ends -/
theorem HB.done {g : Nat} {st : List (Nat × Nat)} {fin : List Nat} {ws : List WState} (h : HB g st fin ws)
    {i : Nat} {w : Work} {cb : Nat} (hi : ws[i]? = some (.running w cb)) (hle : cntW g ws ≤ 1) :
    HB g st (fin ++ [cb]) (ws.set i .idle) := by
  obtain ⟨pre, h1, h2⟩ := h
  obtain ⟨A, B, hl, _, hset⟩ := set_split hi
  rw [hset .idle]
  subst hl
  simp only [cbsOf_append, runL_append, runL_cons] at h1 ⊢
  by_cases hg : w.wid = g
  · simp only [cntW_append, cntW_cons, wsWid, hg, if_true] at hle
    have hA : cntW g A = 0 := by omega
    have hB : cntW g B = 0 := by omega
    refine ⟨pre ++ [cb], ?_, fun c hc => ?_⟩
    · simpa [cbsOf_runL_of_cnt hA, cbsOf_runL_of_cnt hB, startedOf, cbsOf_single, hg] using h1
    · rcases List.mem_append.mp hc with hc | hc
      · exact List.mem_append_left _ (h2 c hc)
      · exact List.mem_append_right _ hc
  · refine ⟨pre, ?_, fun c hc => List.mem_append_left _ (h2 c hc)⟩
    simpa [startedOf, cbsOf_single, hg] using h1

/-! ## the invariant of the pool -/

structure InvHB (s : St) : Prop where
  /-- per group: all started callbacks have finished, except the running one, which is the last -/
  hb : ∀ g, g ≠ 0 → HB g s.started s.finished s.workers
  /-- a finished callback was started -/
  fin : ∀ c ∈ s.finished, c ∈ s.started.map (·.2)
  /-- a running callback was started -/
  ran : ∀ x ∈ runL s.workers, x ∈ s.started
  /-- with multiplicity: a started callback is finished or running, never both -/
  cnt : ∀ p : Nat → Bool,
    s.finished.countP p + (runL s.workers).countP (fun x => p x.2) = s.started.countP (fun x => p x.2)

theorem InvHB.init : InvHB init :=
  ⟨fun _ _ => ⟨[], rfl, fun _ h => (by cases h)⟩, fun _ h => (by simp [Pool.init] at h),
    fun _ h => (by simp [Pool.init] at h), fun _ => (by simp [Pool.init])⟩

theorem InvHB.of_same {s s' : St} (h : InvHB s) (h1 : s'.started = s.started) (h2 : s'.finished = s.finished)
    (h3 : runL s'.workers = runL s.workers) : InvHB s' := by
  refine ⟨fun g hg => (h.hb g hg).congr h1 h2 h3, ?_, ?_, ?_⟩
  · rw [h1, h2]; exact h.fin
  · rw [h1, h3]; exact h.ran
  · rw [h1, h2, h3]; exact h.cnt

theorem InvHB.setWorker {s : St} {i : Nat} {x : WState} {wq : Option (List Work)} {rw : List Nat}
    (hI' : Inv (setWorker s i x wq rw)) (h : InvHB s) {old : WState} (hi : s.workers[i]? = some old)
    (ho : startedOf old = []) : InvHB (setWorker s i x wq rw) := by
  refine ⟨fun g hg => ?_, fun c hc => ?_, fun p hp => ?_, fun p => ?_⟩
  · have hle := hI'.le g hg
    simp only [setWorker_workers] at hle
    exact (h.hb g hg).start hi (by simp [ho]) x (by omega)
  · simp only [setWorker_started, setWorker_finished, List.map_append, List.mem_append] at hc ⊢
    exact Or.inl (h.fin c hc)
  · simp only [setWorker_started, setWorker_workers, List.mem_append] at hp ⊢
    rcases mem_runL_set hp with hp | hp
    · exact Or.inr hp
    · exact Or.inl (h.ran p hp)
  · have h1 := h.cnt p
    have h2 := countP_runL_set hi (fun x => p x.2) x
    simp only [ho, List.countP_nil] at h2
    simp only [setWorker_started, setWorker_finished, setWorker_workers, List.countP_append]
    omega

theorem InvHB.finish {s : St} (hI : Inv s) (h : InvHB s) {i : Nat} {w : Work} {cb : Nat}
    (hi : s.workers[i]? = some (.running w cb)) : InvHB (finish s i w cb) := by
  refine ⟨fun g hg => ?_, fun c hc => ?_, fun p hp => ?_, fun p => ?_⟩
  · have hle := hI.le g hg
    exact (h.hb g hg).done hi (by omega)
  · simp only [Pool.finish, List.mem_append, List.mem_singleton] at hc
    rcases hc with hc | rfl
    · exact h.fin c hc
    · exact List.mem_map.mpr ⟨_, h.ran _ (mem_runL_of_getElem? hi), rfl⟩
  · simp only [Pool.finish] at hp
    rcases mem_runL_set hp with hp | hp
    · simp [startedOf] at hp
    · exact h.ran p hp
  · have h1 := h.cnt p
    have h2 := countP_runL_set hi (fun x => p x.2) .idle
    simp only [startedOf, List.countP_cons, List.countP_nil] at h2
    simp only [Pool.finish, List.countP_append, List.countP_cons, List.countP_nil]
    omega

theorem next_eq (s : St) (i : Nat) (w : Work) (cb f : Nat) (fs : List Nat) :
    next s i w cb f fs = setWorker (finish s i w cb) i (.running { w with pending := fs } f) s.wq s.rwork := by
  simp [next, finish, setWorker]

theorem InvHB.step {s s' : St} {a : Act} (hI : Inv s) (h : InvHB s) (hs : step s a = some s') : InvHB s' := by
  have hI' : Inv s' := hI.step hs
  cases step_Step hs with
  | serve n _ hw => exact h.of_same rfl rfl (by simp [served, runL_of_all_exited hw])
  | checkFail => exact h
  | checkPass | lockClosed | signalNone | shutdownCas | closeLock | shutdownDone | lockNew =>
    exact h.of_same rfl rfl rfl
  | lockAppend => exact h.of_same rfl rfl (by simp [subAppend])
  | signalSome _ _ _ _ i _ hi =>
    have hi' := List.find?_some hi
    simp only [decide_eq_true_eq] at hi'
    exact h.of_same rfl rfl (runL_set_of_nil hi' rfl rfl)
  | wStart _ hi | wWake _ hi | wSpurious _ hi => exact InvHB.setWorker hI' h hi rfl
  | doneNext i w cb f fs hi hp =>
    have hlt : i < s.workers.length := (List.getElem?_eq_some_iff.mp hi).1
    rw [next_eq] at hI' ⊢
    exact InvHB.setWorker hI' (h.finish hI hi) (old := .idle) (by simp [Pool.finish, hlt]) rfl
  | doneLast i w cb hi hp =>
    have hlt : i < s.workers.length := (List.getElem?_eq_some_iff.mp hi).1
    exact InvHB.setWorker hI' (h.finish hI hi) (old := .idle) (by simp [Pool.finish, hlt]) rfl
  | closeBroadcast => exact h.of_same rfl rfl (by rw [broadcast_eq]; simp)

theorem InvHB.run {acts : List Act} {s s' : St} (hI : Inv s) (h : InvHB s) (hr : run s acts = some s') :
    InvHB s' := by
  induction acts generalizing s with
  | nil => simp [Pool.run] at hr; exact hr ▸ h
  | cons a as ih =>
    simp only [Pool.run] at hr
    cases hs : Pool.step s a with
    | none => simp [hs] at hr
    | some m => rw [hs] at hr; exact ih (hI.step hs) (h.step hI hs) hr

theorem InvHB.reachable {acts : List Act} {s : St} (hr : Pool.run Pool.init acts = some s) : InvHB s :=
  InvHB.run Inv.init InvHB.init hr

/-! ## with unique callback ids -/

theorem started_nodup {s : St} (hI : Inv s) (hd : (s.accepted.map (·.2)).Nodup) : (s.started.map (·.2)).Nodup := by
  rw [List.nodup_iff_count] at hd ⊢
  intro c
  have h1 := hd c
  have h2 := hI.count (fun x => x.2 == c)
  simp only [List.count_eq_countP, List.countP_map, Function.comp_def] at h1 ⊢
  omega

/-- a callback finishes at most once -/
theorem finished_nodup {s : St} (hI : Inv s) (h : InvHB s) (hd : (s.accepted.map (·.2)).Nodup) :
    s.finished.Nodup := by
  have hs := started_nodup hI hd
  rw [List.nodup_iff_count] at hs ⊢
  intro c
  have h1 := hs c
  have h2 := h.cnt (· == c)
  simp only [List.count_eq_countP, List.countP_map, Function.comp_def] at h1 ⊢
  omega

/-- the running callback has not finished -/
theorem running_not_finished {s : St} (hI : Inv s) (h : InvHB s) (hd : (s.accepted.map (·.2)).Nodup)
    {i : Nat} {w : Work} {cb : Nat} (hw : s.workers[i]? = some (.running w cb)) : cb ∉ s.finished := by
  have hs := started_nodup hI hd
  rw [List.nodup_iff_count] at hs
  have h1 := hs cb
  have h2 := h.cnt (· == cb)
  have h3 : 0 < (runL s.workers).countP (fun x => x.2 == cb) :=
    List.countP_pos_iff.mpr ⟨_, mem_runL_of_getElem? hw, by simp⟩
  simp only [List.count_eq_countP, List.countP_map, Function.comp_def] at h1
  intro hm
  have h4 : 0 < s.finished.countP (· == cb) := List.countP_pos_iff.mpr ⟨_, hm, by simp⟩
  omega

end GoRes.Pool
