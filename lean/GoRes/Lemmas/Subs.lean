import GoRes.Model.Subs
import GoRes.Lemmas.Pattern
/-! Helper lemmas for the subscription model (C09). -/
namespace GoRes.Subs
open GoRes Ch

end GoRes.Subs
