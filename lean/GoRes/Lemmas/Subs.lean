import GoRes.Model.Subs
import GoRes.Lemmas.Pattern
namespace GoRes.Subs
open GoRes Ch Pattern

set_option linter.unusedSimpArgs false
attribute [local simp] Ch.dot Ch.dollar Ch.star Ch.gt Ch.qmark

/-! Helper lemmas for the subscription model (C09). -/

/-! ## `kept`, abstractly -/

theorem kept_iff (ps : List Str) (i : Nat) (p : Str) :
    kept ps i p = true ↔ ∀ q j, ps[j]? = some q → i ≠ j → Pattern.matches q p = true →
      ¬ j < i ∧ Pattern.matches p q = true := by
  unfold kept
  rw [Bool.not_eq_true', ← Bool.not_eq_true, List.any_eq_true]
  constructor
  · intro h q j hq hij hm
    by_cases hc : ¬ j < i ∧ Pattern.matches p q = true
    · exact hc
    · exfalso
      apply h
      refine ⟨(q, j), List.mem_zipIdx_iff_getElem?.2 hq, ?_⟩
      simp only [Bool.and_eq_true, Bool.or_eq_true, decide_eq_true_eq, Bool.not_eq_true',
        ne_eq]
      refine ⟨⟨by simpa using hij, hm⟩, ?_⟩
      by_cases hji : j < i
      · exact Or.inl hji
      · right
        cases hpq : Pattern.matches p q with
        | false => rfl
        | true => exact absurd ⟨hji, hpq⟩ hc
  · rintro h ⟨⟨q, j⟩, hmem, hx⟩
    have hq := List.mem_zipIdx_iff_getElem?.1 hmem
    simp only [Bool.and_eq_true, Bool.or_eq_true, decide_eq_true_eq, Bool.not_eq_true',
      ne_eq] at hx
    have := h q j hq (by simpa using hx.1.1) hx.1.2
    rcases hx.2 with h1 | h1
    · exact this.1 h1
    · rw [this.2] at h1; exact absurd h1 (by simp)

theorem zipIdx_pairwise (l : List Str) (k : Nat) :
    (l.zipIdx k).Pairwise (fun x y => x.2 < y.2) := by
  induction l generalizing k with
  | nil => simp
  | cons a l ih =>
    rw [List.zipIdx_cons, List.pairwise_cons]
    refine ⟨?_, ih _⟩
    rintro ⟨x, i⟩ hx
    have := List.mem_zipIdx hx
    simp; omega

/-- the subscribed list, with indices -/
def keptIdx (ps : List Str) : List (Str × Nat) := ps.zipIdx.filter fun (p, i) => kept ps i p

theorem keptIdx_pairwise (ps : List Str) : (keptIdx ps).Pairwise (fun x y => x.2 < y.2) :=
  (zipIdx_pairwise ps 0).filter _

theorem mem_keptIdx {ps : List Str} {x : Str × Nat} :
    x ∈ keptIdx ps ↔ ps[x.2]? = some x.1 ∧ kept ps x.2 x.1 = true := by
  unfold keptIdx
  rw [List.mem_filter, List.mem_zipIdx_iff_getElem?]

theorem keptIdx_irredundant (ps : List Str) (i j : Nat) (hi : i < (keptIdx ps).length)
    (hj : j < (keptIdx ps).length) (hne : i ≠ j) :
    Pattern.matches (keptIdx ps)[j].1 (keptIdx ps)[i].1 = false := by
  cases hm : Pattern.matches (keptIdx ps)[j].1 (keptIdx ps)[i].1 with
  | false => rfl
  | true =>
    exfalso
    have hpw := List.pairwise_iff_getElem.1 (keptIdx_pairwise ps)
    have hI := mem_keptIdx.1 (List.getElem_mem hi)
    have hJ := mem_keptIdx.1 (List.getElem_mem hj)
    have hidx : (keptIdx ps)[i].2 ≠ (keptIdx ps)[j].2 := by
      rcases Nat.lt_or_gt_of_ne hne with h | h
      · have := hpw i j hi hj h; omega
      · have := hpw j i hj hi h; omega
    have h1 := (kept_iff _ _ _).1 hI.2 _ _ hJ.1 hidx hm
    have h2 := (kept_iff _ _ _).1 hJ.2 _ _ hI.1 (Ne.symm hidx) h1.2
    omega

theorem countP_lt_of {α} (p q : α → Bool) (l : List α) (hpq : ∀ x ∈ l, p x = true → q x = true)
    (a : α) (ha : a ∈ l) (hqa : q a = true) (hpa : p a = false) : l.countP p < l.countP q := by
  induction l with
  | nil => simp at ha
  | cons b l ih =>
    have hmono : l.countP p ≤ l.countP q :=
      List.countP_mono_left (fun x hx => hpq x (List.mem_cons_of_mem _ hx))
    rw [List.mem_cons] at ha
    rcases ha with rfl | ha
    · rw [List.countP_cons_of_pos hqa, List.countP_cons_of_neg (by simp [hpa])]
      omega
    · have := ih (fun x hx => hpq x (List.mem_cons_of_mem _ hx)) ha
      by_cases hb : p b = true
      · rw [List.countP_cons_of_pos hb, List.countP_cons_of_pos (hpq b (List.mem_cons_self ..) hb)]
        omega
      · rw [List.countP_cons_of_neg hb]
        by_cases hb' : q b = true
        · rw [List.countP_cons_of_pos hb']; omega
        · rw [List.countP_cons_of_neg hb']; omega

theorem not_kept {ps : List Str} {i : Nat} {p : Str} (h : ¬ kept ps i p = true) :
    ∃ q j, ps[j]? = some q ∧ i ≠ j ∧ Pattern.matches q p = true ∧
      (j < i ∨ Pattern.matches p q = false) := by
  rw [kept_iff] at h
  apply Classical.byContradiction
  intro hc
  apply h
  intro q j hq hij hm
  refine ⟨fun hji => hc ⟨q, j, hq, hij, hm, Or.inl hji⟩, ?_⟩
  cases hpq : Pattern.matches p q with
  | true => rfl
  | false => exact absurd ⟨q, j, hq, hij, hm, Or.inr hpq⟩ hc

/-- every pattern is matched by a kept one, when `matches` is a preorder on the list -/
theorem kept_covers (ps : List Str)
    (hrefl : ∀ p ∈ ps, Pattern.matches p p = true)
    (htrans : ∀ a ∈ ps, ∀ b ∈ ps, ∀ c ∈ ps, Pattern.matches a b = true → Pattern.matches b c = true →
      Pattern.matches a c = true) :
    ∀ (i : Nat) (p : Str), ps[i]? = some p → ∃ x ∈ keptIdx ps, Pattern.matches x.1 p = true := by
  have key : ∀ (C i : Nat) (p : Str), ps[i]? = some p → ps.countP (fun q => Pattern.matches q p) ≤ C →
      ∃ x ∈ keptIdx ps, Pattern.matches x.1 p = true := by
    intro C
    induction C with
    | zero =>
      intro i p hp hC
      have hmem : p ∈ ps := List.mem_of_getElem? hp
      have : 0 < ps.countP (fun q => Pattern.matches q p) :=
        List.countP_pos_iff.2 ⟨p, hmem, hrefl p hmem⟩
      omega
    | succ C ihC =>
      intro i
      induction i using Nat.strongRecOn with
      | _ i ihi =>
        intro p hp hC
        have hmem : p ∈ ps := List.mem_of_getElem? hp
        by_cases hk : kept ps i p = true
        · exact ⟨(p, i), mem_keptIdx.2 ⟨hp, hk⟩, hrefl p hmem⟩
        · obtain ⟨q, j, hq, hij, hm, hor⟩ := not_kept hk
          have hqmem : q ∈ ps := List.mem_of_getElem? hq
          have hsub : ∀ x ∈ ps, Pattern.matches x q = true → Pattern.matches x p = true :=
            fun x hx hxq => htrans x hx q hqmem p hmem hxq hm
          have hle : ps.countP (fun x => Pattern.matches x q) ≤ ps.countP (fun x => Pattern.matches x p) :=
            List.countP_mono_left hsub
          by_cases hpq : Pattern.matches p q = true
          · have hji : j < i := by
              rcases hor with h | h
              · exact h
              · rw [hpq] at h; exact absurd h (by simp)
            obtain ⟨x, hx, hxq⟩ := ihi j hji q hq (by omega)
            have hxmem : x.1 ∈ ps := List.mem_of_getElem? (mem_keptIdx.1 hx).1
            exact ⟨x, hx, htrans _ hxmem q hqmem p hmem hxq hm⟩
          · have hlt := countP_lt_of (fun x => Pattern.matches x q) (fun x => Pattern.matches x p) ps hsub
              p hmem (hrefl p hmem) (by simpa using hpq)
            obtain ⟨x, hx, hxq⟩ := ihC j q hq (by omega)
            have hxmem : x.1 ∈ ps := List.mem_of_getElem? (mem_keptIdx.1 hx).1
            exact ⟨x, hx, htrans _ hxmem q hqmem p hmem hxq hm⟩
  intro i p hp
  exact key _ i p hp (Nat.le_refl _)


/-! ## token-level preorder -/

theorem tokMatches_refl (ts : List Tok) (h : wfPat ts = true) : tokMatches ts ts = true := by
  induction ts with
  | nil => simp [tokMatches]
  | cons t r ih =>
    have ih' := ih (wfPat_tail h)
    cases t with
    | lit a => simp [tokMatches, ih']
    | tag x => simp [tokMatches, ih']
    | star => simp [tokMatches, ih']
    | full =>
      have := wfPat_full h
      subst this
      simp [tokMatches]

theorem tokMatches_full_left {r st : List Tok} (h : tokMatches (.full :: r) st = true) :
    r = [] ∧ st ≠ [] := by
  cases r with
  | nil => cases st <;> simp_all [tokMatches]
  | cons a r => cases st <;> simp [tokMatches] at h

theorem tokMatches_trans' (pt qt st : List Tok)
    (h1 : tokMatches pt qt = true) (h2 : tokMatches qt st = true) : tokMatches pt st = true := by
  induction pt generalizing qt st with
  | nil =>
    have : qt = [] := by simpa [tokMatches_nil_left] using h1
    subst this
    exact h2
  | cons t ps ih =>
    cases qt with
    | nil => simp [tokMatches_nil_right] at h1
    | cons n qs =>
      cases st with
      | nil => simp [tokMatches_nil_right] at h2
      | cons s ss =>
        cases t with
        | full =>
          have := (tokMatches_full_left h1).1
          subst this
          simp [tokMatches]
        | lit a =>
          cases n with
          | lit b =>
            cases s with
            | lit c =>
              simp only [tokMatches, Bool.and_eq_true, beq_iff_eq] at h1 h2 ⊢
              exact ⟨h1.1.trans h2.1, ih qs ss h1.2 h2.2⟩
            | tag x => simp [tokMatches] at h2
            | star => simp [tokMatches] at h2
            | full => simp [tokMatches] at h2
          | tag x => simp [tokMatches] at h1
          | star => simp [tokMatches] at h1
          | full => simp [tokMatches] at h1
        | tag x =>
          simp only [tokMatches, Bool.and_eq_true, bne_iff_ne] at h1 ⊢
          cases n with
          | full => exact absurd rfl h1.1
          | lit b => cases s <;> simp_all [tokMatches] <;> exact ih _ _ h1 h2.2
          | tag y => simp_all [tokMatches]; exact ih _ _ h1 h2.2
          | star => simp_all [tokMatches]; exact ih _ _ h1 h2.2
        | star =>
          simp only [tokMatches, Bool.and_eq_true, bne_iff_ne] at h1 ⊢
          cases n with
          | full => exact absurd rfl h1.1
          | lit b => cases s <;> simp_all [tokMatches] <;> exact ih _ _ h1 h2.2
          | tag y => simp_all [tokMatches]; exact ih _ _ h1 h2.2
          | star => simp_all [tokMatches]; exact ih _ _ h1 h2.2

/-! ## owned patterns as strings -/

/-- a string that is the rendering of a non-empty well-formed tag-free token list
(the same as `Props.C09.ownedOk`) -/
def OwnedOk (p : Str) : Prop :=
  ∃ ts : List Tok, ts ≠ [] ∧ wfPat ts = true ∧ tagsOf ts = [] ∧ p = render ts

/-- `C17.matches_spec` -/
theorem matches_tok (a b : List Tok) (ha : wfPat a = true) (hb : wfPat b = true) :
    Pattern.matches (render a) (render b) = tokMatches a b :=
  matchesLoop_spec a b ha (wfPat_all_ok hb)

theorem matches_refl_of {p : Str} (h : OwnedOk p) : Pattern.matches p p = true := by
  obtain ⟨ts, _, hw, _, rfl⟩ := h
  rw [matches_tok ts ts hw hw]
  exact tokMatches_refl ts hw

/-- what transitivity needs of a string: it renders *some* well-formed token list -/
def IsPat (p : Str) : Prop := ∃ ts : List Tok, wfPat ts = true ∧ p = render ts

theorem OwnedOk.isPat {p : Str} (h : OwnedOk p) : IsPat p := by
  obtain ⟨ts, _, hw, _, rfl⟩ := h; exact ⟨ts, hw, rfl⟩

theorem matches_trans_of {a b c : Str} (ha : IsPat a) (hb : IsPat b) (hc : IsPat c)
    (h1 : Pattern.matches a b = true) (h2 : Pattern.matches b c = true) :
    Pattern.matches a c = true := by
  obtain ⟨ta, hwa, rfl⟩ := ha
  obtain ⟨tb, hwb, rfl⟩ := hb
  obtain ⟨tc, hwc, rfl⟩ := hc
  rw [matches_tok _ _ hwa hwb] at h1
  rw [matches_tok _ _ hwb hwc] at h2
  rw [matches_tok _ _ hwa hwc]
  exact tokMatches_trans' _ _ _ h1 h2

/-! ## rendering -/

theorem render_lit_cons (t : Str) (ts : List Tok) (hne : ts ≠ []) :
    t ++ dot :: render ts = render (.lit t :: ts) := by
  cases ts with
  | nil => exact absurd rfl hne
  | cons a r => rw [render_cons (.lit t), rrest_cons]; rfl

theorem render_append (a b : List Tok) (ha : a ≠ []) (hb : b ≠ []) :
    render (a ++ b) = render a ++ dot :: render b := by
  induction a with
  | nil => exact absurd rfl ha
  | cons t r ih =>
    cases r with
    | nil =>
      cases b with
      | nil => exact absurd rfl hb
      | cons x b => simp [render_cons t, rrest_cons]
    | cons y r =>
      have := ih (by simp)
      rw [List.cons_append, render_cons t, render_cons t, rrest_cons]
      rw [List.cons_append] at this ⊢
      rw [rrest_cons, this]
      simp

theorem render_ne_nil {ts : List Tok} (hne : ts ≠ []) (hw : wfPat ts = true) : render ts ≠ [] := by
  cases ts with
  | nil => exact absurd rfl hne
  | cons t r => exact render_cons_ne_nil (Tok.ok_sOk (wfPat_head hw))

theorem tagsOf_cons_nil {t : Tok} {r : List Tok} (h : tagsOf (t :: r) = []) :
    (∀ x, t ≠ .tag x) ∧ tagsOf r = [] := by
  cases t <;> simp_all [tagsOf]

theorem tok_getLast {t : Tok} (hok : t.ok = true) (hnt : ∀ x, t ≠ .tag x) :
    t.render.getLast? = some gt ↔ t = .full := by
  cases t with
  | lit s =>
    simp only [Tok.render_lit, reduceCtorEq, iff_false]
    intro h
    have hmem : 62 ∈ s := List.mem_of_getLast? h
    cases s with
    | nil => simp at hmem
    | cons c r =>
      have h' := (litOk_cons_iff c r).1 hok
      rw [List.mem_cons] at hmem
      rcases hmem with h1 | h1
      · omega
      · have := (okc_iff _).1 (h'.2 _ h1); omega
  | tag x => exact absurd rfl (hnt x)
  | star => simp [gt]
  | full => simp

theorem getLast?_append_cons_of_ne {α} (a : List α) (c : α) (X : List α) (h : X ≠ []) :
    (a ++ c :: X).getLast? = X.getLast? := by
  cases X with
  | nil => exact absurd rfl h
  | cons x X => rw [List.getLast?_append, List.getLast?_cons_cons, List.getLast?_cons]; rfl

theorem render_getLast {ts : List Tok} (hw : wfPat ts = true) (hnt : tagsOf ts = []) :
    (render ts).getLast? = some gt ↔ ts.getLast? = some .full := by
  induction ts with
  | nil => simp
  | cons t r ih =>
    have ⟨h1, h2⟩ := tagsOf_cons_nil hnt
    cases r with
    | nil =>
      simp only [render_cons, rrest_nil, List.append_nil, List.getLast?_singleton, Option.some.injEq]
      exact tok_getLast (wfPat_head hw) h1
    | cons y r =>
      have hne := render_ne_nil (ts := y :: r) (by simp) (wfPat_tail hw)
      rw [render_cons, rrest_cons, getLast?_append_cons_of_ne _ _ _ hne, List.getLast?_cons_cons]
      exact ih (wfPat_tail hw) h2

/-! ## request patterns as token lists -/

/-- the tokens of `reqPattern t (render ts)` -/
def reqToks (t : Str) (ts : List Tok) : List Tok :=
  if ts.getLast? ≠ some .full ∧ t ≠ tGet then .lit t :: (ts ++ [.star]) else .lit t :: ts

theorem reqPattern_render (t : Str) (ts : List Tok) (hne : ts ≠ []) (hw : wfPat ts = true)
    (hnt : tagsOf ts = []) : reqPattern t (render ts) = render (reqToks t ts) := by
  have hr := render_ne_nil hne hw
  have hl : (t ++ dot :: render ts).getLast? = (render ts).getLast? :=
    getLast?_append_cons_of_ne _ _ _ hr
  unfold reqPattern reqToks
  simp only [hl, ne_eq, render_getLast hw hnt]
  split
  · rw [← render_lit_cons t _ (by simp), render_append ts [.star] hne (by simp)]
    simp [render, joinDots]
  · rw [render_lit_cons t ts hne]

theorem wfPat_append_star {ts : List Tok} (hw : wfPat ts = true) (hl : ts.getLast? ≠ some .full) :
    wfPat (ts ++ [.star]) = true := by
  induction ts with
  | nil => rfl
  | cons t r ih =>
    rw [List.cons_append, wfPat_cons]
    have hr : r.getLast? ≠ some .full := by
      cases r with
      | nil => simp
      | cons y r => rwa [List.getLast?_cons_cons] at hl
    have ht : t ≠ .full := by
      rintro rfl
      have := wfPat_full hw
      subst this
      simp at hl
    simp [wfPat_head hw, ht, ih (wfPat_tail hw) hr]

theorem wfPat_lit_cons {t : Str} {ts : List Tok} (ht : litOk t = true) (hw : wfPat ts = true) :
    wfPat (.lit t :: ts) = true := by
  rw [wfPat_cons]; simp [Tok.ok, ht, hw]

theorem tagsOf_append_star (ts : List Tok) : tagsOf (ts ++ [.star]) = tagsOf ts := by
  induction ts with
  | nil => rfl
  | cons t r ih => cases t <;> simp [tagsOf, ih]

theorem reqToks_ok {t : Str} {ts : List Tok} (ht : litOk t = true) (hw : wfPat ts = true)
    (hnt : tagsOf ts = []) :
    reqToks t ts ≠ [] ∧ wfPat (reqToks t ts) = true ∧ tagsOf (reqToks t ts) = [] := by
  unfold reqToks
  split
  · next h =>
    exact ⟨by simp, wfPat_lit_cons ht (wfPat_append_star hw h.1), by simp [tagsOf, tagsOf_append_star, hnt]⟩
  · exact ⟨by simp, wfPat_lit_cons ht hw, by simp [tagsOf, hnt]⟩

theorem reqPattern_ok {t p : Str} (ht : litOk t = true) (hp : OwnedOk p) : OwnedOk (reqPattern t p) := by
  obtain ⟨ts, hne, hw, hnt, rfl⟩ := hp
  have := reqToks_ok (t := t) ht hw hnt
  exact ⟨reqToks t ts, this.1, this.2.1, this.2.2, reqPattern_render t ts hne hw hnt⟩

theorem accPattern_ok {t p : Str} (ht : litOk t = true) (hp : OwnedOk p) : OwnedOk (t ++ dot :: p) := by
  obtain ⟨ts, hne, hw, hnt, rfl⟩ := hp
  exact ⟨.lit t :: ts, by simp, wfPat_lit_cons ht hw, by simp [tagsOf, hnt], render_lit_cons t ts hne⟩

theorem mem_allPatterns {res acc : List Str} {n : Str} :
    n ∈ allPatterns res acc ↔
      (∃ t ∈ [tGet, tCall, tAuth], ∃ p ∈ res, n = reqPattern t p) ∨ ∃ p ∈ acc, n = tAccess ++ dot :: p := by
  unfold allPatterns
  simp only [List.mem_append, List.mem_flatMap, List.mem_map]
  constructor
  · rintro (⟨t, ht, p, hp, rfl⟩ | ⟨p, hp, rfl⟩)
    · exact Or.inl ⟨t, ht, p, hp, rfl⟩
    · exact Or.inr ⟨p, hp, rfl⟩
  · rintro (⟨t, ht, p, hp, rfl⟩ | ⟨p, hp, rfl⟩)
    · exact Or.inl ⟨t, ht, p, hp, rfl⟩
    · exact Or.inr ⟨p, hp, rfl⟩

theorem allPatterns_ok {res acc : List Str} (hok : ∀ p ∈ res ++ acc, OwnedOk p) :
    ∀ n ∈ allPatterns res acc, OwnedOk n := by
  intro n hn
  rcases mem_allPatterns.1 hn with ⟨t, ht, p, hp, rfl⟩ | ⟨p, hp, rfl⟩
  · have htok : litOk t = true := by
      simp only [List.mem_cons, List.not_mem_nil, or_false] at ht
      rcases ht with rfl | rfl | rfl <;> decide
    exact reqPattern_ok htok (hok p (List.mem_append_left _ hp))
  · exact accPattern_ok (by decide) (hok p (List.mem_append_right _ hp))

/-! ## `subscribe` -/

theorem subscribe_eq {c : Cfg} {subs : List Str} (h : subscribe c = some subs) :
    subs = (keptIdx (allPatterns (ownership c).1 (ownership c).2)).map (·.1) := by
  unfold subscribe at h
  simp only at h
  split at h
  · simp at h
  · simp only [Option.some.injEq] at h
    rw [← h]; rfl

theorem mem_subs_of_keptIdx {ps : List Str} {x : Str × Nat} (h : x ∈ keptIdx ps) :
    x.1 ∈ (keptIdx ps).map (·.1) := List.mem_map.2 ⟨x, h, rfl⟩

theorem subs_subset {ps : List Str} {s : Str} (h : s ∈ (keptIdx ps).map (·.1)) : s ∈ ps := by
  obtain ⟨x, hx, rfl⟩ := List.mem_map.1 h
  exact List.mem_of_getElem? (mem_keptIdx.1 hx).1

theorem subs_cover {ps : List Str} (hok : ∀ n ∈ ps, OwnedOk n) (n : Str) (hn : n ∈ ps) :
    ∃ s ∈ (keptIdx ps).map (·.1), Pattern.matches s n = true := by
  obtain ⟨i, hi, rfl⟩ := List.mem_iff_getElem.1 hn
  obtain ⟨x, hx, hm⟩ := kept_covers ps (fun p hp => matches_refl_of (hok p hp))
    (fun a ha b hb c hc => matches_trans_of (hok a ha).isPat (hok b hb).isPat (hok c hc).isPat)
    i ps[i] (List.getElem?_eq_getElem hi)
  exact ⟨x.1, mem_subs_of_keptIdx hx, hm⟩

/-! ## concrete request subjects -/

theorem tokMatches_extend_full {ts name : List Tok} (m : List Tok) (hl : ts.getLast? = some .full)
    (h : tokMatches ts name = true) : tokMatches ts (name ++ m) = true := by
  induction ts generalizing name with
  | nil => simp at hl
  | cons t r ih =>
    cases name with
    | nil => simp [tokMatches_nil_right] at h
    | cons n ns =>
      cases r with
      | nil =>
        simp only [List.getLast?_singleton, Option.some.injEq] at hl
        subst hl
        simp [tokMatches]
      | cons y r =>
        rw [List.getLast?_cons_cons] at hl
        cases t with
        | full => simp [tokMatches] at h
        | lit a =>
          cases n <;> simp_all [tokMatches]
        | tag x => simp_all [tokMatches]
        | star => simp_all [tokMatches]

theorem tokMatches_extend_star {ts name : List Tok} (s : Str) (hl : ts.getLast? ≠ some .full)
    (h : tokMatches ts name = true) : tokMatches (ts ++ [.star]) (name ++ [.lit s]) = true := by
  induction ts generalizing name with
  | nil =>
    have : name = [] := by simpa [tokMatches_nil_left] using h
    subst this
    simp [tokMatches]
  | cons t r ih =>
    cases name with
    | nil => simp [tokMatches_nil_right] at h
    | cons n ns =>
      have hr : r.getLast? ≠ some .full := by
        cases r with
        | nil => simp
        | cons y r => rwa [List.getLast?_cons_cons] at hl
      cases t with
      | full =>
        have := (tokMatches_full_left h).1
        subst this
        simp at hl
      | lit a => cases n <;> simp_all [tokMatches]
      | tag x => simp_all [tokMatches]
      | star => simp_all [tokMatches]

theorem isName_append_lit {name : List Tok} {s : Str} (hn : isName name = true) (hs : litOk s = true) :
    isName (name ++ [.lit s]) = true := by
  simp only [isName, Bool.and_eq_true, Bool.not_eq_true', List.isEmpty_eq_false_iff, ne_eq,
    List.all_eq_true] at hn ⊢
  refine ⟨by simp, ?_⟩
  intro t ht
  rw [List.mem_append] at ht
  rcases ht with ht | ht
  · exact hn.2 t ht
  · simp only [List.mem_singleton] at ht; subst ht; exact hs

theorem isName_ne_nil {name : List Tok} (hn : isName name = true) : name ≠ [] := by
  rintro rfl; simp [isName] at hn

/-- the request pattern of an owned pattern matches the request subjects of the names it matches -/
theorem reqPattern_matches_get {p : Str} (hp : OwnedOk p) {name : List Tok} (hname : isName name = true)
    (hm : Pattern.matches p (render name) = true) :
    Pattern.matches (reqPattern tGet p) (tGet ++ dot :: render name) = true := by
  obtain ⟨ts, hne, hw, hnt, rfl⟩ := hp
  have hwn := wfPat_of_isName hname
  rw [matches_tok _ _ hw hwn] at hm
  rw [reqPattern_render _ _ hne hw hnt, render_lit_cons _ _ (isName_ne_nil hname),
    matches_tok _ _ (reqToks_ok (by decide) hw hnt).2.1 (wfPat_lit_cons (by decide) hwn)]
  simp [reqToks, tokMatches, hm]

theorem reqPattern_matches_method {t p : Str} (ht : litOk t = true) (htg : t ≠ tGet) (hp : OwnedOk p) {name : List Tok}
    (hname : isName name = true) (hm : Pattern.matches p (render name) = true) {s : Str}
    (hs : litOk s = true) :
    Pattern.matches (reqPattern t p) (t ++ dot :: render (name ++ [.lit s])) = true := by
  obtain ⟨ts, hne, hw, hnt, rfl⟩ := hp
  have hwn := wfPat_of_isName hname
  have hname' := isName_append_lit hname hs
  have hwn' := wfPat_of_isName hname'
  rw [matches_tok _ _ hw hwn] at hm
  rw [reqPattern_render _ _ hne hw hnt, render_lit_cons _ _ (isName_ne_nil hname'),
    matches_tok _ _ (reqToks_ok ht hw hnt).2.1 (wfPat_lit_cons ht hwn')]
  unfold reqToks
  split
  · next h => simpa [tokMatches] using tokMatches_extend_star s h.1 hm
  · next h =>
    by_cases hl : ts.getLast? = some .full
    · simpa [tokMatches] using tokMatches_extend_full [.lit s] hl hm
    · exact absurd ⟨hl, htg⟩ h

theorem accPattern_matches {t p : Str} (ht : litOk t = true) (hp : OwnedOk p) {name : List Tok}
    (hname : isName name = true) (hm : Pattern.matches p (render name) = true) :
    Pattern.matches (t ++ dot :: p) (t ++ dot :: render name) = true := by
  obtain ⟨ts, hne, hw, hnt, rfl⟩ := hp
  have hwn := wfPat_of_isName hname
  rw [matches_tok _ _ hw hwn] at hm
  rw [render_lit_cons _ _ hne, render_lit_cons _ _ (isName_ne_nil hname),
    matches_tok _ _ (wfPat_lit_cons ht hw) (wfPat_lit_cons ht hwn)]
  simp [tokMatches, hm]

/-! ## subject validity -/

theorem Tok.ok_visible {t : Tok} (h : t.ok = true) : ∀ c ∈ t.render, 33 ≤ c := by
  cases t with
  | lit s =>
    cases s with
    | nil => simp [Tok.ok, litOk] at h
    | cons c r =>
      have h' := (litOk_cons_iff c r).1 h
      intro x hx
      simp only [Tok.render_lit, List.mem_cons] at hx
      rcases hx with rfl | hx
      · omega
      · have := (okc_iff x).1 (h'.2 x hx); omega
  | tag n =>
    have h' := (tagOk_iff n).1 h
    intro x hx
    simp only [Tok.render_tag, List.mem_cons] at hx
    rcases hx with rfl | hx
    · omega
    · have := (okc_iff x).1 (h'.1 x hx); omega
  | star => intro x hx; simp at hx; omega
  | full => intro x hx; simp at hx; omega

theorem validSubject_of {s : Str} (h : OwnedOk s) : validSubject s = true := by
  obtain ⟨ts, hne, hw, _, rfl⟩ := h
  cases ts with
  | nil => exact absurd rfl hne
  | cons t r =>
    have hok := wfPat_all_ok hw
    have hs : ∀ n ∈ t :: r, n.sOk := fun n hn => Tok.ok_sOk (hok n hn)
    have hr := render_ne_nil hne hw
    unfold validSubject
    rw [splitDots_render t r hs]
    simp only [Bool.and_eq_true, Bool.not_eq_true', List.isEmpty_eq_false_iff, ne_eq,
      List.all_eq_true, List.mem_map, forall_exists_index, and_imp, decide_eq_true_eq]
    refine ⟨hr, ?_⟩
    rintro _ n hn rfl
    refine ⟨(hs n hn).1, ?_⟩
    intro c hc
    have := Tok.ok_visible (hok n hn) c hc
    omega

/-! ## `Matches` is NATS matching -/

theorem natsCovers_nil (ts : List Str) : natsCovers [] ts = ts.isEmpty := by
  cases ts <;> simp [natsCovers]

theorem natsCovers_cons (p : Str) (ps : List Str) (t : Str) (ts : List Str) :
    natsCovers (p :: ps) (t :: ts) =
      if p = [gt] then ps.isEmpty else ((p = [star] && t ≠ [gt] || p = t) && natsCovers ps ts) := by
  cases ps with
  | nil =>
    simp only [natsCovers, natsCovers_nil]
    split <;> simp
  | cons q ps =>
    simp only [natsCovers]
    split <;> simp_all

theorem litOk_render_ne {a : Str} (h : litOk a = true) : a ≠ [star] ∧ a ≠ [gt] := by
  cases a with
  | nil => simp [litOk] at h
  | cons c r =>
    have h' := (litOk_cons_iff c r).1 h
    constructor <;> intro he <;> simp at he <;> omega

theorem tokMatches_nats (ps ss : List Tok) (hp : wfPat ps = true) (hs : wfPat ss = true)
    (hpt : tagsOf ps = []) (hst : tagsOf ss = []) :
    tokMatches ps ss = natsCovers (ps.map Tok.render) (ss.map Tok.render) := by
  induction ps generalizing ss with
  | nil => simp [tokMatches_nil_left, natsCovers_nil]
  | cons t r ih =>
    cases ss with
    | nil => simp [tokMatches_nil_right, natsCovers]
    | cons n ns =>
      have ⟨hp1, hp2⟩ := tagsOf_cons_nil hpt
      have ⟨hs1, hs2⟩ := tagsOf_cons_nil hst
      have ih' := ih ns (wfPat_tail hp) (wfPat_tail hs) hp2 hs2
      rw [List.map_cons, List.map_cons, natsCovers_cons, ← ih']
      have hnok := wfPat_head hs
      cases t with
      | tag x => exact absurd rfl (hp1 x)
      | full =>
        have := wfPat_full hp
        subst this
        simp [tokMatches]
      | star =>
        cases n with
        | tag x => exact absurd rfl (hs1 x)
        | lit b =>
          have := litOk_render_ne (a := b) hnok
          simp [tokMatches, this.2]
        | star => simp [tokMatches]
        | full => simp [tokMatches]
      | lit a =>
        have ha := litOk_render_ne (a := a) (wfPat_head hp)
        cases n with
        | tag x => exact absurd rfl (hs1 x)
        | lit b =>
          simp only [tokMatches, Tok.render_lit, ha.2, if_false, ha.1, decide_false, Bool.false_and, Bool.false_or]
          by_cases hab : a = b <;> simp [hab]
        | star => simp [tokMatches, ha.1, ha.2]
        | full => simp [tokMatches, ha.1, ha.2]

theorem matches_eq_covers (ps ss : List Tok) (hp : wfPat ps = true) (hs : wfPat ss = true)
    (hpt : tagsOf ps = []) (hst : tagsOf ss = []) (hne : ps ≠ []) (hne' : ss ≠ []) :
    Pattern.matches (render ps) (render ss) = Subs.covers (render ps) (render ss) := by
  rw [matches_tok _ _ hp hs, tokMatches_nats ps ss hp hs hpt hst]
  unfold Subs.covers
  cases ps with
  | nil => exact absurd rfl hne
  | cons t r =>
    cases ss with
    | nil => exact absurd rfl hne'
    | cons n ns =>
      rw [splitDots_render t r (fun n hn => Tok.ok_sOk (wfPat_all_ok hp n hn)),
        splitDots_render n ns (fun n hn => Tok.ok_sOk (wfPat_all_ok hs n hn))]

/-! ## default ownership -/

theorem isName_wf_full {ts : List Tok} (h : isName ts = true) :
    wfPat (ts ++ [.full]) = true ∧ tagsOf (ts ++ [.full]) = [] ∧ tagsOf ts = [] := by
  have hall := ((isName_iff ts).1 h).2
  clear h
  induction ts with
  | nil => simp [wfPat, Tok.ok, tagsOf]
  | cons t r ih =>
    have := ih (fun n hn => hall n (List.mem_cons_of_mem _ hn))
    obtain ⟨s, rfl, hs⟩ := hall t (List.mem_cons_self ..)
    rw [List.cons_append, wfPat_cons]
    simp [Tok.ok, hs, this, tagsOf]

theorem defaultPatterns_ok (name : Str) (ts : List Tok) (hts : isName ts = true) (hn : name = render ts) :
    ∀ p ∈ defaultPatterns name, OwnedOk p := by
  subst hn
  have hne := isName_ne_nil hts
  have hw := wfPat_of_isName hts
  have hr := render_ne_nil hne hw
  have h3 := isName_wf_full hts
  unfold defaultPatterns
  simp only [List.isEmpty_iff, hr, if_false]
  intro p hp
  simp only [List.mem_cons, List.not_mem_nil, or_false] at hp
  rcases hp with rfl | rfl
  · exact ⟨ts, hne, hw, h3.2.2, rfl⟩
  · refine ⟨ts ++ [.full], by simp, h3.1, h3.2.1, ?_⟩
    rw [render_append ts [.full] hne (by simp)]
    rfl

theorem defaultPatterns_nil_ok : ∀ p ∈ defaultPatterns [], OwnedOk p := by
  intro p hp
  simp [defaultPatterns] at hp
  subst hp
  exact ⟨[.full], by simp, by decide, by decide, by decide⟩

end GoRes.Subs
