import GoRes.Model.Txn
/-! Lemmas about the transaction model (`Model/Txn.lean`). -/
namespace GoRes.Txn

variable {V : Type}

/-- every committed version is stamped no later than the clock -/
def WF (db : DB V) : Prop := ∀ e ∈ db.vers, e.2.1 ≤ db.clock

theorem wf_empty : WF ({} : DB V) := by intro e he; cases he

theorem wf_put {db : DB V} (h : WF db) (k : Key) (v : Option V) : WF (db.put k v) := by
  intro e he
  simp only [DB.put, List.mem_cons] at he
  rcases he with rfl | he
  · exact Nat.le_refl _
  · exact Nat.le_succ_of_le (h e he)

theorem wf_putAll {db : DB V} (h : WF db) (os : List (Key × Option V)) : WF (db.putAll os) := by
  induction os generalizing db with
  | nil => exact h
  | cons o r ih => exact ih (wf_put h o.1 o.2)

theorem find?_congr' {α} {p q : α → Bool} {l : List α} (h : ∀ x ∈ l, p x = q x) : l.find? p = l.find? q := by
  induction l with
  | nil => rfl
  | cons a r ih =>
    simp only [List.find?_cons, h a (List.mem_cons_self ..)]
    rw [ih (fun x hx => h x (List.mem_cons_of_mem _ hx))]

/-- reading at or after the clock is reading the current value -/
theorem getAt_of_le {db : DB V} (h : WF db) {ts : Nat} (hts : db.clock ≤ ts) (k : Key) :
    db.getAt ts k = db.get k := by
  unfold DB.get DB.getAt
  rw [find?_congr' (q := fun e => e.1 == k && decide (e.2.1 ≤ db.clock))]
  intro e he
  have := h e he
  have h1 : decide (e.2.1 ≤ ts) = true := decide_eq_true (Nat.le_trans this hts)
  have h2 : decide (e.2.1 ≤ db.clock) = true := decide_eq_true this
  simp [h1, h2]

theorem clock_putAll (db : DB V) (os : List (Key × Option V)) : db.clock ≤ (db.putAll os).clock := by
  induction os generalizing db with
  | nil => exact Nat.le_refl _
  | cons o r ih => exact Nat.le_trans (Nat.le_succ _) (ih (db.put o.1 o.2))

theorem lastTs_le {db : DB V} (h : WF db) (k : Key) : db.lastTs k ≤ db.clock := by
  unfold DB.lastTs
  split
  · next e he => exact h e (List.mem_of_find?_eq_some he)
  · exact Nat.zero_le _

/-- somebody else's write to another key leaves `k` alone -/
theorem get_put_ne {db : DB V} (h : WF db) {k k' : Key} (hne : k' ≠ k) (v : Option V) :
    (db.put k' v).get k = db.get k := by
  have hk : (k' == k) = false := by simpa using hne
  unfold DB.get DB.getAt DB.put
  simp only [List.find?_cons, hk, Bool.false_and]
  rw [find?_congr' (q := fun e => e.1 == k && decide (e.2.1 ≤ db.clock))]
  intro e he
  have := h e he
  have h1 : decide (e.2.1 ≤ db.clock + 1) = true := decide_eq_true (Nat.le_succ_of_le this)
  have h2 : decide (e.2.1 ≤ db.clock) = true := decide_eq_true this
  simp [h1, h2]

theorem lastTs_put_ne (db : DB V) {k k' : Key} (hne : k' ≠ k) (v : Option V) :
    (db.put k' v).lastTs k = db.lastTs k := by
  have hk : (k' == k) = false := by simpa using hne
  simp [DB.lastTs, DB.put, List.find?_cons, hk]

theorem get_putAll_notin {db : DB V} (h : WF db) {k : Key} (os : List (Key × Option V))
    (hk : k ∉ os.map (·.1)) : (db.putAll os).get k = db.get k := by
  induction os generalizing db with
  | nil => rfl
  | cons o r ih =>
    simp only [List.map_cons, List.mem_cons, not_or] at hk
    show ((db.put o.1 o.2).putAll r).get k = db.get k
    rw [ih (wf_put h o.1 o.2) hk.2, get_put_ne h (fun e => hk.1 e.symm)]

theorem lastTs_putAll_notin (db : DB V) {k : Key} (os : List (Key × Option V))
    (hk : k ∉ os.map (·.1)) : (db.putAll os).lastTs k = db.lastTs k := by
  induction os generalizing db with
  | nil => rfl
  | cons o r ih =>
    simp only [List.map_cons, List.mem_cons, not_or] at hk
    show ((db.put o.1 o.2).putAll r).lastTs k = db.lastTs k
    rw [ih (db.put o.1 o.2) hk.2, lastTs_put_ne db (fun e => hk.1 e.symm)]

/-- a key written by the others carries a stamp after the clock at which the others started -/
theorem lastTs_putAll_mem (db : DB V) {k : Key} (os : List (Key × Option V))
    (hk : k ∈ os.map (·.1)) : db.clock < (db.putAll os).lastTs k := by
  induction os generalizing db with
  | nil => cases hk
  | cons o r ih =>
    show db.clock < ((db.put o.1 o.2).putAll r).lastTs k
    by_cases hr : k ∈ r.map (·.1)
    · exact Nat.lt_trans (Nat.lt_succ_self _) (ih (db.put o.1 o.2) hr)
    · simp only [List.map_cons, List.mem_cons] at hk
      rcases hk with rfl | hk
      · rw [lastTs_putAll_notin _ r hr]
        simp [DB.lastTs, DB.put, List.find?_cons]
      · exact absurd hk hr

/-! ## commit -/

theorem commit_some {now : DB V} {t : T V} {db' : DB V} (h : commit now t = some db') :
    (∀ k ∈ t.reads, now.lastTs k ≤ t.start) ∧
    db' = { clock := now.clock + 1, vers := t.writes.map (fun e => (e.1, now.clock + 1, e.2)) ++ now.vers } := by
  unfold commit at h
  split at h
  · cases h
  · next hc =>
    refine ⟨fun k hk => ?_, by cases h; rfl⟩
    have := fun hgt => hc (List.any_eq_true.mpr ⟨k, hk, decide_eq_true hgt⟩)
    exact Nat.le_of_not_lt this

/-- a key the transaction did not write keeps its value across the commit -/
theorem get_commit_notin {now : DB V} (hw : WF now) {t : T V} {db' : DB V} (h : commit now t = some db')
    {k : Key} (hk : k ∉ t.writes.map (·.1)) : db'.get k = now.get k := by
  obtain ⟨_, rfl⟩ := commit_some h
  unfold DB.get DB.getAt
  simp only [List.find?_append]
  have hnone : (List.map (fun e : Key × Option V => (e.1, now.clock + 1, e.2)) t.writes).find?
      (fun e => e.1 == k && decide (e.2.1 ≤ now.clock + 1)) = none := by
    rw [List.find?_eq_none]
    intro e he
    simp only [List.mem_map] at he
    obtain ⟨w, hwm, rfl⟩ := he
    have : w.1 ≠ k := fun e => hk (List.mem_map.mpr ⟨w, hwm, e⟩)
    simp [this]
  rw [hnone, Option.none_or]
  rw [find?_congr' (q := fun e => e.1 == k && decide (e.2.1 ≤ now.clock))]
  intro e he
  have := hw e he
  have h1 : decide (e.2.1 ≤ now.clock + 1) = true := decide_eq_true (Nat.le_succ_of_le this)
  have h2 : decide (e.2.1 ≤ now.clock) = true := decide_eq_true this
  simp [h1, h2]

/-! ## Init reads every key it writes -/

theorem get_writes (db : DB V) (t : T V) (k : Key) : (t.get db k).1.writes = t.writes := rfl
theorem get_start (db : DB V) (t : T V) (k : Key) : (t.get db k).1.start = t.start := rfl
theorem get_reads (db : DB V) (t : T V) (k : Key) : (t.get db k).1.reads = k :: t.reads := rfl

theorem seedLoop_inv (db : DB V) (t : T V) (seeds : List (Key × V))
    (h : ∀ k ∈ t.writes.map (·.1), k ∈ t.reads) :
    (∀ k ∈ (seedLoop db t seeds).1.writes.map (·.1), k ∈ (seedLoop db t seeds).1.reads) ∧
    (∀ k ∈ t.reads, k ∈ (seedLoop db t seeds).1.reads) ∧
    (∀ k ∈ seeds.map (·.1), k ∈ (seedLoop db t seeds).1.reads) ∧
    (seedLoop db t seeds).1.start = t.start := by
  induction seeds generalizing t with
  | nil => exact ⟨h, fun k hk => hk, fun k hk => (by cases hk), rfl⟩
  | cons s r ih =>
    obtain ⟨k0, v0⟩ := s
    simp only [seedLoop]
    cases he : (t.get db k0).2 with
    | some x =>
      simp only []
      have h' : ∀ k ∈ (t.get db k0).1.writes.map (·.1), k ∈ (t.get db k0).1.reads := by
        intro k hk; rw [get_reads]; exact List.mem_cons_of_mem _ (h k (by rwa [get_writes] at hk))
      obtain ⟨a, b, c, d⟩ := ih (t.get db k0).1 h'
      refine ⟨a, fun k hk => b k (by rw [get_reads]; exact List.mem_cons_of_mem _ hk), ?_, by rw [d, get_start]⟩
      intro k hk
      simp only [List.map_cons, List.mem_cons] at hk
      rcases hk with rfl | hk
      · exact b _ (by rw [get_reads]; exact List.mem_cons_self ..)
      · exact c k hk
    | none =>
      simp only []
      have h' : ∀ k ∈ ((t.get db k0).1.set k0 (some v0)).writes.map (·.1), k ∈ ((t.get db k0).1.set k0 (some v0)).reads := by
        intro k hk
        simp only [T.set, List.map_cons, List.mem_cons] at hk
        show k ∈ k0 :: t.reads
        rcases hk with rfl | hk
        · exact List.mem_cons_self ..
        · exact List.mem_cons_of_mem _ (h k hk)
      obtain ⟨a, b, c, d⟩ := ih ((t.get db k0).1.set k0 (some v0)) h'
      refine ⟨a, fun k hk => b k (List.mem_cons_of_mem _ hk), ?_, d⟩
      intro k hk
      simp only [List.map_cons, List.mem_cons] at hk
      rcases hk with rfl | hk
      · exact b _ (List.mem_cons_self ..)
      · exact c k hk

/-- the seeding loop only depends on what it reads -/
theorem seedLoop_congr (d1 d2 : DB V) (t1 t2 : T V) (seeds : List (Key × V))
    (hw : t1.writes = t2.writes)
    (hr : ∀ k ∈ seeds.map (·.1), d1.getAt t1.start k = d2.getAt t2.start k) :
    (seedLoop d1 t1 seeds).1.writes = (seedLoop d2 t2 seeds).1.writes ∧
    (seedLoop d1 t1 seeds).2 = (seedLoop d2 t2 seeds).2 := by
  induction seeds generalizing t1 t2 with
  | nil => exact ⟨hw, rfl⟩
  | cons s r ih =>
    obtain ⟨k0, v0⟩ := s
    have hv : (t1.get d1 k0).2 = (t2.get d2 k0).2 := by
      simp only [T.get, hw]
      cases t2.writes.find? (fun e => e.1 == k0) with
      | some e => rfl
      | none => exact hr k0 (by simp)
    have hr' : ∀ k ∈ r.map (·.1), d1.getAt t1.start k = d2.getAt t2.start k :=
      fun k hk => hr k (by simp only [List.map_cons, List.mem_cons]; exact Or.inr hk)
    simp only [seedLoop]
    rw [hv]
    cases (t2.get d2 k0).2 with
    | some x =>
      simp only []
      exact ih (t1.get d1 k0).1 (t2.get d2 k0).1 (by rw [get_writes, get_writes, hw]) hr'
    | none =>
      simp only []
      obtain ⟨a, b⟩ := ih ((t1.get d1 k0).1.set k0 (some v0)) ((t2.get d2 k0).1.set k0 (some v0))
        (by simp [T.set, get_writes, hw]) hr'
      exact ⟨a, by rw [b]⟩


/-! ## Init as a whole -/

theorem initProg_none {db : DB V} {marker : Key} {mark : V} {seeds : List (Key × V)}
    (h : initProg db marker mark seeds = none) : (db.get marker).isSome := by
  unfold initProg at h
  simp only [T.get, begin, List.find?_nil] at h
  unfold DB.get
  cases hm : db.getAt db.clock marker with
  | some x => rfl
  | none => rw [hm] at h; simp at h

theorem initProg_some {db : DB V} {marker : Key} {mark : V} {seeds : List (Key × V)} {t : T V}
    {created : List (Key × V)} (h : initProg db marker mark seeds = some (t, created)) :
    db.get marker = none ∧
    t.start = db.clock ∧
    t.writes = (marker, some mark) :: (seedLoop db ((begin db).get db marker).1 seeds).1.writes ∧
    created = (seedLoop db ((begin db).get db marker).1 seeds).2 ∧
    (∀ k ∈ t.writes.map (·.1), k ∈ t.reads) ∧
    (∀ k ∈ seeds.map (·.1), k ∈ t.reads) := by
  unfold initProg at h
  have hm : ((begin db).get db marker).2 = db.get marker := by simp [T.get, begin, DB.get]
  cases hg : ((begin db).get db marker).2 with
  | some x => simp only [hg] at h; cases h
  | none =>
    simp only [hg] at h
    injection h with h
    injection h with h1 h2
    have hinv := seedLoop_inv db ((begin db).get db marker).1 seeds (by intro k hk; simp [T.get, begin] at hk)
    obtain ⟨a, b, c, d⟩ := hinv
    subst h1
    refine ⟨by rw [← hm, hg], ?_, rfl, h2.symm, ?_, ?_⟩
    · show (seedLoop db ((begin db).get db marker).1 seeds).1.start = db.clock
      rw [d]; rfl
    · intro k hk
      simp only [T.set, List.map_cons, List.mem_cons] at hk
      show k ∈ (seedLoop db ((begin db).get db marker).1 seeds).1.reads
      rcases hk with rfl | hk
      · exact b _ (by simp [T.get, begin])
      · exact a k hk
    · intro k hk
      exact c k hk

/-- a key the others wrote while Init's transaction was open is not among Init's reads once the
commit has succeeded -/
theorem not_read_of_commit {db : DB V} {t : T V} {others : List (Key × Option V)} {db' : DB V}
    (hs : t.start = db.clock) (hc : commit (db.putAll others) t = some db') {k : Key}
    (hk : k ∈ others.map (·.1)) : k ∉ t.reads := by
  intro hr
  have h1 := (commit_some hc).1 k hr
  have h2 := lastTs_putAll_mem db others hk
  rw [hs] at h1
  exact Nat.lt_irrefl _ (Nat.lt_of_lt_of_le h2 h1)

theorem initRun_keeps (db : DB V) (hw : WF db) (marker : Key) (mark : V) (seeds : List (Key × V))
    (others : List (Key × Option V)) (k : Key) (hk : k ∈ others.map (·.1)) :
    (initRun db marker mark seeds others).1.get k = (db.putAll others).get k := by
  unfold initRun
  cases hp : initProg db marker mark seeds with
  | none => rfl
  | some tc =>
    obtain ⟨t, created⟩ := tc
    simp only []
    cases hc : commit (db.putAll others) t with
    | none => rfl
    | some db' =>
      simp only []
      obtain ⟨_, hs, _, _, hwr, _⟩ := initProg_some hp
      exact get_commit_notin (wf_putAll hw others) hc (fun hmem => not_read_of_commit hs hc hk (hwr k hmem))

theorem initRun_serializable (db : DB V) (hw : WF db) (marker : Key) (mark : V) (seeds : List (Key × V))
    (others : List (Key × Option V)) (hm : marker ∉ others.map (·.1))
    (hok : (initRun db marker mark seeds others).2.1 = true) :
    initRun db marker mark seeds others = initAlone (db.putAll others) marker mark seeds := by
  have hwn := wf_putAll hw others
  unfold initAlone initRun at *
  simp only [DB.putAll]
  cases hp : initProg db marker mark seeds with
  | none =>
    have h1 := initProg_none hp
    rw [← get_putAll_notin hw others hm] at h1
    have : initProg (db.putAll others) marker mark seeds = none := by
      unfold initProg
      simp only [T.get, begin, List.find?_nil]
      unfold DB.get at h1
      cases hg : (db.putAll others).getAt (db.putAll others).clock marker with
      | some x => rfl
      | none => rw [hg] at h1; cases h1
    rw [this]
  | some tc =>
    obtain ⟨t, created⟩ := tc
    rw [hp] at hok
    simp only [] at hok ⊢
    cases hc : commit (db.putAll others) t with
    | none => rw [hc] at hok; cases hok
    | some db' =>
      simp only []
      obtain ⟨hmn, hs, hwr, hcr, hwsub, hseeds⟩ := initProg_some hp
      -- the same program on the database at the commit point
      have hmn' : (db.putAll others).get marker = none := by rw [get_putAll_notin hw others hm]; exact hmn
      have hagree : ∀ k ∈ seeds.map (·.1),
          db.getAt ((begin db).get db marker).1.start k =
          (db.putAll others).getAt ((begin (db.putAll others)).get (db.putAll others) marker).1.start k := by
        intro k hk
        have hnot : k ∉ others.map (·.1) := fun hin => not_read_of_commit hs hc hin (hseeds k hk)
        show db.getAt db.clock k = (db.putAll others).getAt (db.putAll others).clock k
        exact (get_putAll_notin hw others hnot).symm
      obtain ⟨hw2, hc2⟩ := seedLoop_congr db (db.putAll others) ((begin db).get db marker).1
        ((begin (db.putAll others)).get (db.putAll others) marker).1 seeds rfl hagree
      have hp2 : initProg (db.putAll others) marker mark seeds =
          some ((seedLoop (db.putAll others) ((begin (db.putAll others)).get (db.putAll others) marker).1 seeds).1.set marker (some mark),
                (seedLoop (db.putAll others) ((begin (db.putAll others)).get (db.putAll others) marker).1 seeds).2) := by
        unfold initProg
        have : ((begin (db.putAll others)).get (db.putAll others) marker).2 = none := by
          simpa [T.get, begin, DB.get] using hmn'
        simp only [this]
      rw [hp2]
      simp only []
      -- its commit cannot conflict: nobody writes in between
      obtain ⟨hsub2, _, _, hst2⟩ := seedLoop_inv (db.putAll others)
        ((begin (db.putAll others)).get (db.putAll others) marker).1 seeds (by intro k hk; simp [T.get, begin] at hk)
      have hcommit2 : commit (db.putAll others)
          ((seedLoop (db.putAll others) ((begin (db.putAll others)).get (db.putAll others) marker).1 seeds).1.set marker (some mark)) =
          some { clock := (db.putAll others).clock + 1,
                 vers := (((marker, some mark) :: (seedLoop (db.putAll others) ((begin (db.putAll others)).get (db.putAll others) marker).1 seeds).1.writes).map
                    (fun e => (e.1, (db.putAll others).clock + 1, e.2))) ++ (db.putAll others).vers } := by
        unfold commit
        have : (((seedLoop (db.putAll others) ((begin (db.putAll others)).get (db.putAll others) marker).1 seeds).1.set marker (some mark)).reads.any
            (fun k => decide ((db.putAll others).lastTs k >
              ((seedLoop (db.putAll others) ((begin (db.putAll others)).get (db.putAll others) marker).1 seeds).1.set marker (some mark)).start))) = false := by
          rw [List.any_eq_false]
          intro k _
          have h1 := lastTs_le hwn k
          have h2 : ((seedLoop (db.putAll others) ((begin (db.putAll others)).get (db.putAll others) marker).1 seeds).1.set marker (some mark)).start
              = (db.putAll others).clock := by
            show (seedLoop (db.putAll others) ((begin (db.putAll others)).get (db.putAll others) marker).1 seeds).1.start = _
            rw [hst2]; rfl
          rw [h2]
          simpa using h1
        simp only [this]
        rfl
      rw [hcommit2]
      simp only []
      obtain ⟨_, hdb'⟩ := commit_some hc
      rw [hdb', hwr, hcr, hw2, hc2]

/-! ## what a committed Init leaves behind (refinement to the sequential reading) -/

/-- after a commit a key holds the transaction's newest write to it, or what it held before -/
theorem get_commit {now : DB V} (hw : WF now) {t : T V} {db' : DB V} (h : commit now t = some db') (k : Key) :
    db'.get k = match t.writes.find? (fun e => e.1 == k) with
      | some e => e.2
      | none => now.get k := by
  obtain ⟨_, rfl⟩ := commit_some h
  cases hf : t.writes.find? (fun e => e.1 == k) with
  | none =>
    have hk : k ∉ t.writes.map (·.1) := by
      intro hin
      obtain ⟨e, he, hek⟩ := List.mem_map.mp hin
      have := List.find?_eq_none.mp hf e he
      simp [hek] at this
    simpa using get_commit_notin hw h hk
  | some e =>
    simp only []
    unfold DB.get DB.getAt
    simp only [List.find?_append, List.find?_map]
    have : (List.find? ((fun e : Key × Nat × Option V => e.1 == k && decide (e.2.1 ≤ now.clock + 1)) ∘
        fun e : Key × Option V => (e.1, now.clock + 1, e.2)) t.writes) = some e := by
      rw [← hf]
      apply find?_congr'
      intro x _
      simp
    rw [this]
    rfl

/-- the seeding loop writes a seed exactly when the key was free in the snapshot (keys of the seed set
distinct, none of them written by the transaction before) -/
theorem seedLoop_find (db : DB V) (t : T V) (seeds : List (Key × V)) (k : Key)
    (hnd : (seeds.map (·.1)).Nodup) (hfresh : ∀ k' ∈ seeds.map (·.1), k' ∉ t.writes.map (·.1)) :
    (seedLoop db t seeds).1.writes.find? (fun e => e.1 == k) =
      match seeds.find? (fun s => s.1 == k) with
      | some s => if (db.getAt t.start k).isNone then some (k, some s.2) else t.writes.find? (fun e => e.1 == k)
      | none => t.writes.find? (fun e => e.1 == k) := by
  induction seeds generalizing t with
  | nil => rfl
  | cons s r ih =>
    obtain ⟨k0, v0⟩ := s
    simp only [List.map_cons, List.nodup_cons] at hnd
    have hk0 : k0 ∉ t.writes.map (·.1) := hfresh k0 (by simp)
    have hget : (t.get db k0).2 = db.getAt t.start k0 := by
      have : t.writes.find? (fun e => e.1 == k0) = none := by
        rw [List.find?_eq_none]
        intro e he hek
        exact hk0 (List.mem_map.mpr ⟨e, he, by simpa using hek⟩)
      simp [T.get, this]
    simp only [seedLoop, hget]
    by_cases hkk : k0 = k
    · subst hkk
      have hr : r.find? (fun s => s.1 == k0) = none := by
        rw [List.find?_eq_none]
        intro e he hek
        exact hnd.1 (List.mem_map.mpr ⟨e, he, by simpa using hek⟩)
      cases hs : db.getAt t.start k0 with
      | some x =>
        simp only [List.find?_cons, beq_self_eq_true, hs, Option.isNone_some]
        have := ih (t.get db k0).1 hnd.2 (fun k' hk' => by
          rw [get_writes]; exact hfresh k' (by simp [hk']))
        rw [this, hr]
        simp [get_writes]
      | none =>
        simp only [List.find?_cons, beq_self_eq_true, hs, Option.isNone_none]
        have := ih ((t.get db k0).1.set k0 (some v0)) hnd.2 (fun k' hk' => by
          simp only [T.set, get_writes, List.map_cons, List.mem_cons, not_or]
          exact ⟨fun e => hnd.1 (e ▸ hk'), hfresh k' (by simp [hk'])⟩)
        rw [this, hr]
        simp [T.set, get_writes]
    · have hne : (k0 == k) = false := by simpa using hkk
      cases hs : db.getAt t.start k0 with
      | some x =>
        simp only [List.find?_cons, hne]
        have := ih (t.get db k0).1 hnd.2 (fun k' hk' => by
          rw [get_writes]; exact hfresh k' (by simp [hk']))
        rw [this]
        simp [get_writes, get_start]
      | none =>
        simp only [List.find?_cons, hne]
        have := ih ((t.get db k0).1.set k0 (some v0)) hnd.2 (fun k' hk' => by
          simp only [T.set, get_writes, List.map_cons, List.mem_cons, not_or]
          exact ⟨fun e => hnd.1 (e ▸ hk'), hfresh k' (by simp [hk'])⟩)
        rw [this]
        simp [T.set, get_writes, get_start, List.find?_cons, hne]

/-- with nobody else writing, a transaction's commit cannot conflict -/
theorem commit_alone {db : DB V} (hw : WF db) (t : T V) (hs : t.start = db.clock) :
    commit db t = some { clock := db.clock + 1, vers := t.writes.map (fun e => (e.1, db.clock + 1, e.2)) ++ db.vers } := by
  unfold commit
  have : (t.reads.any fun k => decide (db.lastTs k > t.start)) = false := by
    rw [List.any_eq_false]
    intro k _
    have := lastTs_le hw k
    rw [hs]
    simpa using this
  simp only [this]
  rfl

/-- **what Init leaves behind when it runs alone**: nothing changes once the marker is set; otherwise the
marker is set, every seed whose id was free holds the seed value, every id that existed keeps its value,
and nothing else is touched — the sequential `initOnce` -/
theorem initAlone_get (db : DB V) (hw : WF db) (marker : Key) (mark : V) (seeds : List (Key × V))
    (hnd : (seeds.map (·.1)).Nodup) (k : Key) (hk : k ≠ marker) :
    (initAlone db marker mark seeds).2.1 = true ∧
    (initAlone db marker mark seeds).1.get k =
      (if (db.get marker).isSome then db.get k
       else match seeds.find? (fun s => s.1 == k) with
         | some s => (match db.get k with | some old => some old | none => some s.2)
         | none => db.get k) ∧
    ((db.get marker).isNone → (initAlone db marker mark seeds).1.get marker = some mark) := by
  unfold initAlone initRun
  simp only [DB.putAll]
  cases hp : initProg db marker mark seeds with
  | none =>
    have h1 := initProg_none hp
    simp only [h1, if_true]
    refine ⟨trivial, trivial, fun h => ?_⟩
    rw [Option.isNone_iff_eq_none] at h
    rw [h] at h1; cases h1
  | some tc =>
    obtain ⟨t, created⟩ := tc
    obtain ⟨hmn, hs, hwr, _, _, _⟩ := initProg_some hp
    have hc := commit_alone hw t hs
    simp only [hc]
    have hc' : commit db t = some { clock := db.clock + 1, vers := t.writes.map (fun e => (e.1, db.clock + 1, e.2)) ++ db.vers } := hc
    have hne : (marker == k) = false := by simpa using fun e => hk e.symm
    refine ⟨trivial, ?_, fun _ => ?_⟩
    · rw [get_commit hw hc' k, hwr]
      simp only [List.find?_cons, hne, hmn, Option.isSome_none, Bool.false_eq_true, if_false]
      rw [seedLoop_find db _ seeds k hnd (by intro k' _; simp [T.get, begin])]
      have hst : ((begin db).get db marker).1.start = db.clock := rfl
      have hw0 : ((begin db).get db marker).1.writes = [] := rfl
      rw [hst, hw0]
      cases seeds.find? (fun s => s.1 == k) with
      | none => rfl
      | some s0 =>
        simp only [List.find?_nil]
        cases hg : db.getAt db.clock k with
        | none => simp [DB.get, hg]
        | some old => simp [DB.get, hg]
    · rw [get_commit hw hc' marker, hwr]
      simp

end GoRes.Txn
