import GoRes.Model.StoreMap
import GoRes.Lemmas.Index
/-! Helper lemmas for the store model (C11, C12). -/
namespace GoRes.StoreMap

end GoRes.StoreMap
