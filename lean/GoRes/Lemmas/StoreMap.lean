import GoRes.Model.StoreMap
import GoRes.Lemmas.Index
/-! Helper lemmas for the store model (C11, C12). -/
namespace GoRes.StoreMap
open GoRes GoRes.Index

variable {V : Type}

/-- what one operation does, in one statement: either nothing changes and no callback runs, or
exactly one callback runs, carrying the id and the values before and after, and only that id
changes -/
theorem exec_cases (s : St V) (id : Bytes) (op : Op V) :
    ((exec s id op).2.1 = [] ∧ (exec s id op).2.2 = s) ∨
    (∃ a, (exec s id op).2.1 = [⟨id, vget s.vals id, a⟩] ∧
      ∀ k, vget (exec s id op).2.2.vals k = if k = id then a else vget s.vals k) := by
  cases op <;> simp only [exec] <;> (repeat' split) <;> simp_all [vget_vset, vget_vdel]

/-! ## Init and crashes -/

/-- the seeding loop of `Init`: every id gets the value it had, else the first seed for it -/
theorem vget_seed_fold (seeds : List (Bytes × V)) (vs : List (Bytes × V)) (id : Bytes) :
    vget (seeds.foldl (fun vs (x : Bytes × V) => if (vget vs x.1).isSome then vs else vset vs x.1 x.2) vs) id
      = (vget vs id).or (vget seeds id) := by
  induction seeds generalizing vs with
  | nil => simp
  | cons e rest ih =>
    simp only [List.foldl_cons, ih, vget_cons]
    by_cases hid : e.1 = id
    · subst hid
      cases h : vget vs e.1 <;> simp [h, vget_vset]
    · have : ¬ id = e.1 := fun x => hid x.symm
      cases h : vget vs e.1 <;> simp [hid, vget_vset, this]

theorem initOnce_vals (seeds : List (Bytes × V)) (d : Disk V) (hm : d.marker = false) (id : Bytes) :
    vget (initOnce seeds d).vals id = (vget d.vals id).or (vget seeds id) := by
  simp only [initOnce, hm, Bool.false_eq_true, ↓reduceIte]
  exact vget_seed_fold seeds d.vals id

theorem initOnce_marker (seeds : List (Bytes × V)) (d : Disk V) : (initOnce seeds d).marker = true := by
  unfold initOnce; split <;> simp_all

theorem initOnce_of_marker (seeds : List (Bytes × V)) (d : Disk V) (h : d.marker = true) : initOnce seeds d = d := by
  simp [initOnce, h]

theorem commit_marker (d : Disk V) (t : Txn V) (h : d.marker = true) : (commit d t).marker = true := by
  cases t with
  | put id v => exact h
  | init seeds => exact initOnce_marker seeds d

theorem foldl_commit_marker (w : List (Txn V)) (d : Disk V) (h : d.marker = true) :
    (w.foldl commit d).marker = true := by
  induction w generalizing d with
  | nil => exact h
  | cons t w ih => exact ih _ (commit_marker d t h)

end GoRes.StoreMap
