import GoRes.Model.Index
/-! Helper lemmas for the index model (C13, C14, C12). -/
namespace GoRes.Index

/-! ## the bytewise order -/

@[simp] theorem ble_nil (b : Bytes) : ble [] b = true := by cases b <;> rfl
@[simp] theorem ble_cons_nil (a : Nat) (as : Bytes) : ble (a :: as) [] = false := rfl
theorem ble_cons_cons (a b : Nat) (as bs : Bytes) :
    ble (a :: as) (b :: bs) = if a < b then true else if a > b then false else ble as bs := rfl

theorem ble_refl (a : Bytes) : ble a a = true := by
  induction a with
  | nil => simp
  | cons x xs ih => simp [ble_cons_cons, ih]

theorem ble_antisymm {a b : Bytes} (h1 : ble a b = true) (h2 : ble b a = true) : a = b := by
  induction a generalizing b with
  | nil => cases b <;> simp_all
  | cons x xs ih =>
    cases b with
    | nil => simp at h1
    | cons y ys =>
      simp only [ble_cons_cons] at h1 h2
      grind

theorem ble_trans {a b c : Bytes} (h1 : ble a b = true) (h2 : ble b c = true) : ble a c = true := by
  induction a generalizing b c with
  | nil => simp
  | cons x xs ih =>
    cases b with
    | nil => simp at h1
    | cons y ys =>
      cases c with
      | nil => simp at h2
      | cons z zs =>
        simp only [ble_cons_cons] at h1 h2 ⊢
        grind

theorem ble_total (a b : Bytes) : ble a b = true ∨ ble b a = true := by
  induction a generalizing b with
  | nil => simp
  | cons x xs ih =>
    cases b with
    | nil => simp
    | cons y ys =>
      simp only [ble_cons_cons]
      have := ih ys
      grind

theorem ble_append_left (p a b : Bytes) : ble (p ++ a) (p ++ b) = ble a b := by
  induction p with
  | nil => rfl
  | cons x xs ih => simp [ble_cons_cons, ih]

theorem blt_iff {a b : Bytes} : blt a b = true ↔ ble a b = true ∧ a ≠ b := by
  simp [blt]

theorem blt_irrefl (a : Bytes) : blt a a = false := by simp [blt]

theorem blt_ble {a b : Bytes} (h : blt a b = true) : ble a b = true := (blt_iff.1 h).1

theorem ble_of_not_blt {a b : Bytes} (h : blt a b = false) : ble b a = true := by
  rcases ble_total a b with h1 | h1
  · by_cases hab : a = b
    · subst hab; exact ble_refl a
    · have : blt a b = true := blt_iff.2 ⟨h1, hab⟩
      simp [this] at h
  · exact h1

theorem blt_of_not_blt {a b : Bytes} (h : blt a b = false) (hne : a ≠ b) : blt b a = true :=
  blt_iff.2 ⟨ble_of_not_blt h, fun e => hne e.symm⟩

theorem blt_asymm {a b : Bytes} (h : blt a b = true) : blt b a = false := by
  cases hb : blt b a with
  | false => rfl
  | true =>
    have := ble_antisymm (blt_ble h) (blt_ble hb)
    exact absurd this (blt_iff.1 h).2

theorem blt_of_blt_of_ble {a b c : Bytes} (h1 : blt a b = true) (h2 : ble b c = true) : blt a c = true := by
  refine blt_iff.2 ⟨ble_trans (blt_ble h1) h2, ?_⟩
  intro e; subst e
  exact (blt_iff.1 h1).2 (ble_antisymm (blt_ble h1) h2)

theorem blt_of_ble_of_blt {a b c : Bytes} (h1 : ble a b = true) (h2 : blt b c = true) : blt a c = true := by
  refine blt_iff.2 ⟨ble_trans h1 (blt_ble h2), ?_⟩
  intro e; subst e
  exact (blt_iff.1 h2).2 (ble_antisymm (blt_ble h2) h1)

theorem blt_trans {a b c : Bytes} (h1 : blt a b = true) (h2 : blt b c = true) : blt a c = true :=
  blt_of_blt_of_ble h1 (blt_ble h2)

theorem blt_append_left (p a b : Bytes) : blt (p ++ a) (p ++ b) = blt a b := by
  have : (p ++ a != p ++ b) = (a != b) := by
    rw [Bool.eq_iff_iff]; simp [bne_iff_ne]
  simp only [blt, ble_append_left, this]

theorem not_ble_of_blt {a b : Bytes} (h : blt a b = true) : ble b a = false := by
  cases hb : ble b a with
  | false => rfl
  | true => exact absurd (ble_antisymm (blt_ble h) hb) (blt_iff.1 h).2

/-! ## prefixes are intervals of the order -/

theorem ble_of_isPrefixOf {p k : Bytes} (h : p.isPrefixOf k = true) : ble p k = true := by
  induction p generalizing k with
  | nil => simp
  | cons x xs ih =>
    cases k with
    | nil => simp at h
    | cons y ys =>
      simp only [List.isPrefixOf_cons_cons, Bool.and_eq_true, beq_iff_eq] at h
      simp [ble_cons_cons, h.1, ih h.2]

theorem not_blt_of_isPrefixOf {p k : Bytes} (h : p.isPrefixOf k = true) : blt k p = false := by
  cases hb : blt k p with
  | false => rfl
  | true => have := not_ble_of_blt hb; simp [ble_of_isPrefixOf h] at this

/-- between the prefix itself and a key with the prefix there are only keys with the prefix -/
theorem isPrefixOf_of_between {p k k' : Bytes} (h1 : ble p k = true) (h2 : ble k k' = true)
    (h3 : p.isPrefixOf k' = true) : p.isPrefixOf k = true := by
  induction p generalizing k k' with
  | nil => simp
  | cons x xs ih =>
    cases k with
    | nil => simp at h1
    | cons y ys =>
      cases k' with
      | nil => simp at h3
      | cons z zs =>
        simp only [List.isPrefixOf_cons_cons, Bool.and_eq_true, beq_iff_eq] at h3 ⊢
        simp only [ble_cons_cons] at h1 h2
        have := @ih ys zs
        grind

/-- a key below `q ++ [c + 1]` without the prefix `q ++ [c]` is below `q ++ [c]` -/
theorem blt_of_blt_succ {q k : Bytes} {c : Nat} (h1 : blt k (q ++ [c + 1]) = true)
    (h2 : (q ++ [c]).isPrefixOf k = false) : blt k (q ++ [c]) = true := by
  induction q generalizing k with
  | nil =>
    cases k with
    | nil => simp [blt]
    | cons y ys =>
      simp only [List.nil_append, List.isPrefixOf_cons_cons, List.isPrefixOf_nil_left, Bool.and_true,
        beq_eq_false_iff_ne] at h2
      simp only [blt, List.nil_append, ble_cons_cons, Bool.and_eq_true, bne_iff_ne, ne_eq, List.cons.injEq,
        not_and] at h1 ⊢
      cases ys <;> grind [ble_nil, ble_cons_nil]
  | cons x xs ih =>
    cases k with
    | nil => simp [blt]
    | cons y ys =>
      simp only [List.cons_append, List.isPrefixOf_cons_cons, Bool.and_eq_false_iff, beq_eq_false_iff_ne] at h2
      have := @ih ys
      simp only [blt, List.cons_append, ble_cons_cons, Bool.and_eq_true, bne_iff_ne, ne_eq, List.cons.injEq,
        not_and] at this h1 ⊢
      grind

/-- a key of bytes that does not start with a run of 0xFF bytes is below that run -/
theorem blt_of_not_prefix_ff {t r : Bytes} (ht : ∀ x ∈ t, x = 255) (hr : ∀ x ∈ r, x ≤ 255)
    (h : t.isPrefixOf r = false) : blt r t = true := by
  induction t generalizing r with
  | nil => simp at h
  | cons x xs ih =>
    cases r with
    | nil => simp [blt]
    | cons y ys =>
      have hx : x = 255 := ht x (by simp)
      have hy : y ≤ 255 := hr y (by simp)
      subst hx
      simp only [List.isPrefixOf_cons_cons, Bool.and_eq_false_iff, beq_eq_false_iff_ne] at h
      have := @ih ys (fun x hx => ht x (by simp [hx])) (fun x hx => hr x (by simp [hx]))
      simp only [blt, ble_cons_cons, Bool.and_eq_true, bne_iff_ne, ne_eq, List.cons.injEq, not_and] at this ⊢
      grind

/-! ## the end of a prefix range (`prefixEnd`) -/

/-- the shape of a prefix that has an end: a byte other than 0xFF followed by 0xFF bytes only;
the end is the prefix cut after that byte, incremented -/
theorem prefixEnd_some {p e : Bytes} (h : prefixEnd p = some e) :
    ∃ q c t, p = q ++ c :: t ∧ (∀ x ∈ t, x = 255) ∧ c ≠ 255 ∧ e = q ++ [c + 1] := by
  have hp : p = (p.reverse.dropWhile (· = 255)).reverse ++ (p.reverse.takeWhile (· = 255)).reverse := by
    rw [← List.reverse_append, List.takeWhile_append_dropWhile, List.reverse_reverse]
  have ht : ∀ x ∈ (p.reverse.takeWhile (· = 255)).reverse, x = 255 := by
    intro x hx
    have := List.all_eq_true.1 (List.all_takeWhile (l := p.reverse) (p := fun x : Nat => decide (x = 255))) x
      (List.mem_reverse.1 hx)
    simpa using this
  have hc : ∀ c d, p.reverse.dropWhile (· = 255) = c :: d → c ≠ 255 := by
    intro c d hd
    have := List.head_dropWhile_not (fun x : Nat => decide (x = 255)) (l := p.reverse) (by rw [hd]; simp)
    simpa [hd] using this
  unfold prefixEnd at h
  revert h hp hc
  generalize p.reverse.dropWhile (· = 255) = d
  generalize (p.reverse.takeWhile (· = 255)).reverse = t at ht
  intro h hp hc
  cases d with
  | nil => simp at h
  | cons c d =>
    simp only [List.reverse_cons, List.getLast?_append, List.getLast?_singleton, Option.some_or,
      List.dropLast_concat, Option.some.injEq] at h
    exact ⟨d.reverse, c, t, by simpa using hp, ht, hc c d rfl, h.symm⟩

/-- a prefix without an end consists of 0xFF bytes only -/
theorem prefixEnd_none {p : Bytes} (h : prefixEnd p = none) : ∀ x ∈ p, x = 255 := by
  have hp : p = (p.reverse.dropWhile (· = 255)).reverse ++ (p.reverse.takeWhile (· = 255)).reverse := by
    rw [← List.reverse_append, List.takeWhile_append_dropWhile, List.reverse_reverse]
  have ht : ∀ x ∈ (p.reverse.takeWhile (· = 255)).reverse, x = 255 := by
    intro x hx
    have := List.all_eq_true.1 (List.all_takeWhile (l := p.reverse) (p := fun x : Nat => decide (x = 255))) x
      (List.mem_reverse.1 hx)
    simpa using this
  unfold prefixEnd at h
  revert h hp
  generalize p.reverse.dropWhile (· = 255) = d
  intro h hp
  cases d with
  | nil => rw [hp]; simpa using ht
  | cons c d => simp at h

/-- (a) every key with the prefix is below the end of the prefix (whatever its bytes) -/
theorem blt_prefixEnd_of_isPrefixOf {p e k : Bytes} (he : prefixEnd p = some e) (h : p.isPrefixOf k = true) :
    blt k e = true := by
  obtain ⟨q, c, t, rfl, -, -, rfl⟩ := prefixEnd_some he
  obtain ⟨r, rfl⟩ := List.isPrefixOf_iff_prefix.1 h
  rw [List.append_assoc, blt_append_left]
  simp [blt, ble_cons_cons]

/-- (b), in terms of the shape of the prefix: a key below the end that does not have the prefix
is below the prefix; only the bytes that follow the prefix cut after its last byte other than
0xFF matter -/
theorem blt_of_blt_end {q t k : Bytes} {c : Nat} (ht : ∀ x ∈ t, x = 255)
    (hlt : blt k (q ++ [c + 1]) = true) (hP : (q ++ c :: t).isPrefixOf k = false)
    (hk : (q ++ [c]).isPrefixOf k = true → ∀ x ∈ k.drop (q.length + 1), x ≤ 255) :
    blt k (q ++ c :: t) = true := by
  cases hq : (q ++ [c]).isPrefixOf k with
  | true =>
    obtain ⟨r, rfl⟩ := List.isPrefixOf_iff_prefix.1 hq
    have hb := hk hq
    rw [List.drop_left' (by simp)] at hb
    have e1 : q ++ c :: t = (q ++ [c]) ++ t := by simp
    rw [e1] at hP ⊢
    rw [blt_append_left]
    apply blt_of_not_prefix_ff ht hb
    rw [← Bool.not_eq_true, List.isPrefixOf_iff_prefix] at hP ⊢
    intro h; exact hP ((List.prefix_append_right_inj _).2 h)
  | false =>
    refine blt_of_blt_of_ble (blt_of_blt_succ hlt hq) ?_
    apply ble_of_isPrefixOf
    rw [List.isPrefixOf_iff_prefix]
    exact ⟨t, by simp⟩

/-- (b) a key of bytes below the end of the prefix that does not have the prefix is below the prefix -/
theorem blt_of_blt_prefixEnd {p e k : Bytes} (he : prefixEnd p = some e) (hlt : blt k e = true)
    (hP : p.isPrefixOf k = false) (hk : ∀ x ∈ k, x ≤ 255) : blt k p = true := by
  obtain ⟨q, c, t, rfl, ht, -, rfl⟩ := prefixEnd_some he
  exact blt_of_blt_end ht hlt hP (fun _ x hx => hk x (List.mem_of_mem_drop hx))

/-- a prefix without an end (empty or 0xFF bytes only): every key of bytes that does not have
the prefix is below it -/
theorem blt_of_prefixEnd_none {p k : Bytes} (he : prefixEnd p = none) (hP : p.isPrefixOf k = false)
    (hk : ∀ x ∈ k, x ≤ 255) : blt k p = true :=
  blt_of_not_prefix_ff (prefixEnd_none he) hk hP

/-! ## the value association list -/
variable {V : Type}

@[simp] theorem vget_nil (k : Bytes) : vget ([] : List (Bytes × V)) k = none := rfl
theorem vget_cons (e : Bytes × V) (l : List (Bytes × V)) (k : Bytes) :
    vget (e :: l) k = if e.1 = k then some e.2 else vget l k := by
  simp only [vget, List.find?_cons]
  by_cases h : e.1 = k
  · simp [h]
  · have : (e.1 == k) = false := by simpa using h
    simp [h, this]

theorem vget_eq_none_iff (l : List (Bytes × V)) (k : Bytes) : vget l k = none ↔ ∀ e ∈ l, e.1 ≠ k := by
  induction l with
  | nil => simp
  | cons e l ih => simp only [vget_cons]; grind

theorem any_eq_vget_isSome (l : List (Bytes × V)) (k : Bytes) : l.any (·.1 == k) = (vget l k).isSome := by
  induction l with
  | nil => simp
  | cons e l ih => simp only [vget_cons, List.any_cons, ih]; by_cases h : e.1 = k <;> simp [h]

theorem vget_map_set (l : List (Bytes × V)) (k k' : Bytes) (v : V) :
    vget (l.map (fun e => if e.1 == k then (k, v) else e)) k' =
      if k' = k then (if (vget l k).isSome then some v else none) else vget l k' := by
  induction l with
  | nil => simp
  | cons e l ih =>
    simp only [List.map_cons, vget_cons, ih]
    by_cases h : e.1 = k <;> by_cases h' : k' = k <;> simp [h, h'] <;> grind

theorem vget_append (l l' : List (Bytes × V)) (k : Bytes) :
    vget (l ++ l') k = (vget l k).or (vget l' k) := by
  induction l with
  | nil => simp
  | cons e l ih => simp only [List.cons_append, vget_cons, ih]; split <;> simp

theorem vget_vset (l : List (Bytes × V)) (k k' : Bytes) (v : V) :
    vget (vset l k v) k' = if k' = k then some v else vget l k' := by
  unfold vset
  rw [any_eq_vget_isSome]
  cases h : vget l k with
  | none =>
    simp only [Option.isSome_none, Bool.false_eq_true, ↓reduceIte, vget_append, vget_cons, vget_nil]
    by_cases h' : k' = k
    · subst h'; simp [h]
    · have h'' : ¬ k = k' := fun e => h' e.symm
      simp [h', h'']
  | some w =>
    simp only [Option.isSome_some, ↓reduceIte, vget_map_set, h]
    
theorem vget_vdel (l : List (Bytes × V)) (k k' : Bytes) :
    vget (vdel l k) k' = if k' = k then none else vget l k' := by
  induction l with
  | nil => simp [vdel]
  | cons e l ih =>
    simp only [vdel] at ih
    simp only [vdel, List.filter_cons, vget_cons]
    by_cases h : e.1 = k <;> simp [h, vget_cons, ih] <;> grind

theorem vget_vput (l : List (Bytes × V)) (k k' : Bytes) (a : Option V) :
    vget (vput l k a) k' = if k' = k then a else vget l k' := by
  cases a <;> simp [vput, vget_vset, vget_vdel]

theorem map_fst_vset (l : List (Bytes × V)) (k : Bytes) (v : V) :
    (vset l k v).map (·.1) = if (vget l k).isSome then l.map (·.1) else l.map (·.1) ++ [k] := by
  unfold vset
  rw [any_eq_vget_isSome]
  split
  · simp only [List.map_map]
    apply List.map_congr_left
    intro e _
    by_cases h : e.1 = k <;> simp [h]
  · simp

theorem nodup_vset (l : List (Bytes × V)) (k : Bytes) (v : V) (hd : (l.map (·.1)).Nodup) :
    ((vset l k v).map (·.1)).Nodup := by
  rw [map_fst_vset]
  split
  · exact hd
  · rename_i h
    simp only [Bool.not_eq_true, Option.isSome_eq_false_iff, Option.isNone_iff_eq_none, vget_eq_none_iff] at h
    rw [List.nodup_append]
    refine ⟨hd, by simp, ?_⟩
    simp only [List.mem_map, List.mem_singleton]
    rintro a ⟨e, he, rfl⟩ b rfl
    exact h e he

theorem nodup_vdel (l : List (Bytes × V)) (k : Bytes) (hd : (l.map (·.1)).Nodup) :
    ((vdel l k).map (·.1)).Nodup := by
  unfold vdel
  exact (List.filter_sublist.map _).nodup hd

theorem nodup_vput (l : List (Bytes × V)) (k : Bytes) (a : Option V) (hd : (l.map (·.1)).Nodup) :
    ((vput l k a).map (·.1)).Nodup := by
  cases a
  · exact nodup_vdel l k hd
  · exact nodup_vset l k _ hd

theorem mem_iff_vget (l : List (Bytes × V)) (hd : (l.map (·.1)).Nodup) (id : Bytes) (v : V) :
    (id, v) ∈ l ↔ vget l id = some v := by
  induction l with
  | nil => simp
  | cons e l ih =>
    simp only [List.map_cons, List.nodup_cons, List.mem_map, not_exists, not_and] at hd
    simp only [List.mem_cons, vget_cons, ih hd.2]
    by_cases h : e.1 = id
    · simp only [h, ↓reduceIte, Option.some.injEq]
      constructor
      · rintro (h1 | h1)
        · rw [← h1]
        · have := (ih hd.2).2 h1
          exact absurd h.symm (hd.1 _ this)
      · intro h2; left; rw [← h, ← h2]
    · simp only [h, ↓reduceIte]
      constructor
      · rintro (h1 | h1)
        · rw [← h1] at h; simp at h
        · exact h1
      · intro h2; right; exact h2

/-! ## the (key, id) order and insertion sort -/

theorem pairLe_total (a b : Bytes × Bytes) : pairLe a b = true ∨ pairLe b a = true := by
  unfold pairLe
  by_cases h : a.1 = b.1
  · simp only [h, ↓reduceIte]; exact ble_total _ _
  · have h' : ¬ b.1 = a.1 := fun e => h e.symm
    simp only [h, h', ↓reduceIte]; exact ble_total _ _

theorem pairLe_trans {a b c : Bytes × Bytes} (h1 : pairLe a b = true) (h2 : pairLe b c = true) :
    pairLe a c = true := by
  unfold pairLe at *
  by_cases hab : a.1 = b.1
  · rw [if_pos hab] at h1
    by_cases hbc : b.1 = c.1
    · rw [if_pos hbc] at h2; rw [if_pos (hab.trans hbc)]; exact ble_trans h1 h2
    · rw [if_neg hbc] at h2; rw [if_neg (by rw [hab]; exact hbc), hab]; exact h2
  · rw [if_neg hab] at h1
    by_cases hbc : b.1 = c.1
    · rw [if_pos hbc] at h2; rw [if_neg (by rw [← hbc]; exact hab), ← hbc]; exact h1
    · rw [if_neg hbc] at h2
      by_cases hac : a.1 = c.1
      · rw [← hac] at h2; exact absurd (ble_antisymm h1 h2) hab
      · rw [if_neg hac]; exact ble_trans h1 h2

theorem pairLe_antisymm {a b : Bytes × Bytes} (h1 : pairLe a b = true) (h2 : pairLe b a = true) : a = b := by
  unfold pairLe at *
  by_cases hab : a.1 = b.1
  · simp only [hab, ↓reduceIte] at h1 h2
    exact Prod.ext hab (ble_antisymm h1 h2)
  · have h' : ¬ b.1 = a.1 := fun e => hab e.symm
    simp only [hab, h', ↓reduceIte] at h1 h2
    exact absurd (ble_antisymm h1 h2) hab

theorem insertSorted_perm (x : Bytes × Bytes) (l : List (Bytes × Bytes)) : (insertSorted x l).Perm (x :: l) := by
  induction l with
  | nil => exact List.Perm.refl _
  | cons y r ih =>
    simp only [insertSorted]
    split
    · exact List.Perm.refl _
    · exact (List.Perm.cons y ih).trans (List.Perm.swap x y r)

theorem sortPairs_perm (l : List (Bytes × Bytes)) : (sortPairs l).Perm l := by
  induction l with
  | nil => exact List.Perm.refl _
  | cons x l ih =>
    show (insertSorted x (sortPairs l)).Perm (x :: l)
    exact (insertSorted_perm x _).trans (List.Perm.cons x ih)

theorem mem_sortPairs {l : List (Bytes × Bytes)} {e : Bytes × Bytes} : e ∈ sortPairs l ↔ e ∈ l :=
  (sortPairs_perm l).mem_iff

theorem insertSorted_sorted (x : Bytes × Bytes) (l : List (Bytes × Bytes))
    (h : l.Pairwise (fun a b => pairLe a b = true)) :
    (insertSorted x l).Pairwise (fun a b => pairLe a b = true) := by
  induction l with
  | nil => simp [insertSorted]
  | cons y r ih =>
    simp only [insertSorted]
    rw [List.pairwise_cons] at h
    split
    · rename_i hxy
      refine List.pairwise_cons.2 ⟨?_, List.pairwise_cons.2 h⟩
      intro z hz
      rcases List.mem_cons.1 hz with rfl | hz
      · exact hxy
      · exact pairLe_trans hxy (h.1 z hz)
    · rename_i hxy
      have hyx : pairLe y x = true := by
        rcases pairLe_total x y with h' | h'
        · exact absurd h' hxy
        · exact h'
      refine List.pairwise_cons.2 ⟨?_, ih h.2⟩
      intro z hz
      rcases List.mem_cons.1 ((insertSorted_perm x r).mem_iff.1 hz) with rfl | hz
      · exact hyx
      · exact h.1 z hz

theorem sortPairs_sorted (l : List (Bytes × Bytes)) : (sortPairs l).Pairwise (fun a b => pairLe a b = true) := by
  induction l with
  | nil => simp [sortPairs]
  | cons x l ih => exact insertSorted_sorted x _ ih

theorem insertSorted_of_le (x : Bytes × Bytes) (l : List (Bytes × Bytes)) (h : ∀ z ∈ l, pairLe x z = true) :
    insertSorted x l = x :: l := by
  cases l with
  | nil => rfl
  | cons y r => simp [insertSorted, h y (by simp)]

theorem filter_insertSorted (p : Bytes × Bytes → Bool) (x : Bytes × Bytes) (l : List (Bytes × Bytes))
    (h : l.Pairwise (fun a b => pairLe a b = true)) :
    (insertSorted x l).filter p = if p x then insertSorted x (l.filter p) else l.filter p := by
  induction l with
  | nil => simp [insertSorted, List.filter_cons]
  | cons y r ih =>
    rw [List.pairwise_cons] at h
    simp only [insertSorted]
    by_cases hxy : pairLe x y = true
    · simp only [hxy, ↓reduceIte]
      by_cases hx : p x = true
      · simp only [hx, ↓reduceIte]
        rw [insertSorted_of_le, List.filter_cons, if_pos hx]
        intro z hz
        rcases List.mem_cons.1 (List.mem_filter.1 hz).1 with rfl | hz
        · exact hxy
        · exact pairLe_trans hxy (h.1 z hz)
      · simp only [hx, Bool.false_eq_true, ↓reduceIte]
        rw [List.filter_cons, if_neg hx]
    · simp only [hxy, Bool.false_eq_true, ↓reduceIte]
      by_cases hy : p y = true <;> by_cases hx : p x = true <;>
        simp [hy, hx, insertSorted, hxy, ih h.2]

theorem filter_sortPairs (p : Bytes × Bytes → Bool) (l : List (Bytes × Bytes)) :
    (sortPairs l).filter p = sortPairs (l.filter p) := by
  induction l with
  | nil => simp [sortPairs]
  | cons x l ih =>
    show (insertSorted x (sortPairs l)).filter p = _
    rw [filter_insertSorted p x _ (sortPairs_sorted l), ih, List.filter_cons]
    split <;> rfl

variable {V : Type}

/-! ## index maintenance -/

theorem updateOne_snd (ix : Idx V) (id : Bytes) (b a : Option V) (db : DB) :
    (updateOne ix id b a db).2 = (b.bind ix.key != a.bind ix.key) := by
  unfold updateOne
  by_cases h : b.bind ix.key = a.bind ix.key <;> simp [h]

theorem updateIndex_fold (idxs : List (Idx V)) (id : Bytes) (b a : Option V) (db : DB) (f : Bool) :
    idxs.foldl (fun (acc : DB × Bool) idx => let (db', u) := updateOne idx id b a acc.1; (db', acc.2 || u)) (db, f)
      = (idxs.foldl (fun db ix => (updateOne ix id b a db).1) db,
         f || idxs.any (fun ix => b.bind ix.key != a.bind ix.key)) := by
  induction idxs generalizing db f with
  | nil => simp
  | cons ix r ih =>
    simp only [List.foldl_cons, List.any_cons]
    rw [ih, updateOne_snd, Bool.or_assoc]

theorem updateIndex_fst (idxs : List (Idx V)) (id : Bytes) (b a : Option V) (db : DB) :
    (updateIndex idxs id b a db).1 = idxs.foldl (fun db ix => (updateOne ix id b a db).1) db := by
  unfold updateIndex; rw [updateIndex_fold]

theorem updateIndex_snd (idxs : List (Idx V)) (id : Bytes) (b a : Option V) (db : DB) :
    (updateIndex idxs id b a db).2 = idxs.any (fun ix => b.bind ix.key != a.bind ix.key) := by
  unfold updateIndex; rw [updateIndex_fold]; simp

/-! ## entries and queries -/

/-- the hit test of a query, on entries -/
def hit (pre : Bytes) (filter : Bytes → Bool) (e : Bytes × Bytes) : Bool := pre.isPrefixOf e.1 && filter e.1

/-- if the change does not affect the query, the old and the new key give the same hit -/
theorem hit_eq_of_not_affects (ix : Idx V) (pre : Bytes) (filter : Bytes → Bool) (b a : Option V) (id : Bytes)
    (h : affectsQuery ix pre (some filter) b a = false) :
    ((b.bind ix.key).map (fun k => (k, id))).filter (hit pre filter) =
    ((a.bind ix.key).map (fun k => (k, id))).filter (hit pre filter) := by
  unfold affectsQuery at h
  by_cases hk : b.bind ix.key = a.bind ix.key
  · rw [hk]
  · simp only [hk, ↓reduceIte, Bool.or_eq_false_iff] at h
    cases hb : b.bind ix.key <;> cases ha : a.bind ix.key <;> simp_all [hit, Option.filter]
    rw [if_neg (by grind), if_neg (by grind)]

theorem filterMap_congr' {α β : Type} {f g : α → Option β} {l : List α} (h : ∀ x ∈ l, f x = g x) :
    l.filterMap f = l.filterMap g := by
  induction l with
  | nil => rfl
  | cons x l ih =>
    simp only [List.filterMap_cons, h x (by simp)]
    rw [ih (fun y hy => h y (by simp [hy]))]

theorem entriesOf_filter (ix : Idx V) (vals : List (Bytes × V)) (p : Bytes × Bytes → Bool) :
    (entriesOf ix vals).filter p = vals.filterMap (fun x => ((ix.key x.2).map (fun k => (k, x.1))).filter p) := by
  unfold entriesOf
  rw [List.filter_filterMap]

/-- a change that does not affect the query leaves the hits of the query unchanged -/
theorem hits_eq_of_not_affects (ix : Idx V) (vals : List (Bytes × V)) (id : Bytes) (after : Option V)
    (pre : Bytes) (filter : Bytes → Bool) (hd : (vals.map (·.1)).Nodup)
    (h : affectsQuery ix pre (some filter) (vget vals id) after = false) :
    (entriesOf ix vals).filter (hit pre filter) = (entriesOf ix (vput vals id after)).filter (hit pre filter) := by
  have key := hit_eq_of_not_affects ix pre filter (vget vals id) after id h
  rw [entriesOf_filter, entriesOf_filter]
  -- every element stored under `id` is the value found by `vget`
  have hmem : ∀ e ∈ vals, e.1 = id → vget vals id = some e.2 := by
    intro e he hid
    exact (mem_iff_vget vals hd id e.2).1 (by rw [← hid]; exact he)
  cases after with
  | none =>
    simp only [vput, vdel]
    rw [List.filterMap_filter]
    apply filterMap_congr'
    intro e he
    by_cases hid : e.1 = id
    · have := hmem e he hid
      rw [this] at key
      simp only [Option.bind_some, Option.bind_none, Option.map_none, Option.filter_none] at key
      simp [hid, ← key]
    · simp [hid]
  | some a =>
    simp only [vput, vset]
    rw [any_eq_vget_isSome]
    cases hv : vget vals id with
    | none =>
      rw [hv] at key
      simp only [Option.bind_some, Option.bind_none, Option.map_none, Option.filter_none] at key
      simp [← key]
    | some b =>
      rw [hv] at key
      simp only [Option.bind_some] at key
      simp only [Option.isSome_some, ↓reduceIte, List.filterMap_map]
      apply filterMap_congr'
      intro e he
      by_cases hid : e.1 = id
      · have := hmem e he hid
        rw [hv] at this
        simp only [Option.some.injEq] at this
        simp [Function.comp, hid, ← key, this]
      · simp [Function.comp, hid]

variable {V : Type}

/-! ## the database -/

theorem mem_keys_dbInsert (k v : Bytes) (db : DB) (k' : Bytes) :
    k' ∈ (dbInsert k v db).map (·.1) ↔ k' = k ∨ k' ∈ db.map (·.1) := by
  induction db with
  | nil => simp [dbInsert]
  | cons e r ih =>
    obtain ⟨ke, ve⟩ := e
    simp only [dbInsert]
    split
    · rename_i h; subst h; simp
    · split
      · simp
      · simp only [List.map_cons, List.mem_cons, ih]; grind

theorem mem_keys_dbDelete (k : Bytes) (db : DB) (k' : Bytes) :
    k' ∈ (dbDelete k db).map (·.1) ↔ k' ≠ k ∧ k' ∈ db.map (·.1) := by
  simp only [dbDelete, List.mem_map, List.mem_filter, bne_iff_ne, ne_eq]
  constructor
  · rintro ⟨e, ⟨he, hne⟩, rfl⟩; exact ⟨hne, e, he, rfl⟩
  · rintro ⟨hne, e, he, rfl⟩; exact ⟨e, ⟨he, hne⟩, rfl⟩

theorem mem_keysOf (name : Bytes) (db : DB) (k : Bytes) :
    k ∈ keysOf name db ↔ k ∈ db.map (·.1) ∧ (getQuery name []).isPrefixOf k = true := by
  simp [keysOf, List.mem_filter]

theorem getQuery_prefix_getKey (name key id : Bytes) : (getQuery name []).isPrefixOf (getKey name key id) = true := by
  rw [List.isPrefixOf_iff_prefix]
  exact ⟨key ++ 0 :: id, by simp [getQuery, getKey]⟩

/-- index names no one of which (with its colon) is a prefix of the other -/
def Incomp (a b : Bytes) : Prop :=
  ¬ (getQuery a []).isPrefixOf (getQuery b []) ∧ ¬ (getQuery b []).isPrefixOf (getQuery a [])

theorem Incomp.symm {a b : Bytes} (h : Incomp a b) : Incomp b a := ⟨h.2, h.1⟩

theorem not_prefix_getKey_of_incomp {a b : Bytes} (h : Incomp a b) (key id : Bytes) :
    (getQuery a []).isPrefixOf (getKey b key id) = false := by
  cases hp : (getQuery a []).isPrefixOf (getKey b key id) with
  | false => rfl
  | true =>
    have h1 := List.isPrefixOf_iff_prefix.1 hp
    have h2 := List.isPrefixOf_iff_prefix.1 (getQuery_prefix_getKey b key id)
    rcases List.prefix_or_prefix_of_prefix h1 h2 with h3 | h3
    · exact absurd (List.isPrefixOf_iff_prefix.2 h3) h.1
    · exact absurd (List.isPrefixOf_iff_prefix.2 h3) h.2

/-- the keys of index `name` after `updateOne` for index `ix` -/
theorem mem_keysOf_updateOne (name : Bytes) (ix : Idx V) (id : Bytes) (b a : Option V) (db : DB) (k : Bytes) :
    k ∈ keysOf name (updateOne ix id b a db).1 ↔
      if b.bind ix.key = a.bind ix.key then k ∈ keysOf name db
      else (k ∈ keysOf name db ∧ ∀ kb, b.bind ix.key = some kb → k ≠ getKey ix.name kb id) ∨
           ((getQuery name []).isPrefixOf k = true ∧ ∃ ka, a.bind ix.key = some ka ∧ k = getKey ix.name ka id) := by
  unfold updateOne
  by_cases h : b.bind ix.key = a.bind ix.key
  · simp only [h, ↓reduceIte]
  · simp only [h, ↓reduceIte]
    cases hb : b.bind ix.key <;> cases ha : a.bind ix.key <;>
      simp only [mem_keysOf, mem_keys_dbInsert, mem_keys_dbDelete] <;> grind

/-- an update for an index with an incomparable name does not touch the keys of `name` -/
theorem mem_keysOf_updateOne_incomp (name : Bytes) (ix : Idx V) (hi : Incomp name ix.name)
    (id : Bytes) (b a : Option V) (db : DB) (k : Bytes) :
    k ∈ keysOf name (updateOne ix id b a db).1 ↔ k ∈ keysOf name db := by
  rw [mem_keysOf_updateOne]
  split
  · rfl
  · constructor
    · rintro (⟨h, _⟩ | ⟨hp, ka, _, rfl⟩)
      · exact h
      · rw [not_prefix_getKey_of_incomp hi] at hp; cases hp
    · intro h
      left
      refine ⟨h, ?_⟩
      rintro kb _ rfl
      have := ((mem_keysOf _ _ _).1 h).2
      rw [not_prefix_getKey_of_incomp hi] at this; cases this

theorem mem_keysOf_fold_incomp (name : Bytes) (l : List (Idx V)) (hi : ∀ ix ∈ l, Incomp name ix.name)
    (id : Bytes) (b a : Option V) (db : DB) (k : Bytes) :
    k ∈ keysOf name (l.foldl (fun db ix => (updateOne ix id b a db).1) db) ↔ k ∈ keysOf name db := by
  induction l generalizing db with
  | nil => rfl
  | cons x r ih =>
    rw [List.foldl_cons, ih (fun ix h => hi ix (by simp [h])), mem_keysOf_updateOne_incomp name x (hi x (by simp))]

theorem mem_keysOf_updateOne_congr (name : Bytes) (ix : Idx V) (id : Bytes) (b a : Option V) (db db' : DB)
    (h : ∀ k, k ∈ keysOf name db ↔ k ∈ keysOf name db') (k : Bytes) :
    k ∈ keysOf name (updateOne ix id b a db).1 ↔ k ∈ keysOf name (updateOne ix id b a db').1 := by
  rw [mem_keysOf_updateOne, mem_keysOf_updateOne, h]

/-- in the fold over all indexes only the index's own update matters -/
theorem mem_keysOf_fold (ix : Idx V) (l : List (Idx V))
    (hp : (l.map (·.name)).Pairwise Incomp) (hix : ix ∈ l)
    (id : Bytes) (b a : Option V) (db : DB) (k : Bytes) :
    k ∈ keysOf ix.name (l.foldl (fun db ix => (updateOne ix id b a db).1) db) ↔
      k ∈ keysOf ix.name (updateOne ix id b a db).1 := by
  induction l generalizing db k with
  | nil => cases hix
  | cons x r ih =>
    rw [List.map_cons, List.pairwise_cons] at hp
    rw [List.foldl_cons]
    by_cases hx : ix = x
    · subst hx
      apply mem_keysOf_fold_incomp
      intro ix' h'
      exact hp.1 _ (List.mem_map_of_mem h')
    · have hr : ix ∈ r := by
        rcases List.mem_cons.1 hix with h | h
        · exact absurd h hx
        · exact h
      rw [ih hp.2 hr]
      apply mem_keysOf_updateOne_congr
      intro k'
      exact mem_keysOf_updateOne_incomp ix.name x (hp.1 _ (List.mem_map_of_mem hr)).symm id b a db k'

theorem mem_keysOf_updateIndex (ix : Idx V) (idxs : List (Idx V))
    (hp : (idxs.map (·.name)).Pairwise Incomp) (hix : ix ∈ idxs)
    (id : Bytes) (b a : Option V) (db : DB) (k : Bytes) :
    k ∈ keysOf ix.name (updateIndex idxs id b a db).1 ↔ k ∈ keysOf ix.name (updateOne ix id b a db).1 := by
  rw [updateIndex_fst]; exact mem_keysOf_fold ix idxs hp hix id b a db k

variable {V : Type}

/-! ## the index invariant -/

/-- what index `ix` should hold for the stored values -/
def IdxSpec (ix : Idx V) (vals : List (Bytes × V)) (k : Bytes) : Prop :=
  ∃ id key, (vget vals id).bind ix.key = some key ∧ k = getKey ix.name key id

theorem mem_entriesOf (ix : Idx V) (vals : List (Bytes × V)) (hd : (vals.map (·.1)).Nodup) (e : Bytes × Bytes) :
    e ∈ entriesOf ix vals ↔ (vget vals e.2).bind ix.key = some e.1 := by
  simp only [entriesOf, List.mem_filterMap, Option.map_eq_some_iff, Option.bind_eq_some_iff]
  constructor
  · rintro ⟨⟨id, v⟩, hx, key, hk, rfl⟩
    exact ⟨v, (mem_iff_vget vals hd id v).1 hx, hk⟩
  · rintro ⟨v, hv, hk⟩
    exact ⟨(e.2, v), (mem_iff_vget vals hd e.2 v).2 hv, e.1, hk, rfl⟩

theorem idxSpec_iff_entries (ix : Idx V) (vals : List (Bytes × V)) (hd : (vals.map (·.1)).Nodup) (k : Bytes) :
    IdxSpec ix vals k ↔ ∃ e ∈ entriesOf ix vals, k = getKey ix.name e.1 e.2 := by
  constructor
  · rintro ⟨id, key, h, rfl⟩
    exact ⟨(key, id), (mem_entriesOf ix vals hd _).2 h, rfl⟩
  · rintro ⟨e, he, rfl⟩
    exact ⟨e.2, e.1, (mem_entriesOf ix vals hd _).1 he, rfl⟩

/-- one mutation keeps the invariant of one index; `hinj`: the deleted key is not the key of
another id -/
theorem idxSpec_step (ix : Idx V) (vals : List (Bytes × V)) (db : DB) (id : Bytes) (after : Option V)
    (hinv : ∀ k, k ∈ keysOf ix.name db ↔ IdxSpec ix vals k)
    (hinj : ∀ kb, (vget vals id).bind ix.key = some kb → ∀ id' key', (vget vals id').bind ix.key = some key' →
      getKey ix.name key' id' = getKey ix.name kb id → id' = id)
    (k : Bytes) :
    k ∈ keysOf ix.name (updateOne ix id (vget vals id) after db).1 ↔ IdxSpec ix (vput vals id after) k := by
  rw [mem_keysOf_updateOne]
  simp only [hinv, IdxSpec, vget_vput]
  split
  · rename_i heq
    constructor
    · rintro ⟨id', key, h, rfl⟩
      refine ⟨id', key, ?_, rfl⟩
      by_cases hid : id' = id
      · subst hid; simpa [← heq] using h
      · simpa [hid] using h
    · rintro ⟨id', key, h, rfl⟩
      refine ⟨id', key, ?_, rfl⟩
      by_cases hid : id' = id
      · subst hid; simpa [← heq] using h
      · simpa [hid] using h
  · constructor
    · rintro (⟨⟨id', key, h, rfl⟩, hne⟩ | ⟨_, ka, hka, rfl⟩)
      · refine ⟨id', key, ?_, rfl⟩
        by_cases hid : id' = id
        · subst hid; exact absurd rfl (hne key h)
        · simpa [hid] using h
      · exact ⟨id, ka, by simpa using hka, rfl⟩
    · rintro ⟨id', key, h, rfl⟩
      by_cases hid : id' = id
      · subst hid
        right
        exact ⟨getQuery_prefix_getKey _ _ _, key, by simpa using h, rfl⟩
      · left
        simp only [hid, ↓reduceIte] at h
        refine ⟨⟨id', key, h, rfl⟩, ?_⟩
        intro kb hkb heq
        exact hid (hinj kb hkb id' key h heq)

variable {V : Type}

theorem sep_inj {k1 k2 id1 id2 : Bytes} (h1 : ∀ c ∈ k1, c ≠ 0) (h2 : ∀ c ∈ k2, c ≠ 0)
    (h : k1 ++ 0 :: id1 = k2 ++ 0 :: id2) : k1 = k2 ∧ id1 = id2 := by
  induction k1 generalizing k2 with
  | nil =>
    cases k2 with
    | nil => simpa using h
    | cons c r =>
      simp only [List.nil_append, List.cons_append, List.cons.injEq] at h
      exact absurd h.1.symm (h2 c (by simp))
  | cons c r ih =>
    cases k2 with
    | nil =>
      simp only [List.nil_append, List.cons_append, List.cons.injEq] at h
      exact absurd h.1 (h1 c (by simp))
    | cons c' r' =>
      simp only [List.cons_append, List.cons.injEq] at h
      have := ih (fun x hx => h1 x (by simp [hx])) (fun x hx => h2 x (by simp [hx])) h.2
      exact ⟨by rw [h.1, this.1], this.2⟩

theorem getKey_inj {name k1 k2 id1 id2 : Bytes} (h1 : ∀ c ∈ k1, c ≠ 0) (h2 : ∀ c ∈ k2, c ≠ 0)
    (h : getKey name k1 id1 = getKey name k2 id2) : k1 = k2 ∧ id1 = id2 := by
  simp only [getKey, List.append_assoc, List.cons_append, List.append_cancel_left_eq, List.cons.injEq, true_and] at h
  exact sep_inj h1 h2 h

/-- the index invariant over a history, from any state satisfying it -/
theorem applyHist_inv (idxs : List (Idx V)) (hp : (idxs.map (·.name)).Pairwise Incomp)
    (hk : ∀ ix ∈ idxs, ∀ v k, ix.key v = some k → ∀ c ∈ k, c ≠ 0)
    (hist : List (Bytes × Option V)) (vals : List (Bytes × V)) (db : DB)
    (hd : (vals.map (·.1)).Nodup)
    (hinv : ∀ ix ∈ idxs, ∀ k, k ∈ keysOf ix.name db ↔ IdxSpec ix vals k) :
    ((applyHist idxs hist (vals, db)).1.map (·.1)).Nodup ∧
    ∀ ix ∈ idxs, ∀ k, k ∈ keysOf ix.name (applyHist idxs hist (vals, db)).2 ↔
      IdxSpec ix (applyHist idxs hist (vals, db)).1 k := by
  induction hist generalizing vals db with
  | nil => exact ⟨hd, hinv⟩
  | cons x rest ih =>
    obtain ⟨id, after⟩ := x
    simp only [applyHist]
    apply ih _ _ (nodup_vput vals id after hd)
    intro ix hix k
    rw [mem_keysOf_updateIndex ix idxs hp hix]
    apply idxSpec_step ix vals db id after (hinv ix hix)
    intro kb hkb id' key' hkey' heq
    obtain ⟨v, _, hv⟩ := Option.bind_eq_some_iff.1 hkb
    obtain ⟨v', _, hv'⟩ := Option.bind_eq_some_iff.1 hkey'
    exact (getKey_inj (hk ix hix v' key' hv') (hk ix hix v kb hv) heq).2

/-- rebuilding is a history of creations from the cleared database -/
theorem rebuild_fold_inv (idxs : List (Idx V)) (hp : (idxs.map (·.name)).Pairwise Incomp)
    (rest : List (Bytes × V)) (acc : List (Bytes × V)) (db : DB)
    (hd : ((acc ++ rest).map (·.1)).Nodup)
    (hinv : ∀ ix ∈ idxs, ∀ k, k ∈ keysOf ix.name db ↔ IdxSpec ix acc k) :
    ∀ ix ∈ idxs, ∀ k, k ∈ keysOf ix.name
        (rest.foldl (fun db (x : Bytes × V) => (updateIndex idxs x.1 none (some x.2) db).1) db) ↔
      IdxSpec ix (acc ++ rest) k := by
  induction rest generalizing acc db with
  | nil => simpa using hinv
  | cons x rest ih =>
    have hnone : vget acc x.1 = none := by
      rw [vget_eq_none_iff]
      intro e he heq
      simp only [List.map_append, List.map_cons] at hd
      have := (List.nodup_append.1 hd).2.2 e.1 (List.mem_map_of_mem he) x.1 (by simp)
      exact this heq
    have hput : vput acc x.1 (some x.2) = acc ++ [x] := by
      simp [vput, vset, any_eq_vget_isSome, hnone]
    rw [List.foldl_cons]
    have := ih (acc ++ [x]) (updateIndex idxs x.1 none (some x.2) db).1 (by simpa using hd) ?_
    · simpa using this
    · intro ix hix k
      rw [mem_keysOf_updateIndex ix idxs hp hix, ← hnone, ← hput]
      apply idxSpec_step ix acc db x.1 (some x.2) (hinv ix hix)
      intro kb hkb
      simp [hnone] at hkb

theorem keysOf_cleared (idxs : List (Idx V)) (db : DB) (ix : Idx V) (hix : ix ∈ idxs) (k : Bytes) :
    ¬ k ∈ keysOf ix.name (db.filter (fun e => !idxs.any (fun ix => (getQuery ix.name []).isPrefixOf e.1))) := by
  rw [mem_keysOf]
  rintro ⟨hk, hpre⟩
  simp only [List.mem_map, List.mem_filter, Bool.not_eq_true', List.any_eq_false] at hk
  obtain ⟨e, ⟨_, hno⟩, rfl⟩ := hk
  exact hno ix hix hpre

variable {V : Type}

/-! ## the database stays sorted -/

def KeysSorted (db : DB) : Prop := (db.map (·.1)).Pairwise (fun a b => blt a b = true)

theorem dbInsert_sorted (k v : Bytes) (db : DB) (h : KeysSorted db) : KeysSorted (dbInsert k v db) := by
  unfold KeysSorted at *
  induction db with
  | nil => simp [dbInsert]
  | cons e r ih =>
    obtain ⟨ke, ve⟩ := e
    rw [List.map_cons, List.pairwise_cons] at h
    simp only [dbInsert]
    split
    · rename_i heq; subst heq
      rw [List.map_cons, List.pairwise_cons]; exact h
    · rename_i hne
      split
      · rename_i hlt
        rw [List.map_cons, List.pairwise_cons]
        refine ⟨?_, by rw [List.map_cons, List.pairwise_cons]; exact h⟩
        intro z hz
        rcases List.mem_cons.1 hz with rfl | hz
        · exact hlt
        · exact blt_trans hlt (h.1 z hz)
      · rename_i hnlt
        rw [List.map_cons, List.pairwise_cons]
        refine ⟨?_, ih h.2⟩
        intro z hz
        rcases (mem_keys_dbInsert k v r z).1 hz with rfl | hz
        · exact blt_of_not_blt (by simpa using hnlt) hne
        · exact h.1 z hz

theorem dbDelete_sorted (k : Bytes) (db : DB) (h : KeysSorted db) : KeysSorted (dbDelete k db) := by
  unfold KeysSorted dbDelete at *
  exact List.Pairwise.sublist (List.filter_sublist.map _) h
  
theorem updateOne_sorted (ix : Idx V) (id : Bytes) (b a : Option V) (db : DB) (h : KeysSorted db) :
    KeysSorted (updateOne ix id b a db).1 := by
  unfold updateOne
  by_cases hk : b.bind ix.key = a.bind ix.key
  · simp only [hk, ↓reduceIte]; exact h
  · simp only [hk, ↓reduceIte]
    have h1 : KeysSorted (match b.bind ix.key with
        | some k => dbDelete (getKey ix.name k id) db
        | none => db) := by
      split
      · exact dbDelete_sorted _ _ h
      · exact h
    split
    · exact dbInsert_sorted _ _ _ h1
    · exact h1

theorem updateIndex_sorted (idxs : List (Idx V)) (id : Bytes) (b a : Option V) (db : DB) (h : KeysSorted db) :
    KeysSorted (updateIndex idxs id b a db).1 := by
  rw [updateIndex_fst]
  induction idxs generalizing db with
  | nil => exact h
  | cons x r ih => exact ih _ (updateOne_sorted x id b a db h)

theorem applyHist_sorted (idxs : List (Idx V)) (hist : List (Bytes × Option V)) (s : List (Bytes × V) × DB)
    (h : KeysSorted s.2) : KeysSorted (applyHist idxs hist s).2 := by
  induction hist generalizing s with
  | nil => exact h
  | cons x rest ih =>
    obtain ⟨id, after⟩ := x
    obtain ⟨vals, db⟩ := s
    simp only [applyHist]
    exact ih _ (updateIndex_sorted idxs id _ after db h)


/-- the order of `<key>\0<id>` is the order of (key, id) when keys contain no separator -/
theorem sep_ble {k1 k2 : Bytes} (h1 : ∀ c ∈ k1, c ≠ 0) (h2 : ∀ c ∈ k2, c ≠ 0) (id1 id2 : Bytes) :
    ble (k1 ++ 0 :: id1) (k2 ++ 0 :: id2) = pairLe (k1, id1) (k2, id2) := by
  induction k1 generalizing k2 with
  | nil =>
    cases k2 with
    | nil => simp [pairLe, ble_cons_cons]
    | cons c r =>
      have : 0 < c := Nat.pos_of_ne_zero (h2 c (by simp))
      simp [pairLe, ble_cons_cons, this]
  | cons c r ih =>
    have hc : 0 < c := Nat.pos_of_ne_zero (h1 c (by simp))
    cases k2 with
    | nil =>
      have : ¬ c < 0 := by omega
      simp [pairLe, ble_cons_cons, hc]
    | cons c' r' =>
      have := ih (k2 := r') (fun x hx => h1 x (by simp [hx])) (fun x hx => h2 x (by simp [hx]))
      simp only [List.cons_append, ble_cons_cons, this]
      simp only [pairLe, List.cons.injEq, ble_cons_cons]
      by_cases hlt : c < c'
      · have : ¬ c = c' := by omega
        simp [hlt, this]
      · by_cases hgt : c > c'
        · have : ¬ c = c' := by omega
          simp [hlt, hgt, this]
        · have : c = c' := by omega
          subst this
          simp


/-! ## the iterator -/

theorem takeWhile_eq_filter_asc (qp : Bytes) (l : List Bytes)
    (hs : l.Pairwise (fun a b => blt a b = true)) (hge : ∀ k ∈ l, blt k qp = false) :
    l.takeWhile (fun k => qp.isPrefixOf k) = l.filter (fun k => qp.isPrefixOf k) := by
  induction l with
  | nil => rfl
  | cons k r ih =>
    rw [List.pairwise_cons] at hs
    rw [List.takeWhile_cons, List.filter_cons]
    by_cases hP : qp.isPrefixOf k = true
    · simp only [hP, ↓reduceIte]
      rw [ih hs.2 (fun k' h' => hge k' (by simp [h']))]
    · simp only [hP, Bool.false_eq_true, ↓reduceIte]
      symm
      rw [List.filter_eq_nil_iff]
      intro k' hk' hP'
      exact hP (isPrefixOf_of_between (ble_of_not_blt (hge k (by simp))) (blt_ble (hs.1 k' hk')) hP')

theorem scan_forward (keys : List Bytes) (qp : Bytes) (hs : keys.Pairwise (fun a b => blt a b = true)) :
    scan keys qp false = keys.filter (fun k => qp.isPrefixOf k) := by
  simp only [scan, Bool.false_eq_true, ↓reduceIte]
  induction keys with
  | nil => rfl
  | cons k r ih =>
    have hs' := List.pairwise_cons.1 hs
    rw [List.dropWhile_cons]
    by_cases hlt : blt k qp = true
    · simp only [hlt, ↓reduceIte]
      rw [ih hs'.2, List.filter_cons]
      have : qp.isPrefixOf k = false := by
        cases hP : qp.isPrefixOf k with
        | false => rfl
        | true => rw [not_blt_of_isPrefixOf hP] at hlt; cases hlt
      simp [this]
    · simp only [hlt, Bool.false_eq_true, ↓reduceIte]
      apply takeWhile_eq_filter_asc qp (k :: r) hs
      intro k' hk'
      rcases List.mem_cons.1 hk' with rfl | hk'
      · simpa using hlt
      · cases h : blt k' qp with
        | false => rfl
        | true => exact absurd (blt_trans (hs'.1 k' hk') h) hlt

theorem takeWhile_eq_filter_desc (qp : Bytes) (d : List Bytes)
    (hs : d.Pairwise (fun a b => blt b a = true))
    (hlow : ∀ k ∈ d, qp.isPrefixOf k = false → blt k qp = true) :
    d.takeWhile (fun k => qp.isPrefixOf k) = d.filter (fun k => qp.isPrefixOf k) := by
  induction d with
  | nil => rfl
  | cons k r ih =>
    rw [List.pairwise_cons] at hs
    rw [List.takeWhile_cons, List.filter_cons]
    by_cases hP : qp.isPrefixOf k = true
    · simp only [hP, ↓reduceIte]
      rw [ih hs.2 (fun k' h' => hlow k' (by simp [h']))]
    · simp only [hP, Bool.false_eq_true, ↓reduceIte]
      symm
      rw [List.filter_eq_nil_iff]
      intro k' hk' hP'
      have h1 := hlow k (by simp) (Bool.not_eq_true _ ▸ hP)
      have h2 := blt_trans (hs.1 k' hk') h1
      rw [not_blt_of_isPrefixOf hP'] at h2; cases h2

/-- the reverse scan, from what it needs: a key without the prefix that the iterator can be
positioned on (below the end of the prefix, if there is one) is below the prefix -/
theorem scan_reverse_of_low (keys : List Bytes) (qp : Bytes) (hs : keys.Pairwise (fun a b => blt a b = true))
    (hlow : ∀ k ∈ keys, qp.isPrefixOf k = false → (∀ e, prefixEnd qp = some e → blt k e = true) →
      blt k qp = true) :
    scan keys qp true = (keys.filter (fun k => qp.isPrefixOf k)).reverse := by
  simp only [scan, ↓reduceIte]
  cases he : prefixEnd qp with
  | none =>
    simp only
    rw [takeWhile_eq_filter_desc, List.filter_reverse]
    · rw [List.pairwise_reverse]; exact hs
    · intro k hk hP
      exact hlow k (List.mem_reverse.1 hk) hP (fun e h => by rw [he] at h; cases h)
  | some e =>
    simp only
    rw [takeWhile_eq_filter_desc]
    · rw [List.filter_reverse, List.filter_filter]
      congr 1
      apply List.filter_congr
      intro k _
      cases hP : qp.isPrefixOf k with
      | false => rfl
      | true => simp [blt_prefixEnd_of_isPrefixOf he hP]
    · rw [List.pairwise_reverse]
      exact List.Pairwise.filter _ hs
    · intro k hk hP
      have hm := List.mem_filter.1 (List.mem_reverse.1 hk)
      exact hlow k hm.1 hP (fun e' h => by rw [he] at h; cases h; exact hm.2)

/-- the reverse scan visits exactly the keys with the prefix, in descending order; the keys
only have to consist of bytes — a 0xFF byte right after the prefix is no exception -/
theorem scan_reverse (keys : List Bytes) (qp : Bytes) (hs : keys.Pairwise (fun a b => blt a b = true))
    (hb : ∀ k ∈ keys, ∀ c ∈ k, c ≤ 255) :
    scan keys qp true = (keys.filter (fun k => qp.isPrefixOf k)).reverse := by
  apply scan_reverse_of_low keys qp hs
  intro k hk hP hlt
  cases he : prefixEnd qp with
  | none => exact blt_of_prefixEnd_none he hP (hb k hk)
  | some e => exact blt_of_blt_prefixEnd he (hlt e he) hP (hb k hk)

/-! ## decoding an index key -/

theorem lastNul_go_noNul (l : Bytes) (h : ∀ c ∈ l, c ≠ 0) (i : Nat) (acc : Option Nat) :
    lastNul.go l i acc = acc := by
  induction l generalizing i acc with
  | nil => rfl
  | cons c r ih =>
    simp only [lastNul.go]
    rw [ih (fun x hx => h x (by simp [hx]))]
    simp [h c (by simp)]

theorem lastNul_go_append (a id : Bytes) (h : ∀ c ∈ id, c ≠ 0) (i : Nat) (acc : Option Nat) :
    lastNul.go (a ++ 0 :: id) i acc = some (i + a.length) := by
  induction a generalizing i acc with
  | nil => simp [lastNul.go, lastNul_go_noNul id h]
  | cons c r ih =>
    simp only [List.cons_append, lastNul.go, ih, List.length_cons]
    congr 1; omega

theorem lastNul_getKey (name key id : Bytes) (h : ∀ c ∈ id, c ≠ 0) :
    lastNul (getKey name key id) = some (name.length + 1 + key.length) := by
  unfold lastNul getKey
  rw [lastNul_go_append _ _ h]
  simp; omega

theorem getKey_take_drop (name key id : Bytes) :
    ((getKey name key id).take (name.length + 1 + key.length)).drop (name.length + 1) = key := by
  have : getKey name key id = (name ++ [58]) ++ key ++ 0 :: id := by simp [getKey]
  rw [this, List.take_left' (by simp; omega), List.drop_left' (by simp)]

theorem getKey_drop (name key id : Bytes) :
    (getKey name key id).drop (name.length + 1 + key.length + 1) = id := by
  have : getKey name key id = (name ++ [58] ++ key ++ [0]) ++ id := by simp [getKey]
  rw [this, List.drop_left' (by simp; omega)]

theorem getQuery_prefix_getKey_iff (name pre key id : Bytes) :
    (getQuery name pre).isPrefixOf (getKey name key id) = pre.isPrefixOf (key ++ 0 :: id) := by
  rw [Bool.eq_iff_iff, List.isPrefixOf_iff_prefix, List.isPrefixOf_iff_prefix]
  simp only [getQuery, getKey, List.append_assoc, List.cons_append]
  rw [List.prefix_append_right_inj, List.prefix_cons_inj]

/-- for a key under the query prefix, the length test of `FetchCollection` is the prefix test on the key -/
theorem qplen_test (name pre key id : Bytes) (h : pre.isPrefixOf (key ++ 0 :: id) = true) :
    decide ((getQuery name pre).length > name.length + 1 + key.length) = !pre.isPrefixOf key := by
  rw [Bool.eq_iff_iff]
  simp only [getQuery, List.length_append, List.length_cons, gt_iff_lt, decide_eq_true_eq,
    Bool.not_eq_true', ← Bool.not_eq_true, List.isPrefixOf_iff_prefix]
  rw [List.isPrefixOf_iff_prefix] at h
  constructor
  · intro hlt hp
    have := hp.length_le
    omega
  · intro hnp
    by_cases hle : pre.length ≤ key.length
    · exact absurd (List.prefix_of_prefix_length_le h (List.prefix_append _ _) hle) hnp
    · omega


/-! ## the loop of `FetchCollection` -/

theorem collect_map (name pre : Bytes) (filter : Bytes → Bool) (L : List (Bytes × Bytes))
    (hL : ∀ e ∈ L, (∀ c ∈ e.2, c ≠ 0) ∧ (getQuery name pre).isPrefixOf (getKey name e.1 e.2) = true)
    (offset limit : Int) (hl : 0 < limit) (acc : List Bytes) :
    collect name (getQuery name pre).length filter (L.map (fun e => getKey name e.1 e.2)) offset limit acc
      = some (acc ++ (((L.filter (hit pre filter)).drop offset.toNat).take limit.toNat).map (·.2)) := by
  induction L generalizing offset limit acc with
  | nil => simp [collect]
  | cons e r ih =>
    have hr : ∀ e ∈ r, (∀ c ∈ e.2, c ≠ 0) ∧ (getQuery name pre).isPrefixOf (getKey name e.1 e.2) = true :=
      fun e' h' => hL e' (by simp [h'])
    obtain ⟨hnul, hpre⟩ := hL e (by simp)
    rw [getQuery_prefix_getKey_iff] at hpre
    have hq := qplen_test name pre e.1 e.2 hpre
    simp only [List.map_cons, collect, lastNul_getKey name e.1 e.2 hnul, getKey_take_drop, getKey_drop]
    rw [List.filter_cons]
    by_cases hp : pre.isPrefixOf e.1 = true
    · have hq' : ¬ (getQuery name pre).length > name.length + 1 + e.1.length := by
        simpa [hp] using hq
      simp only [hq', ↓reduceIte]
      by_cases hf : filter e.1 = true
      · simp only [hf, Bool.not_true, Bool.false_eq_true, ↓reduceIte, hit, hp, Bool.and_self]
        by_cases ho : offset > 0
        · simp only [ho, ↓reduceIte]
          rw [ih hr _ _ hl]
          have : offset.toNat = (offset - 1).toNat + 1 := by omega
          rw [this, List.drop_succ_cons]
        · simp only [ho, ↓reduceIte]
          have : offset.toNat = 0 := by omega
          rw [this, List.drop_zero]
          by_cases h1 : limit - 1 = 0
          · simp only [h1, ↓reduceIte]
            have : limit.toNat = 1 := by omega
            simp [this]
          · simp only [h1, ↓reduceIte]
            rw [ih hr _ _ (by omega)]
            have : limit.toNat = (limit - 1).toNat + 1 := by omega
            rw [this, List.take_succ_cons, List.map_cons]
            have : offset.toNat = 0 := by omega
            simp [this]
      · simp only [hf, Bool.not_false, ↓reduceIte, hit, hp, Bool.and_false, Bool.false_eq_true]
        rw [ih hr _ _ hl]
    · have hq' : (getQuery name pre).length > name.length + 1 + e.1.length := by
        simpa [hp] using hq
      simp only [hq', ↓reduceIte, hit, hp, Bool.false_and, Bool.false_eq_true]
      rw [ih hr _ _ hl]


/-! ## the index keys in database order are the sorted entries -/

theorem sorted_ext {l1 l2 : List Bytes} (h1 : l1.Pairwise (fun a b => blt a b = true))
    (h2 : l2.Pairwise (fun a b => blt a b = true)) (h : ∀ x, x ∈ l1 ↔ x ∈ l2) : l1 = l2 := by
  induction l1 generalizing l2 with
  | nil =>
    cases l2 with
    | nil => rfl
    | cons b r => exact absurd ((h b).2 (by simp)) (by simp)
  | cons a r ih =>
    cases l2 with
    | nil => exact absurd ((h a).1 (by simp)) (by simp)
    | cons b r' =>
      rw [List.pairwise_cons] at h1 h2
      have hab : a = b := by
        rcases List.mem_cons.1 ((h a).1 (by simp)) with e | ha
        · exact e
        · rcases List.mem_cons.1 ((h b).2 (by simp)) with e | hb
          · exact e.symm
          · have := blt_asymm (h1.1 b hb)
            rw [h2.1 a ha] at this; cases this
      subst hab
      congr 1
      apply ih h1.2 h2.2
      intro x
      constructor
      · intro hx
        rcases List.mem_cons.1 ((h x).1 (by simp [hx])) with e | hx'
        · subst e; have := h1.1 x hx; rw [blt_irrefl] at this; cases this
        · exact hx'
      · intro hx
        rcases List.mem_cons.1 ((h x).2 (by simp [hx])) with e | hx'
        · subst e; have := h2.1 x hx; rw [blt_irrefl] at this; cases this
        · exact hx'

theorem blt_getKey (name : Bytes) (a b : Bytes × Bytes) (ha : ∀ c ∈ a.1, c ≠ 0) (hb : ∀ c ∈ b.1, c ≠ 0)
    (hle : pairLe a b = true) (hne : a ≠ b) : blt (getKey name a.1 a.2) (getKey name b.1 b.2) = true := by
  rw [blt_iff]
  constructor
  · have : ∀ e : Bytes × Bytes, getKey name e.1 e.2 = name ++ [58] ++ (e.1 ++ 0 :: e.2) := by
      intro e; simp [getKey]
    rw [this a, this b, ble_append_left, sep_ble ha hb]
    exact hle
  · intro heq
    have := getKey_inj ha hb heq
    exact hne (Prod.ext this.1 this.2)

theorem index_keys_eq (keys : List Bytes) (name : Bytes) (entries : List (Bytes × Bytes))
    (hs : keys.Pairwise (fun a b => blt a b = true))
    (hh : ∀ k, (k ∈ keys ∧ (getQuery name []).isPrefixOf k = true) ↔ ∃ e ∈ entries, k = getKey name e.1 e.2)
    (hn : ∀ e ∈ entries, ∀ c ∈ e.1, c ≠ 0) (hd : entries.Nodup) :
    keys.filter (fun k => (getQuery name []).isPrefixOf k) =
      (sortPairs entries).map (fun e => getKey name e.1 e.2) := by
  apply sorted_ext (List.Pairwise.filter _ hs)
  · rw [List.pairwise_map]
    have hnd : (sortPairs entries).Nodup := (sortPairs_perm entries).nodup_iff.2 hd
    have := List.Pairwise.and (sortPairs_sorted entries) (List.nodup_iff_pairwise_ne.1 hnd)
    refine List.Pairwise.imp_of_mem ?_ this
    intro a b ha hb hab
    exact blt_getKey name a b (hn a (mem_sortPairs.1 ha)) (hn b (mem_sortPairs.1 hb)) hab.1 hab.2
  · intro k
    rw [List.mem_filter, hh k, List.mem_map]
    constructor
    · rintro ⟨e, he, rfl⟩; exact ⟨e, mem_sortPairs.2 he, rfl⟩
    · rintro ⟨e, he, rfl⟩; exact ⟨e, mem_sortPairs.1 he, rfl⟩

theorem getQuery_nil_prefix (name pre k : Bytes) (h : (getQuery name pre).isPrefixOf k = true) :
    (getQuery name []).isPrefixOf k = true := by
  rw [List.isPrefixOf_iff_prefix] at *
  refine List.IsPrefix.trans ?_ h
  exact ⟨pre, by simp [getQuery]⟩

/-- the keys under the query prefix, in database order -/
theorem query_keys_eq (keys : List Bytes) (name pre : Bytes) (entries : List (Bytes × Bytes))
    (hs : keys.Pairwise (fun a b => blt a b = true))
    (hh : ∀ k, (k ∈ keys ∧ (getQuery name []).isPrefixOf k = true) ↔ ∃ e ∈ entries, k = getKey name e.1 e.2)
    (hn : ∀ e ∈ entries, ∀ c ∈ e.1, c ≠ 0) (hd : entries.Nodup) :
    keys.filter (fun k => (getQuery name pre).isPrefixOf k) =
      ((sortPairs entries).filter (fun e => (getQuery name pre).isPrefixOf (getKey name e.1 e.2))).map
        (fun e => getKey name e.1 e.2) := by
  have h1 : keys.filter (fun k => (getQuery name pre).isPrefixOf k) =
      (keys.filter (fun k => (getQuery name []).isPrefixOf k)).filter (fun k => (getQuery name pre).isPrefixOf k) := by
    rw [List.filter_filter]
    apply List.filter_congr
    intro k _
    cases h : (getQuery name pre).isPrefixOf k with
    | false => rfl
    | true => simp [getQuery_nil_prefix name pre k h]
  rw [h1, index_keys_eq keys name entries hs hh hn hd, List.filter_map]
  rfl


theorem hit_imp_prefix (name pre : Bytes) (filter : Bytes → Bool) (e : Bytes × Bytes) (h : hit pre filter e = true) :
    (getQuery name pre).isPrefixOf (getKey name e.1 e.2) = true := by
  rw [getQuery_prefix_getKey_iff]
  simp only [hit, Bool.and_eq_true] at h
  rw [List.isPrefixOf_iff_prefix] at *
  exact List.IsPrefix.trans h.1 (List.prefix_append _ _)

/-- a query prefix ends in its last byte other than 0xFF at the `:` or later -/
theorem getQuery_cut {name pre q t : Bytes} {c : Nat} (h : getQuery name pre = q ++ c :: t)
    (ht : ∀ x ∈ t, x = 255) : ∃ u, q ++ [c] = name ++ 58 :: u := by
  unfold getQuery at h
  rcases List.append_eq_append_iff.1 h with ⟨a, h1, h2⟩ | ⟨a, h1, h2⟩
  · cases a with
    | nil =>
      simp only [List.nil_append, List.cons.injEq] at h2
      exact ⟨[], by simp [h1, h2.1]⟩
    | cons y a =>
      simp only [List.cons_append, List.cons.injEq] at h2
      exact ⟨a ++ [c], by simp [h1, h2.1]⟩
  · cases a with
    | nil =>
      simp only [List.nil_append, List.cons.injEq] at h2
      exact ⟨[], by simp [h1, h2.1]⟩
    | cons y a =>
      simp only [List.cons_append, List.cons.injEq] at h2
      have := ht 58 (by rw [h2.2]; simp)
      cases this

/-- `fetch` in terms of the sorted entries, for a usable limit; keys and ids only have to
consist of bytes -/
theorem fetch_eq (keys : List Bytes) (name pre : Bytes) (entries : List (Bytes × Bytes))
    (filter : Bytes → Bool) (offset limit : Int) (reverse : Bool)
    (hs : keys.Pairwise (fun a b => blt a b = true))
    (hh : ∀ k, (k ∈ keys ∧ (getQuery name []).isPrefixOf k = true) ↔ ∃ e ∈ entries, k = getKey name e.1 e.2)
    (hn : ∀ e ∈ entries, (∀ c ∈ e.1, c ≠ 0) ∧ (∀ c ∈ e.2, c ≠ 0))
    (hd : entries.Nodup)
    (hbytes : reverse = true → ∀ e ∈ entries, ∀ c ∈ e.1 ++ e.2, c ≤ 255)
    (hl : 0 < limit) :
    collect name (getQuery name pre).length filter (scan keys (getQuery name pre) reverse) offset limit [] =
      some ((((if reverse then ((sortPairs entries).filter (hit pre filter)).reverse
                else (sortPairs entries).filter (hit pre filter)).drop offset.toNat).take limit.toNat).map (·.2)) := by
  have hq := query_keys_eq keys name pre entries hs hh (fun e he => (hn e he).1) hd
  -- the entries under the query prefix, in order
  have hmemL : ∀ e ∈ (sortPairs entries).filter (fun e => (getQuery name pre).isPrefixOf (getKey name e.1 e.2)),
      (∀ c ∈ e.2, c ≠ 0) ∧ (getQuery name pre).isPrefixOf (getKey name e.1 e.2) = true := by
    intro e he
    have := List.mem_filter.1 he
    exact ⟨(hn e (mem_sortPairs.1 this.1)).2, this.2⟩
  have hfilt : ((sortPairs entries).filter (fun e => (getQuery name pre).isPrefixOf (getKey name e.1 e.2))).filter
      (hit pre filter) = (sortPairs entries).filter (hit pre filter) := by
    rw [List.filter_filter]
    apply List.filter_congr
    intro e _
    cases h : hit pre filter e with
    | false => rfl
    | true => simp [hit_imp_prefix name pre filter e h]
  cases reverse with
  | false =>
    rw [scan_forward keys _ hs, hq, collect_map name pre filter _ hmemL offset limit hl, hfilt]
    simp
  | true =>
    rw [scan_reverse_of_low keys _ hs, hq, ← List.map_reverse,
      collect_map name pre filter _ (fun e he => hmemL e (List.mem_reverse.1 he)) offset limit hl,
      List.filter_reverse, hfilt]
    · simp
    · intro k hk hP hlt
      cases he : prefixEnd (getQuery name pre) with
      | none =>
        have := prefixEnd_none he 58 (by simp [getQuery])
        cases this
      | some e =>
        obtain ⟨q, c, t, hqp, ht, -, rfl⟩ := prefixEnd_some he
        obtain ⟨u, hu⟩ := getQuery_cut hqp ht
        rw [hqp] at hP ⊢
        apply blt_of_blt_end ht (hlt _ he) hP
        intro hqc x hx
        -- such a key lies in the range of the index: it is the key of an entry
        have hpre : (getQuery name []).isPrefixOf k = true := by
          rw [List.isPrefixOf_iff_prefix] at hqc ⊢
          refine List.IsPrefix.trans ?_ hqc
          exact ⟨u, by simp [getQuery, hu]⟩
        obtain ⟨e, he', rfl⟩ := (hh k).1 ⟨hk, hpre⟩
        have h1 : getKey name e.1 e.2 = (name ++ [58]) ++ (e.1 ++ 0 :: e.2) := by simp [getKey]
        have h2 : q.length + 1 = (name ++ [58]).length + u.length := by
          have := congrArg List.length hu
          simp only [List.length_append, List.length_cons, List.length_nil] at this ⊢
          omega
        rw [h1, h2, ← List.drop_drop, List.drop_left] at hx
        have hx' := List.mem_of_mem_drop hx
        rcases List.mem_append.1 hx' with hx' | hx'
        · exact hbytes rfl e he' x (by simp [hx'])
        · rcases List.mem_cons.1 hx' with rfl | hx'
          · omega
          · exact hbytes rfl e he' x (by simp [hx'])

theorem collect_length_le (name : Bytes) (qplen : Nat) (filter : Bytes → Bool) (l : List Bytes)
    (offset limit : Int) (hl : 0 < limit) (acc r : List Bytes)
    (h : collect name qplen filter l offset limit acc = some r) : (r.length : Int) ≤ acc.length + limit := by
  induction l generalizing offset limit acc with
  | nil =>
    simp only [collect, Option.some.injEq] at h
    subst h; omega
  | cons k rest ih =>
    simp only [collect] at h
    split at h
    · cases h
    · split at h
      · exact ih _ _ hl _ h
      · split at h
        · exact ih _ _ hl _ h
        · split at h
          · exact ih _ _ hl _ h
          · split at h
            · simp only [Option.some.injEq] at h
              subst h
              simp only [List.length_append, List.length_cons, List.length_nil]
              omega
            · have := ih _ _ (by omega) _ h
              simp only [List.length_append, List.length_cons, List.length_nil] at this
              omega

end GoRes.Index
