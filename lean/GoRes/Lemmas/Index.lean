import GoRes.Model.Index
/-! Helper lemmas for the index model (C13, C14, C12). -/
namespace GoRes.Index

end GoRes.Index
