import GoRes.Model.Req
/-! Helper lemmas for the request model (C04, C05, C07, C08). -/
namespace GoRes.Req
open GoRes

end GoRes.Req
