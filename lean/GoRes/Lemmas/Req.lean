import GoRes.Model.Req
/-! Helper lemmas for the request model (C04, C05, C07, C08). -/
namespace GoRes.Req
open GoRes

/-! ## byte-level facts -/
@[simp] theorem isPre_obj (ms : List (Str × Str)) : isPre (obj ms) = false := by
  simp [isPre, obj, List.isPrefixOf]
@[simp] theorem isPre_withMeta (ms : List (Str × Str)) (m : Option Str) : isPre (withMeta ms m) = false := by
  simp [withMeta]
@[simp] theorem isPre_respError (c msg : Str) (m : Option Str) : isPre (respError c msg m) = false := by
  simp [respError]
@[simp] theorem isPre_respResult (v : Str) (m : Option Str) : isPre (respResult v m) = false := by
  simp [respResult]
@[simp] theorem isPre_missing : isPre missingResponse = false := by simp [missingResponse]
@[simp] theorem isPre_timeout (x : Str) : isPre (b!"timeout:\"" ++ x) = true := by
  simp [isPre, List.isPrefixOf]
@[simp] theorem evSubj_ne_reply (r : ReqIn) (n : Str) : evSubj r n ≠ replySubj := by
  simp [evSubj, replySubj]
@[simp] theorem conn_ne_reply (c : Str) : b!"conn." ++ c ++ b!".token" ≠ replySubj := by
  simp [replySubj]

/-! ## state algebra -/
theorem emit_eq_addAll (s : St) (e : Eff) : emit s e = addAll s [e] := rfl
@[simp] theorem addAll_addAll (s : St) (a b : List Eff) : addAll (addAll s a) b = addAll s (a ++ b) := by
  simp [addAll]
theorem addAll_nil (s : St) : addAll s [] = s := by simp [addAll]
@[simp] theorem addAll_effs (s : St) (a : List Eff) : (addAll s a).effs = s.effs ++ a := rfl
@[simp] theorem addAll_replied (s : St) (a : List Eff) : (addAll s a).replied = s.replied := rfl
@[simp] theorem addAll_mt (s : St) (a : List Eff) : (addAll s a).mt = s.mt := rfl
theorem ite_addAll (c : Prop) [Decidable c] (s : St) (x : List Eff) :
    (if c then s else addAll s x) = addAll s (if c then [] else x) := by
  split <;> simp [addAll_nil]
theorem svcEvent_none (s : St) (subj : Str) : svcEvent s subj none = addAll s [.pub subj []] := rfl
theorem svcEvent_some (s : St) (subj : Str) (v : JV) :
    svcEvent s subj (some v) = addAll s (if v.ok then [.pub subj v.text] else []) := by
  simp only [svcEvent]; split <;> simp [emit_eq_addAll, addAll_nil]
theorem svcEvent_eq (s : St) (subj : Str) (p : Option JV) :
    svcEvent s subj p = addAll s (match p with
      | none => [.pub subj []] | some v => if v.ok then [.pub subj v.text] else []) := by
  cases p <;> simp [svcEvent_none, svcEvent_some]

@[simp] theorem stepSt_cont (s : St) : stepSt (.cont s) = s := rfl
@[simp] theorem stepSt_panic (s : St) (p : PanicV) : stepSt (.panic s p) = s := rfl
@[simp] theorem stepSt_strPanic (s : St) (w : String) : stepSt (strPanic s w) = s := rfl

/-! ## what one step can do -/

/-- structure of a response payload; `m0` is the meta object it may carry -/
inductive RespShape (m0 : Option Str) : Str → Prop
  | result (v : Str) (m : Option Str) : (m = none ∨ m = m0) → RespShape m0 (withMeta [(b!"result", v)] m)
  | resource (rid : Str) (m : Option Str) : (m = none ∨ m = m0) → isValidRIDB rid = true →
      RespShape m0 (withMeta [(b!"resource", refObj rid)] m)
  | error (c msg : Str) (m : Option Str) : (m = none ∨ m = m0) → RespShape m0 (withMeta [(b!"error", errObj c msg)] m)

theorem RespShape.isPre {m0 : Option Str} {p : Str} (h : RespShape m0 p) : isPre p = false := by
  cases h <;> simp

/-- an effect that is not a response -/
inductive Aux (r : ReqIn) : Eff → Prop
  | apply (k : String) : Aux r (.apply k)
  | listener (i : Nat) (n : Str) : Aux r (.listener i n)
  | ev (name payload : Str) :
      (name ∈ [b!"change", b!"add", b!"remove", b!"create", b!"delete", b!"reaccess"] ∨
        (isValidPartB name = true ∧ name ∉ reserved)) → Aux r (.pub (evSubj r name) payload)
  | tok (payload : Str) : Aux r (.pub (b!"conn." ++ r.cid ++ b!".token") payload)
  | pre (ms : Int) : 0 ≤ ms → Aux r (.pub replySubj (b!"timeout:\"" ++ intText ms ++ [34]))

def AllAux (r : ReqIn) (es : List Eff) : Prop := ∀ e ∈ es, Aux r e

@[simp] theorem allAux_nil (r : ReqIn) : AllAux r [] := by simp [AllAux]
@[simp] theorem allAux_cons (r : ReqIn) (e : Eff) (es : List Eff) : AllAux r (e :: es) ↔ Aux r e ∧ AllAux r es := by
  simp [AllAux]
@[simp] theorem allAux_append (r : ReqIn) (a b : List Eff) : AllAux r (a ++ b) ↔ AllAux r a ∧ AllAux r b := by
  simp only [AllAux, List.mem_append]
  constructor
  · intro h; exact ⟨fun e he => h e (Or.inl he), fun e he => h e (Or.inr he)⟩
  · rintro ⟨h1, h2⟩ e (he | he)
    · exact h1 e he
    · exact h2 e he
@[simp] theorem allAux_ite (r : ReqIn) (c : Prop) [Decidable c] (a b : List Eff) :
    AllAux r (if c then a else b) ↔ (c → AllAux r a) ∧ (¬ c → AllAux r b) := by
  split <;> simp [*]
@[simp] theorem allAux_listeners (r : ReqIn) (cfg : HCfg) (n : Str) : AllAux r (listenersOf cfg n) := by
  simp only [AllAux, listenersOf, List.mem_map]
  rintro e ⟨i, _, rfl⟩; exact .listener i n

/-- the possible effects of one step on the state -/
inductive Next (r : ReqIn) (s : St) : St → Prop
  | same : Next r s s
  | reply (p : Str) : s.replied = false → RespShape (metaOf s) p →
      Next r s { s with replied := true, effs := s.effs ++ [.pub replySubj p] }
  | aux (es : List Eff) : AllAux r es → Next r s (addAll s es)
  | setMeta (mt : Meta) : r.isHTTP = true → s.replied = false → Next r s { s with mt := mt }

theorem next_reply (r : ReqIn) (s : St) (p : Str) (h : RespShape (metaOf s) p) : Next r s (stepSt (reply s p)) := by
  unfold reply
  by_cases hr : s.replied = true
  · simp [hr]; exact .same
  · simp [hr]; exact .reply p (by simpa using hr) h

theorem next_success (r : ReqIn) (s : St) (v : JV) (m : Option Str) (hm : m = none ∨ m = metaOf s) :
    Next r s (stepSt (success s v m)) := by
  unfold success
  split
  · exact next_reply _ _ _ (.result _ _ hm)
  · exact next_reply _ _ _ (.error _ _ _ (Or.inl rfl))


@[simp] theorem aux_apply (r : ReqIn) (k : String) : Aux r (.apply k) := .apply k
@[simp] theorem aux_tok (r : ReqIn) (p : Str) : Aux r (.pub (b!"conn." ++ r.cid ++ b!".token") p) := .tok p
@[simp] theorem aux_ev_std (r : ReqIn) (name p : Str)
    (h : name ∈ [b!"change", b!"add", b!"remove", b!"create", b!"delete", b!"reaccess"]) :
    Aux r (.pub (evSubj r name) p) := .ev _ _ (Or.inl h)

theorem reserved_contains_false {name : Str} (h : reserved.contains name = false) : name ∉ reserved := by
  simpa using h

theorem act_next (cfg : HCfg) (r : ReqIn) (s : St) (a : Action) : Next r s (stepSt (act cfg r s a)) := by
  cases a with
  | ok v =>
    simp only [act]
    cases v with
    | none =>
      cases hm : metaOf s with
      | none => exact next_reply _ _ _ (.result _ _ (Or.inl rfl))
      | some m => exact next_success _ _ _ _ (Or.inr hm.symm)
    | some v => exact next_success _ _ _ _ (Or.inr rfl)
  | resource rid =>
    simp only [act]
    split
    · exact .same
    · exact next_reply _ _ _ (.resource _ _ (Or.inr rfl) (by rename_i h; simpa using h))
  | error e => cases e <;> first | exact next_reply _ _ _ (.error _ _ _ (Or.inr rfl)) | exact next_reply _ _ _ (.error _ _ _ (Or.inl rfl))
  | notFound => exact next_reply _ _ _ (.error _ _ _ (Or.inr rfl))
  | methodNotFound => exact next_reply _ _ _ (.error _ _ _ (Or.inr rfl))
  | invalidParams msg => exact next_reply _ _ _ (.error _ _ _ (Or.inr rfl))
  | invalidQuery msg => exact next_reply _ _ _ (.error _ _ _ (Or.inr rfl))
  | accessDenied => exact next_reply _ _ _ (.error _ _ _ (Or.inr rfl))
  | accessGranted => exact next_reply _ _ _ (.result _ _ (Or.inr rfl))
  | access get call =>
    simp only [act]
    split
    · exact next_reply _ _ _ (.error _ _ _ (Or.inr rfl))
    · exact next_reply _ _ _ (.result _ _ (Or.inr rfl))
  | model v query =>
    simp only [act]
    split
    · exact next_reply _ _ _ (.result _ _ (Or.inl rfl))
    · exact next_reply _ _ _ (.error _ _ _ (Or.inl rfl))
  | collection v query =>
    simp only [act]
    split
    · exact next_reply _ _ _ (.result _ _ (Or.inl rfl))
    · exact next_reply _ _ _ (.error _ _ _ (Or.inl rfl))
  | new rid =>
    simp only [act]
    split
    · exact .same
    · exact next_reply _ _ _ (.result _ _ (Or.inl rfl))
  | timeout ms =>
    simp only [act]
    split
    · exact .same
    · exact .aux [_] (by simp; exact .pre _ (by omega))
  | change props =>
    simp only [act, emit_eq_addAll, ite_addAll, svcEvent_some, addAll_addAll]
    split
    · exact .same
    split
    · exact .same
    split <;> simp only [stepSt_cont, stepSt_panic] <;> refine .aux _ ?_ <;>
      simp
  | add v idx =>
    simp only [act, emit_eq_addAll, ite_addAll, svcEvent_some, addAll_addAll]
    split
    · exact .same
    split
    · exact .same
    split <;> simp only [stepSt_cont, stepSt_panic] <;> refine .aux _ ?_ <;>
      simp
  | remove idx =>
    simp only [act, emit_eq_addAll, ite_addAll, svcEvent_some, addAll_addAll]
    split
    · exact .same
    split
    · exact .same
    split <;> simp only [stepSt_cont, stepSt_panic] <;> refine .aux _ ?_ <;>
      simp
  | create v =>
    simp only [act, emit_eq_addAll, ite_addAll, svcEvent_none, addAll_addAll]
    split <;> simp only [stepSt_cont, stepSt_panic] <;> refine .aux _ ?_ <;>
      simp
  | delete =>
    simp only [act, emit_eq_addAll, ite_addAll, svcEvent_none, addAll_addAll]
    split <;> simp only [stepSt_cont, stepSt_panic] <;> refine .aux _ ?_ <;>
      simp
  | custom name payload =>
    simp only [act, svcEvent_eq, addAll_addAll]
    split
    · exact .same
    split
    · exact .same
    rename_i h1 h2
    refine .aux _ ?_
    have h3 : ∀ x, Aux r (.pub (evSubj r name) x) := fun x =>
      .ev _ _ (Or.inr ⟨by simpa using h2, by simpa using h1⟩)
    cases payload <;> simp [h3]
  | reaccess => exact .aux [_] (by simp)
  | tokenEvent v =>
    simp only [act, svcEvent_some, stepSt_cont]
    refine .aux _ ?_
    simp only [allAux_ite, allAux_cons, allAux_nil, and_true, implies_true]
    intro _; exact .tok _
  | setStatus code =>
    simp only [act]
    split
    · exact .same
    split
    · exact .same
    exact .setMeta _ (by rename_i h _; simpa using h) (by rename_i h; simpa using h)
  | header k v =>
    simp only [act]
    split
    · exact .same
    split
    · exact .same
    exact .setMeta _ (by rename_i h _; simpa using h) (by rename_i h; simpa using h)
  | panic p => exact .same
  | parseParams b =>
    simp only [act]
    split
    · exact .same
    · split <;> exact .same


/-! ## scripts -/
theorem runScript_ind (cfg : HCfg) (r : ReqIn) (P : St → Prop)
    (hstep : ∀ s a, P s → P (stepSt (act cfg r s a))) (script : List Action) :
    ∀ s, P s → P (stepSt (runScript cfg r s script)) := by
  induction script with
  | nil => intro s h; exact h
  | cons a as ih =>
    intro s h
    have h1 := hstep s a h
    simp only [runScript]
    cases hs : act cfg r s a with
    | cont s' => rw [hs] at h1; exact ih s' h1
    | panic s' p => rw [hs] at h1; exact h1

theorem runScript_next (cfg : HCfg) (r : ReqIn) (P : St → Prop)
    (hstep : ∀ s s', Next r s s' → P s → P s') (script : List Action) (s : St) (h : P s) :
    P (stepSt (runScript cfg r s script)) :=
  runScript_ind cfg r P (fun s a hs => hstep s _ (act_next cfg r s a) hs) script s h

/-! ## responses -/
theorem responses_append (a b : List Eff) : responses (a ++ b) = responses a ++ responses b := by
  simp [responses]
theorem responses_reply (p : Str) (h : isPre p = false) : responses [.pub replySubj p] = [p] := by
  simp [responses, h]
theorem Aux.not_response {r : ReqIn} {e : Eff} (h : Aux r e) : responses [e] = [] := by
  cases h <;> simp [responses, replySubj, isPre, List.isPrefixOf, evSubj]
theorem responses_allAux {r : ReqIn} {es : List Eff} (h : AllAux r es) : responses es = [] := by
  induction es with
  | nil => rfl
  | cons e es ih =>
    rw [allAux_cons] at h
    rw [← List.singleton_append, responses_append, h.1.not_response, ih h.2]; rfl

/-- the reply invariant -/
def ReplyInv (s : St) : Prop := (responses s.effs).length = if s.replied then 1 else 0

theorem Next.inv {r : ReqIn} {s s' : St} (h : Next r s s') (hi : ReplyInv s) : ReplyInv s' := by
  cases h with
  | same => exact hi
  | reply p hr hp =>
    simp only [ReplyInv, responses_append, responses_reply p hp.isPre, hr] at hi ⊢
    simp [hi]
  | aux es hes =>
    show (responses (s.effs ++ es)).length = if s.replied then 1 else 0
    rw [responses_append, responses_allAux hes, List.append_nil]; exact hi
  | setMeta mt _ _ => exact hi

theorem Next.after_reply {r : ReqIn} {s s' : St} (h : Next r s s') (hr : s.replied = true) :
    responses s'.effs = responses s.effs ∧ s'.replied = true := by
  cases h with
  | same => exact ⟨rfl, hr⟩
  | reply p hr' hp => simp [hr] at hr'
  | aux es hes => simp [responses_append, responses_allAux hes, hr]
  | setMeta mt _ hr' => simp [hr] at hr'

theorem Next.extends {r : ReqIn} {s s' : St} (h : Next r s s') : ∃ d, s'.effs = s.effs ++ d := by
  cases h with
  | same => exact ⟨[], by simp⟩
  | reply p hr' hp => exact ⟨_, rfl⟩
  | aux es hes => exact ⟨_, rfl⟩
  | setMeta mt _ hr' => exact ⟨[], by simp⟩

theorem Next.meta_http {r : ReqIn} {s s' : St} (h : Next r s s') (hh : r.isHTTP = false) : s'.mt = s.mt := by
  cases h with
  | same => rfl
  | reply p hr' hp => rfl
  | aux es hes => rfl
  | setMeta mt h' hr' => simp [hh] at h'

/-! ## `process` -/
/-- the request as the handler sees it: an empty payload leaves the fields at their zero value -/
def normReq (r : ReqIn) : ReqIn :=
  if r.payload = .empty then { r with cid := [], isHTTP := false, rawParams := none, token := none, query := [] } else r

/-- end of `executeHandler` -/
def finish : Step → List Eff
  | .cont s => if s.replied then s.effs else s.effs ++ [.pub replySubj missingResponse]
  | .panic s p => (recoverArm s p).effs

def seen0 (kind : String) (r : ReqIn) : St := { effs := [.seen (encSeen kind r)] }

theorem process_eq (cfg : HCfg) (r : ReqIn) (script : List Action) :
    process cfg r script =
      if !r.found then [.pub replySubj (respError codeNotFound (b!"Not found") none)]
      else if r.payload = .bad then [.pub replySubj (respError codeInternal goErr none)]
      else match pick cfg (normReq r) with
        | .noReplyAtAll => []
        | .none => []
        | .reply p => [.pub replySubj p]
        | .invoke kind => finish (runScript cfg (normReq r) (seen0 kind (normReq r)) script) := by
  rfl

@[simp] theorem normReq_rtype (r : ReqIn) : (normReq r).rtype = r.rtype := by unfold normReq; split <;> rfl
@[simp] theorem normReq_rname (r : ReqIn) : (normReq r).rname = r.rname := by unfold normReq; split <;> rfl
@[simp] theorem normReq_method (r : ReqIn) : (normReq r).method = r.method := by unfold normReq; split <;> rfl
theorem normReq_ok (r : ReqIn) (h : r.payload = .ok) : normReq r = r := by simp [normReq, h]
theorem normReq_of_ne_empty (r : ReqIn) (h : r.payload ≠ .empty) : normReq r = r := by simp [normReq, h]
theorem normReq_isHTTP (r : ReqIn) (h : (normReq r).isHTTP = true) : r.isHTTP = true ∧ r.payload ≠ .empty := by
  unfold normReq at h; split at h
  · simp at h
  · exact ⟨h, ‹_›⟩

@[simp] theorem metaOf_seen0 (kind : String) (r : ReqIn) : metaOf (seen0 kind r) = none := by
  simp [metaOf, seen0, Meta.render]

theorem finish_cases (st : Step) :
    ((stepSt st).replied = true ∧ finish st = (stepSt st).effs) ∨
    ((stepSt st).replied = false ∧ ∃ p, RespShape (metaOf (stepSt st)) p ∧
      finish st = (stepSt st).effs ++ [.pub replySubj p]) := by
  cases st with
  | cont s =>
    by_cases hr : s.replied = true
    · left; simp [finish, hr]
    · right; simp only [finish, hr, stepSt_cont]
      exact ⟨by simp, _, .error _ _ _ (Or.inl rfl), rfl⟩
  | panic s p =>
    by_cases hr : s.replied = true
    · left; simp [finish, recoverArm, hr]
    · right; simp only [finish, recoverArm, hr, stepSt_panic]
      refine ⟨by simp, ?_⟩
      cases p with
      | err e => cases e <;> first | exact ⟨_, .error _ _ _ (Or.inr rfl), rfl⟩ | exact ⟨_, .error _ _ _ (Or.inl rfl), rfl⟩
      | lib => exact ⟨_, .error _ _ _ (Or.inr rfl), rfl⟩
      | str m => exact ⟨_, .error _ _ _ (Or.inr rfl), rfl⟩
      | other m => exact ⟨_, .error _ _ _ (Or.inr rfl), rfl⟩

theorem pick_spec (cfg : HCfg) (r : ReqIn) :
    (pick cfg r = .noReplyAtAll ∧ r.rtype = .access ∧ cfg.hasAccess = false) ∨
    (∃ c m, pick cfg r = .reply (respError c m none)) ∨ (∃ k, pick cfg r = .invoke k) := by
  unfold pick
  split
  · rename_i h; by_cases ha : cfg.hasAccess = true <;> simp [ha, h]
  · split <;> simp
    exact ⟨_, _, rfl⟩
  · split
    · simp
    split
    · simp
    split
    · simp
    · right; left; exact ⟨_, _, rfl⟩
  · split
    · simp
    split
    · simp
    · right; left; exact ⟨_, _, rfl⟩

/-- the three ways a request ends -/
theorem process_cases (cfg : HCfg) (r : ReqIn) (script : List Action) :
    (Unanswered cfg r ∧ process cfg r script = []) ∨
    (¬ Unanswered cfg r ∧ ∃ p, RespShape none p ∧ process cfg r script = [.pub replySubj p]) ∨
    (¬ Unanswered cfg r ∧ ∃ kind, r.found = true ∧ r.payload ≠ .bad ∧ pick cfg (normReq r) = .invoke kind ∧
      process cfg r script = finish (runScript cfg (normReq r) (seen0 kind (normReq r)) script)) := by
  by_cases hf : r.found = true
  · by_cases hb : r.payload = .bad
    · right; left
      exact ⟨by simp [Unanswered, hb], _, .error _ _ _ (Or.inl rfl), by simp [process_eq, hf, hb]; rfl⟩
    · have hp : process cfg r script = match pick cfg (normReq r) with
          | .noReplyAtAll => []
          | .none => []
          | .reply p => [.pub replySubj p]
          | .invoke kind => finish (runScript cfg (normReq r) (seen0 kind (normReq r)) script) := by
        rw [process_eq]; simp only [hf, hb, Bool.not_true, Bool.false_eq_true, if_false]
      rcases pick_spec cfg (normReq r) with ⟨h, h1, h2⟩ | ⟨c, m, h⟩ | ⟨k, h⟩
      · left; rw [h] at hp; exact ⟨⟨by simpa using h1, hf, hb, h2⟩, hp⟩
      · right; left; rw [h] at hp
        refine ⟨?_, _, .error _ _ _ (Or.inl rfl), hp⟩
        rintro ⟨h1, _, _, h2⟩
        simp [pick, h1, h2] at h
      · right; right
        refine ⟨?_, k, hf, hb, h, by rw [hp, h]⟩
        rintro ⟨h1, _, _, h2⟩
        simp [pick, h1, h2] at h
  · right; left
    exact ⟨by simp [Unanswered, hf], _, .error _ _ _ (Or.inl rfl), by simp [process_eq, hf]; rfl⟩

/-! ## subject splitting -/

theorem takeWhile_stop (p : Nat → Bool) (t x : Str) (d : Nat) (ht : ∀ c ∈ t, p c = true) (hd : p d = false) :
    (t ++ d :: x).takeWhile p = t := by
  induction t with
  | nil => simp [hd]
  | cons a t ih =>
    have h1 : p a = true := ht a (by simp)
    have h2 := ih (fun c hc => ht c (by simp [hc]))
    rw [List.cons_append, List.takeWhile_cons, h1, if_pos rfl, h2]

theorem splitSubject_plain (t rname : Str) (ht : ∀ c ∈ t, c ≠ 46) (h1 : t ≠ b!"call") (h2 : t ≠ b!"auth") :
    splitSubject (t ++ 46 :: rname) = some (t, rname, []) := by
  have e := takeWhile_stop (· ≠ 46) t rname 46 (by simpa using ht) (by simp)
  simp only [splitSubject]
  rw [e]
  simp [h1, h2]

theorem splitSubject_method (t rname m : Str) (ht : t = b!"call" ∨ t = b!"auth") (hm : ∀ c ∈ m, c ≠ 46) :
    splitSubject (t ++ 46 :: rname ++ 46 :: m) = some (t, rname, m) := by
  have ht' : ∀ c ∈ t, c ≠ 46 := by rcases ht with rfl | rfl <;> simp
  have e1 : t ++ 46 :: rname ++ 46 :: m = t ++ 46 :: (rname ++ 46 :: m) := by simp
  have e2 : (rname ++ 46 :: m).reverse = m.reverse ++ 46 :: rname.reverse := by simp
  have e3 := takeWhile_stop (· ≠ 46) t (rname ++ 46 :: m) 46 (by simpa using ht') (by simp)
  have e4 := takeWhile_stop (· ≠ 46) m.reverse rname.reverse 46 (by simpa using hm) (by simp)
  rw [e1]
  simp only [splitSubject]
  rw [e3]
  simp only [List.length_append, List.length_cons]
  have e5 : List.drop (t.length + 1) (t ++ 46 :: (rname ++ 46 :: m)) = rname ++ 46 :: m := by
    rw [List.drop_append]; simp
  rw [e5, e2, e4]
  have e6 : List.drop (m.reverse.length + 1) (m.reverse ++ 46 :: rname.reverse) = rname.reverse := by
    rw [List.drop_append]; simp
  rw [e6]
  simp [ht]
  omega

/-! ## `process` for an invoked handler -/
theorem process_invoke {cfg : HCfg} {r : ReqIn} {kind : String} (script : List Action)
    (hf : r.found = true) (hb : r.payload ≠ .bad) (hk : pick cfg (normReq r) = .invoke kind) :
    process cfg r script = finish (runScript cfg (normReq r) (seen0 kind (normReq r)) script) := by
  rw [process_eq]; simp only [hf, hb, Bool.not_true, Bool.false_eq_true, if_false, hk]

theorem runScript_extends (cfg : HCfg) (r : ReqIn) (s : St) (script : List Action) :
    ∃ d, (stepSt (runScript cfg r s script)).effs = s.effs ++ d := by
  refine runScript_next cfg r (fun s' => ∃ d, s'.effs = s.effs ++ d) ?_ script s ⟨[], by simp⟩
  rintro s1 s2 hn ⟨d, hd⟩
  obtain ⟨d', hd'⟩ := hn.extends
  exact ⟨d ++ d', by rw [hd', hd, List.append_assoc]⟩

theorem finish_extends (st : Step) : ∃ d, finish st = (stepSt st).effs ++ d := by
  rcases finish_cases st with ⟨_, h⟩ | ⟨_, p, _, h⟩
  · exact ⟨[], by simp [h]⟩
  · exact ⟨_, h⟩

theorem finish_replied {st : Step} (h : (stepSt st).replied = true) : finish st = (stepSt st).effs := by
  rcases finish_cases st with ⟨_, h'⟩ | ⟨h', _⟩
  · exact h'
  · simp [h] at h'

theorem runScript_after_reply (cfg : HCfg) (r : ReqIn) (s : St) (script : List Action) (hr : s.replied = true) :
    responses (stepSt (runScript cfg r s script)).effs = responses s.effs ∧
      (stepSt (runScript cfg r s script)).replied = true := by
  refine runScript_next cfg r (fun s' => responses s'.effs = responses s.effs ∧ s'.replied = true) ?_ script s ⟨rfl, hr⟩
  rintro s1 s2 hn ⟨h1, h2⟩
  obtain ⟨h3, h4⟩ := hn.after_reply h2
  exact ⟨h3.trans h1, h4⟩

theorem responses_finish_replied (cfg : HCfg) (r : ReqIn) (s : St) (script : List Action) (hr : s.replied = true) :
    responses (finish (runScript cfg r s script)) = responses s.effs := by
  obtain ⟨h1, h2⟩ := runScript_after_reply cfg r s script hr
  rw [finish_replied h2, h1]

theorem responses_seen_reply (d p : Str) (h : isPre p = false) : responses [.seen d, .pub replySubj p] = [p] := by
  simp [responses, h]


/-! ## exactly one response -/
theorem replyInv_seen0 (kind : String) (r : ReqIn) : ReplyInv (seen0 kind r) := by
  simp [ReplyInv, seen0, responses]

theorem runScript_inv (cfg : HCfg) (r : ReqIn) (s : St) (script : List Action) (h : ReplyInv s) :
    ReplyInv (stepSt (runScript cfg r s script)) :=
  runScript_next cfg r ReplyInv (fun _ _ hn hi => hn.inv hi) script s h

theorem responses_finish_length (cfg : HCfg) (r : ReqIn) (s : St) (script : List Action) (h : ReplyInv s) :
    (responses (finish (runScript cfg r s script))).length = 1 := by
  have hi := runScript_inv cfg r s script h
  rcases finish_cases (runScript cfg r s script) with ⟨h1, h2⟩ | ⟨h1, p, hp, h2⟩
  · rw [h2, hi, h1]; rfl
  · rw [h2, responses_append, responses_reply p hp.isPre, List.length_append, hi, h1]; rfl

theorem responses_take_length_le (log : List Eff) (k : Nat) :
    (responses (log.take k)).length ≤ (responses log).length := by
  have h : log = log.take k ++ log.drop k := (List.take_append_drop k log).symm
  conv => rhs; rw [h, responses_append, List.length_append]
  exact Nat.le_add_right _ _

end GoRes.Req
