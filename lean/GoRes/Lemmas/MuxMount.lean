import GoRes.Model.Mux
import GoRes.Lemmas.Mux
import GoRes.Lemmas.Pattern
/-! Lemmas about registration and lookup *through a mounted sub-mux* (C06). -/
namespace GoRes.Mux
open GoRes

/-- group indexes shifted by the length of the mount path -/
def shiftGroup (k : Nat) (g : Group) : Group :=
  g.map (·.map fun gp => match gp with | .idx i => .idx (i + k) | x => x)

/-- tokens of a mount path: every token is a literal pattern token — non-empty, first byte
visible and none of `$ * > ? .`, later bytes visible and none of `* > ? .` (`Pattern.litOk`).
This is what `Pattern.isValidPath` accepts for the tokens of a (non-empty) mount path. -/
def LitPath (st : List Str) : Prop := ∀ t ∈ st, Pattern.litOk t = true

/-- every path `Mux.Mount` / `NewMux` accept (`isValidPath`) has `LitPath` tokens -/
theorem litPath_of_isValidPath {p : Str} (h : Pattern.isValidPath p = true) : LitPath (splitPattern p) := by
  by_cases hne : p = []
  · subst hne; intro t ht; simp [splitPattern] at ht
  · rw [Pattern.isValidPath_eq] at h
    have hne' : p.isEmpty = false := by simpa using hne
    rw [hne', Bool.false_or] at h
    simp only [splitPattern, hne', Bool.false_eq_true, if_false]
    cases hp : Pattern.parse p with
    | none => simp [hp] at h
    | some ts =>
      rw [hp] at h
      obtain ⟨hw, hr, hts⟩ := Pattern.parse_some hne hp
      have hok := Pattern.wfPat_all_ok hw
      cases ts with
      | nil => exact absurd rfl hts
      | cons n ns =>
        rw [← hr, Pattern.splitDots_render n ns (fun m hm => Pattern.Tok.ok_sOk (hok m hm))]
        intro t ht
        obtain ⟨m, hm, rfl⟩ := List.mem_map.1 ht
        have hlit := List.all_eq_true.1 h m hm
        have hokm := hok m hm
        cases m with
        | lit s => exact hokm
        | tag x => simp at hlit
        | star => simp at hlit
        | full => simp at hlit

/-! ## facts about literal tokens -/

theorem litOk_ne_nil {t : Str} (h : Pattern.litOk t = true) : t ≠ [] := by
  cases t with
  | nil => simp [Pattern.litOk] at h
  | cons c r => simp

theorem litOk_elemOf {t : Str} (h : Pattern.litOk t = true) : elemOf t = .lit t := by
  cases t with
  | nil => rfl
  | cons c r =>
    have := ((Pattern.litOk_cons_iff c r).1 h).1
    have h1 : ¬ (c = Ch.dollar ∨ c = Ch.star) := by simp [Ch.dollar, Ch.star]; omega
    have h2 : ¬ c = Ch.gt := by simp [Ch.gt]; omega
    simp [elemOf, h1, h2]

theorem litOk_noDot {t : Str} (h : Pattern.litOk t = true) : Pattern.NoDot t := by
  cases t with
  | nil => exact Pattern.NoDot.nil
  | cons c r =>
    obtain ⟨h1, h2⟩ := (Pattern.litOk_cons_iff c r).1 h
    intro x hx
    rcases List.mem_cons.1 hx with rfl | hx
    · omega
    · exact Pattern.noDot_of_okc h2 x hx

theorem classify_litOk {t : Str} (h : Pattern.litOk t = true) (rest : List Str) (ps : List PathParam) (idx : Nat) :
    classify t rest ps idx = .ok (.lit t, ps) := by
  cases t with
  | nil => simp [Pattern.litOk] at h
  | cons c r =>
    have := ((Pattern.litOk_cons_iff c r).1 h).1
    have h1 : ¬ (c = Ch.dollar ∨ c = Ch.star) := by simp [Ch.dollar, Ch.star]; omega
    have h2 : ¬ c = Ch.gt := by simp [Ch.gt]; omega
    simp [classify, h1, h2]

/-! ## list-index arithmetic -/

theorem getElem?_append_shift (st rest : List Str) (j : Nat) :
    (st ++ rest)[j + st.length]? = rest[j]? := by
  rw [List.getElem?_append_right (by omega)]
  congr 1
  omega

theorem drop_append_shift (st rest : List Str) (j : Nat) :
    (st ++ rest).drop (j + st.length) = rest.drop j := by
  induction st with
  | nil => simp
  | cons t st ih =>
    have : j + (t :: st).length = (j + st.length) + 1 := by simp; omega
    rw [this, List.cons_append, List.drop_succ_cons, ih]

theorem params_through_mount' (ps : List PathParam) (st rest : List Str) (mi : Nat) :
    paramValues ps (st ++ rest) (mi + st.length) = paramValues ps rest mi := by
  unfold paramValues
  have : (fun (acc : List (Str × Str)) (pp : PathParam) =>
        ((st ++ rest)[pp.idx + (mi + st.length)]?).map (fun v => Pattern.mapSet acc pp.name v)) =
      (fun acc pp => (rest[pp.idx + mi]?).map (fun v => Pattern.mapSet acc pp.name v)) := by
    funext acc pp
    rw [show pp.idx + (mi + st.length) = (pp.idx + mi) + st.length by omega, getElem?_append_shift]
  rw [this]

theorem group_through_mount' (g : Group) (rname : Str) (st rest : List Str) (mi : Nat) :
    groupToString g rname ((st ++ rest).drop (mi + st.length)) = groupToString g rname (rest.drop mi) := by
  rw [drop_append_shift]

/-! ## lookup -/

/-- the result of a lookup with every position shifted by `k` -/
def Found.shift (k : Nat) (f : Found) : Found := ⟨f.node, f.mountIdx + k⟩

theorem tryChild_shift (rest : List Str)
    (ih : ∀ (l : Node) (i mi k : Nat),
      matchNode l rest (i + k) (mi + k) = (matchNode l rest i mi).map (Found.shift k))
    (c : Option Node) (i mi k : Nat) :
    tryChild c rest (i + k) (mi + k) = (tryChild c rest i mi).map (Found.shift k) := by
  cases c with
  | none => rfl
  | some n =>
    simp only [tryChild]
    split
    · split <;> simp [Found.shift]
    · exact ih n i mi k

/-- shifting the position and the mount index of a lookup shifts the reported mount index -/
theorem matchNode_shift (toks : List Str) : ∀ (l : Node) (i mi k : Nat),
    matchNode l toks (i + k) (mi + k) = (matchNode l toks i mi).map (Found.shift k) := by
  induction toks with
  | nil => intro l i mi k; rfl
  | cons t rest ih =>
    intro l i mi k
    rw [matchNode_cons, matchNode_cons]
    have hm : (if l.mounted then i + k else mi + k) = (if l.mounted then i else mi) + k := by
      split <;> rfl
    rw [hm, show i + k + 1 = (i + 1) + k by omega, tryChild_shift rest ih, tryChild_shift rest ih]
    cases tryChild (child l (.lit t)) rest (i + 1) (if l.mounted then i else mi) with
    | some f => rfl
    | none =>
      cases tryChild (child l .param) rest (i + 1) (if l.mounted then i else mi) with
      | some f => rfl
      | none => cases child l .wild <;> simp [Found.shift]

/-- at a mounted node the incoming mount index is irrelevant -/
theorem matchNode_mounted (l : Node) (hm : l.mounted = true) (toks : List Str) (i mi : Nat) :
    matchNode l toks i mi = matchNode l toks i i := by
  cases toks with
  | nil => rfl
  | cons t rest => rw [matchNode_cons, matchNode_cons]; simp [hm]

theorem matchNode_through (sub : Node) (rest : List Str) (f : Found) (hm : sub.mounted = true)
    (hf : matchNode sub rest 0 0 = some f) :
    ∀ (st : List Str) (root : Node) (i mi : Nat), (∀ t ∈ st, elemOf t = .lit t) →
      getAt root (st.map elemOf) = some sub →
      matchNode root (st ++ rest) i mi = some ⟨f.node, f.mountIdx + (i + st.length)⟩ := by
  have hrest : rest ≠ [] := by
    intro h; subst h; simp [matchNode_nil] at hf
  intro st
  induction st with
  | nil =>
    intro root i mi _ hloc
    simp only [List.map_nil, getAt_nil, Option.some.injEq] at hloc
    subst hloc
    have := matchNode_shift rest root 0 0 i
    simp only [Nat.zero_add] at this
    rw [List.nil_append, matchNode_mounted root hm, this, hf]
    simp [Found.shift]
  | cons t st ih =>
    intro root i mi hst hloc
    have ht : elemOf t = .lit t := hst t (List.mem_cons_self ..)
    simp only [List.map_cons, ht, getAt_cons] at hloc
    cases hc : child root (.lit t) with
    | none => simp [hc] at hloc
    | some c =>
      simp only [hc, Option.bind_some] at hloc
      have hne : st ++ rest ≠ [] := by simp [hrest]
      have := ih c (i + 1) (if root.mounted then i else mi)
        (fun t ht => hst t (List.mem_cons_of_mem _ ht)) hloc
      rw [List.cons_append, matchNode_cons, hc]
      have htc : tryChild (some c) (st ++ rest) (i + 1) (if root.mounted then i else mi) =
          matchNode c (st ++ rest) (i + 1) (if root.mounted then i else mi) := by
        simp [tryChild, hne]
      rw [htc, this]
      simp only [List.length_cons]
      congr 2
      omega

theorem match_through_mount' (root sub : Node) (st rest : List Str) (f : Found)
    (hst : LitPath st) (hloc : getAt root (st.map elemOf) = some sub) (hm : sub.mounted = true)
    (hf : matchNode sub rest 0 0 = some f) :
    matchNode root (st ++ rest) 0 0 = some ⟨f.node, f.mountIdx + st.length⟩ := by
  have := matchNode_through sub rest f hm hf st root 0 0 (fun t ht => litOk_elemOf (hst t ht)) hloc
  simpa using this

/-! ## registration -/

theorem rebase_shiftGroup (g : Group) (k mi : Nat) : rebase (shiftGroup k g) (mi + k) = rebase g mi := by
  cases g with
  | none => rfl
  | some l =>
    simp only [rebase, shiftGroup, Option.map_some, List.map_map, Option.some.injEq]
    apply List.map_congr_left
    intro gp _
    cases gp with
    | str s => rfl
    | idx j => simp [Nat.add_sub_add_right]

theorem addK_shift (id : Nat) (g : Group) (k : Nat) (n : Node) (fr : Bool) (ps : List PathParam) (mi : Nat) :
    addK id (shiftGroup k g) n fr ps (mi + k) = addK id g n fr ps mi := by
  simp only [addK, rebase_shiftGroup]

/-- registration with every position (and the group's tag positions) shifted by `k` is the same
registration -/
theorem fetch_shift (id : Nat) (g : Group) (k : Nat) (toks : List Str) :
    ∀ (n : Node) (i mi : Nat) (ps : List PathParam) (fr : Bool),
      fetch none (addK id (shiftGroup k g)) n toks (i + k) (mi + k) ps fr =
        fetch none (addK id g) n toks i mi ps fr := by
  induction toks with
  | nil => intro n i mi ps fr; rw [fetch_none_nil, fetch_none_nil, addK_shift]
  | cons t rest ih =>
    intro n i mi ps fr
    rw [fetch_none_cons, fetch_none_cons]
    have hm : (if n.mounted then i + k else mi + k) = (if n.mounted then i else mi) + k := by
      split <;> rfl
    rw [hm, Nat.add_sub_add_right]
    cases hcl : classify t rest ps (i - (if n.mounted then i else mi)) with
    | error e => rfl
    | ok p =>
      obtain ⟨e, ps'⟩ := p
      simp only []
      rw [show i + k + 1 = (i + 1) + k by omega, ih]

/-- at a mounted node with a further token the incoming mount index (and `fresh`) are irrelevant -/
theorem fetch_mounted {α : Type} (K : Node → Bool → List PathParam → Nat → Node × Except FetchErr α)
    (n : Node) (hm : n.mounted = true) (t : Str) (rest : List Str) (i mi : Nat) (ps : List PathParam) (fr : Bool) :
    fetch none K n (t :: rest) i mi ps fr = fetch none K n (t :: rest) i i ps false := by
  rw [fetch_none_cons, fetch_none_cons]; simp [hm]

theorem setAt_lit (n : Node) (s : Str) (r : List Elem) (x : Node) :
    setAt n (.lit s :: r) x = match lookupLit n.lits s with
      | some c => setChild n (.lit s) (setAt c r x)
      | none => n := by
  rfl

/-- walking down the literal path to the mount point -/
theorem fetch_through {α : Type} (K : Node → Bool → List PathParam → Nat → Node × Except FetchErr α)
    (sub : Node) (ptoks : List Str) (hm : sub.mounted = true) (hp : ptoks ≠ []) :
    ∀ (st : List Str) (root : Node) (i mi : Nat) (ps : List PathParam) (fr : Bool), LitPath st →
      getAt root (st.map elemOf) = some sub →
      fetch none K root (st ++ ptoks) i mi ps fr =
        (setAt root (st.map elemOf) (fetch none K sub ptoks (i + st.length) (i + st.length) ps false).1,
         (fetch none K sub ptoks (i + st.length) (i + st.length) ps false).2) := by
  intro st
  induction st with
  | nil =>
    intro root i mi ps fr _ hloc
    simp only [List.map_nil, getAt_nil, Option.some.injEq] at hloc
    subst hloc
    cases ptoks with
    | nil => exact absurd rfl hp
    | cons t rest =>
      simp only [List.nil_append, List.length_nil, Nat.add_zero, List.map_nil, setAt]
      rw [fetch_mounted K root hm]
  | cons t st ih =>
    intro root i mi ps fr hst hloc
    have hlt := hst t (List.mem_cons_self ..)
    have ht : elemOf t = .lit t := litOk_elemOf hlt
    simp only [List.map_cons, ht, getAt_cons] at hloc
    cases hc : child root (.lit t) with
    | none => simp [hc] at hloc
    | some c =>
      simp only [hc, Option.bind_some] at hloc
      have hc' : lookupLit root.lits t = some c := hc
      have := ih c (i + 1) (if root.mounted then i else mi) ps false
        (fun t ht => hst t (List.mem_cons_of_mem _ ht)) hloc
      rw [List.cons_append, fetch_none_cons, classify_litOk hlt]
      simp only [hc, Option.getD_some, Option.isNone_some]
      rw [this]
      simp only [List.map_cons, ht, setAt_lit, hc', List.length_cons]
      rw [show i + (st.length + 1) = i + 1 + st.length by omega]

theorem setLit_lookupLit {l : List (Str × Node)} {s : Str} {c : Node} (h : lookupLit l s = some c) :
    setLit l s c = l := by
  induction l with
  | nil => simp [lookupLit] at h
  | cons a l ih =>
    obtain ⟨k, m⟩ := a
    by_cases hk : k = s
    · simp [lookupLit, hk] at h
      simp [setLit, hk, h]
    · simp [lookupLit, hk] at h
      simp [setLit, hk, ih h]

theorem Node.setLits_lits (n : Node) : n.setLits n.lits = n := by cases n; rfl
theorem Node.setParam_param (n : Node) : n.setParam n.param = n := by cases n; rfl
theorem Node.setWild_wild (n : Node) : n.setWild n.wild = n := by cases n; rfl

/-- writing back what is stored changes nothing -/
theorem setAt_getAt (path : List Elem) : ∀ (root sub : Node), getAt root path = some sub →
    setAt root path sub = root := by
  induction path with
  | nil => intro root sub h; simp at h; simp [setAt, h]
  | cons e r ih =>
    intro root sub h
    cases e with
    | lit s =>
      simp only [getAt] at h
      cases hc : lookupLit root.lits s with
      | none => simp [hc] at h
      | some c =>
        simp only [hc, Option.bind_some] at h
        simp only [setAt, hc, ih c sub h, setLit_lookupLit hc, Node.setLits_lits]
    | param =>
      simp only [getAt] at h
      cases hc : root.param with
      | none => simp [hc] at h
      | some c =>
        simp only [hc, Option.bind_some] at h
        simp only [setAt, hc, ih c sub h]
        rw [← hc, Node.setParam_param]
    | wild =>
      simp only [getAt] at h
      cases hc : root.wild with
      | none => simp [hc] at h
      | some c =>
        simp only [hc, Option.bind_some] at h
        simp only [setAt, hc, ih c sub h]
        rw [← hc, Node.setWild_wild]

/-! ## the pattern string -/

theorem isValidLoop_okc_tail (r P : Str) (h : ∀ x ∈ r, Pattern.okc x = true) :
    Pattern.isValidLoop false false false (r ++ 46 :: P) = Pattern.isValidLoop true false false P := by
  induction r with
  | nil => simp [Pattern.isValidLoop, Ch.dot]
  | cons x r ih =>
    have hx := (Pattern.okc_iff x).1 (h x (List.mem_cons_self ..))
    have ih := ih (fun y hy => h y (List.mem_cons_of_mem _ hy))
    have h1 : ¬ x = 46 := by omega
    have h2 : ¬ x < 33 := by omega
    have h3 : ¬ x > 126 := by omega
    have h4 : ¬ x = 63 := by omega
    have h5 : ¬ x = 62 := by omega
    have h6 : ¬ x = 42 := by omega
    simp only [List.cons_append, Pattern.isValidLoop, Ch.dot, Ch.qmark, Ch.gt, Ch.star, Ch.dollar,
      h1, h2, h3, h4, h5, h6, if_false, Bool.false_or, decide_false, Bool.false_eq_true, ih, ite_self]

theorem isValidLoop_litOk {t : Str} (h : Pattern.litOk t = true) (P : Str) :
    Pattern.isValidLoop true false false (t ++ 46 :: P) = Pattern.isValidLoop true false false P := by
  cases t with
  | nil => simp [Pattern.litOk] at h
  | cons x r =>
    obtain ⟨hx, hr⟩ := (Pattern.litOk_cons_iff x r).1 h
    have h1 : ¬ x = 46 := by omega
    have h2 : ¬ x < 33 := by omega
    have h3 : ¬ x > 126 := by omega
    have h4 : ¬ x = 63 := by omega
    have h5 : ¬ x = 62 := by omega
    have h6 : ¬ x = 42 := by omega
    have h7 : ¬ x = 36 := by omega
    simp only [List.cons_append, Pattern.isValidLoop, Ch.dot, Ch.qmark, Ch.gt, Ch.star, Ch.dollar,
      h1, h2, h3, h4, h5, h6, h7, if_false, Bool.false_or, decide_false, Bool.false_eq_true,
      isValidLoop_okc_tail r P hr]

theorem joinDots_cons_of_ne (t : Str) {l : List Str} (h : l ≠ []) :
    joinDots (t :: l) = t ++ 46 :: joinDots l := by
  cases l with
  | nil => exact absurd rfl h
  | cons b r => rfl

theorem joinDots_ne_nil {ptoks : List Str} (hp : ptoks ≠ []) (hp1 : ptoks ≠ [[]]) : joinDots ptoks ≠ [] := by
  cases ptoks with
  | nil => exact absurd rfl hp
  | cons t r =>
    cases r with
    | nil =>
      simp only [joinDots]
      intro h; subst h; exact hp1 rfl
    | cons b r => rw [joinDots_cons_of_ne t (by simp)]; simp

theorem joinDots_append_ne_nil {st ptoks : List Str} (hp : ptoks ≠ []) (hj : joinDots ptoks ≠ []) :
    joinDots (st ++ ptoks) ≠ [] := by
  cases st with
  | nil => exact hj
  | cons t st => rw [List.cons_append, joinDots_cons_of_ne t (by simp [hp])]; simp

theorem isValidLoop_through (st ptoks : List Str) (hst : LitPath st) (hp : ptoks ≠ []) :
    Pattern.isValidLoop true false false (joinDots (st ++ ptoks)) =
      Pattern.isValidLoop true false false (joinDots ptoks) := by
  induction st with
  | nil => rfl
  | cons t st ih =>
    rw [List.cons_append, joinDots_cons_of_ne t (by simp [hp]),
      isValidLoop_litOk (hst t (List.mem_cons_self ..)),
      ih (fun t ht => hst t (List.mem_cons_of_mem _ ht))]

theorem isValid_through (st ptoks : List Str) (hst : LitPath st) (hp : ptoks ≠ [])
    (hj : joinDots ptoks ≠ []) :
    Pattern.isValid (joinDots (st ++ ptoks)) = Pattern.isValid (joinDots ptoks) := by
  have h1 := joinDots_append_ne_nil (st := st) hp hj
  simp only [Pattern.isValid, List.isEmpty_iff, h1, hj, if_false]
  exact isValidLoop_through st ptoks hst hp

theorem splitDots_through (st ptoks : List Str) (hst : LitPath st) (hp : ptoks ≠ []) :
    splitDots (joinDots (st ++ ptoks)) = st ++ splitDots (joinDots ptoks) := by
  induction st with
  | nil => rfl
  | cons t st ih =>
    rw [List.cons_append, joinDots_cons_of_ne t (by simp [hp]),
      Pattern.splitDots_append_dot _ (litOk_noDot (hst t (List.mem_cons_self ..))),
      ih (fun t ht => hst t (List.mem_cons_of_mem _ ht))]
    rfl

theorem splitPattern_through (st ptoks : List Str) (hst : LitPath st) (hp : ptoks ≠ [])
    (hj : joinDots ptoks ≠ []) :
    splitPattern (joinDots (st ++ ptoks)) = st ++ splitPattern (joinDots ptoks) := by
  have h1 := joinDots_append_ne_nil (st := st) hp hj
  simp only [splitPattern, List.isEmpty_iff, h1, hj, if_false]
  exact splitDots_through st ptoks hst hp

theorem splitPattern_ne_nil {p : Str} (h : p ≠ []) : splitPattern p ≠ [] := by
  simp only [splitPattern, List.isEmpty_iff, h, if_false]
  exact Pattern.splitDots_ne_nil p

/-- Registration through a mount.  `hp1` excludes the single empty token: `joinDots [[]]` is the
empty pattern `""`, which registers on the sub-mux's root itself, whereas `joinDots (st ++ [[]])`
is `"st."`, an invalid pattern. -/
theorem add_through_mount' (root sub : Node) (st ptoks : List Str) (id : Nat) (g : Group)
    (hst : LitPath st) (hloc : getAt root (st.map elemOf) = some sub) (hm : sub.mounted = true)
    (hp : ptoks ≠ []) (hp1 : ptoks ≠ [[]]) :
    addAt root (joinDots (st ++ ptoks)) id (shiftGroup st.length g) =
      ((setAt root (st.map elemOf) (addAt sub (joinDots ptoks) id g).1), (addAt sub (joinDots ptoks) id g).2) := by
  have hj := joinDots_ne_nil hp hp1
  rw [addAt_eq, addAt_eq, isValid_through st ptoks hst hp hj]
  cases hv : Pattern.isValid (joinDots ptoks) with
  | false =>
    simp only [Bool.not_false, if_true]
    rw [setAt_getAt _ _ _ hloc]
  | true =>
    simp only [Bool.not_true, Bool.false_eq_true, if_false]
    rw [splitPattern_through st ptoks hst hp hj,
      fetch_through _ sub _ hm (splitPattern_ne_nil hj) st root 0 0 [] false hst hloc]
    have := fetch_shift id g st.length (splitPattern (joinDots ptoks)) sub 0 0 [] false
    rw [this]

end GoRes.Mux
