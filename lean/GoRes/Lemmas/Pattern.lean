import GoRes.Model.Pattern
/-! Helper lemmas for the pattern model (C17, C09, C06). -/
namespace GoRes.Pattern
open GoRes Ch

set_option linter.unusedSimpArgs false

attribute [local simp] Ch.dot Ch.dollar Ch.star Ch.gt Ch.qmark

/-! ## basic shapes -/

/-- no dot in the string -/
def NoDot (s : Str) : Prop := ∀ x ∈ s, x ≠ 46

/-- "rest-shaped": what follows a token in a rendered pattern (nothing, or a dot and more) -/
def IsRest (P : Str) : Prop := P = [] ∨ ∃ P', P = 46 :: P'

theorem NoDot.nil : NoDot [] := by simp [NoDot]
theorem NoDot.tail {c : Nat} {s : Str} (h : NoDot (c :: s)) : NoDot s :=
  fun x hx => h x (List.mem_cons_of_mem _ hx)
theorem NoDot.head {c : Nat} {s : Str} (h : NoDot (c :: s)) : c ≠ 46 :=
  h c (List.mem_cons_self ..)

theorem skipTok_append {n P : Str} (hn : NoDot n) (hP : IsRest P) : skipTok (n ++ P) = P := by
  induction n with
  | nil =>
    rcases hP with rfl | ⟨P', rfl⟩ <;> simp [skipTok]
  | cons c n ih =>
    have h1 := hn.head
    simp [skipTok, h1, ih hn.tail]

theorem takeTok_append {n P : Str} (hn : NoDot n) (hP : IsRest P) : takeTok (n ++ P) = n := by
  induction n with
  | nil =>
    rcases hP with rfl | ⟨P', rfl⟩ <;> simp [takeTok]
  | cons c n ih =>
    have h1 := hn.head
    simp [takeTok, h1, ih hn.tail]

/-- the part of a rendered pattern after its first token -/
def rrest (ps : List Tok) : Str :=
  match ps with
  | [] => []
  | t :: r => 46 :: render (t :: r)

theorem rrest_isRest (ps : List Tok) : IsRest (rrest ps) := by
  cases ps with
  | nil => exact Or.inl rfl
  | cons t r => exact Or.inr ⟨_, rfl⟩

theorem render_cons (t : Tok) (ps : List Tok) : render (t :: ps) = t.render ++ rrest ps := by
  cases ps <;> simp [render, joinDots, rrest]

@[simp] theorem render_nil : render [] = [] := rfl
@[simp] theorem rrest_nil : rrest [] = [] := rfl
theorem rrest_cons (t : Tok) (r : List Tok) : rrest (t :: r) = 46 :: render (t :: r) := rfl

@[simp] theorem Tok.render_lit (s : Str) : (Tok.lit s).render = s := rfl
@[simp] theorem Tok.render_tag (n : Str) : (Tok.tag n).render = 36 :: n := rfl
@[simp] theorem Tok.render_star : Tok.star.render = [42] := rfl
@[simp] theorem Tok.render_full : Tok.full.render = [62] := rfl

/-- character class of non-first bytes of tokens -/
def okc (x : Nat) : Bool := okChar x && x ≠ star && x ≠ gt

theorem okc_iff (x : Nat) : okc x = true ↔ (33 ≤ x ∧ x ≤ 126 ∧ x ≠ 63 ∧ x ≠ 46 ∧ x ≠ 42 ∧ x ≠ 62) := by
  simp [okc, okChar]; omega

theorem wfPat_cons (t : Tok) (r : List Tok) :
    wfPat (t :: r) = (t.ok && (r.isEmpty || decide (t ≠ .full)) && wfPat r) := by
  cases r <;> simp [wfPat]

/-! ## token facts -/

/-- what the scanners need of a right-hand-side token: non-empty and dot-free -/
def Tok.sOk (t : Tok) : Prop := t.render ≠ [] ∧ NoDot t.render

theorem noDot_of_okc {s : Str} (h : ∀ x ∈ s, okc x = true) : NoDot s := by
  intro x hx
  have := (okc_iff x).1 (h x hx)
  omega

theorem litOk_cons_iff (c : Nat) (r : Str) :
    litOk (c :: r) = true ↔
      (33 ≤ c ∧ c ≤ 126 ∧ c ≠ 63 ∧ c ≠ 46 ∧ c ≠ 36 ∧ c ≠ 42 ∧ c ≠ 62) ∧ ∀ x ∈ r, okc x = true := by
  simp [litOk, okChar, okc]
  omega

theorem tagOk_iff (n : Str) :
    tagOk n = true ↔ (∀ x ∈ n, okc x = true) ∧ ∃ x ∈ n, x ≠ 36 := by
  simp [tagOk, okChar, okc]

theorem Tok.ok_sOk {t : Tok} (h : t.ok = true) : t.sOk := by
  cases t with
  | lit s =>
    cases s with
    | nil => simp [Tok.ok, litOk] at h
    | cons c r =>
      have h' := (litOk_cons_iff c r).1 h
      refine ⟨by simp [Tok.render], ?_⟩
      intro x hx
      simp [Tok.render] at hx
      rcases hx with rfl | hx
      · omega
      · have := (okc_iff x).1 (h'.2 x hx); omega
  | tag n =>
    have h' := (tagOk_iff n).1 h
    refine ⟨by simp [Tok.render], ?_⟩
    intro x hx
    simp [Tok.render] at hx
    rcases hx with rfl | hx
    · omega
    · have := (okc_iff x).1 (h'.1 x hx); omega
  | star => exact ⟨by simp [Tok.render], by intro x hx; simp [Tok.render] at hx; omega⟩
  | full => exact ⟨by simp [Tok.render], by intro x hx; simp [Tok.render] at hx; omega⟩

theorem wfPat_tail {t : Tok} {r : List Tok} (h : wfPat (t :: r) = true) : wfPat r = true := by
  rw [wfPat_cons] at h; simp at h; exact h.2

theorem wfPat_head {t : Tok} {r : List Tok} (h : wfPat (t :: r) = true) : t.ok = true := by
  rw [wfPat_cons] at h; simp at h; exact h.1.1

theorem wfPat_full {r : List Tok} (h : wfPat (Tok.full :: r) = true) : r = [] := by
  rw [wfPat_cons] at h; simp at h; exact h.1.2

theorem wfPat_all_ok {ts : List Tok} (h : wfPat ts = true) : ∀ t ∈ ts, t.ok = true := by
  induction ts with
  | nil => simp
  | cons t r ih =>
    intro x hx
    simp at hx
    rcases hx with rfl | hx
    · exact wfPat_head h
    · exact ih (wfPat_tail h) x hx

/-! ## Matches -/

theorem matchesLoop_lit (a b P S : Str) (ha : ∀ x ∈ a, x ≠ 46 ∧ x ≠ 62) (hb : NoDot b)
    (hP : IsRest P) (hS : IsRest S) :
    matchesLoop false (a ++ P) (b ++ S) = (a == b && matchesLoop false P S) := by
  induction a generalizing b with
  | nil =>
    cases b with
    | nil => simp
    | cons d b =>
      have hd := hb.head
      rcases hP with rfl | ⟨P', rfl⟩
      · simp [matchesLoop]
      · simp [matchesLoop]; omega
  | cons c a ih =>
    have hc := ha c (List.mem_cons_self ..)
    cases b with
    | nil =>
      rcases hS with rfl | ⟨S', rfl⟩
      · simp [matchesLoop]
      · simp [matchesLoop, hc.1, hc.2]
    | cons d b =>
      have ih' := ih b (fun x hx => ha x (List.mem_cons_of_mem _ hx)) hb.tail
      simp only [List.cons_append]
      rw [matchesLoop]
      by_cases hcd : c = d
      · subst hcd
        simp [hc.1, hc.2, ih']
      · simp [hc.2, hcd]


theorem tokMatches_nil_right (ps : List Tok) : tokMatches ps [] = ps.isEmpty := by
  cases ps with
  | nil => simp [tokMatches]
  | cons t r => simp [tokMatches]

theorem tokMatches_nil_left (ns : List Tok) : tokMatches [] ns = ns.isEmpty := by
  cases ns with
  | nil => simp [tokMatches]
  | cons t r => simp [tokMatches]

theorem render_cons_ne_nil {t : Tok} {r : List Tok} (h : t.sOk) : render (t :: r) ≠ [] := by
  rw [render_cons]; simp [h.1]

theorem Tok.sOk.exists_cons {t : Tok} (h : t.sOk) :
    ∃ d n', t.render = d :: n' ∧ d ≠ 46 ∧ NoDot n' := by
  rcases h with ⟨h1, h2⟩
  cases hr : t.render with
  | nil => exact absurd hr h1
  | cons d n' =>
    rw [hr] at h2
    exact ⟨d, n', rfl, h2.head, h2.tail⟩

theorem matchesLoop_rest (ps ns : List Tok)
    (ih : matchesLoop true (render ps) (render ns) = tokMatches ps ns) :
    matchesLoop false (rrest ps) (rrest ns) = tokMatches ps ns := by
  cases ps with
  | nil =>
    cases ns with
    | nil => simp [matchesLoop, tokMatches]
    | cons n ns => simp [matchesLoop, tokMatches, rrest]
  | cons t r =>
    cases ns with
    | nil => simp [matchesLoop, tokMatches_nil_right, rrest]
    | cons n ns =>
      rw [rrest_cons, rrest_cons, matchesLoop]
      simpa using ih

/-- wildcard token at token start: skip both tokens -/
theorem matchesLoop_wild (c : Nat) (hc : c = 36 ∨ c = 42) (t P : Str) (n : Tok) (S : Str)
    (ht : NoDot t) (hP : IsRest P) (hn : n.ok = true) (hS : IsRest S) :
    matchesLoop true (c :: (t ++ P)) (n.render ++ S) = (n != .full && matchesLoop false P S) := by
  obtain ⟨d, n', hr, hd, hn'⟩ := (Tok.ok_sOk hn).exists_cons
  have hfull : d = 62 ↔ n = .full := by
    cases n with
    | lit s =>
      cases s with
      | nil => simp [Tok.ok, litOk] at hn
      | cons c r =>
        have h' := (litOk_cons_iff c r).1 hn
        simp [Tok.render] at hr
        simp; omega
    | tag x => simp [Tok.render] at hr; simp; omega
    | star => simp [Tok.render] at hr; simp; omega
    | full => simp [Tok.render] at hr; simp; omega
  rw [hr, List.cons_append, matchesLoop]
  have h1 : skipTok (t ++ P) = P := skipTok_append ht hP
  have h2 : skipTok (d :: (n' ++ S)) = S := by
    have : NoDot (d :: n') := by
      intro x hx; simp at hx; rcases hx with rfl | hx
      · exact hd
      · exact hn' x hx
    exact skipTok_append (n := d :: n') this hS
  rw [h1, h2]
  by_cases hf : n = .full
  · have := hfull.2 hf
    simp [hc, this, hf]
  · have : d ≠ 62 := fun h => hf (hfull.1 h)
    simp [hc, this, hf]

theorem matchesLoop_spec (pt st : List Tok) (hp : wfPat pt = true) (hs : ∀ n ∈ st, n.ok = true) :
    matchesLoop true (render pt) (render st) = tokMatches pt st := by
  induction pt generalizing st with
  | nil =>
    cases st with
    | nil => simp [matchesLoop, tokMatches]
    | cons n ns =>
      have := render_cons_ne_nil (r := ns) (Tok.ok_sOk (hs n (List.mem_cons_self ..)))
      simp [matchesLoop, tokMatches, this]
  | cons t ps ih =>
    have htok := wfPat_head hp
    cases st with
    | nil =>
      have := render_cons_ne_nil (r := ps) (Tok.ok_sOk htok)
      cases hr : render (t :: ps) with
      | nil => exact absurd hr this
      | cons c p => simp [matchesLoop, tokMatches_nil_right]
    | cons n ns =>
      have hn := hs n (List.mem_cons_self ..)
      have hrest := matchesLoop_rest ps ns
        (ih ns (wfPat_tail hp) (fun x hx => hs x (List.mem_cons_of_mem _ hx)))
      rw [render_cons, render_cons]
      cases t with
      | lit a =>
        cases a with
        | nil => simp [Tok.ok, litOk] at htok
        | cons c a =>
          have hc := (litOk_cons_iff c a).1 htok
          have ha : ∀ x ∈ a, x ≠ 46 ∧ x ≠ 62 := by
            intro x hx; have := (okc_iff x).1 (hc.2 x hx); omega
          cases n with
          | lit b =>
            cases b with
            | nil => simp [Tok.ok, litOk] at hn
            | cons d b =>
              have hd := (litOk_cons_iff d b).1 hn
              have hb : NoDot b := noDot_of_okc hd.2
              simp only [Tok.render_lit, Tok.render_tag, Tok.render_star, Tok.render_full, List.cons_append]
              rw [matchesLoop, tokMatches]
              by_cases hcd : c = d
              · subst hcd
                simp [hc.1, matchesLoop_lit a b _ _ ha hb (rrest_isRest ps) (rrest_isRest ns), hrest]
              · simp [hc.1, hcd]
          | tag x =>
            simp only [Tok.render_lit, Tok.render_tag, Tok.render_star, Tok.render_full, List.cons_append]
            rw [matchesLoop]
            simp [hc.1, tokMatches]
          | star =>
            simp only [Tok.render_lit, Tok.render_tag, Tok.render_star, Tok.render_full, List.cons_append]
            rw [matchesLoop]
            simp [hc.1, tokMatches]
          | full =>
            simp only [Tok.render_lit, Tok.render_tag, Tok.render_star, Tok.render_full, List.cons_append]
            rw [matchesLoop]
            simp [hc.1, tokMatches]
      | tag x =>
        have hx := (tagOk_iff x).1 htok
        simp only [Tok.render_lit, Tok.render_tag, Tok.render_star, Tok.render_full, List.cons_append]
        rw [matchesLoop_wild 36 (Or.inl rfl) x _ n _ (noDot_of_okc hx.1) (rrest_isRest ps) hn
          (rrest_isRest ns), hrest]
        simp [tokMatches]
      | star =>
        simp only [Tok.render_lit, Tok.render_tag, Tok.render_star, Tok.render_full, List.cons_append]
        have := matchesLoop_wild 42 (Or.inr rfl) [] _ n _ NoDot.nil (rrest_isRest ps) hn
          (rrest_isRest ns)
        simp only [List.nil_append] at this
        rw [List.nil_append, this, hrest]
        simp [tokMatches]
      | full =>
        have := wfPat_full hp
        subst this
        obtain ⟨d, n', hr, hd, hn'⟩ := (Tok.ok_sOk hn).exists_cons
        simp [hr, matchesLoop, tokMatches]

/-! ## Values -/

theorem valuesLoop_default (c : Nat) (p : Str) (d : Nat) (s : Str) (m : List (Str × Str))
    (hc : c ≠ 36 ∧ c ≠ 42 ∧ c ≠ 62) :
    valuesLoop (c :: p) (d :: s) m =
      (valuesLit c p (d :: s)).bind (fun x => valuesLoop x.1 x.2 m) := by
  rw [valuesLoop]
  simp only [dollar, star, gt, hc.1, hc.2.1, hc.2.2, if_false]
  split <;> simp [*]

theorem valuesLit_ne {c d : Nat} (p s : Str) (h : c ≠ d) : valuesLit c p (d :: s) = none := by
  rw [valuesLit.eq_def]; simp [h]

theorem valuesLit_dot (p s : Str) : valuesLit 46 p (46 :: s) = some (p, s) := by
  rw [valuesLit.eq_def]; simp

theorem valuesLit_nil {c : Nat} (s : Str) : valuesLit c [] (c :: s) = some ([], s) := by
  rw [valuesLit.eq_def]; simp

theorem valuesLit_cons {c : Nat} (c' : Nat) (p s : Str) (h : c ≠ 46) :
    valuesLit c (c' :: p) (c :: s) = if s.isEmpty then none else valuesLit c' p s := by
  rw [valuesLit.eq_def]; simp [h]

theorem valuesLoop_dot (P S : Str) (m : List (Str × Str)) :
    valuesLoop (46 :: P) (46 :: S) m = valuesLoop P S m := by
  rw [valuesLoop_default _ _ _ _ _ (by omega)]
  simp [valuesLit_dot]

theorem valuesLit_lit (m : List (Str × Str)) (c d : Nat) (a b P S : Str) (hc : c ≠ 46) (hd : d ≠ 46)
    (ha : NoDot a) (hb : NoDot b) (hP : IsRest P) (hS : IsRest S) :
    (valuesLit c (a ++ P) (d :: (b ++ S))).bind (fun x => valuesLoop x.1 x.2 m) =
      if c :: a = d :: b then valuesLoop P S m else none := by
  induction a generalizing c d b with
  | nil =>
    by_cases hcd : c = d
    · subst hcd
      rcases hP with rfl | ⟨P', rfl⟩
      · cases b with
        | nil => simp [valuesLit_nil, hc]
        | cons e b => simp [valuesLit_nil, hc, valuesLoop]
      · cases b with
        | nil =>
          rcases hS with rfl | ⟨S', rfl⟩
          · simp [valuesLit_cons, hc, valuesLoop]
          · simp [valuesLit_cons, hc, valuesLoop_dot, valuesLit_dot]
        | cons e b =>
          have := hb.head
          simp [valuesLit_cons, hc, valuesLit_ne _ _ (Ne.symm this)]
    · simp [valuesLit_ne _ _ hcd, hcd]
  | cons c' a ih =>
    have hc' := ha.head
    by_cases hcd : c = d
    · subst hcd
      cases b with
      | nil =>
        rcases hS with rfl | ⟨S', rfl⟩
        · simp [valuesLit_cons, hc]
        · simp [valuesLit_cons, hc, valuesLit_ne _ _ hc']
      | cons e b =>
        have := ih c' e b hc' hb.head ha.tail hb.tail
        simp only [List.cons_append] at this ⊢
        rw [valuesLit_cons _ _ _ hc]
        simp [this]
    · simp [valuesLit_ne _ _ hcd, hcd]

theorem tokValues_nil_right (ps : List Tok) (m : List (Str × Str)) :
    tokValues ps [] m = if ps.isEmpty then some m else none := by
  cases ps with
  | nil => simp [tokValues]
  | cons t r => simp [tokValues]

theorem valuesLoop_rest (ps ns : List Tok) (m : List (Str × Str))
    (ih : valuesLoop (render ps) (render ns) m = tokValues ps ns m) :
    valuesLoop (rrest ps) (rrest ns) m = tokValues ps ns m := by
  cases ps with
  | nil =>
    cases ns with
    | nil => simp [valuesLoop, tokValues]
    | cons n ns => simp [valuesLoop, tokValues, rrest]
  | cons t r =>
    cases ns with
    | nil => simp [valuesLoop, tokValues_nil_right, rrest]
    | cons n ns =>
      rw [rrest_cons, rrest_cons, valuesLoop_dot]
      exact ih

theorem valuesLoop_tag (t P : Str) (n : Tok) (S : Str) (m : List (Str × Str))
    (ht : NoDot t) (hP : IsRest P) (hn : n.sOk) (hS : IsRest S) :
    valuesLoop (36 :: (t ++ P)) (n.render ++ S) m = valuesLoop P S (mapSet m t n.render) := by
  obtain ⟨d, n', hr, hd, hn'⟩ := hn.exists_cons
  have hdn : NoDot (d :: n') := by
    intro x hx; simp at hx; rcases hx with rfl | hx
    · exact hd
    · exact hn' x hx
  rw [hr, List.cons_append, valuesLoop]
  have h1 : skipTok (t ++ P) = P := skipTok_append ht hP
  have h2 : skipTok (d :: (n' ++ S)) = S := skipTok_append (n := d :: n') hdn hS
  have h3 : takeTok (t ++ P) = t := takeTok_append ht hP
  have h4 : takeTok (d :: (n' ++ S)) = d :: n' := takeTok_append (n := d :: n') hdn hS
  simp [h1, h2, h3, h4]

theorem valuesLoop_star (P : Str) (n : Tok) (S : Str) (m : List (Str × Str))
    (hP : IsRest P) (hn : n.sOk) (hS : IsRest S) :
    valuesLoop (42 :: P) (n.render ++ S) m = valuesLoop P S m := by
  obtain ⟨d, n', hr, hd, hn'⟩ := hn.exists_cons
  have hdn : NoDot (d :: n') := by
    intro x hx; simp at hx; rcases hx with rfl | hx
    · exact hd
    · exact hn' x hx
  rw [hr, List.cons_append, valuesLoop]
  have h1 : skipTok P = P := skipTok_append (n := []) NoDot.nil hP
  have h2 : skipTok (d :: (n' ++ S)) = S := skipTok_append (n := d :: n') hdn hS
  simp [h1, h2]

theorem valuesLoop_spec (pt st : List Tok) (m : List (Str × Str)) (hp : wfPat pt = true)
    (hs : ∀ n ∈ st, n.sOk) :
    valuesLoop (render pt) (render st) m = tokValues pt st m := by
  induction pt generalizing st m with
  | nil =>
    cases st with
    | nil => simp [valuesLoop, tokValues]
    | cons n ns =>
      have := render_cons_ne_nil (r := ns) (hs n (List.mem_cons_self ..))
      simp [valuesLoop, tokValues, this]
  | cons t ps ih =>
    have htok := wfPat_head hp
    cases st with
    | nil =>
      have := render_cons_ne_nil (r := ps) (Tok.ok_sOk htok)
      cases hr : render (t :: ps) with
      | nil => exact absurd hr this
      | cons c p => simp [valuesLoop, tokValues_nil_right]
    | cons n ns =>
      have hn := hs n (List.mem_cons_self ..)
      have hrest := fun m => valuesLoop_rest ps ns m
        (ih ns m (wfPat_tail hp) (fun x hx => hs x (List.mem_cons_of_mem _ hx)))
      rw [render_cons, render_cons]
      cases t with
      | lit a =>
        cases a with
        | nil => simp [Tok.ok, litOk] at htok
        | cons c a =>
          have hc := (litOk_cons_iff c a).1 htok
          have ha : NoDot a := noDot_of_okc hc.2
          simp only [Tok.render_lit, List.cons_append]
          cases n with
          | lit b =>
            cases b with
            | nil => exact absurd rfl hn.1
            | cons d b =>
              have hdb : NoDot (d :: b) := hn.2
              simp only [Tok.render_lit, List.cons_append]
              rw [valuesLoop_default _ _ _ _ _ (by omega),
                valuesLit_lit m c d a b _ _ (by omega) hdb.head ha hdb.tail
                  (rrest_isRest ps) (rrest_isRest ns), hrest, tokValues]
          | tag x =>
            simp only [Tok.render_tag, List.cons_append]
            rw [valuesLoop_default _ _ _ _ _ (by omega)]
            simp [valuesLit_ne _ _ hc.1.2.2.2.2.1, valuesLit_ne _ _ hc.1.2.2.2.2.2.1, valuesLit_ne _ _ hc.1.2.2.2.2.2.2, tokValues]
          | star =>
            simp only [Tok.render_star, List.cons_append]
            rw [valuesLoop_default _ _ _ _ _ (by omega)]
            simp [valuesLit_ne _ _ hc.1.2.2.2.2.1, valuesLit_ne _ _ hc.1.2.2.2.2.2.1, valuesLit_ne _ _ hc.1.2.2.2.2.2.2, tokValues]
          | full =>
            simp only [Tok.render_full, List.cons_append]
            rw [valuesLoop_default _ _ _ _ _ (by omega)]
            simp [valuesLit_ne _ _ hc.1.2.2.2.2.1, valuesLit_ne _ _ hc.1.2.2.2.2.2.1, valuesLit_ne _ _ hc.1.2.2.2.2.2.2, tokValues]
      | tag x =>
        have hx := (tagOk_iff x).1 htok
        simp only [Tok.render_tag, List.cons_append]
        rw [valuesLoop_tag x _ n _ m (noDot_of_okc hx.1) (rrest_isRest ps) hn (rrest_isRest ns),
          hrest, tokValues]
      | star =>
        simp only [Tok.render_star, List.cons_append, List.nil_append]
        rw [valuesLoop_star _ n _ m (rrest_isRest ps) hn (rrest_isRest ns), hrest]
        simp [tokValues]
      | full =>
        have := wfPat_full hp
        subst this
        obtain ⟨d, n', hr, hd, hn'⟩ := hn.exists_cons
        simp [hr, valuesLoop, tokValues]

/-! ## names -/

theorem isName_iff (st : List Tok) :
    isName st = true ↔ st ≠ [] ∧ ∀ n ∈ st, ∃ s, n = .lit s ∧ litOk s = true := by
  simp only [isName, Bool.and_eq_true, Bool.not_eq_true', List.isEmpty_eq_false_iff,
    List.all_eq_true]
  constructor
  · rintro ⟨h1, h2⟩
    refine ⟨h1, fun n hn => ?_⟩
    have := h2 n hn
    cases n <;> simp_all
  · rintro ⟨h1, h2⟩
    refine ⟨h1, fun n hn => ?_⟩
    obtain ⟨s, rfl, hs⟩ := h2 n hn
    simpa using hs

theorem isName_ok {st : List Tok} (h : isName st = true) : ∀ n ∈ st, n.ok = true := by
  intro n hn
  obtain ⟨s, rfl, hs⟩ := ((isName_iff st).1 h).2 n hn
  exact hs

theorem isName_sOk {st : List Tok} (h : isName st = true) : ∀ n ∈ st, n.sOk :=
  fun n hn => Tok.ok_sOk (isName_ok h n hn)

theorem isName_ne_full {st : List Tok} (h : isName st = true) : ∀ n ∈ st, n ≠ .full := by
  intro n hn
  obtain ⟨s, rfl, hs⟩ := ((isName_iff st).1 h).2 n hn
  simp

theorem tokMatches_eq_tokValues_isSome (pt st : List Tok) (m : List (Str × Str))
    (hs : ∀ n ∈ st, n ≠ .full) : tokMatches pt st = (tokValues pt st m).isSome := by
  induction pt generalizing st m with
  | nil => cases st <;> simp [tokMatches, tokValues]
  | cons t ps ih =>
    cases st with
    | nil => simp [tokMatches_nil_right, tokValues_nil_right]
    | cons n ns =>
      have hn := hs n (List.mem_cons_self ..)
      have ih' := fun m => ih ns m (fun x hx => hs x (List.mem_cons_of_mem _ hx))
      cases t with
      | lit a =>
        cases n with
        | lit b =>
          by_cases hab : a = b
          · simp [tokMatches, tokValues, hab, ih' m]
          · simp [tokMatches, tokValues, hab]
        | tag x => simp [tokMatches, tokValues]
        | star => simp [tokMatches, tokValues]
        | full => simp [tokMatches, tokValues]
      | tag x => simp [tokMatches, tokValues, hn, ih' (mapSet m x n.render)]
      | star => simp [tokMatches, tokValues, hn, ih' m]
      | full =>
        cases ps with
        | nil => simp [tokMatches, tokValues]
        | cons p ps => simp [tokMatches, tokValues]

theorem wfPat_of_all {st : List Tok} (h : ∀ n ∈ st, n.ok = true ∧ n ≠ .full) : wfPat st = true := by
  induction st with
  | nil => rfl
  | cons t r ih =>
    rw [wfPat_cons]
    have ht := h t (List.mem_cons_self ..)
    simp [ht.1, ht.2, ih (fun n hn => h n (List.mem_cons_of_mem _ hn))]

theorem wfPat_of_isName {st : List Tok} (h : isName st = true) : wfPat st = true :=
  wfPat_of_all (fun n hn => ⟨isName_ok h n hn, isName_ne_full h n hn⟩)

/-! ## resource ids -/

theorem ridLoop_cons (b : Bool) (c : Nat) (r : Str)
    (hc : 33 ≤ c ∧ c ≤ 126 ∧ c ≠ 63 ∧ c ≠ 46 ∧ c ≠ 42 ∧ c ≠ 62) :
    isValidRIDLoop b (c :: r) = isValidRIDLoop false r := by
  rw [isValidRIDLoop]
  have h1 : ¬ c < 33 := by omega
  have h2 : ¬ c > 126 := by omega
  simp [hc, h1, h2]

theorem ridLoop_append (a P : Str)
    (ha : ∀ x ∈ a, 33 ≤ x ∧ x ≤ 126 ∧ x ≠ 63 ∧ x ≠ 46 ∧ x ≠ 42 ∧ x ≠ 62) :
    isValidRIDLoop false (a ++ P) = isValidRIDLoop false P := by
  induction a with
  | nil => rfl
  | cons c a ih =>
    rw [List.cons_append, ridLoop_cons _ _ _ (ha c (List.mem_cons_self ..))]
    exact ih (fun x hx => ha x (List.mem_cons_of_mem _ hx))

theorem isValidPart_rid (p : Str) (h : isValidPart p = true) : isValidRID p = true := by
  cases p with
  | nil => simp [isValidPart] at h
  | cons c r =>
    have hall : ∀ x ∈ c :: r, 33 ≤ x ∧ x ≤ 126 ∧ x ≠ 63 ∧ x ≠ 46 ∧ x ≠ 42 ∧ x ≠ 62 := by
      simp [isValidPart] at h
      intro x hx
      simp at hx
      rcases hx with rfl | hx
      · omega
      · have := h.2 x hx; omega
    have := ridLoop_append (c :: r) [] hall
    rw [List.append_nil] at this
    unfold isValidRID
    rw [ridLoop_cons _ _ _ (hall c (List.mem_cons_self ..))]
    rw [ridLoop_cons _ _ _ (hall c (List.mem_cons_self ..))] at this
    rw [this]; rfl

theorem name_rid (st : List Tok) (hne : st ≠ [])
    (h : ∀ n ∈ st, ∃ s, n = .lit s ∧ litOk s = true) : isValidRIDLoop true (render st) = true := by
  induction st with
  | nil => exact absurd rfl hne
  | cons n ns ih =>
    obtain ⟨s, rfl, hs⟩ := h _ (List.mem_cons_self ..)
    cases s with
    | nil => simp [litOk] at hs
    | cons c a =>
      have hc := (litOk_cons_iff c a).1 hs
      rw [render_cons, Tok.render_lit, List.cons_append, ridLoop_cons _ _ _ (by omega),
        ridLoop_append _ _ (fun x hx => (okc_iff x).1 (hc.2 x hx))]
      cases ns with
      | nil => rfl
      | cons n' ns' =>
        rw [rrest_cons, isValidRIDLoop]
        simp
        exact ih (by simp) (fun x hx => h x (List.mem_cons_of_mem _ hx))

/-! ## IndexWildcard -/

/-- byte offset of the first wildcard token (same as `Props.C17.firstWild`) -/
def firstWildL : List Tok → Nat → Int
  | [], _ => -1
  | .lit s :: r, off => firstWildL r (off + s.length + 1)
  | _ :: _, off => off

theorem iwLoop_append (i : Nat) (a P : Str) (ha : NoDot a) :
    indexWildcardLoop false i (a ++ P) = indexWildcardLoop false (i + a.length) P := by
  induction a generalizing i with
  | nil => rfl
  | cons c a ih =>
    have := ha.head
    rw [List.cons_append, indexWildcardLoop]
    simp [this, ih (i + 1) ha.tail]
    congr 1; omega

theorem iwLoop_spec (pt : List Tok) (i : Nat) (hp : wfPat pt = true) :
    indexWildcardLoop true i (render pt) = firstWildL pt i := by
  induction pt generalizing i with
  | nil => rfl
  | cons t ps ih =>
    have htok := wfPat_head hp
    rw [render_cons]
    cases t with
    | lit s =>
      cases s with
      | nil => simp [Tok.ok, litOk] at htok
      | cons c a =>
        have hc := (litOk_cons_iff c a).1 htok
        rw [Tok.render_lit, List.cons_append, indexWildcardLoop]
        simp [hc.1, iwLoop_append _ _ _ (noDot_of_okc hc.2), firstWildL]
        cases ps with
        | nil => simp [indexWildcardLoop, firstWildL]
        | cons p ps =>
          rw [rrest_cons, indexWildcardLoop]
          simp
          rw [ih _ (wfPat_tail hp)]
          congr 1; omega
    | tag x => simp [indexWildcardLoop, firstWildL]
    | star => simp [indexWildcardLoop, firstWildL]
    | full =>
      have := wfPat_full hp
      subst this
      simp [indexWildcardLoop, firstWildL]

/-! ## IsValid / parse -/

theorem litOk_cons_eq (c : Nat) (r : Str) :
    litOk (c :: r) = (okChar c && c ≠ 36 && c ≠ 42 && c ≠ 62 && r.all okc) := rfl

theorem tagOk_eq (n : Str) : tagOk n = (n.all okc && n.any (fun x => x ≠ 36)) := rfl

theorem splitDots_ne_nil (r : Str) : splitDots r ≠ [] := by
  induction r with
  | nil => simp [splitDots]
  | cons c r ih =>
    unfold splitDots
    split
    · simp
    · split <;> simp

theorem splitDots_exists (r : Str) : ∃ t ts, splitDots r = t :: ts := by
  cases h : splitDots r with
  | nil => exact absurd h (splitDots_ne_nil r)
  | cons t ts => exact ⟨t, ts, rfl⟩

theorem splitDots_dot (r : Str) : splitDots (46 :: r) = [] :: splitDots r := by
  simp [splitDots]

theorem splitDots_cons {c : Nat} {r t : Str} {ts : List Str} (hc : c ≠ 46)
    (h : splitDots r = t :: ts) : splitDots (c :: r) = (c :: t) :: ts := by
  simp [splitDots, hc, h]

theorem splitDots_singleton_nil {r : Str} {ts : List Str} (h : splitDots r = [] :: ts) :
    ts = [] ↔ r = [] := by
  cases r with
  | nil => simp [splitDots] at h; simp [h]
  | cons c r =>
    by_cases hc : c = 46
    · subst hc
      rw [splitDots_dot] at h
      simp at h
      simp [← h, splitDots_ne_nil]
    · obtain ⟨t', ts', h'⟩ := splitDots_exists r
      rw [splitDots_cons hc h'] at h
      simp at h

theorem isValidLoop_inv (r : Str) : ∀ t ts, splitDots r = t :: ts →
    isValidLoop true false false r = wfPat (parseTok t :: ts.map parseTok) ∧
    isValidLoop false true false r = (t.isEmpty && wfPat (ts.map parseTok)) ∧
    isValidLoop false false true r =
      (t.all okc && t.any (fun x => x ≠ 36) && wfPat (ts.map parseTok)) ∧
    isValidLoop false false false r = (t.all okc && wfPat (ts.map parseTok)) := by
  induction r with
  | nil =>
    intro t ts h
    simp [splitDots] at h
    obtain ⟨rfl, rfl⟩ := h
    simp [isValidLoop, parseTok, wfPat, Tok.ok, litOk]
  | cons c r ih =>
    intro t ts h
    obtain ⟨t', ts', h'⟩ := splitDots_exists r
    obtain ⟨i1, i2, i3, i4⟩ := ih t' ts' h'
    by_cases hdot : c = 46
    · subst hdot
      rw [splitDots_dot, h'] at h
      simp at h
      obtain ⟨rfl, rfl⟩ := h
      simp [isValidLoop, i1, parseTok, wfPat_cons, Tok.ok, litOk]
    · rw [splitDots_cons hdot h'] at h
      simp at h
      obtain ⟨rfl, rfl⟩ := h
      by_cases h36 : c = 36
      · subst h36
        simp [isValidLoop, i3, i4, parseTok, wfPat_cons, Tok.ok, tagOk_eq, okc, okChar]
      · by_cases h42 : c = 42
        · subst h42
          cases t' with
          | nil => simp [isValidLoop, i2, parseTok, wfPat_cons, Tok.ok, okc, okChar]
          | cons e t' => simp [isValidLoop, i2, parseTok, wfPat_cons, Tok.ok, litOk_cons_eq, okc, okChar]
        · by_cases h62 : c = 62
          · subst h62
            cases t' with
            | nil =>
              have := splitDots_singleton_nil h'
              by_cases hr : r = []
              · have hts := this.2 hr
                subst hr; subst hts
                simp [isValidLoop, parseTok, wfPat, Tok.ok, okc, okChar]
              · have hts : ts' ≠ [] := fun h => hr (this.1 h)
                simp [isValidLoop, parseTok, wfPat_cons, Tok.ok, okc, okChar, hr, hts]
            | cons e t' =>
              have hr : r ≠ [] := by rintro rfl; simp [splitDots] at h'
              simp [isValidLoop, parseTok, wfPat_cons, Tok.ok, litOk_cons_eq, okc, okChar, hr]
          · by_cases hbad : c < 33 ∨ c > 126 ∨ c = 63
            · have : okChar c = false := by simp [okChar]; omega
              simp [isValidLoop, hdot, h36, h42, h62, hbad, parseTok, wfPat_cons, Tok.ok, litOk_cons_eq, okc, this]
              intros; omega
            · have : okChar c = true := by simp [okChar]; omega
              have hb1 : ¬ c < 33 := by omega
              have hb2 : ¬ 126 < c := by omega
              have hb3 : ¬ c = 63 := by omega
              simp [isValidLoop, hdot, h36, h42, h62, hb1, hb2, hb3, i4, parseTok, wfPat_cons, Tok.ok, litOk_cons_eq, okc, this]

theorem isValid_eq_parse (p : Str) : isValid p = (parse p).isSome := by
  cases p with
  | nil => simp [isValid, parse]
  | cons c r =>
    obtain ⟨t, ts, h⟩ := splitDots_exists (c :: r)
    have := (isValidLoop_inv (c :: r) t ts h).1
    simp only [isValid, parse, List.isEmpty_cons, Bool.false_eq_true, if_false, this, h, List.map_cons]
    split <;> simp [*]

theorem joinDots_cons_cons (a b : Str) (r : List Str) :
    joinDots (a :: b :: r) = a ++ 46 :: joinDots (b :: r) := rfl

theorem joinDots_splitDots (p : Str) : joinDots (splitDots p) = p := by
  induction p with
  | nil => rfl
  | cons c r ih =>
    obtain ⟨t, ts, h⟩ := splitDots_exists r
    by_cases hc : c = 46
    · subst hc
      rw [splitDots_dot, h, joinDots_cons_cons, ← h, ih]; rfl
    · rw [splitDots_cons hc h]
      rw [h] at ih
      cases ts with
      | nil => simp [joinDots] at ih ⊢; exact ih
      | cons t' ts' =>
        rw [joinDots_cons_cons] at ih ⊢
        simp [ih]

theorem render_parseTok (t : Str) : (parseTok t).render = t := by
  unfold parseTok
  split
  · rfl
  · split
    · simp [*]
    · split
      · rename_i h; simp [h.1, h.2]
      · split
        · rename_i h; simp [h.1, h.2]
        · rfl

theorem parseTok_render {t : Tok} (h : t.ok = true) : parseTok t.render = t := by
  cases t with
  | lit s =>
    cases s with
    | nil => simp [Tok.ok, litOk] at h
    | cons c r =>
      have hc := (litOk_cons_iff c r).1 h
      simp [parseTok, hc.1]
  | tag n => simp [parseTok]
  | star => simp [parseTok]
  | full => simp [parseTok]

theorem render_map_parseTok (l : List Str) : render (l.map parseTok) = joinDots l := by
  simp [render, List.map_map, Function.comp_def, render_parseTok]

theorem parse_some {p : Str} {ts : List Tok} (hne : p ≠ []) (h : parse p = some ts) :
    wfPat ts = true ∧ render ts = p ∧ ts ≠ [] := by
  simp only [parse, List.isEmpty_iff, hne, if_false] at h
  split at h
  · rename_i hw
    simp at h
    subst h
    refine ⟨hw, ?_, ?_⟩
    · rw [render_map_parseTok, joinDots_splitDots]
    · simp [splitDots_ne_nil]
  · simp at h

theorem splitDots_noDot {a : Str} (ha : NoDot a) : splitDots a = [a] := by
  induction a with
  | nil => rfl
  | cons c a ih => exact splitDots_cons ha.head (ih ha.tail)

theorem splitDots_append_dot {a : Str} (P : Str) (ha : NoDot a) :
    splitDots (a ++ 46 :: P) = a :: splitDots P := by
  induction a with
  | nil => exact splitDots_dot P
  | cons c a ih => exact splitDots_cons ha.head (ih ha.tail)

theorem splitDots_render (t : Tok) (ps : List Tok) (h : ∀ n ∈ t :: ps, n.sOk) :
    splitDots (render (t :: ps)) = (t :: ps).map Tok.render := by
  induction ps generalizing t with
  | nil => simpa [render, joinDots] using splitDots_noDot (h t (List.mem_cons_self ..)).2
  | cons p ps ih =>
    rw [render_cons, rrest_cons, splitDots_append_dot _ (h t (List.mem_cons_self ..)).2,
      ih p (fun n hn => h n (List.mem_cons_of_mem _ hn))]
    simp

theorem parse_render_of_wf (ts : List Tok) (h : wfPat ts = true) (hne : ts ≠ []) :
    parse (render ts) = some ts := by
  cases ts with
  | nil => exact absurd rfl hne
  | cons t ps =>
    have hok := wfPat_all_ok h
    have hs : ∀ n ∈ t :: ps, n.sOk := fun n hn => Tok.ok_sOk (hok n hn)
    have hne' := render_cons_ne_nil (r := ps) (hs t (List.mem_cons_self ..))
    have hmap : ((t :: ps).map Tok.render).map parseTok = t :: ps := by
      rw [List.map_map]
      conv => rhs; rw [← List.map_id (t :: ps)]
      apply List.map_congr_left
      intro n hn
      exact parseTok_render (hok n hn)
    simp only [parse, List.isEmpty_iff, hne', if_false, splitDots_render t ps hs, hmap, h, if_true]

theorem firstWildL_eq (ts : List Tok) (off : Nat) :
    (firstWildL ts off == -1) = ts.all (fun t => match t with | .lit _ => true | _ => false) := by
  induction ts generalizing off with
  | nil => simp [firstWildL]
  | cons t r ih =>
    cases t with
    | lit s => simp [firstWildL, ih]
    | tag n => simp [firstWildL]
    | star => simp [firstWildL]
    | full => simp [firstWildL]

theorem isValidPath_eq (p : Str) :
    isValidPath p = (p.isEmpty || match parse p with
      | some ts => ts.all (fun t => match t with | .lit _ => true | _ => false)
      | none => false) := by
  cases p with
  | nil => simp [isValidPath]
  | cons c r =>
    simp only [isValidPath, List.isEmpty_cons, Bool.false_or, isValid_eq_parse]
    cases hp : parse (c :: r) with
    | none => simp
    | some ts =>
      obtain ⟨hw, hr, _⟩ := parse_some (by simp) hp
      have := iwLoop_spec ts 0 hw
      rw [hr] at this
      simp only [Option.isSome_some, Bool.true_and, indexWildcard, this, firstWildL_eq]

theorem isValidPath_rid (p : Str) (h : isValidPath p = true) (hne : p ≠ []) :
    isValidRID p = true := by
  rw [isValidPath_eq] at h
  have hne' : p.isEmpty = false := by simpa using hne
  rw [hne', Bool.false_or] at h
  cases hp : parse p with
  | none => simp [hp] at h
  | some ts =>
    rw [hp] at h
    obtain ⟨hw, hr, hts⟩ := parse_some hne hp
    rw [← hr]
    apply name_rid ts hts
    intro n hn
    have hok := wfPat_all_ok hw n hn
    have := List.all_eq_true.1 h n hn
    cases n <;> simp_all [Tok.ok]

/-! ## Replace -/

/-- token-level substitution: a tag with a value becomes that value as a literal -/
def substTok (f : Str → Option Str) : Tok → Tok
  | .tag t => match f t with
    | some v => .lit v
    | none => .tag t
  | t => t

theorem tokReplace_eq (f : Str → Option Str) (ts : List Tok) :
    tokReplace f ts = (ts.map (substTok f)).map Tok.render := by
  induction ts with
  | nil => rfl
  | cons t r ih =>
    cases t with
    | tag x => cases h : f x <;> simp [tokReplace, substTok, h, ih]
    | lit s => simp [tokReplace, substTok, ih]
    | star => simp [tokReplace, substTok, ih]
    | full => simp [tokReplace, substTok, ih]

theorem replaceLoop_append (f : Str → Option Str) (a P : Str) (ha : NoDot a) :
    replaceLoop f false (a ++ P) = a ++ replaceLoop f false P := by
  induction a with
  | nil => rfl
  | cons c a ih =>
    have := ha.head
    rw [List.cons_append, replaceLoop]
    simp [this, ih ha.tail]

theorem replaceLoop_rest (f : Str → Option Str) (b : Bool) (ps : List Tok)
    (ih : replaceLoop f true (render ps) = render (ps.map (substTok f))) :
    replaceLoop f b (rrest ps) = rrest (ps.map (substTok f)) := by
  cases ps with
  | nil => simp [replaceLoop]
  | cons p ps =>
    rw [rrest_cons, replaceLoop, List.map_cons, rrest_cons, ← List.map_cons, ← ih]
    simp

theorem replaceLoop_spec (f : Str → Option Str) (pt : List Tok) (hp : wfPat pt = true) :
    replaceLoop f true (render pt) = render (pt.map (substTok f)) := by
  induction pt with
  | nil => simp [replaceLoop]
  | cons t ps ih =>
    have htok := wfPat_head hp
    have hrest := fun b => replaceLoop_rest f b ps (ih (wfPat_tail hp))
    rw [List.map_cons, render_cons, render_cons]
    cases t with
    | lit s =>
      cases s with
      | nil => simp [Tok.ok, litOk] at htok
      | cons c a =>
        have hc := (litOk_cons_iff c a).1 htok
        rw [Tok.render_lit, List.cons_append, replaceLoop]
        simp [hc.1, replaceLoop_append f _ _ (noDot_of_okc hc.2), hrest, substTok]
    | tag x =>
      have hx := (tagOk_iff x).1 htok
      have h1 := skipTok_append (noDot_of_okc hx.1) (rrest_isRest ps)
      have h2 := takeTok_append (noDot_of_okc hx.1) (rrest_isRest ps)
      rw [Tok.render_tag, List.cons_append, replaceLoop]
      simp only [dollar, if_true, h1, h2, hrest, substTok]
      cases f x <;> simp
    | star =>
      rw [Tok.render_star, List.cons_append, List.nil_append, replaceLoop]
      simp [hrest, substTok]
    | full =>
      have := wfPat_full hp
      subst this
      simp [replaceLoop, substTok]

/-! ## the Go map -/

theorem mapGet_cons (e : Str × Str) (m : List (Str × Str)) (k : Str) :
    mapGet (e :: m) k = if e.1 = k then some e.2 else mapGet m k := by
  by_cases h : e.1 = k <;> simp [mapGet, List.find?_cons, h]

theorem mapGet_map_same (m : List (Str × Str)) (k v : Str)
    (h : m.any (fun x => x.1 == k) = true) :
    mapGet (m.map (fun e => if e.1 == k then (k, v) else e)) k = some v := by
  induction m with
  | nil => simp at h
  | cons e m ih =>
    rw [List.map_cons, mapGet_cons]
    by_cases he : e.1 = k
    · simp [he]
    · have h' : m.any (fun x => x.1 == k) = true := by simpa [he] using h
      have := ih h'
      simpa [he] using this

theorem mapGet_map_other (m : List (Str × Str)) (k v k' : Str) (hk : k' ≠ k) :
    mapGet (m.map (fun e => if e.1 == k then (k, v) else e)) k' = mapGet m k' := by
  induction m with
  | nil => rfl
  | cons e m ih =>
    rw [List.map_cons, mapGet_cons, mapGet_cons, ih]
    by_cases he : e.1 = k
    · have : ¬ e.1 = k' := fun h => hk (h.symm.trans he)
      simp [he, this, Ne.symm hk]
    · simp [he]

theorem mapGet_append_single (m : List (Str × Str)) (k v k' : Str) :
    mapGet (m ++ [(k, v)]) k' = (mapGet m k').or (if k = k' then some v else none) := by
  induction m with
  | nil => simp [mapGet_cons]; rfl
  | cons e m ih =>
    rw [List.cons_append, mapGet_cons, mapGet_cons, ih]
    split <;> simp

theorem mapGet_none_of_any (m : List (Str × Str)) (k : Str)
    (h : ¬ m.any (fun x => x.1 == k) = true) : mapGet m k = none := by
  induction m with
  | nil => rfl
  | cons e m ih =>
    rw [mapGet_cons]
    by_cases he : e.1 = k
    · simp [he] at h
    · have h' : ¬ m.any (fun x => x.1 == k) = true := by simpa [he] using h
      simp [he, ih h']

theorem mapGet_mapSet_same (m : List (Str × Str)) (k v : Str) :
    mapGet (mapSet m k v) k = some v := by
  unfold mapSet
  split
  · rename_i h; exact mapGet_map_same m k v h
  · rename_i h
    rw [mapGet_append_single, mapGet_none_of_any m k h]; simp

theorem mapGet_mapSet_other (m : List (Str × Str)) (k v k' : Str) (hk : k' ≠ k) :
    mapGet (mapSet m k v) k' = mapGet m k' := by
  unfold mapSet
  split
  · exact mapGet_map_other m k v k' hk
  · rw [mapGet_append_single]; simp [Ne.symm hk]

/-! ## tokValues facts -/

theorem tokValues_keeps (pt st : List Tok) (m0 m : List (Str × Str)) (k : Str)
    (h : tokValues pt st m0 = some m) (hk : k ∉ tagsOf pt) : mapGet m k = mapGet m0 k := by
  induction pt generalizing st m0 with
  | nil =>
    cases st with
    | nil => simp [tokValues] at h; rw [h]
    | cons n ns => simp [tokValues] at h
  | cons t ps ih =>
    cases st with
    | nil => simp [tokValues_nil_right] at h
    | cons n ns =>
      cases t with
      | lit a =>
        cases n with
        | lit b =>
          simp only [tokValues] at h
          split at h
          · exact ih ns m0 h (by simpa [tagsOf] using hk)
          · simp at h
        | tag x => simp [tokValues] at h
        | star => simp [tokValues] at h
        | full => simp [tokValues] at h
      | tag x =>
        simp only [tokValues] at h
        simp only [tagsOf, List.mem_cons, not_or] at hk
        rw [ih ns _ h hk.2, mapGet_mapSet_other _ _ _ _ hk.1]
      | star =>
        simp only [tokValues] at h
        exact ih ns m0 h (by simpa [tagsOf] using hk)
      | full =>
        cases ps with
        | nil => simp [tokValues] at h; rw [h]
        | cons p ps => simp [tokValues] at h

theorem substTok_none (f : Str → Option Str) (hf : ∀ t, f t = none) (pt : List Tok) :
    pt.map (substTok f) = pt := by
  induction pt with
  | nil => rfl
  | cons t r ih => cases t <;> simp [substTok, hf, ih]

/-- values extracted from a name, substituted back -/
theorem tokValues_subst (f : Str → Option Str) (pt st : List Tok) (m0 m : List (Str × Str))
    (hp : wfPat pt = true) (hs : ∀ n ∈ st, ∃ s, n = .lit s ∧ litOk s = true)
    (hd : distinctTags pt = true) (hv : tokValues pt st m0 = some m)
    (hf : ∀ t ∈ tagsOf pt, f t = mapGet m t) :
    wfPat (pt.map (substTok f)) = true ∧ tokMatches (pt.map (substTok f)) st = true ∧
      (hasAnon pt = false → pt.map (substTok f) = st) := by
  induction pt generalizing st m0 with
  | nil =>
    cases st with
    | nil => simp [wfPat, tokMatches]
    | cons n ns => simp [tokValues] at hv
  | cons t ps ih =>
    cases st with
    | nil => simp [tokValues_nil_right] at hv
    | cons n ns =>
      obtain ⟨b, rfl, hb⟩ := hs n (List.mem_cons_self ..)
      have hs' : ∀ n ∈ ns, ∃ s, n = Tok.lit s ∧ litOk s = true :=
        fun x hx => hs x (List.mem_cons_of_mem _ hx)
      have hp' := wfPat_tail hp
      rw [List.map_cons, wfPat_cons]
      cases t with
      | lit a =>
        simp only [tokValues] at hv
        split at hv
        · rename_i hab
          subst hab
          have htok := wfPat_head hp
          obtain ⟨i1, i2, i3⟩ := ih ns m0 hp' hs' (by simpa [distinctTags] using hd) hv
            (by simpa [tagsOf] using hf)
          refine ⟨by simp [substTok, htok, i1], by simp [substTok, tokMatches, i2], ?_⟩
          intro ha
          have : hasAnon ps = false := by simpa [hasAnon] using ha
          simp [substTok, i3 this]
        · simp at hv
      | tag x =>
        simp only [tokValues] at hv
        simp only [distinctTags, Bool.and_eq_true, Bool.not_eq_true', List.contains_eq_mem,
          decide_eq_false_iff_not] at hd
        have hx : f x = some b := by
          rw [hf x (by simp [tagsOf]), tokValues_keeps ps ns _ m x hv hd.1, mapGet_mapSet_same]
          rfl
        obtain ⟨i1, i2, i3⟩ := ih ns _ hp' hs' hd.2 hv
          (fun t ht => hf t (by simp [tagsOf, ht]))
        refine ⟨by simp [substTok, hx, Tok.ok, hb, i1], by simp [substTok, hx, tokMatches, i2], ?_⟩
        intro ha
        have : hasAnon ps = false := by simpa [hasAnon] using ha
        simp [substTok, hx, i3 this]
      | star =>
        simp only [tokValues] at hv
        obtain ⟨i1, i2, i3⟩ := ih ns m0 hp' hs' (by simpa [distinctTags] using hd) hv
          (by simpa [tagsOf] using hf)
        refine ⟨by simp [substTok, Tok.ok, i1], by simp [substTok, tokMatches, i2], ?_⟩
        intro ha
        simp [hasAnon] at ha
      | full =>
        have := wfPat_full hp
        subst this
        refine ⟨by simp [substTok, Tok.ok, wfPat], by simp [substTok, tokMatches], ?_⟩
        intro ha
        simp [hasAnon] at ha

theorem replace_values_tok (pt st : List Tok) (m : List (Str × Str))
    (hp : wfPat pt = true) (hs : isName st = true) (hd : distinctTags pt = true)
    (hv : values (render pt) (render st) = some m) :
    «matches» (replaceTags (render pt) m) (render st) = true ∧
    (hasAnon pt = false → replaceTags (render pt) m = render st) := by
  have hv' : tokValues pt st [] = some m := by
    rw [← valuesLoop_spec pt st [] hp (isName_sOk hs)]; exact hv
  have hr : replaceTags (render pt) m = render (pt.map (substTok (mapGet m))) := by
    unfold replaceTags
    split
    · rename_i hm
      have : m = [] := by simpa using hm
      subst this
      rw [substTok_none (mapGet []) (fun _ => rfl)]
    · exact replaceLoop_spec _ pt hp
  obtain ⟨i1, i2, i3⟩ := tokValues_subst (mapGet m) pt st [] m hp ((isName_iff st).1 hs).2 hd hv'
    (fun _ _ => rfl)
  rw [hr]
  refine ⟨?_, fun ha => by rw [i3 ha]⟩
  unfold «matches»
  rw [matchesLoop_spec _ st i1 (isName_ok hs)]
  exact i2

/-- `ReplaceTag` then `Values` gives the value back -/
theorem tokValues_replaceTag (pt : List Tok) (t id : Str) (m0 : List (Str × Str))
    (hp : wfPat pt = true) (hd : distinctTags pt = true) :
    ∃ m, tokValues pt (pt.map (substTok (fun t' => if t = t' then some id else none))) m0 = some m ∧
      (t ∈ tagsOf pt → mapGet m t = some id) := by
  induction pt generalizing m0 with
  | nil => exact ⟨m0, by simp [tokValues], by simp [tagsOf]⟩
  | cons x ps ih =>
    have hp' := wfPat_tail hp
    cases x with
    | lit a =>
      obtain ⟨m, h1, h2⟩ := ih m0 hp' (by simpa [distinctTags] using hd)
      exact ⟨m, by simp [substTok, tokValues, h1], by simpa [tagsOf] using h2⟩
    | tag x =>
      simp only [distinctTags, Bool.and_eq_true, Bool.not_eq_true', List.contains_eq_mem,
        decide_eq_false_iff_not] at hd
      by_cases htx : t = x
      · subst htx
        obtain ⟨m, h1, h2⟩ := ih (mapSet m0 t id) hp' hd.2
        refine ⟨m, by simp [substTok, tokValues, h1], fun _ => ?_⟩
        rw [tokValues_keeps _ _ _ _ _ h1 hd.1, mapGet_mapSet_same]
      · obtain ⟨m, h1, h2⟩ := ih (mapSet m0 x (36 :: x)) hp' hd.2
        refine ⟨m, by simp [substTok, htx, tokValues, h1], fun ht => ?_⟩
        simp only [tagsOf, List.mem_cons] at ht
        rcases ht with ht | ht
        · exact absurd ht htx
        · exact h2 ht
    | star =>
      obtain ⟨m, h1, h2⟩ := ih m0 hp' (by simpa [distinctTags] using hd)
      exact ⟨m, by simp [substTok, tokValues, h1], by simpa [tagsOf] using h2⟩
    | full =>
      have := wfPat_full hp
      subst this
      exact ⟨m0, by simp [substTok, tokValues], by simp [tagsOf]⟩

theorem id_roundtrip_tok (pt : List Tok) (t id : Str) (hp : wfPat pt = true)
    (hd : distinctTags pt = true) (ht : t ∈ tagsOf pt) (hid : isValidPart id = true) :
    ∃ m, values (render pt) (replaceTag (render pt) t id) = some m ∧ mapGet m t = some id := by
  have hidok : (Tok.lit id).sOk := by
    simp [isValidPart] at hid
    refine ⟨by simpa using hid.1, ?_⟩
    intro x hx
    have := hid.2 x hx
    omega
  have hs : ∀ n ∈ pt.map (substTok (fun t' => if t = t' then some id else none)), n.sOk := by
    intro n hn
    simp only [List.mem_map] at hn
    obtain ⟨a, ha, rfl⟩ := hn
    have haok := Tok.ok_sOk (wfPat_all_ok hp a ha)
    cases a with
    | tag x =>
      by_cases htx : t = x
      · subst htx; simpa [substTok] using hidok
      · simpa [substTok, htx] using haok
    | lit s => simpa [substTok] using haok
    | star => simpa [substTok] using haok
    | full => simpa [substTok] using haok
  obtain ⟨m, h1, h2⟩ := tokValues_replaceTag pt t id [] hp hd
  refine ⟨m, ?_, h2 ht⟩
  unfold values replaceTag replace
  rw [replaceLoop_spec _ pt hp, valuesLoop_spec pt _ [] hp hs]
  exact h1

/-! ## covering -/

/-- a list of well-formed literal tokens (a name, possibly empty) -/
def IsLits (st : List Tok) : Prop := ∀ n ∈ st, ∃ s, n = .lit s ∧ litOk s = true

theorem IsLits.nil : IsLits [] := by intro n hn; simp at hn

theorem IsLits.cons {s : Str} {st : List Tok} (hs : litOk s = true) (h : IsLits st) :
    IsLits (.lit s :: st) := by
  intro n hn
  simp only [List.mem_cons] at hn
  rcases hn with rfl | hn
  · exact ⟨s, rfl, hs⟩
  · exact h n hn

theorem IsLits.ne_full {st : List Tok} (h : IsLits st) : ∀ n ∈ st, n ≠ .full := by
  intro n hn
  obtain ⟨s, rfl, _⟩ := h n hn
  simp

theorem isName_of_isLits {st : List Tok} (h : IsLits st) (hne : st ≠ []) : isName st = true :=
  (isName_iff st).2 ⟨hne, h⟩

/-- the simplest name token matched by a pattern token -/
def instTok : Tok → Tok
  | .lit a => .lit a
  | _ => .lit [97]

theorem instTok_lit {n : Tok} (hn : n.ok = true) : ∃ s, instTok n = .lit s ∧ litOk s = true := by
  cases n with
  | lit a => exact ⟨a, rfl, hn⟩
  | tag x => exact ⟨[97], rfl, by decide⟩
  | star => exact ⟨[97], rfl, by decide⟩
  | full => exact ⟨[97], rfl, by decide⟩

theorem isLits_inst {qt : List Tok} (hq : wfPat qt = true) : IsLits (qt.map instTok) := by
  intro n hn
  simp only [List.mem_map] at hn
  obtain ⟨a, ha, rfl⟩ := hn
  exact instTok_lit (wfPat_all_ok hq a ha)

theorem tokMatches_inst {qt : List Tok} (hq : wfPat qt = true) :
    tokMatches qt (qt.map instTok) = true := by
  induction qt with
  | nil => simp [tokMatches]
  | cons n qs ih =>
    have ih' := ih (wfPat_tail hq)
    cases n with
    | lit a => simp [instTok, tokMatches, ih']
    | tag x => simp [instTok, tokMatches, ih']
    | star => simp [instTok, tokMatches, ih']
    | full =>
      have := wfPat_full hq
      subst this
      simp [instTok, tokMatches]

theorem tokMatches_trans (pt qt st : List Tok) (hst : ∀ n ∈ st, n ≠ .full)
    (h1 : tokMatches pt qt = true) (h2 : tokMatches qt st = true) : tokMatches pt st = true := by
  induction pt generalizing qt st with
  | nil =>
    have : qt = [] := by simpa [tokMatches_nil_left] using h1
    subst this
    exact h2
  | cons t ps ih =>
    cases qt with
    | nil => simp [tokMatches_nil_right] at h1
    | cons n qs =>
      cases st with
      | nil => simp [tokMatches_nil_right] at h2
      | cons s ss =>
        have hs := hst s (List.mem_cons_self ..)
        have hss : ∀ n ∈ ss, n ≠ .full := fun x hx => hst x (List.mem_cons_of_mem _ hx)
        have hq : n ≠ .full → tokMatches qs ss = true := by
          intro hn
          cases n with
          | lit b => cases s <;> simp_all [tokMatches]
          | tag x => simp_all [tokMatches]
          | star => simp_all [tokMatches]
          | full => exact absurd rfl hn
        cases t with
        | lit a =>
          cases n with
          | lit b =>
            cases s with
            | lit c =>
              simp only [tokMatches, Bool.and_eq_true, beq_iff_eq] at h1 h2 ⊢
              exact ⟨h1.1.trans h2.1, ih qs ss hss h1.2 h2.2⟩
            | tag x => simp [tokMatches] at h2
            | star => simp [tokMatches] at h2
            | full => simp [tokMatches] at h2
          | tag x => simp [tokMatches] at h1
          | star => simp [tokMatches] at h1
          | full => simp [tokMatches] at h1
        | tag x =>
          simp only [tokMatches, Bool.and_eq_true, bne_iff_ne] at h1 ⊢
          exact ⟨hs, ih qs ss hss h1.2 (hq h1.1)⟩
        | star =>
          simp only [tokMatches, Bool.and_eq_true, bne_iff_ne] at h1 ⊢
          exact ⟨hs, ih qs ss hss h1.2 (hq h1.1)⟩
        | full =>
          cases ps with
          | nil => simp [tokMatches]
          | cons p ps => simp [tokMatches] at h1

/-- a literal different from a given one -/
def otherLit (a : Str) : Str := if a = [97] then [98] else [97]

theorem otherLit_ok (a : Str) : litOk (otherLit a) = true := by
  unfold otherLit; split <;> decide

theorem otherLit_ne (a : Str) : a ≠ otherLit a := by
  unfold otherLit; split <;> simp_all

theorem tokMatches_distinguish (pt qt : List Tok) (hp : wfPat pt = true) (hq : wfPat qt = true)
    (h : tokMatches pt qt = false) :
    ∃ st, IsLits st ∧ tokMatches qt st = true ∧ tokMatches pt st = false := by
  induction pt generalizing qt with
  | nil =>
    refine ⟨qt.map instTok, isLits_inst hq, tokMatches_inst hq, ?_⟩
    cases qt with
    | nil => simp [tokMatches] at h
    | cons n qs => simp [tokMatches]
  | cons t ps ih =>
    cases qt with
    | nil => exact ⟨[], IsLits.nil, by simp [tokMatches], by simp [tokMatches_nil_right]⟩
    | cons n qs =>
      have hp' := wfPat_tail hp
      have hq' := wfPat_tail hq
      have hn := wfPat_head hq
      -- the generic step for a wildcard head of `pt`
      have wild : (∀ s ss, tokMatches (t :: ps) (s :: ss) = (s != .full && tokMatches ps ss)) →
          ∃ st, IsLits st ∧ tokMatches (n :: qs) st = true ∧ tokMatches (t :: ps) st = false := by
        intro ht
        by_cases hnf : n = .full
        · subst hnf
          have := wfPat_full hq
          subst this
          cases ps with
          | nil =>
            refine ⟨[.lit [97], .lit [97]], IsLits.cons (by decide) (IsLits.cons (by decide) IsLits.nil),
              by simp [tokMatches], ?_⟩
            rw [ht]; simp [tokMatches]
          | cons p ps =>
            refine ⟨[.lit [97]], IsLits.cons (by decide) IsLits.nil, by simp [tokMatches], ?_⟩
            rw [ht]; simp [tokMatches_nil_right]
        · have h' : tokMatches ps qs = false := by
            rw [ht] at h; simpa [hnf] using h
          obtain ⟨ss, l1, l2, l3⟩ := ih qs hp' hq' h'
          obtain ⟨s, hs, hsok⟩ := instTok_lit hn
          refine ⟨instTok n :: ss, hs ▸ IsLits.cons hsok l1, ?_, ?_⟩
          · cases n with
            | lit b => simp [instTok, tokMatches, l2]
            | tag x => simp [instTok, tokMatches, l2]
            | star => simp [instTok, tokMatches, l2]
            | full => exact absurd rfl hnf
          · rw [ht, l3]; simp
      cases t with
      | lit a =>
        have lit_other : ∀ ss, IsLits ss → tokMatches (n :: qs) (.lit (otherLit a) :: ss) = true →
            ∃ st, IsLits st ∧ tokMatches (n :: qs) st = true ∧
              tokMatches (Tok.lit a :: ps) st = false := by
          intro ss l1 l2
          exact ⟨.lit (otherLit a) :: ss, IsLits.cons (otherLit_ok a) l1, l2,
            by simp [tokMatches, otherLit_ne a]⟩
        cases n with
        | lit b =>
          by_cases hab : a = b
          · subst hab
            have h' : tokMatches ps qs = false := by simpa [tokMatches] using h
            obtain ⟨ss, l1, l2, l3⟩ := ih qs hp' hq' h'
            exact ⟨.lit a :: ss, IsLits.cons hn l1, by simp [tokMatches, l2], by simp [tokMatches, l3]⟩
          · exact ⟨.lit b :: qs.map instTok, IsLits.cons hn (isLits_inst hq'),
              by simp [tokMatches, tokMatches_inst hq'], by simp [tokMatches, hab]⟩
        | tag x =>
          exact lit_other _ (isLits_inst hq') (by simp [tokMatches, tokMatches_inst hq'])
        | star =>
          exact lit_other _ (isLits_inst hq') (by simp [tokMatches, tokMatches_inst hq'])
        | full =>
          have := wfPat_full hq
          subst this
          exact lit_other [] IsLits.nil (by simp [tokMatches])
      | tag x => exact wild (fun s ss => by simp [tokMatches])
      | star => exact wild (fun s ss => by simp [tokMatches])
      | full =>
        have := wfPat_full hp
        subst this
        simp [tokMatches] at h

theorem covers_tok (pt qt : List Tok) (hp : wfPat pt = true) (hq : wfPat qt = true) (hne : qt ≠ []) :
    «matches» (render pt) (render qt) = true ↔
      ∀ st, isName st = true → «matches» (render qt) (render st) = true →
        «matches» (render pt) (render st) = true := by
  unfold «matches»
  rw [matchesLoop_spec pt qt hp (wfPat_all_ok hq)]
  constructor
  · intro h st hs h2
    rw [matchesLoop_spec qt st hq (isName_ok hs)] at h2
    rw [matchesLoop_spec pt st hp (isName_ok hs)]
    exact tokMatches_trans pt qt st (isName_ne_full hs) h h2
  · intro h
    cases hm : tokMatches pt qt with
    | true => rfl
    | false =>
      obtain ⟨st, l1, l2, l3⟩ := tokMatches_distinguish pt qt hp hq hm
      have hst : st ≠ [] := by
        rintro rfl
        cases qt with
        | nil => exact hne rfl
        | cons n qs => simp [tokMatches_nil_right] at l2
      have hs := isName_of_isLits l1 hst
      have := h st hs (by rw [matchesLoop_spec qt st hq (isName_ok hs)]; exact l2)
      rw [matchesLoop_spec pt st hp (isName_ok hs), l3] at this
      exact absurd this (by simp)

end GoRes.Pattern
