import GoRes.Model.Pattern
/-! Helper lemmas for the pattern model (C17, C09, C06). -/
namespace GoRes.Pattern
open GoRes Ch

end GoRes.Pattern
