import GoRes.Model.GetReq
/-! Lemmas about `Model/GetReq.lean`. -/
namespace GoRes.GetReq

/-- once replied, a state is frozen: later actions either do nothing or panic, and the recover arm
leaves it alone -/
theorem act_replied (s : St) (h : s.replied = true) (a : Act) :
    (act s a = .cont s) ∨ (∃ p, act s a = .panicked s p) := by
  cases a <;> simp [act, replyWith, h]

theorem runScript_replied (s : St) (h : s.replied = true) (script : List Act) :
    (runScript s script = .cont s) ∨ (∃ p, runScript s script = .panicked s p) := by
  induction script with
  | nil => exact Or.inl rfl
  | cons a r ih =>
    rcases act_replied s h a with h1 | ⟨p, h1⟩
    · simp only [runScript, h1]; exact ih
    · exact Or.inr ⟨p, by simp only [runScript, h1]⟩

theorem finish_replied (s : St) (h : s.replied = true) (missing : Str) (script : List Act) :
    (match runScript s script with
     | .cont s' => if s'.replied then s' else { s' with replied := true, err := some (.res codeInternal missing) }
     | .panicked s' p => recover s' p) = s := by
  rcases runScript_replied s h script with h1 | ⟨p, h1⟩
  · simp [h1, h]
  · simp [h1, recover, h]

theorem execute_reply (missing : Str) (a : Act) (r : List Act) (s' : St)
    (h : act {} a = .cont s') (hr : s'.replied = true) : execute true missing (a :: r) = s' := by
  have := finish_replied s' hr missing r
  simp only [execute, Bool.not_true, Bool.false_eq_true, if_false, runScript, h]
  exact this

theorem execute_neutral (missing : Str) (a : Act) (r : List Act)
    (h : act {} a = .cont {}) : execute true missing (a :: r) = execute true missing r := by
  simp only [execute, Bool.not_true, Bool.false_eq_true, if_false, runScript, h]

theorem execute_panic (missing : Str) (a : Act) (r : List Act) (p : PanicV)
    (h : act {} a = .panicked {} p) : execute true missing (a :: r) = recover {} p := by
  simp only [execute, Bool.not_true, Bool.false_eq_true, if_false, runScript, h]

/-- the model computes what the first replying (or panicking) action decides -/
theorem valueOf_eq_spec (hasGet : Bool) (missing : Str) (script : List Act) :
    valueOf hasGet missing script = spec hasGet missing script := by
  cases hasGet with
  | false => rfl
  | true =>
    induction script with
    | nil => rfl
    | cons a r ih =>
      cases a with
      | timeout =>
        have := execute_neutral missing .timeout r rfl
        simp only [valueOf, spec, firstOutcome, this] at ih ⊢; exact ih
      | forValue =>
        have := execute_neutral missing .forValue r rfl
        simp only [valueOf, spec, firstOutcome, this] at ih ⊢; exact ih
      | model v => simp [valueOf, spec, firstOutcome, execute_reply missing (.model v) r _ rfl rfl]
      | collection v => simp [valueOf, spec, firstOutcome, execute_reply missing (.collection v) r _ rfl rfl]
      | queryModel v => simp [valueOf, spec, firstOutcome, execute_reply missing (.queryModel v) r _ rfl rfl]
      | queryCollection v => simp [valueOf, spec, firstOutcome, execute_reply missing (.queryCollection v) r _ rfl rfl]
      | notFound => simp [valueOf, spec, firstOutcome, execute_reply missing .notFound r _ rfl rfl]
      | invalidQuery m => simp [valueOf, spec, firstOutcome, execute_reply missing (.invalidQuery m) r _ rfl rfl]
      | error e => simp [valueOf, spec, firstOutcome, execute_reply missing (.error e) r _ rfl rfl]
      | value => simp [valueOf, spec, firstOutcome, execute_panic missing .value r _ rfl, recover, toError]
      | requireValue => simp [valueOf, spec, firstOutcome, execute_panic missing .requireValue r _ rfl, recover, toError]
      | panic p =>
        cases p with
        | err e =>
          cases e with
          | res c m => simp [valueOf, spec, firstOutcome, execute_panic missing (.panic (.err (.res c m))) r _ rfl, recover, toError]
          | other t => simp [valueOf, spec, firstOutcome, execute_panic missing (.panic (.err (.other t))) r _ rfl, recover, toError]
        | str t => simp [valueOf, spec, firstOutcome, execute_panic missing (.panic (.str t)) r _ rfl, recover, toError]
        | val t => simp [valueOf, spec, firstOutcome, execute_panic missing (.panic (.val t)) r _ rfl, recover, toError]

end GoRes.GetReq
