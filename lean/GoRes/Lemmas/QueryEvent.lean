import GoRes.Model.QueryEvent
/-! Helper lemmas for the query event model (C15). -/
namespace GoRes.QueryEvent

end GoRes.QueryEvent
