import GoRes.Model.QueryEvent
/-! Helper lemmas for the query event model (C15). -/
namespace GoRes.QueryEvent

/-- the state carried by a step result -/
def QStep.st : QStep → RSt
  | .cont s => s
  | .panic s _ => s

/-- the number of responses published so far is 1 iff `replied` -/
def RInv (s : RSt) : Prop :=
  (s.out.filter isResponse).length = if s.replied then 1 else 0

theorem rinv_init : RInv {} := by simp [RInv]

theorem rinv_reply (s : RSt) (r : Reply) (hr : isResponse r = true) (h : RInv s) :
    RInv (reply s r) ∧ (reply s r).replied = true := by
  unfold reply
  by_cases hs : s.replied = true
  · simp [hs, h]
  · simp only [Bool.not_eq_true] at hs
    simp [RInv, hs, List.filter_append, hr] at h ⊢
    exact h

theorem rinv_qact (typ : Nat) (s : RSt) (a : QAct) (h : RInv s) : RInv (qact typ s a).st := by
  cases a with
  | model ok =>
    simp only [qact]; split
    · exact h
    · exact (rinv_reply s _ (by cases ok <;> rfl) h).1
  | collection ok =>
    simp only [qact]; split
    · exact h
    · exact (rinv_reply s _ (by cases ok <;> rfl) h).1
  | change n ok =>
    simp only [qact]; split
    · exact h
    · split
      · exact h
      · exact h
  | add idx ok =>
    simp only [qact]; split
    · exact h
    · split
      · exact h
      · exact h
  | remove idx =>
    simp only [qact]; split
    · exact h
    · split
      · exact h
      · exact h
  | notFound => exact (rinv_reply s _ rfl h).1
  | invalidQuery c => exact (rinv_reply s _ rfl h).1
  | error e =>
    cases e with
    | res c => exact (rinv_reply s _ rfl h).1
    | go => exact (rinv_reply s _ rfl h).1
  | timeout ms =>
    simp only [qact]; split
    · exact h
    · simp only [QStep.st, RInv, List.filter_append] at h ⊢
      rw [List.length_append, h]
      simp only [List.filter, isResponse, List.length_nil, Nat.add_zero]
      rfl
  | panic p => exact h

theorem rinv_runQ (typ : Nat) (as : List QAct) : ∀ s, RInv s → RInv (runQ typ s as).st := by
  induction as with
  | nil => intro s h; exact h
  | cons a as ih =>
    intro s h
    have h1 := rinv_qact typ s a h
    simp only [runQ]
    cases hq : qact typ s a with
    | cont s' => rw [hq] at h1; exact ih s' h1
    | panic s' p => rw [hq] at h1; exact h1

/-! ## life of a query event -/

theorem step_expired (typ : Nat) (s : St) (h : s.expired = true) (e : Ev) : step typ s e = (s, []) := by
  cases e <;> simp [step, h]

theorem run_expired (typ : Nat) (s : St) (h : s.expired = true) (evs : List Ev) :
    (run typ s evs).1 = s ∧ ∀ r ∈ (run typ s evs).2, r = [] := by
  induction evs with
  | nil => simp [run]
  | cons e es ih =>
    simp only [run, step_expired typ s h e]
    refine ⟨ih.1, ?_⟩
    intro r hr
    simp only [List.mem_cons] at hr
    rcases hr with rfl | hr
    · rfl
    · exact ih.2 r hr

/-- invariant of the life of a query event -/
def SInv (s : St) : Prop :=
  s.nilCalls = (if s.expired then 1 else 0) ∧ (s.expired = true → s.listener = false ∧ s.subscribed = false)

theorem sinv_init : SInv {} := by simp [SInv]

theorem sinv_step (typ : Nat) (s : St) (e : Ev) (h : SInv s) : SInv (step typ s e).1 := by
  by_cases hx : s.expired = true
  · rw [step_expired typ s hx e]; exact h
  · simp only [Bool.not_eq_true] at hx
    cases e with
    | request p sc => simpa [step, hx, SInv] using h
    | expire =>
      have := h.1
      simp [hx] at this
      simp [step, hx, SInv, this]

theorem run_cons_fst (typ : Nat) (s : St) (e : Ev) (es : List Ev) :
    (run typ s (e :: es)).1 = (run typ (step typ s e).1 es).1 := by
  simp [run]

theorem sinv_run (typ : Nat) (evs : List Ev) : ∀ s, SInv s → SInv (run typ s evs).1 := by
  induction evs with
  | nil => intro s h; exact h
  | cons e es ih =>
    intro s h
    rw [run_cons_fst]
    exact ih _ (sinv_step typ s e h)

theorem run_expire_mem (typ : Nat) (evs : List Ev) :
    ∀ s, Ev.expire ∈ evs → (run typ s evs).1.expired = true := by
  induction evs with
  | nil => intro s h; cases h
  | cons e es ih =>
    intro s h
    rw [run_cons_fst]
    by_cases hx : (step typ s e).1.expired = true
    · rw [(run_expired typ _ hx es).1]; exact hx
    · simp only [List.mem_cons] at h
      rcases h with rfl | h
      · exfalso; apply hx
        by_cases hs : s.expired = true <;> simp [step, hs]
      · exact ih _ h

end GoRes.QueryEvent
