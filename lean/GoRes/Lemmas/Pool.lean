import GoRes.Model.Pool
/-! Helper lemmas and invariants for the worker-pool model (C01, C02, C03, C16). -/
namespace GoRes.Pool

/-! ## normal forms of the transitions -/

/-- worker `i` (holding the lock, owning no item) looks at the queue -/
def relook (s : St) (i : Nat) : St :=
  setWorker s i (loopTop s.wq s.rwork).1 (loopTop s.wq s.rwork).2.1 (loopTop s.wq s.rwork).2.2

/-- virtual half-step of `wDone` with nothing pending: the item is retired, the worker is at the loop top -/
def finish (s : St) (i : Nat) (w : Work) (cb : Nat) : St :=
  { s with finished := s.finished ++ [cb], workers := s.workers.set i .idle, rwork := retire w.wid s.rwork }

/-- `wDone` with a pending callback -/
def next (s : St) (i : Nat) (w : Work) (cb f : Nat) (fs : List Nat) : St :=
  setWorker { s with finished := s.finished ++ [cb] } i (.running { w with pending := fs } f) s.wq s.rwork

theorem step_wStart (s : St) (i : Nat) :
    step s (.wStart i) = if s.workers[i]? = some .idle then some (relook s i) else none := by
  simp only [step]
  split
  · next h => simp [h, relook]
  · next h => split
              · next h2 => exact absurd h2 h
              · rfl

theorem step_wWake (s : St) (i : Nat) :
    step s (.wWake i) = if s.workers[i]? = some (.waiting true) then some (relook s i) else none := by
  simp only [step]
  split
  · next h => simp [h, relook]
  · next h => split
              · next h2 => exact absurd h2 h
              · rfl

theorem step_wSpurious (s : St) (i : Nat) :
    step s (.wSpurious i) = if s.workers[i]? = some (.waiting false) then some (relook s i) else none := by
  simp only [step]
  split
  · next h => simp [h, relook]
  · next h => split
              · next h2 => exact absurd h2 h
              · rfl

theorem relook_finish (s : St) (i : Nat) (w : Work) (cb : Nat) :
    relook (finish s i w cb) i =
      setWorker { s with finished := s.finished ++ [cb] } i (loopTop s.wq (retire w.wid s.rwork)).1
        (loopTop s.wq (retire w.wid s.rwork)).2.1 (loopTop s.wq (retire w.wid s.rwork)).2.2 := by
  simp [relook, finish, setWorker]

theorem step_wDone_elim {s s' : St} {i : Nat} (h : step s (.wDone i) = some s') :
    ∃ w cb, s.workers[i]? = some (.running w cb) ∧
      ((∃ f fs, w.pending = f :: fs ∧ s' = next s i w cb f fs) ∨
       (w.pending = [] ∧ s' = relook (finish s i w cb) i)) := by
  simp only [step] at h
  split at h
  · next w cb hw =>
    refine ⟨w, cb, hw, ?_⟩
    split at h
    · next f fs hp => left; exact ⟨f, fs, hp, by simpa [next] using h.symm⟩
    · next hp => right; refine ⟨hp, ?_⟩; rw [relook_finish]; simpa using h.symm
  · cases h

def subAppend (s : St) (q : List Work) (wid cb : Nat) (rest : List Sub) : St :=
  { s with wq := some (q.map (appendWork wid cb)), workers := s.workers.map (appendWS wid cb),
           inflight := rest, accepted := s.accepted ++ [(wid, cb)] }

def subNew (s : St) (q : List Work) (wid cb : Nat) (infl : List Sub) : St :=
  { s with wq := some (q ++ [⟨wid, [cb]⟩]), rwork := if wid = 0 then s.rwork else wid :: s.rwork,
           inflight := infl, accepted := s.accepted ++ [(wid, cb)] }

theorem step_subLock_elim {s s' : St} {tid : Nat} (h : step s (.subLock tid) = some s') :
    ∃ t wid cb, s.inflight.find? (·.tid = tid) = some ⟨t, wid, cb, false⟩ ∧
      ((s.wq = none ∧ s' = { s with inflight := s.inflight.filter (·.tid ≠ tid) }) ∨
       (∃ q, s.wq = some q ∧ wid ≠ 0 ∧ wid ∈ s.rwork ∧
          s' = subAppend s q wid cb (s.inflight.filter (·.tid ≠ tid))) ∨
       (∃ q, s.wq = some q ∧ ¬ (wid ≠ 0 ∧ wid ∈ s.rwork) ∧
          s' = subNew s q wid cb (s.inflight.filter (·.tid ≠ tid) ++ [⟨tid, wid, cb, true⟩]))) := by
  simp only [step] at h
  split at h
  · next t wid cb hf =>
    refine ⟨t, wid, cb, hf, ?_⟩
    split at h
    · next hq => left; exact ⟨hq, by simpa using h.symm⟩
    · next q hq =>
      right
      split at h
      · next hc => left; exact ⟨q, hq, hc.1, hc.2, by simpa [subAppend] using h.symm⟩
      · next hc => right; exact ⟨q, hq, hc, by simpa [subNew] using h.symm⟩
  · cases h

theorem step_subSignal_elim {s s' : St} {tid : Nat} (h : step s (.subSignal tid) = some s') :
    ∃ t wid cb, s.inflight.find? (·.tid = tid) = some ⟨t, wid, cb, true⟩ ∧
      ((∃ i, s.waitOrder.find? (fun i => s.workers[i]? = some (.waiting false)) = some i ∧
          s' = { s with inflight := s.inflight.filter (·.tid ≠ tid), workers := s.workers.set i (.waiting true) }) ∨
       (s.waitOrder.find? (fun i => s.workers[i]? = some (.waiting false)) = none ∧
          s' = { s with inflight := s.inflight.filter (·.tid ≠ tid) })) := by
  simp only [step] at h
  split at h
  · next t wid cb hf =>
    refine ⟨t, wid, cb, hf, ?_⟩
    split at h
    · next i hi => left; exact ⟨i, hi, by simpa using h.symm⟩
    · next hi => right; exact ⟨hi, by simpa using h.symm⟩
  · cases h

theorem step_serve (s : St) (n : Nat) : step s (.serve n) =
    if s.phase = .stopped ∧ s.workers.all (· = .exited) then
      some { s with phase := .started, epoch := s.epoch + 1, wq := some [], rwork := [],
                    workers := List.replicate n .idle, waitOrder := [] } else none := rfl

theorem step_subCheck_elim {s s' : St} {tid wid cb : Nat} {pass : Bool}
    (h : step s (.subCheck tid wid cb pass) = some s') :
    s' = s ∨ (s.inflight.all (·.tid ≠ tid) ∧ s' = { s with inflight := s.inflight ++ [⟨tid, wid, cb, false⟩] }) := by
  simp only [step] at h
  split at h
  · cases h
  · next hn =>
    split at h
    · split at h
      · right; refine ⟨?_, by simpa using h.symm⟩
        simpa using hn
      · cases h
    · left; simpa using h.symm

theorem step_shutdownCas (s : St) : step s .shutdownCas =
    if s.phase = .started then some { s with phase := .stopping } else none := rfl
theorem step_closeLock (s : St) : step s .closeLock =
    if s.phase = .stopping ∧ s.wq.isSome then some { s with wq := none } else none := rfl
theorem step_closeBroadcast (s : St) : step s .closeBroadcast =
    if s.phase = .stopping ∧ s.wq.isNone then
      some { s with workers := s.workers.map fun | .waiting _ => .waiting true | x => x } else none := rfl
theorem step_shutdownDone (s : St) : step s .shutdownDone =
    if s.phase = .stopping ∧ s.wq.isNone ∧ s.workers.all (· = .exited) then some { s with phase := .stopped } else none := rfl

/-- the state after `serve n` -/
def served (s : St) (n : Nat) : St :=
  { s with phase := .started, epoch := s.epoch + 1, wq := some [], rwork := [],
           workers := List.replicate n .idle, waitOrder := [] }

/-- the state after `closeBroadcast` -/
def broadcast (s : St) : St :=
  { s with workers := s.workers.map fun | .waiting _ => .waiting true | x => x }

/-- `step` as a relation, one constructor per branch of the code -/
inductive Step : St → Act → St → Prop
  | serve (s : St) (n : Nat) : s.phase = .stopped → s.workers.all (· = .exited) = true →
      Step s (.serve n) (served s n)
  | checkFail (s : St) (tid wid cb : Nat) (pass : Bool) : Step s (.subCheck tid wid cb pass) s
  | checkPass (s : St) (tid wid cb : Nat) (pass : Bool) : s.inflight.all (·.tid ≠ tid) = true →
      Step s (.subCheck tid wid cb pass) { s with inflight := s.inflight ++ [⟨tid, wid, cb, false⟩] }
  | lockClosed (s : St) (tid t wid cb : Nat) : s.inflight.find? (·.tid = tid) = some ⟨t, wid, cb, false⟩ →
      s.wq = none → Step s (.subLock tid) { s with inflight := s.inflight.filter (·.tid ≠ tid) }
  | lockAppend (s : St) (tid t wid cb : Nat) (q : List Work) :
      s.inflight.find? (·.tid = tid) = some ⟨t, wid, cb, false⟩ → s.wq = some q → wid ≠ 0 → wid ∈ s.rwork →
      Step s (.subLock tid) (subAppend s q wid cb (s.inflight.filter (·.tid ≠ tid)))
  | lockNew (s : St) (tid t wid cb : Nat) (q : List Work) :
      s.inflight.find? (·.tid = tid) = some ⟨t, wid, cb, false⟩ → s.wq = some q → ¬ (wid ≠ 0 ∧ wid ∈ s.rwork) →
      Step s (.subLock tid) (subNew s q wid cb (s.inflight.filter (·.tid ≠ tid) ++ [⟨tid, wid, cb, true⟩]))
  | signalSome (s : St) (tid t wid cb i : Nat) : s.inflight.find? (·.tid = tid) = some ⟨t, wid, cb, true⟩ →
      s.waitOrder.find? (fun i => s.workers[i]? = some (.waiting false)) = some i →
      Step s (.subSignal tid)
        { s with inflight := s.inflight.filter (·.tid ≠ tid), workers := s.workers.set i (.waiting true) }
  | signalNone (s : St) (tid t wid cb : Nat) : s.inflight.find? (·.tid = tid) = some ⟨t, wid, cb, true⟩ →
      s.waitOrder.find? (fun i => s.workers[i]? = some (.waiting false)) = none →
      Step s (.subSignal tid) { s with inflight := s.inflight.filter (·.tid ≠ tid) }
  | wStart (s : St) (i : Nat) : s.workers[i]? = some .idle → Step s (.wStart i) (relook s i)
  | wWake (s : St) (i : Nat) : s.workers[i]? = some (.waiting true) → Step s (.wWake i) (relook s i)
  | wSpurious (s : St) (i : Nat) : s.workers[i]? = some (.waiting false) → Step s (.wSpurious i) (relook s i)
  | doneNext (s : St) (i : Nat) (w : Work) (cb f : Nat) (fs : List Nat) :
      s.workers[i]? = some (.running w cb) → w.pending = f :: fs → Step s (.wDone i) (next s i w cb f fs)
  | doneLast (s : St) (i : Nat) (w : Work) (cb : Nat) :
      s.workers[i]? = some (.running w cb) → w.pending = [] → Step s (.wDone i) (relook (finish s i w cb) i)
  | shutdownCas (s : St) : s.phase = .started → Step s .shutdownCas { s with phase := .stopping }
  | closeLock (s : St) : s.phase = .stopping → s.wq.isSome = true → Step s .closeLock { s with wq := none }
  | closeBroadcast (s : St) : s.phase = .stopping → s.wq = none → Step s .closeBroadcast (broadcast s)
  | shutdownDone (s : St) : s.phase = .stopping → s.wq = none → s.workers.all (· = .exited) = true →
      Step s .shutdownDone { s with phase := .stopped }

theorem step_Step {s s' : St} {a : Act} (hs : step s a = some s') : Step s a s' := by
  cases a with
  | serve n =>
    rw [step_serve] at hs; split at hs
    · next h => cases hs; exact .serve s n h.1 h.2
    · cases hs
  | subCheck tid wid cb pass =>
    rcases step_subCheck_elim hs with rfl | ⟨h, rfl⟩
    · exact .checkFail ..
    · exact .checkPass _ _ _ _ _ h
  | subLock tid =>
    obtain ⟨t, wid, cb, hf, h⟩ := step_subLock_elim hs
    rcases h with ⟨hq, rfl⟩ | ⟨q, hq, h0, hm, rfl⟩ | ⟨q, hq, hc, rfl⟩
    · exact .lockClosed _ _ _ _ _ hf hq
    · exact .lockAppend _ _ _ _ _ _ hf hq h0 hm
    · exact .lockNew _ _ _ _ _ _ hf hq hc
  | subSignal tid =>
    obtain ⟨t, wid, cb, hf, h⟩ := step_subSignal_elim hs
    rcases h with ⟨i, hi, rfl⟩ | ⟨hi, rfl⟩
    · exact .signalSome _ _ _ _ _ _ hf hi
    · exact .signalNone _ _ _ _ _ hf hi
  | wStart i =>
    rw [step_wStart] at hs; split at hs
    · next h => cases hs; exact .wStart _ _ h
    · cases hs
  | wWake i =>
    rw [step_wWake] at hs; split at hs
    · next h => cases hs; exact .wWake _ _ h
    · cases hs
  | wSpurious i =>
    rw [step_wSpurious] at hs; split at hs
    · next h => cases hs; exact .wSpurious _ _ h
    · cases hs
  | wDone i =>
    obtain ⟨w, cb, hw, h⟩ := step_wDone_elim hs
    rcases h with ⟨f, fs, hp, rfl⟩ | ⟨hp, rfl⟩
    · exact .doneNext _ _ _ _ _ _ hw hp
    · exact .doneLast _ _ _ _ hw hp
  | shutdownCas =>
    rw [step_shutdownCas] at hs; split at hs
    · next h => cases hs; exact .shutdownCas _ h
    · cases hs
  | closeLock =>
    rw [step_closeLock] at hs; split at hs
    · next h => cases hs; exact .closeLock _ h.1 h.2
    · cases hs
  | closeBroadcast =>
    rw [step_closeBroadcast] at hs; split at hs
    · next h => cases hs; exact .closeBroadcast _ h.1 (by simpa using h.2)
    · cases hs
  | shutdownDone =>
    rw [step_shutdownDone] at hs; split at hs
    · next h => cases hs; exact .shutdownDone _ h.1 (by simpa using h.2.1) h.2.2
    · cases hs

/-! ## generic list facts -/

theorem sum_map_set {α} (f : α → Nat) : ∀ (l : List α) (i : Nat) (old x : α), l[i]? = some old →
    ((l.set i x).map f).sum + f old = (l.map f).sum + f x
  | [], i, old, x, h => by simp at h
  | a :: l, 0, old, x, h => by
    simp at h; subst h; simp only [List.set, List.map_cons, List.sum_cons]; omega
  | a :: l, i+1, old, x, h => by
    simp at h
    have := sum_map_set f l i old x h
    simp only [List.set, List.map_cons, List.sum_cons]; omega

theorem all_exited_getElem? {l : List WState} (h : l.all (· = .exited) = true) {i : Nat} {ws : WState}
    (hi : l[i]? = some ws) : ws = .exited := by
  have := List.mem_of_getElem? hi
  simp at h
  exact h ws this

theorem mem_set_cases {α} {l : List α} {i : Nat} {x y : α} (h : y ∈ l.set i x) : y = x ∨ y ∈ l := by
  rcases List.mem_or_eq_of_mem_set h with h | h
  · exact Or.inr h
  · exact Or.inl h

/-! ## the closed queue -/

theorem relook_of_closed {s : St} (i : Nat) (hq : s.wq = none) :
    relook s i = setWorker s i .exited none s.rwork := by
  simp [relook, hq, loopTop]

@[simp] theorem setWorker_wq (s : St) (i ws wq rw) : (setWorker s i ws wq rw).wq = wq := rfl
@[simp] theorem setWorker_rwork (s : St) (i ws wq rw) : (setWorker s i ws wq rw).rwork = rw := rfl
@[simp] theorem setWorker_workers (s : St) (i ws wq rw) : (setWorker s i ws wq rw).workers = s.workers.set i ws := rfl
@[simp] theorem setWorker_started (s : St) (i ws wq rw) : (setWorker s i ws wq rw).started = s.started ++ startedOf ws := rfl
@[simp] theorem setWorker_phase (s : St) (i ws wq rw) : (setWorker s i ws wq rw).phase = s.phase := rfl
@[simp] theorem setWorker_accepted (s : St) (i ws wq rw) : (setWorker s i ws wq rw).accepted = s.accepted := rfl
@[simp] theorem setWorker_inflight (s : St) (i ws wq rw) : (setWorker s i ws wq rw).inflight = s.inflight := rfl

/-! ## counting live items, listing pending callbacks -/

def isW (g : Nat) (w : Work) : Bool := w.wid == g
def isWS (g : Nat) (ws : WState) : Bool := wsWid ws == some g
def cntQ (g : Nat) (q : List Work) : Nat := q.countP (isW g)
def cntW (g : Nat) (ws : List WState) : Nat := ws.countP (isWS g)

theorem cnt_eq (g : Nat) (s : St) : cnt g s = cntQ g (s.wq.getD []) + cntW g s.workers := rfl

/-- the pending callbacks of a work item, tagged with its group -/
def wPairs (w : Work) : List (Nat × Nat) := w.pending.map fun c => (w.wid, c)
def pairsQ (q : List Work) : List (Nat × Nat) := q.flatMap wPairs
def wsPairs : WState → List (Nat × Nat)
  | .running w _ => wPairs w
  | _ => []
def pairsW (ws : List WState) : List (Nat × Nat) := ws.flatMap wsPairs

@[simp] theorem cbsOf_nil (g : Nat) : cbsOf g [] = [] := rfl
@[simp] theorem cbsOf_append (g : Nat) (a b : List (Nat × Nat)) : cbsOf g (a ++ b) = cbsOf g a ++ cbsOf g b := by
  simp [cbsOf]
theorem cbsOf_cons (g : Nat) (x : Nat × Nat) (l : List (Nat × Nat)) :
    cbsOf g (x :: l) = (if x.1 = g then [x.2] else []) ++ cbsOf g l := by
  simp only [cbsOf, List.filter_cons]
  by_cases h : x.1 = g <;> simp [h]
theorem cbsOf_single (g a c : Nat) : cbsOf g [(a, c)] = if a = g then [c] else [] := by
  simp [cbsOf_cons]
theorem cbsOf_wPairs (g : Nat) (w : Work) : cbsOf g (wPairs w) = if w.wid = g then w.pending else [] := by
  simp only [cbsOf, wPairs]
  by_cases h : w.wid = g
  · simp [h, List.filter_map, Function.comp_def]
  · simp [h, List.filter_map, Function.comp_def]

@[simp] theorem pairsQ_nil : pairsQ [] = [] := rfl
@[simp] theorem pairsQ_cons (w : Work) (q : List Work) : pairsQ (w :: q) = wPairs w ++ pairsQ q := by
  simp [pairsQ]
@[simp] theorem pairsQ_append (a b : List Work) : pairsQ (a ++ b) = pairsQ a ++ pairsQ b := by
  simp [pairsQ]
@[simp] theorem pairsW_nil : pairsW [] = [] := rfl
@[simp] theorem pairsW_cons (w : WState) (q : List WState) : pairsW (w :: q) = wsPairs w ++ pairsW q := by
  simp [pairsW]
@[simp] theorem pairsW_append (a b : List WState) : pairsW (a ++ b) = pairsW a ++ pairsW b := by
  simp [pairsW]
@[simp] theorem cntQ_nil (g : Nat) : cntQ g [] = 0 := rfl
@[simp] theorem cntW_nil (g : Nat) : cntW g [] = 0 := rfl
theorem cntQ_cons (g : Nat) (w : Work) (q : List Work) :
    cntQ g (w :: q) = cntQ g q + if w.wid = g then 1 else 0 := by
  simp [cntQ, List.countP_cons, isW]
@[simp] theorem cntQ_append (g : Nat) (a b : List Work) : cntQ g (a ++ b) = cntQ g a + cntQ g b := by
  simp [cntQ, List.countP_append]
theorem cntW_cons (g : Nat) (w : WState) (q : List WState) :
    cntW g (w :: q) = cntW g q + if wsWid w = some g then 1 else 0 := by
  simp [cntW, List.countP_cons, isWS]
@[simp] theorem cntW_append (g : Nat) (a b : List WState) : cntW g (a ++ b) = cntW g a + cntW g b := by
  simp [cntW, List.countP_append]

theorem pendingOf_eq (g : Nat) (s : St) :
    pendingOf g s = cbsOf g (pairsQ (s.wq.getD [])) ++ cbsOf g (pairsW s.workers) := by
  unfold pendingOf
  congr 1
  · generalize s.wq.getD [] = q
    induction q with
    | nil => rfl
    | cons w q ih =>
      simp only [List.filter_cons, pairsQ_cons, cbsOf_append, cbsOf_wPairs]
      by_cases h : w.wid = g
      · simp [h, ih]
      · simp [h, ih]
  · generalize s.workers = l
    induction l with
    | nil => rfl
    | cons w l ih =>
      simp only [List.flatMap_cons, pairsW_cons, cbsOf_append, ih]
      congr 1
      cases w <;> simp [wsPairs, cbsOf_wPairs]

theorem cbsOf_pairsQ_of_cnt {g : Nat} {q : List Work} (h : cntQ g q = 0) : cbsOf g (pairsQ q) = [] := by
  induction q with
  | nil => rfl
  | cons w q ih =>
    rw [cntQ_cons] at h
    have hw : ¬ w.wid = g := by intro hw; simp [hw] at h
    simp only [hw, if_false, Nat.add_zero] at h
    simp [cbsOf_wPairs, hw, ih h]

theorem cbsOf_wsPairs_of_ne {g : Nat} {w : WState} (h : wsWid w ≠ some g) : cbsOf g (wsPairs w) = [] := by
  cases w <;> simp [wsPairs]
  next w c =>
    simp [wsWid] at h
    simp [cbsOf_wPairs, h]

theorem cbsOf_pairsW_of_cnt {g : Nat} {q : List WState} (h : cntW g q = 0) : cbsOf g (pairsW q) = [] := by
  induction q with
  | nil => rfl
  | cons w q ih =>
    rw [cntW_cons] at h
    have hw : ¬ wsWid w = some g := by intro hw; simp [hw] at h
    simp only [hw, if_false, Nat.add_zero] at h
    simp [cbsOf_wsPairs_of_ne hw, ih h]

theorem wsPairs_of_wsWid_none {w : WState} (h : wsWid w = none) : wsPairs w = [] := by
  cases w <;> simp_all [wsWid, wsPairs]

theorem set_split {α} {l : List α} {i : Nat} {old : α} (h : l[i]? = some old) :
    ∃ A B, l = A ++ old :: B ∧ A.length = i ∧ ∀ x, l.set i x = A ++ x :: B := by
  induction l generalizing i with
  | nil => simp at h
  | cons a l ih =>
    cases i with
    | zero => simp at h; subst h; exact ⟨[], l, rfl, rfl, fun x => rfl⟩
    | succ i =>
      simp at h
      obtain ⟨A, B, h1, h2, h3⟩ := ih h
      exact ⟨a :: A, B, by simp [h1], by simp [h2], fun x => by simp [List.set, h3 x]⟩

/-! ## the registration invariant of an open queue -/

/-- `rw` registers exactly the groups ≠ 0 that have a live item; `ex g` counts the live items of `g`
outside the queue -/
structure Core (q : List Work) (rw : List Nat) (ex : Nat → Nat) : Prop where
  nodup : rw.Nodup
  le : ∀ g, g ≠ 0 → cntQ g q + ex g ≤ 1
  mem : ∀ g, g ≠ 0 → (g ∈ rw ↔ cntQ g q + ex g = 1)

theorem Core.of_eq {q q' : List Work} {rw : List Nat} {ex ex' : Nat → Nat} (h : Core q rw ex)
    (hc : ∀ g, g ≠ 0 → cntQ g q + ex g = cntQ g q' + ex' g) : Core q' rw ex' :=
  ⟨h.nodup, fun g hg => hc g hg ▸ h.le g hg, fun g hg => hc g hg ▸ h.mem g hg⟩

theorem nodup_retire {rw : List Nat} (wid : Nat) (h : rw.Nodup) : (retire wid rw).Nodup := by
  unfold retire; split
  · exact h
  · exact h.erase _

theorem mem_retire_iff {rw : List Nat} {wid g : Nat} (h : rw.Nodup) (hg : g ≠ 0) :
    g ∈ retire wid rw ↔ g ≠ wid ∧ g ∈ rw := by
  unfold retire; split
  · next h0 => subst h0; simp [hg]
  · exact h.mem_erase_iff

theorem Core.retire {q q' : List Work} {rw : List Nat} {ex ex' : Nat → Nat} (h : Core q rw ex) (wid : Nat)
    (hc : ∀ g, g ≠ 0 → cntQ g q + ex g = cntQ g q' + ex' g + if wid = g then 1 else 0) :
    Core q' (retire wid rw) ex' := by
  refine ⟨nodup_retire wid h.nodup, fun g hg => ?_, fun g hg => ?_⟩
  · have := h.le g hg; have := hc g hg; omega
  · rw [mem_retire_iff h.nodup hg]
    have h1 := h.le g hg; have h2 := hc g hg; have h3 := h.mem g hg
    by_cases hw : wid = g
    · simp only [hw, if_true] at h2
      constructor
      · intro hh; exact absurd hw.symm hh.1
      · intro hh; omega
    · simp only [hw, if_false, Nat.add_zero] at h2
      rw [h3, h2]
      constructor
      · exact fun hh => hh.2
      · exact fun hh => ⟨fun e => hw e.symm, hh⟩

/-- the worker state a worker at the loop top ends in -/
def optState : Option (Work × Nat) → WState
  | some (w, f) => .running w f
  | none => .waiting false

theorem loopTop_some (q : List Work) (rw : List Nat) :
    loopTop (some q) rw = (optState (takeNext q rw).1, some (takeNext q rw).2.1, (takeNext q rw).2.2) := by
  simp only [loopTop]
  split
  · next h => simp [h, optState]
  · next h => simp [h, optState]

theorem takeNext_cons_some (w : Work) (rest : List Work) (rw : List Nat) {f : Nat} {fs : List Nat}
    (h : w.pending = f :: fs) : takeNext (w :: rest) rw = (some ({ w with pending := fs }, f), rest, rw) := by
  simp [takeNext, h]

theorem takeNext_cons_nil (w : Work) (rest : List Work) (rw : List Nat)
    (h : w.pending = []) : takeNext (w :: rest) rw = takeNext rest (retire w.wid rw) := by
  simp [takeNext, h]

theorem takeNext_core {q : List Work} {rw : List Nat} {ex : Nat → Nat} (h : Core q rw ex) :
    Core (takeNext q rw).2.1 (takeNext q rw).2.2
      (fun g => ex g + if wsWid (optState (takeNext q rw).1) = some g then 1 else 0) := by
  induction q generalizing rw with
  | nil => simpa [takeNext, optState, wsWid] using h
  | cons w rest ih =>
    cases hp : w.pending with
    | cons f fs =>
      rw [takeNext_cons_some w rest rw hp]
      refine h.of_eq fun g hg => ?_
      simp only [optState, wsWid, cntQ_cons, Option.some.injEq]
      omega
    | nil =>
      rw [takeNext_cons_nil w rest rw hp]
      apply ih
      refine h.retire w.wid fun g hg => ?_
      simp only [cntQ_cons]; omega

theorem takeNext_pairs (q : List Work) (rw : List Nat) :
    pairsQ q = startedOf (optState (takeNext q rw).1) ++ wsPairs (optState (takeNext q rw).1) ++
      pairsQ (takeNext q rw).2.1 := by
  induction q generalizing rw with
  | nil => simp [takeNext, optState, startedOf, wsPairs]
  | cons w rest ih =>
    cases hp : w.pending with
    | cons f fs =>
      rw [takeNext_cons_some w rest rw hp]
      simp [optState, startedOf, wsPairs, wPairs, hp]
    | nil =>
      rw [takeNext_cons_nil w rest rw hp, ← ih]
      simp [wPairs, hp]

theorem takeNext_none {q : List Work} {rw : List Nat} (h : (takeNext q rw).1 = none) : (takeNext q rw).2.1 = [] := by
  induction q generalizing rw with
  | nil => rfl
  | cons w rest ih =>
    cases hp : w.pending with
    | cons f fs => rw [takeNext_cons_some w rest rw hp] at h; cases h
    | nil => rw [takeNext_cons_nil w rest rw hp] at h ⊢; exact ih h

/-! ## how the transitions change the counts -/

theorem cntW_set {l : List WState} {i : Nat} {old : WState} (h : l[i]? = some old) (g : Nat) (x : WState) :
    cntW g (l.set i x) + (if wsWid old = some g then 1 else 0) = cntW g l + if wsWid x = some g then 1 else 0 := by
  obtain ⟨A, B, hl, _, hset⟩ := set_split h
  rw [hset x]; rw [hl]
  simp only [cntW_append, cntW_cons]; omega

theorem countP_pairsW_set {l : List WState} {i : Nat} {old : WState} (h : l[i]? = some old)
    (p : Nat × Nat → Bool) (x : WState) :
    (pairsW (l.set i x)).countP p + (wsPairs old).countP p = (pairsW l).countP p + (wsPairs x).countP p := by
  obtain ⟨A, B, hl, _, hset⟩ := set_split h
  rw [hset x]; rw [hl]
  simp only [pairsW_append, pairsW_cons, List.countP_append]; omega

@[simp] theorem appendWork_wid (wid cb : Nat) (w : Work) : (appendWork wid cb w).wid = w.wid := by
  unfold appendWork; split <;> rfl

@[simp] theorem wsWid_appendWS (wid cb : Nat) (w : WState) : wsWid (appendWS wid cb w) = wsWid w := by
  cases w <;> simp [appendWS, wsWid]

@[simp] theorem cntQ_map_appendWork (g wid cb : Nat) (q : List Work) :
    cntQ g (q.map (appendWork wid cb)) = cntQ g q := by
  induction q with
  | nil => rfl
  | cons w q ih => simp [cntQ_cons, ih]

@[simp] theorem cntW_map_appendWS (g wid cb : Nat) (q : List WState) :
    cntW g (q.map (appendWS wid cb)) = cntW g q := by
  induction q with
  | nil => rfl
  | cons w q ih => simp [cntW_cons, ih]

theorem wPairs_appendWork (wid cb : Nat) (w : Work) :
    wPairs (appendWork wid cb w) = wPairs w ++ if w.wid = wid then [(wid, cb)] else [] := by
  unfold appendWork
  split
  · next h => simp [wPairs, h]
  · next h => simp

theorem wsPairs_appendWS (wid cb : Nat) (w : WState) :
    wsPairs (appendWS wid cb w) = wsPairs w ++ if wsWid w = some wid then [(wid, cb)] else [] := by
  cases w <;> simp [appendWS, wsPairs, wsWid, wPairs_appendWork]

theorem countP_pairsQ_appendWork (p : Nat × Nat → Bool) (wid cb : Nat) (q : List Work) :
    (pairsQ (q.map (appendWork wid cb))).countP p = (pairsQ q).countP p + if p (wid, cb) then cntQ wid q else 0 := by
  induction q with
  | nil => simp
  | cons w q ih =>
    simp only [List.map_cons, pairsQ_cons, List.countP_append, ih, wPairs_appendWork, cntQ_cons]
    by_cases hw : w.wid = wid <;> by_cases hp : p (wid, cb) = true <;> simp [hw, hp] <;> omega

theorem countP_pairsW_appendWS (p : Nat × Nat → Bool) (wid cb : Nat) (q : List WState) :
    (pairsW (q.map (appendWS wid cb))).countP p = (pairsW q).countP p + if p (wid, cb) then cntW wid q else 0 := by
  induction q with
  | nil => simp
  | cons w q ih =>
    simp only [List.map_cons, pairsW_cons, List.countP_append, ih, wsPairs_appendWS, cntW_cons]
    by_cases hw : wsWid w = some wid <;> by_cases hp : p (wid, cb) = true <;> simp [hw, hp] <;> omega

def bcast : WState → WState
  | .waiting _ => .waiting true
  | x => x

theorem broadcast_eq (s : St) : broadcast s = { s with workers := s.workers.map bcast } := by
  simp only [broadcast]; congr

@[simp] theorem wsWid_bcast (w : WState) : wsWid (bcast w) = wsWid w := by cases w <;> rfl
@[simp] theorem wsPairs_bcast (w : WState) : wsPairs (bcast w) = wsPairs w := by cases w <;> rfl

@[simp] theorem cntW_map_bcast (g : Nat) (q : List WState) : cntW g (q.map bcast) = cntW g q := by
  induction q with
  | nil => rfl
  | cons w q ih => simp [cntW_cons, ih]

@[simp] theorem pairsW_map_bcast (q : List WState) : pairsW (q.map bcast) = pairsW q := by
  induction q with
  | nil => rfl
  | cons w q ih => simp [ih]

@[simp] theorem cntW_replicate_idle (g n : Nat) : cntW g (List.replicate n .idle) = 0 := by
  simp [cntW, List.countP_replicate, isWS, wsWid]

@[simp] theorem pairsW_replicate_idle (n : Nat) : pairsW (List.replicate n .idle) = [] := by
  induction n with
  | zero => rfl
  | succ n ih => simp [List.replicate_succ, ih, wsPairs]

theorem pairsW_of_all_exited {l : List WState} (h : l.all (· = .exited) = true) : pairsW l = [] := by
  induction l with
  | nil => rfl
  | cons w l ih =>
    simp at h
    simp [h.1, wsPairs, pairsW_cons, ih (by simpa using h.2)]

/-! ## the inductive invariant -/

structure Inv (s : St) : Prop where
  /-- open queue: `rwork` is exactly the set of groups with a live item, each has one -/
  core : ∀ q, s.wq = some q → Core q s.rwork (fun g => cntW g s.workers)
  /-- closed queue: still at most one running worker per group -/
  closed : s.wq = none → ∀ g, g ≠ 0 → cntW g s.workers ≤ 1
  quiet : s.phase = .stopped → s.wq = none ∧ s.workers.all (· = .exited) = true
  /-- every started or pending callback was accepted, with multiplicity -/
  count : ∀ p : Nat × Nat → Bool,
    s.started.countP p + (pairsQ (s.wq.getD [])).countP p + (pairsW s.workers).countP p ≤ s.accepted.countP p

theorem Inv.le {s : St} (h : Inv s) (g : Nat) (hg : g ≠ 0) : cntQ g (s.wq.getD []) + cntW g s.workers ≤ 1 := by
  cases hq : s.wq with
  | none => simpa using h.closed hq g hg
  | some q => exact (h.core q hq).le g hg

theorem Inv.init : Inv init := by
  refine ⟨fun q hq => (by cases hq), fun _ g _ => (by simp [Pool.init]), fun _ => ⟨rfl, rfl⟩, fun p => by simp [Pool.init]⟩

theorem Inv.inflight {s : St} (h : Inv s) (l : List Sub) : Inv { s with inflight := l } :=
  ⟨h.core, h.closed, h.quiet, h.count⟩

theorem Inv.serve {s : St} (h : Inv s) (n : Nat) : Inv (served s n) := by
  refine ⟨fun q hq => ?_, fun hq => (by cases hq), fun hp => (by cases hp), fun p => ?_⟩
  · cases hq
    exact ⟨List.nodup_nil, fun g _ => by simp [served], fun g _ => by simp [served]⟩
  · have := h.count p
    simp only [served, Option.getD_some, pairsQ_nil, pairsW_replicate_idle, List.countP_nil]
    omega

theorem Inv.shutdownCas {s : St} (h : Inv s) : Inv { s with phase := .stopping } :=
  ⟨h.core, h.closed, fun hp => (by cases hp), h.count⟩

theorem Inv.shutdownDone {s : St} (h : Inv s) (hq : s.wq = none) (hw : s.workers.all (· = .exited) = true) :
    Inv { s with phase := .stopped } :=
  ⟨h.core, h.closed, fun _ => ⟨hq, hw⟩, h.count⟩

theorem Inv.closeLock {s : St} (h : Inv s) (hp : s.phase = .stopping) : Inv { s with wq := none } := by
  refine ⟨fun q hq => (by cases hq), fun _ g hg => ?_, fun hp' => ?_, fun p => ?_⟩
  · have := h.le g hg; show cntW g s.workers ≤ 1; omega
  · have : s.phase = .stopped := hp'
    rw [hp] at this; cases this
  · have := h.count p
    simp only [Option.getD_none, pairsQ_nil, List.countP_nil]
    omega

theorem Inv.broadcast {s : St} (h : Inv s) (hp : s.phase = .stopping) : Inv (broadcast s) := by
  rw [broadcast_eq]
  refine ⟨fun q hq => ?_, fun hq g hg => ?_, fun hp' => ?_, fun p => ?_⟩
  · simpa using h.core q hq
  · simpa using h.closed hq g hg
  · have : s.phase = .stopped := hp'
    rw [hp] at this; cases this
  · simpa using h.count p

theorem Inv.signal {s : St} (h : Inv s) (l : List Sub) {i : Nat} (hi : s.workers[i]? = some (.waiting false)) :
    Inv { s with inflight := l, workers := s.workers.set i (.waiting true) } := by
  have hc : ∀ g, cntW g (s.workers.set i (.waiting true)) = cntW g s.workers := fun g => by
    have := cntW_set hi g (.waiting true); simpa [wsWid] using this
  have hpw : ∀ p, (pairsW (s.workers.set i (.waiting true))).countP p = (pairsW s.workers).countP p := fun p => by
    have := countP_pairsW_set hi p (.waiting true); simpa [wsPairs] using this
  refine ⟨fun q hq => ?_, fun hq g hg => ?_, fun hp' => ?_, fun p => ?_⟩
  · simpa only [hc] using h.core q hq
  · simpa only [hc] using h.closed hq g hg
  · cases all_exited_getElem? (h.quiet hp').2 hi
  · simpa only [hpw] using h.count p

theorem Inv.subAppend {s : St} (h : Inv s) {q : List Work} (hq : s.wq = some q) {wid : Nat} (h0 : wid ≠ 0)
    (hm : wid ∈ s.rwork) (cb : Nat) (l : List Sub) : Inv (subAppend s q wid cb l) := by
  have hc := h.core q hq
  refine ⟨fun q' hq' => ?_, fun hq' => (by cases hq'), fun hp' => ?_, fun p => ?_⟩
  · cases hq'
    refine hc.of_eq fun g _ => ?_
    simp [Pool.subAppend]
  · have := (h.quiet hp').1; rw [hq] at this; cases this
  · have h1 := h.count p
    have h2 := (hc.mem wid h0).mp hm
    simp only [hq, Option.getD_some] at h1
    simp only [Pool.subAppend, Option.getD_some, countP_pairsQ_appendWork, countP_pairsW_appendWS,
      List.countP_append, List.countP_cons, List.countP_nil]
    split <;> omega

theorem Inv.subNew {s : St} (h : Inv s) {q : List Work} (hq : s.wq = some q) {wid : Nat}
    (hn : ¬ (wid ≠ 0 ∧ wid ∈ s.rwork)) (cb : Nat) (l : List Sub) : Inv (subNew s q wid cb l) := by
  have hc := h.core q hq
  refine ⟨fun q' hq' => ?_, fun hq' => (by cases hq'), fun hp' => ?_, fun p => ?_⟩
  · cases hq'
    show Core (q ++ [⟨wid, [cb]⟩]) (if wid = 0 then s.rwork else wid :: s.rwork) (fun g => cntW g s.workers)
    by_cases h0 : wid = 0
    · rw [if_pos h0]
      refine hc.of_eq fun g hg => ?_
      have : ¬ wid = g := fun e => hg (e ▸ h0)
      simp [cntQ_cons, this]
    · rw [if_neg h0]
      have hnm : wid ∉ s.rwork := fun hm => hn ⟨h0, hm⟩
      refine ⟨List.nodup_cons.mpr ⟨hnm, hc.nodup⟩, fun g hg => ?_, fun g hg => ?_⟩
      · have h1 := hc.le g hg; have h2 := hc.mem g hg
        simp only [cntQ_append, cntQ_cons, cntQ_nil]
        by_cases e : wid = g
        · subst e; simp only [if_true]
          have : ¬ (cntQ wid q + cntW wid s.workers = 1) := fun hh => hnm (h2.mpr hh)
          omega
        · simp only [e, if_false]; omega
      · have h1 := hc.le g hg; have h2 := hc.mem g hg
        simp only [cntQ_append, cntQ_cons, cntQ_nil, List.mem_cons]
        by_cases e : wid = g
        · subst e; simp only [if_true, true_or, true_iff]
          have : ¬ (cntQ wid q + cntW wid s.workers = 1) := fun hh => hnm (h2.mpr hh)
          omega
        · have e' : ¬ g = wid := fun hh => e hh.symm
          simp only [e, e', if_false, false_or, h2]; omega
  · have := (h.quiet hp').1; rw [hq] at this; cases this
  · have h1 := h.count p
    simp only [hq, Option.getD_some] at h1
    simp only [Pool.subNew, Option.getD_some, pairsQ_append, pairsQ_cons, pairsQ_nil, wPairs,
      List.countP_append, List.countP_cons, List.countP_nil, List.map_cons, List.map_nil, List.append_nil]
    omega

theorem relook_of_open {s : St} (i : Nat) {q : List Work} (hq : s.wq = some q) :
    relook s i = setWorker s i (optState (takeNext q s.rwork).1) (some (takeNext q s.rwork).2.1)
      (takeNext q s.rwork).2.2 := by
  simp only [relook, hq, loopTop_some]

theorem Inv.relook {s : St} (h : Inv s) {i : Nat} {old : WState} (hi : s.workers[i]? = some old)
    (ho : wsWid old = none) (hne : old ≠ .exited) : Inv (relook s i) := by
  have hpo := wsPairs_of_wsWid_none ho
  cases hq : s.wq with
  | none =>
    rw [relook_of_closed i hq]
    refine ⟨fun q' hq' => (by cases hq'), fun _ g hg => ?_, fun hp' => ?_, fun p => ?_⟩
    · have h1 := cntW_set hi g .exited
      have := h.closed hq g hg
      rw [ho] at h1
      simp only [wsWid, reduceCtorEq, if_false] at h1
      simp only [setWorker_workers]; omega
    · exact absurd (all_exited_getElem? (h.quiet hp').2 hi) hne
    · have h1 := h.count p
      have h2 := countP_pairsW_set hi p .exited
      rw [hpo] at h2
      simp only [wsPairs, List.countP_nil, hq, Option.getD_none, pairsQ_nil] at h1 h2
      simp only [setWorker_started, setWorker_wq, setWorker_workers, setWorker_accepted, startedOf,
        List.append_nil, Option.getD_none, pairsQ_nil, List.countP_nil]
      omega
  | some q =>
    rw [relook_of_open i hq]
    refine ⟨fun q' hq' => ?_, fun hq' => (by cases hq'), fun hp' => ?_, fun p => ?_⟩
    · cases hq'
      refine (takeNext_core (h.core q hq)).of_eq fun g _ => ?_
      have := cntW_set hi g (optState (takeNext q s.rwork).1)
      simp only [ho] at this
      simp only [setWorker_workers]
      simp only [reduceCtorEq, if_false] at this
      omega
    · have := (h.quiet hp').1; rw [hq] at this; cases this
    · have h1 := h.count p
      have h2 := countP_pairsW_set hi p (optState (takeNext q s.rwork).1)
      have h3 := congrArg (List.countP p) (takeNext_pairs q s.rwork)
      simp only [hpo, List.countP_nil, hq, Option.getD_some, List.countP_append] at h1 h2 h3
      simp only [setWorker_started, setWorker_wq, setWorker_workers, setWorker_accepted,
        Option.getD_some, List.countP_append]
      omega

theorem Inv.finish {s : St} (h : Inv s) {i : Nat} {w : Work} {cb : Nat}
    (hi : s.workers[i]? = some (.running w cb)) (hp : w.pending = []) : Inv (finish s i w cb) := by
  have hc : ∀ g, cntW g (s.workers.set i .idle) + (if w.wid = g then 1 else 0) = cntW g s.workers := fun g => by
    have := cntW_set hi g .idle; simpa [wsWid] using this
  have hpw : ∀ p, (pairsW (s.workers.set i .idle)).countP p = (pairsW s.workers).countP p := fun p => by
    have := countP_pairsW_set hi p .idle; simpa [wsPairs, wPairs, hp] using this
  refine ⟨fun q hq => ?_, fun hq g hg => ?_, fun hp' => ?_, fun p => ?_⟩
  · refine (h.core q hq).retire w.wid fun g _ => ?_
    have := hc g
    simp only [Pool.finish]; omega
  · have := h.closed hq g hg; have := hc g
    simp only [Pool.finish]; omega
  · cases all_exited_getElem? (h.quiet hp').2 hi
  · simpa only [Pool.finish, hpw] using h.count p

theorem Inv.next {s : St} (h : Inv s) {i : Nat} {w : Work} {cb f : Nat} {fs : List Nat}
    (hi : s.workers[i]? = some (.running w cb)) (hp : w.pending = f :: fs) : Inv (next s i w cb f fs) := by
  have hc : ∀ g, cntW g (s.workers.set i (.running { w with pending := fs } f)) = cntW g s.workers := fun g => by
    have := cntW_set hi g (.running { w with pending := fs } f); simpa [wsWid] using this
  refine ⟨fun q hq => ?_, fun hq g hg => ?_, fun hp' => ?_, fun p => ?_⟩
  · simpa only [Pool.next, setWorker_workers, setWorker_rwork, hc] using h.core q hq
  · simpa only [Pool.next, setWorker_workers, hc] using h.closed hq g hg
  · cases all_exited_getElem? (h.quiet hp').2 hi
  · have h1 := h.count p
    have h2 := countP_pairsW_set hi p (.running { w with pending := fs } f)
    simp only [wsPairs, wPairs, hp, List.map_cons, List.countP_cons] at h2
    simp only [Pool.next, setWorker_started, setWorker_wq, setWorker_workers, setWorker_accepted, startedOf,
      List.countP_append, List.countP_cons, List.countP_nil]
    omega

theorem Inv.step {s s' : St} {a : Act} (h : Inv s) (hs : step s a = some s') : Inv s' := by
  cases step_Step hs with
  | serve n => exact h.serve n
  | checkFail => exact h
  | checkPass | lockClosed | signalNone => exact h.inflight _
  | lockAppend _ _ _ _ q _ hq h0 hm => exact h.subAppend hq h0 hm _ _
  | lockNew _ _ _ _ q _ hq hn => exact h.subNew hq hn _ _
  | signalSome _ _ _ _ i _ hi =>
    have hi' := List.find?_some hi
    simp only [decide_eq_true_eq] at hi'
    exact h.signal _ hi'
  | wStart _ hi | wWake _ hi | wSpurious _ hi => exact h.relook hi rfl (by simp)
  | doneNext _ _ _ _ _ hi hp => exact h.next hi hp
  | doneLast i w cb hi hp =>
    have hlt : i < s.workers.length := (List.getElem?_eq_some_iff.mp hi).1
    exact (h.finish hi hp).relook (old := .idle) (by simp [Pool.finish, hlt]) rfl (by simp)
  | shutdownCas => exact h.shutdownCas
  | closeLock hp _ => exact h.closeLock hp
  | closeBroadcast hp _ => exact h.broadcast hp
  | shutdownDone _ hq hw => exact h.shutdownDone hq hw

theorem Inv.run {acts : List Act} {s s' : St} (h : Inv s) (hr : run s acts = some s') : Inv s' := by
  induction acts generalizing s with
  | nil => simp [Pool.run] at hr; exact hr ▸ h
  | cons a as ih =>
    simp only [Pool.run] at hr
    cases hs : Pool.step s a with
    | none => simp [hs] at hr
    | some m => rw [hs] at hr; exact ih (h.step hs) hr

theorem Inv.reachable {acts : List Act} {s : St} (hr : Pool.run Pool.init acts = some s) : Inv s :=
  Inv.run Inv.init hr

/-! ## mutual exclusion from the counts -/

theorem index_unique_of_countP_le_one {α} {p : α → Bool} {l : List α} (h : l.countP p ≤ 1) {i j : Nat} {a b : α}
    (hi : l[i]? = some a) (hj : l[j]? = some b) (pa : p a = true) (pb : p b = true) : i = j := by
  induction l generalizing i j with
  | nil => simp at hi
  | cons x l ih =>
    rw [List.countP_cons] at h
    cases i with
    | zero =>
      cases j with
      | zero => rfl
      | succ j =>
        simp at hi hj; subst hi
        have : 0 < l.countP p := List.countP_pos_iff.mpr ⟨b, List.mem_of_getElem? hj, pb⟩
        simp only [pa, if_true] at h; omega
    | succ i =>
      cases j with
      | zero =>
        simp at hi hj; subst hj
        have : 0 < l.countP p := List.countP_pos_iff.mpr ⟨a, List.mem_of_getElem? hi, pa⟩
        simp only [pb, if_true] at h; omega
      | succ j =>
        simp at hi hj
        rw [ih (by omega) hi hj]

theorem mem_runningWids {l : List WState} {g : Nat}
    (h : g ∈ ((l.flatMap startedOf).filter (·.1 != 0)).map (·.1)) : 0 < cntW g l := by
  simp only [List.mem_map, List.mem_filter, List.mem_flatMap] at h
  obtain ⟨x, ⟨⟨ws, hws, hx⟩, _⟩, rfl⟩ := h
  refine List.countP_pos_iff.mpr ⟨ws, hws, ?_⟩
  cases ws <;> simp [startedOf] at hx
  subst hx; simp [isWS, wsWid]

theorem nodup_runningWids {l : List WState} (h : ∀ g, g ≠ 0 → cntW g l ≤ 1) :
    (((l.flatMap startedOf).filter (·.1 != 0)).map (·.1)).Nodup := by
  induction l with
  | nil => simp
  | cons ws l ih =>
    have ih' := ih fun g hg => by have := h g hg; rw [cntW_cons] at this; omega
    cases ws with
    | running w c =>
      by_cases h0 : w.wid = 0
      · simpa [startedOf, List.filter_cons, h0] using ih'
      · simp only [List.flatMap_cons, startedOf, List.cons_append, List.nil_append, List.filter_cons, bne_iff_ne,
          ne_eq, h0, not_false_eq_true, if_true, List.map_cons, List.nodup_cons]
        refine ⟨fun hm => ?_, ih'⟩
        have := mem_runningWids hm
        have := h w.wid h0
        rw [cntW_cons] at this
        simp [wsWid] at this; omega
    | _ => simpa [startedOf] using ih'

/-! ## what a transition does to one group -/

/-- the effect of a transition on the callbacks of one group, as (accepted, started, pending);
`d` says whether dropping the pending ones is allowed (`closeLock` only) -/
inductive VStep (d : Prop) : List Nat × List Nat × List Nat → List Nat × List Nat × List Nat → Prop
  | same (v) : VStep d v v
  | accept (a st p c) : VStep d (a, st, p) (a ++ [c], st, p ++ [c])
  | start (a st p f) : VStep d (a, st, f :: p) (a, st ++ [f], p)
  | drop (a st p) : d → VStep d (a, st, p) (a, st, [])

def view (g : Nat) (s : St) : List Nat × List Nat × List Nat :=
  (cbsOf g s.accepted, cbsOf g s.started, pendingOf g s)

theorem vstep_same {d : Prop} {g : Nat} {s s' : St} (h1 : cbsOf g s'.accepted = cbsOf g s.accepted)
    (h2 : cbsOf g s'.started = cbsOf g s.started) (h3 : pendingOf g s' = pendingOf g s) :
    VStep d (view g s) (view g s') := by
  simp only [view, h1, h2, h3]; exact .same _

theorem vstep_accept {d : Prop} {g : Nat} {s s' : St} (c : Nat) (h1 : cbsOf g s'.accepted = cbsOf g s.accepted ++ [c])
    (h2 : cbsOf g s'.started = cbsOf g s.started) (h3 : pendingOf g s' = pendingOf g s ++ [c]) :
    VStep d (view g s) (view g s') := by
  simp only [view, h1, h2, h3]; exact .accept ..

theorem vstep_start {d : Prop} {g : Nat} {s s' : St} (f : Nat) (h1 : cbsOf g s'.accepted = cbsOf g s.accepted)
    (h2 : cbsOf g s'.started = cbsOf g s.started ++ [f]) (h3 : pendingOf g s = f :: pendingOf g s') :
    VStep d (view g s) (view g s') := by
  simp only [view, h1, h2, h3]; exact .start ..

theorem vstep_drop {d : Prop} {g : Nat} {s s' : St} (hd : d) (h1 : cbsOf g s'.accepted = cbsOf g s.accepted)
    (h2 : cbsOf g s'.started = cbsOf g s.started) (h3 : pendingOf g s' = []) :
    VStep d (view g s) (view g s') := by
  simp only [view, h1, h2, h3]; exact .drop _ _ _ hd

theorem cbsOf_pairsQ_appendWork (g wid cb : Nat) (q : List Work) (h : cntQ wid q ≤ 1) :
    cbsOf g (pairsQ (q.map (appendWork wid cb))) =
      cbsOf g (pairsQ q) ++ if g = wid ∧ cntQ wid q = 1 then [cb] else [] := by
  induction q with
  | nil => simp
  | cons w q ih =>
    rw [cntQ_cons] at h
    by_cases hw : w.wid = wid
    · simp only [hw, if_true] at h
      have h0 : cntQ wid q = 0 := by omega
      have ih' := ih (by omega)
      simp only [h0, Nat.zero_ne_one, and_false, if_false, List.append_nil] at ih'
      simp only [List.map_cons, pairsQ_cons, cbsOf_append, wPairs_appendWork, hw, if_true, ih', cntQ_cons,
        cbsOf_single, h0]
      by_cases hg : g = wid
      · subst hg; simp [cbsOf_pairsQ_of_cnt h0]
      · have : ¬ wid = g := fun e => hg e.symm
        simp [hg, this]
    · simp only [hw, if_false, Nat.add_zero] at h
      simp only [List.map_cons, pairsQ_cons, cbsOf_append, wPairs_appendWork, hw, if_false, ih h, cntQ_cons,
        List.append_nil, Nat.add_zero, List.append_assoc]

theorem cbsOf_pairsW_appendWS (g wid cb : Nat) (q : List WState) (h : cntW wid q ≤ 1) :
    cbsOf g (pairsW (q.map (appendWS wid cb))) =
      cbsOf g (pairsW q) ++ if g = wid ∧ cntW wid q = 1 then [cb] else [] := by
  induction q with
  | nil => simp
  | cons w q ih =>
    rw [cntW_cons] at h
    by_cases hw : wsWid w = some wid
    · simp only [hw, if_true] at h
      have h0 : cntW wid q = 0 := by omega
      have ih' := ih (by omega)
      simp only [h0, Nat.zero_ne_one, and_false, if_false, List.append_nil] at ih'
      simp only [List.map_cons, pairsW_cons, cbsOf_append, wsPairs_appendWS, hw, if_true, ih', cntW_cons,
        cbsOf_single, h0]
      by_cases hg : g = wid
      · subst hg; simp [cbsOf_pairsW_of_cnt h0]
      · have : ¬ wid = g := fun e => hg e.symm
        simp [hg, this]
    · simp only [hw, if_false, Nat.add_zero] at h
      simp only [List.map_cons, pairsW_cons, cbsOf_append, wsPairs_appendWS, hw, if_false, ih h, cntW_cons,
        List.append_nil, Nat.add_zero, List.append_assoc]


theorem VStep.mono {d d' : Prop} {v v'} (h : VStep d v v') (hd : d → d') : VStep d' v v' := by
  cases h with
  | same => exact .same _
  | accept => exact .accept ..
  | start => exact .start ..
  | drop _ _ _ x => exact .drop _ _ _ (hd x)

theorem pairsW_set_of_nil {l : List WState} {i : Nat} {old x : WState} (h : l[i]? = some old)
    (ho : wsPairs old = []) (hx : wsPairs x = []) : pairsW (l.set i x) = pairsW l := by
  obtain ⟨A, B, hl, _, hset⟩ := set_split h
  rw [hset x]; rw [hl]; simp [ho, hx]

theorem view_subAppend {d : Prop} {s : St} (h : Inv s) {q : List Work} (hq : s.wq = some q) {wid : Nat} (h0 : wid ≠ 0)
    (hm : wid ∈ s.rwork) (cb : Nat) (l : List Sub) (g : Nat) :
    VStep d (view g s) (view g (subAppend s q wid cb l)) := by
  have hc := h.core q hq
  have hle := hc.le wid h0
  have h1 := (hc.mem wid h0).mp hm
  have hpend : pendingOf g (subAppend s q wid cb l) = pendingOf g s ++ if g = wid then [cb] else [] := by
    rw [pendingOf_eq, pendingOf_eq]
    simp only [subAppend, hq, Option.getD_some]
    rw [cbsOf_pairsQ_appendWork _ _ _ _ (by omega), cbsOf_pairsW_appendWS _ _ _ _ (by omega)]
    by_cases hg : g = wid
    · subst hg
      rcases (by omega : (cntQ g q = 1 ∧ cntW g s.workers = 0) ∨ (cntQ g q = 0 ∧ cntW g s.workers = 1)) with ⟨a, b⟩ | ⟨a, b⟩
      · simp [a, b, cbsOf_pairsW_of_cnt b]
      · simp [a, b]
    · simp [hg]
  by_cases hg : g = wid
  · subst hg
    refine vstep_accept cb ?_ rfl ?_
    · simp [subAppend, cbsOf_single]
    · simpa using hpend
  · have : ¬ wid = g := fun e => hg e.symm
    refine vstep_same ?_ rfl ?_
    · simp [subAppend, cbsOf_single, this]
    · simpa [hg] using hpend

theorem view_subNew {d : Prop} {s : St} (h : Inv s) {q : List Work} (hq : s.wq = some q) {wid : Nat}
    (hn : ¬ (wid ≠ 0 ∧ wid ∈ s.rwork)) (cb : Nat) (l : List Sub) (g : Nat) (hg0 : g ≠ 0) :
    VStep d (view g s) (view g (subNew s q wid cb l)) := by
  have hc := h.core q hq
  by_cases hg : g = wid
  · subst hg
    have hle := hc.le g hg0
    have hmem := hc.mem g hg0
    have hnm : g ∉ s.rwork := fun hm => hn ⟨hg0, hm⟩
    have : ¬ (cntQ g q + cntW g s.workers = 1) := fun hh => hnm (hmem.mpr hh)
    have hW : cntW g s.workers = 0 := by omega
    refine vstep_accept cb ?_ rfl ?_
    · simp [subNew, cbsOf_single]
    · rw [pendingOf_eq, pendingOf_eq]
      simp [subNew, hq, wPairs, cbsOf_single, cbsOf_pairsW_of_cnt hW]
  · have : ¬ wid = g := fun e => hg e.symm
    refine vstep_same ?_ rfl ?_
    · simp [subNew, cbsOf_single, this]
    · rw [pendingOf_eq, pendingOf_eq]
      simp [subNew, hq, wPairs, cbsOf_single, this]

theorem view_signal {d : Prop} {s : St} (l : List Sub) {i : Nat} (hi : s.workers[i]? = some (.waiting false)) (g : Nat) :
    VStep d (view g s) (view g { s with inflight := l, workers := s.workers.set i (.waiting true) }) := by
  refine vstep_same rfl rfl ?_
  rw [pendingOf_eq, pendingOf_eq]
  simp only [pairsW_set_of_nil (x := .waiting true) hi rfl rfl]

theorem view_broadcast {d : Prop} (s : St) (g : Nat) : VStep d (view g s) (view g (broadcast s)) := by
  refine vstep_same rfl rfl ?_
  rw [pendingOf_eq, pendingOf_eq, broadcast_eq]
  simp

theorem view_serve {d : Prop} {s : St} (h : Inv s) (hp : s.phase = .stopped) (n : Nat) (g : Nat) :
    VStep d (view g s) (view g (served s n)) := by
  refine vstep_same rfl rfl ?_
  obtain ⟨hq, hw⟩ := h.quiet hp
  rw [pendingOf_eq, pendingOf_eq]
  simp [served, hq, pairsW_of_all_exited hw]

theorem view_closeLock {s : St} (h : Inv s) (g : Nat) (hg0 : g ≠ 0) :
    VStep True (view g s) (view g { s with wq := none }) := by
  have hle := h.le g hg0
  by_cases hc : cntQ g (s.wq.getD []) = 0
  · refine vstep_same rfl rfl ?_
    rw [pendingOf_eq, pendingOf_eq]
    simp [cbsOf_pairsQ_of_cnt hc]
  · refine vstep_drop trivial rfl rfl ?_
    have hW : cntW g s.workers = 0 := by omega
    rw [pendingOf_eq]
    simp [cbsOf_pairsW_of_cnt hW]

theorem view_finish {s : St} {i : Nat} {w : Work} {cb : Nat}
    (hi : s.workers[i]? = some (.running w cb)) (hp : w.pending = []) (g : Nat) :
    view g (finish s i w cb) = view g s := by
  have : pendingOf g (finish s i w cb) = pendingOf g s := by
    rw [pendingOf_eq, pendingOf_eq]
    simp only [finish, pairsW_set_of_nil (x := .idle) hi (show wsPairs (.running w cb) = [] by simp [wsPairs, wPairs, hp]) rfl]
  simp only [view, this]; rfl

theorem view_next {d : Prop} {s : St} (h : Inv s) {i : Nat} {w : Work} {cb f : Nat} {fs : List Nat}
    (hi : s.workers[i]? = some (.running w cb)) (hp : w.pending = f :: fs) (g : Nat) (hg0 : g ≠ 0) :
    VStep d (view g s) (view g (next s i w cb f fs)) := by
  obtain ⟨A, B, hl, _, hset⟩ := set_split hi
  have hle := h.le g hg0
  rw [hl] at hle
  simp only [cntW_append, cntW_cons, wsWid, Option.some.injEq] at hle
  by_cases hg : w.wid = g
  · simp only [hg, if_true] at hle
    have hQ : cntQ g (s.wq.getD []) = 0 := by omega
    have hA : cntW g A = 0 := by omega
    have hB : cntW g B = 0 := by omega
    refine vstep_start f rfl ?_ ?_
    · simp [next, startedOf, cbsOf_single, hg]
    · rw [pendingOf_eq, pendingOf_eq]
      simp only [next, setWorker_wq, setWorker_workers, hset]
      rw [hl]
      simp [cbsOf_pairsQ_of_cnt hQ, cbsOf_pairsW_of_cnt hA, cbsOf_pairsW_of_cnt hB, wsPairs, cbsOf_wPairs, hg, hp]
  · refine vstep_same rfl ?_ ?_
    · simp [next, startedOf, cbsOf_single, hg]
    · rw [pendingOf_eq, pendingOf_eq]
      simp only [next, setWorker_wq, setWorker_workers, hset]
      rw [hl]
      simp [wsPairs, cbsOf_wPairs, hg]

theorem cbsOf_startedOf (g : Nat) (ws : WState) (h : wsWid ws ≠ some g) : cbsOf g (startedOf ws) = [] := by
  cases ws <;> simp [startedOf]
  next w c => simp [wsWid] at h; simp [cbsOf_single, h]

theorem view_relook {d : Prop} {s : St} (h : Inv s) {i : Nat} {old : WState} (hi : s.workers[i]? = some old)
    (ho : wsWid old = none) (hne : old ≠ .exited) (g : Nat) (hg0 : g ≠ 0) :
    VStep d (view g s) (view g (relook s i)) := by
  have hpo := wsPairs_of_wsWid_none ho
  have hI' := h.relook hi ho hne
  cases hq : s.wq with
  | none =>
    rw [relook_of_closed i hq]
    refine vstep_same rfl (by simp [startedOf]) ?_
    rw [pendingOf_eq, pendingOf_eq]
    simp only [setWorker_wq, setWorker_workers, pairsW_set_of_nil (x := .exited) hi hpo rfl, hq]
  | some q =>
    rw [relook_of_open i hq] at hI' ⊢
    obtain ⟨A, B, hl, _, hset⟩ := set_split hi
    have hle := hI'.le g hg0
    have hpairs := takeNext_pairs q s.rwork
    generalize optState (takeNext q s.rwork).1 = ws' at *
    generalize (takeNext q s.rwork).2.1 = q' at *
    generalize (takeNext q s.rwork).2.2 = rw' at *
    simp only [setWorker_wq, setWorker_workers, hset, Option.getD_some, cntW_append, cntW_cons] at hle
    have hpend : pendingOf g s = cbsOf g (startedOf ws') ++ cbsOf g (wsPairs ws') ++ cbsOf g (pairsQ q') ++
        (cbsOf g (pairsW A) ++ cbsOf g (pairsW B)) := by
      rw [pendingOf_eq, hq, hl]
      simp [hpairs, hpo]
    have hpend' : pendingOf g (setWorker s i ws' (some q') rw') = cbsOf g (pairsQ q') ++
        (cbsOf g (pairsW A) ++ cbsOf g (wsPairs ws') ++ cbsOf g (pairsW B)) := by
      rw [pendingOf_eq]
      simp [hset]
    by_cases hg : wsWid ws' = some g
    · simp only [hg, if_true] at hle
      have hQ : cntQ g q' = 0 := by omega
      have hA : cntW g A = 0 := by omega
      have hB : cntW g B = 0 := by omega
      cases ws' with
      | running w' f =>
        simp [wsWid] at hg
        refine vstep_start f rfl ?_ ?_
        · simp [startedOf, cbsOf_single, hg]
        · rw [hpend, hpend']
          simp [cbsOf_pairsQ_of_cnt hQ, cbsOf_pairsW_of_cnt hA, cbsOf_pairsW_of_cnt hB, startedOf, cbsOf_single, hg]
      | _ => simp [wsWid] at hg
    · refine vstep_same rfl ?_ ?_
      · simp [cbsOf_startedOf g ws' hg]
      · rw [hpend, hpend']
        simp [cbsOf_startedOf g ws' hg, cbsOf_wsPairs_of_ne hg]

theorem vstep {s s' : St} {a : Act} (h : Inv s) (hs : step s a = some s') (g : Nat) (hg : g ≠ 0) :
    VStep (a = .closeLock) (view g s) (view g s') := by
  cases step_Step hs with
  | serve n hp => exact view_serve h hp n g
  | checkFail | checkPass | lockClosed | signalNone | shutdownCas | shutdownDone => exact .same _
  | lockAppend _ _ _ _ q _ hq h0 hm => exact view_subAppend h hq h0 hm _ _ g
  | lockNew _ _ _ _ q _ hq hn => exact view_subNew h hq hn _ _ g hg
  | signalSome _ _ _ _ i _ hi =>
    have hi' := List.find?_some hi
    simp only [decide_eq_true_eq] at hi'
    exact view_signal _ hi' g
  | wStart _ hi | wWake _ hi | wSpurious _ hi => exact view_relook h hi rfl (by simp) g hg
  | doneNext _ _ _ _ _ hi hp => exact view_next h hi hp g hg
  | doneLast i w cb hi hp =>
    have hlt : i < s.workers.length := (List.getElem?_eq_some_iff.mp hi).1
    rw [← view_finish hi hp g]
    exact view_relook (h.finish hi hp) (old := .idle) (by simp [finish, hlt]) rfl (by simp) g hg
  | closeLock => exact (view_closeLock h g hg).mono fun _ => rfl
  | closeBroadcast => exact view_broadcast s g

/-! ## order and exactly-once, per group -/

/-- exactly-once, in order: accepted = started ++ pending -/
def Fifo (v : List Nat × List Nat × List Nat) : Prop := v.2.1 ++ v.2.2 = v.1

/-- order with drops: the pending ones are the tail of accepted, the started ones a subsequence of the rest -/
def Ord (v : List Nat × List Nat × List Nat) : Prop := ∃ pre, v.1 = pre ++ v.2.2 ∧ v.2.1.Sublist pre

theorem VStep.fifo {v v'} (h : VStep False v v') (hf : Fifo v) : Fifo v' := by
  cases h with
  | same => exact hf
  | accept a st p c => simp only [Fifo] at hf ⊢; rw [← hf]; simp
  | start a st p f => simp only [Fifo] at hf ⊢; rw [← hf]; simp
  | drop _ _ _ x => exact x.elim

theorem VStep.ord {d : Prop} {v v'} (h : VStep d v v') (hf : Ord v) : Ord v' := by
  cases h with
  | same => exact hf
  | accept a st p c =>
    obtain ⟨pre, h1, h2⟩ := hf
    exact ⟨pre, by simp only at h1 ⊢; rw [h1]; simp, h2⟩
  | start a st p f =>
    obtain ⟨pre, h1, h2⟩ := hf
    exact ⟨pre ++ [f], by simp only at h1 ⊢; rw [h1]; simp, h2.append (List.Sublist.refl _)⟩
  | drop a st p x =>
    obtain ⟨pre, h1, h2⟩ := hf
    exact ⟨pre ++ p, by simp only at h1 ⊢; rw [h1]; simp, h2.trans (List.sublist_append_left _ _)⟩

theorem fifo_run {acts : List Act} {s s' : St} (h : Inv s) (hr : run s acts = some s') (hno : Act.closeLock ∉ acts)
    (g : Nat) (hg : g ≠ 0) (hf : Fifo (view g s)) : Fifo (view g s') := by
  induction acts generalizing s with
  | nil => simp [run] at hr; exact hr ▸ hf
  | cons a as ih =>
    simp only [run] at hr
    cases hs : step s a with
    | none => simp [hs] at hr
    | some m =>
      rw [hs] at hr
      have hne : a ≠ .closeLock := fun e => hno (e ▸ List.mem_cons_self)
      exact ih (h.step hs) hr (fun hm => hno (List.mem_cons_of_mem _ hm))
        (((vstep h hs g hg).mono fun e => hne e).fifo hf)

theorem ord_run {acts : List Act} {s s' : St} (h : Inv s) (hr : run s acts = some s')
    (g : Nat) (hg : g ≠ 0) (hf : Ord (view g s)) : Ord (view g s') := by
  induction acts generalizing s with
  | nil => simp [run] at hr; exact hr ▸ hf
  | cons a as ih =>
    simp only [run] at hr
    cases hs : step s a with
    | none => simp [hs] at hr
    | some m =>
      rw [hs] at hr
      exact ih (h.step hs) hr ((vstep h hs g hg).ord hf)

/-! ## no lost wake-up -/

/-- a worker that is going to look at the queue without further help -/
def Active (ws : WState) : Prop := ws = .idle ∨ ws = .waiting true ∨ ∃ w c, ws = .running w c

theorem tid_inj {l : List Sub} (hp : l.Pairwise (fun a b : Sub => a.tid ≠ b.tid)) {a b : Sub}
    (ha : a ∈ l) (hb : b ∈ l) (h : a.tid = b.tid) : a = b := by
  induction l with
  | nil => cases ha
  | cons x l ih =>
    rw [List.pairwise_cons] at hp
    rcases List.mem_cons.mp ha with rfl | ha' <;> rcases List.mem_cons.mp hb with rfl | hb'
    · rfl
    · exact absurd h (hp.1 _ hb')
    · exact absurd h.symm (hp.1 _ ha')
    · exact ih hp.2 ha' hb'

structure InvW (s : St) : Prop where
  nonempty : s.wq.isSome = true → s.workers ≠ []
  noExit : s.wq.isSome = true → ∀ ws ∈ s.workers, ws ≠ .exited
  /-- `waitOrder` knows every unsignalled waiter, so `Signal` finds one if there is one -/
  waitOrd : ∀ i, s.workers[i]? = some (.waiting false) → i ∈ s.waitOrder
  tids : s.inflight.Pairwise (fun a b => a.tid ≠ b.tid)
  nlw : ∀ q, s.wq = some q → q ≠ [] →
    (∃ ws ∈ s.workers, Active ws) ∨ (∃ e ∈ s.inflight, e.needSignal = true)

theorem InvW.init : InvW init :=
  ⟨fun h => (by cases h), fun h => (by cases h), fun i h => by simp [Pool.init] at h, List.Pairwise.nil,
    fun q h => by cases h⟩

theorem InvW.serve {s : St} (h : InvW s) {n : Nat} (hn : 1 ≤ n) : InvW (served s n) := by
  refine ⟨fun _ => ?_, fun _ ws hws => ?_, fun i hi => ?_, h.tids, fun q hq hne => ?_⟩
  · simp [served]; omega
  · simp [served] at hws; simp [hws.2]
  · simp [served, List.getElem?_replicate] at hi
  · simp [served] at hq; exact absurd hq hne

theorem InvW.filter {s : St} (h : InvW s) (tid : Nat) (hq : s.wq = none) :
    InvW { s with inflight := s.inflight.filter (·.tid ≠ tid) } :=
  ⟨h.nonempty, h.noExit, h.waitOrd, h.tids.filter _, fun q hq' => by rw [hq] at hq'; cases hq'⟩

theorem InvW.checkPass {s : St} (h : InvW s) {tid : Nat} (wid cb : Nat) (ht : s.inflight.all (·.tid ≠ tid) = true) :
    InvW { s with inflight := s.inflight ++ [⟨tid, wid, cb, false⟩] } := by
  refine ⟨h.nonempty, h.noExit, h.waitOrd, ?_, fun q hq hne => ?_⟩
  · simp only [List.pairwise_append, List.pairwise_cons, List.Pairwise.nil, and_true]
    refine ⟨h.tids, by simp, fun a ha b hb => ?_⟩
    simp at hb; subst hb
    simp at ht; exact ht a ha
  · rcases h.nlw q hq hne with hw | ⟨e, he, hs⟩
    · exact Or.inl hw
    · exact Or.inr ⟨e, List.mem_append_left _ he, hs⟩

theorem active_appendWS {wid cb : Nat} {ws : WState} (h : Active ws) : Active (appendWS wid cb ws) := by
  rcases h with rfl | rfl | ⟨w, c, rfl⟩
  · exact Or.inl rfl
  · exact Or.inr (Or.inl rfl)
  · exact Or.inr (Or.inr ⟨_, _, rfl⟩)

theorem appendWS_eq_iff_of_not_running {wid cb : Nat} {ws x : WState} (hx : ∀ w c, x ≠ .running w c)
    (h : appendWS wid cb ws = x) : ws = x := by
  cases ws <;> simp [appendWS] at h ⊢ <;> try exact h
  exact absurd h.symm (hx _ _)

theorem InvW.subAppend {s : St} (h : InvW s) {q : List Work} (hq : s.wq = some q) {tid t wid cb : Nat}
    (hf : s.inflight.find? (·.tid = tid) = some ⟨t, wid, cb, false⟩) :
    InvW (subAppend s q wid cb (s.inflight.filter (·.tid ≠ tid))) := by
  have hqs : s.wq.isSome = true := by simp [hq]
  refine ⟨fun _ => ?_, fun _ ws hws => ?_, fun i hi => ?_, h.tids.filter _, fun q' hq' hne => ?_⟩
  · simpa [Pool.subAppend] using h.nonempty hqs
  · simp only [Pool.subAppend, List.mem_map] at hws
    obtain ⟨x, hx, rfl⟩ := hws
    intro he
    exact h.noExit hqs x hx (appendWS_eq_iff_of_not_running (by simp) he)
  · simp only [Pool.subAppend, List.getElem?_map, Option.map_eq_some_iff] at hi
    obtain ⟨x, hx, he⟩ := hi
    rw [appendWS_eq_iff_of_not_running (by simp) he] at hx
    exact h.waitOrd i hx
  · simp only [Pool.subAppend, Option.some.injEq] at hq'
    subst hq'
    have hne' : q ≠ [] := fun e => hne (by simp [e])
    rcases h.nlw q hq hne' with ⟨ws, hws, ha⟩ | ⟨e, he, hs⟩
    · exact Or.inl ⟨_, List.mem_map_of_mem hws, active_appendWS ha⟩
    · refine Or.inr ⟨e, ?_, hs⟩
      simp only [Pool.subAppend, List.mem_filter, he, true_and, decide_eq_true_eq]
      intro het
      have hx := List.mem_of_find?_eq_some hf
      have hxt := List.find?_some hf
      simp only [decide_eq_true_eq] at hxt
      have := tid_inj h.tids he hx (het.trans hxt.symm)
      subst this
      simp at hs

theorem InvW.subNew {s : St} (h : InvW s) {q : List Work} (hq : s.wq = some q) (tid wid cb : Nat) :
    InvW (subNew s q wid cb (s.inflight.filter (·.tid ≠ tid) ++ [⟨tid, wid, cb, true⟩])) := by
  have hqs : s.wq.isSome = true := by simp [hq]
  refine ⟨fun _ => h.nonempty hqs, fun _ => h.noExit hqs, h.waitOrd, ?_, fun q' _ _ => ?_⟩
  · simp only [Pool.subNew, List.pairwise_append, List.pairwise_cons, List.Pairwise.nil, and_true]
    refine ⟨h.tids.filter _, by simp, fun a ha b hb => ?_⟩
    simp at hb; subst hb
    simp at ha; exact ha.2
  · exact Or.inr ⟨⟨tid, wid, cb, true⟩, by simp [Pool.subNew], rfl⟩

theorem InvW.signalSome {s : St} (h : InvW s) (tid : Nat) {i : Nat} (hi : s.workers[i]? = some (.waiting false)) :
    InvW { s with inflight := s.inflight.filter (·.tid ≠ tid), workers := s.workers.set i (.waiting true) } := by
  have hlt : i < s.workers.length := (List.getElem?_eq_some_iff.mp hi).1
  refine ⟨fun hq => ?_, fun hq ws hws => ?_, fun j hj => ?_, h.tids.filter _, fun q' _ _ => ?_⟩
  · simpa using h.nonempty hq
  · rcases mem_set_cases hws with rfl | hws
    · simp
    · exact h.noExit hq ws hws
  · simp only [List.getElem?_set] at hj
    split at hj
    · first | (split at hj <;> simp at hj) | simp at hj
    · exact h.waitOrd j hj
  · exact Or.inl ⟨_, List.mem_set hlt _, Or.inr (Or.inl rfl)⟩

theorem InvW.signalNone {s : St} (h : InvW s) (tid : Nat)
    (hn : s.waitOrder.find? (fun i => s.workers[i]? = some (.waiting false)) = none) :
    InvW { s with inflight := s.inflight.filter (·.tid ≠ tid) } := by
  refine ⟨h.nonempty, h.noExit, h.waitOrd, h.tids.filter _, fun q hq _ => ?_⟩
  have hq : s.wq = some q := hq
  have hqs : s.wq.isSome = true := by simp [hq]
  left
  rw [List.find?_eq_none] at hn
  cases hw : s.workers with
  | nil => exact absurd hw (h.nonempty hqs)
  | cons ws rest =>
    have hmem : ws ∈ s.workers := by simp [hw]
    have h0 : s.workers[0]? = some ws := by simp [hw]
    refine ⟨ws, List.mem_cons_self, ?_⟩
    have hne := h.noExit hqs ws hmem
    cases ws with
    | idle => exact Or.inl rfl
    | waiting b =>
      cases b with
      | true => exact Or.inr (Or.inl rfl)
      | false =>
        have := hn 0 (h.waitOrd 0 h0)
        simp [h0] at this
    | running w c => exact Or.inr (Or.inr ⟨_, _, rfl⟩)
    | exited => exact absurd rfl hne

theorem waitOrd_setWorker {s : St} (h : InvW s) (i : Nat) (ws : WState) (wq rw) :
    ∀ j, (setWorker s i ws wq rw).workers[j]? = some (.waiting false) → j ∈ (setWorker s i ws wq rw).waitOrder := by
  intro j hj
  simp only [setWorker_workers, List.getElem?_set] at hj
  by_cases hij : i = j
  · subst hij
    simp only [if_true] at hj
    split at hj
    · simp at hj; subst hj; simp [setWorker]
    · cases hj
  · simp only [hij, if_false] at hj
    have := h.waitOrd j hj
    have hm : j ∈ s.waitOrder.erase i := (List.mem_erase_of_ne (fun e => hij e.symm)).mpr this
    simp only [setWorker]
    split
    · exact List.mem_append_left _ hm
    · exact hm

theorem InvW.relook {s : St} (h : InvW s) {i : Nat} {old : WState} (hi : s.workers[i]? = some old) :
    InvW (relook s i) := by
  have hlt : i < s.workers.length := (List.getElem?_eq_some_iff.mp hi).1
  cases hq : s.wq with
  | none =>
    rw [relook_of_closed i hq]
    exact ⟨fun hq' => (by cases hq'), fun hq' => (by cases hq'), waitOrd_setWorker h _ _ _ _, h.tids, fun q hq' => by cases hq'⟩
  | some q =>
    have hqs : s.wq.isSome = true := by simp [hq]
    rw [relook_of_open i hq]
    refine ⟨fun _ => ?_, fun _ ws hws => ?_, waitOrd_setWorker h _ _ _ _, h.tids, fun q' hq' hne => ?_⟩
    · simpa using h.nonempty hqs
    · rcases mem_set_cases hws with rfl | hws
      · cases (takeNext q s.rwork).1 with
        | none => simp [optState]
        | some x => simp [optState]
      · exact h.noExit hqs ws hws
    · simp only [setWorker_wq, Option.some.injEq] at hq'
      subst hq'
      left
      refine ⟨_, List.mem_set hlt _, ?_⟩
      cases ho : (takeNext q s.rwork).1 with
      | none => exact absurd (takeNext_none ho) hne
      | some x => exact Or.inr (Or.inr ⟨_, _, rfl⟩)

theorem InvW.finish {s : St} (h : InvW s) {i : Nat} {w : Work} {cb : Nat}
    (hi : s.workers[i]? = some (.running w cb)) : InvW (finish s i w cb) := by
  have hlt : i < s.workers.length := (List.getElem?_eq_some_iff.mp hi).1
  refine ⟨fun hq => ?_, fun hq ws hws => ?_, fun j hj => ?_, h.tids, fun q' _ _ => ?_⟩
  · simpa [Pool.finish] using h.nonempty hq
  · rcases mem_set_cases hws with rfl | hws
    · simp
    · exact h.noExit hq ws hws
  · simp only [Pool.finish, List.getElem?_set] at hj
    split at hj
    · first | (split at hj <;> simp at hj) | simp at hj
    · exact h.waitOrd j hj
  · exact Or.inl ⟨_, List.mem_set hlt _, Or.inl rfl⟩

theorem InvW.next {s : St} (h : InvW s) {i : Nat} {w : Work} {cb : Nat} (f : Nat) (fs : List Nat)
    (hi : s.workers[i]? = some (.running w cb)) : InvW (next s i w cb f fs) := by
  have hlt : i < s.workers.length := (List.getElem?_eq_some_iff.mp hi).1
  have h' : InvW { s with finished := s.finished ++ [cb] } := ⟨h.nonempty, h.noExit, h.waitOrd, h.tids, h.nlw⟩
  refine ⟨fun hq => ?_, fun hq ws hws => ?_, waitOrd_setWorker h' _ _ _ _, h.tids, fun q' _ _ => ?_⟩
  · simpa [Pool.next] using h.nonempty hq
  · rcases mem_set_cases hws with rfl | hws
    · simp
    · exact h.noExit hq ws hws
  · exact Or.inl ⟨_, List.mem_set hlt _, Or.inr (Or.inr ⟨_, _, rfl⟩)⟩

theorem InvW.closed {s s' : St} (h : InvW s) (hq : s'.wq = none) (hw : s'.workers = s.workers)
    (ho : s'.waitOrder = s.waitOrder) (hi : s'.inflight = s.inflight) : InvW s' :=
  ⟨fun hq' => (by rw [hq] at hq'; cases hq'), fun hq' => (by rw [hq] at hq'; cases hq'),
    (by rw [hw, ho]; exact h.waitOrd), (by rw [hi]; exact h.tids), fun q hq' => by rw [hq] at hq'; cases hq'⟩

theorem InvW.broadcast {s : St} (h : InvW s) (hq : s.wq = none) : InvW (broadcast s) := by
  refine ⟨fun hq' => ?_, fun hq' => ?_, fun j hj => ?_, h.tids, fun q hq' => ?_⟩
  · simp [Pool.broadcast, hq] at hq'
  · simp [Pool.broadcast, hq] at hq'
  · rw [broadcast_eq] at hj
    simp only [List.getElem?_map, Option.map_eq_some_iff] at hj
    obtain ⟨x, _, hx⟩ := hj
    cases x <;> simp [bcast] at hx
  · simp [Pool.broadcast, hq] at hq'

theorem InvW.step {s s' : St} {a : Act} (h : InvW s) (hs : step s a = some s')
    (hn : ∀ n, a = .serve n → 1 ≤ n) : InvW s' := by
  cases step_Step hs with
  | serve n => exact h.serve (hn n rfl)
  | checkFail => exact h
  | checkPass _ _ _ _ ht => exact h.checkPass _ _ ht
  | lockClosed _ _ _ _ _ hq => exact h.filter _ hq
  | lockAppend _ _ _ _ q hf hq => exact h.subAppend hq hf
  | lockNew _ _ _ _ q _ hq => exact h.subNew hq ..
  | signalSome _ _ _ _ i _ hi =>
    have hi' := List.find?_some hi
    simp only [decide_eq_true_eq] at hi'
    exact h.signalSome _ hi'
  | signalNone _ _ _ _ _ hi => exact h.signalNone _ hi
  | wStart _ hi | wWake _ hi | wSpurious _ hi => exact h.relook hi
  | doneNext _ _ _ _ _ hi => exact h.next _ _ hi
  | doneLast i w cb hi hp =>
    have hlt : i < s.workers.length := (List.getElem?_eq_some_iff.mp hi).1
    exact (h.finish hi).relook (old := .idle) (by simp [Pool.finish, hlt])
  | shutdownCas => exact ⟨h.nonempty, h.noExit, h.waitOrd, h.tids, h.nlw⟩
  | closeLock => exact h.closed rfl rfl rfl rfl
  | closeBroadcast _ hq => exact h.broadcast hq
  | shutdownDone _ hq => exact h.closed hq rfl rfl rfl

theorem InvW.run {acts : List Act} {s s' : St} (h : InvW s) (hr : Pool.run s acts = some s')
    (hn : ∀ n, Act.serve n ∈ acts → 1 ≤ n) : InvW s' := by
  induction acts generalizing s with
  | nil => simp [Pool.run] at hr; exact hr ▸ h
  | cons a as ih =>
    simp only [Pool.run] at hr
    cases hs : Pool.step s a with
    | none => simp [hs] at hr
    | some m =>
      rw [hs] at hr
      exact ih (h.step hs fun n e => hn n (e ▸ List.mem_cons_self)) hr fun n hm => hn n (List.mem_cons_of_mem _ hm)

/-! ## queued work items always hold a callback (used for progress, C02) -/

/-- every queued work item has at least one pending callback -/
def QNE (s : St) : Prop := ∀ q, s.wq = some q → ∀ w ∈ q, w.pending ≠ []

theorem takeNext_subset (q : List Work) (rw : List Nat) : ∀ w ∈ (takeNext q rw).2.1, w ∈ q := by
  induction q generalizing rw with
  | nil => intro w hw; simp [takeNext] at hw
  | cons a r ih =>
    intro w hw
    unfold takeNext at hw
    split at hw
    · exact List.mem_cons_of_mem _ hw
    · exact List.mem_cons_of_mem _ (ih _ w hw)

theorem loopTop_subset (wq : Option (List Work)) (rw : List Nat) (q' : List Work)
    (h : (loopTop wq rw).2.1 = some q') : ∃ q, wq = some q ∧ ∀ w ∈ q', w ∈ q := by
  cases wq with
  | none => simp [loopTop] at h
  | some q =>
    refine ⟨q, rfl, ?_⟩
    have hs := takeNext_subset q rw
    unfold loopTop at h
    simp only at h
    rcases ht : takeNext q rw with ⟨o, rest, rw'⟩
    rw [ht] at h hs
    cases o with
    | none => simp only [Option.some.injEq] at h; subst h; exact hs
    | some p => obtain ⟨w, f⟩ := p; simp only [Option.some.injEq] at h; subst h; exact hs

theorem QNE.relook {s : St} (h : QNE s) (i : Nat) : QNE (relook s i) := by
  intro q' hq' w hw
  have hq'' : (loopTop s.wq s.rwork).2.1 = some q' := by simpa [Pool.relook, setWorker] using hq'
  obtain ⟨q, hq, hsub⟩ := loopTop_subset _ _ _ hq''
  exact h q hq w (hsub w hw)

theorem QNE.init : QNE init := by intro q hq; cases hq

theorem QNE.step {s s' : St} {a : Act} (h : QNE s) (hs : Step s a s') : QNE s' := by
  cases hs with
  | serve => intro q hq w hw; simp [served] at hq; subst hq; cases hw
  | checkFail => exact h
  | checkPass => exact h
  | lockClosed tid t wid cb hf hq => intro q hq'; have : s.wq = some q := hq'; exact absurd (hq.symm.trans this) (by simp)
  | lockAppend tid t wid cb q hf hq =>
    intro q' hq' w hw
    simp only [subAppend, Option.some.injEq] at hq'
    subst hq'
    obtain ⟨w0, hw0, rfl⟩ := List.mem_map.mp hw
    unfold appendWork
    split
    · simp
    · exact h q hq w0 hw0
  | lockNew tid t wid cb q hf hq =>
    intro q' hq' w hw
    simp only [subNew, Option.some.injEq] at hq'
    subst hq'
    rcases List.mem_append.mp hw with hw | hw
    · exact h q hq w hw
    · simp at hw; subst hw; simp
  | signalSome => exact h
  | signalNone => exact h
  | wStart => exact h.relook _
  | wWake => exact h.relook _
  | wSpurious => exact h.relook _
  | doneNext i w cb f fs => intro q hq; exact h q (by simpa [next, setWorker] using hq)
  | doneLast i w cb =>
    have hf : QNE (finish s i w cb) := by intro q hq; exact h q (by simpa [finish] using hq)
    exact hf.relook _
  | shutdownCas => exact h
  | closeLock => intro q hq; cases hq
  | closeBroadcast hp hq =>
    intro q hq'
    have h2 : (broadcast s).wq = s.wq := rfl
    rw [h2, hq] at hq'
    cases hq'
  | shutdownDone hp hq => intro q hq'; have : s.wq = some q := hq'; exact absurd (hq.symm.trans this) (by simp)

theorem QNE.run {acts : List Act} {s0 s : St} (h0 : QNE s0) (hr : Pool.run s0 acts = some s) : QNE s := by
  induction acts generalizing s0 with
  | nil => simp [Pool.run] at hr; exact hr ▸ h0
  | cons a r ih =>
    simp only [Pool.run] at hr
    cases hst : Pool.step s0 a with
    | none => simp [hst] at hr
    | some s1 => rw [hst] at hr; exact ih (h0.step (step_Step hst)) hr

theorem QNE.reachable {acts : List Act} {s : St} (h : Pool.run Pool.init acts = some s) : QNE s :=
  QNE.run QNE.init h

theorem loopTop_head (wid f : Nat) (fs : List Nat) (rest : List Work) (rw : List Nat) :
    loopTop (some (⟨wid, f :: fs⟩ :: rest)) rw = (.running ⟨wid, fs⟩ f, some rest, rw) := by
  simp [loopTop, takeNext]

end GoRes.Pool
