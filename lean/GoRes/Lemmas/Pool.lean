import GoRes.Model.Pool
/-! Helper lemmas and invariants for the worker-pool model (C01, C02, C03, C16). -/
namespace GoRes.Pool

end GoRes.Pool
