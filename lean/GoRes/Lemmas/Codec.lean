import GoRes.Model.Codec
/-! Helper lemmas for the codec model (C18). -/
namespace GoRes.Codec

end GoRes.Codec
