import GoRes.Model.Codec
/-! Helper lemmas for the codec model (C18). -/
namespace GoRes.Codec
open GoRes GoRes.Json

/-! ## `copyAt` -/

@[simp] theorem copyAt_nil_src (dst : List Nat) (off : Nat) : copyAt dst off [] = dst := by
  cases dst <;> cases off <;> simp [copyAt]

@[simp] theorem length_copyAt (dst : List Nat) (off : Nat) (src : List Nat) :
    (copyAt dst off src).length = dst.length := by
  induction dst generalizing off src with
  | nil => cases src <;> simp [copyAt]
  | cons d dst ih =>
    cases src with
    | nil => simp
    | cons s src =>
      cases off with
      | zero => simp [copyAt, ih]
      | succ off => simp [copyAt, ih]

/-- `copy(dst[len(a):], src)` leaves the first `len(a)` bytes alone -/
theorem copyAt_append_left (a b src : List Nat) :
    copyAt (a ++ b) a.length src = a ++ copyAt b 0 src := by
  induction a with
  | nil => simp
  | cons x a ih =>
    cases src with
    | nil => simp
    | cons s src => simp only [List.cons_append, List.length_cons, copyAt, ih]

theorem copyAt_append_left' (a b src : List Nat) (n : Nat) (hn : n = a.length) :
    copyAt (a ++ b) n src = a ++ copyAt b 0 src := by
  subst hn; exact copyAt_append_left a b src

/-- `copy(dst, src)` with enough room overwrites the first `len(src)` bytes -/
theorem copyAt_zero (dst src : List Nat) (h : src.length ≤ dst.length) :
    copyAt dst 0 src = src ++ dst.drop src.length := by
  induction src generalizing dst with
  | nil => simp
  | cons s src ih =>
    cases dst with
    | nil => simp at h
    | cons d dst =>
      simp only [List.length_cons, Nat.add_le_add_iff_right] at h
      simp [copyAt, ih dst h]

theorem set_append_last (xs : List Nat) (y z : Nat) (n : Nat) (hn : n = xs.length) :
    (xs ++ [y]).set n z = xs ++ [z] := by
  subst hn
  induction xs with
  | nil => rfl
  | cons x xs ih => simp [ih]

theorem drop_replicate_zero (n m : Nat) : (List.replicate (n + m) 0).drop n = List.replicate m (0:Nat) := by
  simp

/-! ## `member` -/

theorem member_nil (k : Str) : member [] k = none := rfl

theorem member_none_of_forall_ne (ms : List (Str × J)) (k : Str) (h : ∀ m ∈ ms, m.1 ≠ k) :
    member ms k = none := by
  have : ms.filter (·.1 = k) = [] := by
    rw [List.filter_eq_nil_iff]
    intro m hm
    simpa using h m hm
  simp [member, this]

theorem member_cons_ne (k' k : Str) (v : J) (ms : List (Str × J)) (h : k' ≠ k) :
    member ((k', v) :: ms) k = member ms k := by
  simp [member, h]

theorem member_append_of_right_none (a b : List (Str × J)) (k : Str) (h : ∀ m ∈ b, m.1 ≠ k) :
    member (a ++ b) k = member a k := by
  have : b.filter (·.1 = k) = [] := by
    rw [List.filter_eq_nil_iff]
    intro m hm
    simpa using h m hm
  simp [member, List.filter_append, this]

theorem member_append_of_left_none (a b : List (Str × J)) (k : Str) (h : ∀ m ∈ a, m.1 ≠ k) :
    member (a ++ b) k = member b k := by
  have : a.filter (·.1 = k) = [] := by
    rw [List.filter_eq_nil_iff]
    intro m hm
    simpa using h m hm
  simp [member, List.filter_append, this]

theorem member_append_single (a : List (Str × J)) (k : Str) (x : J) :
    member (a ++ [(k, x)]) k = some x := by
  simp [member, List.filter_append]

theorem member_single (k : Str) (x : J) : member [(k, x)] k = some x := by
  simp [member]

theorem member_single_ne (k' k : Str) (x : J) (h : k' ≠ k) : member [(k', x)] k = none := by
  simp [member, h]

theorem member_cons_eq_of_none (k : Str) (v : J) (ms : List (Str × J)) (h : ∀ m ∈ ms, m.1 ≠ k) :
    member ((k, v) :: ms) k = some v := by
  have : ms.filter (·.1 = k) = [] := by
    rw [List.filter_eq_nil_iff]
    intro m hm
    simpa using h m hm
  simp [member, this]

/-- the wrapped branch of `marshalDataValue` -/
theorem datavalue_wrapped (enc : Str) :
    (let o := List.replicate (enc.length + 9) 0
      let o := copyAt o 0 dataPrefix
      let o := copyAt o 8 enc
      o.set (o.length - 1) 125) = dataPrefix ++ enc ++ [125] := by
  have h1 : copyAt (List.replicate (enc.length + 9) 0) 0 dataPrefix
      = dataPrefix ++ List.replicate (enc.length + 1) 0 := by
    rw [copyAt_zero _ _ (by simp [dataPrefix])]
    simp [dataPrefix]
  have h2 : copyAt (dataPrefix ++ List.replicate (enc.length + 1) 0) 8 enc
      = (dataPrefix ++ enc) ++ [0] := by
    rw [copyAt_append_left' _ _ _ 8 (by simp [dataPrefix]), copyAt_zero _ _ (by simp)]
    simp [List.drop_replicate]
  simp only [h1, h2]
  exact set_append_last _ _ _ _ (by simp [dataPrefix])

theorem meta_ne (metaMember : List (Str × J)) (hm : ∀ m ∈ metaMember, m.1 = b!"meta") (k : Str)
    (hk : b!"meta" ≠ k) : ∀ m ∈ metaMember, m.1 ≠ k := fun m h => by rw [hm m h]; exact hk

end GoRes.Codec
