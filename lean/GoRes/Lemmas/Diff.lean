import GoRes.Model.Diff
/-! Helper lemmas for the diff model (C10): alignment scripts (`keep/add/rem`) and the two
list lemmas behind the edit-script theorem (descending removals = filtering, ascending
insertions rebuild the target). -/
namespace GoRes.Diff.Script

inductive Op (α : Type) | keep (x : α) | add (y : α) | rem (x : α)
deriving Repr, DecidableEq

variable {α : Type}

def src : List (Op α) → List α
  | [] => []
  | .keep x :: r => x :: src r
  | .rem x :: r => x :: src r
  | .add _ :: r => src r

def tgt : List (Op α) → List α
  | [] => []
  | .keep x :: r => x :: tgt r
  | .add y :: r => y :: tgt r
  | .rem _ :: r => tgt r

def keeps : List (Op α) → List α
  | [] => []
  | .keep x :: r => x :: keeps r
  | _ :: r => keeps r

/-- positions (in src coordinates, starting at `base`) of removed elements, ascending -/
def remPos : List (Op α) → Nat → List Nat
  | [], _ => []
  | .keep _ :: r, b => remPos r (b+1)
  | .rem _ :: r, b => b :: remPos r (b+1)
  | .add _ :: r, b => remPos r b

/-- (value, position in tgt coordinates) of added elements, ascending -/
def addPos : List (Op α) → Nat → List (α × Nat)
  | [], _ => []
  | .keep _ :: r, b => addPos r (b+1)
  | .add y :: r, b => (y, b) :: addPos r (b+1)
  | .rem _ :: r, b => addPos r b

def eraseAll (l : List α) (is : List Nat) : List α := is.foldl (fun l i => l.eraseIdx i) l
def insertAll (l : List α) (vs : List (α × Nat)) : List α := vs.foldl (fun l (v, i) => l.insertIdx i v) l

theorem eraseAll_cons_shift (x : α) (l : List α) (is : List Nat) :
    eraseAll (x :: l) (is.map (· + 1)) = x :: eraseAll l is := by
  induction is generalizing l with
  | nil => rfl
  | cons i is ih => simp [eraseAll, List.foldl] at *; exact ih _

theorem remPos_shift (ops : List (Op α)) (b : Nat) :
    remPos ops (b+1) = (remPos ops b).map (· + 1) := by
  induction ops generalizing b with
  | nil => rfl
  | cons o r ih => cases o <;> simp [remPos, ih]

/-- removing the removed positions in DESCENDING order leaves exactly the kept elements -/
theorem erase_desc (ops : List (Op α)) :
    eraseAll (src ops) (remPos ops 0).reverse = keeps ops := by
  induction ops with
  | nil => rfl
  | cons o r ih =>
    cases o with
    | keep x =>
      simp only [src, remPos, keeps]
      rw [remPos_shift, ← List.map_reverse, eraseAll_cons_shift, ih]
    | add y =>
      simp only [src, remPos, keeps]; exact ih
    | rem x =>
      simp only [src, remPos, keeps]
      rw [remPos_shift, List.reverse_cons, ← List.map_reverse]
      have h := eraseAll_cons_shift x (src r) (remPos r 0).reverse
      have : eraseAll (x :: src r) (List.map (· + 1) (remPos r 0).reverse ++ [0])
          = (eraseAll (x :: src r) (List.map (· + 1) (remPos r 0).reverse)).eraseIdx 0 := by
        unfold eraseAll; rw [List.foldl_append]; rfl
      rw [this, h, ih]; rfl

theorem insertAll_cons_shift (x : α) (l : List α) (vs : List (α × Nat)) :
    insertAll (x :: l) (vs.map (fun p => (p.1, p.2 + 1))) = x :: insertAll l vs := by
  induction vs generalizing l with
  | nil => rfl
  | cons v vs ih => simp [insertAll, List.foldl] at *; exact ih _

theorem addPos_shift (ops : List (Op α)) (b : Nat) :
    addPos ops (b+1) = (addPos ops b).map (fun p => (p.1, p.2 + 1)) := by
  induction ops generalizing b with
  | nil => rfl
  | cons o r ih => cases o <;> simp [addPos, ih]

/-- inserting the added elements at their target positions in ASCENDING order rebuilds the target -/
theorem insert_asc (ops : List (Op α)) :
    insertAll (keeps ops) (addPos ops 0) = tgt ops := by
  induction ops with
  | nil => rfl
  | cons o r ih =>
    cases o with
    | keep x =>
      simp only [keeps, addPos, tgt]
      rw [addPos_shift, insertAll_cons_shift, ih]
    | add y =>
      simp only [keeps, addPos, tgt]
      rw [addPos_shift]
      show insertAll ((keeps r).insertIdx 0 y) _ = _
      simp only [List.insertIdx_zero]
      rw [insertAll_cons_shift, ih]
    | rem x =>
      simp only [keeps, addPos, tgt]; exact ih

/-- the edit-script theorem at the level of alignment scripts -/
theorem script_correct (ops : List (Op α)) :
    insertAll (eraseAll (src ops) (remPos ops 0).reverse) (addPos ops 0) = tgt ops := by
  rw [erase_desc, insert_asc]

end GoRes.Diff.Script
