import GoRes.Model.Diff
/-! Helper lemmas for the diff model (C10).

* `Script`: alignment scripts (`keep/add/rem`) and the two list lemmas behind the edit-script
  theorem (descending removals = filtering, ascending insertions rebuild the target).
* association-list models: `mget` after `mset`/`mdel`/`applyChange`, membership in `modelDiff`.
* `commonPrefix` facts and `trim_decomp` (prefix/suffix trimming splits both lists as
  `p ++ · ++ q` with the same `p`, `q`).
* `applyAll_script`: a script's removals (descending) then additions (ascending), as client
  events *with range checks*, take `p ++ src ops ++ q` to `p ++ tgt ops ++ q`.
* `WInv`/`walk_inv`: the backtracking loop implicitly builds an alignment script, whatever the
  table says; `addEvs_eq`/`walk_events`: the emitted events are exactly that script's events
  (the final add index `idx - rems + r + l - i` collapses to `s + bn`). -/
namespace GoRes.Diff.Script

inductive Op (α : Type) | keep (x : α) | add (y : α) | rem (x : α)
deriving Repr, DecidableEq

variable {α : Type}

def src : List (Op α) → List α
  | [] => []
  | .keep x :: r => x :: src r
  | .rem x :: r => x :: src r
  | .add _ :: r => src r

def tgt : List (Op α) → List α
  | [] => []
  | .keep x :: r => x :: tgt r
  | .add y :: r => y :: tgt r
  | .rem _ :: r => tgt r

def keeps : List (Op α) → List α
  | [] => []
  | .keep x :: r => x :: keeps r
  | _ :: r => keeps r

/-- positions (in src coordinates, starting at `base`) of removed elements, ascending -/
def remPos : List (Op α) → Nat → List Nat
  | [], _ => []
  | .keep _ :: r, b => remPos r (b+1)
  | .rem _ :: r, b => b :: remPos r (b+1)
  | .add _ :: r, b => remPos r b

/-- (value, position in tgt coordinates) of added elements, ascending -/
def addPos : List (Op α) → Nat → List (α × Nat)
  | [], _ => []
  | .keep _ :: r, b => addPos r (b+1)
  | .add y :: r, b => (y, b) :: addPos r (b+1)
  | .rem _ :: r, b => addPos r b

def eraseAll (l : List α) (is : List Nat) : List α := is.foldl (fun l i => l.eraseIdx i) l
def insertAll (l : List α) (vs : List (α × Nat)) : List α := vs.foldl (fun l (v, i) => l.insertIdx i v) l

theorem eraseAll_cons_shift (x : α) (l : List α) (is : List Nat) :
    eraseAll (x :: l) (is.map (· + 1)) = x :: eraseAll l is := by
  induction is generalizing l with
  | nil => rfl
  | cons i is ih => simp [eraseAll, List.foldl] at *; exact ih _

theorem remPos_shift (ops : List (Op α)) (b : Nat) :
    remPos ops (b+1) = (remPos ops b).map (· + 1) := by
  induction ops generalizing b with
  | nil => rfl
  | cons o r ih => cases o <;> simp [remPos, ih]

/-- removing the removed positions in DESCENDING order leaves exactly the kept elements -/
theorem erase_desc (ops : List (Op α)) :
    eraseAll (src ops) (remPos ops 0).reverse = keeps ops := by
  induction ops with
  | nil => rfl
  | cons o r ih =>
    cases o with
    | keep x =>
      simp only [src, remPos, keeps]
      rw [remPos_shift, ← List.map_reverse, eraseAll_cons_shift, ih]
    | add y =>
      simp only [src, remPos, keeps]; exact ih
    | rem x =>
      simp only [src, remPos, keeps]
      rw [remPos_shift, List.reverse_cons, ← List.map_reverse]
      have h := eraseAll_cons_shift x (src r) (remPos r 0).reverse
      have : eraseAll (x :: src r) (List.map (· + 1) (remPos r 0).reverse ++ [0])
          = (eraseAll (x :: src r) (List.map (· + 1) (remPos r 0).reverse)).eraseIdx 0 := by
        unfold eraseAll; rw [List.foldl_append]; rfl
      rw [this, h, ih]; rfl

theorem insertAll_cons_shift (x : α) (l : List α) (vs : List (α × Nat)) :
    insertAll (x :: l) (vs.map (fun p => (p.1, p.2 + 1))) = x :: insertAll l vs := by
  induction vs generalizing l with
  | nil => rfl
  | cons v vs ih => simp [insertAll, List.foldl] at *; exact ih _

theorem addPos_shift (ops : List (Op α)) (b : Nat) :
    addPos ops (b+1) = (addPos ops b).map (fun p => (p.1, p.2 + 1)) := by
  induction ops generalizing b with
  | nil => rfl
  | cons o r ih => cases o <;> simp [addPos, ih]

/-- inserting the added elements at their target positions in ASCENDING order rebuilds the target -/
theorem insert_asc (ops : List (Op α)) :
    insertAll (keeps ops) (addPos ops 0) = tgt ops := by
  induction ops with
  | nil => rfl
  | cons o r ih =>
    cases o with
    | keep x =>
      simp only [keeps, addPos, tgt]
      rw [addPos_shift, insertAll_cons_shift, ih]
    | add y =>
      simp only [keeps, addPos, tgt]
      rw [addPos_shift]
      show insertAll ((keeps r).insertIdx 0 y) _ = _
      simp only [List.insertIdx_zero]
      rw [insertAll_cons_shift, ih]
    | rem x =>
      simp only [keeps, addPos, tgt]; exact ih

/-- the edit-script theorem at the level of alignment scripts -/
theorem script_correct (ops : List (Op α)) :
    insertAll (eraseAll (src ops) (remPos ops 0).reverse) (addPos ops 0) = tgt ops := by
  rw [erase_desc, insert_asc]

end GoRes.Diff.Script

/-! ## association-list models -/
namespace GoRes.Diff
variable {α : Type}

theorem mget_cons (e : Str × α) (m : Model α) (k : Str) :
    mget (e :: m) k = if e.1 = k then some e.2 else mget m k := by
  unfold mget; simp only [List.find?_cons]
  by_cases h : e.1 = k
  · simp [h]
  · have : (e.1 == k) = false := by simpa using h
    simp [h, this]

theorem mget_eq_none_iff (m : Model α) (k : Str) : mget m k = none ↔ ∀ e ∈ m, e.1 ≠ k := by
  induction m with
  | nil => simp [mget]
  | cons e m ih => rw [mget_cons]; by_cases h : e.1 = k <;> simp [h, ih]

theorem mem_of_mget (m : Model α) (k : Str) (v : α) (h : mget m k = some v) : (k, v) ∈ m := by
  induction m with
  | nil => simp [mget] at h
  | cons e m ih =>
    rw [mget_cons] at h
    by_cases hk : e.1 = k
    · simp [hk] at h; subst hk; subst h; simp
    · simp [hk] at h; exact List.mem_cons_of_mem _ (ih h)

theorem mget_of_mem (m : Model α) (hn : (m.map (·.1)).Nodup) (k : Str) (v : α) (h : (k, v) ∈ m) :
    mget m k = some v := by
  induction m with
  | nil => simp at h
  | cons e m ih =>
    rw [mget_cons]
    simp only [List.map_cons, List.nodup_cons] at hn
    rcases List.mem_cons.1 h with h | h
    · subst h; simp
    · have : e.1 ≠ k := by
        intro he; apply hn.1; rw [he]; exact List.mem_map.2 ⟨_, h, rfl⟩
      simp [this]; exact ih hn.2 h

theorem mget_map_set (m : Model α) (k k' : Str) (v : α) :
    mget (m.map (fun e => if e.1 == k then (k, v) else e)) k' =
      if k' = k then (mget m k).map (fun _ => v) else mget m k' := by
  induction m with
  | nil => simp [mget]
  | cons e m ih =>
    simp only [List.map_cons, mget_cons, ih]
    by_cases he : e.1 = k
    · by_cases hk : k' = k
      · simp [he, hk]
      · have : ¬ k = k' := fun h => hk h.symm
        simp [he, hk, this]
    · have h2 : (e.1 == k) = false := by simpa using he
      by_cases hk : k' = k
      · subst hk; simp [he, h2]
      · simp [h2, hk]

theorem any_key_iff (m : Model α) (k : Str) : m.any (·.1 == k) = true ↔ mget m k ≠ none := by
  rw [Ne, mget_eq_none_iff]; simp

theorem mget_mset (m : Model α) (k k' : Str) (v : α) :
    mget (mset m k v) k' = if k' = k then some v else mget m k' := by
  unfold mset
  split
  · rename_i h
    rw [mget_map_set]
    rw [any_key_iff] at h
    by_cases hk : k' = k
    · simp only [hk, if_true]
      cases hm : mget m k with
      | none => exact absurd hm h
      | some x => rfl
    · simp [hk]
  · rename_i h
    rw [any_key_iff] at h
    have h : mget m k = none := by simpa using h
    by_cases hk : k' = k
    · subst hk
      unfold mget at h ⊢
      simp only [Option.map_eq_none_iff] at h
      simp [List.find?_append, h]
    · have : ¬ k = k' := fun h => hk h.symm
      unfold mget
      simp [List.find?_append, hk, this]

theorem mget_mdel (m : Model α) (k k' : Str) :
    mget (mdel m k) k' = if k' = k then none else mget m k' := by
  unfold mdel
  induction m with
  | nil => simp [mget]
  | cons e m ih =>
    simp only [List.filter_cons]
    by_cases he : e.1 = k
    · have : (e.1 != k) = false := by simp [he]
      simp only [this, Bool.false_eq_true, if_false, ih, mget_cons]
      by_cases hk : k' = k
      · simp [hk]
      · have : ¬ k = k' := fun h => hk h.symm
        simp [hk, he, this]
    · have : (e.1 != k) = true := by simpa using he
      simp only [this, if_true, mget_cons, ih]
      by_cases hk : k' = k
      · subst hk; simp [he]
      · simp [hk]


theorem applyChange_cons (m : Model α) (e : Str × Option α) (ch : List (Str × Option α)) :
    applyChange m (e :: ch) = applyChange (match e.2 with | some v => mset m e.1 v | none => mdel m e.1) ch := by
  obtain ⟨k, v⟩ := e
  cases v <;> rfl

theorem mget_applyChange (after : Model α) (k : Str) (ch : List (Str × Option α))
    (hc : ∀ e ∈ ch, e.2 = mget after e.1) (m : Model α)
    (h : mget m k = mget after k ∨ ∃ e ∈ ch, e.1 = k) :
    mget (applyChange m ch) k = mget after k := by
  induction ch generalizing m with
  | nil =>
    rcases h with h | ⟨e, he, _⟩
    · exact h
    · simp at he
  | cons e ch ih =>
    rw [applyChange_cons]
    apply ih (fun e' he' => hc e' (List.mem_cons_of_mem _ he'))
    have hce := hc e List.mem_cons_self
    by_cases hk : e.1 = k
    · left
      rw [← hk, ← hce]
      cases e.2 with
      | none => simp [mget_mdel]
      | some v => simp [mget_mset]
    · have hk' : ¬ k = e.1 := fun h => hk h.symm
      have : mget (match e.2 with | some v => mset m e.1 v | none => mdel m e.1) k = mget m k := by
        cases e.2 with
        | none => simp [mget_mdel, hk']
        | some v => simp [mget_mset, hk']
      rw [this]
      rcases h with h | ⟨e', he', hk2⟩
      · exact Or.inl h
      · right
        rcases List.mem_cons.1 he' with h | h
        · subst h; exact absurd hk2 hk
        · exact ⟨e', h, hk2⟩

section
variable [DecidableEq α]

theorem mem_modelDiff (before after : Model α) (k : Str) (v : Option α) :
    (k, v) ∈ modelDiff before after ↔
      (v = none ∧ (∃ x, (k, x) ∈ before) ∧ mget after k = none) ∨
      (∃ x, v = some x ∧ (k, x) ∈ after ∧ mget before k ≠ some x) := by
  unfold modelDiff
  simp only [List.mem_append, List.mem_filterMap]
  constructor
  · rintro (⟨⟨k', x⟩, hm, h⟩ | ⟨⟨k', x⟩, hm, h⟩)
    · left
      simp only at h
      split at h
      · rename_i hn
        simp only [Option.some.injEq, Prod.mk.injEq] at h
        obtain ⟨rfl, rfl⟩ := h
        exact ⟨rfl, ⟨x, hm⟩, by simpa using hn⟩
      · simp at h
    · right
      simp only at h
      split at h
      · rename_i ov hov
        split at h
        · simp at h
        · rename_i hne
          simp only [Option.some.injEq, Prod.mk.injEq] at h
          obtain ⟨rfl, rfl⟩ := h
          refine ⟨x, rfl, hm, ?_⟩
          rw [hov]; intro h; injection h with h; exact hne h.symm
      · rename_i hov
        simp only [Option.some.injEq, Prod.mk.injEq] at h
        obtain ⟨rfl, rfl⟩ := h
        exact ⟨x, rfl, hm, by rw [hov]; simp⟩
  · rintro (⟨rfl, ⟨x, hm⟩, hn⟩ | ⟨x, rfl, hm, hne⟩)
    · left
      exact ⟨(k, x), hm, by simp [hn]⟩
    · right
      refine ⟨(k, x), hm, ?_⟩
      simp only
      split
      · rename_i ov hov
        have : ¬ x = ov := by intro h; subst h; exact hne hov
        simp [this]
      · rfl


/-! ## collectionDiff: common prefix -/


theorem commonPrefix_self (a : List α) : commonPrefix a a = a.length := by
  induction a with
  | nil => rfl
  | cons x xs ih => simp [commonPrefix, ih]

theorem commonPrefix_le_left (a b : List α) : commonPrefix a b ≤ a.length := by
  induction a generalizing b with
  | nil => simp [commonPrefix]
  | cons x xs ih =>
    cases b with
    | nil => simp [commonPrefix]
    | cons y ys =>
      simp only [commonPrefix]; split
      · simp; exact ih ys
      · simp

theorem commonPrefix_le_right (a b : List α) : commonPrefix a b ≤ b.length := by
  induction a generalizing b with
  | nil => simp [commonPrefix]
  | cons x xs ih =>
    cases b with
    | nil => simp [commonPrefix]
    | cons y ys =>
      simp only [commonPrefix]; split
      · simp; exact ih ys
      · simp

theorem take_commonPrefix (a b : List α) :
    a.take (commonPrefix a b) = b.take (commonPrefix a b) := by
  induction a generalizing b with
  | nil => simp [commonPrefix]
  | cons x xs ih =>
    cases b with
    | nil => simp [commonPrefix]
    | cons y ys =>
      simp only [commonPrefix]; split
      · rename_i h; subst h; simp [ih ys]
      · simp

end

/-! ## alignment scripts as event lists, with the client's range checks -/
section
open Script

theorem applyAll_append (l : List α) (e1 e2 : List (Ev α)) :
    applyAll l (e1 ++ e2) = (applyAll l e1).bind (applyAll · e2) := by
  induction e1 generalizing l with
  | nil => simp [applyAll]
  | cons e es ih =>
    simp only [List.cons_append, applyAll]
    cases applyEv l e with
    | none => rfl
    | some l' => simp [ih]

theorem applyEv_remove_mid (p q : List α) (x : α) :
    applyEv (p ++ x :: q) (.remove (p.length : Int)) = some (p ++ q) := by
  have : (p ++ x :: q).eraseIdx p.length = p ++ q := by
    rw [List.eraseIdx_append_of_length_le (Nat.le_refl _)]; simp
  simp [applyEv, this]

theorem applyEv_add_mid (p q : List α) (y : α) :
    applyEv (p ++ q) (.add y (p.length : Int)) = some (p ++ y :: q) := by
  have : (p ++ q).insertIdx p.length y = p ++ y :: q := by
    induction p with
    | nil => simp
    | cons a p ih => simp [ih]
  simp [applyEv, this]

/-- removing the `rem` positions in descending order, *with range checks*, inside a context -/
theorem applyAll_removes (ops : List (Op α)) (p q : List α) :
    applyAll (p ++ src ops ++ q) ((remPos ops p.length).reverse.map (fun (i : Nat) => Ev.remove (i : Int)))
      = some (p ++ keeps ops ++ q) := by
  induction ops generalizing p with
  | nil => simp [src, remPos, keeps, applyAll]
  | cons o r ih =>
    cases o with
    | keep x =>
      simp only [src, remPos, keeps]
      have := ih (p ++ [x])
      simpa using this
    | add y =>
      simp only [src, remPos, keeps]; exact ih p
    | rem x =>
      simp only [src, remPos, keeps, List.reverse_cons, List.map_append, applyAll_append]
      have := ih (p ++ [x])
      simp only [List.length_append, List.length_singleton, List.append_assoc, List.nil_append,
        List.cons_append] at this
      simp only [List.append_assoc, List.cons_append]
      rw [this]
      simp only [Option.bind_some, List.map_cons, List.map_nil, applyAll]
      rw [applyEv_remove_mid]; rfl

/-- inserting the added elements at their target positions in ascending order, *with range checks* -/
theorem applyAll_adds (ops : List (Op α)) (p q : List α) :
    applyAll (p ++ keeps ops ++ q) ((addPos ops p.length).map (fun (v : α × Nat) => Ev.add v.1 (v.2 : Int)))
      = some (p ++ tgt ops ++ q) := by
  induction ops generalizing p with
  | nil => simp [tgt, addPos, keeps, applyAll]
  | cons o r ih =>
    cases o with
    | keep x =>
      simp only [tgt, addPos, keeps]
      have := ih (p ++ [x])
      simpa using this
    | rem y =>
      simp only [tgt, addPos, keeps]; exact ih p
    | add y =>
      simp only [tgt, addPos, keeps, List.map_cons, applyAll, List.append_assoc]
      rw [applyEv_add_mid]
      have := ih (p ++ [y])
      simp only [List.length_append, List.length_singleton, List.append_assoc, List.nil_append,
        List.cons_append] at this
      simp only [Option.bind_some, List.cons_append]
      exact this

theorem applyAll_script (ops : List (Op α)) (p q : List α) :
    applyAll (p ++ src ops ++ q)
      ((remPos ops p.length).reverse.map (fun (i : Nat) => Ev.remove (i : Int)) ++
        (addPos ops p.length).map (fun (v : α × Nat) => Ev.add v.1 (v.2 : Int)))
      = some (p ++ tgt ops ++ q) := by
  rw [applyAll_append, applyAll_removes, Option.bind_some, applyAll_adds]

end

/-! ## the backtracking loop builds an alignment script -/
section
open Script
variable [Inhabited α]

theorem drop_pred_eq (l : List α) (i : Nat) (h0 : 0 < i) (hi : i ≤ l.length) :
    l.drop (i - 1) = l[i - 1]! :: l.drop i := by
  have h : i - 1 < l.length := by omega
  rw [List.drop_eq_getElem_cons h]
  have : i - 1 + 1 = i := by omega
  rw [this, getElem!_pos l (i-1) h]

/-- invariant of the backtracking loop: `acc` is the alignment script of `aa[i..]` against
`bb[j..]` that the loop has implicitly built so far -/
structure WInv (aa bb : List α) (s i j : Nat) (idx : Int) (st : Walk) (acc : List (Op α)) : Prop where
  hi : i ≤ aa.length
  hj : j ≤ bb.length
  hsrc : src acc = aa.drop i
  htgt : tgt acc = bb.drop j
  hidx : idx = ((s + i : Nat) : Int)
  hrem : st.removes = (remPos acc (s + i)).reverse.map (fun (p : Nat) => (p : Int))
  hrems : st.rems = (st.removes.length : Int)
  hadd : st.adds.reverse.map (fun r => (bb[r.1]!, s + r.1)) = addPos acc (s + j)
  hrec : ∀ k (h : k < st.adds.length),
    st.adds[k].2.1 + st.adds[k].2.2 - (k : Int) - (st.adds[k].1 : Int)
      = (s : Int) + aa.length - bb.length + 1
  hQ : (i : Int) - j - st.adds.length + st.rems = (aa.length : Int) - bb.length

theorem WInv.init (aa bb : List α) (s : Nat) :
    WInv aa bb s aa.length bb.length ((aa.length + s : Nat) : Int) {} [] where
  hi := Nat.le_refl _
  hj := Nat.le_refl _
  hsrc := by simp [src]
  htgt := by simp [tgt]
  hidx := by omega
  hrem := by simp [remPos]
  hrems := by simp
  hadd := by simp [addPos]
  hrec := by intro k h; simp at h
  hQ := by simp

theorem WInv.keep {aa bb : List α} {s i j : Nat} {idx : Int} {st : Walk} {acc : List (Op α)}
    (h : WInv aa bb s i j idx st acc) (hi0 : 0 < i) (hj0 : 0 < j) (heq : aa[i-1]! = bb[j-1]!) :
    WInv aa bb s (i-1) (j-1) (idx-1) st (.keep aa[i-1]! :: acc) where
  hi := by have := h.hi; omega
  hj := by have := h.hj; omega
  hsrc := by rw [drop_pred_eq aa i hi0 h.hi, src, h.hsrc]
  htgt := by rw [drop_pred_eq bb j hj0 h.hj, tgt, h.htgt, heq]
  hidx := by have := h.hidx; omega
  hrem := by
    have : s + (i - 1) + 1 = s + i := by omega
    rw [remPos, this]; exact h.hrem
  hrems := h.hrems
  hadd := by
    have : s + (j - 1) + 1 = s + j := by omega
    rw [addPos, this]; exact h.hadd
  hrec := h.hrec
  hQ := by have := h.hQ; omega

theorem WInv.add {aa bb : List α} {s i j : Nat} {idx : Int} {st : Walk} {acc : List (Op α)}
    (h : WInv aa bb s i j idx st acc) (hj0 : 0 < j) :
    WInv aa bb s i (j-1) idx { st with adds := st.adds ++ [(j - 1, idx, st.rems)] }
      (.add bb[j-1]! :: acc) where
  hi := h.hi
  hj := by have := h.hj; omega
  hsrc := by rw [src, h.hsrc]
  htgt := by rw [drop_pred_eq bb j hj0 h.hj, tgt, h.htgt]
  hidx := h.hidx
  hrem := by rw [remPos]; exact h.hrem
  hrems := h.hrems
  hadd := by
    have : s + (j - 1) + 1 = s + j := by omega
    rw [addPos, this, ← h.hadd]; simp
  hrec := by
    intro k hk
    simp only [List.length_append, List.length_singleton] at hk
    by_cases hk' : k < st.adds.length
    · simp only [List.getElem_append_left hk']; exact h.hrec k hk'
    · have hk2 : k = st.adds.length := by omega
      subst hk2
      simp only [List.getElem_append_right (Nat.le_refl _), Nat.sub_self, List.getElem_singleton]
      have := h.hQ; have := h.hidx; omega
  hQ := by have := h.hQ; simp only [List.length_append, List.length_singleton]; omega

theorem WInv.rem {aa bb : List α} {s i j : Nat} {idx : Int} {st : Walk} {acc : List (Op α)}
    (h : WInv aa bb s i j idx st acc) (hi0 : 0 < i) :
    WInv aa bb s (i-1) j (idx-1)
      { st with removes := st.removes ++ [idx - 1], rems := st.rems + 1 }
      (.rem aa[i-1]! :: acc) where
  hi := by have := h.hi; omega
  hj := h.hj
  hsrc := by rw [drop_pred_eq aa i hi0 h.hi, src, h.hsrc]
  htgt := by rw [tgt, h.htgt]
  hidx := by have := h.hidx; omega
  hrem := by
    have : s + (i - 1) + 1 = s + i := by omega
    rw [remPos, this, List.reverse_cons, List.map_append, ← h.hrem]
    have := h.hidx
    simp only [List.map_cons, List.map_nil, List.append_cancel_left_eq, List.cons.injEq, and_true]
    omega
  hrems := by have := h.hrems; simp only [List.length_append, List.length_singleton]; omega
  hadd := by rw [addPos]; exact h.hadd
  hrec := h.hrec
  hQ := by
    have := h.hQ
    show ((i - 1 : Nat) : Int) - j - st.adds.length + (st.rems + 1) = (aa.length : Int) - bb.length
    omega

variable [DecidableEq α]

theorem walk_inv (aa bb : List α) (c : Nat → Nat → Nat) (s : Nat) :
    ∀ fuel i j idx st acc, WInv aa bb s i j idx st acc → i + j < fuel →
      ∃ ops idx', WInv aa bb s 0 0 idx' (walk aa.toArray bb.toArray c fuel i j idx st) ops := by
  intro fuel
  induction fuel with
  | zero => intro i j idx st acc _ h; omega
  | succ fuel ih =>
    intro i j idx st acc h hf
    unfold walk
    simp only [List.getElem!_toArray]
    split
    · rename_i h1
      exact ih _ _ _ _ _ (h.keep h1.1 h1.2.1 h1.2.2) (by omega)
    · split
      · rename_i h1 h2
        exact ih _ _ _ _ _ (h.add h2.1) (by omega)
      · split
        · rename_i h1 h2 h3
          exact ih _ _ _ _ _ (h.rem h3.1) (by omega)
        · rename_i h1 h2 h3
          have : i = 0 ∧ j = 0 := by omega
          obtain ⟨rfl, rfl⟩ := this
          exact ⟨acc, idx, h⟩

end

/-! ## from the final loop state to the emitted events; prefix/suffix trimming -/
section
open Script

theorem map_range_getElem! [Inhabited α] {β : Type} (l : List α) (g : α → β) :
    (List.range l.length).map (fun i => g l[i]!) = l.map g := by
  apply List.ext_getElem
  · simp
  · intro i h1 h2
    simp only [List.length_map, List.length_range] at h1
    simp [List.getElem?_eq_getElem h1]

section
variable [Inhabited α]

/-- the `add` events of `collectionDiff`, from the final loop state -/
def addEvs (bb : List α) (w : Walk) : List (Ev α) :=
  let l : Int := (w.adds.length : Int) - 1
  (List.range w.adds.length).reverse.map fun i =>
    let (bn, idx, r) := w.adds[i]!
    Ev.add (bb.toArray[bn]!) (idx - w.rems + r + l - (i : Int))

theorem addEvs_eq {aa bb : List α} {s : Nat} {idx : Int} {w : Walk} {ops : List (Op α)}
    (h : WInv aa bb s 0 0 idx w ops) :
    addEvs bb w = (addPos ops s).map (fun (v : α × Nat) => Ev.add v.1 (v.2 : Int)) := by
  have h1 := h.hadd
  simp only [Nat.add_zero] at h1
  rw [← h1, List.map_map, List.map_reverse, addEvs, List.map_reverse]
  congr 1
  rw [← map_range_getElem! w.adds]
  apply List.map_congr_left
  intro k hk
  simp only [List.mem_range] at hk
  have h2 := h.hrec k hk
  have h3 := h.hQ
  rw [getElem!_pos w.adds k hk]
  rcases hr : w.adds[k] with ⟨bn, ix, r⟩
  rw [hr] at h2
  simp only [List.getElem!_toArray, Function.comp] at h2 ⊢
  congr 1
  push_cast
  omega

end

section
variable [DecidableEq α]

theorem trim_decomp (a b : List α) :
    let s := commonPrefix a b
    let t := commonPrefix (a.drop s).reverse (b.drop s).reverse
    ∃ p q : List α, p.length = s ∧
      a = p ++ (a.drop s).take (a.length - s - t) ++ q ∧
      b = p ++ (b.drop s).take (b.length - s - t) ++ q := by
  intro s t
  refine ⟨a.take s, (a.drop s).drop (a.length - s - t), ?_, ?_, ?_⟩
  · have := commonPrefix_le_left a b
    simp only [List.length_take]; omega
  · rw [List.append_assoc, List.take_append_drop, List.take_append_drop]
  · have h1 : a.take s = b.take s := take_commonPrefix a b
    have h2 := take_commonPrefix (a.drop s).reverse (b.drop s).reverse
    rw [List.take_reverse, List.take_reverse] at h2
    have h2 := List.reverse_inj.1 h2
    simp only [List.length_drop] at h2
    rw [h1, h2, List.append_assoc, List.take_append_drop, List.take_append_drop]

variable [Inhabited α]

theorem walk_events (aa bb : List α) (c : Nat → Nat → Nat) (s : Nat) :
    let w := walk aa.toArray bb.toArray c (aa.length + bb.length + 1) aa.length bb.length
      ((aa.length + s : Nat) : Int) {}
    ∃ ops : List (Op α), src ops = aa ∧ tgt ops = bb ∧
      w.removes.map Ev.remove ++ addEvs bb w =
        (remPos ops s).reverse.map (fun (i : Nat) => Ev.remove (i : Int)) ++
          (addPos ops s).map (fun (v : α × Nat) => Ev.add v.1 (v.2 : Int)) := by
  intro w
  obtain ⟨ops, idx', h⟩ := walk_inv aa bb c s _ _ _ _ _ _ (WInv.init aa bb s) (Nat.lt_succ_self _)
  refine ⟨ops, by simpa using h.hsrc, by simpa using h.htgt, ?_⟩
  rw [addEvs_eq h]
  congr 1
  show (walk _ _ _ _ _ _ _ _).removes.map Ev.remove = _
  rw [h.hrem]; simp
end
end

end GoRes.Diff
