import GoRes.Model.QueryHandler
import GoRes.Lemmas.Index
/-! Lemmas for the query handler model (C14). -/
namespace GoRes.QueryHandler
open GoRes GoRes.Index

/-! ## list basics -/

theorem map_insertIdx' {α β : Type} (f : α → β) (l : List α) (i : Nat) (a : α) :
    (l.insertIdx i a).map f = (l.map f).insertIdx i (f a) := by
  induction l generalizing i with
  | nil => cases i <;> simp
  | cons x r ih => cases i <;> simp [ih]

theorem map_eraseIdx' {α β : Type} (f : α → β) (l : List α) (i : Nat) :
    (l.eraseIdx i).map f = (l.map f).eraseIdx i := by
  induction l generalizing i with
  | nil => simp
  | cons x r ih => cases i <;> simp [ih]

/-! ## collections (`.none`, `.coll`): the events are mapped one by one -/

/-- the client event a collection transformer makes of a result event -/
def collEv (f : Bytes → Bytes) : REv → CEv
  | .add id i => .add (f id) i
  | .remove _ i => .remove i

theorem coll_fold (f : Bytes → Bytes) (evs : List REv) (l : List Bytes) :
    (evs.map (collEv f)).foldl applyCEv (.coll (l.map f)) = .coll ((evs.foldl applyREv l).map f) := by
  induction evs generalizing l with
  | nil => rfl
  | cons e r ih =>
    cases e with
    | add id i =>
      simp only [List.map_cons, List.foldl_cons, collEv, applyCEv, applyREv]
      rw [← map_insertIdx', ih]
    | remove id i =>
      simp only [List.map_cons, List.foldl_cons, collEv, applyCEv, applyREv]
      rw [← map_eraseIdx', ih]

theorem transformEvents_none (t : RidOf) (evs : List REv) :
    transformEvents .none t evs = evs.map (collEv id) := by
  unfold transformEvents
  apply List.map_congr_left
  intro e _
  cases e <;> rfl

theorem transformEvents_coll (t : RidOf) (evs : List REv) :
    transformEvents .coll t evs = evs.map (collEv (ref t)) := by
  unfold transformEvents
  apply List.map_congr_left
  intro e _
  cases e <;> rfl

/-! ## models: everything happens on the sorted list of keys -/

/-- `minsert` on keys only -/
def kinsert (k : Bytes) : List Bytes → List Bytes
  | [] => [k]
  | k' :: r => if k = k' then k :: r else if blt k k' then k :: k' :: r else k' :: kinsert k r

/-- the model entry of an id -/
def ment (t : RidOf) (k : Bytes) : Bytes × Bytes := (k, ref t k)

/-- the change-event entry of an action on an id (`true` = add) -/
def cent (t : RidOf) (a : Bytes × Bool) : Bytes × Option Bytes := (a.1, if a.2 then some (ref t a.1) else none)

theorem minsert_map (t : RidOf) (k : Bytes) (l : List Bytes) :
    minsert k (ref t k) (l.map (ment t)) = (kinsert k l).map (ment t) := by
  induction l with
  | nil => rfl
  | cons k' r ih =>
    simp only [List.map_cons, kinsert]
    rw [show ment t k' = (k', ref t k') from rfl, minsert]
    by_cases h1 : k = k'
    · simp [h1, ment]
    · by_cases h2 : blt k k' = true
      · simp [h1, h2, ment]
      · simp [h1, h2, ih, ment]

theorem mdelete_map (t : RidOf) (k : Bytes) (l : List Bytes) :
    mdelete k (l.map (ment t)) = (l.filter (· != k)).map (ment t) := by
  unfold mdelete
  rw [List.filter_map]
  rfl

/-- the sorted keys of a result -/
def skeys (ids : List Bytes) (init : List Bytes) : List Bytes := ids.foldl (fun l id => kinsert id l) init

theorem toModel_map (t : RidOf) (ids : List Bytes) (l : List Bytes) :
    ids.foldl (fun m id => minsert id (ref t id) m) (l.map (ment t)) = (skeys ids l).map (ment t) := by
  induction ids generalizing l with
  | nil => rfl
  | cons x r ih =>
    simp only [List.foldl_cons, skeys]
    rw [minsert_map, ih]
    rfl

theorem transformResult_model (t : RidOf) (ids : List Bytes) :
    transformResult .model t ids = .model ((skeys ids []).map (ment t)) := by
  have := toModel_map t ids []
  simp only [List.map_nil] at this
  simp only [transformResult, this]

/-- the action of a result event -/
def actOf : REv → Bytes × Bool
  | .add id _ => (id, true)
  | .remove id _ => (id, false)

/-- the change list on actions: a later action on an id replaces the earlier one -/
def chStep (m : List (Bytes × Bool)) (e : REv) : List (Bytes × Bool) :=
  m.filter (·.1 != (actOf e).1) ++ [actOf e]

theorem ch_map_gen (t : RidOf) (step : List (Bytes × Option Bytes) → REv → List (Bytes × Option Bytes))
    (hstep : ∀ m e, step (m.map (cent t)) e = (chStep m e).map (cent t))
    (evs : List REv) (m : List (Bytes × Bool)) :
    evs.foldl step (m.map (cent t)) = (evs.foldl chStep m).map (cent t) := by
  induction evs generalizing m with
  | nil => rfl
  | cons e r ih =>
    simp only [List.foldl_cons]
    rw [hstep, ih]

theorem transformEvents_model (t : RidOf) (evs : List REv) (he : evs ≠ []) :
    transformEvents .model t evs = [.change ((evs.foldl chStep []).map (cent t))] := by
  unfold transformEvents
  have h : evs.isEmpty = false := by
    cases evs with
    | nil => exact absurd rfl he
    | cons _ _ => rfl
  simp only [h]
  refine congrArg (fun x => [CEv.change x]) ?_
  refine ch_map_gen t _ (fun m e => ?_) evs []
  cases e with
  | add id i =>
    simp only [chStep, actOf, List.map_append, List.filter_map, List.map_cons, List.map_nil, cent]
    rfl
  | remove id i =>
    simp only [chStep, actOf, List.map_append, List.filter_map, List.map_cons, List.map_nil, cent]
    rfl

/-- the client's change step on keys -/
def kapply (l : List Bytes) (a : Bytes × Bool) : List Bytes :=
  if a.2 then kinsert a.1 l else l.filter (· != a.1)

theorem change_gen (t : RidOf) (f : List (Bytes × Bytes) → Bytes × Option Bytes → List (Bytes × Bytes))
    (hf : ∀ l a, f (l.map (ment t)) (cent t a) = (kapply l a).map (ment t))
    (acts : List (Bytes × Bool)) (l : List Bytes) :
    (acts.map (cent t)).foldl f (l.map (ment t)) = (acts.foldl kapply l).map (ment t) := by
  induction acts generalizing l with
  | nil => rfl
  | cons a r ih =>
    simp only [List.map_cons, List.foldl_cons]
    rw [hf, ih]

theorem applyCEv_change (t : RidOf) (acts : List (Bytes × Bool)) (l : List Bytes) :
    applyCEv (.model (l.map (ment t))) (.change (acts.map (cent t)))
      = .model ((acts.foldl kapply l).map (ment t)) := by
  simp only [applyCEv]
  refine congrArg Content.model ?_
  refine change_gen t _ (fun l a => ?_) acts l
  obtain ⟨k, b⟩ := a
  cases b with
  | true =>
    simp only [cent, kapply, if_true]
    exact minsert_map t k l
  | false =>
    simp only [cent, kapply, Bool.false_eq_true, if_false]
    exact mdelete_map t k l

/-! ### sortedness and members of the key lists -/

theorem mem_kinsert (k x : Bytes) (l : List Bytes) : x ∈ kinsert k l ↔ x = k ∨ x ∈ l := by
  induction l with
  | nil => simp [kinsert]
  | cons k' r ih =>
    unfold kinsert
    by_cases h1 : k = k'
    · subst h1; simp
    · by_cases h2 : blt k k' = true
      · simp [h1, h2]
      · rw [if_neg h1, if_neg h2]
        simp only [List.mem_cons, ih]
        constructor
        · rintro (h | h | h)
          · exact Or.inr (Or.inl h)
          · exact Or.inl h
          · exact Or.inr (Or.inr h)
        · rintro (h | h | h)
          · exact Or.inr (Or.inl h)
          · exact Or.inl h
          · exact Or.inr (Or.inr h)

theorem kinsert_sorted (k : Bytes) (l : List Bytes) (h : l.Pairwise (fun a b => blt a b = true)) :
    (kinsert k l).Pairwise (fun a b => blt a b = true) := by
  induction l with
  | nil => simp [kinsert]
  | cons k' r ih =>
    rw [List.pairwise_cons] at h
    unfold kinsert
    by_cases h1 : k = k'
    · subst h1
      rw [if_pos rfl]
      exact List.pairwise_cons.2 h
    · by_cases h2 : blt k k' = true
      · rw [if_neg h1, if_pos h2]
        refine List.pairwise_cons.2 ⟨?_, List.pairwise_cons.2 h⟩
        intro x hx
        rcases List.mem_cons.1 hx with e | hx
        · subst e; exact h2
        · exact blt_trans h2 (h.1 x hx)
      · rw [if_neg h1, if_neg h2]
        refine List.pairwise_cons.2 ⟨?_, ih h.2⟩
        intro x hx
        rcases (mem_kinsert k x r).1 hx with e | hx
        · subst e
          have h2' : blt x k' = false := by simpa using h2
          exact blt_of_not_blt h2' h1
        · exact h.1 x hx

theorem skeys_sorted (ids l : List Bytes) (h : l.Pairwise (fun a b => blt a b = true)) :
    (skeys ids l).Pairwise (fun a b => blt a b = true) := by
  induction ids generalizing l with
  | nil => exact h
  | cons x r ih => exact ih _ (kinsert_sorted x l h)

theorem mem_skeys (ids l : List Bytes) (x : Bytes) : x ∈ skeys ids l ↔ x ∈ ids ∨ x ∈ l := by
  induction ids generalizing l with
  | nil => simp [skeys]
  | cons y r ih =>
    have : skeys (y :: r) l = skeys r (kinsert y l) := rfl
    rw [this, ih, mem_kinsert, List.mem_cons]
    constructor
    · rintro (h | h | h)
      · exact Or.inl (Or.inr h)
      · exact Or.inl (Or.inl h)
      · exact Or.inr h
    · rintro ((h | h) | h)
      · exact Or.inr (Or.inl h)
      · exact Or.inl h
      · exact Or.inr (Or.inr h)

theorem kapply_sorted (a : Bytes × Bool) (l : List Bytes) (h : l.Pairwise (fun a b => blt a b = true)) :
    (kapply l a).Pairwise (fun a b => blt a b = true) := by
  unfold kapply
  split
  · exact kinsert_sorted _ _ h
  · exact h.filter _

theorem kapply_fold_sorted (acts : List (Bytes × Bool)) (l : List Bytes)
    (h : l.Pairwise (fun a b => blt a b = true)) :
    (acts.foldl kapply l).Pairwise (fun a b => blt a b = true) := by
  induction acts generalizing l with
  | nil => exact h
  | cons a r ih => exact ih _ (kapply_sorted a l h)

/-- the fate of `x` under a list of actions: the last action on `x` decides, `init` without one -/
def final (x : Bytes) (acts : List (Bytes × Bool)) (init : Bool) : Bool :=
  acts.foldl (fun b a => if a.1 = x then a.2 else b) init

theorem mem_kapply (a : Bytes × Bool) (l : List Bytes) (x : Bytes) (b : Bool) (hb : b = true ↔ x ∈ l) :
    (if a.1 = x then a.2 else b) = true ↔ x ∈ kapply l a := by
  obtain ⟨k, v⟩ := a
  unfold kapply
  cases v with
  | true =>
    simp only [if_true, mem_kinsert]
    by_cases h : k = x
    · simp [h]
    · simp only [h, if_false, hb]
      constructor
      · exact Or.inr
      · rintro (e | e)
        · exact absurd e.symm h
        · exact e
  | false =>
    simp only [Bool.false_eq_true, if_false, List.mem_filter]
    by_cases h : k = x
    · simp [h]
    · simp only [h, if_false, hb]
      constructor
      · intro hx
        refine ⟨hx, ?_⟩
        simp only [bne_iff_ne, ne_eq]
        exact fun e => h e.symm
      · exact fun hx => hx.1

theorem mem_kapply_fold (acts : List (Bytes × Bool)) (l : List Bytes) (x : Bytes) (b : Bool)
    (hb : b = true ↔ x ∈ l) : final x acts b = true ↔ x ∈ acts.foldl kapply l := by
  induction acts generalizing l b with
  | nil => exact hb
  | cons a r ih =>
    simp only [final, List.foldl_cons]
    exact ih (kapply l a) _ (mem_kapply a l x b hb)

/-! ### the change list decides like the list of all actions -/

theorem final_append (x : Bytes) (m m' : List (Bytes × Bool)) (b : Bool) :
    final x (m ++ m') b = final x m' (final x m b) := by
  simp [final, List.foldl_append]

theorem final_filter (x k : Bytes) (m : List (Bytes × Bool)) (b : Bool) (h : k ≠ x) :
    final x (m.filter (·.1 != k)) b = final x m b := by
  induction m generalizing b with
  | nil => rfl
  | cons a r ih =>
    by_cases ha : a.1 = k
    · have hax : a.1 ≠ x := by rw [ha]; exact h
      have : List.filter (fun y => y.1 != k) (a :: r) = List.filter (fun y => y.1 != k) r := by
        simp [ha]
      rw [this, ih]
      simp [final, List.foldl_cons, hax]
    · have : List.filter (fun y => y.1 != k) (a :: r) = a :: List.filter (fun y => y.1 != k) r := by
        simp [ha]
      rw [this]
      simp only [final, List.foldl_cons]
      exact ih _

theorem final_chStep (x : Bytes) (m : List (Bytes × Bool)) (e : REv) (b : Bool) :
    final x (chStep m e) b = final x (m ++ [actOf e]) b := by
  unfold chStep
  rw [final_append, final_append]
  by_cases h : (actOf e).1 = x
  · simp [final, h]
  · rw [final_filter x _ m b h]

theorem final_ch (x : Bytes) (evs : List REv) (m : List (Bytes × Bool)) (b : Bool) :
    final x (evs.foldl chStep m) b = final x (m ++ evs.map actOf) b := by
  induction evs generalizing m with
  | nil => simp
  | cons e r ih =>
    simp only [List.foldl_cons, List.map_cons]
    rw [ih, final_append, final_chStep, ← final_append, List.append_assoc]
    rfl

/-! ### the result events decide the same way -/

theorem mem_eraseIdx_nodup (l : List Bytes) (i : Nat) (id x : Bytes) (hn : l.Nodup) (hi : l[i]? = some id) :
    x ∈ l.eraseIdx i ↔ x ∈ l ∧ x ≠ id := by
  rw [List.mem_eraseIdx_iff_getElem]
  obtain ⟨hlt, hget⟩ := List.getElem?_eq_some_iff.1 hi
  constructor
  · rintro ⟨j, hj, hne, rfl⟩
    refine ⟨List.getElem_mem hj, ?_⟩
    intro e
    rw [← hget] at e
    exact hne ((List.getElem_inj hn).1 e)
  · rintro ⟨hx, hne⟩
    obtain ⟨j, hj, rfl⟩ := List.getElem_of_mem hx
    refine ⟨j, hj, ?_, rfl⟩
    intro e
    subst e
    exact hne hget

theorem nodup_insertIdx' (l : List Bytes) (i : Nat) (id : Bytes) (hn : l.Nodup) (hid : id ∉ l) :
    (l.insertIdx i id).Nodup := by
  induction l generalizing i with
  | nil => cases i <;> simp
  | cons y r ih =>
    cases i with
    | zero =>
      rw [List.insertIdx_zero]
      exact List.nodup_cons.2 ⟨hid, hn⟩
    | succ i =>
      rw [List.insertIdx_succ_cons]
      rw [List.nodup_cons] at hn
      rw [List.mem_cons, not_or] at hid
      refine List.nodup_cons.2 ⟨?_, ih i hn.2 hid.2⟩
      intro hy
      by_cases hle : i ≤ r.length
      · rcases (List.mem_insertIdx hle).1 hy with e | e
        · exact hid.1 e.symm
        · exact hn.1 e
      · rw [List.insertIdx_of_length_lt (by omega)] at hy
        exact hn.1 hy

theorem mem_applyREv_fold (evs : List REv) (l : List Bytes) (x : Bytes) (b : Bool)
    (hn : l.Nodup) (hwf : wfEvents l evs = true) (hb : b = true ↔ x ∈ l) :
    final x (evs.map actOf) b = true ↔ x ∈ evs.foldl applyREv l := by
  induction evs generalizing l b with
  | nil => exact hb
  | cons e r ih =>
    cases e with
    | add id i =>
      simp only [wfEvents, Bool.and_eq_true, decide_eq_true_eq, Bool.not_eq_true',
        List.contains_eq_mem, decide_eq_false_iff_not] at hwf
      obtain ⟨⟨hi, hid⟩, hwf⟩ := hwf
      simp only [List.map_cons, final, List.foldl_cons, applyREv, actOf]
      apply ih _ _ (nodup_insertIdx' l i id hn hid) hwf
      rw [List.mem_insertIdx hi]
      by_cases h : id = x
      · simp [h]
      · simp only [h, if_false, hb]
        constructor
        · exact Or.inr
        · rintro (e | e)
          · exact absurd e.symm h
          · exact e
    | remove id i =>
      simp only [wfEvents, Bool.and_eq_true, beq_iff_eq] at hwf
      obtain ⟨hi, hwf⟩ := hwf
      simp only [List.map_cons, final, List.foldl_cons, applyREv, actOf]
      apply ih _ _ (hn.eraseIdx i) hwf
      rw [mem_eraseIdx_nodup l i id x hn hi]
      by_cases h : id = x
      · simp [h]
      · simp only [h, if_false, hb]
        constructor
        · exact fun hx => ⟨hx, fun e => h e.symm⟩
        · exact fun hx => hx.1

/-- the model case on keys -/
theorem model_keys (evs : List REv) (old : List Bytes) (hn : old.Nodup) (hwf : wfEvents old evs = true) :
    (evs.foldl chStep []).foldl kapply (skeys old []) = skeys (evs.foldl applyREv old) [] := by
  apply sorted_ext
  · exact kapply_fold_sorted _ _ (skeys_sorted _ _ List.Pairwise.nil)
  · exact skeys_sorted _ _ List.Pairwise.nil
  · intro x
    have hb : decide (x ∈ old) = true ↔ x ∈ skeys old [] := by
      simp [mem_skeys]
    have hb' : decide (x ∈ old) = true ↔ x ∈ old := by simp
    rw [← mem_kapply_fold _ _ x _ hb, final_ch, List.nil_append,
      mem_applyREv_fold evs old x _ hn hwf hb', mem_skeys]
    simp

/-! ## the events turn the held content into the new one -/

theorem events_coherent (tr : Trans) (t : RidOf) (evs : List REv) (old : List Bytes)
    (hn : old.Nodup) (hwf : wfEvents old evs = true) :
    (transformEvents tr t evs).foldl applyCEv (transformResult tr t old)
      = transformResult tr t (evs.foldl applyREv old) := by
  cases tr with
  | none =>
    rw [transformEvents_none]
    have := coll_fold id evs old
    simpa [transformResult] using this
  | coll =>
    rw [transformEvents_coll]
    exact coll_fold (ref t) evs old
  | model =>
    rw [transformResult_model, transformResult_model]
    by_cases he : evs = []
    · subst he
      rfl
    · rw [transformEvents_model t evs he]
      simp only [List.foldl_cons, List.foldl_nil]
      rw [applyCEv_change, model_keys evs old hn hwf]

/-- ordinary resources: reset → the client fetches again; events → it applies them -/
theorem resource_coherent (tr : Trans) (t : RidOf) (a : Answer) (old new : List Bytes)
    (hold : old.Nodup) (hs : soundAnswer a old new) :
    clientApply (transformResult tr t old) (resourceEvent tr t a (transformResult tr t new)) = transformResult tr t new := by
  unfold resourceEvent
  by_cases hr : a.reset = true
  · rw [if_pos hr]
    rfl
  · rcases hs with hs | ⟨hwf, hnew⟩
    · exact absurd hs hr
    · rw [if_neg hr]
      by_cases he : a.events.isEmpty = true
      · have : a.events = [] := List.isEmpty_iff.1 he
        rw [this] at hnew
        rw [if_pos he]
        simp only [clientApply]
        rw [← hnew]
        rfl
      · rw [if_neg he]
        simp only [clientApply]
        rw [events_coherent tr t a.events old hold hwf, hnew]

theorem query_coherent (tr : Trans) (t : RidOf) (a : Answer) (old new : List Bytes)
    (hold : old.Nodup) (hs : soundAnswer a old new) :
    clientApply (transformResult tr t old) (queryRequest tr t a (transformResult tr t new)) = transformResult tr t new := by
  unfold queryRequest
  by_cases hr : a.reset = true
  · rw [if_pos hr]
    rfl
  · rcases hs with hs | ⟨hwf, hnew⟩
    · exact absurd hs hr
    · rw [if_neg hr]
      simp only [clientApply]
      rw [events_coherent tr t a.events old hold hwf, hnew]

/-! ## query results hold an id once -/

theorem entriesOf_ids_nodup {V : Type} (ix : Idx V) (vals : List (Bytes × V)) (hd : (vals.map (·.1)).Nodup) :
    ((entriesOf ix vals).map (·.2)).Nodup := by
  unfold entriesOf
  rw [List.Nodup, List.pairwise_map, List.pairwise_filterMap]
  have h := List.pairwise_map.1 hd
  refine h.imp ?_
  intro a b hab x hx y hy
  obtain ⟨ida, va⟩ := a
  obtain ⟨idb, vb⟩ := b
  cases hka : ix.key va with
  | none => simp [hka] at hx
  | some ka =>
    cases hkb : ix.key vb with
    | none => simp [hkb] at hy
    | some kb =>
      simp only [hka, hkb, Option.map_some, Option.some.injEq] at hx hy
      subst hx; subst hy
      exact hab

/-- a query result holds every id at most once -/
theorem spec_nodup {V : Type} (ix : Idx V) (vals : List (Bytes × V)) (pre : Bytes) (filter : Bytes → Bool)
    (offset limit : Int) (reverse : Bool) (hd : (vals.map (·.1)).Nodup) :
    (spec (entriesOf ix vals) pre filter offset limit reverse).Nodup := by
  unfold spec
  by_cases hl : limit = 0
  · simp [hl]
  · simp only [hl, if_false]
    have h0 := entriesOf_ids_nodup ix vals hd
    have h1 : ((sortPairs (entriesOf ix vals)).map (·.2)).Nodup :=
      (((sortPairs_perm (entriesOf ix vals)).map (·.2)).nodup_iff).2 h0
    have h2 : (((sortPairs (entriesOf ix vals)).filter (fun e => pre.isPrefixOf e.1 && filter e.1)).map (·.2)).Nodup :=
      List.Nodup.sublist (List.filter_sublist.map _) h1
    have h3 : ((if reverse = true then
        ((sortPairs (entriesOf ix vals)).filter (fun e => pre.isPrefixOf e.1 && filter e.1)).reverse
        else (sortPairs (entriesOf ix vals)).filter (fun e => pre.isPrefixOf e.1 && filter e.1)).map (·.2)).Nodup := by
      split
      · exact (((List.reverse_perm _).map (fun (e : Bytes × Bytes) => e.2)).nodup_iff).2 h2
      · exact h2
    refine List.Nodup.sublist (List.Sublist.map _ ?_) h3
    split
    · exact List.drop_sublist _ _
    · exact (List.take_sublist _ _).trans (List.drop_sublist _ _)

end GoRes.QueryHandler
