import GoRes.Model.Legacy
/-! Helper lemmas for the legacy middleware model (C20). -/
namespace GoRes.Legacy
open GoRes

/-! ## `mget` after `mset` / `mdel` -/

theorem mget_nil (k : Str) : mget [] k = none := rfl

theorem mget_cons (e : Str × Str) (m : List (Str × Str)) (k : Str) :
    mget (e :: m) k = if e.1 = k then some e.2 else mget m k := by
  unfold mget
  by_cases h : e.1 = k <;> simp [h]

theorem mget_eq_none_of_not_any (m : List (Str × Str)) (k : Str) (h : m.any (·.1 == k) = false) :
    mget m k = none := by
  induction m with
  | nil => rfl
  | cons e m ih =>
    simp only [List.any_cons, Bool.or_eq_false_iff, beq_eq_false_iff_ne, ne_eq] at h
    rw [mget_cons, if_neg h.1]
    exact ih h.2

theorem mget_map_self (m : List (Str × Str)) (k v : Str) (h : m.any (·.1 == k) = true) :
    mget (m.map (fun e => if e.1 == k then (k, v) else e)) k = some v := by
  induction m with
  | nil => simp at h
  | cons e m ih =>
    rw [List.map_cons, mget_cons]
    by_cases he : e.1 = k
    · simp [he]
    · have hb : (e.1 == k) = false := by simpa using he
      simp only [hb, Bool.false_eq_true, if_false, if_neg he]
      apply ih
      simpa [hb] using h

theorem mget_map_ne (m : List (Str × Str)) (k v k' : Str) (hne : k' ≠ k) :
    mget (m.map (fun e => if e.1 == k then (k, v) else e)) k' = mget m k' := by
  induction m with
  | nil => rfl
  | cons e m ih =>
    rw [List.map_cons, mget_cons, mget_cons, ih]
    by_cases he : e.1 = k
    · have h1 : ¬ k = k' := fun h => hne h.symm
      have h2 : ¬ e.1 = k' := fun h => hne (h.symm.trans he)
      simp [he, h1]
    · have hb : (e.1 == k) = false := by simpa using he
      simp [hb]

theorem mget_append (m : List (Str × Str)) (k v k' : Str) :
    mget (m ++ [(k, v)]) k' = (mget m k').or (if k = k' then some v else none) := by
  induction m with
  | nil => rw [List.nil_append, mget_cons, mget_nil]; simp
  | cons e m ih =>
    rw [List.cons_append, mget_cons, mget_cons, ih]
    by_cases he : e.1 = k' <;> simp [he]

theorem mget_mset_self (m : List (Str × Str)) (k v : Str) : mget (mset m k v) k = some v := by
  unfold mset
  by_cases h : m.any (·.1 == k) = true
  · rw [if_pos h]; exact mget_map_self m k v h
  · rw [if_neg h, mget_append]
    have h' : m.any (·.1 == k) = false := Bool.eq_false_iff.2 h
    simp [mget_eq_none_of_not_any m k h']

theorem mget_mset_ne (m : List (Str × Str)) (k v k' : Str) (hne : k' ≠ k) :
    mget (mset m k v) k' = mget m k' := by
  unfold mset
  by_cases h : m.any (·.1 == k) = true
  · rw [if_pos h]; exact mget_map_ne m k v k' hne
  · rw [if_neg h, mget_append, if_neg (fun h => hne h.symm)]; simp

theorem mget_mdel_self (m : List (Str × Str)) (k : Str) : mget (mdel m k) k = none := by
  unfold mdel
  induction m with
  | nil => rfl
  | cons e m ih =>
    by_cases he : e.1 = k
    · simp [he]; simpa using ih
    · have : (e.1 != k) = true := by simpa using he
      rw [List.filter_cons, if_pos this, mget_cons, if_neg he]; exact ih

theorem mget_mdel_ne (m : List (Str × Str)) (k k' : Str) (hne : k' ≠ k) :
    mget (mdel m k) k' = mget m k' := by
  unfold mdel
  induction m with
  | nil => rfl
  | cons e m ih =>
    by_cases he : e.1 = k
    · have h2 : ¬ e.1 = k' := fun h => hne (h.symm.trans he)
      have : (e.1 != k) = false := by simpa using he
      rw [List.filter_cons, this, mget_cons, if_neg h2]; simpa using ih
    · have : (e.1 != k) = true := by simpa using he
      rw [List.filter_cons, if_pos this, mget_cons, mget_cons, ih]

/-! ## one step of `applyChange` -/

/-- one property of a change event applied to the model: the new model and its `rev` entry -/
def step (m : List (Str × Str)) (k : Str) (v : Option Str) : List (Str × Str) × List (Str × Option Str) :=
  match mget m k, v with
  | none, some x => (mset m k x, [(k, none)])
  | none, none => (m, [])
  | some ov, none => (mdel m k, [(k, some ov)])
  | some ov, some x => if x = ov then (m, []) else (mset m k x, [(k, some ov)])

theorem applyChange_nil (m : List (Str × Str)) : applyChange m [] = (m, []) := rfl

theorem applyChange_cons (m : List (Str × Str)) (k : Str) (v : Option Str) (rest : List (Str × Option Str)) :
    applyChange m ((k, v) :: rest) =
      ((applyChange (step m k v).1 rest).1, (step m k v).2 ++ (applyChange (step m k v).1 rest).2) := by
  rfl

/-- after a step the key has the given value (absent for a delete action), other keys are untouched -/
theorem mget_step (m : List (Str × Str)) (k : Str) (v : Option Str) (k' : Str) :
    mget (step m k v).1 k' = if k' = k then v else mget m k' := by
  unfold step
  by_cases hk : k' = k
  · subst hk
    rw [if_pos rfl]
    split
    · exact mget_mset_self _ _ _
    · assumption
    · exact mget_mdel_self _ _
    · next ov x h =>
      split
      · next hx => rw [hx]; exact h
      · exact mget_mset_self _ _ _
  · rw [if_neg hk]
    split
    · exact mget_mset_ne _ _ _ _ hk
    · rfl
    · exact mget_mdel_ne _ _ _ hk
    · split
      · rfl
      · exact mget_mset_ne _ _ _ _ hk

/-- the `rev` entry of a step: the key, its previous value, and only if the value changes -/
theorem mem_step_rev (m : List (Str × Str)) (k : Str) (v : Option Str) (k' : Str) (ov : Option Str)
    (h : (k', ov) ∈ (step m k v).2) : k' = k ∧ ov = mget m k ∧ v ≠ mget m k := by
  unfold step at h
  split at h
  · next hg => simp at h; simp [h, hg]
  · simp at h
  · next hg => simp at h; simp [h, hg]
  · next ov' x hg =>
    split at h
    · simp at h
    · next hx => simp at h; simp [h, hg, hx]

theorem step_same (m : List (Str × Str)) (k : Str) (v : Option Str) (h : v = mget m k) :
    step m k v = (m, []) := by
  unfold step
  split
  · next hg => rw [hg] at h; cases h
  · rfl
  · next hg => rw [hg] at h; cases h
  · next ov x hg => rw [hg] at h; cases h; simp

/-! ## `applyChange` -/

/-- with distinct keys in `props`, the new model has exactly the given keys set (or removed) -/
theorem mget_applyChange (props : List (Str × Option Str)) (m : List (Str × Str))
    (hk : (props.map (·.1)).Nodup) (k : Str) :
    mget (applyChange m props).1 k = ((props.find? (·.1 == k)).map (·.2)).getD (mget m k) := by
  induction props generalizing m with
  | nil => rfl
  | cons p rest ih =>
    obtain ⟨k0, v0⟩ := p
    rw [List.map_cons, List.nodup_cons] at hk
    rw [applyChange_cons]
    show mget (applyChange (step m k0 v0).1 rest).1 k = _
    rw [ih _ hk.2, mget_step, List.find?_cons]
    by_cases h : k = k0
    · subst h
      have hnone : rest.find? (·.1 == k) = none := by
        rw [List.find?_eq_none]
        intro x hx hxk
        apply hk.1
        have : x.1 = k := by simpa using hxk
        rw [← this]
        exact List.mem_map_of_mem (f := (·.1)) hx
      simp [hnone]
    · have hb : (k0 == k) = false := by simpa using fun h' => h h'.symm
      simp [hb, h]

/-- with distinct keys in `props`, the `rev` map has exactly the previous values of the changed keys -/
theorem mem_applyChange_rev (props : List (Str × Option Str)) (m : List (Str × Str))
    (hk : (props.map (·.1)).Nodup) (k : Str) (ov : Option Str)
    (h : (k, ov) ∈ (applyChange m props).2) :
    ov = mget m k ∧ ∃ v, (k, v) ∈ props ∧ v ≠ mget m k := by
  induction props generalizing m with
  | nil => simp [applyChange_nil] at h
  | cons p rest ih =>
    obtain ⟨k0, v0⟩ := p
    rw [List.map_cons, List.nodup_cons] at hk
    rw [applyChange_cons] at h
    rcases List.mem_append.1 h with h | h
    · obtain ⟨h1, h2, h3⟩ := mem_step_rev _ _ _ _ _ h
      subst h1
      exact ⟨h2, v0, List.mem_cons_self, h3⟩
    · obtain ⟨h1, v, hv, hne⟩ := ih _ hk.2 h
      have hkk : k ≠ k0 := by
        intro hh
        apply hk.1
        rw [← hh]
        exact List.mem_map_of_mem (f := (·.1)) hv
      rw [mget_step, if_neg hkk] at h1 hne
      exact ⟨h1, v, List.mem_cons_of_mem _ hv, hne⟩

/-- a change that sets every key to its current value does nothing -/
theorem applyChange_same (props : List (Str × Option Str)) (m : List (Str × Str))
    (h : ∀ kv ∈ props, kv.2 = mget m kv.1) : applyChange m props = (m, []) := by
  induction props with
  | nil => rfl
  | cons p rest ih =>
    obtain ⟨k0, v0⟩ := p
    rw [applyChange_cons, step_same m k0 v0 (h _ List.mem_cons_self)]
    rw [ih (fun kv hkv => h kv (List.mem_cons_of_mem _ hkv))]
    rfl

end GoRes.Legacy
