import GoRes.Model.Legacy
/-! Helper lemmas for the legacy middleware model (C20). -/
namespace GoRes.Legacy

end GoRes.Legacy
