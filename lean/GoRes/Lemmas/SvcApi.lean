import GoRes.Model.SvcApi
import GoRes.Lemmas.Pattern
/-! Lemmas for the service API model (C07). -/
namespace GoRes.SvcApi
open GoRes GoRes.Pattern

/-! ## tokens -/

/-- the character class of `validToken` -/
def okch (c : Nat) : Bool := decide (c > 32 ∧ c < 127 ∧ c ≠ 46 ∧ c ≠ 42 ∧ c ≠ 62 ∧ c ≠ 63)

theorem validToken_eq (t : Str) : validToken t = (!t.isEmpty && t.all okch) := rfl

theorem okch_iff (c : Nat) : okch c = true ↔ (c > 32 ∧ c < 127 ∧ c ≠ 46 ∧ c ≠ 42 ∧ c ≠ 62 ∧ c ≠ 63) := by
  simp [okch]

/-- `splitDots` distributes over a dot in the middle, whatever is on either side -/
theorem splitDots_append_dot' (a P : Str) : splitDots (a ++ 46 :: P) = splitDots a ++ splitDots P := by
  induction a with
  | nil => simp [splitDots]
  | cons c a ih =>
    by_cases hc : c = 46
    · subst hc
      rw [List.cons_append, splitDots_dot, splitDots_dot, ih]; rfl
    · obtain ⟨t, ts, h⟩ := splitDots_exists a
      rw [h] at ih
      rw [List.cons_append, splitDots_cons hc ih, splitDots_cons hc h]; rfl

/-- what `IsValidRID` accepts, in terms of the tokens of the part before the first `?` -/
theorem ridLoop_tokens (s : Str) : ∀ t ts, splitDots (s.takeWhile (· ≠ 63)) = t :: ts →
    (isValidRIDLoop true s = true → validToken t = true ∧ ts.all validToken = true) ∧
    (isValidRIDLoop false s = true → t.all okch = true ∧ ts.all validToken = true) := by
  induction s with
  | nil =>
    intro t ts h
    simp [splitDots] at h
    obtain ⟨rfl, rfl⟩ := h
    simp [isValidRIDLoop]
  | cons c r ih =>
    intro t ts h
    by_cases h63 : c = 63
    · subst h63
      simp [splitDots] at h
      obtain ⟨rfl, rfl⟩ := h
      simp [isValidRIDLoop]
    · have htw : (c :: r).takeWhile (· ≠ 63) = c :: r.takeWhile (· ≠ 63) := by
        simp [List.takeWhile, h63]
      rw [htw] at h
      obtain ⟨t', ts', h'⟩ := splitDots_exists (r.takeWhile (· ≠ 63))
      obtain ⟨i1, i2⟩ := ih t' ts' h'
      by_cases h46 : c = 46
      · subst h46
        rw [splitDots_dot, h'] at h
        simp at h
        obtain ⟨rfl, rfl⟩ := h
        constructor
        · intro hl
          simp [isValidRIDLoop, Ch.qmark, Ch.star, Ch.gt, Ch.dot] at hl
        · intro hl
          have hl' : isValidRIDLoop true r = true := by
            simpa [isValidRIDLoop, Ch.qmark, Ch.star, Ch.gt, Ch.dot] using hl
          obtain ⟨a, b⟩ := i1 hl'
          simp [a, b]
      · rw [splitDots_cons h46 h'] at h
        simp at h
        obtain ⟨rfl, rfl⟩ := h
        by_cases hbad : c < 33 ∨ c > 126 ∨ c = 42 ∨ c = 62
        · constructor <;> intro hl <;> exfalso <;>
            simp [isValidRIDLoop, h63, h46, Ch.qmark, Ch.star, Ch.gt, Ch.dot] at hl <;> omega
        · have hok : okch c = true := by rw [okch_iff]; omega
          have hstep : ∀ b, isValidRIDLoop b (c :: r) = isValidRIDLoop false r :=
            fun b => ridLoop_cons b c r (by omega)
          constructor
          · intro hl
            rw [hstep] at hl
            obtain ⟨a, b⟩ := i2 hl
            simp [validToken_eq, hok, a, b]
          · intro hl
            rw [hstep] at hl
            obtain ⟨a, b⟩ := i2 hl
            simp [hok, a, b]

theorem validName_of_rid (rid : Str) (hv : isValidRID rid = true) :
    validName (rid.takeWhile (· ≠ 63)) = true := by
  obtain ⟨t, ts, h⟩ := splitDots_exists (rid.takeWhile (· ≠ 63))
  obtain ⟨ht, hts⟩ := (ridLoop_tokens rid t ts h).1 hv
  have hne : rid.takeWhile (· ≠ 63) ≠ [] := by
    intro he
    rw [he] at h
    simp [splitDots] at h
    obtain ⟨rfl, rfl⟩ := h
    simp [validToken] at ht
  simp only [validName, h, List.all_cons, ht, hts, Bool.and_true]
  simpa using hne

theorem natsToken_of_validToken {t : Str} (h : validToken t = true) : natsToken t = true := by
  simp only [validToken, natsToken, Bool.and_eq_true, List.all_eq_true, decide_eq_true_eq,
    Bool.not_eq_true', bne_iff_ne, ne_eq] at h ⊢
  obtain ⟨h1, h2⟩ := h
  refine ⟨⟨⟨h1, ?_⟩, ?_⟩, ?_⟩
  · intro x hx; have := h2 x hx; omega
  · rintro rfl; have := h2 42 (by simp); omega
  · rintro rfl; have := h2 62 (by simp); omega

theorem all_nats_of_all_valid {l : List Str} (h : l.all validToken = true) : l.all natsToken = true := by
  rw [List.all_eq_true] at h ⊢
  exact fun x hx => natsToken_of_validToken (h x hx)

theorem natsSubject_of_validName {s : Str} (h : validName s = true) : natsSubject s = true := by
  simp only [validName, natsSubject, Bool.and_eq_true] at h ⊢
  exact ⟨h.1, all_nats_of_all_valid h.2⟩

/-- the subject of an event on a valid resource name with a dot-free publishable event name -/
theorem natsSubject_eventSubj {rname name : Str} (hr : validName rname = true)
    (hn : natsToken name = true) (hd : NoDot name) : natsSubject (eventSubj rname name) = true := by
  have hr' := natsSubject_of_validName hr
  simp only [natsSubject, Bool.and_eq_true] at hr'
  have e : eventSubj rname name = b!"event" ++ 46 :: (rname ++ 46 :: name) := by
    simp [eventSubj]
  have he : natsToken b!"event" = true := by decide
  rw [e, natsSubject, splitDots_append_dot', splitDots_append_dot', splitDots_noDot hd,
    splitDots_noDot (a := b!"event") (by simp [NoDot])]
  simp [hr'.2, hn, he]

theorem noDot_of_partB {name : Str} (h : Req.isValidPartB name = true) : NoDot name := by
  simp only [Req.isValidPartB, Bool.and_eq_true, List.all_eq_true] at h
  intro x hx
  have := h.2 x hx
  simp at this
  omega

theorem natsToken_of_partB {name : Str} (h : Req.isValidPartB name = true) : natsToken name = true := by
  simp only [Req.isValidPartB, Bool.and_eq_true, List.all_eq_true] at h
  obtain ⟨h1, h2⟩ := h
  simp only [natsToken, Bool.and_eq_true, List.all_eq_true, decide_eq_true_eq, bne_iff_ne, ne_eq]
  refine ⟨⟨⟨h1, ?_⟩, ?_⟩, ?_⟩
  · intro x hx; have := h2 x hx; simp at this; omega
  · rintro rfl; have := h2 42 (by simp); simp at this
  · rintro rfl; have := h2 62 (by simp); simp at this

theorem isValidPart_eq_B (p : Str) : isValidPart p = Req.isValidPartB p := rfl

/-! ## `With` -/

theorem with_conformant (pats : List Str) (rid : Str) (act : Act) (l : List Pub)
    (hv : Pattern.isValidRID rid = true) (h : withOp pats rid act = .pubs l) :
    validName (parseRID rid).1 = true ∧
    ∀ p ∈ l, natsSubject p.subj = true ∧
      ((∃ name, p.subj = eventSubj (parseRID rid).1 name ∧ natsToken name = true) ∨
       (p.subj = b!"system.reset" ∧ p.payload = b!"{\"resources\":" ++ jsonList [(parseRID rid).1] ++ [125])) := by
  have hname : validName (parseRID rid).1 = true := validName_of_rid rid hv
  refine ⟨hname, ?_⟩
  have fixed : ∀ name : Str, natsToken name = true → NoDot name → ∀ pl : Str, ∀ p ∈ [Pub.mk (eventSubj (parseRID rid).1 name) pl],
      natsSubject p.subj = true ∧
      ((∃ name, p.subj = eventSubj (parseRID rid).1 name ∧ natsToken name = true) ∨
       (p.subj = b!"system.reset" ∧ p.payload = b!"{\"resources\":" ++ jsonList [(parseRID rid).1] ++ [125])) := by
    intro name hn hd pl p hp
    rw [List.mem_singleton.1 hp]
    exact ⟨natsSubject_eventSubj hname hn hd, Or.inl ⟨name, rfl, hn⟩⟩
  unfold withOp at h
  simp only at h
  split at h
  · cases h
  · cases act with
    | custom name =>
      simp only at h
      split at h
      · cases h
      · rename_i hc
        simp only [Bool.or_eq_true, Bool.not_eq_true', not_or, Bool.not_eq_true,
          Bool.not_eq_false] at hc
        injection h with h; subst h
        exact fixed name (natsToken_of_partB hc.2) (noDot_of_partB hc.2) _
    | change => injection h with h; subst h; exact fixed _ (by decide) (by simp [NoDot]) _
    | reset =>
      injection h with h; subst h
      intro p hp
      rw [List.mem_singleton.1 hp]
      exact ⟨show natsSubject b!"system.reset" = true by decide, Or.inr ⟨rfl, rfl⟩⟩
    | reaccess => injection h with h; subst h; exact fixed _ (by decide) (by simp [NoDot]) _
    | create => injection h with h; subst h; exact fixed _ (by decide) (by simp [NoDot]) _
    | delete => injection h with h; subst h; exact fixed _ (by decide) (by simp [NoDot]) _
    | query => injection h with h; subst h; exact fixed _ (by decide) (by simp [NoDot]) _
    | resource => cases h

theorem with_invalid_name (pats : List Str) (rid name : Str)
    (hn : Req.reserved.contains name = true ∨ Req.isValidPartB name = false) :
    withOp pats rid (.custom name) = .err ∨ withOp pats rid (.custom name) = .panic := by
  have hc : (Req.reserved.contains name || !Req.isValidPartB name) = true := by
    rcases hn with h | h <;> rw [h] <;> simp
  unfold withOp
  simp only
  split
  · exact Or.inl rfl
  · right
    rfl

/-! ## `TokenReset` -/

theorem natsToken_of_litOk {s : Str} (h : litOk s = true) : natsToken s = true := by
  cases s with
  | nil => simp [litOk] at h
  | cons c r =>
    obtain ⟨hc, hr⟩ := (litOk_cons_iff c r).1 h
    simp only [natsToken, Bool.and_eq_true, List.all_eq_true, decide_eq_true_eq, bne_iff_ne, ne_eq]
    refine ⟨⟨⟨by simp, ?_⟩, ?_⟩, ?_⟩
    · intro x hx
      rcases List.mem_cons.1 hx with rfl | hx
      · omega
      · have := (okc_iff x).1 (hr x hx); omega
    · intro he; injection he with he _; omega
    · intro he; injection he with he _; omega

theorem natsSubject_of_path {subj : Str} (h : isValidPath subj = true) (hne : subj ≠ []) :
    natsSubject subj = true := by
  rw [isValidPath_eq] at h
  have hne' : subj.isEmpty = false := by simpa using hne
  rw [hne', Bool.false_or] at h
  cases hp : parse subj with
  | none => simp [hp] at h
  | some ts =>
    rw [hp] at h
    obtain ⟨hw, hr, hts⟩ := parse_some hne hp
    have hok := wfPat_all_ok hw
    cases ts with
    | nil => exact absurd rfl hts
    | cons t ps =>
      have hs : ∀ n ∈ t :: ps, n.sOk := fun n hn => Tok.ok_sOk (hok n hn)
      have hsplit := splitDots_render t ps hs
      rw [hr] at hsplit
      simp only [natsSubject, hne', Bool.not_false, Bool.true_and, hsplit]
      rw [List.all_eq_true]
      intro x hx
      obtain ⟨n, hn, rfl⟩ := List.mem_map.1 hx
      have hl := List.all_eq_true.1 h n hn
      have hokn := hok n hn
      cases n with
      | lit s => exact natsToken_of_litOk (by simpa [Tok.ok] using hokn)
      | tag _ => simp at hl
      | star => simp at hl
      | full => simp at hl

theorem token_reset_ok (subj : Str) (tids : List Str) (l : List Pub)
    (h : tokenReset subj tids = .pubs l) :
    (l = [] ∧ tids = []) ∨
    (natsSubject subj = true ∧ tids ≠ [] ∧
      l = [⟨b!"system.tokenReset", b!"{\"subject\":" ++ q subj ++ b!",\"tids\":" ++ jsonList tids ++ [125]⟩]) := by
  unfold tokenReset at h
  split at h
  · cases h
  · rename_i hc
    simp only [Bool.or_eq_true, Bool.not_eq_true', not_or, Bool.not_eq_true,
      Bool.not_eq_false] at hc
    split at h
    · rename_i ht
      injection h with h
      exact Or.inl ⟨h.symm, by simpa using ht⟩
    · rename_i ht
      injection h with h
      refine Or.inr ⟨natsSubject_of_path hc.2 (by simpa using hc.1), by simpa using ht, h.symm⟩

/-! ## `TokenEventWithID` -/

theorem token_event_ok (cid tid : Str) (tok : Option Str) (l : List Pub)
    (h : tokenEvent cid tid tok = .pubs l) :
    natsToken cid = true ∧ (tok = none → l = []) ∧
    ∀ p ∈ l, p.subj = b!"conn." ++ cid ++ b!".token" ∧ natsSubject p.subj = true := by
  unfold tokenEvent at h
  split at h
  · cases h
  · rename_i hc
    have hc' : Req.isValidPartB cid = true := by
      rw [← isValidPart_eq_B]; simpa using hc
    have hn := natsToken_of_partB hc'
    have hd := noDot_of_partB hc'
    have hsubj : natsSubject (b!"conn." ++ cid ++ b!".token") = true := by
      have e : b!"conn." ++ cid ++ b!".token" = b!"conn" ++ 46 :: (cid ++ 46 :: b!"token") := by
        simp
      have h1 : natsToken b!"conn" = true := by decide
      have h2 : natsToken b!"token" = true := by decide
      rw [e, natsSubject, splitDots_append_dot', splitDots_append_dot', splitDots_noDot hd,
        splitDots_noDot (a := b!"conn") (by simp [NoDot]),
        splitDots_noDot (a := b!"token") (by simp [NoDot])]
      simp [hn, h1, h2]
    refine ⟨hn, ?_, ?_⟩
    · rintro rfl
      simp only at h
      injection h with h
      exact h.symm
    · cases tok with
      | none =>
        simp only at h
        injection h with h
        subst h
        intro p hp
        cases hp
      | some t =>
        simp only at h
        injection h with h
        subst h
        intro p hp
        rw [List.mem_singleton.1 hp]
        exact ⟨rfl, hsubj⟩

end GoRes.SvcApi
