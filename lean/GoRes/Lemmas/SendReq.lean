import GoRes.Model.SendReq
/-! Helper lemmas for the SendRequest model (C19). -/
namespace GoRes.SendReq
open GoRes

/-! ## `isResponse` -/

set_option maxRecDepth 100000 in
/-- brute force over all byte values: `(c ||| 32) ∉ ['a','z']` iff `c` is not an ASCII letter -/
theorem or32_not_letter : ∀ c, c < 256 →
    (decide ((c ||| 32) < 97) || decide ((c ||| 32) > 122)) =
      !((decide (65 ≤ c) && decide (c ≤ 90)) || (decide (97 ≤ c) && decide (c ≤ 122))) := by
  decide

theorem isResponse_cons (c : Nat) (r : Str) :
    isResponse (c :: r) = (decide ((c ||| 32) < 97) || decide ((c ||| 32) > 122)) := rfl

/-! ## `classify` -/

theorem classify_response {d d' : Str} (h : classify d = .response d') :
    d' = d ∧ isResponse d = true := by
  unfold classify at h
  split at h
  · next hr => exact ⟨by injection h with h; exact h.symm, hr⟩
  · split at h
    · split at h <;> cases h
    · cases h

theorem classify_of_isResponse {d : Str} (h : isResponse d = true) : classify d = .response d := by
  unfold classify
  simp [h]

theorem classify_extend_not_response {d : Str} {ms : Int} (h : classify d = .extend ms) :
    isResponse d = false := by
  cases hr : isResponse d
  · rfl
  · rw [classify_of_isResponse hr] at h; cases h

theorem classify_ignored_not_response {d : Str} (h : classify d = .ignored) :
    isResponse d = false := by
  cases hr : isResponse d
  · rfl
  · rw [classify_of_isResponse hr] at h; cases h

/-! ## `loop` -/

theorem loop_nil (dl : Int) (exts : List Int) : loop dl exts [] = (.timeout, exts) := rfl

theorem loop_late (dl : Int) (exts : List Int) (t : Int) (d : Str) (rest : List (Int × Str))
    (h : t ≥ dl) : loop dl exts ((t, d) :: rest) = (.timeout, exts) := by
  simp [loop, h]

theorem loop_response (dl : Int) (exts : List Int) (t : Int) (d : Str) (rest : List (Int × Str))
    (ht : t < dl) (hr : isResponse d = true) :
    loop dl exts ((t, d) :: rest) = (.response d, exts) := by
  have : ¬ t ≥ dl := by omega
  simp [loop, this, classify_of_isResponse hr]

theorem loop_extend (dl : Int) (exts : List Int) (t ms : Int) (d : Str) (rest : List (Int × Str))
    (ht : t < dl) (hc : classify d = .extend ms) :
    loop dl exts ((t, d) :: rest) = loop (t + ms) (exts ++ [ms]) rest := by
  have : ¬ t ≥ dl := by omega
  simp [loop, this, hc]

theorem loop_ignored (dl : Int) (exts : List Int) (t : Int) (d : Str) (rest : List (Int × Str))
    (ht : t < dl) (hc : classify d = .ignored) :
    loop dl exts ((t, d) :: rest) = loop dl exts rest := by
  have : ¬ t ≥ dl := by omega
  simp [loop, this, hc]

/-- the accumulated extensions are only ever appended to; the outcome does not depend on them -/
theorem loop_exts (dl : Int) (exts : List Int) (h : List (Int × Str)) :
    (loop dl exts h).1 = (loop dl [] h).1 ∧ (loop dl exts h).2 = exts ++ (loop dl [] h).2 := by
  induction h generalizing dl exts with
  | nil => simp [loop_nil]
  | cons m rest ih =>
    obtain ⟨t, d⟩ := m
    by_cases ht : t ≥ dl
    · simp [loop_late _ _ _ _ _ ht]
    · have ht' : t < dl := by omega
      cases hc : classify d with
      | response d' =>
        obtain ⟨rfl, hr⟩ := classify_response hc
        simp [loop_response _ _ _ _ _ ht' hr]
      | extend ms =>
        rw [loop_extend _ exts _ _ _ _ ht' hc, loop_extend _ [] _ _ _ _ ht' hc]
        have h1 := ih (t + ms) (exts ++ [ms])
        have h2 := ih (t + ms) ([] ++ [ms])
        refine ⟨h1.1.trans h2.1.symm, ?_⟩
        rw [h1.2, h2.2]; simp
      | ignored =>
        rw [loop_ignored _ exts _ _ _ ht' hc, loop_ignored _ [] _ _ _ ht' hc]
        exact ih dl exts

theorem loop_fst (dl : Int) (exts : List Int) (h : List (Int × Str)) :
    (loop dl exts h).1 = (loop dl [] h).1 := (loop_exts dl exts h).1

theorem loop_snd (dl : Int) (exts : List Int) (h : List (Int × Str)) :
    (loop dl exts h).2 = exts ++ (loop dl [] h).2 := (loop_exts dl exts h).2

/-- the loop never produces `internalError` -/
theorem loop_ne_internalError (dl : Int) (exts : List Int) (h : List (Int × Str)) :
    (loop dl exts h).1 ≠ .internalError := by
  induction h generalizing dl exts with
  | nil => simp [loop_nil]
  | cons m rest ih =>
    obtain ⟨t, d⟩ := m
    by_cases ht : t ≥ dl
    · simp [loop_late _ _ _ _ _ ht]
    · have ht' : t < dl := by omega
      cases hc : classify d with
      | response d' =>
        obtain ⟨rfl, hr⟩ := classify_response hc
        simp [loop_response _ _ _ _ _ ht' hr]
      | extend ms => rw [loop_extend _ exts _ _ _ _ ht' hc]; exact ih _ _
      | ignored => rw [loop_ignored _ exts _ _ _ ht' hc]; exact ih _ _

/-! ## `tagLookup` on `timeout:"<digits>"` -/

theorem tagLookup_timeout (fuel : Nat) (digits : Str) (hd : ∀ c ∈ digits, c ≠ 34 ∧ c ≠ 92) :
    tagLookup b!"timeout" (fuel + 1) (b!"timeout:\"" ++ digits ++ [34]) = some digits := by
  have htw : List.takeWhile (fun c => !decide (c = 34) && !decide (c = 92)) (digits ++ [34]) = digits := by
    rw [List.takeWhile_append_of_pos (by intro a ha; simpa using hd a ha)]
    simp
  simp [tagLookup, htw]

/-! ## `atoi` on digit strings -/

theorem foldl_digits_bound (ds : Str) (acc : Nat) :
    ds.foldl (fun acc c => acc * 10 + (c - 48)) acc + 1 ≤ (acc + 1) * 10 ^ ds.length ∨
      ∃ c ∈ ds, ¬ (48 ≤ c ∧ c ≤ 57) := by
  induction ds generalizing acc with
  | nil => left; simp
  | cons c r ih =>
    by_cases hc : 48 ≤ c ∧ c ≤ 57
    · rcases ih (acc * 10 + (c - 48)) with h | ⟨x, hx, hx'⟩
      · left
        simp only [List.foldl_cons, List.length_cons]
        refine Nat.le_trans h ?_
        rw [Nat.pow_succ, Nat.mul_comm (10 ^ r.length) 10, ← Nat.mul_assoc]
        apply Nat.mul_le_mul_right
        omega
      · right; exact ⟨x, List.mem_cons_of_mem _ hx, hx'⟩
    · right; exact ⟨c, List.mem_cons_self, hc⟩

theorem atoi_digits (digits : Str) (hne : digits ≠ []) (hd : ∀ c ∈ digits, 48 ≤ c ∧ c ≤ 57)
    (hlen : digits.length ≤ 18) :
    atoi digits = some ((digits.foldl (fun acc c => acc * 10 + (c - 48)) 0 : Nat) : Int) := by
  have hbound : digits.foldl (fun acc c => acc * 10 + (c - 48)) 0 + 1 ≤ 10 ^ 18 := by
    rcases foldl_digits_bound digits 0 with h | ⟨x, hx, hx'⟩
    · have := Nat.pow_le_pow_right (n := 10) (by decide) hlen
      omega
    · exact absurd (hd x hx) hx'
  have hall : digits.all (fun c => decide (48 ≤ c ∧ c ≤ 57)) = true := by
    rw [List.all_eq_true]; intro c hc; simpa using hd c hc
  cases digits with
  | nil => exact absurd rfl hne
  | cons c r =>
    have hc := hd c List.mem_cons_self
    have h45 : c ≠ 45 := by omega
    have h43 : c ≠ 43 := by omega
    unfold atoi
    split
    · next heq =>
      split at heq
      · next h => injection h with h; exact absurd h h45
      · next h => injection h with h; exact absurd h h43
      · injection heq with h1 h2
        subst h1; subst h2
        have hn : ¬ List.foldl (fun acc c => acc * 10 + (c - 48)) 0 (c :: r) > 9223372036854775807 := by
          omega
        rw [if_neg (by rw [hall]; simp), if_neg hn]
        simp

end GoRes.SendReq
