import GoRes.Model.SendReq
/-! Helper lemmas for the SendRequest model (C19). -/
namespace GoRes.SendReq

end GoRes.SendReq
