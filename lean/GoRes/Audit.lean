import GoRes.Props
import Lean
/-! Prints, for every theorem declared in a `GoRes.Props.*` module, the axioms
it depends on: `AUDIT <module> <theorem> [ax1,ax2,…]`. -/
open Lean Elab Command

run_cmd liftTermElabM do
  let env ← getEnv
  let mut rows : Array (String × String × String) := #[]
  for (name, ci) in env.constants.toList do
    match ci with
    | .thmInfo _ =>
      match env.getModuleIdxFor? name with
      | some idx =>
        let mod := env.header.moduleNames[idx.toNat]!
        if (`GoRes.Props).isPrefixOf mod && !name.isInternal then
          let axs ← Lean.collectAxioms name
          let axsS := ",".intercalate (axs.toList.map toString)
          rows := rows.push (toString mod, toString name, axsS)
      | none => pure ()
    | _ => pure ()
  for (m, n, a) in rows.qsort (fun a b => a.1 < b.1 || (a.1 == b.1 && a.2.1 < b.2.1)) do
    IO.println s!"AUDIT {m} {n} [{a}]"
