import GoRes.Model.Basic
import GoRes.Model.Pattern
/-! Executable model of `Service.setDefaultOwnership`, `subscribe` and the
`system.reset` content of `ResetAll` (service.go), and the NATS-side
specification C09 judges the subscriptions by. -/
namespace GoRes.Subs
open GoRes Ch

structure Cfg where
  name : Str
  hasRes : Bool        -- some handler has Get / Call / Auth / New
  hasAccess : Bool     -- some handler has Access
  resources : Option (List Str)   -- `none` = never set (nil)
  access : Option (List Str)
deriving Repr

/-- `defaultPatterns` -/
def defaultPatterns (name : Str) : List Str :=
  if name.isEmpty then [[gt]] else [name, name ++ [dot, gt]]

/-- `setDefaultOwnership`: the owned (resources, access) patterns -/
def ownership (c : Cfg) : List Str × List Str :=
  (match c.resources with
   | some r => r
   | none => if c.hasRes then defaultPatterns c.name else [],
   match c.access with
   | some a => a
   | none => if c.hasAccess then defaultPatterns c.name else [])

def tGet : Str := [103, 101, 116]
def tCall : Str := [99, 97, 108, 108]
def tAuth : Str := [97, 117, 116, 104]
def tAccess : Str := [97, 99, 99, 101, 115, 115]

/-- the subscription pattern for request type `t` on owned pattern `p` -/
def reqPattern (t p : Str) : Str :=
  let pattern := t ++ dot :: p
  if pattern.getLast? ≠ some gt ∧ t ≠ tGet then pattern ++ [dot, star] else pattern

def allPatterns (res acc : List Str) : List Str :=
  ([tGet, tCall, tAuth].flatMap fun t => res.map (reqPattern t)) ++ acc.map (fun p => tAccess ++ dot :: p)

/-- is pattern number `i` subscribed (not skipped by the `next:` loop)? -/
def kept (ps : List Str) (i : Nat) (p : Str) : Bool :=
  !(ps.zipIdx.any fun (q, j) =>
    i ≠ j && Pattern.matches q p && (j < i || !Pattern.matches p q))

/-- `subscribe`: the subjects subscribed, in order; `none` = "no resources to serve" -/
def subscribe (c : Cfg) : Option (List Str) :=
  let (res, acc) := ownership c
  if res.isEmpty && acc.isEmpty then none
  else
    let ps := allPatterns res acc
    some ((ps.zipIdx.filter fun (p, i) => kept ps i p).map (·.1))

/-! ## specification: NATS subject semantics -/

/-- NATS subject validity as nats.go / nats-server check it for a subscription: non-empty
tokens, no whitespace -/
def validSubject (s : Str) : Bool :=
  !s.isEmpty && (splitDots s).all (fun t => !t.isEmpty && t.all (fun c => c ≠ 32 && c ≠ 9 && c ≠ 13 && c ≠ 10))

/-- does subscription subject `sub` (tokens) match the concrete-or-wildcard subject `s`
(tokens) in the NATS sense: `*` one token, `>` one or more trailing tokens; as a relation
between subscription *patterns* it is set inclusion of the subjects they match -/
def natsCovers : List Str → List Str → Bool
  | [], [] => true
  | [p], t :: ts => if p = [gt] then true else (p = [star] && t ≠ [gt] || p = t) && ts.isEmpty
  | p :: ps, t :: ts => p ≠ [gt] && (p = [star] && t ≠ [gt] || p = t) && natsCovers ps ts
  | _, _ => false

def covers (sub s : Str) : Bool := natsCovers (splitDots sub) (splitDots s)

/-- the judgement of property C09 on a list of subscribed subjects for a configuration:
every request subject pattern of every owned pattern is covered by a subscription, no
subscription is covered by another one, every subject is valid -/
def judge (c : Cfg) (subs : List Str) : String :=
  let (res, acc) := ownership c
  let needed := allPatterns res acc
  match needed.find? (fun n => !subs.any (fun s => covers s n)) with
  | some n => "uncovered:" ++ Str.show n
  | none =>
    match subs.zipIdx.find? (fun (s, i) => subs.zipIdx.any (fun (s', j) => i ≠ j && covers s' s)) with
    | some (s, _) => "redundant:" ++ Str.show s
    | none =>
      match subs.find? (fun s => !validSubject s) with
      | some s => "invalid-subject:" ++ Str.show s
      | none => "ok"

end GoRes.Subs
