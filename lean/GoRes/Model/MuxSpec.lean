import GoRes.Model.Basic
import GoRes.Model.Pattern
/-! Executable *specification* of routing (property C06), written against the
property's wording and independent of the trie: the state is the list of
registrations and the mount relation; lookup is "the most specific matching
registered pattern, comparing token by token from the left, literal beats
placeholder beats full wildcard". -/
namespace GoRes.MuxSpec
open GoRes Ch

inductive Kind | handler | listener
deriving Repr, DecidableEq

structure SReg where
  kind : Kind
  mux : Nat
  toks : List Str          -- the pattern as registered, tokenised ([] for the empty pattern)
  id : Nat
  group : Str              -- group template ("" = none)
  parallel : Bool
deriving Repr

structure SMux where
  id : Nat
  path : Str
  parent : Option (Nat × Str)    -- (parent id, mount path)
deriving Repr

structure SState where
  muxes : List SMux := []
  regs : List SReg := []
deriving Repr

def toksOf (p : Str) : List Str := if p.isEmpty then [] else splitDots p

def SState.mux? (s : SState) (id : Nat) : Option SMux := s.muxes.find? (·.id == id)

def mergeP (a b : Str) : Str := if a.isEmpty then b else if b.isEmpty then a else a ++ dot :: b

/-- position of a mux's root below its top-most ancestor, and that ancestor -/
def SState.absPos (s : SState) : Nat → Nat → (Nat × List Str)
  | 0, id => (id, [])
  | fuel + 1, id =>
    match s.mux? id with
    | none => (id, [])
    | some m => match m.parent with
      | none => (id, [])
      | some (p, mp) =>
        let (top, pos) := s.absPos fuel p
        (top, pos ++ toksOf (mergeP mp m.path))

/-- specificity class of a pattern token: literal 2, placeholder 1, full wildcard 0 -/
def cls (t : Str) : Nat :=
  match t with
  | c :: _ => if c = dollar ∨ c = star then 1 else if c = gt then 0 else 2
  | [] => 2

/-- does the (relative) pattern match the name tokens -/
def patMatches : List Str → List Str → Bool
  | [], [] => true
  | [p], n :: ns => if cls p = 0 then true else (cls p = 1 || p = n) && ns.isEmpty
  | p :: ps, n :: ns => cls p ≠ 0 && (cls p = 1 || p = n) && patMatches ps ns
  | _, _ => false

/-- `a` is strictly more specific than `b` (token by token from the left) -/
def moreSpecific : List Str → List Str → Bool
  | a :: as, b :: bs => if cls a > cls b then true else if cls a < cls b then false else moreSpecific as bs
  | _, _ => false

structure Cand where
  reg : SReg
  rel : List Str     -- pattern relative to the queried mux
  shift : Int        -- index of reg.toks[0] within the looked-up tokens
deriving Repr

def stripPrefix : List Str → List Str → Option (List Str)
  | [], l => some l
  | _ :: _, [] => none
  | a :: as, b :: bs => if a = b then stripPrefix as bs else none

/-- registrations visible from mux `m`, as patterns relative to `m`'s root -/
def SState.candidates (s : SState) (m : Nat) (kind : Kind) : List Cand :=
  let fuel := s.muxes.length + 1
  let (top, pos) := s.absPos fuel m
  s.regs.filterMap fun r =>
    if r.kind ≠ kind then none else
    let (rtop, rpos) := s.absPos fuel r.mux
    if rtop ≠ top then none else
    match stripPrefix pos (rpos ++ r.toks) with
    | none => none
    | some rel => some ⟨r, rel, (rpos.length : Int) - pos.length⟩

def best (cs : List Cand) (toks : List Str) : Option Cand :=
  (cs.filter (fun c => patMatches c.rel toks)).foldl
    (fun acc c => match acc with
      | none => some c
      | some b => if moreSpecific c.rel b.rel then some c else some b) none

/-- parse a group template into literal pieces and tags; `none` = malformed -/
inductive GPiece | lit (s : Str) | tag (t : Str)
deriving Repr

def isTagCh (c : Nat) : Bool :=
  (65 ≤ c && c ≤ 90) || (97 ≤ c && c ≤ 122) || (48 ≤ c && c ≤ 57) || c = 95 || c = 45

def parseTemplate : Nat → Str → Option (List GPiece)
  | 0, _ => none
  | _ + 1, [] => some []
  | fuel + 1, c :: r =>
    if c = dollar then
      match r with
      | c2 :: r2 =>
        if c2 ≠ lbrace then none else
        let tag := r2.takeWhile (· ≠ rbrace)
        let rest := r2.dropWhile (· ≠ rbrace)
        match rest with
        | [] => none
        | _ :: rest' =>
          if tag.isEmpty ∨ !tag.all isTagCh then none
          else (parseTemplate fuel rest').map (.tag tag :: ·)
      | [] => none
    else
      let l := (c :: r).takeWhile (· ≠ dollar)
      (parseTemplate fuel ((c :: r).dropWhile (· ≠ dollar))).map (.lit l :: ·)

def indexOfTok (toks : List Str) (t : Str) : Option Nat :=
  let i := toks.findIdx (· = t)
  if i < toks.length then some i else none

/-- the group of a resource: template with tags substituted, the name without a
template, empty for Parallel -/
def groupOf (c : Cand) (rname : Str) (toks : List Str) : Option Str :=
  if c.reg.parallel then some []
  else if c.reg.group.isEmpty then some rname
  else match parseTemplate (c.reg.group.length + 1) c.reg.group with
    | none => none
    | some pieces => pieces.foldlM (fun acc p => match p with
        | .lit s => some (acc ++ s)
        | .tag t => match indexOfTok c.reg.toks (dollar :: t) with
          | none => none
          | some j => let k := c.shift + j
            if k < 0 then none else (toks[k.toNat]?).map (acc ++ ·)) []

def paramsOf (c : Cand) (toks : List Str) : List (Str × Str) :=
  (c.reg.toks.zipIdx).foldl (fun acc (t, j) =>
    match t with
    | d :: name => if d = dollar then
        let k := c.shift + j
        match (if k < 0 then none else toks[k.toNat]?) with
        | some v => Pattern.mapSet acc name v
        | none => acc
      else acc
    | [] => acc) []

/-- placeholder-insensitive shape of a pattern (`$x`, `$y`, `*` are the same position) -/
def shape (toks : List Str) : List Str := toks.map fun t => if cls t = 1 then [star] else t

structure SMatch where
  id : Nat
  listeners : List Nat
  params : List (Str × Str)
  group : Option Str
deriving Repr

/-- strip the mux path from a resource name: `none` = not below this mux -/
def stripPath (path rname : Str) : Option Str :=
  if path.isEmpty then some rname
  else if rname = path then some []
  else if (path ++ [dot]).isPrefixOf rname then some (rname.drop (path.length + 1))
  else none

def SState.lookup (s : SState) (m : Nat) (rname : Str) : Option SMatch :=
  match s.mux? m with
  | none => none
  | some mx =>
    match stripPath mx.path rname with
    | none => none
    | some sub =>
      let toks := toksOf sub
      match best (s.candidates m .handler) toks with
      | none => none
      | some c =>
        let ls := (s.candidates m .listener).filter (fun l => shape l.rel = shape c.rel)
        some ⟨c.reg.id, ls.map (·.reg.id), paramsOf c toks, groupOf c rname toks⟩

/-- were `$`-names used inconsistently (`$x` vs `$y` vs `*`) for the position the match came from? -/
def SState.mixedNaming (s : SState) (m : Nat) (c : Cand) : Bool :=
  ((s.candidates m .listener) ++ (s.candidates m .handler)).any
    (fun l => shape l.rel = shape c.rel && l.rel ≠ c.rel)

/-- is some listener registered on a pattern without handler (a configuration `Serve` rejects)? -/
def SState.hasOrphan (s : SState) (m : Nat) : Bool :=
  let (top, _) := s.absPos (s.muxes.length + 1) m
  let hs := s.candidates top .handler
  (s.candidates top .listener).any (fun l => !hs.any (fun h => shape h.rel = shape l.rel))

end GoRes.MuxSpec
