import GoRes.Model.Basic
/-! Executable model of query events (`queryevent.go`, `resource.go` `QueryEvent`,
`service.go` `queryEventExpire`): the life of one query event as the sequence of things
that happen to it in its resource's group (the callbacks are serialised by the worker pool,
C01/C02): query requests with an arbitrary callback script, and the expiry.  Outcomes are
the classes of what is published on the request's reply subject. -/
namespace GoRes.QueryEvent
open GoRes

inductive Payload | empty | bad | noQuery | ok
deriving Repr, DecidableEq

inductive ErrK | res (code : Str) | go
deriving Repr, DecidableEq

inductive PanicK | res (code : Str) | go | str | other
deriving Repr, DecidableEq

/-- actions of a query callback -/
inductive QAct
  | model (marshalable : Bool)
  | collection (marshalable : Bool)
  | change (nprops : Nat) (marshalable : Bool)
  | add (idx : Int) (marshalable : Bool)
  | remove (idx : Int)
  | notFound
  | invalidQuery (custom : Bool)
  | error (e : ErrK)
  | timeout (ms : Int)
  | panic (p : PanicK)
deriving Repr, DecidableEq

/-- what is published on the reply subject -/
inductive Reply
  | pre (ms : Int)
  | events (n : Nat)
  | model
  | collection
  | error (code : Str)
deriving Repr, DecidableEq

def isResponse : Reply → Bool
  | .pre _ => false
  | _ => true

def internal : Str := b!"system.internalError"
def notFoundC : Str := b!"system.notFound"
def invalidQueryC : Str := b!"system.invalidQuery"

structure RSt where
  replied : Bool := false
  nEvents : Nat := 0
  eventsOk : Bool := true      -- all accumulated event values can be marshalled
  out : List Reply := []
deriving Repr

/-- `queryRequest.reply`: a second reply is logged and ignored -/
def reply (s : RSt) (r : Reply) : RSt :=
  if s.replied then s else { s with replied := true, out := s.out ++ [r] }

inductive QStep | cont (s : RSt) | panic (s : RSt) (p : PanicK)

/-- one action of the callback; `typ` 0 unset, 1 model, 2 collection -/
def qact (typ : Nat) (s : RSt) : QAct → QStep
  | .model ok =>
    if typ = 2 then .panic s .str
    else .cont (reply s (if ok then .model else .error internal))
  | .collection ok =>
    if typ = 1 then .panic s .str
    else .cont (reply s (if ok then .collection else .error internal))
  | .change n ok =>
    if typ = 2 then .panic s .str
    else if n = 0 then .cont s
    else .cont { s with nEvents := s.nEvents + 1, eventsOk := s.eventsOk && ok }
  | .add idx ok =>
    if typ = 1 then .panic s .str
    else if idx < 0 then .panic s .str
    else .cont { s with nEvents := s.nEvents + 1, eventsOk := s.eventsOk && ok }
  | .remove idx =>
    if typ = 1 then .panic s .str
    else if idx < 0 then .panic s .str
    else .cont { s with nEvents := s.nEvents + 1 }
  | .notFound => .cont (reply s (.error notFoundC))
  | .invalidQuery _ => .cont (reply s (.error invalidQueryC))
  | .error (.res c) => .cont (reply s (.error c))
  | .error .go => .cont (reply s (.error internal))
  | .timeout ms => if ms < 0 then .panic s .str else .cont { s with out := s.out ++ [.pre ms] }
  | .panic p => .panic s p

def runQ (typ : Nat) : RSt → List QAct → QStep
  | s, [] => .cont s
  | s, a :: as => match qact typ s a with
    | .cont s' => runQ typ s' as
    | .panic s' p => .panic s' p

/-- `handleQueryRequest` for an active query event: everything published for one query request -/
def handle (typ : Nat) (payload : Payload) (script : List QAct) : List Reply :=
  match payload with
  | .bad => [.error internal]
  | .empty | .noQuery => [.error internal]          -- "missing query"
  | .ok =>
    let s := match runQ typ {} script with
      | .cont s => s
      | .panic s p =>                                -- the recover arm of executeCallback
        reply s (match p with | .res c => .error c | _ => .error internal)
    if s.replied then s.out
    else if s.nEvents = 0 then s.out ++ [.events 0]
    else if s.eventsOk then s.out ++ [.events s.nEvents]
    else s.out ++ [.error internal]

/-! ## the life of a query event -/

inductive Ev
  | request (payload : Payload) (script : List QAct)
  | expire
deriving Repr

structure St where
  subscribed : Bool := true
  expired : Bool := false
  listener : Bool := true        -- the listener goroutine is running
  cbCalls : Nat := 0             -- callback invocations with a request
  nilCalls : Nat := 0            -- callback invocations with nil
deriving Repr, DecidableEq

/-- one thing happening to the query event, in its group; returns what is published -/
def step (typ : Nat) (s : St) : Ev → St × List Reply
  | .request payload script =>
    if s.expired then (s, [])                      -- dropped: the callback was already called with nil
    else
      ({ s with cbCalls := s.cbCalls + (if payload = .ok then 1 else 0) }, handle typ payload script)
  | .expire =>
    if s.expired then (s, [])
    else ({ s with expired := true, listener := false, subscribed := false, nilCalls := s.nilCalls + 1 }, [])

def run (typ : Nat) : St → List Ev → St × List (List Reply)
  | s, [] => (s, [])
  | s, e :: es =>
    let (s', r) := step typ s e
    let (s'', rs) := run typ s' es
    (s'', r :: rs)

/-- `QueryEvent` when the subscription fails: the callback is called with nil once, nothing is
published, nothing is allocated -/
def failedSubscribe : St := { subscribed := false, expired := true, listener := false, cbCalls := 0, nilCalls := 1 }

end GoRes.QueryEvent
