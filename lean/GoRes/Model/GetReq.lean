import GoRes.Model.Basic
/-! # `Resource.Value()` — the in-memory get request (`getrequest.go`)

`r.Value()` runs the resource's Get handler on a `getRequest`, which stores the reply in memory
instead of publishing it.  The handler is an arbitrary script over the `GetRequest` API, as in
`Model/Req.lean`; values and errors are opaque byte strings (the harness renders them).

Modelled exactly as written: `reply()` panics on a second reply *before* the value or error is
stored; `Value()`/`RequireValue()` inside the handler panic; the deferred `recover` turns a panic
into the error result only when nothing was replied yet (an `*Error` verbatim, anything else through
`ToError`); a handler that returns without replying yields the internal "missing response" error;
no Get handler yields not-found. -/
namespace GoRes.GetReq

/-- an error value: `*res.Error` with code and message, or any other Go error with its text -/
inductive ErrV
  | res (code msg : Str)
  | other (text : Str)
deriving Repr, DecidableEq

inductive PanicV
  | err (e : ErrV)       -- panic(err) with an error value (an `*Error` or another error)
  | str (s : Str)        -- panic("text")
  | val (shown : Str)    -- any other value; `shown` is its `%v` rendering
deriving Repr, DecidableEq

inductive Act
  | model (v : Str) | collection (v : Str) | queryModel (v : Str) | queryCollection (v : Str)
  | notFound
  | invalidQuery (msg : Str)
  | error (e : ErrV)
  | timeout
  | forValue               -- `r.ForValue()`: no effect, always true
  | value                  -- `r.Value()` inside the get handler: panics
  | requireValue
  | panic (p : PanicV)
deriving Repr, DecidableEq

structure St where
  replied : Bool := false
  value : Option Str := none
  err : Option ErrV := none
deriving Repr, DecidableEq

def codeInternal : Str := b!"system.internalError"
def codeNotFound : Str := b!"system.notFound"
def codeInvalidQuery : Str := b!"system.invalidQuery"
def errNotFound : ErrV := .res codeNotFound b!"Not found"
def errInvalidQuery : ErrV := .res codeInvalidQuery b!"Invalid query"

/-- `ToError`: an `*Error` is kept; any other error becomes an internal error carrying its text -/
def toError : ErrV → ErrV
  | .res c m => .res c m
  | .other t => .res codeInternal (b!"Internal error: " ++ t)

inductive R
  | cont (s : St)
  | panicked (s : St) (p : PanicV)

def secondReply : PanicV := .str b!"res: response already sent on get request"

/-- `r.reply()` then the assignment -/
def replyWith (s : St) (f : St → St) : R :=
  if s.replied then .panicked s secondReply else .cont (f { s with replied := true })

def act (s : St) : Act → R
  | .model v | .collection v | .queryModel v | .queryCollection v => replyWith s (fun s => { s with value := some v })
  | .notFound => replyWith s (fun s => { s with err := some errNotFound })
  | .invalidQuery m =>
    replyWith s (fun s => { s with err := some (if m.isEmpty then errInvalidQuery else .res codeInvalidQuery m) })
  | .error e => replyWith s (fun s => { s with err := some e })
  | .timeout | .forValue => .cont s
  | .value => .panicked s (.str b!"Value() called within get request handler")
  | .requireValue => .panicked s (.str b!"RequireValue() called within get request handler")
  | .panic p => .panicked s p

def runScript (s : St) : List Act → R
  | [] => .cont s
  | a :: r => match act s a with
    | .cont s' => runScript s' r
    | .panicked s' p => .panicked s' p

/-- the deferred recover of `executeHandler` -/
def recover (s : St) (p : PanicV) : St :=
  if s.replied then s
  else
    let e : ErrV := match p with
      | .err (.res c m) => .res c m
      | .err (.other t) => toError (.other t)
      | .str t => toError (.other t)
      | .val shown => toError (.other shown)
    { s with replied := true, err := some e }

/-- `executeHandler`; `rname` is the resource name quoted into the missing-response message -/
def execute (hasGet : Bool) (missingMsg : Str) (script : List Act) : St :=
  if !hasGet then { replied := true, err := some errNotFound }
  else match runScript {} script with
    | .cont s => if s.replied then s else { s with replied := true, err := some (.res codeInternal missingMsg) }
    | .panicked s p => recover s p

/-- what `Value()` returns: (value, error) -/
def valueOf (hasGet : Bool) (missingMsg : Str) (script : List Act) : Option Str × Option ErrV :=
  let s := execute hasGet missingMsg script
  (s.value, s.err)

/-! ## specification: the first reply decides -/

/-- the first action that replies, or that ends the handler by panicking -/
inductive Outcome
  | value (v : Str)
  | error (e : ErrV)
  | panicked (p : PanicV)
  | nothing

def isNeutral : Act → Bool
  | .timeout | .forValue => true
  | _ => false

def firstOutcome : List Act → Outcome
  | [] => .nothing
  | a :: r => match a with
    | .model v | .collection v | .queryModel v | .queryCollection v => .value v
    | .notFound => .error errNotFound
    | .invalidQuery m => .error (if m.isEmpty then errInvalidQuery else .res codeInvalidQuery m)
    | .error e => .error e
    | .timeout | .forValue => firstOutcome r
    | .value => .panicked (.str b!"Value() called within get request handler")
    | .requireValue => .panicked (.str b!"RequireValue() called within get request handler")
    | .panic p => .panicked p

def spec (hasGet : Bool) (missingMsg : Str) (script : List Act) : Option Str × Option ErrV :=
  if !hasGet then (none, some errNotFound) else
  match firstOutcome script with
  | .value v => (some v, none)
  | .error e => (none, some e)
  | .panicked p => (none, some (match p with
      | .err (.res c m) => .res c m
      | .err (.other t) => .res codeInternal (b!"Internal error: " ++ t)
      | .str t => .res codeInternal (b!"Internal error: " ++ t)
      | .val t => .res codeInternal (b!"Internal error: " ++ t)))
  | .nothing => (none, some (.res codeInternal missingMsg))

end GoRes.GetReq
