import GoRes.Model.Basic
/-! Executable model of `pattern.go` (and the small validators in `types.go`,
`resource.go`, `mux.go`), function by function, with the same scanning structure
as the Go loops: an index into a Go string becomes the remaining suffix, a
`start`/`alone`/`emptytag` flag stays a flag.

Also the token-wise *specification* (`Tok`, `parse`, `tokMatches`, …) that the
property C17 talks about; the theorems relating both are in `Props/C17.lean`. -/
namespace GoRes.Pattern
open GoRes Ch

/-! ## Go code, as written -/

/-- `Pattern.IsValid` loop body; `r = []` is `i == len(p)-1`. -/
def isValidLoop : Bool → Bool → Bool → Str → Bool
  | start, _, emptytag, [] => !(start || emptytag)
  | start, alone, emptytag, c :: r =>
    if c = dot then
      if start || emptytag then false else isValidLoop true false emptytag r
    else if alone || c < 33 || c > 126 || c = qmark then false
    else if c = gt then
      if !start || !r.isEmpty then false else isValidLoop false alone emptytag r
    else if c = star then
      if !start then false else isValidLoop false true emptytag r
    else if c = dollar then
      isValidLoop false alone (if start then true else emptytag) r
    else isValidLoop false alone false r

/-- `Pattern.IsValid` -/
def isValid (p : Str) : Bool :=
  if p.isEmpty then true else isValidLoop true false false p

/-- the inner `for pi < pl && p[pi] != '.' { pi++ }` -/
def skipTok : Str → Str
  | [] => []
  | c :: r => if c = dot then c :: r else skipTok r

/-- the bytes skipped by `skipTok` (`p[po:pi]`) -/
def takeTok : Str → Str
  | [] => []
  | c :: r => if c = dot then [] else c :: takeTok r

theorem skipTok_len (p : Str) : (skipTok p).length ≤ p.length := by
  induction p with
  | nil => simp [skipTok]
  | cons c r ih => unfold skipTok; split <;> simp <;> omega

/-- `Pattern.Matches`.  `start` is "the byte just read is the first of its
token" (`pi == 1 || p[pi-2] == '.'` in Go). -/
def matchesLoop : Bool → Str → Str → Bool
  | _, [], s => s.isEmpty
  | _, _ :: _, [] => false
  | start, c :: p, d :: s =>
    if c = dollar ∨ c = star then
      if start then
        if d = gt then false else matchesLoop false (skipTok p) (skipTok (d :: s))
      else if c = d then matchesLoop false p s else false
    else if c = gt then p.isEmpty
    else if c = d then matchesLoop (c = dot) p s else false
termination_by _ p _ => p.length
decreasing_by
  all_goals simp_wf
  · have := skipTok_len p; omega

def «matches» (p s : Str) : Bool := matchesLoop true p s

/-- Go map assignment `m[k] = v` on an association list -/
def mapSet (m : List (Str × Str)) (k v : Str) : List (Str × Str) :=
  if m.any (·.1 == k) then m.map (fun e => if e.1 == k then (k, v) else e) else m ++ [(k, v)]

def mapGet (m : List (Str × Str)) (k : Str) : Option Str :=
  (m.find? (·.1 == k)).map (·.2)

/-- the `default:` arm of `Values`: compare the rest of a token byte by byte.
Returns the remaining pattern and name. -/
def valuesLit : Nat → Str → Str → Option (Str × Str)
  | _, _, [] => none                      -- not reached: callers guarantee si < sl
  | c, p, d :: s =>
    if c ≠ d then none
    else if c = dot then some (p, s)
    else match p with
      | [] => some ([], s)
      | c' :: p' => if s.isEmpty then none else valuesLit c' p' s

theorem valuesLit_len {c p s p' s'} (h : valuesLit c p s = some (p', s')) : p'.length ≤ p.length := by
  induction p generalizing c s with
  | nil =>
    cases s with
    | nil => simp [valuesLit] at h
    | cons d s =>
      simp only [valuesLit] at h
      split at h
      · simp at h
      · split at h <;> simp at h <;> simp [h.1]
  | cons c' p ih =>
    cases s with
    | nil => simp [valuesLit] at h
    | cons d s =>
      simp only [valuesLit] at h
      split at h
      · simp at h
      · split at h
        · simp at h; simp [← h.1]
        · split at h
          · simp at h
          · have := ih h; simp; omega

/-- `Pattern.Values`; `none` is `(nil, false)`. -/
def valuesLoop : Str → Str → List (Str × Str) → Option (List (Str × Str))
  | [], s, m => if s.isEmpty then some m else none
  | _ :: _, [], _ => none
  | c :: p, d :: s, m =>
    if c = dollar then valuesLoop (skipTok p) (skipTok (d :: s)) (mapSet m (takeTok p) (takeTok (d :: s)))
    else if c = star then valuesLoop (skipTok p) (skipTok (d :: s)) m
    else if c = gt then (if p.isEmpty then some m else none)
    else match _h : valuesLit c p (d :: s) with
      | none => none
      | some (p', s') => valuesLoop p' s' m
termination_by p _ _ => p.length
decreasing_by
  all_goals simp_wf
  · have := skipTok_len p; omega
  · have := skipTok_len p; omega
  · have := valuesLit_len _h; omega

def values (p s : Str) : Option (List (Str × Str)) := valuesLoop p s []

/-- `Pattern.replace` (the scan; the byte assembly with `make`/`copy` is
modelled as the concatenation it computes). -/
def replaceLoop (f : Str → Option Str) : Bool → Str → Str
  | _, [] => []
  | start, c :: p =>
    if c = dollar then
      if start then
        match f (takeTok p) with
        | some v => v ++ replaceLoop f start (skipTok p)
        | none => c :: takeTok p ++ replaceLoop f start (skipTok p)
      else c :: replaceLoop f start p
    else if c = dot then c :: replaceLoop f true p
    else c :: replaceLoop f false p
termination_by _ p => p.length
decreasing_by
  all_goals simp_wf
  all_goals (try have := skipTok_len p); omega

def replace (f : Str → Option Str) (p : Str) : Str := replaceLoop f true p

/-- `Pattern.ReplaceTags` -/
def replaceTags (p : Str) (m : List (Str × Str)) : Str :=
  if m.isEmpty then p else replace (mapGet m) p

/-- `Pattern.ReplaceTag` -/
def replaceTag (p tag value : Str) : Str :=
  replace (fun t => if tag = t then some value else none) p

/-- `Pattern.IndexWildcard` -/
def indexWildcardLoop : Bool → Nat → Str → Int
  | _, _, [] => -1
  | start, i, c :: r =>
    if c = dot then indexWildcardLoop true (i + 1) r
    else if start && ((c = gt && r.isEmpty) || c = star || c = dollar) then (i : Int)
    else indexWildcardLoop false (i + 1) r

def indexWildcard (p : Str) : Int := indexWildcardLoop true 0 p

/-- `IsValidRID` (types.go) -/
def isValidRIDLoop : Bool → Str → Bool
  | start, [] => !start
  | start, c :: r =>
    if c = qmark then !start
    else if c < 33 || c > 126 || c = star || c = gt then false
    else if c = dot then (if start then false else isValidRIDLoop true r)
    else isValidRIDLoop false r

def isValidRID (rid : Str) : Bool := isValidRIDLoop true rid

/-- `isValidPart` (resource.go) -/
def isValidPart (p : Str) : Bool :=
  !p.isEmpty && p.all (fun r => !(r < 33 || r > 126 || r = qmark || r = star || r = gt || r = dot))

/-- `isValidPath` (mux.go) -/
def isValidPath (p : Str) : Bool :=
  p.isEmpty || (isValid p && indexWildcard p == -1)

/-! ## Token-wise specification -/

inductive Tok
  | lit (s : Str)     -- literal token (may contain `$` after its first byte)
  | tag (n : Str)     -- `$name`
  | star              -- `*`
  | full              -- `>`
deriving Repr, DecidableEq

/-- visible, no `?`, no `.` -/
def okChar (c : Nat) : Bool := 33 ≤ c && c ≤ 126 && c ≠ qmark && c ≠ dot

/-- a literal token of a *pattern*: non-empty, first byte not a wildcard marker,
later bytes anything visible except `* > ? .` -/
def litOk : Str → Bool
  | [] => false
  | c :: r => okChar c && c ≠ dollar && c ≠ star && c ≠ gt &&
      r.all (fun x => okChar x && x ≠ star && x ≠ gt)

/-- a tag name: visible bytes except `* > ? .`, at least one of them not `$`
(`IsValid` keeps its `emptytag` flag until it sees such a byte) -/
def tagOk (n : Str) : Bool :=
  n.all (fun x => okChar x && x ≠ star && x ≠ gt) && n.any (fun x => x ≠ dollar)

def Tok.ok : Tok → Bool
  | .lit s => litOk s
  | .tag n => tagOk n
  | .star => true
  | .full => true

/-- a well-formed pattern: every token ok and `>` only last -/
def wfPat : List Tok → Bool
  | [] => true
  | [t] => t.ok
  | t :: r => t.ok && t ≠ .full && wfPat r

/-- a concrete resource name: literals only, non-empty -/
def isName (ts : List Tok) : Bool :=
  !ts.isEmpty && ts.all (fun t => match t with | .lit s => litOk s | _ => false)

def Tok.render : Tok → Str
  | .lit s => s
  | .tag n => Ch.dollar :: n
  | .star => [Ch.star]
  | .full => [Ch.gt]

def render (ts : List Tok) : Str := joinDots (ts.map Tok.render)

def parseTok (t : Str) : Tok :=
  match t with
  | [] => .lit []
  | c :: r =>
    if c = dollar then .tag r
    else if c = star ∧ r = [] then .star
    else if c = gt ∧ r = [] then .full
    else .lit t

/-- tokenising parser: `none` for anything that is not a well-formed pattern -/
def parse (p : Str) : Option (List Tok) :=
  if p.isEmpty then some [] else
  let ts := (splitDots p).map parseTok
  if wfPat ts then some ts else none

/-- does pattern `p` match name-or-pattern `s`, token by token -/
def tokMatches : List Tok → List Tok → Bool
  | [], [] => true
  | [.full], _ :: _ => true
  | .lit a :: ps, .lit b :: ns => a == b && tokMatches ps ns
  | .tag _ :: ps, n :: ns => n != .full && tokMatches ps ns
  | .star :: ps, n :: ns => n != .full && tokMatches ps ns
  | _, _ => false

/-- values of the `$tag` tokens, later tags overriding earlier ones of the same name -/
def tokValues : List Tok → List Tok → List (Str × Str) → Option (List (Str × Str))
  | [], [], m => some m
  | [.full], _ :: _, m => some m
  | .lit a :: ps, .lit b :: ns, m => if a = b then tokValues ps ns m else none
  | .tag t :: ps, n :: ns, m => tokValues ps ns (mapSet m t n.render)
  | .star :: ps, _ :: ns, m => tokValues ps ns m
  | _, _, _ => none

def tokReplace (f : Str → Option Str) : List Tok → List Str
  | [] => []
  | .tag t :: r => (match f t with | some v => v | none => dollar :: t) :: tokReplace f r
  | t :: r => t.render :: tokReplace f r

def tagsOf : List Tok → List Str
  | [] => []
  | .tag t :: r => t :: tagsOf r
  | _ :: r => tagsOf r

/-- no `$tag` occurs twice (what mux registration demands) -/
def distinctTags (ts : List Tok) : Bool :=
  match ts with
  | [] => true
  | .tag t :: r => !(tagsOf r).contains t && distinctTags r
  | _ :: r => distinctTags r

def hasAnon (ts : List Tok) : Bool := ts.any (fun t => t == .star || t == .full)

end GoRes.Pattern
