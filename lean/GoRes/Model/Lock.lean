import GoRes.Model.Basic
/-! Model of the per-id read/write lock the stores hold from `Read`/`Write` until `Close`
(`keylock.KeyLock` per id in badgerstore, one `sync.RWMutex` for the whole mockstore): which
acquisitions are granted in which state.  The lock libraries themselves are trusted; the
`excl` operations of the `idx` correspondence stream observe the grants on the real stores. -/
namespace GoRes.Lock
open GoRes

structure L where
  readers : Nat := 0
  writer : Bool := false
deriving Repr, DecidableEq

inductive Act | rlock | runlock | lock | unlock
deriving Repr, DecidableEq

/-- `none` = the call does not return in this state (it blocks), or is not a legal release -/
def step (l : L) : Act → Option L
  | .rlock => if l.writer then none else some { l with readers := l.readers + 1 }
  | .runlock => if l.readers = 0 then none else some { l with readers := l.readers - 1 }
  | .lock => if l.writer || decide (l.readers > 0) then none else some { l with writer := true }
  | .unlock => if l.writer then some { l with writer := false } else none

/-- some transaction holds the lock -/
def isOpen (l : L) : Bool := l.writer || decide (l.readers > 0)

def run : L → List Act → Option L
  | l, [] => some l
  | l, a :: as => match step l a with
    | some l' => run l' as
    | none => none

/-- badgerstore: one lock per id; `same` tells whether the contender uses the held id -/
def grantedBadger (heldWrite contWrite same : Bool) : Bool := !(same && (heldWrite || contWrite))
/-- mockstore: one lock for the store -/
def grantedMock (heldWrite contWrite : Bool) : Bool := !(heldWrite || contWrite)

end GoRes.Lock
