import GoRes.Model.Basic
import GoRes.Model.Pattern
/-! Executable model of `mux.go` and `group.go`.

The trie is a nested inductive; every recursive function recurses on the *token
list* and takes the node as a parameter, as the Go code does.  Go panics are
explicit `Except`/`Option` outcomes, and a panic in the middle of `fetch` leaves
the nodes created so far in the tree, as in Go.

Mounted sub-muxes alias a node of the parent's tree (`sub.root` is shared by
pointer); the model keeps one tree per top-level mux and gives every mux a
location `(owner, path)` inside such a tree. -/
namespace GoRes.Mux
open GoRes Ch

/-- `pathParam` -/
structure PathParam where
  name : Str
  idx : Nat
deriving Repr, DecidableEq, Inhabited

/-- `gpart`: a literal piece or a token index -/
inductive GPart
  | str (s : Str)
  | idx (i : Nat)
deriving Repr, DecidableEq, Inhabited

/-- `group`: `none` = nil (use the resource name), `some []` = Parallel -/
abbrev Group := Option (List GPart)

/-- `regHandler`: the handler is represented by its id -/
structure Reg where
  id : Nat
  group : Group
deriving Repr, DecidableEq, Inhabited

inductive Elem
  | lit (s : Str)
  | param
  | wild
deriving Repr, DecidableEq, Inhabited

/-- `node` -/
inductive Node
  | mk (hs : Option Reg) (params : List PathParam) (listeners : List Nat) (mounted : Bool)
       (lits : List (Str × Node)) (param : Option Node) (wild : Option Node)
deriving Repr, Inhabited

namespace Node
def hs : Node → Option Reg | .mk h _ _ _ _ _ _ => h
def params : Node → List PathParam | .mk _ p _ _ _ _ _ => p
def listeners : Node → List Nat | .mk _ _ l _ _ _ _ => l
def mounted : Node → Bool | .mk _ _ _ m _ _ _ => m
def lits : Node → List (Str × Node) | .mk _ _ _ _ l _ _ => l
def param : Node → Option Node | .mk _ _ _ _ _ p _ => p
def wild : Node → Option Node | .mk _ _ _ _ _ _ w => w
def empty : Node := .mk none [] [] false [] none none
def setHs (h : Option Reg) : Node → Node | .mk _ p l m ls pa w => .mk h p l m ls pa w
def setParams (p : List PathParam) : Node → Node | .mk h _ l m ls pa w => .mk h p l m ls pa w
def addListener (x : Nat) : Node → Node | .mk h p l m ls pa w => .mk h p (l ++ [x]) m ls pa w
def setMounted (b : Bool) : Node → Node | .mk h p l _ ls pa w => .mk h p l b ls pa w
def setLits (ls : List (Str × Node)) : Node → Node | .mk h p l m _ pa w => .mk h p l m ls pa w
def setParam (pa : Option Node) : Node → Node | .mk h p l m ls _ w => .mk h p l m ls pa w
def setWild (w : Option Node) : Node → Node | .mk h p l m ls pa _ => .mk h p l m ls pa w
end Node

def lookupLit (l : List (Str × Node)) (s : Str) : Option Node :=
  match l with
  | [] => none
  | (k, n) :: r => if k = s then some n else lookupLit r s

def setLit (l : List (Str × Node)) (s : Str) (n : Node) : List (Str × Node) :=
  match l with
  | [] => [(s, n)]
  | (k, m) :: r => if k = s then (k, n) :: r else (k, m) :: setLit r s n

/-! ## group.go -/

inductive GroupErr | unexpectedEnd | expectedBrace | emptyTag | tagNotFound | badChar
deriving Repr, DecidableEq

def isTagChar (c : Nat) : Bool :=
  (65 ≤ c && c ≤ 90) || (97 ≤ c && c ≤ 122) || (48 ≤ c && c ≤ 57) || c = 95 || c = 45

def findTok (tokens : List Str) (tag : Str) (j : Nat) : Option Nat :=
  match tokens with
  | [] => none
  | t :: r => if t = tag then some j else findTok r tag (j + 1)

/-- `StateTag` of `parseGroup`: scan `[A-Za-z0-9_-]*` up to `}`; returns the tag and the rest -/
def tagLoop : Str → Str → Except GroupErr (Str × Str)
  | [], _ => .error .unexpectedEnd
  | c :: r, tag =>
    if c = rbrace then
      if tag.isEmpty then .error .emptyTag else .ok (tag.reverse, r)
    else if !isTagChar c then .error .badChar
    else tagLoop r (c :: tag)

theorem tagLoop_len {r acc tag rest} (h : tagLoop r acc = .ok (tag, rest)) : rest.length < r.length := by
  induction r generalizing acc with
  | nil => simp [tagLoop] at h
  | cons c r ih =>
    simp only [tagLoop] at h
    split at h
    · split at h
      · simp at h
      · simp only [Except.ok.injEq, Prod.mk.injEq] at h; simp [h.2]
    · split at h
      · simp at h
      · have := ih h; simp; omega

/-- `parseGroup`, the two-state scanner: `cur` is `g[start:i]` reversed. -/
def parseGroupDefault (tokens : List Str) : Str → Str → List GPart → Except GroupErr (List GPart)
  | [], cur, acc => .ok (if cur.isEmpty then acc else acc ++ [.str cur.reverse])
  | c :: r, cur, acc =>
    if c = dollar then
      let acc := if cur.isEmpty then acc else acc ++ [.str cur.reverse]
      match r with
      | [] => .error .unexpectedEnd
      | c2 :: r2 =>
        if c2 ≠ lbrace then .error .expectedBrace
        else
          match _h : tagLoop r2 [] with
          | .error e => .error e
          | .ok (tag, rest) =>
            match findTok tokens (dollar :: tag) 0 with
            | none => .error .tagNotFound
            | some j => parseGroupDefault tokens rest [] (acc ++ [.idx j])
    else parseGroupDefault tokens r (c :: cur) acc
termination_by g _ _ => g.length
decreasing_by
  all_goals simp_wf
  · have := tagLoop_len _h; omega

def splitPattern (p : Str) : List Str := if p.isEmpty then [] else splitDots p

/-- `parseGroup(g, pattern)` -/
def parseGroup (g pattern : Str) : Except GroupErr Group :=
  if g.isEmpty then .ok none
  else match parseGroupDefault (splitPattern pattern) g [] [] with
    | .ok gr => .ok (some gr)
    | .error e => .error e

/-- `group.toString(rname, tokens)`; `none` = index out of range (Go panics) -/
def groupToString (g : Group) (rname : Str) (tokens : List Str) : Option Str :=
  match g with
  | none => some rname
  | some [] => some []
  | some [.str s] => some s
  | some parts =>
    parts.foldlM (fun acc gp => match gp with
      | .str s => some (acc ++ s)
      | .idx i => (tokens[i]?).map (acc ++ ·)) []

/-! ## fetch -/

inductive FetchErr | invalid | dupParam | mountWild
deriving Repr, DecidableEq

/-- `Mux.fetch`: walk/create the path for `toks`, then run `k` on the node
reached (`fresh` = the node was created by this call).  Returns the updated
tree even when the outcome is an error. -/
def fetch {α : Type} (mount : Option Node)
    (k : Node → (fresh : Bool) → List PathParam → (mountIdx : Nat) → Node × Except FetchErr α) :
    Node → List Str → (i mountIdx : Nat) → List PathParam → Bool → Node × Except FetchErr α
  | n, [], _, mountIdx, params, fresh => k n fresh params mountIdx
  | n, t :: rest, i, mountIdx, params, _ =>
    let doMount := mount.isSome && rest.isEmpty
    let mountIdx := if n.mounted then i else mountIdx
    let newNode := if doMount then mount.getD Node.empty else Node.empty
    match t with
    | [] => (n, .error .invalid)
    | c :: name =>
      if c = dollar ∨ c = star then
        if (name.isEmpty) != (c = star) then (n, .error .invalid)
        else if c = dollar ∧ params.any (·.name = name) then (n, .error .dupParam)
        else
          let params := if c = dollar then params ++ [⟨name, i - mountIdx⟩] else params
          let (child, fresh) := match n.param with
            | some ch => (ch, false)
            | none => (newNode, true)
          let (child', r) := fetch mount k child rest (i + 1) mountIdx params fresh
          (n.setParam (some child'), r)
      else if c = gt then
        if !name.isEmpty ∨ !rest.isEmpty then (n, .error .invalid)
        else match n.wild with
          | some ch =>
            let (child', r) := fetch mount k ch rest (i + 1) mountIdx params false
            (n.setWild (some child'), r)
          | none =>
            if doMount then (n, .error .mountWild)
            else
              let (child', r) := fetch mount k Node.empty rest (i + 1) mountIdx params true
              (n.setWild (some child'), r)
      else
        let (child, fresh) := match lookupLit n.lits t with
          | some ch => (ch, false)
          | none => (newNode, true)
        let (child', r) := fetch mount k child rest (i + 1) mountIdx params fresh
        (n.setLits (setLit n.lits t child'), r)

inductive RegErr
  | invalidPattern | group (e : GroupErr) | fetch (e : FetchErr) | already | paramMismatch | nilHandler
  | invalidPath | alreadyMounted | mountRoot | mountExisting
deriving Repr, DecidableEq

/-- `setAndValidateParams` -/
def setAndValidateParams (n : Node) (params : List PathParam) : Except RegErr Node :=
  if n.params.isEmpty then .ok (n.setParams params)
  else if n.params.length ≠ params.length then .error .paramMismatch
  else if n.params = params then .ok n else .error .paramMismatch

def rebase (g : Group) (mountIdx : Nat) : Group :=
  g.map (·.map fun gp => match gp with | .idx i => .idx (i - mountIdx) | x => x)

/-- `Mux.add` on the tree rooted at the mux's root (listeners in the handler are not modelled) -/
def addAt (root : Node) (pattern : Str) (id : Nat) (g : Group) : Node × Except RegErr Unit :=
  if !Pattern.isValid pattern then (root, .error .invalidPattern)
  else
    let (root', r) := fetch (α := Except RegErr Unit) none (fun n _ params mountIdx =>
        if n.hs.isSome then (n, .ok (.error .already))
        else match setAndValidateParams n params with
          | .error e => (n, .ok (.error e))
          | .ok n' => (n'.setHs (some ⟨id, rebase g mountIdx⟩), .ok (.ok ())))
      root (splitPattern pattern) 0 0 [] false
    match r with
    | .error e => (root', .error (.fetch e))
    | .ok (.error e) => (root', .error e)
    | .ok (.ok ()) => (root', .ok ())

/-- `Mux.AddHandler` -/
def addHandlerAt (root : Node) (pattern : Str) (id : Nat) (group : Str) (parallel : Bool) : Node × Except RegErr Unit :=
  if parallel then addAt root pattern id (some [])
  else match parseGroup group pattern with
    | .error e => (root, .error (.group e))
    | .ok g => addAt root pattern id g

/-- `Mux.AddListener` -/
def addListenerAt (root : Node) (pattern : Str) (id : Nat) : Node × Except RegErr Unit :=
  if !Pattern.isValid pattern then (root, .error .invalidPattern) else
  let (root', r) := fetch (α := Except RegErr Unit) none (fun n _ params _ =>
      match setAndValidateParams n params with
      | .error e => (n, .ok (.error e))
      | .ok n' => (n'.addListener id, .ok (.ok ())))
    root (splitPattern pattern) 0 0 [] false
  match r with
  | .error e => (root', .error (.fetch e))
  | .ok (.error e) => (root', .error e)
  | .ok (.ok ()) => (root', .ok ())

/-- the `fetch(spath, sub.root)` + identity test + `mounted = true` of `Mux.Mount` -/
def mountAt (root : Node) (spath : Str) (sub : Node) : Node × Except RegErr Unit :=
  let (root', r) := fetch (α := Except RegErr Unit) (some sub) (fun n fresh _ _ =>
      if fresh then (n.setMounted true, .ok (.ok ())) else (n, .ok (.error .mountExisting)))
    root (splitPattern spath) 0 0 [] false
  match r with
  | .error e => (root', .error (.fetch e))
  | .ok (.error e) => (root', .error e)
  | .ok (.ok ()) => (root', .ok ())

/-! ## lookup -/

structure Found where
  node : Node
  mountIdx : Nat
deriving Inhabited

/-- `matchNode(l, toks, i, mi, nm)` with `toks[i:] = t :: rest` -/
def matchNode (l : Node) (toks : List Str) (i mi : Nat) : Option Found :=
  match toks with
  | [] => none
  | t :: rest =>
    let mi := if l.mounted then i else mi
    let viaLit : Option Found := match lookupLit l.lits t with
      | none => none
      | some n => if rest.isEmpty then (if n.hs.isSome then some ⟨n, mi⟩ else none) else matchNode n rest (i + 1) mi
    match viaLit with
    | some f => some f
    | none =>
      let viaParam : Option Found := match l.param with
        | none => none
        | some n => if rest.isEmpty then (if n.hs.isSome then some ⟨n, mi⟩ else none) else matchNode n rest (i + 1) mi
      match viaParam with
      | some f => some f
      | none => l.wild.map (fun w => ⟨w, mi⟩)

structure Match where
  id : Nat
  listeners : List Nat
  params : List (Str × Str)
  group : Str
deriving Repr, DecidableEq

inductive Lookup
  | nil
  | found (m : Match)
  | panic
deriving Repr, DecidableEq

def paramValues (ps : List PathParam) (toks : List Str) (mi : Nat) : Option (List (Str × Str)) :=
  ps.foldlM (fun acc pp => (toks[pp.idx + mi]?).map (fun v => Pattern.mapSet acc pp.name v)) []

/-- `Mux.GetHandler` for a mux with path `path` and root `root` -/
def getHandler (path : Str) (root : Node) (rname : Str) : Lookup :=
  let sub : Option Str :=
    if path.isEmpty then some rname
    else if path.length = rname.length then (if path = rname then some [] else none)
    else if path.length > rname.length ∨ rname.take path.length ≠ path ∨ rname[path.length]? ≠ some dot then none
    else some (rname.drop (path.length + 1))
  match sub with
  | none => .nil
  | some subrname =>
    if subrname.isEmpty then
      match root.hs with
      | none => .nil
      | some h => match groupToString h.group rname [] with
        | none => .panic
        | some g => .found ⟨h.id, root.listeners, [], g⟩
    else
      let tokens := splitDots subrname
      match matchNode root tokens 0 0 with
      | none => .nil
      | some f =>
        match f.node.hs with
        | none => .nil
        | some h =>
          match paramValues f.node.params tokens f.mountIdx with
          | none => .panic
          | some ps => match groupToString h.group rname (tokens.drop f.mountIdx) with
            | none => .panic
            | some g => .found ⟨h.id, f.node.listeners, ps, g⟩

/-! ## the mux table (Mount / Route aliasing) -/

def elemOf (t : Str) : Elem :=
  match t with
  | [] => .lit []
  | c :: _ => if c = dollar ∨ c = star then .param else if c = gt then .wild else .lit t

def getAt : Node → List Elem → Option Node
  | n, [] => some n
  | n, .lit s :: r => (lookupLit n.lits s).bind (getAt · r)
  | n, .param :: r => n.param.bind (getAt · r)
  | n, .wild :: r => n.wild.bind (getAt · r)

def setAt : Node → List Elem → Node → Node
  | _, [], x => x
  | n, .lit s :: r, x => match lookupLit n.lits s with
    | some c => n.setLits (setLit n.lits s (setAt c r x))
    | none => n
  | n, .param :: r, x => match n.param with
    | some c => n.setParam (some (setAt c r x))
    | none => n
  | n, .wild :: r, x => match n.wild with
    | some c => n.setWild (some (setAt c r x))
    | none => n

structure MuxInfo where
  path : Str
  parent : Option Nat      -- parent mux id
  mountp : Str
  owner : Nat              -- id of the top-level mux whose tree holds this mux's root
  loc : List Elem          -- where in the owner's tree
deriving Repr, Inhabited

structure World where
  muxes : List (Nat × MuxInfo)
  trees : List (Nat × Node)     -- owner id ↦ tree
deriving Inhabited

def World.empty : World := ⟨[], []⟩

def assocGet {β} (l : List (Nat × β)) (k : Nat) : Option β := (l.find? (·.1 == k)).map (·.2)
def assocSet {β} (l : List (Nat × β)) (k : Nat) (v : β) : List (Nat × β) :=
  if l.any (·.1 == k) then l.map (fun e => if e.1 == k then (k, v) else e) else l ++ [(k, v)]

def mergePattern (a b : Str) : Str :=
  if a.isEmpty then b else if b.isEmpty then a else a ++ dot :: b

/-- `NewMux(path)` -/
def World.newMux (w : World) (id : Nat) (path : Str) : World × Except RegErr Unit :=
  if !Pattern.isValidPath path then (w, .error .invalidPath)
  else ({ muxes := assocSet w.muxes id ⟨path, none, [], id, []⟩, trees := assocSet w.trees id Node.empty }, .ok ())

def World.rootOf (w : World) (id : Nat) : Option (MuxInfo × Node × Node) := do
  let mi ← assocGet w.muxes id
  let tree ← assocGet w.trees mi.owner
  let root ← getAt tree mi.loc
  pure (mi, tree, root)

/-- run a tree-mutating operation on mux `id`'s root -/
def World.withRoot {β} (w : World) (id : Nat) (f : Node → Node × β) : Option (World × β) := do
  let (mi, tree, root) ← w.rootOf id
  let (root', b) := f root
  pure ({ w with trees := assocSet w.trees mi.owner (setAt tree mi.loc root') }, b)

/-- `Mux.Mount(path, sub)` -/
def World.mount (w : World) (pid : Nat) (path : Str) (cid : Nat) : World × Except RegErr Unit :=
  if !Pattern.isValidPath path then (w, .error .invalidPath)
  else match assocGet w.muxes cid, w.rootOf pid with
    | some ci, some (pi, _, _) =>
      if ci.parent.isSome then (w, .error .alreadyMounted)
      else
        let spath := mergePattern path ci.path
        if spath.isEmpty then (w, .error .mountRoot)
        else match assocGet w.trees cid with
          | none => (w, .error .alreadyMounted)
          | some subTree =>
            match w.withRoot pid (fun root => mountAt root spath subTree) with
            | none => (w, .error .invalidPath)
            | some (w', .error e) => (w', .error e)
            | some (w', .ok ()) =>
              -- the sub tree now lives inside the parent's owner tree: relocate every mux it owned
              let base := pi.loc ++ (splitPattern spath).map elemOf
              let muxes := w'.muxes.map fun (k, m) =>
                if m.owner = cid then
                  (k, { m with owner := pi.owner, loc := base ++ m.loc,
                               parent := if k = cid then some pid else m.parent,
                               mountp := if k = cid then path else m.mountp })
                else (k, m)
              ({ muxes := muxes, trees := w'.trees.filter (·.1 != cid) }, .ok ())
    | _, _ => (w, .error .invalidPath)

/-- `Mux.FullPath` -/
def World.fullPath (w : World) : Nat → Nat → Str
  | 0, _ => []
  | fuel + 1, id => match assocGet w.muxes id with
    | none => []
    | some mi => match mi.parent with
      | none => mi.path
      | some p => mergePattern (mergePattern (w.fullPath fuel p) mi.mountp) mi.path

/-- does any node of the tree have listeners but no handler (`ValidateListeners`)? -/
def hasOrphanListener : Nat → Node → Bool
  | 0, _ => false
  | fuel + 1, n =>
    (n.hs.isNone && !n.listeners.isEmpty) ||
    n.lits.any (fun p => hasOrphanListener fuel p.2) ||
    (match n.param with | some c => hasOrphanListener fuel c | none => false) ||
    (match n.wild with | some c => hasOrphanListener fuel c | none => false)

end GoRes.Mux
