import GoRes.Model.Basic
/-! A small JSON reader over byte strings, used by the *specification* side only
(judging what the implementation published; classifying values for C18).
Numbers and strings are kept as their source text; no escapes are interpreted
beyond finding the closing quote. Fuel-based, total. -/
namespace GoRes.Json
open GoRes

inductive J
  | null
  | bool (b : Bool)
  | num (text : Str)
  | str (raw : Str)          -- contents between the quotes, escapes untouched
  | arr (items : List J)
  | obj (members : List (Str × J))
deriving Repr, Inhabited

def isWs (c : Nat) : Bool := c = 32 || c = 9 || c = 10 || c = 13

def skipWs : Str → Str
  | [] => []
  | c :: r => if isWs c then skipWs r else c :: r

/-- string body up to the closing quote; returns (raw contents, rest after the quote) -/
def scanString : Str → Str → Option (Str × Str)
  | [], _ => none
  | c :: r, acc =>
    if c = 34 then some (acc.reverse, r)
    else if c = 92 then
      match r with
      | [] => none
      | d :: r' => scanString r' (d :: c :: acc)
    else if c < 32 then none
    else scanString r (c :: acc)

def isNumCh (c : Nat) : Bool :=
  (48 ≤ c && c ≤ 57) || c = 45 || c = 43 || c = 46 || c = 101 || c = 69

def validNum (t : Str) : Bool :=
  -- -? digits (. digits)? ([eE] [+-]? digits)?   (leading zeros rejected as in JSON)
  let t1 := match t with | 45 :: r => r | _ => t
  let digits (s : Str) : Str × Str := (s.takeWhile (fun c => 48 ≤ c && c ≤ 57), s.dropWhile (fun c => 48 ≤ c && c ≤ 57))
  let (ip, r1) := digits t1
  if ip.isEmpty || (ip.length > 1 && ip.head? = some 48) then false else
  let r2? : Option Str := match r1 with
    | 46 :: r => let (fp, r') := digits r; if fp.isEmpty then none else some r'
    | _ => some r1
  match r2? with
  | none => false
  | some r2 => match r2 with
    | [] => true
    | e :: r =>
      if e = 101 || e = 69 then
        let r := match r with | 43 :: x => x | 45 :: x => x | _ => r
        let (ep, r') := digits r
        !ep.isEmpty && r'.isEmpty
      else false

def lit (s : Str) (w : String) : Option Str :=
  let ws := w.toUTF8.toList.map (·.toNat)
  if ws.isPrefixOf s then some (s.drop ws.length) else none

mutual
/-- parse one value; returns the value and the rest -/
def parseValue : Nat → Str → Option (J × Str)
  | 0, _ => none
  | fuel + 1, s =>
    match skipWs s with
    | [] => none
    | c :: r =>
      if c = 123 then parseMembers fuel (skipWs r) [] true
      else if c = 91 then parseItems fuel (skipWs r) [] true
      else if c = 34 then (scanString r []).map fun (raw, rest) => (.str raw, rest)
      else if c = 116 then (lit (c :: r) "true").map fun rest => (.bool true, rest)
      else if c = 102 then (lit (c :: r) "false").map fun rest => (.bool false, rest)
      else if c = 110 then (lit (c :: r) "null").map fun rest => (.null, rest)
      else
        let t := (c :: r).takeWhile isNumCh
        if validNum t then some (.num t, (c :: r).dropWhile isNumCh) else none

def parseItems : Nat → Str → List J → Bool → Option (J × Str)
  | 0, _, _, _ => none
  | fuel + 1, s, acc, first =>
    match s with
    | 93 :: r => if first then some (.arr acc, r) else none
    | _ =>
      match parseValue fuel s with
      | none => none
      | some (v, rest) =>
        match skipWs rest with
        | 44 :: r => parseItems fuel (skipWs r) (acc ++ [v]) false
        | 93 :: r => some (.arr (acc ++ [v]), r)
        | _ => none

def parseMembers : Nat → Str → List (Str × J) → Bool → Option (J × Str)
  | 0, _, _, _ => none
  | fuel + 1, s, acc, first =>
    match s with
    | 125 :: r => if first then some (.obj acc, r) else none
    | 34 :: r =>
      match scanString r [] with
      | none => none
      | some (k, rest) =>
        match skipWs rest with
        | 58 :: r2 =>
          match parseValue fuel r2 with
          | none => none
          | some (v, rest2) =>
            match skipWs rest2 with
            | 44 :: r3 => parseMembers fuel (skipWs r3) (acc ++ [(k, v)]) false
            | 125 :: r3 => some (.obj (acc ++ [(k, v)]), r3)
            | _ => none
        | _ => none
    | _ => none
end

/-- parse a complete JSON text (surrounding whitespace allowed) -/
def parse (s : Str) : Option J :=
  match parseValue (s.length + 2) s with
  | some (v, rest) => if (skipWs rest).isEmpty then some v else none
  | none => none

def J.get? (j : J) (k : String) : Option J :=
  match j with
  | .obj ms => (ms.find? (fun m => m.1 = GoRes.str k)).map (·.2)
  | _ => none

def J.keys : J → List Str
  | .obj ms => ms.map (·.1)
  | _ => []

def J.isObj : J → Bool | .obj _ => true | _ => false
def J.isArr : J → Bool | .arr _ => true | _ => false
def J.isStr : J → Bool | .str _ => true | _ => false

end GoRes.Json
