import GoRes.Model.Basic
/-! Executable model of request processing (`service.go` `processRequest`,
`request.go` `executeHandler` with its `recover` arms and all responders,
`resource.go` event methods).

A handler is a *script* (`List Action`) interpreted against the request state;
the outcome is the ordered list of observable effects (messages published on the
connection, apply-handler calls, listener calls).  JSON payloads are rendered in
a canonical form (compact, members sorted by key), which is also how the harness
canonicalises what the real service published. -/
namespace GoRes.Req
open GoRes

inductive RType | access | get | call | auth
deriving Repr, DecidableEq

/-- outcome of an optional apply handler -/
inductive Apply
  | absent
  | ok            -- succeeds (ApplyChange: returns a nil or non-empty rev map)
  | okEmpty       -- ApplyChange only: returns an empty, non-nil map ("changes nothing")
  | err           -- returns an error (the event method panics with it)
deriving Repr, DecidableEq

structure HCfg where
  hasAccess : Bool
  hasGet : Bool
  hasNew : Bool
  call : List Str
  auth : List Str
  typ : Nat                 -- 0 unset, 1 model, 2 collection
  applyChange : Apply
  applyAdd : Apply
  applyRemove : Apply
  applyCreate : Apply
  applyDelete : Apply
  listeners : Nat
  /-- positions (0 change … 4 delete) whose apply handler fails with `ErrNotFound` (a `*res.Error`)
  rather than with an ordinary error: the event method panics with that value all the same -/
  nfApply : List Nat := []
deriving Repr

inductive Payload | empty | bad | ok
deriving Repr, DecidableEq

structure ReqIn where
  rtype : RType
  rname : Str
  method : Str
  found : Bool                      -- routing found a handler
  params : List (Str × Str)         -- path parameters from routing (sorted)
  payload : Payload
  cid : Str
  isHTTP : Bool
  rawParams : Option Str
  token : Option Str
  query : Str
deriving Repr

/-- a value handed to the library: its canonical JSON text, or unmarshalable -/
structure JV where
  ok : Bool
  text : Str
deriving Repr, DecidableEq

inductive ErrV
  | res (code msg : Str)     -- a `*res.Error`
  | go (msg : Str)           -- any other `error`
  | resBad                   -- a `*res.Error` whose `Data` cannot be marshalled
deriving Repr, DecidableEq

/-- the value an event method panics with when apply handler `i` fails -/
def applyErrV (cfg : HCfg) (i : Nat) : ErrV :=
  if cfg.nfApply.contains i then .res (b!"system.notFound") (b!"Not found") else .go (b!"apply failed")

inductive PanicV
  | err (e : ErrV)
  | lib                      -- a string panic raised by the library itself (misuse of the API)
  | str (msg : Str)
  | other (text : Str)       -- `fmt.Sprintf("%v", v)`
deriving Repr, DecidableEq

inductive Action
  | ok (v : Option JV)
  | resource (rid : Str)
  | error (e : ErrV)
  | notFound | methodNotFound
  | invalidParams (msg : Str) | invalidQuery (msg : Str)
  | access (get : Bool) (call : Str) | accessDenied | accessGranted
  | model (v : JV) (query : Str) | collection (v : JV) (query : Str)
  | new (rid : Str)
  | timeout (ms : Int)
  | change (props : List (Str × JV)) | add (v : JV) (idx : Int) | remove (idx : Int)
  | create (v : JV) | delete | custom (name : Str) (payload : Option JV) | reaccess
  | tokenEvent (v : Option JV)
  | setStatus (code : Int) | header (k v : Str)
  | panic (p : PanicV)
  | parseParams (succeeds : Bool)
deriving Repr

inductive Eff
  | pub (subj payload : Str)
  | apply (kind : String)
  | listener (i : Nat) (name : Str)
  | seen (desc : Str)
deriving Repr, DecidableEq

/-! ## canonical JSON rendering -/

/-- JSON string escaping as `encoding/json` does it, HTML escaping aside (the harness re-encodes what
the service published without it): `"`, `\\` and the control characters are escaped; every other byte is
copied (the harness only uses valid UTF-8) -/
def hexd (n : Nat) : Nat := if n < 10 then 48 + n else 87 + n
def escByte (c : Nat) : Str :=
  if c = 34 then [92, 34] else if c = 92 then [92, 92]
  else if c = 10 then [92, 110] else if c = 13 then [92, 114] else if c = 9 then [92, 116]
  else if c < 32 then [92, 117, 48, 48, hexd (c / 16), hexd (c % 16)]
  else [c]
def esc (s : Str) : Str := s.flatMap escByte
def q (s : Str) : Str := 34 :: esc s ++ [34]                -- "s" as encoding/json writes it
def replySubj : Str := b!"REPLY"



def obj (ms : List (Str × Str)) : Str :=
  123 :: (joinWith 44 (ms.map fun (k, v) => q k ++ 58 :: v)) ++ [125]
where joinWith (sep : Nat) : List Str → Str
  | [] => []
  | [x] => x
  | x :: r => x ++ sep :: joinWith sep r

def arr (xs : List Str) : Str := 91 :: (obj.joinWith 44 xs) ++ [93]

/-- insertion sort by key (structural, so it reduces in proofs) -/
def insertMs (x : Str × Str) : List (Str × Str) → List (Str × Str)
  | [] => [x]
  | y :: r => if x.1 < y.1 then x :: y :: r else y :: insertMs x r

def sortMs (ms : List (Str × Str)) : List (Str × Str) := ms.foldr insertMs []

def intText (i : Int) : Str := str (toString i)

/-- the message a non-`*Error` error gets -/
def internalMsg (msg : Str) : Str := b!"Internal error: " ++ msg

def errObj (code msg : Str) : Str := obj [(b!"code", q code), (b!"message", q msg)]

/-- `metaObject`: headers as `{"K":["v",…]}`, status; `none` when nothing is set -/
structure Meta where
  status : Int := 0
  headers : List (Str × List Str) := []
deriving Repr

def Meta.render (m : Meta) : Option Str :=
  if m.headers.isEmpty ∧ m.status = 0 then none
  else some (obj (
    (if m.headers.isEmpty then [] else
      [(b!"header", obj (sortMs (m.headers.map fun (k, vs) => (k, arr (vs.map q)))))]) ++
    (if m.status = 0 then [] else [(b!"status", intText m.status)])))

def withMeta (ms : List (Str × Str)) (m : Option Str) : Str :=
  obj (sortMs (ms ++ (match m with | some t => [(b!"meta", t)] | none => [])))

def respError (code msg : Str) (m : Option Str) : Str := withMeta [(b!"error", errObj code msg)] m
def respResult (r : Str) (m : Option Str) : Str := withMeta [(b!"result", r)] m

/-- placeholder for error texts produced by Go itself (encoding/json messages) -/
def goErr : Str := b!"<go-error>"

def codeInternal : Str := b!"system.internalError"
def codeNotFound : Str := b!"system.notFound"
def codeMethodNotFound : Str := b!"system.methodNotFound"
def codeInvalidParams : Str := b!"system.invalidParams"
def codeInvalidQuery : Str := b!"system.invalidQuery"
def codeAccessDenied : Str := b!"system.accessDenied"

def errVParts : ErrV → Str × Str
  | .res c m => (c, m)
  | .go m => (codeInternal, internalMsg m)
  | .resBad => (codeInternal, b!"Internal error")      -- the static `responseInternalError`

/-- the static fallback response carries no meta -/
def errMeta (e : ErrV) (m : Option Str) : Option Str :=
  match e with
  | .resBad => none
  | _ => m

/-! ## interpreter -/

structure St where
  replied : Bool := false
  mt : Meta := {}
  effs : List Eff := []
deriving Repr

/-- outcome of one action: continue, or a Go panic with the recovered value -/
inductive Step
  | cont (s : St)
  | panic (s : St) (p : PanicV)

def emit (s : St) (e : Eff) : St := { s with effs := s.effs ++ [e] }

/-- `Request.reply` -/
def reply (s : St) (payload : Str) : Step :=
  if s.replied then .panic s .lib
  else .cont (emit { s with replied := true } (.pub replySubj payload))

def metaOf (s : St) : Option Str := s.mt.render

/-- `Request.success` -/
def success (s : St) (v : JV) (m : Option Str) : Step :=
  if v.ok then reply s (respResult v.text m)
  else reply s (respError codeInternal goErr none)

def rawJV (t : Str) : JV := ⟨true, t⟩

def listenersOf (cfg : HCfg) (name : Str) : List Eff := (List.range cfg.listeners).map (fun i => .listener i name)

/-- `Service.event`: marshal and publish; an unmarshalable value publishes nothing -/
def svcEvent (s : St) (subj : Str) (payload : Option JV) : St :=
  match payload with
  | none => emit s (.pub subj [])
  | some v => if v.ok then emit s (.pub subj v.text) else s

def evSubj (r : ReqIn) (name : Str) : Str := b!"event." ++ r.rname ++ 46 :: name

def isValidPartB (p : Str) : Bool :=
  !p.isEmpty && p.all (fun r => !(r < 33 || r > 126 || r = 63 || r = 42 || r = 62 || r = 46))

def reserved : List Str := [b!"change", b!"delete", b!"add", b!"remove", b!"patch", b!"reaccess",
  b!"unsubscribe", b!"query"]

def isValidRIDB (rid : Str) : Bool :=
  let rec go : Bool → Str → Bool
    | start, [] => !start
    | start, c :: r =>
      if c = 63 then !start
      else if c < 33 || c > 126 || c = 42 || c = 62 then false
      else if c = 46 then (if start then false else go true r)
      else go false r
  go true rid

def strPanic (s : St) (_w : String) : Step := .panic s .lib

def addAll (s : St) (es : List Eff) : St := { s with effs := s.effs ++ es }

def refObj (rid : Str) : Str := obj [(b!"rid", q rid)]

/-- one action of a handler script -/
def act (cfg : HCfg) (r : ReqIn) (s : St) : Action → Step
  | .ok v =>
    match v, metaOf s with
    | none, none => reply s (respResult b!"null" none)
    | none, some m => success s (rawJV (b!"null")) (some m)
    | some v, m => success s v m
  | .resource rid =>
    if !isValidRIDB rid then .panic s .lib
    else reply s (withMeta [(b!"resource", refObj rid)] (metaOf s))
  | .error e => let (c, m) := errVParts e; reply s (respError c m (errMeta e (metaOf s)))
  | .notFound => reply s (respError codeNotFound (b!"Not found") (metaOf s))
  | .methodNotFound => reply s (respError codeMethodNotFound (b!"Method not found") (metaOf s))
  | .invalidParams msg =>
    reply s (respError codeInvalidParams (if msg.isEmpty then b!"Invalid parameters" else msg) (metaOf s))
  | .invalidQuery msg =>
    reply s (respError codeInvalidQuery (if msg.isEmpty then b!"Invalid query" else msg) (metaOf s))
  | .accessDenied => reply s (respError codeAccessDenied (b!"Access denied") (metaOf s))
  | .accessGranted => reply s (respResult (obj [(b!"call", q (b!"*")), (b!"get", b!"true")]) (metaOf s))
  | .access get call =>
    if !get ∧ call.isEmpty then reply s (respError codeAccessDenied (b!"Access denied") (metaOf s))
    else reply s (respResult (obj ((if call.isEmpty then [] else [(b!"call", q call)]) ++
                                   (if get then [(b!"get", b!"true")] else []))) (metaOf s))
  | .model v query =>
    if v.ok then reply s (respResult (obj ([(b!"model", v.text)] ++ (if query.isEmpty then [] else [(b!"query", q query)]))) none)
    else reply s (respError codeInternal goErr none)
  | .collection v query =>
    if v.ok then reply s (respResult (obj ([(b!"collection", v.text)] ++ (if query.isEmpty then [] else [(b!"query", q query)]))) none)
    else reply s (respError codeInternal goErr none)
  | .new rid =>
    if !isValidRIDB rid then .panic s .lib
    else reply s (respResult (refObj rid) none)
  | .timeout ms =>
    if ms < 0 then strPanic s "res: negative timeout duration"
    else .cont (emit s (.pub replySubj (b!"timeout:\"" ++ intText ms ++ [34])))
  | .change props =>
    if cfg.typ = 2 then strPanic s "res: change event not allowed on Collections"
    else if props.isEmpty then .cont s
    else
      let s1 := if cfg.applyChange = .absent then s else emit s (.apply "change")
      match cfg.applyChange with
      | .err => .panic s1 (.err (applyErrV cfg 0))
      | .okEmpty => .cont s1
      | _ =>
        let allOk := props.all (·.2.ok)
        let payload : JV := ⟨allOk, obj [(b!"values", obj (sortMs (props.map fun (k, v) => (k, v.text))))]⟩
        let s2 := svcEvent s1 (evSubj r (b!"change")) (some payload)
        .cont (addAll s2 (listenersOf cfg (b!"change")))
  | .add v idx =>
    if cfg.typ = 1 then strPanic s "res: add event not allowed on models"
    else if idx < 0 then strPanic s "res: add event idx less than zero"
    else
      let s1 := if cfg.applyAdd = .absent then s else emit s (.apply "add")
      if cfg.applyAdd = .err then .panic s1 (.err (applyErrV cfg 1))
      else
        let payload : JV := ⟨v.ok, obj [(b!"idx", intText idx), (b!"value", v.text)]⟩
        .cont (addAll (svcEvent s1 (evSubj r (b!"add")) (some payload)) (listenersOf cfg (b!"add")))
  | .remove idx =>
    if cfg.typ = 1 then strPanic s "res: remove event not allowed on models"
    else if idx < 0 then strPanic s "res: remove event idx less than zero"
    else
      let s1 := if cfg.applyRemove = .absent then s else emit s (.apply "remove")
      if cfg.applyRemove = .err then .panic s1 (.err (applyErrV cfg 2))
      else
        .cont (addAll (svcEvent s1 (evSubj r (b!"remove")) (some ⟨true, obj [(b!"idx", intText idx)]⟩)) (listenersOf cfg (b!"remove")))
  | .create _ =>
    let s1 := if cfg.applyCreate = .absent then s else emit s (.apply "create")
    if cfg.applyCreate = .err then .panic s1 (.err (applyErrV cfg 3))
    else .cont (addAll (svcEvent s1 (evSubj r (b!"create")) none) (listenersOf cfg (b!"create")))
  | .delete =>
    let s1 := if cfg.applyDelete = .absent then s else emit s (.apply "delete")
    if cfg.applyDelete = .err then .panic s1 (.err (applyErrV cfg 4))
    else .cont (addAll (svcEvent s1 (evSubj r (b!"delete")) none) (listenersOf cfg (b!"delete")))
  | .custom name payload =>
    if reserved.contains name then strPanic s "res: reserved event name"
    else if !isValidPartB name then strPanic s "res: invalid event name"
    else .cont (addAll (svcEvent s (evSubj r name) payload) (listenersOf cfg name))
  | .reaccess => .cont (emit s (.pub (evSubj r (b!"reaccess")) []))
  | .tokenEvent v =>
    let payload : JV := match v with
      | none => ⟨true, obj [(b!"token", b!"null")]⟩
      | some v => ⟨v.ok, obj [(b!"token", v.text)]⟩
    .cont (svcEvent s (b!"conn." ++ r.cid ++ b!".token") (some payload))
  | .setStatus code =>
    if !r.isHTTP then strPanic s "call to SetResponseStatus when IsHTTP is false"
    else if s.replied then strPanic s "call to SetResponseStatus after reply"
    else .cont { s with mt := { s.mt with status := code } }
  | .header k v =>
    if !r.isHTTP then strPanic s "call to ResponseHeader when IsHTTP is false"
    else if s.replied then strPanic s "call to ResponseHeader after reply"
    else
      let hs := if s.mt.headers.any (·.1 = k) then s.mt.headers.map (fun e => if e.1 = k then (k, e.2 ++ [v]) else e)
                else s.mt.headers ++ [(k, [v])]
      .cont { s with mt := { s.mt with headers := hs } }
  | .panic p => .panic s p
  | .parseParams succeeds =>
    match r.rawParams with
    | none => .cont s
    | some t => if t.isEmpty ∨ succeeds ∨ t = b!"null" then .cont s else .panic s (.err (.res codeInvalidParams goErr))

/-- run a script until it ends or panics -/
def runScript (cfg : HCfg) (r : ReqIn) : St → List Action → Step
  | s, [] => .cont s
  | s, a :: as =>
    match act cfg r s a with
    | .cont s' => runScript cfg r s' as
    | .panic s' p => .panic s' p

/-- `Request.error` (never panics here: called when not yet replied) -/
def errorReply (s : St) (code msg : Str) (m : Option Str) : St :=
  emit { s with replied := true } (.pub replySubj (respError code msg m))

/-- the deferred `recover` of `executeHandler` -/
def recoverArm (s : St) (p : PanicV) : St :=
  if s.replied then s
  else match p with
    | .err e => let (c, m) := errVParts e; errorReply s c m (errMeta e (metaOf s))
    | .lib => errorReply s codeInternal (b!"<lib-panic>") (metaOf s)
    | .str msg => errorReply s codeInternal (internalMsg msg) (metaOf s)
    | .other t => errorReply s codeInternal (internalMsg t) (metaOf s)

def missingResponse : Str := respError codeInternal (b!"Internal error: missing response") none

/-- which handler (if any) `executeHandler` invokes -/
inductive Pick | none | noReplyAtAll | reply (payload : Str) | invoke (kind : String)

def pick (cfg : HCfg) (r : ReqIn) : Pick :=
  match r.rtype with
  | .access => if cfg.hasAccess then .invoke "access" else .noReplyAtAll
  | .get => if cfg.hasGet then .invoke "get" else .reply (respError codeNotFound (b!"Not found") Option.none)
  | .call =>
    if r.method = b!"new" ∧ cfg.hasNew then .invoke "new"
    else if cfg.call.contains r.method then .invoke "call"
    else if cfg.call.contains [42] then .invoke "call*"
    else .reply (respError codeMethodNotFound (b!"Method not found") Option.none)
  | .auth =>
    if cfg.auth.contains r.method then .invoke "auth"
    else if cfg.auth.contains [42] then .invoke "auth*"
    else .reply (respError codeMethodNotFound (b!"Method not found") Option.none)

def encSeen (kind : String) (r : ReqIn) : Str :=
  str kind ++ 124 :: r.rname ++ 124 :: r.method ++ 124 :: r.query ++ 124 :: r.cid ++ 124 ::
  (if r.isHTTP then [84] else [70]) ++ 124 :: (r.rawParams.getD [45]) ++ 124 :: (r.token.getD [45]) ++ 124 ::
  (obj.joinWith 44 (r.params.map fun (k, v) => k ++ 61 :: v)) ++
  -- `ParseQuery()` is the standard library's parse of that same query (`url.ParseQuery`, errors
  -- ignored, the well-formed pairs kept); the harness compares the two and reports T/F
  -- likewise header, host, remote address and URI: what the handler sees is what was sent
  b!"|pq=T|md=T"

/-- `processRequest` + `executeHandler`: all observable effects of one request -/
def process (cfg : HCfg) (r : ReqIn) (script : List Action) : List Eff :=
  if !r.found then [.pub replySubj (respError codeNotFound (b!"Not found") none)]
  else if r.payload = .bad then [.pub replySubj (respError codeInternal goErr none)]
  else
    -- an empty payload leaves every request field at its zero value
    let r := if r.payload = .empty then { r with cid := [], isHTTP := false, rawParams := none, token := none, query := [] } else r
    match pick cfg r with
    | .noReplyAtAll => []
    | .none => []
    | .reply p => [.pub replySubj p]
    | .invoke kind =>
      let s0 : St := { effs := [.seen (encSeen kind r)] }
      match runScript cfg r s0 script with
      | .cont s => if s.replied then s.effs else s.effs ++ [.pub replySubj missingResponse]
      | .panic s p => (recoverArm s p).effs

end GoRes.Req

namespace GoRes.Req
open GoRes

/-- `handleRequest`: split `<type>.<resource>[.<method>]`; `none` = dropped without response -/
def splitSubject (subj : Str) : Option (Str × Str × Str) :=
  let rtype := subj.takeWhile (· ≠ 46)
  if rtype.length = subj.length then none
  else
    let rname := subj.drop (rtype.length + 1)
    if rtype = b!"call" ∨ rtype = b!"auth" then
      -- strings.LastIndexByte(rname, '.')
      let rev := rname.reverse
      let m := rev.takeWhile (· ≠ 46)
      if m.length = rname.length then none
      else some (rtype, (rev.drop (m.length + 1)).reverse, m.reverse)
    else some (rtype, rname, [])

def rtypeOf (t : Str) : Option RType :=
  if t = b!"access" then some .access else if t = b!"get" then some .get
  else if t = b!"call" then some .call else if t = b!"auth" then some .auth else none

end GoRes.Req

namespace GoRes.Req
open GoRes

/-! ## specification-side vocabulary (used by the property theorems and by the driver's judges) -/

/-- a pre-response: `timeout:"<ms>"` -/
def isPre (p : Str) : Bool := (b!"timeout:").isPrefixOf p

/-- the (non-pre-)responses published on the request's reply subject -/
def responses (log : List Eff) : List Str :=
  log.filterMap fun e => match e with
    | .pub s p => if s = replySubj ∧ !isPre p then some p else none
    | _ => none

/-- all effects of a state are kept by later steps -/
def stepSt : Step → St
  | .cont s => s
  | .panic s _ => s

/-- the only request that may stay unanswered -/
def Unanswered (cfg : HCfg) (r : ReqIn) : Prop :=
  r.rtype = .access ∧ r.found = true ∧ r.payload ≠ .bad ∧ cfg.hasAccess = false

/-- is an action a responder (it answers the request when nothing was answered before)? -/
def Action.isResponder : Action → Bool
  | .ok _ | .resource _ | .error _ | .notFound | .methodNotFound | .invalidParams _ | .invalidQuery _
  | .access _ _ | .accessDenied | .accessGranted | .model _ _ | .collection _ _ | .new _ => true
  | _ => false

end GoRes.Req
