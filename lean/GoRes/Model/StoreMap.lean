import GoRes.Model.Basic
import GoRes.Model.Index
/-! Executable model of the store operations (`store/badgerstore/store.go`,
`store/mockstore/store.go`): `Create`, `Update`, `Delete`, `Value`, `Exists` inside a
transaction on one id, with the type check, the existence check, the `BeforeChange` veto,
the write and the `OnChange` callbacks; `Init`; and the crash model used by C12
(a BadgerDB `Update` is one atomic, durable write set — trusted). -/
namespace GoRes.StoreMap
open GoRes GoRes.Index

inductive Err | duplicate | notFound | wrongType | veto | noId
deriving Repr, DecidableEq

/-- a change callback: id, value before, value after -/
structure Cb (V : Type) where
  id : Bytes
  before : Option V
  after : Option V
deriving Repr

structure St (V : Type) where
  vals : List (Bytes × V) := []
  veto : Bool := false
  generatesIds : Bool := false

inductive Op (V : Type)
  | create (v : V) (typeOk : Bool)
  | update (v : V) (typeOk : Bool)
  | delete
  | value
  | exists_

inductive Res (V : Type)
  | ok
  | err (e : Err)
  | val (v : V)
  | bool (b : Bool)

/-- one operation of a transaction on `id`: result, callbacks run (on the caller's goroutine,
after the write), new state -/
def exec {V} (s : St V) (id : Bytes) : Op V → Res V × List (Cb V) × St V
  | .create v typeOk =>
    if id.isEmpty ∧ !s.generatesIds then (.err .noId, [], s)
    else if !typeOk then (.err .wrongType, [], s)
    else match vget s.vals id with
      | some _ => (.err .duplicate, [], s)
      | none => if s.veto then (.err .veto, [], s)
        else (.ok, [⟨id, none, some v⟩], { s with vals := vset s.vals id v })
  | .update v typeOk =>
    if !typeOk then (.err .wrongType, [], s)
    else match vget s.vals id with
      | none => (.err .notFound, [], s)
      | some b => if s.veto then (.err .veto, [], s)
        else (.ok, [⟨id, some b, some v⟩], { s with vals := vset s.vals id v })
  | .delete =>
    match vget s.vals id with
    | none => (.err .notFound, [], s)
    | some b => if s.veto then (.err .veto, [], s)
      else (.ok, [⟨id, some b, none⟩], { s with vals := vdel s.vals id })
  | .value => (match vget s.vals id with | some v => .val v | none => .err .notFound, [], s)
  | .exists_ => (.bool (vget s.vals id).isSome, [], s)

/-- a history of operations `(id, op)`: all callbacks in order and the final state -/
def run {V} : St V → List (Bytes × Op V) → List (Cb V) × St V
  | s, [] => ([], s)
  | s, (id, op) :: rest =>
    let (_, cbs, s') := exec s id op
    let (cbs', s'') := run s' rest
    (cbs ++ cbs', s'')

/-! ## Init and crashes (C12) -/

/-- the committed database: values plus the init marker -/
structure Disk (V : Type) where
  vals : List (Bytes × V) := []
  marker : Bool := false

/-- `Store.Init`: one transaction — nothing if the marker is set; otherwise the seeds that do
not exist yet, and the marker -/
def initOnce {V} (seeds : List (Bytes × V)) (d : Disk V) : Disk V :=
  if d.marker then d
  else { vals := seeds.foldl (fun vs (id, v) => if (vget vs id).isSome then vs else vset vs id v) d.vals, marker := true }

/-- a step of a workload: a committed transaction (mutation or Init) -/
inductive Txn (V : Type)
  | put (id : Bytes) (v : Option V)
  | init (seeds : List (Bytes × V))

def commit {V} (d : Disk V) : Txn V → Disk V
  | .put id v => { d with vals := vput d.vals id v }
  | .init seeds => initOnce seeds d

/-- a crash keeps exactly the committed transactions: a workload cut after `n` commits
(the transaction in flight is either one of them or absent) -/
def recovered {V} (d : Disk V) (w : List (Txn V)) (n : Nat) : Disk V := (w.take n).foldl commit d

end GoRes.StoreMap
