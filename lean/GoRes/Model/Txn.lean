/-! # BadgerDB update transactions as go-res uses them (C12: `Store.Init`)

A small model of the optimistic, snapshot-isolated transactions of BadgerDB v1.6 (`db.Update`):
a transaction reads the database as of its start, records every key it reads, buffers its writes,
and its commit fails with a conflict when a key it has read was committed by somebody else after it
started.  `Store.Init` (store/badgerstore/store.go) is one such transaction: it reads the init
marker, reads every seed id and writes only the ones that are missing, then writes the marker.

What the theorems (`Lemmas/Txn.lean`, `Props/C12.lean`) say: whatever other writers commit while
Init's transaction is open, a *successful* Init has overwritten nothing they wrote and is
indistinguishable from an Init that ran alone at its commit point; a failed one changes nothing.
That rests on Init reading every key it writes *through the transaction* — the executable variant
`initProgBlind` (existence looked up outside the transaction) is shown to lose an acknowledged
write.  Trusted: that BadgerDB implements this contract. -/
namespace GoRes.Txn

abbrev Key := List Nat

/-- all committed versions, newest first: (key, commit timestamp, value or tombstone) -/
structure DB (V : Type) where
  clock : Nat := 0
  vers : List (Key × Nat × Option V) := []
deriving Repr

variable {V : Type}

/-- the value of `k` as of timestamp `ts` -/
def DB.getAt (db : DB V) (ts : Nat) (k : Key) : Option V :=
  match db.vers.find? (fun e => e.1 == k && e.2.1 ≤ ts) with
  | some e => e.2.2
  | none => none

/-- the current value -/
def DB.get (db : DB V) (k : Key) : Option V := db.getAt db.clock k

/-- commit timestamp of the latest write to `k` (0: never written) -/
def DB.lastTs (db : DB V) (k : Key) : Nat :=
  match db.vers.find? (fun e => e.1 == k) with
  | some e => e.2.1
  | none => 0

/-- a single committed write by somebody else (a store `Create`/`Update`/`Delete` that returned nil) -/
def DB.put (db : DB V) (k : Key) (v : Option V) : DB V :=
  { clock := db.clock + 1, vers := (k, db.clock + 1, v) :: db.vers }

def DB.putAll (db : DB V) : List (Key × Option V) → DB V
  | [] => db
  | (k, v) :: r => (db.put k v).putAll r

structure T (V : Type) where
  start : Nat
  reads : List Key := []
  writes : List (Key × Option V) := []     -- newest first
deriving Repr

def begin (db : DB V) : T V := { start := db.clock }

/-- `txn.Get`: own writes first, else the snapshot; the key joins the read set -/
def T.get (db : DB V) (t : T V) (k : Key) : T V × Option V :=
  let v := match t.writes.find? (fun e => e.1 == k) with
    | some e => e.2
    | none => db.getAt t.start k
  ({ t with reads := k :: t.reads }, v)

def T.set (t : T V) (k : Key) (v : Option V) : T V := { t with writes := (k, v) :: t.writes }

/-- commit against the database as it is *now*: conflict when a key of the read set was committed
after the transaction started -/
def commit (now : DB V) (t : T V) : Option (DB V) :=
  if t.reads.any (fun k => now.lastTs k > t.start) then none
  else some { clock := now.clock + 1,
              vers := t.writes.map (fun e => (e.1, now.clock + 1, e.2)) ++ now.vers }

/-! ## `Store.Init` -/

/-- the seeding loop: `txn.Get(rname)`; skip what exists; `setValue` otherwise -/
def seedLoop (db : DB V) : T V → List (Key × V) → T V × List (Key × V)
  | t, [] => (t, [])
  | t, (k, v) :: r =>
    let (t, e) := t.get db k
    match e with
    | some _ => seedLoop db t r
    | none =>
      let (t', cr) := seedLoop db (t.set k (some v)) r
      (t', (k, v) :: cr)

/-- Init's transaction body run against the snapshot `db` (the database when it began).
`none`: the marker is set, Init returns without writing.  Otherwise the transaction to commit and
the seeds it created (their listeners are told after a successful commit). -/
def initProg (db : DB V) (marker : Key) (mark : V) (seeds : List (Key × V)) : Option (T V × List (Key × V)) :=
  let (t, m) := (begin db).get db marker
  match m with
  | some _ => none
  | none =>
    let (t, created) := seedLoop db t seeds
    some (t.set marker (some mark), created)

/-- the whole of Init with other writers committing `others` while its transaction is open:
(database afterwards, did Init succeed, seeds whose listeners run) -/
def initRun (db : DB V) (marker : Key) (mark : V) (seeds : List (Key × V)) (others : List (Key × Option V)) :
    DB V × Bool × List (Key × V) :=
  let now := db.putAll others
  match initProg db marker mark seeds with
  | none => (now, true, [])
  | some (t, created) =>
    match commit now t with
    | some db' => (db', true, created)
    | none => (now, false, [])

/-- Init alone (nobody else writes while it runs) — the sequential reading of the property -/
def initAlone (db : DB V) (marker : Key) (mark : V) (seeds : List (Key × V)) : DB V × Bool × List (Key × V) :=
  initRun db marker mark seeds []

/-! ## the variant that looks ids up outside the transaction (what a refactoring to `st.Get` does) -/

def seedLoopBlind (db : DB V) : T V → List (Key × V) → T V × List (Key × V)
  | t, [] => (t, [])
  | t, (k, v) :: r =>
    match db.getAt t.start k with      -- a separate read-only view: not in the read set
    | some _ => seedLoopBlind db t r
    | none =>
      let (t', cr) := seedLoopBlind db (t.set k (some v)) r
      (t', (k, v) :: cr)

def initRunBlind (db : DB V) (marker : Key) (mark : V) (seeds : List (Key × V)) (others : List (Key × Option V)) :
    DB V × Bool × List (Key × V) :=
  let now := db.putAll others
  let (t, m) := (begin db).get db marker
  match m with
  | some _ => (now, true, [])
  | none =>
    let (t, created) := seedLoopBlind db t seeds
    match commit now (t.set marker (some mark)) with
    | some db' => (db', true, created)
    | none => (now, false, [])

end GoRes.Txn
