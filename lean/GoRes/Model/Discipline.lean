import GoRes.Generated.Access
/-! # Access discipline of the shared state of package res (C16; premise of the pool model, C01–C03)

`Generated/Access.lean` is rewritten from /repo's source on every run: every read and write of a
field of `Service`, `work` and `queryEvent`, with the enclosing function, whether the service mutex
is held there (a syntactic dataflow over the function body; a function all of whose call sites hold
the mutex is analysed as entered with it held) and whether the access goes through `sync/atomic`.

This file holds the hand-written part: one `Policy` per field — the synchronisation rule that makes
conflicting accesses to that field ordered — and the decidable check of an access against it.
The theorems (`Props/C16.lean`, `Props/C01.lean`) say that every access in the current source obeys
the policy of its field.  Why each policy excludes races:

* `atomicOnly` — every access is a `sync/atomic` operation.
* `guarded ex` — every plain access is made with `Service.mu` held, except reads in the functions
  `ex`, each of which is justified where the table lists it.
* `setup ws` — plain writes only in the functions `ws`, which run before the value is shared
  (setters documented as "before Serve"; construction; `serve` before it starts the workers and
  publishes `stateStarted`).  Reads are unrestricted.
* `lifecycle fs` — accessed only by the functions `fs` of the start/stop state machine, which the
  CAS on `Service.state` orders totally (see `serveOrderOk`, `shutdownOrderOk`). -/
namespace GoRes.Discipline

inductive Policy where
  | atomicOnly
  | guarded (unlockedReads : List String)
  | setup (writers : List String)
  | lifecycle (fns : List String)
  deriving Repr, DecidableEq

/-- (struct, field, function, kind, mutex state) as generated -/
abbrev Acc := String × String × String × String × String

def Acc.strct (a : Acc) := a.1
def Acc.field (a : Acc) := a.2.1
def Acc.fn (a : Acc) := a.2.2.1
def Acc.kind (a : Acc) := a.2.2.2.1
def Acc.lock (a : Acc) := a.2.2.2.2

/-- does an access obey a policy? -/
def obeys (p : Policy) (a : Acc) : Bool :=
  match p with
  | .atomicOnly => a.kind == "ar" || a.kind == "aw"
  | .guarded ex =>
      (a.kind == "r" || a.kind == "w") &&
      (a.lock == "L" || (a.kind == "r" && ex.contains a.fn))
  | .setup ws => a.kind == "r" || (a.kind == "w" && ws.contains a.fn)
  | .lifecycle fs => (a.kind == "r" || a.kind == "w") && fs.contains a.fn

/-- The policy of every field of the three structs (fields of `sync` types — `mu`, `wg`,
`workcond` — synchronise themselves and are not in the access table). -/
def policy : List ((String × String) × Policy) := [
  -- Service: the start/stop state machine
  (("Service", "state"), .atomicOnly),
  -- the connection: written under the mutex by serve and Shutdown, read through conn().
  -- `close` reads it without the mutex: it runs only inside Shutdown, after Shutdown's CAS
  -- (which follows serve's write) and before Shutdown's own write.
  (("Service", "nc"), .guarded ["Service.close"]),
  (("Service", "inCh"), .lifecycle ["Service.serve", "Service.Shutdown", "Service.close"]),
  -- the queue state of the worker pool: one mutex, no exception (this is the premise
  -- "one action of the pool model = one critical section")
  (("Service", "rwork"), .guarded []),
  (("Service", "workqueue"), .guarded []),
  (("Service", "workbuf"), .guarded []),
  -- written by serve before the workers are started, read from callbacks
  (("Service", "queryTQ"), .setup ["Service.serve"]),
  -- configuration: setters are documented as (and mostly enforce) "before Serve"
  (("Service", "Mux"), .setup []),
  (("Service", "logger"), .setup ["Service.SetLogger"]),
  (("Service", "queueGroup"), .setup ["Service.SetQueueGroup"]),
  (("Service", "queryDuration"), .setup ["Service.SetQueryEventDuration"]),
  (("Service", "workerCount"), .setup ["Service.SetWorkerCount"]),
  (("Service", "inChannelSize"), .setup ["Service.SetInChannelSize"]),
  (("Service", "onServe"), .setup ["Service.SetOnServe"]),
  (("Service", "onDisconnect"), .setup ["Service.SetOnDisconnect"]),
  (("Service", "onReconnect"), .setup ["Service.SetOnReconnect"]),
  (("Service", "onError"), .setup ["Service.SetOnError"]),
  -- ownership lists: set before Serve; defaults filled in lazily by setDefaultOwnership
  -- (residual, see DESIGN.md: a ResetAll issued from another goroutine while Serve is still
  -- subscribing is not ordered with that lazy write)
  (("Service", "resetResources"), .setup ["Service.SetOwnedResources", "Service.setDefaultOwnership", "Service.serve"]),
  (("Service", "resetAccess"), .setup ["Service.SetOwnedResources", "Service.setDefaultOwnership", "Service.serve"]),
  (("Service", "defaultRes"), .setup ["Service.SetOwnedResources", "Service.setDefaultOwnership", "Service.serve"]),
  (("Service", "defaultAccess"), .setup ["Service.SetOwnedResources", "Service.setDefaultOwnership", "Service.serve"]),
  -- work: the callback queue is guarded; the rest is set at construction (composite literal)
  (("work", "queue"), .guarded []),
  (("work", "s"), .setup []),
  (("work", "wid"), .setup []),
  (("work", "single"), .setup []),
  -- queryEvent: the expiry flag is atomic; the rest is set at construction
  (("queryEvent", "expired"), .atomicOnly),
  (("queryEvent", "r"), .setup []),
  (("queryEvent", "sub"), .setup []),
  (("queryEvent", "ch"), .setup []),
  (("queryEvent", "cb"), .setup []),
  (("queryEvent", "done"), .setup [])
]

/-- The other packages C16 names.  `MemLogger` guards its buffer (and the `log.Logger` writing into
it) with its own mutex; everything else is configuration written only by its setter (documented as
set-up, before the value is shared) or at construction. -/
def extPolicy : List ((String × String) × Policy) := [
  (("logger.MemLogger", "b"), .guarded []),
  (("logger.MemLogger", "log"), .guarded ["MemLogger.SetFlags"]),   -- SetFlags: set-up; log.Logger locks itself
  (("logger.MemLogger", "logInfo"), .setup ["MemLogger.SetInfo"]),
  (("logger.MemLogger", "logErr"), .setup ["MemLogger.SetErr"]),
  (("logger.MemLogger", "logTrace"), .setup ["MemLogger.SetTrace"]),
  (("logger.StdLogger", "log"), .setup []),
  (("logger.StdLogger", "logInfo"), .setup ["StdLogger.SetInfo"]),
  (("logger.StdLogger", "logErr"), .setup ["StdLogger.SetErr"]),
  (("logger.StdLogger", "logTrace"), .setup ["StdLogger.SetTrace"]),
  (("badgerstore.Store", "DB"), .setup []),
  (("badgerstore.Store", "typ"), .setup ["Store.SetType"]),
  (("badgerstore.Store", "t"), .setup ["Store.SetType"]),
  (("badgerstore.Store", "useMarshal"), .setup ["Store.SetType"]),
  (("badgerstore.Store", "kl"), .setup []),
  (("badgerstore.Store", "prefix"), .setup ["Store.SetPrefix"]),
  (("badgerstore.Store", "beforeChange"), .setup ["Store.BeforeChange"]),
  (("badgerstore.Store", "onChange"), .setup ["Store.OnChange"]),
  (("badgerstore.QueryStore", "st"), .setup []),
  (("badgerstore.QueryStore", "tq"), .setup []),
  (("badgerstore.QueryStore", "iq"), .setup []),
  (("badgerstore.QueryStore", "log"), .setup ["QueryStore.SetLogger"]),
  (("badgerstore.QueryStore", "idxs"), .setup ["QueryStore.AddIndex"]),
  (("badgerstore.QueryStore", "onQueryChange"), .setup ["QueryStore.OnQueryChange"]),
  -- an index query is the caller's value: the index-query callback may hand the same one to
  -- concurrent `QueryStore.Query` calls, so the library only ever reads it
  (("badgerstore.IndexQuery", "Index"), .setup []),
  (("badgerstore.IndexQuery", "KeyPrefix"), .setup []),
  (("badgerstore.IndexQuery", "FilterKeys"), .setup []),
  (("badgerstore.IndexQuery", "Offset"), .setup []),
  (("badgerstore.IndexQuery", "Limit"), .setup []),
  (("badgerstore.IndexQuery", "Reverse"), .setup []),
  (("badgerstore.Index", "Name"), .setup []),
  (("badgerstore.Index", "Key"), .setup [])
]

def policyOf (s f : String) : Option Policy := (policy ++ extPolicy).lookup (s, f)

def accOk (a : Acc) : Bool :=
  match policyOf a.strct a.field with
  | some p => obeys p a
  | none => false

/-- fields of sync types need no policy -/
def syncFields : List (String × String) := [("Service", "mu"), ("Service", "wg"), ("Service", "workcond")]

def fieldClassified (s f : String) : Bool :=
  (policyOf s f).isSome || syncFields.contains (s, f)

/-- the queue state the pool model (`Model/Pool.lean`) is about -/
def poolFields : List (String × String) :=
  [("Service", "rwork"), ("Service", "workqueue"), ("Service", "workbuf"), ("work", "queue")]

/-! ## source order inside the lifecycle functions -/

/-- no item satisfying `p` occurs at or after the first occurrence of `marker`, which occurs -/
def noneFrom (xs : List String) (marker : String) (p : String → Bool) : Bool :=
  xs.contains marker && ((xs.dropWhile (· != marker)).drop 1).all (fun x => !p x)

/-- every item satisfying `p` occurs after the first occurrence of `marker`, which occurs -/
def noneBefore (xs : List String) (marker : String) (p : String → Bool) : Bool :=
  xs.contains marker && (xs.takeWhile (· != marker)).all (fun x => !p x)

def isPlainWrite (x : String) : Bool := x.startsWith "w:"
def sharedRuntime : List String := ["nc", "inCh", "rwork", "workqueue", "workbuf", "queryTQ"]
def touchesShared (x : String) : Bool :=
  sharedRuntime.any (fun f => x == "w:" ++ f || x == "r:" ++ f)

/-- `serve`: everything the workers and callbacks will read is written before the first worker is
started, the workers are started before `stateStarted` is published, and after that `serve` itself
no longer touches the shared run-time fields (a concurrent `Shutdown` may be clearing them).  The
only other value `serve` may publish is `stateStopped`, on a return before anything was started
(source order lists the branches one after the other). -/
def serveOrderOk (xs : List String) : Bool :=
  noneFrom xs "go:Service.startWorker" isPlainWrite &&
  noneFrom xs "aw:state=stateStarted" touchesShared &&
  noneBefore xs "go:Service.startWorker" (· == "aw:state=stateStarted") &&
  noneBefore xs "aw:state=stateStarted" (· == "call:Service.subscribe") &&
  noneFrom xs "go:Service.startWorker" (· == "aw:state=stateStopped") &&
  xs.all (fun x => !x.startsWith "aw:state" || x == "aw:state=stateStarted" || x == "aw:state=stateStopped")

/-- `subscribe` runs after `stateStarted` has been published: it must not read the fields that a
concurrent `Shutdown` clears. -/
def subscribeOrderOk (xs : List String) : Bool := xs.all (fun x => !touchesShared x)

/-- `Shutdown`: the CAS comes first, `stateStopped` is published last. -/
def shutdownOrderOk (xs : List String) : Bool :=
  xs.head? == some "aw:state=stateStopping" &&
  (xs.reverse.dropWhile (fun x => x.startsWith "call:")).head? == some "aw:state=stateStopped" &&
  noneBefore xs "call:Service.close" touchesShared

/-! ## what the policies buy: a minimal happens-before reading

An execution is a list of memory events in an order consistent with program order and with the one
mutex.  Each event names its goroutine, the location, whether it writes, whether it is a
`sync/atomic` operation, and — when the mutex is held — the number of the critical section it lies
in (sections are numbered in the order the mutex was acquired).  Happens-before: program order,
and "an earlier critical section's unlock before a later one's lock". -/

structure Ev where
  thread : Nat
  loc : Nat
  write : Bool
  atomic : Bool
  cs : Option Nat
deriving Repr, DecidableEq

/-- the events respect the mutex: section numbers never decrease along the execution, and one section
belongs to one goroutine -/
def MutexOrdered (tr : List Ev) : Prop :=
  ∀ (i j : Nat) (ei ej : Ev), i < j → tr[i]? = some ei → tr[j]? = some ej →
    ∀ (a b : Nat), ei.cs = some a → ej.cs = some b → a ≤ b ∧ (a = b → ei.thread = ej.thread)

/-- event `i` happens before event `j` (one step of the relation is enough for the theorem) -/
def HB (tr : List Ev) (i j : Nat) : Prop :=
  ∃ (ei ej : Ev), i < j ∧ tr[i]? = some ei ∧ tr[j]? = some ej ∧
    (ei.thread = ej.thread ∨ ∃ a b, ei.cs = some a ∧ ej.cs = some b ∧ a < b)

/-- a data race on `x`: two accesses by different goroutines, at least one a write, not both atomic,
neither ordered before the other -/
def Race (tr : List Ev) (x : Nat) : Prop :=
  ∃ (i j : Nat) (ei ej : Ev), i < j ∧ tr[i]? = some ei ∧ tr[j]? = some ej ∧ ei.loc = x ∧ ej.loc = x ∧
    (ei.write = true ∨ ej.write = true) ∧ ¬ (ei.atomic = true ∧ ej.atomic = true) ∧
    ei.thread ≠ ej.thread ∧ ¬ HB tr i j

/-- the `guarded` policy: every access to `x` lies in a critical section -/
def Guarded (tr : List Ev) (x : Nat) : Prop := ∀ e ∈ tr, e.loc = x → e.cs.isSome

/-- the `atomicOnly` policy -/
def AtomicOnly (tr : List Ev) (x : Nat) : Prop := ∀ e ∈ tr, e.loc = x → e.atomic = true

end GoRes.Discipline
