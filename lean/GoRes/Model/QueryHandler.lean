import GoRes.Model.Basic
import GoRes.Model.Index
/-! Executable model of `store/querystorehandler.go` (C14, last sentence): what a client that
holds the result of a query is told when the query store reports a change, for ordinary
resources (`changeHandler`/`resourceEvent`) and query resources (`queryChangeHandler`/
`queryEvent`), with the two stock transformers of `store/transformer.go`.

The query store's answer to `QueryChange.Events(q)` is a parameter (`Answer`): BadgerDB's
`queryChange.Events` returns no events and `reset = affectsQuery q` (`Model/Index.lean`);
other stores may return result events. -/
namespace GoRes.QueryHandler
open GoRes GoRes.Index

/-- `store.ResultEvent` for a result that is a list of ids (`Value` is set for both kinds) -/
inductive REv
  | add (id : Bytes) (idx : Nat)
  | remove (id : Bytes) (idx : Nat)
deriving Repr, DecidableEq

/-- what `QueryChange.Events(q)` returns: `(events, reset)` -/
structure Answer where
  events : List REv
  reset : Bool
deriving Repr, DecidableEq

inductive Trans | none | coll | model
deriving Repr, DecidableEq

/-- what a client holds for a resource: a collection of values, or a model (sorted by key) -/
inductive Content
  | coll (l : List Bytes)
  | model (m : List (Bytes × Bytes))
deriving Repr, DecidableEq

/-- an event as the client sees it -/
inductive CEv
  | add (v : Bytes) (idx : Nat)
  | remove (idx : Nat)
  | change (props : List (Bytes × Option Bytes))    -- `none` = delete action
deriving Repr, DecidableEq

/-- the external id a transformer gives an id (`t(id)`), kept abstract as a function -/
abbrev RidOf := Bytes → Bytes

/-- values are rendered with a leading marker for references (`@rid`) -/
def ref (t : RidOf) (id : Bytes) : Bytes := 64 :: t id

def minsert (k v : Bytes) : List (Bytes × Bytes) → List (Bytes × Bytes)
  | [] => [(k, v)]
  | (k', v') :: r => if k = k' then (k, v) :: r else if blt k k' then (k, v) :: (k', v') :: r else (k', v') :: minsert k v r

def mdelete (k : Bytes) (m : List (Bytes × Bytes)) : List (Bytes × Bytes) := m.filter (·.1 != k)

/-- `TransformResult` (nil transformer: the ids as they are) -/
def transformResult (tr : Trans) (t : RidOf) (ids : List Bytes) : Content :=
  match tr with
  | .none => .coll ids
  | .coll => .coll (ids.map (ref t))
  | .model => .model (ids.foldl (fun m id => minsert id (ref t id) m) [])

/-- `TransformEvents`; the model transformer folds everything into one change event, later
entries for the same id overwriting earlier ones (a Go map) -/
def transformEvents (tr : Trans) (t : RidOf) (evs : List REv) : List CEv :=
  match tr with
  | .none => evs.map fun | .add id i => .add id i | .remove _ i => .remove i
  | .coll => evs.map fun | .add id i => .add (ref t id) i | .remove _ i => .remove i
  | .model =>
    if evs.isEmpty then [] else
    let ch : List (Bytes × Option Bytes) := evs.foldl (fun m e =>
      match e with
      | .add id _ => (m.filter (·.1 != id)) ++ [(id, some (ref t id))]
      | .remove id _ => (m.filter (·.1 != id)) ++ [(id, none)]) []
    [.change ch]

/-- what the client is told about one held query -/
inductive Told
  | nothing                        -- nothing is published for the resource
  | resetRefetch (fresh : Content) -- a system reset names the resource: the client fetches it again
  | events (evs : List CEv)        -- events published on the resource
  | queryResult (fresh : Content)  -- query event; the query request is answered with a new result
  | queryEvents (evs : List CEv)   -- query event; the query request is answered with events
deriving Repr, DecidableEq

/-- `resourceEvent`: an ordinary resource named by the change (`fresh` = what a get serves now) -/
def resourceEvent (tr : Trans) (t : RidOf) (a : Answer) (fresh : Content) : Told :=
  if a.reset then .resetRefetch fresh
  else if a.events.isEmpty then .nothing
  else .events (transformEvents tr t a.events)

/-- `queryEvent`: the callback's answer to the query request of a client holding query `q` -/
def queryRequest (tr : Trans) (t : RidOf) (a : Answer) (fresh : Content) : Told :=
  if a.reset then .queryResult fresh
  else .queryEvents (transformEvents tr t a.events)      -- no events: `{"events":[]}`

/-! ## the client -/

def applyCEv (c : Content) : CEv → Content
  | .add v i => (match c with | .coll l => .coll (l.insertIdx i v) | m => m)
  | .remove i => (match c with | .coll l => .coll (l.eraseIdx i) | m => m)
  | .change props => (match c with
    | .model m => .model (props.foldl (fun m (k, v) => match v with | some x => minsert k x m | none => mdelete k m) m)
    | l => l)

def clientApply (held : Content) : Told → Content
  | .nothing => held
  | .resetRefetch fresh => fresh
  | .queryResult fresh => fresh
  | .events evs => evs.foldl applyCEv held
  | .queryEvents evs => evs.foldl applyCEv held

/-! ## the query store's contract -/

def applyREv (ids : List Bytes) : REv → List Bytes
  | .add id i => ids.insertIdx i id
  | .remove _ i => ids.eraseIdx i

/-- the events are well-formed for the result they apply to: indexes in range, a remove names
the id at its index, and an added id is not in the list (results hold an id once) -/
def wfEvents : List Bytes → List REv → Bool
  | _, [] => true
  | ids, .add id i :: r => decide (i ≤ ids.length) && !ids.contains id && wfEvents (ids.insertIdx i id) r
  | ids, .remove id i :: r => (ids[i]? == some id) && wfEvents (ids.eraseIdx i) r

/-- `Events` is sound for a change of the query's result from `old` to `new`: it asks for a
reset, or its events turn `old` into `new` -/
def soundAnswer (a : Answer) (old new : List Bytes) : Prop :=
  a.reset = true ∨ (wfEvents old a.events = true ∧ a.events.foldl applyREv old = new)

/-- BadgerDB's `queryChange.Events`: no events, `reset` = the query is affected -/
def badgerAnswer {V} (ix : Idx V) (pre : Bytes) (filter : Option (Bytes → Bool)) (before after : Option V) : Answer :=
  ⟨[], affectsQuery ix pre filter before after⟩

/-! ## a query store that answers with events (the harness's `diffqs`, for the event paths) -/

/-- events turning `old` into `new` when the two differ by the fate of `id` and by window
effects only (all other ids keep their relative order): remove `id`, remove what left the
window, then add what entered it, at its final index -/
def diffEvents (id : Bytes) (old new : List Bytes) : List REv :=
  if old = new then [] else
  let rec removes (cur : List Bytes) (i : Nat) (fuel : Nat) : List REv × List Bytes :=
    match fuel with
    | 0 => ([], cur)
    | fuel + 1 =>
      if h : i < cur.length then
        let x := cur[i]
        if x = id ∨ !new.contains x then
          let (evs, rest) := removes (cur.eraseIdx i) i fuel
          (.remove x i :: evs, rest)
        else removes cur (i + 1) fuel
      else ([], cur)
  let (rem, mid) := removes old 0 (2 * old.length + 1)
  let rec adds (cur : List Bytes) (i : Nat) (todo : List Bytes) : List REv :=
    match todo with
    | [] => []
    | x :: r => if cur[i]? = some x then adds cur (i + 1) r else .add x i :: adds (cur.insertIdx i x) (i + 1) r
  rem ++ adds mid 0 new

end GoRes.QueryHandler
