/-! Executable model of the worker pool (`service.go` `runWith`, `serve`, `Shutdown`,
`close`; `worker.go` `startWorker`, `processQueue`) as a transition system.

One action = one critical section of the service mutex (or one atomic step outside it), so
the interleavings of the model are the interleavings of the Go code at the granularity the
mutex allows.  Worker count, number of submitters, groups and steps are unbounded.

* `wid = 0` is the empty worker ID (resources registered as Parallel): never registered in
  `rwork`.
* `cb` are callback identities (unique per submission); `pending` of a work item are the
  callbacks appended but not yet started.
* history variables `accepted`, `started`, `finished` record what happened, in order. -/
namespace GoRes.Pool

structure Work where
  wid : Nat
  pending : List Nat
deriving Repr, DecidableEq, Inhabited

inductive WState
  | idle                           -- goroutine created, has not taken the lock yet
  | waiting (signalled : Bool)     -- in `workcond.Wait()`
  | running (w : Work) (cb : Nat)  -- executing callback `cb` of work `w` (mutex released)
  | exited
deriving Repr, DecidableEq, Inhabited

/-- a `runWith` call between its steps -/
structure Sub where
  tid : Nat
  wid : Nat
  cb : Nat
  needSignal : Bool     -- false: passed the state check, not yet locked; true: enqueued new work, owes `Signal`
deriving Repr, DecidableEq, Inhabited

inductive Phase | stopped | started | stopping
deriving Repr, DecidableEq, Inhabited

structure St where
  phase : Phase := .stopped
  epoch : Nat := 0                   -- number of `serve`s so far
  wq : Option (List Work) := none    -- `workqueue` (`none` = nil)
  rwork : List Nat := []             -- keys of `rwork`
  workers : List WState := []
  inflight : List Sub := []
  waitOrder : List Nat := []         -- workers in `Wait`, oldest first (sync.Cond is FIFO)
  accepted : List (Nat × Nat) := []  -- (wid, cb) in the order they were enqueued
  started : List (Nat × Nat) := []   -- (wid, cb) in the order they started
  finished : List Nat := []
deriving Repr, Inhabited

inductive Act
  | serve (n : Nat)
  | subCheck (tid wid cb : Nat) (pass : Bool)   -- the atomic state load of `runWith`
  | subLock (tid : Nat)                          -- the locked section of `runWith`
  | subSignal (tid : Nat)                        -- `workcond.Signal()`
  | wStart (i : Nat)                             -- worker takes the lock for the first time
  | wWake (i : Nat)                              -- worker returns from `Wait`
  | wSpurious (i : Nat)                          -- over-approximation: `Wait` returns unsignalled
  | wDone (i : Nat)                              -- callback returned, worker re-locks
  | shutdownCas                                  -- `Shutdown`: CAS started → stopping
  | closeLock                                    -- `close`: `workqueue = nil` under the lock
  | closeBroadcast                               -- `close`: `workcond.Broadcast()`
  | shutdownDone                                 -- `wg.Wait()` returned; state := stopped
deriving Repr, DecidableEq

def retire (wid : Nat) (rw : List Nat) : List Nat :=
  if wid = 0 then rw else rw.erase wid

/-- the worker holding the lock at the top of the outer loop with a non-nil queue: pop work
items until one has a callback (an item always has one when popped, but the code loops) -/
def takeNext : List Work → List Nat → (Option (Work × Nat) × List Work × List Nat)
  | [], rw => (none, [], rw)
  | w :: rest, rw =>
    match w.pending with
    | f :: fs => (some ({ w with pending := fs }, f), rest, rw)
    | [] => takeNext rest (retire w.wid rw)

/-- `for s.workqueue != nil { for len == 0 { Wait … } … }` from the top, lock held -/
def loopTop (wq : Option (List Work)) (rw : List Nat) : WState × Option (List Work) × List Nat :=
  match wq with
  | none => (.exited, none, rw)
  | some q =>
    match takeNext q rw with
    | (some (w, f), q', rw') => (.running w f, some q', rw')
    | (none, q', rw') => (.waiting false, some q', rw')

def appendWork (wid cb : Nat) (w : Work) : Work :=
  if w.wid = wid then { w with pending := w.pending ++ [cb] } else w

def appendWS (wid cb : Nat) : WState → WState
  | .running w c => .running (appendWork wid cb w) c
  | s => s

def startedOf : WState → List (Nat × Nat)
  | .running w c => [(w.wid, c)]
  | _ => []

/-- set worker `i` after a locked section that ended in state `ws` -/
def setWorker (s : St) (i : Nat) (ws : WState) (wq : Option (List Work)) (rw : List Nat) : St :=
  { s with workers := s.workers.set i ws, wq := wq, rwork := rw,
           started := s.started ++ startedOf ws,
           waitOrder := match ws with
             | .waiting _ => (s.waitOrder.erase i) ++ [i]
             | _ => s.waitOrder.erase i }

def step (s : St) : Act → Option St
  | .serve n =>
    if s.phase = .stopped ∧ s.workers.all (· = .exited) then
      some { s with phase := .started, epoch := s.epoch + 1, wq := some [], rwork := [],
                    workers := List.replicate n .idle, waitOrder := [] }
    else none
  | .subCheck tid wid cb pass =>
    if s.inflight.any (·.tid = tid) then none
    else if pass then
      -- the load saw `started` (possibly some time ago: the note is made after the load)
      if s.epoch > 0 then some { s with inflight := s.inflight ++ [⟨tid, wid, cb, false⟩] } else none
    else some s      -- refused: nothing happens
  | .subLock tid =>
    match s.inflight.find? (·.tid = tid) with
    | some ⟨_, wid, cb, false⟩ =>
      let rest := s.inflight.filter (·.tid ≠ tid)
      match s.wq with
      | none => some { s with inflight := rest }     -- closing: refused under the lock
      | some q =>
        if wid ≠ 0 ∧ wid ∈ s.rwork then
          some { s with
            wq := some (q.map (appendWork wid cb)),
            workers := s.workers.map (appendWS wid cb),
            inflight := rest, accepted := s.accepted ++ [(wid, cb)] }
        else
          some { s with
            wq := some (q ++ [⟨wid, [cb]⟩]),
            rwork := if wid = 0 then s.rwork else wid :: s.rwork,
            inflight := rest ++ [⟨tid, wid, cb, true⟩], accepted := s.accepted ++ [(wid, cb)] }
    | _ => none
  | .subSignal tid =>
    match s.inflight.find? (·.tid = tid) with
    | some ⟨_, _, _, true⟩ =>
      let rest := s.inflight.filter (·.tid ≠ tid)
      -- wake the oldest waiter that has not been signalled yet, if any
      match s.waitOrder.find? (fun i => s.workers[i]? = some (.waiting false)) with
      | some i => some { s with inflight := rest, workers := s.workers.set i (.waiting true) }
      | none => some { s with inflight := rest }
    | _ => none
  | .wStart i =>
    match s.workers[i]? with
    | some .idle =>
      let (ws, wq', rw') := loopTop s.wq s.rwork
      some (setWorker s i ws wq' rw')
    | _ => none
  | .wWake i =>
    match s.workers[i]? with
    | some (.waiting true) =>
      let (ws, wq', rw') := loopTop s.wq s.rwork
      some (setWorker s i ws wq' rw')
    | _ => none
  | .wSpurious i =>
    match s.workers[i]? with
    | some (.waiting false) =>
      let (ws, wq', rw') := loopTop s.wq s.rwork
      some (setWorker s i ws wq' rw')
    | _ => none
  | .wDone i =>
    match s.workers[i]? with
    | some (.running w cb) =>
      let s := { s with finished := s.finished ++ [cb] }
      match w.pending with
      | f :: fs => some (setWorker s i (.running { w with pending := fs } f) s.wq s.rwork)
      | [] =>
        let (ws, wq', rw') := loopTop s.wq (retire w.wid s.rwork)
        some (setWorker s i ws wq' rw')
    | _ => none
  | .shutdownCas =>
    if s.phase = .started then some { s with phase := .stopping } else none
  | .closeLock =>
    if s.phase = .stopping ∧ s.wq.isSome then some { s with wq := none } else none
  | .closeBroadcast =>
    if s.phase = .stopping ∧ s.wq.isNone then
      some { s with workers := s.workers.map fun | .waiting _ => .waiting true | x => x }
    else none
  | .shutdownDone =>
    if s.phase = .stopping ∧ s.wq.isNone ∧ s.workers.all (· = .exited) then some { s with phase := .stopped } else none

def run (s : St) : List Act → Option St
  | [] => some s
  | a :: as => (step s a).bind (run · as)

def init : St := {}

/-! ## observations used by the theorems and the trace validator -/

def wsWid : WState → Option Nat
  | .running w _ => some w.wid
  | _ => none

/-- number of live work items of group `g` (queued or owned by a running worker) -/
def cnt (g : Nat) (s : St) : Nat :=
  (s.wq.getD []).countP (·.wid == g) + s.workers.countP (fun ws => wsWid ws == some g)

/-- the pending callbacks of group `g`, in order -/
def pendingOf (g : Nat) (s : St) : List Nat :=
  ((s.wq.getD []).filter (·.wid == g)).flatMap (·.pending) ++
  (s.workers.flatMap fun ws => match ws with
    | .running w _ => if w.wid == g then w.pending else []
    | _ => [])

def cbsOf (g : Nat) (l : List (Nat × Nat)) : List Nat := (l.filter (·.1 == g)).map (·.2)

/-- callbacks running right now, with their group -/
def runningNow (s : St) : List (Nat × Nat) := s.workers.flatMap startedOf

/-- at most one callback per (non-parallel) group is running -/
def mutexOk (s : St) : Bool :=
  let r := (runningNow s).filter (·.1 != 0)
  decide ((r.map (·.1)).Nodup)

end GoRes.Pool
