import GoRes.Model.Basic
/-! Executable model of `store/badgerstore/index.go` and of the index maintenance in
`querystore.go` (`updateIndex`, `affectsQuery`, `RebuildIndexes`), over an abstract ordered
key-value database (BadgerDB's iterator semantics: forward `Seek(k)` = first key ≥ k,
reverse `Seek(k)` = last key ≤ k, `ValidForPrefix`), plus the specification of C13/C14:
"sort – filter – window". -/
namespace GoRes.Index
open GoRes

abbrev Bytes := List Nat

/-- bytewise lexicographic order -/
def ble : Bytes → Bytes → Bool
  | [], _ => true
  | _ :: _, [] => false
  | a :: as, b :: bs => if a < b then true else if a > b then false else ble as bs

def blt (a b : Bytes) : Bool := ble a b && a != b

/-- `Index.getKey`: `<Name>:<Key>\0<id>` -/
def getKey (name value id : Bytes) : Bytes := name ++ 58 :: value ++ 0 :: id

/-- `Index.getQuery`: `<Name>:<KeyPrefix>` -/
def getQuery (name pre : Bytes) : Bytes := name ++ 58 :: pre

/-- `bytes.LastIndexByte(k, 0)` -/
def lastNul (k : Bytes) : Option Nat :=
  let rec go : Bytes → Nat → Option Nat → Option Nat
    | [], _, acc => acc
    | c :: r, i, acc => go r (i + 1) (if c = 0 then some i else acc)
  go k 0 none

/-- `prefixEnd`: the smallest key that sorts after every key having the prefix — strip the
trailing 0xFF bytes, increment the last byte — or `none` if there is no such key -/
def prefixEnd (p : Bytes) : Option Bytes :=
  let q := (p.reverse.dropWhile (· = 255)).reverse
  match q.getLast? with
  | none => none
  | some c => some (q.dropLast ++ [c + 1])

/-- the keys an iterator visits: positioned by `Seek`, then while `ValidForPrefix`.  In
reverse the iterator is positioned at the last key below `prefixEnd` (`Seek(end)` lands on the
largest key ≤ `end`; `end` itself is stepped over), or at the very last key (`Rewind`) -/
def scan (keys : List Bytes) (pre : Bytes) (reverse : Bool) : List Bytes :=
  if reverse then
    let below := match prefixEnd pre with
      | some e => keys.filter (fun k => blt k e)
      | none => keys
    (below.reverse).takeWhile (fun k => pre.isPrefixOf k)
  else
    (keys.dropWhile (fun k => blt k pre)).takeWhile (fun k => pre.isPrefixOf k)

/-- the body of the iteration loop of `FetchCollection` -/
def collect (name : Bytes) (qplen : Nat) (filter : Bytes → Bool) :
    List Bytes → Int → Int → List Bytes → Option (List Bytes)
  | [], _, _, acc => some acc
  | k :: rest, offset, limit, acc =>
    match lastNul k with
    | none => none                                   -- "index entry is invalid"
    | some idx =>
      if qplen > idx then collect name qplen filter rest offset limit acc
      else if !filter ((k.take idx).drop (name.length + 1)) then collect name qplen filter rest offset limit acc
      else if offset > 0 then collect name qplen filter rest (offset - 1) limit acc
      else
        let acc := acc ++ [k.drop (idx + 1)]
        if limit - 1 = 0 then some acc else collect name qplen filter rest offset (limit - 1) acc

/-- `IndexQuery.FetchCollection` over the sorted keys of the database; `none` = error -/
def fetch (keys : List Bytes) (name pre : Bytes) (filter : Bytes → Bool) (offset limit : Int) (reverse : Bool) :
    Option (List Bytes) :=
  if limit = 0 then some []
  else
    let limit := if limit < 0 then (9223372036854775807 : Int) else limit
    let qp := getQuery name pre
    collect name qp.length filter (scan keys qp reverse) offset limit []

/-! ## specification -/

/-- lexicographic order on (key, id) -/
def pairLe (a b : Bytes × Bytes) : Bool :=
  if a.1 = b.1 then ble a.2 b.2 else ble a.1 b.1

def insertSorted (x : Bytes × Bytes) : List (Bytes × Bytes) → List (Bytes × Bytes)
  | [] => [x]
  | y :: r => if pairLe x y then x :: y :: r else y :: insertSorted x r

def sortPairs (l : List (Bytes × Bytes)) : List (Bytes × Bytes) := l.foldr insertSorted []

/-- **C13**: the ids of the entries whose key starts with the prefix and passes the filter,
ordered bytewise by (key, id) — reversed when asked — then cut by offset and limit -/
def spec (entries : List (Bytes × Bytes)) (pre : Bytes) (filter : Bytes → Bool) (offset limit : Int) (reverse : Bool) :
    List Bytes :=
  if limit = 0 then [] else
  let hits := (sortPairs entries).filter (fun e => pre.isPrefixOf e.1 && filter e.1)
  let ordered := if reverse then hits.reverse else hits
  let cut := ordered.drop offset.toNat
  ((if limit < 0 then cut else cut.take limit.toNat).map (·.2))

/-! ## index maintenance -/

/-- an index: its name and the key of each value (`none` = not indexed) -/
structure Idx (V : Type) where
  name : Bytes
  key : V → Option Bytes

/-- the database as a sorted association list -/
abbrev DB := List (Bytes × Bytes)

def dbInsert (k v : Bytes) : DB → DB
  | [] => [(k, v)]
  | (k', v') :: r => if k = k' then (k, v) :: r else if blt k k' then (k, v) :: (k', v') :: r else (k', v') :: dbInsert k v r

def dbDelete (k : Bytes) (db : DB) : DB := db.filter (·.1 != k)

/-- `updateIndex` for one index: returns the database and whether the index changed -/
def updateOne {V} (idx : Idx V) (id : Bytes) (before after : Option V) (db : DB) : DB × Bool :=
  let bk := before.bind idx.key
  let ak := after.bind idx.key
  if bk = ak then (db, false)
  else
    let db := match bk with | some k => dbDelete (getKey idx.name k id) db | none => db
    let db := match ak with | some k => dbInsert (getKey idx.name k id) [] db | none => db
    (db, true)

/-- `updateIndex`: all indexes in one transaction; the flag tells whether the query-change
callbacks run -/
def updateIndex {V} (idxs : List (Idx V)) (id : Bytes) (before after : Option V) (db : DB) : DB × Bool :=
  idxs.foldl (fun (acc : DB × Bool) idx => let (db', u) := updateOne idx id before after acc.1; (db', acc.2 || u)) (db, false)

/-- `queryChange.affectsQuery` -/
def affectsQuery {V} (idx : Idx V) (pre : Bytes) (filter : Option (Bytes → Bool)) (before after : Option V) : Bool :=
  let bk := before.bind idx.key
  let ak := after.bind idx.key
  if bk = ak then false
  else
    let m (k : Option Bytes) : Bool := match k with
      | some k => pre.isPrefixOf k && (match filter with | some f => f k | none => true)
      | none => false
    m bk || m ak

end GoRes.Index

namespace GoRes.Index

/-- the (key, id) entries an index should hold for a set of stored values -/
def entriesOf {V} (idx : Idx V) (vals : List (Bytes × V)) : List (Bytes × Bytes) :=
  vals.filterMap fun (id, v) => (idx.key v).map (fun k => (k, id))

/-- the stored values as an association list with distinct ids -/
def vget {V} (l : List (Bytes × V)) (k : Bytes) : Option V := (l.find? (·.1 == k)).map (·.2)
def vset {V} (l : List (Bytes × V)) (k : Bytes) (v : V) : List (Bytes × V) :=
  if l.any (·.1 == k) then l.map (fun e => if e.1 == k then (k, v) else e) else l ++ [(k, v)]
def vdel {V} (l : List (Bytes × V)) (k : Bytes) : List (Bytes × V) := l.filter (·.1 != k)
def vput {V} (l : List (Bytes × V)) (k : Bytes) : Option V → List (Bytes × V)
  | some v => vset l k v
  | none => vdel l k

/-- a history of mutations `(id, new value or delete)` applied to values and index together,
the index being updated by `updateIndex` with the value before and after (as `handleChange`
queues them, in order) -/
def applyHist {V} (idxs : List (Idx V)) : List (Bytes × Option V) → List (Bytes × V) × DB → List (Bytes × V) × DB
  | [], s => s
  | (id, after) :: rest, (vals, db) =>
    applyHist idxs rest (vput vals id after, (updateIndex idxs id (vget vals id) after db).1)

/-- `RebuildIndexes`: drop every entry of every index, then rescan the values -/
def rebuild {V} (idxs : List (Idx V)) (vals : List (Bytes × V)) (db : DB) : DB :=
  let cleared := db.filter (fun e => !idxs.any (fun ix => (getQuery ix.name []).isPrefixOf e.1))
  vals.foldl (fun db (id, v) => (updateIndex idxs id none (some v) db).1) cleared

/-- the keys of `db` that belong to index `name` -/
def keysOf (name : Bytes) (db : DB) : List Bytes := (db.map (·.1)).filter (fun k => (getQuery name []).isPrefixOf k)

end GoRes.Index
