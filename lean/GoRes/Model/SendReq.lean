import GoRes.Model.Basic
/-! Executable model of `resprot.SendRequest` (C19): the failure paths before waiting, then
the `select` loop as a function of a timed history of inbox messages and the current
deadline, with the pre-response recognition (`(b|32) ∈ a..z`, `reflect.StructTag.Lookup`,
`strconv.Atoi`) on the message bytes. Times are milliseconds since the request was
published; a message arriving exactly at the deadline is a genuine race in Go's `select`
and is excluded by the theorems' hypotheses. -/
namespace GoRes.SendReq
open GoRes

/-! ## pre-response recognition -/

/-- `len(data) == 0 || (data[0]|32) < 'a' || (data[0]|32) > 'z'`: a (final) response -/
def isResponse (data : Str) : Bool :=
  match data with
  | [] => true
  | c :: _ => let l := c ||| 32; l < 97 || l > 122

/-- `reflect.StructTag.Lookup(key)` for the conventional format `name:"value" name2:"value2"`
(values without escapes) -/
def tagLookup (key : Str) : Nat → Str → Option Str
  | 0, _ => none
  | fuel + 1, tag =>
    -- skip leading spaces
    let tag := tag.dropWhile (· = 32)
    if tag.isEmpty then none else
    -- scan the name: up to ':' ; stops at space, quote or control
    let name := tag.takeWhile (fun c => c > 32 ∧ c ≠ 58 ∧ c ≠ 34 ∧ c ≠ 127)
    let rest := tag.drop name.length
    if name.isEmpty then none else
    match rest with
    | 58 :: 34 :: r =>
      -- scan the quoted value (no escapes modelled: a backslash makes the conventional parse stop)
      let val := r.takeWhile (fun c => c ≠ 34 ∧ c ≠ 92)
      match r.drop val.length with
      | 34 :: r' => if name = key then some val else tagLookup key fuel r'
      | _ => none
    | _ => none

/-- `strconv.Atoi` (values that fit an int64) -/
def atoi (s : Str) : Option Int :=
  let (neg, digits) := match s with
    | 45 :: r => (true, r)
    | 43 :: r => (false, r)
    | r => (false, r)
  if digits.isEmpty ∨ !digits.all (fun c => 48 ≤ c ∧ c ≤ 57) then none
  else
    let n : Nat := digits.foldl (fun acc c => acc * 10 + (c - 48)) 0
    if n > 9223372036854775807 then none else some (if neg then -(n : Int) else (n : Int))

inductive Msg
  | response (data : Str)          -- returned through ParseResponse
  | extend (ms : Int)              -- `timeout:"<ms>"`
  | ignored                        -- another pre-response, or a malformed timeout
deriving Repr, DecidableEq

def classify (data : Str) : Msg :=
  if isResponse data then .response data
  else match tagLookup b!"timeout" (data.length + 1) data with
    | some v => (match atoi v with | some ms => .extend ms | none => .ignored)
    | none => .ignored

/-! ## the request -/

structure Setup where
  marshalOk : Bool
  subscribeOk : Bool
  publishOk : Bool
  timeout : Int                   -- ms
deriving Repr

inductive Outcome
  | internalError                 -- marshal / subscribe / publish failed: returned without waiting
  | timeout
  | response (data : Str)         -- the first non-pre-response message, to be parsed
deriving Repr, DecidableEq

structure Result where
  outcome : Outcome
  extensions : List Int           -- durations handed to the onTimeoutExtend callbacks, in order
  unsubscribed : Bool             -- the inbox subscription was released
  subscribed : Bool
deriving Repr, DecidableEq

/-- the `select` loop: `hist` are the inbox messages with their arrival times (ascending) -/
def loop (deadline : Int) (exts : List Int) : List (Int × Str) → Outcome × List Int
  | [] => (.timeout, exts)
  | (t, data) :: rest =>
    if t ≥ deadline then (.timeout, exts)          -- the timer fires first
    else match classify data with
      | .response d => (.response d, exts)
      | .extend ms => loop (t + ms) (exts ++ [ms]) rest
      | .ignored => loop deadline exts rest

def sendRequest (s : Setup) (hist : List (Int × Str)) : Result :=
  if !s.marshalOk then ⟨.internalError, [], false, false⟩
  else if !s.subscribeOk then ⟨.internalError, [], false, false⟩
  else if !s.publishOk then ⟨.internalError, [], true, true⟩
  else
    let (o, exts) := loop s.timeout [] hist
    ⟨o, exts, true, true⟩

end GoRes.SendReq
