/-! Shared basics for all go-res models.

Go strings are byte strings; the models represent them as `List Nat`
(each element is one byte value; theorems are proved for arbitrary naturals,
which includes every byte string).  Keeping `Nat` (not `UInt8`) lets `omega`
and `decide` discharge the character-class side conditions directly. -/
namespace GoRes

abbrev Str := List Nat

namespace Ch
@[reducible] def dot : Nat := 46      -- '.'
@[reducible] def dollar : Nat := 36   -- '$'
@[reducible] def star : Nat := 42     -- '*'
@[reducible] def gt : Nat := 62       -- '>'
@[reducible] def qmark : Nat := 63    -- '?'
@[reducible] def lbrace : Nat := 123  -- '{'
@[reducible] def rbrace : Nat := 125  -- '}'
end Ch

open Lean in
/-- `b!"text"`: the bytes of a string literal as an explicit `List Nat` literal, expanded at
elaboration time, so that it reduces in the kernel (`str "text"` computes the same list at
run time but does not reduce by `decide`/`rfl`). -/
macro:max "b!" s:str : term => do
  let bytes := s.getString.toUTF8.toList.map (·.toNat)
  let elems : Array (TSyntax `term) := (bytes.map (fun n => (quote n : TSyntax `term))).toArray
  `(([$elems,*] : List Nat))

/-- ASCII string literal → model string -/
def str (s : String) : Str := s.toUTF8.toList.map (·.toNat)

/-- model string → Lean string (lossy for invalid UTF-8; only used for messages) -/
def Str.show (s : Str) : String :=
  String.fromUTF8! (ByteArray.mk (s.map (fun n => UInt8.ofNat n)).toArray)

/-- `strings.Split(s, ".")`-like tokeniser used by mux.go `splitPattern` and
`GetHandler` (both are hand-written loops in Go): splits at every dot, keeps
empty tokens; the empty string gives one empty token (callers guard `len == 0`
where Go does). -/
def splitDots : Str → List Str
  | [] => [[]]
  | c :: r =>
    if c = Ch.dot then [] :: splitDots r
    else match splitDots r with
      | [] => [[c]]          -- unreachable (splitDots never returns [])
      | t :: ts => (c :: t) :: ts

def joinDots : List Str → Str
  | [] => []
  | [t] => t
  | t :: r => t ++ Ch.dot :: joinDots r

end GoRes
