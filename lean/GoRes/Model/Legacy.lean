import GoRes.Model.Basic
/-! Executable model of the deprecated BadgerDB middleware (`middleware/badgerdb.go`,
`middleware/resbadger/resourcehandler.go`): the apply handlers and `getResource` for one
resource, composed with the event methods of `resource.go` (validate – apply – publish –
listeners).  Values are canonical JSON texts. -/
namespace GoRes.Legacy
open GoRes

inductive LVal
  | model (m : List (Str × Str))
  | coll (l : List Str)
deriving Repr, DecidableEq

structure Cfg where
  isModel : Bool
  dflt : Option LVal
  strictDelete : Bool := false   -- package resbadger: deleting a resource that is not stored is an error
deriving Repr

/-- an event call on the resource -/
inductive Ev
  | change (props : List (Str × Option Str))    -- `none` = delete action
  | add (v : Str) (idx : Int)
  | remove (idx : Int)
  | create (v : LVal)
  | delete
deriving Repr

/-- what the event call did -/
structure Outcome where
  applied : Bool                 -- an apply handler ran and succeeded
  published : Bool               -- the event was published (and the listeners ran)
  failed : Bool                  -- the call panicked (apply error or invalid call)
  old : List (Str × Option Str)  -- change: the old values handed to listeners (`none` = delete action, i.e. the key was new)
  data : Option LVal             -- delete: the data handed to listeners
deriving Repr, DecidableEq

def nothing : Outcome := ⟨false, false, false, [], none⟩
def failure : Outcome := ⟨false, false, true, [], none⟩

def mget (m : List (Str × Str)) (k : Str) : Option Str := (m.find? (·.1 == k)).map (·.2)
def mset (m : List (Str × Str)) (k v : Str) : List (Str × Str) :=
  if m.any (·.1 == k) then m.map (fun e => if e.1 == k then (k, v) else e) else m ++ [(k, v)]
def mdel (m : List (Str × Str)) (k : Str) : List (Str × Str) := m.filter (·.1 != k)

/-- `applyChange`: the new model and the `rev` map -/
def applyChange (m : List (Str × Str)) : List (Str × Option Str) → List (Str × Str) × List (Str × Option Str)
  | [] => (m, [])
  | (k, v) :: rest =>
    let (m', rev) : List (Str × Str) × List (Str × Option Str) :=
      match mget m k, v with
      | none, some x => (mset m k x, [(k, none)])
      | none, none => (m, [])
      | some ov, none => (mdel m k, [(k, some ov)])
      | some ov, some x => if x = ov then (m, []) else (mset m k x, [(k, some ov)])
    let (m'', rev') := applyChange m' rest
    (m'', rev ++ rev')

/-- what is served for the resource (`none` = not found) -/
def served (cfg : Cfg) (stored : Option LVal) : Option LVal :=
  match stored with
  | some v => some v
  | none => cfg.dflt

/-- one event call: new stored value and outcome -/
def apply (cfg : Cfg) (stored : Option LVal) : Ev → Option LVal × Outcome
  | .change props =>
    if !cfg.isModel then (stored, failure)           -- "change event not allowed on Collections"
    else if props.isEmpty then (stored, nothing)
    else match served cfg stored with
      | some (.model m) =>
        let (m', rev) := applyChange m props
        if rev.isEmpty then (stored, { nothing with applied := true })        -- changes nothing: no write, no event
        else (some (.model m'), ⟨true, true, false, rev, none⟩)
      | _ => (stored, failure)                       -- not found and no default
  | .add v idx =>
    if cfg.isModel then (stored, failure)
    else if idx < 0 then (stored, failure)
    else
      let base : List Str := match served cfg stored with
        | some (.coll l) => l
        | _ => []                                     -- no default: add starts from the empty collection
      if base.length < idx.toNat then (stored, failure)
      else (some (.coll (base.insertIdx idx.toNat v)), ⟨true, true, false, [], none⟩)
  | .remove idx =>
    if cfg.isModel then (stored, failure)
    else if idx < 0 then (stored, failure)
    else match served cfg stored with
      | some (.coll l) =>
        if l.length ≤ idx.toNat then (stored, failure)
        else (some (.coll (l.eraseIdx idx.toNat)), ⟨true, true, false, [], none⟩)
      | _ => (stored, failure)
  | .create v =>
    if stored.isSome ∨ cfg.dflt.isSome then (stored, failure)      -- resource already exists
    else (some v, ⟨true, true, false, [], none⟩)
  | .delete =>
    if cfg.strictDelete ∧ stored.isNone then (stored, failure)
    else (none, ⟨true, true, false, [], stored⟩)

/-- the fold of a sequence of event calls -/
def fold (cfg : Cfg) : Option LVal → List Ev → Option LVal
  | s, [] => s
  | s, e :: es => fold cfg (apply cfg s e).1 es

end GoRes.Legacy
