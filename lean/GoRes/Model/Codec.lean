import GoRes.Model.Basic
import GoRes.Model.Json
/-! Executable model of the wire codecs (C18): `Ref`/`SoftRef.MarshalJSON` and
`MarshalDataValue` byte assembly (`make`, `copy` at offsets, as written), `store.Value`
classification and `Equal`, `UnmarshalDataValue`, `resprot.ParseResponse` and the `Has*`
accessors.  JSON text ⇄ tree is `encoding/json` (trusted): the functions below work on the
tree produced by the small reader in `Model/Json.lean`. -/
namespace GoRes.Codec
open GoRes GoRes.Json

/-! ## byte assembly -/

/-- Go `copy(dst[off:], src)` -/
def copyAt : List Nat → Nat → List Nat → List Nat
  | dst, _, [] => dst
  | [], _, _ => []
  | _ :: dst, 0, s :: src => s :: copyAt dst 0 src
  | d :: dst, off + 1, src => d :: copyAt dst off src

def refPrefix : Str := b!"{\"rid\":"
def softRefSuffix : Str := b!",\"soft\":true}"
def dataPrefix : Str := b!"{\"data\":"

/-- `Ref.MarshalJSON` given the JSON encoding `rid` of the string -/
def marshalRef (rid : Str) : Str :=
  let o := List.replicate (rid.length + 8) 0
  let o := copyAt o 0 refPrefix
  let o := copyAt o 7 rid
  o.set (o.length - 1) 125

/-- `SoftRef.MarshalJSON` -/
def marshalSoftRef (rid : Str) : Str :=
  let o := List.replicate (rid.length + 20) 0
  let o := copyAt o 0 refPrefix
  let o := copyAt o 7 rid
  copyAt o (o.length - 13) softRefSuffix

/-- `MarshalDataValue` given the JSON encoding `data` of the value -/
def marshalDataValue (data : Str) : Str :=
  match data.head? with
  | some c =>
    if c = 91 ∨ c = 123 then
      let o := List.replicate (data.length + 9) 0
      let o := copyAt o 0 dataPrefix
      let o := copyAt o 8 data
      o.set (o.length - 1) 125
    else data
  | none => data

/-! ## canonical rendering of a JSON tree (compact, member order kept) -/

mutual
def render : J → Str
  | .null => b!"null"
  | .bool true => b!"true"
  | .bool false => b!"false"
  | .num t => t
  | .str raw => 34 :: raw ++ [34]
  | .arr items => 91 :: renderItems items ++ [93]
  | .obj ms => 123 :: renderMembers ms ++ [125]
def renderItems : List J → Str
  | [] => []
  | [x] => render x
  | x :: r => render x ++ 44 :: renderItems r
def renderMembers : List (Str × J) → Str
  | [] => []
  | [(k, v)] => 34 :: k ++ 34 :: 58 :: render v
  | (k, v) :: r => 34 :: k ++ 34 :: 58 :: render v ++ 44 :: renderMembers r
end

/-! ## store.Value -/

inductive VType | primitive | reference | softReference | data | delete
deriving Repr, DecidableEq

structure Value where
  typ : VType
  raw : Str        -- `RawMessage` (canonical text)
  rid : Str
  inner : Str      -- `Inner` (canonical text of the data member)
deriving Repr, DecidableEq

/-- last member with that key (encoding/json: later duplicates win) -/
def member (ms : List (Str × J)) (k : Str) : Option J := ((ms.filter (·.1 = k)).getLast?).map (·.2)

def isValidRIDB (rid : Str) : Bool :=
  let rec go : Bool → Str → Bool
    | start, [] => !start
    | start, c :: r =>
      if c = 63 then !start
      else if c < 33 || c > 126 || c = 42 || c = 62 then false
      else if c = 46 then (if start then false else go true r)
      else go false r
  go true rid

/-- `Value.UnmarshalJSON`; `none` = error -/
def classify (j : J) : Option Value :=
  match j with
  | .arr _ => none
  | .obj ms =>
    -- decode into valueObject{RID *string, Soft bool, Action *string, Data RawMessage}
    let rid? : Option (Option Str) := match member ms b!"rid" with
      | none | some .null => some none
      | some (.str s) => some (some s)
      | _ => none
    let soft? : Option Bool := match member ms b!"soft" with
      | none | some .null => some false
      | some (.bool b) => some b
      | _ => none
    let action? : Option (Option Str) := match member ms b!"action" with
      | none | some .null => some none
      | some (.str s) => some (some s)
      | _ => none
    let data : Option J := member ms b!"data"
    match rid?, soft?, action? with
    | some rid, some soft, some action =>
      match rid with
      | some r =>
        if action.isSome ∨ data.isSome ∨ r.isEmpty then none
        else if !isValidRIDB r then none
        else some ⟨if soft then .softReference else .reference, render j, r, []⟩
      | none =>
        match action with
        | some a => if data.isSome ∨ a ≠ b!"delete" then none else some ⟨.delete, render j, [], []⟩
        | none =>
          match data with
          | some d =>
            match d with
            | .obj _ | .arr _ => some ⟨.data, render j, [], render d⟩
            | _ => some ⟨.primitive, render d, [], render d⟩
          | none => none
    | _, _, _ => none
  | _ => some ⟨.primitive, render j, [], []⟩

/-- `Value.Equal` -/
def equal (v w : Value) : Bool :=
  if v.typ ≠ w.typ then false
  else match v.typ with
    | .data => v.inner = w.inner
    | .primitive => v.raw = w.raw
    | .reference | .softReference => v.rid = w.rid
    | .delete => true

/-- what a value means in the protocol: its type and the part that carries information -/
def meaning (v : Value) : VType × Str :=
  match v.typ with
  | .data => (.data, v.inner)
  | .primitive => (.primitive, v.raw)
  | .reference => (.reference, v.rid)
  | .softReference => (.softReference, v.rid)
  | .delete => (.delete, [])

/-! ## data values -/

/-- `UnmarshalDataValue` on a parsed text: `none` = error, else the tree stored in `v` -/
def unmarshalDataValue (j : J) : Option J :=
  match j with
  | .arr _ => none
  | .obj ms => member ms b!"data"      -- missing "data" key = error; `"data":null` decodes null
  | x => some x

/-- `MarshalDataValue` on a tree -/
def marshalDataValueJ (j : J) : Str := marshalDataValue (render j)

/-! ## resprot.ParseResponse -/

inductive Resp
  | error (code : Str)
  | resource (rid : Str)
  | result (raw : Str)
deriving Repr, DecidableEq

def internalCode : Str := b!"system.internalError"

/-- `ParseResponse` + `HasError`/`HasResource`/`HasResult`; `j = none` = not JSON / empty -/
def parseResponse (j : Option J) : Resp :=
  match j with
  | none => .error internalCode
  | some (.obj ms) =>
    -- Error *res.Error
    let err? : Option (Option Str) := match member ms b!"error" with
      | none | some .null => some none
      | some (.obj es) =>
        let code? : Option Str := match member es b!"code" with
          | none | some .null => some []
          | some (.str c) => some c
          | _ => none
        let msgOk : Bool := match member es b!"message" with
          | none | some .null | some (.str _) => true
          | _ => false
        (match code? with
         | some c => if msgOk then some (some c) else none
         | none => none)
      | _ => none
    -- Resource res.Ref (its UnmarshalJSON reads {"rid": string})
    let res? : Option Str := match member ms b!"resource" with
      | none | some .null => some []
      | some (.obj rs) => (match member rs b!"rid" with
        | some (.str r) => some r
        | none | some .null => some []
        | _ => none)
      | _ => none
    let result : Option J := member ms b!"result"
    match err?, res? with
    | some (some c), some _ => .error c
    | some none, some r =>
      if !r.isEmpty then .resource r
      else match result with
        | some x => .result (render x)
        | none => .error internalCode
    | _, _ => .error internalCode
  | some .null => .error internalCode      -- `null` leaves every field unset
  | some _ => .error internalCode

def hasError : Resp → Bool | .error _ => true | _ => false
def hasResource : Resp → Bool | .resource _ => true | _ => false
def hasResult : Resp → Bool | .result _ => true | _ => false

end GoRes.Codec
