import GoRes.Model.Pattern
import GoRes.Model.Req
/-! Executable model of what the service publishes when it is driven through its own API
(C07): `Service.With`/`Resource` on a resource id followed by an event call
(`service.go` `parseRID`/`Resource`, `resource.go` event methods), `TokenEventWithID`,
`TokenReset`, `Reset` — the validity checks and the envelopes as written. -/
namespace GoRes.SvcApi
open GoRes

/-- the patterns the correspondence service registers -/
def patterns : List Str := [b!"svc.model.$id", b!"svc.static", b!"svc.all.>", b!"svc.m.$a.$b"]

/-- `parseRID`: split at the first `?` -/
def parseRID (rid : Str) : Str × Str :=
  (rid.takeWhile (· ≠ 63), (rid.dropWhile (· ≠ 63)).drop 1)

structure Pub where
  subj : Str
  payload : Str
deriving Repr, DecidableEq

inductive Out
  | err                      -- `With` returns an error: no matching handler
  | panic                    -- the call panics (invalid argument); nothing is published
  | pubs (l : List Pub)      -- what is published (possibly nothing)
  | info (name query : Str)  -- `ResourceName()` and `Query()` of the resource handed to the callback
deriving Repr, DecidableEq

inductive Act
  | custom (name : Str) | change | reset | reaccess | create | delete | query | resource
deriving Repr, DecidableEq

def q (s : Str) : Str := 34 :: s ++ [34]
def jsonList (l : List Str) : Str := 91 :: (Req.obj.joinWith 44 (l.map q)) ++ [93]

def eventSubj (rname name : Str) : Str := b!"event." ++ rname ++ 46 :: name

/-- `s.With(rid, func(r) { <act> })` on a service whose handlers are `pats` -/
def withOp (pats : List Str) (rid : Str) (act : Act) : Out :=
  let (rname, query) := parseRID rid
  if !(pats.any (fun p => Pattern.matches p rname)) then .err else
  match act with
  | .custom name =>
    if Req.reserved.contains name || !Req.isValidPartB name then .panic
    else .pubs [⟨eventSubj rname name, b!"{\"v\":1}"⟩]
  | .change => .pubs [⟨eventSubj rname b!"change", b!"{\"values\":{\"k\":1}}"⟩]
  | .reset => .pubs [⟨b!"system.reset", b!"{\"resources\":" ++ jsonList [rname] ++ [125]⟩]
  | .reaccess => .pubs [⟨eventSubj rname b!"reaccess", []⟩]
  | .create => .pubs [⟨eventSubj rname b!"create", []⟩]
  | .delete => .pubs [⟨eventSubj rname b!"delete", []⟩]
  | .query => .pubs [⟨eventSubj rname b!"query", b!"<inbox>"⟩]
  | .resource => .info rname query

/-- `TokenReset(subject, tids...)` -/
def tokenReset (subj : Str) (tids : List Str) : Out :=
  if subj.isEmpty || !Pattern.isValidPath subj then .panic
  else if tids.isEmpty then .pubs []
  else .pubs [⟨b!"system.tokenReset", b!"{\"subject\":" ++ q subj ++ b!",\"tids\":" ++ jsonList tids ++ [125]⟩]

/-- `TokenEventWithID(cid, tid, token)`; `tok = none`: the token cannot be marshalled -/
def tokenEvent (cid tid : Str) (tok : Option Str) : Out :=
  if !Pattern.isValidPart cid then .panic
  else match tok with
    | none => .pubs []
    | some t =>
      let tidPart := if tid.isEmpty then [] else b!"\"tid\":" ++ q tid ++ [44]
      .pubs [⟨b!"conn." ++ cid ++ b!".token", 123 :: tidPart ++ b!"\"token\":" ++ t ++ [125]⟩]

/-- `Reset(resources, access)` -/
def sreset (rs as : List Str) : Out :=
  if rs.isEmpty && as.isEmpty then .pubs []
  else
    let a := if as.isEmpty then [] else [b!"\"access\":" ++ jsonList as]
    let r := if rs.isEmpty then [] else [b!"\"resources\":" ++ jsonList rs]
    .pubs [⟨b!"system.reset", 123 :: Req.obj.joinWith 44 (a ++ r) ++ [125]⟩]

/-! ## what a publication must look like -/

/-- a token of a RES resource name: visible ASCII without `.`, `*`, `>`, `?` -/
def validToken (t : Str) : Bool := !t.isEmpty && t.all (fun c => decide (c > 32 ∧ c < 127 ∧ c ≠ 46 ∧ c ≠ 42 ∧ c ≠ 62 ∧ c ≠ 63))
def validName (s : Str) : Bool := !s.isEmpty && (splitDots s).all validToken
/-- a NATS subject one may publish on: non-empty tokens without whitespace, none of them a wildcard -/
def natsToken (t : Str) : Bool := !t.isEmpty && t.all (fun c => decide (c > 32 ∧ c ≠ 127)) && t != [42] && t != [62]
def natsSubject (s : Str) : Bool := !s.isEmpty && (splitDots s).all natsToken

end GoRes.SvcApi
