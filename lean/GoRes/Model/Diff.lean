import GoRes.Model.Basic
/-! Executable model of `store/storehandler.go` (`changeHandler`, `modelDiff`,
`collectionDiff` **as written**: prefix/suffix trimming, the LCS table, the
backtracking `switch`, the `adds` records and the final index formula over
`Int`), and the reference RES client cache that property C10 judges events by. -/
namespace GoRes.Diff
open GoRes

/-! ## reference client (specification side) -/

/-- a collection event as a RES client receives it -/
inductive Ev (α : Type)
  | remove (idx : Int)
  | add (v : α) (idx : Int)
deriving Repr, DecidableEq

/-- apply one event with the range checks a client performs -/
def applyEv {α} (l : List α) : Ev α → Option (List α)
  | .remove i => if 0 ≤ i ∧ i.toNat < l.length then some (l.eraseIdx i.toNat) else none
  | .add v i => if 0 ≤ i ∧ i.toNat ≤ l.length then some (l.insertIdx i.toNat v) else none

def applyAll {α} (l : List α) : List (Ev α) → Option (List α)
  | [] => some l
  | e :: es => (applyEv l e).bind (applyAll · es)

/-- a model as an association list with unique keys; a change event is a list of
`(key, some v)` (set) / `(key, none)` (delete action) -/
abbrev Model (α : Type) := List (Str × α)

def mget {α} (m : Model α) (k : Str) : Option α := (m.find? (·.1 == k)).map (·.2)
def mset {α} (m : Model α) (k : Str) (v : α) : Model α :=
  if m.any (·.1 == k) then m.map (fun e => if e.1 == k then (k, v) else e) else m ++ [(k, v)]
def mdel {α} (m : Model α) (k : Str) : Model α := m.filter (·.1 != k)

def applyChange {α} (m : Model α) (ch : List (Str × Option α)) : Model α :=
  ch.foldl (fun m (k, v) => match v with
    | some v => mset m k v
    | none => mdel m k) m

/-! ## collectionDiff, as written -/

section
variable {α : Type} [DecidableEq α] [Inhabited α]

/-- `for s < m && s < n && a[s].Equal(b[s]) { s++ }` -/
def commonPrefix : List α → List α → Nat
  | x :: xs, y :: ys => if x = y then commonPrefix xs ys + 1 else 0
  | _, _ => 0

/-- the LCS matrix of the two nested loops, row by row: `row i` is `c[i + w*j]` for `j = 0..n` -/
def nextRow (ai : α) (bb : List α) (prev : List Nat) : List Nat :=
  -- prev = c[i][0..n], result = c[i+1][0..n]
  let rec go (bs : List α) (prev : List Nat) (left : Nat) (acc : List Nat) : List Nat :=
    match bs, prev with
    | b :: bs', diag :: up :: prest =>
      let v := if ai = b then diag + 1 else (if up > left then up else left)
      go bs' (up :: prest) v (acc ++ [v])
    | _, _ => acc
  go bb prev 0 [0]

def lcsRows (aa bb : List α) : List (List Nat) :=
  aa.foldl (fun rows ai => rows ++ [nextRow ai bb (rows.getLastD [])]) [List.replicate (bb.length + 1) 0]

/-- `c[i + w*j]` -/
def lcsTable (aa bb : List α) : Nat → Nat → Nat :=
  let rows := lcsRows aa bb
  fun i j => (rows.getD i []).getD j 0

/-- state of the backtracking `Loop:` -/
structure Walk where
  removes : List Int := []               -- RemoveEvent(idx) in emission order
  adds : List (Nat × Int × Int) := []    -- `adds` records {n, idx, rems}
  rems : Int := 0
deriving Repr

/-- the `Loop:` of `collectionDiff`; `c i j` is `c[i + w*j]` -/
def walk (aa bb : Array α) (c : Nat → Nat → Nat) : Nat → Nat → Nat → Int → Walk → Walk
  | 0, _, _, _, st => st
  | fuel + 1, i, j, idx, st =>
    if i > 0 ∧ j > 0 ∧ aa[i - 1]! = bb[j - 1]! then
      walk aa bb c fuel (i - 1) (j - 1) (idx - 1) st
    else if j > 0 ∧ (i = 0 ∨ c i (j - 1) ≥ c (i - 1) j) then
      walk aa bb c fuel i (j - 1) idx { st with adds := st.adds ++ [(j - 1, idx, st.rems)] }
    else if i > 0 ∧ (j = 0 ∨ c i (j - 1) < c (i - 1) j) then
      walk aa bb c fuel (i - 1) j (idx - 1) { st with removes := st.removes ++ [idx - 1], rems := st.rems + 1 }
    else st

/-- `collectionDiff` for an arbitrary table `c` (the events it emits, in order) -/
def collectionDiffWith (tbl : List α → List α → Nat → Nat → Nat) (a b : List α) : List (Ev α) :=
  let s := commonPrefix a b
  if s = a.length ∧ s = b.length then [] else
  let t := commonPrefix (a.drop s).reverse (b.drop s).reverse
  let aa := (a.drop s).take (a.length - s - t)
  let bb := (b.drop s).take (b.length - s - t)
  let m := aa.length
  let n := bb.length
  let w := walk aa.toArray bb.toArray (tbl aa bb) (m + n + 1) m n ((m + s : Nat) : Int) {}
  let l : Int := (w.adds.length : Int) - 1
  let addEvs := (List.range w.adds.length).reverse.map fun i =>
    let (bn, idx, r) := w.adds[i]!
    Ev.add (bb.toArray[bn]!) (idx - w.rems + r + l - (i : Int))
  w.removes.map Ev.remove ++ addEvs

/-- `collectionDiff` -/
def collectionDiff (a b : List α) : List (Ev α) := collectionDiffWith lcsTable a b

/-! ## modelDiff -/

/-- `modelDiff`: the change map (sorted by nothing — a Go map; compare as sets) -/
def modelDiff (before after : Model α) : List (Str × Option α) :=
  (before.filterMap fun (k, _) => if (mget after k).isNone then some (k, none) else none) ++
  (after.filterMap fun (k, v) => match mget before k with
    | some ov => if v = ov then none else some (k, some v)
    | none => some (k, some v))

end

/-! ## changeHandler -/

inductive Typ | model | collection
deriving Repr, DecidableEq

inductive Val (α : Type)
  | model (m : Model α)
  | coll (l : List α)
deriving Repr

inductive Out (α : Type)
  | create
  | delete
  | change (ch : List (Str × Option α))
  | coll (evs : List (Ev α))
  | nothing
  | badtype
deriving Repr

/-- `changeHandler`: which events a store mutation `before → after` publishes for a handler of
type `typ` with default `dflt` (transform failures are not modelled: the transformer is total) -/
def changeHandler {α} [DecidableEq α] [Inhabited α] (typ : Typ) (dflt : Option (Val α))
    (before after : Option (Val α)) : Out α :=
  let b := match before with | none => dflt | some v => some v
  let a := match after with | none => dflt | some v => some v
  match b, a with
  | none, none => .nothing
  | none, some _ => .create
  | some _, none => .delete
  | some bv, some av =>
    match typ, bv, av with
    | .model, .model bm, .model am =>
      let ch := modelDiff bm am
      if ch.isEmpty then .nothing else .change ch
    | .collection, .coll bl, .coll al =>
      let evs := collectionDiff bl al
      if evs.isEmpty then .nothing else .coll evs
    | _, _, _ => .badtype

end GoRes.Diff
