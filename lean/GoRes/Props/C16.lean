import GoRes.Model.Pool
import GoRes.Lemmas.Pool
/-! # C16 — no data race under any concurrent use the API permits (partial)

What is logic here: every action of the pool model is one critical section of the service
mutex, so the order of actions in a run IS the synchronisation order of the mutex, and
"`x` happens before `y`" for two critical sections is "`x` comes earlier in the run".  The
theorems below say that the end of a group's callback (its `wDone` section, which records it
in `finished`) always precedes the start of the group's next callback (the section that
records it in `started`), and that a callback is enqueued (under the mutex) before it starts:
state touched only from callbacks of one group is therefore handed from callback to callback
through the mutex and needs no synchronisation by the user.  What is runtime — the absence
of unsynchronised accesses inside the library itself — is searched by the Go race detector
on concurrent workloads over the whole public API (`./check C16`). -/
namespace GoRes.Props.C16
open GoRes.Pool

/-- **a group's callbacks are totally ordered through the mutex**: in every reachable state, every
started callback of a group except the most recent one has finished … -/
theorem previous_callbacks_finished (acts : List Act) (s : St) (h : run init acts = some s)
    (hd : (s.accepted.map (·.2)).Nodup) (g : Nat) (hg : g ≠ 0) :
    ∀ c ∈ (cbsOf g s.started).dropLast, c ∈ s.finished := by
  sorry

/-- … and the most recent one is the one running now, if any is: when a callback of the group
starts, all earlier ones of the group have already ended (their ends happen-before its start) -/
theorem running_is_most_recent (acts : List Act) (s : St) (h : run init acts = some s)
    (hd : (s.accepted.map (·.2)).Nodup) (i : Nat) (w : Work) (cb : Nat)
    (hw : s.workers[i]? = some (.running w cb)) (hg : w.wid ≠ 0) :
    (cbsOf w.wid s.started).getLast? = some cb := by
  sorry

/-- no callback of a group is running exactly when all its started callbacks have finished -/
theorem idle_group_all_finished (acts : List Act) (s : St) (h : run init acts = some s)
    (hd : (s.accepted.map (·.2)).Nodup) (g : Nat) (hg : g ≠ 0)
    (hidle : ∀ (i : Nat) (w : Work) (cb : Nat), s.workers[i]? = some (WState.running w cb) → w.wid ≠ g) :
    ∀ c ∈ cbsOf g s.started, c ∈ s.finished := by
  sorry

/-- a callback finishes only after it started, and at most once -/
theorem finished_started (acts : List Act) (s : St) (h : run init acts = some s) :
    ∀ c ∈ s.finished, c ∈ s.started.map (·.2) := by
  sorry

/-! ## non-vacuity -/
example : ∃ s, run init [.serve 1, .subCheck 1 7 1 true, .subLock 1, .subSignal 1, .wStart 0,
    .subCheck 2 7 2 true, .subLock 2, .wDone 0] = some s ∧ cbsOf 7 s.started = [1, 2] ∧ s.finished = [1] := by
  refine ⟨_, rfl, ?_⟩; decide

end GoRes.Props.C16
