import GoRes.Model.Pool
import GoRes.Lemmas.Pool
import GoRes.Lemmas.PoolHB
import GoRes.Model.Discipline
/-! # C16 — no data race under any concurrent use the API permits (partial)

What is logic here: every action of the pool model is one critical section of the service
mutex, so the order of actions in a run IS the synchronisation order of the mutex, and
"`x` happens before `y`" for two critical sections is "`x` comes earlier in the run".  The
theorems below say that the end of a group's callback (its `wDone` section, which records it
in `finished`) always precedes the start of the group's next callback (the section that
records it in `started`), and that a callback is enqueued (under the mutex) before it starts:
state touched only from callbacks of one group is therefore handed from callback to callback
through the mutex and needs no synchronisation by the user.  What is runtime — the absence
of unsynchronised accesses inside the library itself — is searched by the Go race detector
on concurrent workloads over the whole public API (`./check C16`). -/
namespace GoRes.Props.C16
open GoRes.Pool

/- `hd` (unique callback ids) is kept in the three statements below so that `c ∈ s.finished` names one
callback; the proofs hold without it (the linter is silenced instead of renaming the binder).  What
does need `hd` is the converse reading, `running_not_finished` / `finished_at_most_once` at the end. -/
set_option linter.unusedVariables false

/-- **a group's callbacks are totally ordered through the mutex**: in every reachable state, every
started callback of a group except the most recent one has finished … -/
theorem previous_callbacks_finished (acts : List Act) (s : St) (h : run init acts = some s)
    (hd : (s.accepted.map (·.2)).Nodup) (g : Nat) (hg : g ≠ 0) :
    ∀ c ∈ (cbsOf g s.started).dropLast, c ∈ s.finished := by
  have hI := Inv.reachable h
  obtain ⟨pre, h1, h2⟩ := (InvHB.reachable h).hb g hg
  have hlen : (cbsOf g (runL s.workers)).length ≤ 1 := by
    rw [length_cbsOf_runL]; have := hI.le g hg; omega
  intro c hc
  rw [h1] at hc
  match hr : cbsOf g (runL s.workers), hlen with
  | [], _ =>
    rw [hr, List.append_nil] at hc
    exact h2 c (List.dropLast_subset _ hc)
  | [x], _ =>
    rw [hr, List.dropLast_concat] at hc
    exact h2 c hc

/-- … and the most recent one is the one running now, if any is: when a callback of the group
starts, all earlier ones of the group have already ended (their ends happen-before its start) -/
theorem running_is_most_recent (acts : List Act) (s : St) (h : run init acts = some s)
    (hd : (s.accepted.map (·.2)).Nodup) (i : Nat) (w : Work) (cb : Nat)
    (hw : s.workers[i]? = some (.running w cb)) (hg : w.wid ≠ 0) :
    (cbsOf w.wid s.started).getLast? = some cb := by
  have hI := Inv.reachable h
  obtain ⟨pre, h1, _⟩ := (InvHB.reachable h).hb w.wid hg
  have hle : cntW w.wid s.workers ≤ 1 := by have := hI.le _ hg; omega
  rw [h1, cbsOf_runL_running hw rfl hle]
  simp

/-- no callback of a group is running exactly when all its started callbacks have finished -/
theorem idle_group_all_finished (acts : List Act) (s : St) (h : run init acts = some s)
    (hd : (s.accepted.map (·.2)).Nodup) (g : Nat) (hg : g ≠ 0)
    (hidle : ∀ (i : Nat) (w : Work) (cb : Nat), s.workers[i]? = some (WState.running w cb) → w.wid ≠ g) :
    ∀ c ∈ cbsOf g s.started, c ∈ s.finished := by
  obtain ⟨pre, h1, h2⟩ := (InvHB.reachable h).hb g hg
  have h0 : cntW g s.workers = 0 := by
    simp only [cntW, List.countP_eq_zero]
    intro ws hws hp
    obtain ⟨i, hi⟩ := List.getElem?_of_mem hws
    cases ws with
    | running w cb => exact hidle i w cb hi (by simpa [isWS, wsWid] using hp)
    | _ => simp [isWS, wsWid] at hp
  rw [h1, cbsOf_runL_of_cnt h0, List.append_nil]
  exact h2

/-- a callback finishes only after it started, and at most once -/
theorem finished_started (acts : List Act) (s : St) (h : run init acts = some s) :
    ∀ c ∈ s.finished, c ∈ s.started.map (·.2) :=
  (InvHB.reachable h).fin

/-- with unique ids the running callback is not among the finished ones: "finished" in the theorems
above really is an earlier end, not the current callback under a reused id (all groups, Parallel included) -/
theorem running_not_finished (acts : List Act) (s : St) (h : run init acts = some s)
    (hd : (s.accepted.map (·.2)).Nodup) (i : Nat) (w : Work) (cb : Nat)
    (hw : s.workers[i]? = some (.running w cb)) : cb ∉ s.finished :=
  GoRes.Pool.running_not_finished (Inv.reachable h) (InvHB.reachable h) hd hw

/-- … and a callback finishes at most once -/
theorem finished_at_most_once (acts : List Act) (s : St) (h : run init acts = some s)
    (hd : (s.accepted.map (·.2)).Nodup) : s.finished.Nodup :=
  finished_nodup (Inv.reachable h) (InvHB.reachable h) hd

/-! ## access discipline of the library's own shared state, re-proved against the source on every run

`Generated/Access.lean` lists every read and write of a field of `Service`, `work` and `queryEvent`
found in /repo's current source, with the mutex state at that point and whether it is an atomic
operation; `Model/Discipline.lean` gives each field its synchronisation policy.  The theorems are
closed by kernel evaluation over the regenerated table, so a change of the source that moves an
access out of the mutex, turns an atomic access into a plain one, adds a writer outside the set-up
functions, or touches the connection fields after the service counts as started, makes them fail. -/

open GoRes.Discipline in
/-- **every access to shared state obeys the policy of its field** (mutex held, atomic, set-up only,
or lifecycle-ordered) -/
theorem discipline : ∀ a ∈ Generated.accesses, accOk a = true := by
  decide +kernel

open GoRes.Discipline in
/-- no field of the three structs is left without a policy: a new field must be classified -/
theorem every_field_classified :
    ∀ sf ∈ Generated.structFields, ∀ f ∈ sf.2, fieldClassified sf.1 f = true := by
  decide +kernel

open GoRes.Discipline in
/-- the same for the loggers and the BadgerDB store and query store: `MemLogger`'s buffer only under
its mutex; configuration fields written only by their setters -/
theorem discipline_ext : ∀ a ∈ Generated.extAccesses, accOk a = true := by
  decide +kernel

open GoRes.Discipline in
theorem every_ext_field_classified :
    ∀ sf ∈ Generated.extStructFields, ∀ f ∈ sf.2, fieldClassified sf.1 f = true := by
  decide +kernel

/-- a function analysed as "entered with the mutex held" really is called only with it held -/
theorem locked_entry_justified :
    ∀ c ∈ Generated.calls, Generated.entryLocked.contains c.1 = true → c.2.2 = "L" := by
  decide +kernel

open GoRes.Discipline in
/-- the start/stop state machine orders the unguarded accesses: `serve` writes everything the workers
read before it starts them and publishes `stateStarted` only afterwards, and neither `serve` (from
then on) nor `subscribe` touches what a concurrent `Shutdown` clears; `Shutdown` begins with its CAS
and publishes `stateStopped` last -/
theorem lifecycle_order :
    (Generated.sourceOrder.lookup "Service.serve").map serveOrderOk = some true ∧
    (Generated.sourceOrder.lookup "Service.subscribe").map subscribeOrderOk = some true ∧
    (Generated.sourceOrder.lookup "Service.Shutdown").map shutdownOrderOk = some true := by
  decide +kernel

/-! ## what the `guarded` and `atomicOnly` policies buy -/

open GoRes.Discipline in
/-- **a location that is only ever accessed with the mutex held has no data race**, in every execution
that respects the mutex — whatever the goroutines, however many, in whatever order -/
theorem guarded_race_free (tr : List Ev) (x : Nat) (hm : MutexOrdered tr) (hg : Guarded tr x) : ¬ Race tr x := by
  rintro ⟨i, j, ei, ej, hij, hi, hj, hxi, hxj, _, _, hne, hnhb⟩
  have mi := List.mem_of_getElem? hi
  have mj := List.mem_of_getElem? hj
  obtain ⟨a, ha⟩ := Option.isSome_iff_exists.mp (hg ei mi hxi)
  obtain ⟨b, hb⟩ := Option.isSome_iff_exists.mp (hg ej mj hxj)
  obtain ⟨hab, hsame⟩ := hm i j ei ej hij hi hj a b ha hb
  rcases Nat.lt_or_eq_of_le hab with hlt | heq
  · exact hnhb ⟨ei, ej, hij, hi, hj, Or.inr ⟨a, b, ha, hb, hlt⟩⟩
  · exact hne (hsame heq)

open GoRes.Discipline in
/-- a location that is only accessed through `sync/atomic` has no data race -/
theorem atomic_race_free (tr : List Ev) (x : Nat) (ha : AtomicOnly tr x) : ¬ Race tr x := by
  rintro ⟨i, j, ei, ej, _, hi, hj, hxi, hxj, _, hna, _, _⟩
  exact hna ⟨ha ei (List.mem_of_getElem? hi) hxi, ha ej (List.mem_of_getElem? hj) hxj⟩

/-! ## non-vacuity -/
-- two goroutines, two critical sections on location 7: guarded, mutex-ordered, and indeed ordered
open GoRes.Discipline in
example : HB [⟨1, 7, true, false, some 0⟩, ⟨2, 7, false, false, some 1⟩] 0 1 :=
  ⟨_, _, by decide, rfl, rfl, Or.inr ⟨0, 1, rfl, rfl, by decide⟩⟩
-- and an unguarded write beside a guarded read by another goroutine is a race
open GoRes.Discipline in
example : Race [⟨1, 7, true, false, none⟩, ⟨2, 7, false, false, some 0⟩] 7 := by
  refine ⟨0, 1, _, _, by decide, rfl, rfl, rfl, rfl, Or.inl rfl, by decide, by decide, ?_⟩
  rintro ⟨ei, ej, _, hi, hj, h⟩
  simp only [List.getElem?_cons_zero, List.getElem?_cons_succ, Option.some.injEq] at hi hj
  subst hi; subst hj
  rcases h with h | ⟨a, b, ha, _, _⟩
  · exact absurd h (by decide)
  · cases ha

open GoRes.Discipline in
example : (Generated.accesses.filter (fun a => Acc.lock a == "L")).length ≥ 10 ∧
    accOk ("Service", "rwork", "Service.serve", "w", "U") = false ∧
    accOk ("Service", "nc", "Service.subscribe", "r", "U") = false ∧
    accOk ("queryEvent", "expired", "queryEvent.handleQueryRequest", "r", "U") = false := by decide +kernel

example : ∃ s, run init [.serve 1, .subCheck 1 7 1 true, .subLock 1, .subSignal 1, .wStart 0,
    .subCheck 2 7 2 true, .subLock 2, .wDone 0] = some s ∧ cbsOf 7 s.started = [1, 2] ∧ s.finished = [1] := by
  refine ⟨_, rfl, ?_⟩; decide

end GoRes.Props.C16
